import Yuiv.Proofs.C17Gen
/-
C17 — the hand-written code model `Yuiv/Model/C17.lean` IS the source text of `/repo/yui/src/misc/bitseq.rs`.

`Yuiv.GenBitSeq.*` (file `Yuiv/Gen/BitSeqFn.lean`) is regenerated from the Rust source by `tools/rs2lean_fn.py` on
every `./check` run.  Each theorem below states, for ALL arguments, that a generated definition equals the
corresponding function of the hand model through the abstraction maps `toBS : BitSeqS → BS`, `toBool : Bit → Bool`
(`mapR` lifts them to results), INCLUDING when they panic.  Hypotheses, where present, only say that an argument is a
64-bit word (`InRange` / `< 2^64`), never the representation invariant.  With the refinement theorems of
`Yuiv/Props/C17.lean` this gives:  source text ⇒ generated definition = hand model ⇒ refines `List Bool`.
A semantic edit of a translated Rust function changes the generated file and the theorem about it stops checking.

Property theorems only; helpers are in `Yuiv/Proofs/C17Gen.lean`.
-/
namespace Yuiv.C17Gen
open Yuiv Res Yuiv.Rust Yuiv.GenBitSeq

/-- simp set: push `mapR` inside, right-nest binds, evaluate decided asserts, unfold the abstraction maps, the two
length constants and the three `Bit` observers, rewrite the checked operators to the model's primitives and evaluate
the primitives that cannot panic (`mask`, shifts by the literal 1, `2^n - 1`) -/
local macro "gsimp" "[" ts:Lean.Parser.Tactic.simpLemma,* "]" : tactic =>
  `(tactic| simp [mapR_bind, mapR_ite, mapR_ok, mapR_panic, bind_assoc', ite_bind, assert_true, assert_false, toBS,
      toBool, BitSeq.MAX_LEN, C17.maxLen, Bit.is_zero, Bit.is_one, Bit.as_u64, shl_eq, shr_eq, sub_eq, not_eq,
      mask_total, shl_lit1, shr_lit1, usub_pow_one, Nat.or_assoc, $ts,*])

/-! ### the abstraction maps lose nothing -/

theorem toBS_inj (a b : BitSeqS) : toBS a = toBS b ↔ a = b := by
  cases a; cases b; simp [toBS]
theorem toBool_inj (a b : Bit) : toBool a = toBool b ↔ a = b := by
  cases a <;> cases b <;> simp [toBool]

/-! ### constants, `enum Bit` -/

theorem gen_MAX_LEN_eq : BitSeq.MAX_LEN = C17.maxLen := rfl

/-- the discriminants `Bit0 = 0`, `Bit1 = 1` -/
theorem gen_Bit_discr_eq (b : Bit) : Bit.discr b = if toBool b then 1 else 0 := by cases b <;> rfl

theorem gen_Bit_is_zero_eq (b : Bit) : Bit.is_zero b = !toBool b := by cases b <;> rfl
theorem gen_Bit_is_one_eq (b : Bit) : Bit.is_one b = toBool b := by cases b <;> rfl
theorem gen_Bit_as_u64_eq (b : Bit) : Bit.as_u64 b = if toBool b then 1 else 0 := by cases b <;> rfl
/-- `impl From<bool> for Bit` is the inverse of the abstraction map -/
theorem gen_Bit_from_bool_eq (x : Bool) : toBool (Bit.From_bool.from_ x) = x := by cases x <;> rfl

/-! ### constructors -/

theorem gen_mask_eq (len : Nat) : BitSeq.mask len = C17.mask len := by
  unfold BitSeq.mask C17.mask
  simp only [decide_eq_true_eq]
  rfl

theorem gen_new_eq (val len : Nat) : mapR toBS (BitSeq.new val len) = C17.new val len := by
  unfold BitSeq.new C17.new
  simp only [gen_mask_eq, mapR_bind, mapR_ok]
  rfl

theorem gen_new_rev_eq (val len : Nat) : mapR toBS (BitSeq.new_rev val len) = C17.newRev val len := by
  unfold BitSeq.new_rev C17.newRev
  by_cases h : len ≤ 64
  · by_cases h0 : len = 0
    · gsimp [h, h0, ← gen_new_eq]
    · gsimp [h, h0, ← gen_new_eq, reverse_bits_eq]
  · gsimp [h]

theorem gen_empty_eq : mapR toBS BitSeq.empty = C17.empty := gen_new_eq 0 0
theorem gen_zeros_eq (len : Nat) : mapR toBS (BitSeq.zeros len) = C17.zeros len := gen_new_eq 0 len

theorem gen_ones_eq (len : Nat) : mapR toBS (BitSeq.ones len) = C17.ones len := by
  unfold BitSeq.ones C17.ones
  simp only [gen_mask_eq, mapR_bind, gen_new_eq]

/-! ### observers -/

theorem gen_len_eq (s : BitSeqS) : BitSeq.len s = (toBS s).len := rfl
theorem gen_as_u64_eq (s : BitSeqS) : BitSeq.as_u64 s = (toBS s).val := rfl
/-- the hand model has no `is_empty`; it is the test `len = 0` (⇔ `toList = []`) -/
theorem gen_is_empty_eq (s : BitSeqS) : BitSeq.is_empty s = decide ((toBS s).len = 0) := rfl

/-- the `while` loop terminates within the fuel, its two checked operations never overflow, and it computes the
model's `weight` (a pure function there) -/
theorem gen_weight_eq (s : BitSeqS) (h : s.val < 2 ^ 64) : BitSeq.weight s = ok (C17.weight (toBS s)) := by
  have hp := popc_le_64 s.val h
  have hl := weight_loop1_eq loopFuel s.val 0 (by unfold loopFuel; omega) (by omega)
  simp only [BitSeq.weight, C17.weight, hl, C17.weightLoop_eq 64 (toBS s).val 0 hp, bind_ok]
  rfl

theorem gen_index_eq (s : BitSeqS) (i : Nat) :
    mapR toBool (BitSeq.Index_usize.index s i) = C17.index (toBS s) i := by
  unfold BitSeq.Index_usize.index C17.index
  by_cases h : i < s.len
  · gsimp [h]
    refine bind_congr' _ (fun a => ?_)
    rcases Nat.mod_two_eq_zero_or_one a with h2 | h2 <;> simp [h2]
  · gsimp [h]

theorem gen_is_sub_eq (a b : BitSeqS) : BitSeq.is_sub a b = C17.isSub (toBS a) (toBS b) := by
  unfold BitSeq.is_sub C17.isSub
  simp only [gen_mask_eq, decide_eq_true_eq]
  by_cases h : a.len ≤ b.len
  · gsimp [h, decide_eq_beq]
  · gsimp [h]

theorem gen_cmp_eq (a b : BitSeqS) (ha : a.val < 2 ^ 64) (hb : b.val < 2 ^ 64) :
    BitSeq.Ord.cmp a b = ok (C17.cmp (toBS a) (toBS b)) := by
  unfold BitSeq.Ord.cmp C17.cmp
  simp only [gen_weight_eq a ha, gen_weight_eq b hb, BitSeq.len, BitSeq.as_u64, toBS]
  by_cases h1 : compare a.len b.len = Ordering.eq
  · gsimp [h1]
  · gsimp [h1, then_of_ne h1]

theorem gen_partial_cmp_eq (a b : BitSeqS) (ha : a.val < 2 ^ 64) (hb : b.val < 2 ^ 64) :
    BitSeq.PartialOrd.partial_cmp a b = ok (some (C17.cmp (toBS a) (toBS b))) := by
  unfold BitSeq.PartialOrd.partial_cmp
  rw [gen_cmp_eq a b ha hb]; rfl

/-! ### mutators (`&mut self` methods return the new struct) -/

theorem gen_set_eq (s : BitSeqS) (i : Nat) (b : Bit) :
    mapR toBS (BitSeq.set s i b) = C17.set (toBS s) i (toBool b) := by
  unfold BitSeq.set C17.set
  by_cases h : i < s.len
  · cases b <;> gsimp [h]
  · cases b <;> gsimp [h]

theorem gen_set_0_eq (s : BitSeqS) (i : Nat) : mapR toBS (BitSeq.set_0 s i) = C17.set (toBS s) i false :=
  gen_set_eq s i .Bit0
theorem gen_set_1_eq (s : BitSeqS) (i : Nat) : mapR toBS (BitSeq.set_1 s i) = C17.set (toBS s) i true :=
  gen_set_eq s i .Bit1

theorem gen_push_eq (s : BitSeqS) (b : Bit) :
    mapR toBS (BitSeq.push s b) = C17.push (toBS s) (toBool b) := by
  unfold BitSeq.push C17.push
  by_cases h : s.len < 64
  · have h1 : U64.add s.len 1 = ok (s.len + 1) := add_ok (by omega)
    have h2 := shl_one_ok h
    cases b <;> gsimp [h, h1, h2]
  · cases b <;> gsimp [h]

theorem gen_push_0_eq (s : BitSeqS) : mapR toBS (BitSeq.push_0 s) = C17.push (toBS s) false := gen_push_eq s .Bit0
theorem gen_push_1_eq (s : BitSeqS) : mapR toBS (BitSeq.push_1 s) = C17.push (toBS s) true := gen_push_eq s .Bit1

theorem gen_append_eq (a b : BitSeqS) :
    mapR toBS (BitSeq.append a b) = C17.append (toBS a) (toBS b) := by
  unfold BitSeq.append C17.append
  by_cases h : a.len + b.len ≤ 64
  · have h1 : U64.add a.len b.len = ok (a.len + b.len) := add_ok (by omega)
    by_cases h0 : b.len > 0
    · gsimp [h, h0, h1]
    · gsimp [h, h0, h1]
  · by_cases h2 : a.len + b.len < 2 ^ 64
    · gsimp [h, add_ok h2]
    · gsimp [h, add_panic (Nat.le_of_not_lt h2)]

theorem gen_remove_eq (s : BitSeqS) (i : Nat) (hr : s.len < 2 ^ 64) :
    mapR toBS (BitSeq.remove s i) = C17.remove (toBS s) i := by
  unfold BitSeq.remove C17.remove
  by_cases h : i < s.len
  · have h1 : U64.add i 1 = ok (i + 1) := add_ok (by omega)
    gsimp [h, h1, gen_mask_eq]
  · gsimp [h]

theorem gen_insert_eq (s : BitSeqS) (i : Nat) (b : Bit) :
    mapR toBS (BitSeq.insert s i b) = C17.insert (toBS s) i (toBool b) := by
  unfold BitSeq.insert C17.insert
  by_cases h : i ≤ s.len
  · by_cases h2 : s.len < 64
    · have h1 : U64.add s.len 1 = ok (s.len + 1) := add_ok (by omega)
      have hi : i < 64 := by omega
      have hi' : ¬ 64 ≤ i := by omega
      have h3 := shl_one_ok hi
      cases b <;> gsimp [h, h2, h1, h3, hi, hi', gen_mask_eq, shl_ok hi]
    · cases b <;> gsimp [h, h2]
  · cases b <;> gsimp [h]

theorem gen_insert_0_eq (s : BitSeqS) (i : Nat) : mapR toBS (BitSeq.insert_0 s i) = C17.insert (toBS s) i false :=
  gen_insert_eq s i .Bit0
theorem gen_insert_1_eq (s : BitSeqS) (i : Nat) : mapR toBS (BitSeq.insert_1 s i) = C17.insert (toBS s) i true :=
  gen_insert_eq s i .Bit1

theorem gen_sub_eq (s : BitSeqS) (l : Nat) : mapR toBS (BitSeq.sub s l) = C17.sub (toBS s) l := by
  unfold BitSeq.sub C17.sub
  by_cases h : l ≤ s.len
  · gsimp [h, gen_mask_eq, ← gen_new_eq]
  · gsimp [h]

/-! ### operator impls -/

/-- `impl AddAssign<Bit>` (`b += bit`) is `push` -/
theorem gen_add_assign_bit_eq (s : BitSeqS) (b : Bit) :
    mapR toBS (BitSeq.AddAssign_Bit.add_assign s b) = C17.push (toBS s) (toBool b) := gen_push_eq s b
/-- `impl AddAssign<&BitSeq>` (`a += &b`) is `append` -/
theorem gen_add_assign_bitseq_eq (a b : BitSeqS) :
    mapR toBS (BitSeq.AddAssign_BitSeq.add_assign a b) = C17.append (toBS a) (toBS b) := gen_append_eq a b

/-! ### generic constructors (`T` is any type with `Bit: From<T>`; the conversion is the explicit argument `f`) -/

/-- `impl<T> FromIterator<T> for BitSeq`: the iterator is modelled by the list of its items -/
theorem gen_from_iter_eq {T : Type} (f : T → Bit) (l : List T) (h : l.length < 2 ^ 64) :
    mapR toBS (BitSeq.FromIterator_T.from_iter f l) = C17.fromIter (l.map (fun x => toBool (f x))) := by
  unfold BitSeq.FromIterator_T.from_iter C17.fromIter
  simp only [from_iter_loop1_eq f l 0 0 (by omega), mapR_bind, gen_new_eq]

/-- `impl<T> From<T> for BitSeq`: the one-bit sequence (the hand model has no such function; it is `new bit 1`) -/
theorem gen_from_eq {T : Type} (f : T → Bit) (b : T) :
    mapR toBS (BitSeq.From_T.from_ f b) = C17.new (if toBool (f b) then 1 else 0) 1 := by
  unfold BitSeq.From_T.from_
  cases hb : f b <;> gsimp [hb, gen_new_eq]

/-! ### parsing and printing (`&str` / `String` are the lists of their chars) -/

/-- `impl_bit_from_int!(u64)`: `0 ↦ Bit0`, `1 ↦ Bit1`, anything else panics (used by `BitSeq::iter`) -/
theorem gen_Bit_from_u64_eq (v : Nat) :
    Bit.From_u64.from_ v = if v = 0 then ok .Bit0 else if v = 1 then ok .Bit1 else .panic := by
  unfold Bit.From_u64.from_
  simp only [decide_eq_true_eq]

/-- `impl_bit_from_int!(usize)` (the same macro body at 64-bit `usize`) -/
theorem gen_Bit_from_usize_eq (v : Nat) : Bit.From_usize.from_ v = Bit.From_u64.from_ v := rfl

/-- the derived `Display` of `Bit` (`#[display("0")]`, `#[display("1")]`) -/
theorem gen_Bit_display_eq (b : Bit) : Bit.Display.fmt b = [if toBool b then '1' else '0'] := by cases b <;> rfl

/-- the closure of `from_str`: `'0' ↦ Ok(Bit0)`, `'1' ↦ Ok(Bit1)`, every other char `Err` -/
theorem gen_from_str_closure_eq (c : Char) :
    (BitSeq.FromStr.from_str_closure1 c).map toBool
      = if c = '0' then some false else if c = '1' then some true else none := by
  unfold BitSeq.FromStr.from_str_closure1
  by_cases h0 : c = '0'
  · simp [h0, toBool]
  · by_cases h1 : c = '1' <;> simp [h0, h1, toBool]

/-- `BitSeq::iter`: never panics; its items are exactly the model's bits (`len` times `(val & 1, val >>= 1)`) -/
theorem gen_bitseq_iter_eq (b : BitSeqS) :
    mapR (List.map toBool) (BitSeq.iter b) = ok (C17.iter (toBS b)) := by
  unfold BitSeq.iter C17.iter
  simp only [Nat.sub_zero, iter_items_eq, mapR_ok, toBS, List.map_map]
  congr 1
  rw [List.map_congr_left (g := id) (fun x _ => by cases x <;> rfl)]
  simp

/-- `impl FromStr for BitSeq`, for EVERY string: the same value, the same `Err` (an invalid character, reported after
`from_iter` has consumed the valid prefix) and the same panic (more than 64 valid characters before the first invalid
one — also when the string then contains an invalid character) -/
theorem gen_bitseq_from_str_eq (s : List Char) :
    mapR toBS (BitSeq.FromStr.from_str s) = C17.fromStr s := by
  rw [fromStr_unfold, ← from_str_loop_eq s 0 0 (by decide)]
  rfl

/-- `impl Display for BitSeq`: never fails, and the text written is the hand model's `toStr` -/
theorem gen_bitseq_display_eq (b : BitSeqS) :
    BitSeq.Display.fmt b = ok (C17.toStr (toBS b)) := by
  unfold BitSeq.Display.fmt BitSeq.iter C17.toStr C17.iter
  simp only [Nat.sub_zero, iter_items_eq, Res.bind_ok, display_fold_eq, List.nil_append, toBS]

/-! ### the hypotheses are satisfiable, the statements are not vacuous -/

example : InRange ⟨0b10110, 5⟩ := by unfold InRange; decide
example : BitSeq.weight ⟨0b10110, 5⟩ = ok 3 := by
  rw [gen_weight_eq _ (by decide)]; decide
example : mapR toBS (BitSeq.remove ⟨0b100101, 6⟩ 2) = ok ⟨0b10001, 5⟩ := by
  rw [gen_remove_eq _ _ (by decide)]; decide
example : mapR toBS (BitSeq.FromIterator_T.from_iter Bit.From_bool.from_ [true, false, true, true, false])
    = ok ⟨0b01101, 5⟩ := by
  rw [gen_from_iter_eq _ _ (by decide)]; decide
example : mapR toBS (BitSeq.push ⟨0, 64⟩ .Bit1) = .panic := by rw [gen_push_eq]; decide
example : mapR toBS (BitSeq.FromStr.from_str "01101".toList) = ok ⟨0b10110, 5⟩ := by
  rw [gen_bitseq_from_str_eq]; decide
example : mapR toBS (BitSeq.FromStr.from_str "+101".toList) = .err := by rw [gen_bitseq_from_str_eq]; decide
example : mapR toBS (BitSeq.FromStr.from_str (List.replicate 65 '0' ++ ['x'])) = .panic := by
  rw [gen_bitseq_from_str_eq]; decide
example : BitSeq.Display.fmt ⟨0b10110, 5⟩ = ok "01101".toList := by rw [gen_bitseq_display_eq]; decide

end Yuiv.C17Gen
