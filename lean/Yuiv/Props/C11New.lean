import Yuiv.Proofs.C11New
import Yuiv.Props.C11
/-
C11 — closing the gap "`Str.WF` is not proved of `MatrixStr::new`".

Property theorems only.  Objects:
  `Csc`            the CSC storage of the input `SpMat<R>` (per column the stored `(row, value)` pairs, stored zeros
                   allowed); a value is the record `Scl` of what `MatrixStr::new` observes of it
                   (`is_zero`, `is_pm_one`, `is_unit`, `c_weight`)
  `Csc.Valid`      nalgebra's CSC invariant: row indices of every column strictly increasing and `< nrows`
  `matrixStrNew`   code model of `MatrixStr::new(a, piv_type, pivot_cond)` (`Model/C11New.lean`): the triplet loop with the
                   `is_zero` skip, the index swap for `PivotType::Cols` (the code does not transpose), the pushes, the
                   weight sums and the `PivotCondition` test; an index out of range is `Res.panic`
  `a.Stored i j r` a non-zero value `r` is stored at position `(i, j)` of the matrix
Everything downstream (`initState`, `run`, `result`, `PInv`, `Triangular`) is the unchanged model of `Props/C11.lean`.
-/
namespace Yuiv.C11
open Yuiv Res

/-- `MatrixStr::new` never panics on a valid CSC matrix and returns a well-formed structure of the right shape, for
both pivot types and every pivot condition: the hypothesis `s.WF` of all theorems of `Props/C11.lean` holds of the
structure the code builds -/
theorem matrixStrNew_wf (a : Csc) (ha : a.Valid) (t : PivType) (c : Cond) :
    ∃ s, matrixStrNew a t c = ok s ∧ s.WF ∧ s.nrows = (t.shape a).1 ∧ s.ncols = (t.shape a).2 := by
  obtain ⟨s, e, hwf, _, hn, hm, _⟩ := matrixStrNew_spec a ha t c
  exact ⟨s, e, hwf, hn, hm⟩

/-- what the tables contain, in terms of the matrix (internal row `i`, internal column `j`; `t.swap` maps back to
matrix coordinates): `entries[i]` holds exactly the columns with a stored NON-ZERO value, strictly increasing;
`cands[i]` exactly those whose value satisfies the pivot condition; the weights are the sums of `c_weight` over the
non-zero entries of the row / column -/
theorem matrixStrNew_tables (a : Csc) (ha : a.Valid) (t : PivType) (c : Cond) (s : Str)
    (hs : matrixStrNew a t c = ok s) :
    (∀ i, (colsIn s i).Pairwise (· < ·)) ∧
    (∀ i j, j ∈ colsIn s i ↔ ∃ r, a.Stored (t.swap i j).1 (t.swap i j).2 r) ∧
    (∀ i j, isCand s i j = true ↔ ∃ r, a.Stored (t.swap i j).1 (t.swap i j).2 r ∧ c.isCand r = true) ∧
    (∀ i, s.rowW.getD i 0 = rowWOf (exportEntries a t c) i) ∧
    (∀ j, s.colW.getD j 0 = colWOf (exportEntries a t c) j) := by
  obtain ⟨s', e, hwf, _, _, _, h1, h2, h3, h4⟩ := matrixStrNew_spec a ha t c
  rw [hs] at e; cases e
  refine ⟨hwf.1, ?_, ?_, h3, h4⟩
  · intro i j; rw [h1, mem_entOf_iff]
  · intro i j; rw [h2, mem_cndOf_iff]

/-- the model of `MatrixStr::new` IS `Str.build` — the function the driver applies to the tuple list `(i j w c)*` of a
`trace` request — on the tuples `exportEntries` derives from the raw storage (by definition; stated so that it stays so) -/
theorem matrixStrNew_eq_build (a : Csc) (t : PivType) (c : Cond) :
    matrixStrNew a t c = Str.build (t.shape a).1 (t.shape a).2 (exportEntries a t c) := rfl

/-- the loop of `MatrixStr::new` in isolation: tuples with indices in range never make it panic -/
theorem pushAll_no_panic (m n : Nat) (es : List (Nat × Nat × Nat × Bool))
    (h : ∀ e ∈ es, e.1 < m ∧ e.2.1 < n) : ∃ s, Str.build m n es = ok s ∧ s.nrows = m ∧ s.ncols = n := by
  obtain ⟨s, e, _, hn, hm, _⟩ := pushAll_spec es (Str.empty m n) (Str.empty_sized m n) h
  exact ⟨s, e, hn, hm⟩

/-- COMPOSED MAIN THEOREM.  For every valid CSC matrix, pivot type and pivot condition: `MatrixStr::new` succeeds, the
sequential phases succeed, and then for EVERY schedule `acts` of the parallel phase (any number of workers, any
interleaving, stale snapshots): no step panics; the shared table reached has distinct rows, distinct columns, candidate
entries only and is acyclic; and `result()` with any hash-map iteration order `keys` returns a permutation of it in a
triangular order.  No hypothesis on the structure is left. -/
theorem find_pivots_acyclic_of_matrix (a : Csc) (ha : a.Valid) (t : PivType) (c : Cond) :
    ∃ s st0, matrixStrNew a t c = ok s ∧ initState s = ok st0 ∧
      ∀ acts : List Act, run s st0 acts ≠ panic ∧
        ∀ st os, run s st0 acts = ok (st, os) →
          PInv s st.S ∧
          ∀ keys : List Nat, keys.Perm (st.S.map (·.2)) →
            ∃ L, result s st.S keys = ok L ∧ L.Perm st.S ∧ PInv s L ∧ Triangular s L := by
  obtain ⟨s, e, hwf, _, _⟩ := matrixStrNew_wf a ha t c
  have hg := initState_good s hwf
  cases h0 : initState s with
  | err => exact absurd h0 (initState_ne_err s)
  | panic => exact absurd h0 hg.ne_panic
  | ok st0 =>
    refine ⟨s, st0, e, h0, fun acts => ?_⟩
    have hp := par_invariant s hwf st0 h0 acts
    refine ⟨hp.1, fun st os hr => ?_⟩
    obtain ⟨hpinv, _⟩ := hp.2 st os hr
    refine ⟨hpinv, fun keys hk => ?_⟩
    obtain ⟨L, hL, hperm, htri⟩ := kahn_complete s hwf st.S hpinv keys hk
    exact ⟨L, hL, hperm, hpinv.perm hperm.symm, htri⟩

/-- the same at the level of the MATRIX.  Let `L` be any list the model's `result()` returns after any schedule, and
`P = L.map t.swap` the pivot positions in matrix coordinates (what `find_pivots` returns).  Then the rows of `P` are
pairwise distinct, the columns are pairwise distinct, every pivot is a stored non-zero value satisfying the pivot
condition, and for two pivots `p` before `q` in the list no non-zero value is stored at
`(row q, col p)` for `Rows` — the permuted leading block is upper triangular — resp. at `(row p, col q)` for `Cols`
— lower triangular. -/
theorem find_pivots_triangular_in_matrix (a : Csc) (ha : a.Valid) (t : PivType) (c : Cond)
    (s : Str) (hs : matrixStrNew a t c = ok s) (st0 : State) (h0 : initState s = ok st0)
    (acts : List Act) (st : State) (os : List Outcome) (hr : run s st0 acts = ok (st, os))
    (keys : List Nat) (hk : keys.Perm (st.S.map (·.2))) :
    ∃ L, result s st.S keys = ok L ∧
      (L.map (·.1)).Nodup ∧ (L.map (·.2)).Nodup ∧
      (∀ p ∈ L, ∃ r, a.Stored (t.swap p.1 p.2).1 (t.swap p.1 p.2).2 r ∧ c.isCand r = true) ∧
      L.Pairwise (fun p q => ∀ r, ¬ a.Stored (t.swap q.1 p.2).1 (t.swap q.1 p.2).2 r) := by
  obtain ⟨s', e, hwf, _, _⟩ := matrixStrNew_wf a ha t c
  rw [hs] at e; cases e
  obtain ⟨_, htab, hcnd, _, _⟩ := matrixStrNew_tables a ha t c s hs
  obtain ⟨L, hL, hpinv, htri⟩ := find_pivots_correct s hwf st0 h0 acts st os hr keys hk
  refine ⟨L, hL, hpinv.rows, hpinv.cols, fun p hp => (hcnd p.1 p.2).1 (hpinv.cand p hp), ?_⟩
  refine List.Pairwise.imp ?_ htri
  intro p q hnot r hst
  exact hnot ((htab q.1 p.2).2 ⟨r, hst⟩)

/-! ### non-vacuity -/

def sOne : Scl := ⟨false, true, true, 1⟩      -- the scalar `1` (or `-1`)
def sTwo : Scl := ⟨false, false, false, 2⟩    -- the integer `2`: non-zero, not a unit
def sZero : Scl := ⟨true, false, false, 0⟩    -- a stored zero

/-- the 4×3 matrix of `exStr` (rows `[0] [1,2] [0,2] [0,2]`, two rows racing for column 2) in CSC form, with one entry
replaced by a non-candidate `2` and one stored zero added -/
def exCsc : Csc :=
  ⟨4, 3, #[[(0, sOne), (1, sZero), (2, sOne), (3, sOne)], [(1, sOne)], [(1, sTwo), (2, sOne), (3, sOne)]]⟩

/-- the hypothesis `a.Valid` is satisfiable by a matrix with racing rows, a stored zero and a non-candidate entry -/
example : exCsc.Valid := by decide

/-- … and the model then really builds a structure (both orientations), with the expected tables -/
example : ∃ s, matrixStrNew exCsc .rows .one = ok s ∧ colsIn s 1 = [1, 2] ∧ isCand s 1 2 = false ∧
    isCand s 2 2 = true ∧ s.rowW.getD 1 0 = 3 := ⟨_, rfl, by decide, by decide, by decide, by decide⟩

example : ∃ s, matrixStrNew exCsc .cols .anyUnit = ok s ∧ s.nrows = 3 ∧ colsIn s 2 = [1, 2, 3] ∧
    isCand s 2 1 = false := ⟨_, rfl, by decide, by decide, by decide⟩

/-- a matrix violating the CSC invariant (row index out of range) makes the model panic, as the code would -/
example : matrixStrNew ⟨1, 1, #[[(1, sOne)]]⟩ .rows .one = panic := rfl

end Yuiv.C11
