import Yuiv.Proofs.C03Gen
/-
C03 — the hand-written code model `C03.collect` (`Yuiv/Model/C03.lean`) IS the source text of
`/repo/yui-khovanov/src/misc.rs:collect_gen_info`, the function behind `KhHomology::into_bigraded` and
`KhIHomology::into_bigraded`.

`Yuiv.GenGenInfo.misc.collect_gen_info` (file `Yuiv/Gen/GenInfoFn.lean`) is regenerated from the Rust source by
`tools/rs2lean_fn.py fn:geninfo` on every `./check` run (`HashMap` = the association list of `Yuiv/Model/RustMap.lean`,
`Grid1<Summand<X,R>>` / `Summand` / generators as in `Yuiv/Model/RustGenInfo.lean`).  The theorems state, for EVERY grid of
summands over ℤ: the generated function never panics (the `tors()[k - r]` index and the `usize` subtraction stay in
range, the entry just created is found), its table — projected to (rank, torsion), the third component being the list
of generator indices that `into_bigraded` passes to `Trans::sub` — is exactly the model's table, entry order included,
and its keys are distinct.

Property theorems only; helpers are in `Yuiv/Proofs/C03Gen.lean`.
-/
set_option linter.unusedSectionVars false
set_option linter.unusedSimpArgs false
namespace Yuiv.GenGI
open Yuiv Res Yuiv.Rust Yuiv.GenGenInfo

/-- `KhChainExt::q_deg` as read by the translator is the model's `qDeg` -/
theorem gen_q_deg_eq (c : GI.Chain) : GI.Chain.q_deg c = C03.qDeg c := rfl

/-- the body of the inner loop, for an index below `rank + tors.len()`, is the pure step `stepP` -/
theorem gen_inner_step_eq (i : Int) (h : GI.Summand Int) (t : GTable) (k : Nat) (hk : k < h.rank + h.tors.length) :
    (let z := GI.Summand.gen h k
     let q := GI.Chain.q_deg z
     let k2_ := (i, q)
     let table := AMap.or_insert t k2_ ((0, [], []) : Val)
     Res.bind (Opt.unwrap (AMap.get table k2_)) (fun e =>
      if decide (k < GI.Summand.rank h) then
        let e := (e.1 + 1, e.2.1, e.2.2)
        let table := AMap.set table k2_ e
        let e := (e.1, e.2.1, e.2.2 ++ [k])
        let table := AMap.set table k2_ e
        Res.ok table
      else
        Res.bind (Poly.usub k (GI.Summand.rank h)) (fun r3_ =>
        Res.bind (Poly.index (GI.Summand.tors h) r3_) (fun r4_ =>
        let e := (e.1, e.2.1 ++ [r4_], e.2.2)
        let table := AMap.set table k2_ e
        let e := (e.1, e.2.1, e.2.2 ++ [k])
        let table := AMap.set table k2_ e
        Res.ok table)))) = .ok (stepP i h t k) := by
  dsimp only
  unfold stepP valFn
  generalize hq : (i, GI.Chain.q_deg (GI.Summand.gen h k)) = key
  have hq' : (i, GI.Chain.q_deg (h.gens k)) = key := hq
  rw [hq']
  have hex : ∃ v, AMap.get (AMap.or_insert t key ((0, [], []) : Val)) key = some v := by
    by_cases hc : AMap.contains_key t key = true
    · have : AMap.or_insert t key ((0, [], []) : Val) = t := by simp [AMap.or_insert, hc]
      rw [this]
      simp only [AMap.contains_key, Option.isSome_iff_exists] at hc
      exact hc
    · have hc' : AMap.contains_key t key = false := by simpa using hc
      have hk' : key ∉ keys t := fun hm => hc ((contains_iff t key).mpr hm)
      have : AMap.or_insert t key ((0, [], []) : Val) = t ++ [(key, (0, [], []))] := by simp [AMap.or_insert, hc']
      rw [this, get_append_absent t key _ hk']
      exact ⟨_, rfl⟩
  obtain ⟨v, hv⟩ := hex
  simp only [hv, Opt.unwrap, Res.bind, Option.getD_some]
  by_cases hr : k < h.rank
  · simp only [GI.Summand.rank, hr, decide_true, if_true, set_set]
  · have hle : h.rank ≤ k := Nat.le_of_not_lt hr
    have hlt : k - h.rank < h.tors.length := by omega
    simp only [GI.Summand.rank, GI.Summand.tors, hr, decide_false, Bool.false_eq_true, if_false, Poly.usub, hle, if_true,
      Poly.index, List.getElem?_eq_getElem hlt, Opt.unwrap, Res.bind, set_set, List.getD_eq_getElem?_getD,
      Option.getD_some]

/-- MAIN: `collect_gen_info` never panics and returns the model's table -/
theorem gen_collect_gen_info_eq (grid : List (Int × GI.Summand Int)) :
    mapR toTable (misc.collect_gen_info grid) = .ok (C03.collect (toModel grid)) ∧
    mapR (fun t => decide (keys t).Nodup) (misc.collect_gen_info grid) = .ok true := by
  unfold misc.collect_gen_info
  dsimp only
  -- the inner loop of one summand
  have inner : ∀ (ih : Int × GI.Summand Int) (t : GTable),
      Poly.forM (Poly.range 0 (GI.Summand.rank ih.2 + List.length (GI.Summand.tors ih.2))) t (fun table k =>
        Res.bind (Opt.unwrap (AMap.get (AMap.or_insert table (ih.1, GI.Chain.q_deg (GI.Summand.gen ih.2 k)) ((0, [], []) : Val))
            (ih.1, GI.Chain.q_deg (GI.Summand.gen ih.2 k)))) (fun e =>
          if decide (k < GI.Summand.rank ih.2) then
            Res.ok (AMap.set (AMap.set (AMap.or_insert table (ih.1, GI.Chain.q_deg (GI.Summand.gen ih.2 k)) ((0, [], []) : Val))
              (ih.1, GI.Chain.q_deg (GI.Summand.gen ih.2 k)) (e.1 + 1, e.2.1, e.2.2))
              (ih.1, GI.Chain.q_deg (GI.Summand.gen ih.2 k)) (e.1 + 1, e.2.1, e.2.2 ++ [k]))
          else
            Res.bind (Poly.usub k (GI.Summand.rank ih.2)) (fun r3_ =>
            Res.bind (Poly.index (GI.Summand.tors ih.2) r3_) (fun r4_ =>
            Res.ok (AMap.set (AMap.set (AMap.or_insert table (ih.1, GI.Chain.q_deg (GI.Summand.gen ih.2 k)) ((0, [], []) : Val))
              (ih.1, GI.Chain.q_deg (GI.Summand.gen ih.2 k)) (e.1, e.2.1 ++ [r4_], e.2.2))
              (ih.1, GI.Chain.q_deg (GI.Summand.gen ih.2 k)) (e.1, e.2.1 ++ [r4_], e.2.2 ++ [k]))))))
      = .ok ((List.range' 0 (ih.2.rank + ih.2.tors.length)).foldl (stepP ih.1 ih.2) t) := by
    intro ih t
    have hr : Poly.range 0 (GI.Summand.rank ih.2 + List.length (GI.Summand.tors ih.2))
        = List.range' 0 (ih.2.rank + ih.2.tors.length) := by simp [Poly.range, GI.Summand.rank, GI.Summand.tors]
    rw [hr]
    apply forM_ok_mem
    intro k hk s
    have hk' : k < ih.2.rank + ih.2.tors.length := by
      have := List.mem_range'.mp hk
      obtain ⟨j, hj, rfl⟩ := this
      omega
    have := gen_inner_step_eq ih.1 ih.2 s k hk'
    dsimp only at this
    exact this
  rw [forM_ok _ (fun (t : GTable) (ih : Int × GI.Summand Int) =>
        (List.range' 0 (ih.2.rank + ih.2.tors.length)).foldl (stepP ih.1 ih.2) t) (fun t ih => inner ih t)]
  -- the pure folds against the model
  have step : ∀ (i : Int) (h : GI.Summand Int) (t : GTable) (k : Nat), (keys t).Nodup →
      (keys (stepP i h t k)).Nodup ∧
      toTable (stepP i h t k) = (toTable t).bump (i, C03.qDeg (genInfo h k).qs) (cellFn (genInfo h k)) := by
    intro i h t k hn
    exact bump_step t (i, GI.Chain.q_deg (h.gens k)) (valFn h k) (cellFn (genInfo h k)) (cell_valFn h k) hn
  have one : ∀ (ih : Int × GI.Summand Int) (t : GTable), (keys t).Nodup →
      (keys ((List.range' 0 (ih.2.rank + ih.2.tors.length)).foldl (stepP ih.1 ih.2) t)).Nodup ∧
      toTable ((List.range' 0 (ih.2.rank + ih.2.tors.length)).foldl (stepP ih.1 ih.2) t)
        = C03.collectAt ih.1 (gensOf ih.2) (toTable t) := by
    intro ih t hn
    have := foldl_sim (fun t : GTable => (keys t).Nodup) toTable (stepP ih.1 ih.2)
      (fun (tb : C03.Table) k => tb.bump (ih.1, C03.qDeg (genInfo ih.2 k).qs) (cellFn (genInfo ih.2 k)))
      (fun s x hs => step ih.1 ih.2 s x hs) (List.range' 0 (ih.2.rank + ih.2.tors.length)) t hn
    refine ⟨this.1, ?_⟩
    rw [this.2]
    simp only [C03.collectAt, gensOf, List.foldl_map]
    rfl
  have all := foldl_sim (fun t : GTable => (keys t).Nodup) toTable
    (fun (t : GTable) (ih : Int × GI.Summand Int) =>
      (List.range' 0 (ih.2.rank + ih.2.tors.length)).foldl (stepP ih.1 ih.2) t)
    (fun (tb : C03.Table) (ih : Int × GI.Summand Int) => C03.collectAt ih.1 (gensOf ih.2) tb)
    (fun s x hs => one x s hs) grid (AMap.new : GTable) (by simp [keys, AMap.new])
  refine ⟨?_, ?_⟩
  · simp only [mapR, all.2, C03.collect, toModel, List.foldl_map]
    rfl
  · simp only [mapR, all.1, decide_true]

/-- corollary: no panic, for every grid -/
theorem gen_collect_gen_info_no_panic (grid : List (Int × GI.Summand Int)) :
    ∃ t, misc.collect_gen_info grid = .ok t ∧ toTable t = C03.collect (toModel grid) ∧ (keys t).Nodup := by
  have h := gen_collect_gen_info_eq grid
  cases hc : misc.collect_gen_info grid with
  | ok t =>
    rw [hc] at h
    simp only [mapR, Res.ok.injEq, decide_eq_true_eq] at h
    exact ⟨t, rfl, h.1, h.2⟩
  | panic => rw [hc] at h; simp [mapR] at h
  | err => rw [hc] at h; simp [mapR] at h

/-! non-vacuity: the F5 shape (one free generator, two torsion generators sharing a cell) -/
example : misc.collect_gen_info [((0 : Int), (⟨1, [2, 3], fun k => if k = 0 then [1, 3] else [3]⟩ : GI.Summand Int))]
    = .ok [((0, 1), (1, [], [0])), ((0, 3), (0, [2, 3], [1, 2]))] := by decide

end Yuiv.GenGI
