import Yuiv.Proofs.C09Gen
/-
C09 — the hand-written code model of `SnfCalc` (`Yuiv/Model/C09.lean`: the mirrored primitives `sSwapRows … sRight`,
`gcdxW`, `rowNz/colNz`, `eliminateRow/Col/At`, `diagNormalizeStep`, …, about which C09Full / C09Euc prove shape,
termination and totality) IS the source text of `/repo/yui-matrix/src/dense/snf.rs`.

`Yuiv.GenSnf.*` (file `Yuiv/Gen/SnfFn.lean`) is regenerated from the Rust source by `tools/rs2lean_fn.py fn:snf` on every
`./check` run.  Each theorem states — for EVERY ring record `e : EOps α`, every sizes `m n`, every model state, both
values of the `debug_assert!` switch `dbg` and every amount of fuel — that a generated definition, run on the embedding
`ofSt` of a model state (all four transforms tracked) with in-range indices, equals the model's function, including the
panics (`debug_assert!((a*d - b*c).is_one())`, a non-invertible unit in `mul_row/mul_col`, `assert!(!x.is_zero())`,
"Detect endless loop") and fuel exhaustion.

Property theorems only; helpers are in `Yuiv/Proofs/C09Gen.lean`.
-/
set_option linter.unusedSimpArgs false
namespace Yuiv.C09Gen
open Yuiv Res Yuiv.Rust Yuiv.GenSnf Yuiv.C09

variable {α : Type} {m n : Nat}

local macro "ssimp" "[" ts:Lean.Parser.Tactic.simpLemma,* "]" : tactic =>
  `(tactic| simp [mapR_ok, mapR_panic, mapR_err, bind_assoc', ite_bind, assert_true, assert_false, ofSt, Opt.unwrap,
      get_in, swap_rows_in, swap_cols_in, mul_row_in, mul_col_in, left_in, right_in, $ts,*])

/-! ### bookkeeping primitives -/

theorem gen_swap_rows_eq (e : EOps α) (dbg : Bool) (s : St α m n) (i j : Fin m) :
    SnfCalc.swap_rows e dbg (ofSt s) i.1 j.1 = ok (ofSt (sSwapRows s i j)) := by
  unfold SnfCalc.swap_rows sSwapRows
  ssimp []

theorem gen_swap_cols_eq (e : EOps α) (dbg : Bool) (s : St α m n) (i j : Fin n) :
    SnfCalc.swap_cols e dbg (ofSt s) i.1 j.1 = ok (ofSt (sSwapCols s i j)) := by
  unfold SnfCalc.swap_cols sSwapCols
  ssimp []

theorem gen_mul_row_eq (e : EOps α) (dbg : Bool) (s : St α m n) (i : Fin m) (u : α) :
    SnfCalc.mul_row e dbg (ofSt s) i.1 u = mapR ofSt (sMulRow e s i u) := by
  unfold SnfCalc.mul_row sMulRow
  cases e.inv u <;> ssimp []

theorem gen_mul_col_eq (e : EOps α) (dbg : Bool) (s : St α m n) (j : Fin n) (u : α) :
    SnfCalc.mul_col e dbg (ofSt s) j.1 u = mapR ofSt (sMulCol e s j u) := by
  unfold SnfCalc.mul_col sMulCol
  cases e.inv u <;> ssimp []

theorem gen_left_elementary_eq (e : EOps α) (dbg : Bool) (s : St α m n) (a b c d : α) (i j : Fin m) :
    SnfCalc.left_elementary e dbg (ofSt s) (a, b, c, d) i.1 j.1 = mapR ofSt (sLeft e.toROps dbg s a b c d i j) := by
  unfold SnfCalc.left_elementary sLeft sLeftRaw detIsOne
  cases dbg <;> cases hd : e.isOne (e.sub (e.mul a d) (e.mul b c)) <;> ssimp [hd]

theorem gen_right_elementary_eq (e : EOps α) (dbg : Bool) (s : St α m n) (a b c d : α) (i j : Fin n) :
    SnfCalc.right_elementary e dbg (ofSt s) (a, b, c, d) i.1 j.1 = mapR ofSt (sRight e.toROps dbg s a b c d i j) := by
  unfold SnfCalc.right_elementary sRight sRightRaw detIsOne
  cases dbg <;> cases hd : e.isOne (e.sub (e.mul a d) (e.mul b c)) <;> ssimp [hd]

/-- the local `gcdx` wrapper -/
theorem gen_gcdx_eq (e : EOps α) (dbg : Bool) (x y : α) :
    SnfCalc.gcdx (m := m) (n := n) e dbg x y = gcdxW e x y := rfl


/-! ### `row_nz`, `col_nz` -/

theorem gen_row_nz_eq (e : EOps α) (dbg : Bool) (s : St α m n) (i : Fin m) :
    SnfCalc.row_nz e dbg (ofSt s) i.1 = ok (rowNz e s.t i) := by
  unfold SnfCalc.row_nz rowNz
  simp only [ofSt, Dense.row, i.2, dite_true, bind_ok, count_foldl, Nat.zero_add, List.filter_map, List.length_map]
  rfl

theorem gen_col_nz_eq (e : EOps α) (dbg : Bool) (s : St α m n) (j : Fin n) :
    SnfCalc.col_nz e dbg (ofSt s) j.1 = ok (colNz e s.t j) := by
  unfold SnfCalc.col_nz colNz
  simp only [ofSt, Dense.column, j.2, dite_true, bind_ok, count_foldl, Nat.zero_add, List.filter_map, List.length_map]
  rfl

/-! ### `eliminate_row`, `eliminate_col`: the `for` loops with `continue` -/

theorem gen_eliminate_col_eq (e : EOps α) (dbg : Bool) (s : St α m n) (i : Fin m) (j : Fin n) :
    SnfCalc.eliminate_col e dbg (ofSt s) i.1 j.1 =
      mapR (fun r => (ofSt r.1, r.2)) (eliminateCol e dbg s i j) := by
  unfold SnfCalc.eliminate_col eliminateCol
  have key : ∀ (k : Nat) (h : k < m) (st : St α m n) (md : Bool),
      SnfCalc.eliminate_col_for1 e dbg i.1 j.1 k (ofSt st, md) =
        (mapR (fun r => (ofSt r.1, r.2)) (eliminateColStep e dbg i j (st, md) ⟨k, h⟩) >>= fun s' => ok (Ctl.next s')) := by
    intro k h st md
    unfold SnfCalc.eliminate_col_for1 eliminateColStep
    have hik : (i.1 = k) = (i = ⟨k, h⟩) := by simp [Fin.ext_iff]
    by_cases h1 : i = ⟨k, h⟩
    · have : i.1 = k := by rw [h1]
      ssimp [h1, this]
    · have h1' : ¬ i.1 = k := by rw [hik]; exact h1
      have hg := get_in st.t ⟨k, h⟩ j
      cases hz : e.isZero (st.t.get ⟨k, h⟩ j)
      · have hx := get_in st.t i j
        have hl := gen_left_elementary_eq e dbg st (gcdxW e (st.t.get i j) (st.t.get ⟨k, h⟩ j)).2.1
          (gcdxW e (st.t.get i j) (st.t.get ⟨k, h⟩ j)).2.2
          (e.neg (e.quo (st.t.get ⟨k, h⟩ j) (gcdxW e (st.t.get i j) (st.t.get ⟨k, h⟩ j)).1))
          (e.quo (st.t.get i j) (gcdxW e (st.t.get i j) (st.t.get ⟨k, h⟩ j)).1) i ⟨k, h⟩
        simp only [ofSt] at hg hx hl
        simp only [ofSt, h1, h1', decide_false, Bool.false_eq_true, if_false, hg, hx, bind_ok, hz, gen_gcdx_eq,
          Bool.false_or]
        rw [show (gcdxW e (st.t.get i j) (st.t.get ⟨k, h⟩ j)) =
          ((gcdxW e (st.t.get i j) (st.t.get ⟨k, h⟩ j)).1, (gcdxW e (st.t.get i j) (st.t.get ⟨k, h⟩ j)).2.1,
           (gcdxW e (st.t.get i j) (st.t.get ⟨k, h⟩ j)).2.2) from rfl]
        simp only [hl]
        cases sLeft e.toROps dbg st _ _ _ _ i ⟨k, h⟩ <;> simp [mapR, ofSt]
      · have hg' := hg
        simp only [ofSt] at hg'
        ssimp [h1, h1', hg', hz]
  have hfr := forRange_eq_foldlM (fun r : St α m n × Bool => (ofSt r.1, r.2)) m (eliminateColStep e dbg i j)
    (SnfCalc.eliminate_col_for1 e dbg i.1 j.1) (s, false) (by
      intro k h st
      obtain ⟨st, md⟩ := st
      rw [key k h st md]
      cases eliminateColStep e dbg i j (st, md) ⟨k, h⟩ <;> simp [mapR])
  simp only [] at hfr
  simp only [hfr, bind_assoc', bind_ok]
  cases (List.finRange m).foldlM (eliminateColStep e dbg i j) (s, false) <;> simp [mapR]

theorem gen_eliminate_row_eq (e : EOps α) (dbg : Bool) (s : St α m n) (i : Fin m) (j : Fin n) :
    SnfCalc.eliminate_row e dbg (ofSt s) i.1 j.1 =
      mapR (fun r => (ofSt r.1, r.2)) (eliminateRow e dbg s i j) := by
  unfold SnfCalc.eliminate_row eliminateRow
  have key : ∀ (k : Nat) (h : k < n) (st : St α m n) (md : Bool),
      SnfCalc.eliminate_row_for1 e dbg i.1 j.1 k (ofSt st, md) =
        (mapR (fun r => (ofSt r.1, r.2)) (eliminateRowStep e dbg i j (st, md) ⟨k, h⟩) >>= fun s' => ok (Ctl.next s')) := by
    intro k h st md
    unfold SnfCalc.eliminate_row_for1 eliminateRowStep
    have hik : (j.1 = k) = (j = ⟨k, h⟩) := by simp [Fin.ext_iff]
    by_cases h1 : j = ⟨k, h⟩
    · have : j.1 = k := by rw [h1]
      ssimp [h1, this]
    · have h1' : ¬ j.1 = k := by rw [hik]; exact h1
      have hg := get_in st.t i ⟨k, h⟩
      cases hz : e.isZero (st.t.get i ⟨k, h⟩)
      · have hx := get_in st.t i j
        have hl := gen_right_elementary_eq e dbg st (gcdxW e (st.t.get i j) (st.t.get i ⟨k, h⟩)).2.1
          (gcdxW e (st.t.get i j) (st.t.get i ⟨k, h⟩)).2.2
          (e.neg (e.quo (st.t.get i ⟨k, h⟩) (gcdxW e (st.t.get i j) (st.t.get i ⟨k, h⟩)).1))
          (e.quo (st.t.get i j) (gcdxW e (st.t.get i j) (st.t.get i ⟨k, h⟩)).1) j ⟨k, h⟩
        simp only [ofSt] at hg hx hl
        simp only [ofSt, h1, h1', decide_false, Bool.false_eq_true, if_false, hg, hx, bind_ok, hz, gen_gcdx_eq,
          Bool.false_or]
        rw [show (gcdxW e (st.t.get i j) (st.t.get i ⟨k, h⟩)) =
          ((gcdxW e (st.t.get i j) (st.t.get i ⟨k, h⟩)).1, (gcdxW e (st.t.get i j) (st.t.get i ⟨k, h⟩)).2.1,
           (gcdxW e (st.t.get i j) (st.t.get i ⟨k, h⟩)).2.2) from rfl]
        simp only [hl]
        cases sRight e.toROps dbg st _ _ _ _ j ⟨k, h⟩ <;> simp [mapR, ofSt]
      · have hg' := hg
        simp only [ofSt] at hg'
        ssimp [h1, h1', hg', hz]
  have hfr := forRange_eq_foldlM (fun r : St α m n × Bool => (ofSt r.1, r.2)) n (eliminateRowStep e dbg i j)
    (SnfCalc.eliminate_row_for1 e dbg i.1 j.1) (s, false) (by
      intro k h st
      obtain ⟨st, md⟩ := st
      rw [key k h st md]
      cases eliminateRowStep e dbg i j (st, md) ⟨k, h⟩ <;> simp [mapR])
  simp only [] at hfr
  simp only [hfr, bind_assoc', bind_ok]
  cases (List.finRange n).foldlM (eliminateRowStep e dbg i j) (s, false) <;> simp [mapR]



/-! ### `eliminate_at`: the `while` loop, same fuel on both sides -/

theorem gen_eliminate_at_loop_eq (e : EOps α) (dbg : Bool) (i : Fin m) (j : Fin n) (fuel : Nat) (s : St α m n) :
    SnfCalc.eliminate_at_loop1 e dbg fuel i.1 j.1 (ofSt s) = mapR ofSt (eliminateAt e dbg i j fuel s) := by
  induction fuel generalizing s with
  | zero => rfl
  | succ f ih =>
    unfold SnfCalc.eliminate_at_loop1 eliminateAt
    simp only [gen_row_nz_eq, gen_col_nz_eq, bind_ok]
    by_cases hr : rowNz e s.t i > 1
    · simp only [hr, decide_true, if_true, bind_ok, Bool.true_or, gen_eliminate_col_eq]
      cases hc : eliminateCol e dbg s i j with
      | ok r1 =>
        obtain ⟨s1, b1⟩ := r1
        simp only [mapR_ok, bind_ok, gen_eliminate_row_eq]
        cases hrw : eliminateRow e dbg s1 i j with
        | ok r2 =>
          obtain ⟨s2, b2⟩ := r2
          cases b1 <;> cases b2 <;> simp [mapR_ok, ih, mapR_panic]
        | panic => simp [mapR_panic]
        | err => simp [mapR_err]
      | panic => simp [mapR_panic]
      | err => simp [mapR_err]
    · by_cases hcn : colNz e s.t j > 1
      · simp only [hr, hcn, decide_false, decide_true, Bool.false_eq_true, if_false, if_true, bind_ok, Bool.false_or,
          gen_eliminate_col_eq]
        cases hc : eliminateCol e dbg s i j with
        | ok r1 =>
          obtain ⟨s1, b1⟩ := r1
          simp only [mapR_ok, bind_ok, gen_eliminate_row_eq]
          cases hrw : eliminateRow e dbg s1 i j with
          | ok r2 =>
            obtain ⟨s2, b2⟩ := r2
            cases b1 <;> cases b2 <;> simp [mapR_ok, ih, mapR_panic]
          | panic => simp [mapR_panic]
          | err => simp [mapR_err]
        | panic => simp [mapR_panic]
        | err => simp [mapR_err]
      · simp [hr, hcn, mapR_ok]

/-- `eliminate_at` with its `assert!(!self.target[(i, j)].is_zero())` -/
theorem gen_eliminate_at_eq (e : EOps α) (dbg : Bool) (i : Fin m) (j : Fin n) (fuel : Nat) (s : St α m n) :
    SnfCalc.eliminate_at e dbg fuel (ofSt s) i.1 j.1 =
      if e.isZero (s.t.get i j) then .panic else mapR ofSt (eliminateAt e dbg i j fuel s) := by
  unfold SnfCalc.eliminate_at
  have hg := get_in s.t i j
  simp only [show (ofSt s).target = s.t from rfl, hg, bind_ok, gen_eliminate_at_loop_eq]
  cases e.isZero (s.t.get i j) <;> simp [assert_true, assert_false]

/-! ### `diag_normalize_step` -/

theorem gen_diag_normalize_step_eq (e : EOps α) (dbg : Bool) (s : St α m n) (i : Nat) (hm : i + 1 < m) (hn : i + 1 < n) :
    SnfCalc.diag_normalize_step e dbg (ofSt s) i =
      mapR (fun r => (ofSt r.1, r.2)) (diagNormalizeStep e dbg s i hm hn) := by
  unfold SnfCalc.diag_normalize_step diagNormalizeStep
  have hx := get_in s.t ⟨i, Nat.lt_of_succ_lt hm⟩ ⟨i, Nat.lt_of_succ_lt hn⟩
  have hy := get_in s.t ⟨i + 1, hm⟩ ⟨i + 1, hn⟩
  simp only [show (ofSt s).target = s.t from rfl, hx, hy, bind_ok, gen_gcdx_eq]
  generalize s.t.get ⟨i, Nat.lt_of_succ_lt hm⟩ ⟨i, Nat.lt_of_succ_lt hn⟩ = x
  generalize s.t.get ⟨i + 1, hm⟩ ⟨i + 1, hn⟩ = y
  cases hzx : e.isZero x
  · cases hzy : e.isZero y
    · simp only [Bool.not_false, assert_true, bind_ok, Bool.false_or, Bool.false_eq_true, if_false]
      cases hd1 : e.dvd x y
      · cases hd2 : e.dvd y x
        · simp only [Bool.false_eq_true, if_false]
          rw [show (gcdxW e x y) = ((gcdxW e x y).1, (gcdxW e x y).2.1, (gcdxW e x y).2.2) from rfl]
          have hl := gen_left_elementary_eq e dbg s e.one e.one
            (e.neg (e.mul (gcdxW e x y).2.2 (e.quo y (gcdxW e x y).1))) (e.mul (gcdxW e x y).2.1 (e.quo x (gcdxW e x y).1))
            ⟨i, Nat.lt_of_succ_lt hm⟩ ⟨i + 1, hm⟩
          simp only [] at hl
          simp only [hl]
          cases hL : sLeft e.toROps dbg s e.one e.one
            (e.neg (e.mul (gcdxW e x y).2.2 (e.quo y (gcdxW e x y).1))) (e.mul (gcdxW e x y).2.1 (e.quo x (gcdxW e x y).1))
            ⟨i, Nat.lt_of_succ_lt hm⟩ ⟨i + 1, hm⟩ with
          | ok s1 =>
            have hr := gen_right_elementary_eq e dbg s1 (gcdxW e x y).2.1 (gcdxW e x y).2.2
              (e.neg (e.quo y (gcdxW e x y).1)) (e.quo x (gcdxW e x y).1) ⟨i, Nat.lt_of_succ_lt hn⟩ ⟨i + 1, hn⟩
            simp only [] at hr
            simp only [mapR_ok, bind_ok, hr]
            cases sRight e.toROps dbg s1 _ _ _ _ ⟨i, Nat.lt_of_succ_lt hn⟩ ⟨i + 1, hn⟩ <;> simp [mapR]
          | panic => simp [mapR]
          | err => simp [mapR]
        · have h1 := gen_swap_rows_eq e dbg s ⟨i, Nat.lt_of_succ_lt hm⟩ ⟨i + 1, hm⟩
          simp only [] at h1
          have h2 := gen_swap_cols_eq e dbg (sSwapRows s ⟨i, Nat.lt_of_succ_lt hm⟩ ⟨i + 1, hm⟩)
            ⟨i, Nat.lt_of_succ_lt hn⟩ ⟨i + 1, hn⟩
          simp only [] at h2
          simp [h1, h2, mapR]
      · simp [mapR]
    · simp [assert_true, assert_false, mapR]
  · simp [assert_false, mapR]


/-! ### `select_pivot`: the iterator chain `filter → map → min_by → map` is the model's "first minimal" fold -/

theorem gen_select_pivot_eq (e : EOps α) (dbg : Bool) (s : St α m n) (below : Nat) (j : Fin n) :
    SnfCalc.select_pivot e dbg (ofSt s) below j.1 = ok ((selectPivot e s.t below j).map Fin.val) :=
  select_pivot_eq' e dbg s below j

/-! ### `eliminate_step` -/

theorem gen_eliminate_step_eq (e : EOps α) (dbg : Bool) (fuel : Nat) (s : St α m n) (i : Fin m) (j : Fin n)
    (hi : i.1 < n) :
    SnfCalc.eliminate_step e dbg fuel (ofSt s) i.1 j.1 =
      mapR (fun o => match o with | none => (ofSt s, false) | some s3 => (ofSt s3, true))
        (eliminateStep e dbg fuel s i j hi) := by
  unfold SnfCalc.eliminate_step eliminateStep
  rw [gen_select_pivot_eq]
  cases hp : selectPivot e s.t i.1 j with
  | none => simp [mapR_ok]
  | some ip =>
    simp only [Option.map_some, bind_ok, Option.isSome_some, if_true, Opt.unwrap]
    -- the two swaps
    have hprep : (do
        let slf ← (if decide (ip.1 > i.1) then SnfCalc.swap_rows (m := m) (n := n) e dbg (ofSt s) i.1 ip.1 else ok (ofSt s))
        (if decide (j.1 > i.1) then SnfCalc.swap_cols (m := m) (n := n) e dbg slf i.1 j.1 else ok slf)) =
        ok (ofSt (stepPrep s i ip ⟨i.1, hi⟩ j)) := by
      unfold stepPrep
      by_cases h1 : ip.1 > i.1
      · have := gen_swap_rows_eq e dbg s i ip
        by_cases h2 : j.1 > i.1
        · have h3 := gen_swap_cols_eq e dbg (sSwapRows s i ip) ⟨i.1, hi⟩ j
          simp only [] at h3
          simp [h1, h2, this, h3]
        · simp [h1, h2, this]
      · by_cases h2 : j.1 > i.1
        · have h3 := gen_swap_cols_eq e dbg s ⟨i.1, hi⟩ j
          simp only [] at h3
          simp [h1, h2, h3]
        · simp [h1, h2]
    rw [← bind_assoc', hprep]
    simp only [bind_ok]
    generalize stepPrep s i ip ⟨i.1, hi⟩ j = s1
    have hg := get_in s1.t i ⟨i.1, hi⟩
    simp only [show (ofSt s1).target = s1.t from rfl, hg, bind_ok]
    have hmc := gen_mul_col_eq e dbg s1 ⟨i.1, hi⟩ (e.normUnit (s1.t.get i ⟨i.1, hi⟩))
    simp only [] at hmc
    cases hu : e.isOne (e.normUnit (s1.t.get i ⟨i.1, hi⟩))
    · simp only [Bool.not_false, if_true, hmc]
      cases hm2 : sMulCol e s1 ⟨i.1, hi⟩ (e.normUnit (s1.t.get i ⟨i.1, hi⟩)) with
      | ok s2 =>
        have := gen_eliminate_at_eq e dbg i ⟨i.1, hi⟩ fuel s2
        simp only [] at this
        simp only [mapR_ok, bind_ok, this]
        cases e.isZero (s2.t.get i ⟨i.1, hi⟩)
        · simp only [Bool.false_eq_true, if_false]
          cases eliminateAt e dbg i ⟨i.1, hi⟩ fuel s2 <;> simp [mapR]
        · simp [mapR]
      | panic => simp [mapR]
      | err => simp [mapR]
    · have := gen_eliminate_at_eq e dbg i ⟨i.1, hi⟩ fuel s1
      simp only [] at this
      simp only [Bool.not_true, Bool.false_eq_true, if_false, bind_ok, this]
      cases e.isZero (s1.t.get i ⟨i.1, hi⟩)
      · simp only [Bool.false_eq_true, if_false]
        cases eliminateAt e dbg i ⟨i.1, hi⟩ fuel s1 <;> simp [mapR]
      · simp [mapR]


/-! ### `eliminate_all`: `for j in 0..n { if i >= m { break } … }` against the model's fold (which idles once `i ≥ m`) -/

theorem eliminateAllStep_done (e : EOps α) (dbg : Bool) (fuel : Nat) (s : St α m n) (i : Nat) (hi : m ≤ i)
    (l : List (Fin n)) : l.foldlM (eliminateAllStep e dbg fuel) (s, i) = ok (s, i) := by
  induction l with
  | nil => rfl
  | cons x xs ih =>
    have : eliminateAllStep e dbg fuel (s, i) x = ok (s, i) := by
      unfold eliminateAllStep
      have : ¬ (i < m ∧ i ≤ x.1) := by omega
      simp [this]
    simp [List.foldlM_cons, this, ih]

theorem gen_eliminate_all_loop_eq (e : EOps α) (dbg : Bool) (fuel : Nat) :
    ∀ (d k : Nat) (s : St α m n) (i : Nat), k + d = n → i ≤ k →
      Loop.forGo (SnfCalc.eliminate_all_for1 (m := m) (n := n) e dbg fuel m) d k (ofSt s, i) =
        (((List.finRange n).drop k).foldlM (eliminateAllStep e dbg fuel) (s, i) >>=
          fun si => ok ((ofSt si.1, si.2), true)) := by
  intro d
  induction d with
  | zero =>
    intro k s i hk _
    have : (List.finRange n).drop k = [] := by
      apply List.drop_eq_nil_of_le; simp; omega
    simp [Loop.forGo, this]
  | succ d ih =>
    intro k s i hk hik
    have hkn : k < n := by omega
    have hdrop : (List.finRange n).drop k = ⟨k, hkn⟩ :: (List.finRange n).drop (k + 1) := by
      rw [List.drop_eq_getElem_cons (by simpa using hkn)]
      simp
    rw [hdrop, List.foldlM_cons]
    unfold Loop.forGo SnfCalc.eliminate_all_for1
    by_cases him : i ≥ m
    · have hstep : eliminateAllStep e dbg fuel (s, i) ⟨k, hkn⟩ = ok (s, i) := by
        unfold eliminateAllStep
        have : ¬ (i < m ∧ i ≤ k) := by omega
        simp [this]
      simp [him, hstep, eliminateAllStep_done e dbg fuel s i him]
    · have him' : i < m := by omega
      have hst := gen_eliminate_step_eq e dbg fuel s ⟨i, him'⟩ ⟨k, hkn⟩ (by simp; omega)
      simp only [] at hst
      have hcond : i < m ∧ i ≤ k := ⟨him', hik⟩
      simp only [him, decide_false, Bool.false_eq_true, if_false, hst]
      unfold eliminateAllStep
      simp only [hcond, and_self, dite_true]
      cases hes : eliminateStep e dbg fuel s ⟨i, him'⟩ ⟨k, hkn⟩ (by simp; omega) with
      | ok o =>
        cases o with
        | none =>
          simp only [mapR_ok, bind_ok, Bool.false_eq_true, if_false]
          exact ih (k + 1) s i (by omega) (by omega)
        | some s' =>
          simp only [mapR_ok, bind_ok, if_true]
          exact ih (k + 1) s' (i + 1) (by omega) (by omega)
      | panic => simp [mapR_panic]
      | err => simp [mapR_err]

theorem gen_eliminate_all_eq (e : EOps α) (dbg : Bool) (fuel : Nat) (s : St α m n) :
    SnfCalc.eliminate_all e dbg fuel (ofSt s) = mapR ofSt (eliminateAll e dbg fuel s) := by
  unfold SnfCalc.eliminate_all eliminateAll Loop.forRange
  have := gen_eliminate_all_loop_eq e dbg fuel n 0 s 0 (by omega) (by omega)
  simp only [List.drop_zero] at this
  simp only [Nat.sub_zero, this, bind_assoc', bind_ok]
  cases (List.finRange n).foldlM (eliminateAllStep e dbg fuel) (s, 0) <;> simp [mapR]


/-! ### `diag_normalize`: `r`, the `'outer` loop with its inner `for`, the final normalisation loop -/

/-- the number of leading non-zero diagonal entries, computed by `(0..n).filter(..).next().unwrap_or(n)` -/
theorem gen_first_zero_eq (e : EOps α) (dbg : Bool) (s : St α m n) :
    (Iter.filterM (SnfCalc.diag_normalize_closure1 (m := m) (n := n) e dbg (ofSt s)) (List.range' 0 (min m n - 0)) >>=
      fun r2 => ok (Opt.unwrap_or (List.head? r2) (min m n))) = ok (firstZeroDiag e s.t) := by
  have hf : Iter.filterM (SnfCalc.diag_normalize_closure1 (m := m) (n := n) e dbg (ofSt s)) (List.range' 0 (min m n - 0)) =
      ok ((List.range' 0 (min m n - 0)).filter fun i => e.isZero (dg e.toROps s.t i)) := by
    apply filterM_ok
    intro k hk
    have hk' : k < min m n := by have := List.mem_range'_1.1 hk; omega
    have h1 : k < m := Nat.lt_of_lt_of_le hk' (Nat.min_le_left m n)
    have h2 : k < n := Nat.lt_of_lt_of_le hk' (Nat.min_le_right m n)
    have := get_in s.t ⟨k, h1⟩ ⟨k, h2⟩
    simp only [] at this
    simp [SnfCalc.diag_normalize_closure1, ofSt, this, dg, h1, h2]
  rw [hf]
  simp only [bind_ok, firstZeroDiag, Nat.sub_zero, List.range_eq_range', Opt.unwrap_or, List.head?_filter]

theorem firstZeroDiag_le (e : EOps α) (T : Mat α m n) : firstZeroDiag e T ≤ min m n := by
  have key : ∀ o : Option Nat, (∀ x, o = some x → x < min m n) → o.getD (min m n) ≤ min m n := by
    intro o ho
    cases o with
    | none => simp
    | some x => simpa using Nat.le_of_lt (ho x rfl)
  unfold firstZeroDiag
  exact key _ (fun x hx => List.mem_range.1 (List.mem_of_find?_eq_some hx))

/-- one pass of the inner `for i in 0..r-1` (left by `continue 'outer` when a step reports `false`) -/
theorem gen_diag_pass_eq (e : EOps α) (dbg : Bool) (r : Nat) (hrm : r ≤ m) (hrn : r ≤ n) :
    ∀ (d cnt i : Nat) (s : St α m n), i + d + 1 = r → d ≤ cnt →
      Loop.forGo (SnfCalc.diag_normalize_for3 (m := m) (n := n) e dbg) d i (ofSt s) =
        mapR (fun p => (ofSt p.1, p.2)) (diagPass e dbg r cnt i s) := by
  intro d
  induction d with
  | zero =>
    intro cnt i s hi _
    cases cnt with
    | zero => rfl
    | succ c =>
      unfold diagPass
      have : ¬ (i + 1 < r ∧ i + 1 < m ∧ i + 1 < n) := by omega
      simp [Loop.forGo, this, mapR]
  | succ d ih =>
    intro cnt i s hi hc
    obtain ⟨c, rfl⟩ : ∃ c, cnt = c + 1 := ⟨cnt - 1, by omega⟩
    have hcond : i + 1 < r ∧ i + 1 < m ∧ i + 1 < n := by omega
    unfold Loop.forGo SnfCalc.diag_normalize_for3 diagPass
    simp only [hcond, and_self, dite_true, gen_diag_normalize_step_eq e dbg s i hcond.2.1 hcond.2.2]
    cases hs : diagNormalizeStep e dbg s i hcond.2.1 hcond.2.2 with
    | ok p =>
      obtain ⟨s1, b⟩ := p
      cases b
      · simp [mapR]
      · simp only [mapR_ok, bind_ok, Bool.not_true, Bool.false_eq_true, if_false, if_true]
        exact ih c (i + 1) s1 (by omega) (by omega)
    | panic => simp [mapR]
    | err => simp [mapR]

theorem gen_diag_outer_eq (e : EOps α) (dbg : Bool) (r : Nat) (hr : 1 ≤ r) (hrm : r ≤ m) (hrn : r ≤ n) (fuel : Nat)
    (s : St α m n) :
    SnfCalc.diag_normalize_loop2 e dbg fuel r (ofSt s) = mapR ofSt (diagOuter e dbg r fuel s) := by
  induction fuel generalizing s with
  | zero => rfl
  | succ f ih =>
    unfold SnfCalc.diag_normalize_loop2 diagOuter Loop.forRange
    have hsub : U64.sub r 1 = ok (r - 1) := by simp [U64.sub]; omega
    simp only [hsub, bind_ok, Nat.sub_zero, gen_diag_pass_eq e dbg r hrm hrn (r - 1) r 0 s (by omega) (by omega)]
    cases hp : diagPass e dbg r r 0 s with
    | ok p =>
      obtain ⟨s1, b⟩ := p
      cases b <;> simp [mapR, ih]
    | panic => simp [mapR]
    | err => simp [mapR]

theorem gen_diag_normalize_eq (e : EOps α) (dbg : Bool) (fuel : Nat) (s : St α m n) :
    SnfCalc.diag_normalize e dbg fuel (ofSt s) = mapR ofSt (diagNormalize e dbg fuel s) := by
  unfold SnfCalc.diag_normalize diagNormalize
  have hfz := gen_first_zero_eq e dbg s
  have hle := firstZeroDiag_le e s.t
  by_cases hdb : (dbg && !isDiag e.toROps s.t) = true
  · have : (!dbg || isDiag e.toROps s.t) = false := by
      cases dbg <;> cases hh : isDiag e.toROps s.t <;> simp_all
    simp [hdb, show (ofSt s).target = s.t from rfl, this, assert_false, mapR]
  · have : (!dbg || isDiag e.toROps s.t) = true := by
      cases dbg <;> cases hh : isDiag e.toROps s.t <;> simp_all
    simp only [show (ofSt s).target = s.t from rfl, this, assert_true, bind_ok, hdb, Bool.false_eq_true, if_false]
    cases hf : Iter.filterM (SnfCalc.diag_normalize_closure1 (m := m) (n := n) e dbg (ofSt s)) (List.range' 0 (min m n - 0)) with
    | ok r2 =>
      rw [hf] at hfz
      simp only [bind_ok, Res.ok.injEq] at hfz
      simp only [bind_ok, hfz]
      by_cases h0 : firstZeroDiag e s.t = 0
      · simp [h0, mapR]
      · have hr1 : 1 ≤ firstZeroDiag e s.t := by omega
        have hrm : firstZeroDiag e s.t ≤ m := Nat.le_trans hle (Nat.min_le_left m n)
        have hrn : firstZeroDiag e s.t ≤ n := Nat.le_trans hle (Nat.min_le_right m n)
        simp only [h0, decide_false, Bool.false_eq_true, if_false,
          gen_diag_outer_eq e dbg _ hr1 hrm hrn fuel s]
        cases ho : diagOuter e dbg (firstZeroDiag e s.t) fuel s with
        | ok s1 =>
          simp only [mapR_ok, bind_ok]
          have hfor := forGo_eq_foldlM_range (ofSt (α := α) (m := m) (n := n)) (normalizeStep e)
            (SnfCalc.diag_normalize_for4 (m := m) (n := n) e dbg) (firstZeroDiag e s.t) 0 s1 (by
              intro k st _ hk
              have h1 : k < m := by omega
              have h2 : k < n := by omega
              have hg := get_in st.t ⟨k, h1⟩ ⟨k, h2⟩
              simp only [] at hg
              have hmr := gen_mul_row_eq e dbg st ⟨k, h1⟩ (e.normUnit (st.t.get ⟨k, h1⟩ ⟨k, h2⟩))
              simp only [] at hmr
              unfold SnfCalc.diag_normalize_for4 normalizeStep
              simp only [show (ofSt st).target = st.t from rfl, hg, bind_ok, h1, h2, and_self, dite_true]
              cases e.isOne (e.normUnit (st.t.get ⟨k, h1⟩ ⟨k, h2⟩))
              · simp only [Bool.not_false, if_true, hmr]
                cases sMulRow e st ⟨k, h1⟩ (e.normUnit (st.t.get ⟨k, h1⟩ ⟨k, h2⟩)) <;> simp [mapR]
              · simp)
          unfold Loop.forRange
          simp only [Nat.sub_zero, hfor, bind_assoc', bind_ok, List.range_eq_range']
          cases (List.range' 0 (firstZeroDiag e s.t)).foldlM (normalizeStep e) s1 <;> simp [mapR]
        | panic => simp [mapR]
        | err => simp [mapR]
    | panic => rw [hf] at hfz; simp at hfz
    | err => rw [hf] at hfz; simp at hfz

/-! ### `process` (the LLL–HNF preprocessing is the parameter `pre`, as in the model) -/

theorem gen_process_eq (e : EOps α) (dbg : Bool) (pre : St α m n → Res (St α m n))
    (pre' : SnfCalcS α m n → Res (SnfCalcS α m n)) (hpre : ∀ s, pre' (ofSt s) = mapR ofSt (pre s))
    (fuel : Nat) (A : Mat α m n) :
    SnfCalc.process e dbg pre' fuel (ofSt (St.init e.toROps A)) = mapR ofSt (snfCalc e dbg pre fuel A) := by
  unfold SnfCalc.process snfCalc
  cases hz : isZeroMat e.toROps A
  · simp only [show (ofSt (St.init e.toROps A)).target = A from rfl, hz, Bool.false_eq_true, if_false, hpre]
    cases pre (St.init e.toROps A) with
    | ok s1 =>
      simp only [mapR_ok, bind_ok, gen_eliminate_all_eq]
      cases eliminateAll e dbg fuel s1 with
      | ok s2 =>
        simp only [mapR_ok, bind_ok, gen_diag_normalize_eq]
        cases diagNormalize e dbg fuel s2 <;> simp [mapR]
      | panic => simp [mapR]
      | err => simp [mapR]
    | panic => simp [mapR]
    | err => simp [mapR]
  · simp [show (ofSt (St.init e.toROps A)).target = A from rfl, hz, mapR]

end Yuiv.C09Gen
