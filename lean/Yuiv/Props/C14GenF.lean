import Yuiv.Proofs.C14GenF
/-
C14 — the hand-written code models `Yuiv.C14.FF.*` and `Yuiv.C14.FF2.*` (`Yuiv/Model/C14.lean`) ARE the source text of
`/repo/yui/src/types/ff.rs` and `/repo/yui/src/types/f2.rs`.

`Yuiv.GenFF.*` (file `Yuiv/Gen/FFFn.lean`) is regenerated from the two Rust sources by `tools/rs2lean_fn.py fn:ff` on
every `./check` run (`I = i32` with checked arithmetic: `Yuiv/Model/RustI32.lean`; the const generic `p` an explicit
argument).  Each theorem states, for ALL `p` and all arguments, that a generated definition equals the model's
function on the representative (`FFS.f0` / `FF2S.f0`), including the panics (`new` with `p ≤ 0`, i32 overflow of
`a ± b`, `a * b`, `-a` before the reduction, division by zero, a non-unit gcd in `inv`) and fuel exhaustion of the
extended gcd.

Property theorems only; helpers are in `Yuiv/Proofs/C14GenF.lean`.
-/
set_option linter.unusedSimpArgs false
namespace Yuiv.GenF
open Yuiv Res Yuiv.Rust Yuiv.GenFF

local macro "fsimp" "[" ts:Lean.Parser.Tactic.simpLemma,* "]" : tactic =>
  `(tactic| simp [mapR_bind, mapR_ite, mapR_ok, mapR_panic, mapR_err, bind_assoc', ite_bind, assert_true, assert_false,
      add_eq, sub_eq, mul_eq, neg_eq, gcdx_eq, I32.is_zero, I32.is_one, FF.Zero.is_zero, FF.One.is_one,
      C14.FF.isZero, C14.FF.isOne, C14.FF.isUnit, $ts,*])

/-! ### `FF<p>` (ff.rs) -/

theorem gen_ff_new_eq (p a : Int) : mapR FFS.f0 (FF.new p a) = C14.FF.new p a := by
  unfold FF.new C14.FF.new
  by_cases h : p > 0
  · have h0 : p ≠ 0 := by omega
    fsimp [h, h0, I32.rem_euclid]
  · fsimp [h]

theorem gen_ff_rep_eq (p : Int) (s : FFS) : FF.rep p s = s.f0 := rfl
theorem gen_ff_from_eq (p a : Int) : mapR FFS.f0 (FF.From_I.from_ p a) = C14.FF.new p a := gen_ff_new_eq p a
theorem gen_ff_zero_eq (p : Int) : (FF.Zero.zero p).f0 = 0 := rfl
theorem gen_ff_one_eq (p : Int) : (FF.One.one p).f0 = 1 := rfl
theorem gen_ff_is_zero_eq (p : Int) (s : FFS) : FF.Zero.is_zero p s = C14.FF.isZero s.f0 := rfl
theorem gen_ff_is_one_eq (p : Int) (s : FFS) : FF.One.is_one p s = C14.FF.isOne s.f0 := rfl
theorem gen_ff_is_unit_eq (p : Int) (s : FFS) : FF.Ring.is_unit p s = C14.FF.isUnit s.f0 := rfl

theorem gen_ff_add_eq (p : Int) (x y : FFS) :
    mapR FFS.f0 (FF.Add_FF_p_ref.add p x y) = C14.FF.add p x.f0 y.f0 := by
  unfold FF.Add_FF_p_ref.add C14.FF.add
  simp only [add_eq, mapR_bind, gen_ff_new_eq]
theorem gen_ff_sub_eq (p : Int) (x y : FFS) :
    mapR FFS.f0 (FF.Sub_FF_p_ref.sub p x y) = C14.FF.sub p x.f0 y.f0 := by
  unfold FF.Sub_FF_p_ref.sub C14.FF.sub
  simp only [sub_eq, mapR_bind, gen_ff_new_eq]
theorem gen_ff_mul_eq (p : Int) (x y : FFS) :
    mapR FFS.f0 (FF.Mul_FF_p_ref.mul p x y) = C14.FF.mul p x.f0 y.f0 := by
  unfold FF.Mul_FF_p_ref.mul C14.FF.mul
  simp only [mul_eq, mapR_bind, gen_ff_new_eq]
theorem gen_ff_neg_eq (p : Int) (x : FFS) : mapR FFS.f0 (FF.Neg.neg p x) = C14.FF.neg p x.f0 := by
  unfold FF.Neg.neg C14.FF.neg
  simp only [neg_eq, mapR_bind, gen_ff_new_eq]
theorem gen_ff_neg_ref_eq (p : Int) (x : FFS) : mapR FFS.f0 (FF.Neg_ref.neg p x) = C14.FF.neg p x.f0 := by
  unfold FF.Neg_ref.neg C14.FF.neg
  simp only [neg_eq, mapR_bind, gen_ff_new_eq]

theorem gen_ff_inv_eq (p : Int) (x : FFS) :
    mapR (Option.map FFS.f0) (FF.Ring.inv p x) = C14.FF.inv p x.f0 := by
  unfold FF.Ring.inv C14.FF.inv
  by_cases h : x.f0 = 0
  · fsimp [h]
  · fsimp [h]
    refine bind_congr' _ (fun t => ?_)
    obtain ⟨d, a, b⟩ := t
    by_cases hd : d = 1
    · subst hd
      simp only [decide_true, assert_true, bind_ok, beq_self_eq_true]
      rw [← gen_ff_new_eq]
      cases FF.new p a <;> simp [mapR_ok, mapR_panic, mapR_err]
    · have hd' : (d == 1) = false := by simpa using hd
      simp [hd, hd', assert_false]

theorem gen_ff_div_eq (p : Int) (x y : FFS) :
    mapR FFS.f0 (FF.Div_FF_p_ref.div p x y) = C14.FF.div p x.f0 y.f0 := by
  unfold FF.Div_FF_p_ref.div C14.FF.div
  rw [← gen_ff_inv_eq]
  by_cases h : y.f0 = 0
  · fsimp [h]
  · have h' : (y.f0 == 0) = false := by simpa using h
    cases hx : FF.Ring.inv p y with
    | ok o => cases o <;> fsimp [h, h', Opt.unwrap, gen_ff_mul_eq]
    | panic => fsimp [h, h']
    | err => fsimp [h, h']

/-- the hand model has no `%`: FF<p> is a field, the remainder is zero (after the zero-divisor assert) -/
theorem gen_ff_rem_eq (p : Int) (x y : FFS) :
    mapR FFS.f0 (FF.Rem_FF_p_ref.rem p x y) = if C14.FF.isZero y.f0 then .panic else ok 0 := by
  unfold FF.Rem_FF_p_ref.rem
  by_cases h : y.f0 = 0
  · fsimp [h]
  · have h' : (y.f0 == 0) = false := by simpa using h
    fsimp [h, h', FF.Zero.zero]

/-- the hand model has no `normalizing_unit`: `one` for zero, `inv().unwrap()` otherwise -/
theorem gen_ff_normalizing_unit_eq (p : Int) (x : FFS) :
    mapR FFS.f0 (FF.Ring.normalizing_unit p x) =
      if C14.FF.isZero x.f0 then ok 1 else (C14.FF.inv p x.f0 >>= fun o => match o with
        | some i => ok i
        | none => .panic) := by
  unfold FF.Ring.normalizing_unit
  rw [← gen_ff_inv_eq]
  by_cases h : x.f0 = 0
  · fsimp [h, FF.One.one]
  · have h' : (x.f0 == 0) = false := by simpa using h
    cases hx : FF.Ring.inv p x with
    | ok o => cases o <;> fsimp [h, h', Opt.unwrap]
    | panic => fsimp [h, h']
    | err => fsimp [h, h']

/-! ### `FF2` (f2.rs) -/

theorem gen_ff2_from_eq (a : Int) : mapR FF2S.f0 (FF2.From_I.from_ a) = ok (C14.FF2.ofInt a) := rfl
theorem gen_ff2_zero_eq : FF2.Zero.zero.f0 = false := rfl
theorem gen_ff2_one_eq : FF2.One.one.f0 = true := rfl
theorem gen_ff2_is_zero_eq (s : FF2S) : FF2.Zero.is_zero s = C14.FF2.isZero s.f0 := rfl
theorem gen_ff2_is_one_eq (s : FF2S) : FF2.One.is_one s = C14.FF2.isOne s.f0 := rfl
theorem gen_ff2_neg_eq (s : FF2S) : (FF2.Neg.neg s).f0 = C14.FF2.neg s.f0 := rfl
theorem gen_ff2_neg_ref_eq (s : FF2S) : (FF2.Neg_ref.neg s).f0 = C14.FF2.neg s.f0 := rfl
theorem gen_ff2_add_eq (x y : FF2S) : (FF2.Add_FF2_ref.add x y).f0 = C14.FF2.add x.f0 y.f0 := by
  cases hx : x.f0 <;> cases hy : y.f0 <;> simp [FF2.Add_FF2_ref.add, C14.FF2.add, hx, hy]
theorem gen_ff2_sub_eq (x y : FF2S) : (FF2.Sub_FF2_ref.sub x y).f0 = C14.FF2.sub x.f0 y.f0 := gen_ff2_add_eq x y
theorem gen_ff2_mul_eq (x y : FF2S) : (FF2.Mul_FF2_ref.mul x y).f0 = C14.FF2.mul x.f0 y.f0 := rfl
theorem gen_ff2_div_eq (x y : FF2S) : mapR FF2S.f0 (FF2.Div_FF2_ref.div x y) = C14.FF2.div x.f0 y.f0 := by
  unfold FF2.Div_FF2_ref.div C14.FF2.div
  cases hy : y.f0 <;> simp [FF2.Zero.is_zero, C14.FF2.isZero, hy, assert_true, assert_false, mapR_ok, mapR_panic]
theorem gen_ff2_rem_eq (x y : FF2S) :
    mapR FF2S.f0 (FF2.Rem_FF2_ref.rem x y) = if C14.FF2.isZero y.f0 then .panic else ok false := by
  unfold FF2.Rem_FF2_ref.rem
  cases hy : y.f0 <;>
    simp [FF2.Zero.is_zero, C14.FF2.isZero, hy, assert_true, assert_false, mapR_ok, mapR_panic, FF2.Zero.zero]
theorem gen_ff2_inv_eq (s : FF2S) : (FF2.Ring.inv s).map FF2S.f0 = C14.FF2.inv s.f0 := by
  unfold FF2.Ring.inv C14.FF2.inv
  cases hs : s.f0 <;> simp [FF2.One.is_one, C14.FF2.isOne, hs]
theorem gen_ff2_is_unit_eq (s : FF2S) : FF2.Ring.is_unit s = !C14.FF2.isZero s.f0 := rfl
theorem gen_ff2_normalizing_unit_eq (s : FF2S) : (FF2.Ring.normalizing_unit s).f0 = true := rfl

/-! ### the statements are not vacuous -/

example : mapR FFS.f0 (FF.Mul_FF_p_ref.mul 7 ⟨5⟩ ⟨4⟩) = ok 6 := by rw [gen_ff_mul_eq]; decide
example : mapR FFS.f0 (FF.Mul_FF_p_ref.mul 46349 ⟨46348⟩ ⟨46348⟩) = .panic := by rw [gen_ff_mul_eq]; decide
example : mapR FFS.f0 (FF.new 0 3) = .panic := by rw [gen_ff_new_eq]; decide
example : mapR (Option.map FFS.f0) (FF.Ring.inv 7 ⟨3⟩) = ok (some 5) := by rw [gen_ff_inv_eq]; decide

end Yuiv.GenF
