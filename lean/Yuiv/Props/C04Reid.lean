import Yuiv.Props.C04Inv
import Yuiv.Props.C18Bridge
import Yuiv.Proofs.C04ReidBraid2
import Yuiv.Proofs.C04ReidBigon
import Yuiv.Proofs.C04ReidMarkov
/-
C04-b — invariance of the MODEL's normalised Jones polynomial (`C04.jones`, `C04.evalJones`, `C04.chiChain`) under the
Reidemeister moves I and II at the level of PD codes.  Property theorems only; proofs in `Proofs/C04ReidUF` (relation
level: collapsing labels, isolated labels; skein expansion over the new crossings), `C04ReidR1`, `C04ReidR2`,
`C04ReidBigon`, `C04ReidBraid`, `C04ReidBraid2`.  Everything is about the EXISTING model definitions.
The sign array is an INPUT of `jones`; only its numbers of positive / negative entries matter.

(R1) `addKink l i j u v k pos` mirrors `harness/src/links.rs::add_kink`: the slot `(i, j)` of the diagram (in the
harness: the head of the edge `e = l[i].e[j]`) receives the fresh label `u` (`x` in the Rust code); the kink crossing of
shape `k` (`0: X[e,v,v,u]`, `1: X[e,u,v,v]`, `2: X[v,e,u,v]`, `≥3: X[v,v,u,e]`, `v` = second fresh label `y`, the loop) is
inserted at position `pos` of the crossing list.  Shapes 0, 2 are NEGATIVE curls, shapes 1, 3 POSITIVE curls
(`kinkSign`: the strand returns into the crossing through slot 1 resp. slot 3; `KhRef.slotSign .X 1 = -1`, `.X 3 = 1`).
Proved for EVERY well-formed diagram `l` (each crossing has 4 slots — nothing else: the code need not be planar, the
label `e` may occur any number of times, resolved `V`/`H` crossings and `Xm` crossings are allowed in `l`), every slot
`i < l.size`, `j < 4`, all labels `u ≠ v` not occurring in `l`, every shape `k`, every position `pos ≤ l.size`:
  * `r1_stateSum`   : the raw state sum is multiplied by `1 + x·y` (negative) resp. `y + x` (positive), in every
                      commutative ring, for arbitrary `x` (for `−q`) and `y` (for `q + q⁻¹`);
  * `r1_evalJones`  : `evalJones` with `(n₊, n₋)` increased by the kink's sign is unchanged, for every `q·q⁻¹ = 1`;
  * `r1_jones`, `r1_jones_push`, `r1_chiChain` : LITERAL equality of the coefficient lists.
NOT proved: that `KhRef.crossingSigns` of the kinked diagram is the old array with `kinkSign k` inserted (needs a valid
oriented code and `(i, j)` = the HEAD of `e`; with a tail slot the code is inconsistently oriented and the reference
returns other signs).  It is evaluated on an example below.

(R1, braid form = Markov stabilisation) `r1_markov_stateSum`, `r1_markov_evalJones`, `r1_markov_jones_signs`:
`closure (n+1) (w ++ [±n])` EXISTS whenever `closure n w` does (`n ≥ 1`), and has the same Jones list — END TO END with
the reference's OWN `crossingSigns` on both sides (here the sign bookkeeping is proved, via
`C18Bridge.khref_writhe_closure`: `n₊ − n₋` = exponent sum, `n₊ + n₋` = word length).

(R2) three forms.
  * abstract bigon on explicit labels (`r2_stateSum`, `r2_evalJones`, `r2_jones`): a diagram whose crossing list is a
    permutation of `X₁ :: X₂ :: lm` with the two bigon crossings `bigonPair np a b c d a2 b2`, compared with
    `renumber (collapse2 a b c d a2 b2) lm` (the diagram with the bigon removed);
  * the concrete PD move `addBigon` (`r2_addBigon_jones`, `r2_addBigon_evalJones`): every well-formed `l`, any two
    different slots, four different fresh labels, both forms of the bigon;
  * BRAID FORM (`r2_braid_stateSum`, `r2_braid_evalJones`, `r2_braid_jones`, `r2_braid_jones_signs`):
    `closure n (w₁ ++ [s, −s] ++ w₂)` versus `closure n (w₁ ++ w₂)` for the code model `C18.closure` of
    `Braid::closure`, every `n`, `w₁`, `w₂`, `s` for which both closures exist; the last theorem uses the reference's
    OWN `crossingSigns` on both sides (via `C18Bridge.khref_writhe_closure`); `r2_braid_insert` : the new closure
    EXISTS whenever the old one does and `1 ≤ |s| < n`.
Mathematical content: state sum(new) = `x ·` state sum(old) `+ (1 + x·y + x²) ·` state sum(turn-back diagram), and
`1 + x·y + x² = 0` at `x = −q`, `y = q + q⁻¹`; the factor `x` is cancelled by the degree shift of `(n₊+1, n₋+1)`.

(R3) not done.
-/
namespace Yuiv.C04Inv
open Yuiv.KhRef Yuiv.C04

variable {R : Type} [CommRing R]

/-! ### Reidemeister I -/

/-- (R1) state-sum level: a kink multiplies the Kauffman state sum by `1 + x·y` (shapes 0, 2) resp. `y + x`
(shapes 1, 3) — every commutative ring, all `x`, `y` -/
theorem r1_stateSum (x y : R) (l : Link) (hwf : WF l) {i j u v : Nat} (k : Nat) {pos : Nat}
    (hi : i < l.size) (hj : j < 4) (hu : u ∉ labelSet l) (hv : v ∉ labelSet l) (huv : u ≠ v) (hpos : pos ≤ l.size) :
    sumRange (2 ^ crossingNum (addKink l i j u v k pos)) (fun s =>
        npow x (popcount s (crossingNum (addKink l i j u v k pos))) * npow y (circleCount (addKink l i j u v k pos) s))
      = (if k = 0 ∨ k = 2 then 1 + x * y else y + x) *
        sumRange (2 ^ crossingNum l) (fun s => npow x (popcount s (crossingNum l)) * npow y (circleCount l s)) :=
  addKink_stateSum x y l hwf k hi hj hu hv huv hpos

/-- (R1) the normalised state sum `evalJones` is invariant: `(n₊, n₋)` grows by `(0, 1)` for the negative shapes 0, 2
and by `(1, 0)` for the positive shapes 1, 3 — every commutative ring, every `q · qinv = 1` -/
theorem r1_evalJones (q qinv : R) (hq : q * qinv = 1) (nPos nNeg : Nat) (l : Link) (hwf : WF l) {i j u v : Nat}
    (k : Nat) {pos : Nat} (hi : i < l.size) (hj : j < 4) (hu : u ∉ labelSet l) (hv : v ∉ labelSet l) (huv : u ≠ v)
    (hpos : pos ≤ l.size) :
    evalJones q qinv (crossingNum (addKink l i j u v k pos)) (nPos + kinkPos k) (nNeg + kinkNeg k)
        (circleCount (addKink l i j u v k pos))
      = evalJones q qinv (crossingNum l) nPos nNeg (circleCount l) := by
  rw [evalJones_stateSum, evalJones_stateSum, addKink_stateSum _ _ l hwf k hi hj hu hv huv hpos, ← mul_assoc,
    prefactor_kink q qinv hq]

/-- (R1) LITERAL equality of the `jones` coefficient lists: the kinked diagram with ANY sign array that has
`kinkPos k` more positive and `kinkNeg k` more negative entries than `signs` -/
theorem r1_jones (l : Link) (hwf : WF l) {i j u v : Nat} (k : Nat) {pos : Nat}
    (hi : i < l.size) (hj : j < 4) (hu : u ∉ labelSet l) (hv : v ∉ labelSet l) (huv : u ≠ v) (hpos : pos ≤ l.size)
    (signs signs' : Array Int)
    (hp : (signs'.filter (· > 0)).size = (signs.filter (· > 0)).size + kinkPos k)
    (hn : (signs'.filter (· < 0)).size = (signs.filter (· < 0)).size + kinkNeg k) :
    jones (addKink l i j u v k pos) signs' = jones l signs := by
  open LaurentPolynomial in
  refine canon_eq_of_eval _ _ (canon_jones _ _) (canon_jones _ _) ?_
  show LP.eval _ _ _ _ = LP.eval _ _ _ _
  rw [eval_jones _ _ T_unit, eval_jones _ _ T_unit, hp, hn]
  exact r1_evalJones _ _ T_unit _ _ l hwf k hi hj hu hv huv hpos

/-- (R1) … in particular with the kink's sign `kinkSign k` (−1 for shapes 0, 2; +1 for shapes 1, 3) appended -/
theorem r1_jones_push (l : Link) (hwf : WF l) {i j u v : Nat} (k : Nat) {pos : Nat}
    (hi : i < l.size) (hj : j < 4) (hu : u ∉ labelSet l) (hv : v ∉ labelSet l) (huv : u ≠ v) (hpos : pos ≤ l.size)
    (signs : Array Int) :
    jones (addKink l i j u v k pos) (signs.push (kinkSign k)) = jones l signs := by
  refine r1_jones l hwf k hi hj hu hv huv hpos signs _ ?_ ?_ <;>
    (simp only [kinkSign, kinkPos, kinkNeg]; split <;> simp)

/-- (R1) the same for the graded Euler characteristic of the chain groups of the cube reference -/
theorem r1_chiChain (l : Link) (hwf : WF l) {i j u v : Nat} (k : Nat) {pos : Nat}
    (hi : i < l.size) (hj : j < 4) (hu : u ∉ labelSet l) (hv : v ∉ labelSet l) (huv : u ≠ v) (hpos : pos ≤ l.size)
    (signs : Array Int) :
    chiChain (addKink l i j u v k pos) (signs.push (kinkSign k)) = chiChain l signs := by
  rw [chiChain_eq_jones_literal, chiChain_eq_jones_literal]
  exact r1_jones_push l hwf k hi hj hu hv huv hpos signs

/-! ### Reidemeister II: the bigon on explicit labels

The two strands enter the bigon on the labels `a`, `b`, run through it on `c`, `d` and leave on `a2`, `b2`; the two
crossings are `X[a,c,d,b], X[d,c,a2,b2]` (form PN, as written by `σᵢ σᵢ⁻¹`) or `X[b,a,c,d], X[c,a2,b2,d]` (form NP, as
written by `σᵢ⁻¹ σᵢ`).  `lm` is the rest of the diagram; the diagram WITHOUT the bigon is `renumber (collapse2 …) lm`
(`a2`, `c ↦ a`; `b2`, `d ↦ b`).  `BigonLabels lm a b c d a2 b2` : `c`, `d` do not occur in `lm` and are different from
each other and from `a, b, a2, b2`; `a ≠ b2`, `b ≠ a2`, `a2 ≠ b2` (`a = b`, `a = a2`, `b = b2` are allowed). -/

/-- (R2) state-sum level, all `x`, `y`, every commutative ring: the bigon contributes `x ·` (identity tangle)
`+ (1 + x·y + x²) ·` (turn-back tangle) -/
theorem r2_stateSum (x y : R) {lm l' : Link} {a b c d a2 b2 : Nat} (np : Bool) (hwf : WF lm)
    (h : BigonLabels lm a b c d a2 b2)
    (ha : a ∈ labelSet (renumber (collapse2 a b c d a2 b2) lm)) (hb : b ∈ labelSet (renumber (collapse2 a b c d a2 b2) lm))
    (hp : l'.toList.Perm ((bigonPair np a b c d a2 b2).1 :: (bigonPair np a b c d a2 b2).2 :: lm.toList)) :
    stateSum x y l' = x * stateSum x y (renumber (collapse2 a b c d a2 b2) lm)
      + (1 + x * y + x ^ 2) * turnSum x y lm a b a2 b2 := by
  cases np
  · exact bigon_stateSum_PN x y hwf h ha hb hp
  · exact bigon_stateSum_NP x y hwf h ha hb hp

/-- (R2) the normalised state sum is invariant: `(n₊, n₋)` grows by `(1, 1)` -/
theorem r2_evalJones (q qinv : R) (hq : q * qinv = 1) (nPos nNeg : Nat) {lm l' : Link} {a b c d a2 b2 : Nat}
    (np : Bool) (hwf : WF lm) (h : BigonLabels lm a b c d a2 b2)
    (ha : a ∈ labelSet (renumber (collapse2 a b c d a2 b2) lm)) (hb : b ∈ labelSet (renumber (collapse2 a b c d a2 b2) lm))
    (hp : l'.toList.Perm ((bigonPair np a b c d a2 b2).1 :: (bigonPair np a b c d a2 b2).2 :: lm.toList)) :
    evalJones q qinv (crossingNum l') (nPos + 1) (nNeg + 1) (circleCount l')
      = evalJones q qinv (crossingNum (renumber (collapse2 a b c d a2 b2) lm)) nPos nNeg
          (circleCount (renumber (collapse2 a b c d a2 b2) lm)) := by
  rw [evalJones_stateSum, evalJones_stateSum, r2_stateSum (-q) (q + qinv) np hwf h ha hb hp, bigon_cancel q qinv hq,
    zero_mul, add_zero, ← mul_assoc, prefactor_bigon q qinv hq]

/-- (R2) LITERAL equality of the `jones` coefficient lists (sign arrays: one more positive and one more negative entry) -/
theorem r2_jones {lm l' : Link} {a b c d a2 b2 : Nat} (np : Bool) (hwf : WF lm) (h : BigonLabels lm a b c d a2 b2)
    (ha : a ∈ labelSet (renumber (collapse2 a b c d a2 b2) lm)) (hb : b ∈ labelSet (renumber (collapse2 a b c d a2 b2) lm))
    (hp : l'.toList.Perm ((bigonPair np a b c d a2 b2).1 :: (bigonPair np a b c d a2 b2).2 :: lm.toList))
    (signs signs' : Array Int)
    (hpos : (signs'.filter (· > 0)).size = (signs.filter (· > 0)).size + 1)
    (hneg : (signs'.filter (· < 0)).size = (signs.filter (· < 0)).size + 1) :
    jones l' signs' = jones (renumber (collapse2 a b c d a2 b2) lm) signs := by
  open LaurentPolynomial in
  refine canon_eq_of_eval _ _ (canon_jones _ _) (canon_jones _ _) ?_
  show LP.eval _ _ _ _ = LP.eval _ _ _ _
  rw [eval_jones _ _ T_unit, eval_jones _ _ T_unit, hpos, hneg]
  exact r2_evalJones _ _ T_unit _ _ np hwf h ha hb hp

/-- (R2) the concrete move on a PD code: `addBigon l ia ja ib jb c d a2 b2 np` gives the fresh labels `a2`, `b2` to the
slots `(ia, ja)`, `(ib, jb)` (ends of the edges `a = l[ia].e[ja]`, `b = l[ib].e[jb]`) and adds the two crossings
`bigonPair np a b c d a2 b2` (inner labels `c`, `d`).  For EVERY well-formed `l`, any two different slots, any four
different labels not occurring in `l`: the `jones` list with one more positive and one more negative sign is LITERALLY
that of `l` (the position of the two new crossings in the list is immaterial by `jones_perm`) -/
theorem r2_addBigon_jones (l : Link) (hwf : WF l) {ia ja ib jb c d a2 b2 : Nat} (np : Bool)
    (hia : ia < l.size) (hja : ja < 4) (hib : ib < l.size) (hjb : jb < 4) (hne : ¬ (ia = ib ∧ ja = jb))
    (hc : c ∉ labelSet l) (hd : d ∉ labelSet l) (ha2 : a2 ∉ labelSet l) (hb2 : b2 ∉ labelSet l)
    (cd : c ≠ d) (ca2 : c ≠ a2) (cb2 : c ≠ b2) (da2 : d ≠ a2) (db2 : d ≠ b2) (a2b2 : a2 ≠ b2)
    (signs signs' : Array Int)
    (hpos : (signs'.filter (· > 0)).size = (signs.filter (· > 0)).size + 1)
    (hneg : (signs'.filter (· < 0)).size = (signs.filter (· < 0)).size + 1) :
    jones (addBigon l ia ja ib jb c d a2 b2 np) signs' = jones l signs := by
  obtain ⟨h1, h2, h3, h4, h5⟩ := addBigon_spec l hwf hia hja hib hjb hne hc hd ha2 hb2 cd ca2 cb2 da2 db2 a2b2
  have := r2_jones (l' := addBigon l ia ja ib jb c d a2 b2 np) np h1 h2 (by rw [h3]; exact h4) (by rw [h3]; exact h5)
    (by unfold addBigon; exact List.Perm.refl _) signs signs' hpos hneg
  rw [this, h3]

/-- (R2) … and the normalised state sum in every commutative ring -/
theorem r2_addBigon_evalJones (q qinv : R) (hq : q * qinv = 1) (nPos nNeg : Nat) (l : Link) (hwf : WF l)
    {ia ja ib jb c d a2 b2 : Nat} (np : Bool)
    (hia : ia < l.size) (hja : ja < 4) (hib : ib < l.size) (hjb : jb < 4) (hne : ¬ (ia = ib ∧ ja = jb))
    (hc : c ∉ labelSet l) (hd : d ∉ labelSet l) (ha2 : a2 ∉ labelSet l) (hb2 : b2 ∉ labelSet l)
    (cd : c ≠ d) (ca2 : c ≠ a2) (cb2 : c ≠ b2) (da2 : d ≠ a2) (db2 : d ≠ b2) (a2b2 : a2 ≠ b2) :
    evalJones q qinv (crossingNum (addBigon l ia ja ib jb c d a2 b2 np)) (nPos + 1) (nNeg + 1)
        (circleCount (addBigon l ia ja ib jb c d a2 b2 np))
      = evalJones q qinv (crossingNum l) nPos nNeg (circleCount l) := by
  obtain ⟨h1, h2, h3, h4, h5⟩ := addBigon_spec l hwf hia hja hib hjb hne hc hd ha2 hb2 cd ca2 cb2 da2 db2 a2b2
  have := r2_evalJones q qinv hq nPos nNeg (l' := addBigon l ia ja ib jb c d a2 b2 np) np h1 h2
    (by rw [h3]; exact h4) (by rw [h3]; exact h5) (by unfold addBigon; exact List.Perm.refl _)
  rw [this, h3]

/-! ### Reidemeister II in braid form: `closure n (w₁ ++ [s, −s] ++ w₂)` versus `closure n (w₁ ++ w₂)`

`C18.closure` is the code model of `Braid::closure`; `toKh` the translation to the reference's links.  BOTH closures
must exist (`= .ok _`): the letters are in range and no strand is a free loop (`Braid::closure` panics otherwise —
e.g. `closure 2 []`).  Every word, every insertion point, every letter `s` (either sign), every strand number. -/

open Yuiv.C18Bridge (toKh)

/-- (R2, braid form) state-sum level -/
theorem r2_braid_stateSum (x y : R) (n : Nat) (w₁ w₂ : List Int) (s : Int) (l l' : C18.Link)
    (h : C18.closure n (w₁ ++ w₂) = .ok l) (h' : C18.closure n (w₁ ++ [s, -s] ++ w₂) = .ok l') :
    ∃ T : R, stateSum x y (toKh l') = x * stateSum x y (toKh l) + (1 + x * y + x ^ 2) * T :=
  braid_r2_stateSum x y n w₁ w₂ s l l' h h'

/-- (R2, braid form) the normalised state sum is invariant -/
theorem r2_braid_evalJones (q qinv : R) (hq : q * qinv = 1) (nPos nNeg : Nat) (n : Nat) (w₁ w₂ : List Int) (s : Int)
    (l l' : C18.Link) (h : C18.closure n (w₁ ++ w₂) = .ok l) (h' : C18.closure n (w₁ ++ [s, -s] ++ w₂) = .ok l') :
    evalJones q qinv (crossingNum (toKh l')) (nPos + 1) (nNeg + 1) (circleCount (toKh l'))
      = evalJones q qinv (crossingNum (toKh l)) nPos nNeg (circleCount (toKh l)) := by
  obtain ⟨T, hT⟩ := braid_r2_stateSum (-q) (q + qinv) n w₁ w₂ s l l' h h'
  rw [evalJones_stateSum, evalJones_stateSum, hT, bigon_cancel q qinv hq, zero_mul, add_zero, ← mul_assoc,
    prefactor_bigon q qinv hq]

/-- (R2, braid form) LITERAL equality of the `jones` coefficient lists -/
theorem r2_braid_jones (n : Nat) (w₁ w₂ : List Int) (s : Int) (l l' : C18.Link)
    (h : C18.closure n (w₁ ++ w₂) = .ok l) (h' : C18.closure n (w₁ ++ [s, -s] ++ w₂) = .ok l')
    (signs signs' : Array Int)
    (hpos : (signs'.filter (· > 0)).size = (signs.filter (· > 0)).size + 1)
    (hneg : (signs'.filter (· < 0)).size = (signs.filter (· < 0)).size + 1) :
    jones (toKh l') signs' = jones (toKh l) signs := by
  open LaurentPolynomial in
  refine canon_eq_of_eval _ _ (canon_jones _ _) (canon_jones _ _) ?_
  show LP.eval _ _ _ _ = LP.eval _ _ _ _
  rw [eval_jones _ _ T_unit, eval_jones _ _ T_unit, hpos, hneg]
  exact r2_braid_evalJones _ _ T_unit _ _ n w₁ w₂ s l l' h h'

/-- (R2, braid form) END TO END with the reference's OWN crossing signs (`KhRef.crossingSigns`): both sign
computations succeed and the two Jones coefficient lists (and the two graded Euler characteristics of the cube's chain
groups) are LITERALLY equal -/
theorem r2_braid_jones_signs (n : Nat) (w₁ w₂ : List Int) (s : Int) (l l' : C18.Link)
    (h : C18.closure n (w₁ ++ w₂) = .ok l) (h' : C18.closure n (w₁ ++ [s, -s] ++ w₂) = .ok l') :
    ∃ sg sg', KhRef.crossingSigns (toKh l) = some sg ∧ KhRef.crossingSigns (toKh l') = some sg' ∧
      jones (toKh l') sg' = jones (toKh l) sg ∧ chiChain (toKh l') sg' = chiChain (toKh l) sg := by
  obtain ⟨sg, h1, h2, h3⟩ := C18Bridge.khref_writhe_closure n _ l h
  obtain ⟨sg', h1', h2', h3'⟩ := C18Bridge.khref_writhe_closure n _ l' h'
  have e : C18.expSum (w₁ ++ [s, -s] ++ w₂) = C18.expSum (w₁ ++ w₂) := by
    simp [C18.expSum_eq_sum, Int.sign_neg]
  rw [e] at h2'
  simp only [List.length_append, List.length_cons, List.length_nil] at h3 h3'
  unfold C18Bridge.nPosK C18Bridge.nNegK at h2 h3 h2' h3'
  have hj := r2_braid_jones n w₁ w₂ s l l' h h' sg sg' (by omega) (by omega)
  exact ⟨sg, sg', h1, h1', hj, by rw [chiChain_eq_jones_literal, chiChain_eq_jones_literal, hj]⟩

/-- (R2, braid form) FOR ALL VALID BRAID WORDS: if the closure of `w₁ ++ w₂` exists and `s` is a letter in range
(`1 ≤ |s| < n`), then the closure of `w₁ ++ [s, −s] ++ w₂` exists as well, both sign computations of the reference
succeed, and the Jones coefficient lists (and the Euler-characteristic lists) are LITERALLY equal -/
theorem r2_braid_insert (n : Nat) (w₁ w₂ : List Int) (s : Int) (l : C18.Link)
    (h : C18.closure n (w₁ ++ w₂) = .ok l) (hs0 : s ≠ 0) (hsn : s.natAbs < n) :
    ∃ l' sg sg', C18.closure n (w₁ ++ [s, -s] ++ w₂) = .ok l' ∧
      KhRef.crossingSigns (toKh l) = some sg ∧ KhRef.crossingSigns (toKh l') = some sg' ∧
      jones (toKh l') sg' = jones (toKh l) sg ∧ chiChain (toKh l') sg' = chiChain (toKh l) sg := by
  obtain ⟨l', h'⟩ := braid_r2_exists n w₁ w₂ s l h hs0 hsn
  obtain ⟨sg, sg', h1, h2, h3, h4⟩ := r2_braid_jones_signs n w₁ w₂ s l l' h h'
  exact ⟨l', sg, sg', h', h1, h2, h3, h4⟩

/-! ### Reidemeister I in braid form: Markov stabilisation `closure (n+1) (w ++ [±n])` versus `closure n w` -/

/-- (R1, braid form) state-sum level: the stabilised closure EXISTS and its state sum is that of `closure n w` times
`y + x` (letter `+n`) resp. `1 + x·y` (letter `−n`) -/
theorem r1_markov_stateSum (x y : R) (n : Nat) (w : List Int) (s : Int) (l : C18.Link)
    (h : C18.closure n w = .ok l) (hs : s.natAbs = n) (hn : 0 < n) :
    ∃ l', C18.closure (n + 1) (w ++ [s]) = .ok l' ∧
      stateSum x y (toKh l') = (if s > 0 then y + x else 1 + x * y) * stateSum x y (toKh l) :=
  markov_stateSum x y n w s l h hs hn

/-- (R1, braid form) the normalised state sum is invariant: `n₊ + 1` for the letter `+n`, `n₋ + 1` for `−n` -/
theorem r1_markov_evalJones (q qinv : R) (hq : q * qinv = 1) (nPos nNeg : Nat) (n : Nat) (w : List Int) (s : Int)
    (l : C18.Link) (h : C18.closure n w = .ok l) (hs : s.natAbs = n) (hn : 0 < n) :
    ∃ l', C18.closure (n + 1) (w ++ [s]) = .ok l' ∧
      evalJones q qinv (crossingNum (toKh l')) (nPos + if s > 0 then 1 else 0) (nNeg + if s > 0 then 0 else 1)
          (circleCount (toKh l'))
        = evalJones q qinv (crossingNum (toKh l)) nPos nNeg (circleCount (toKh l)) := by
  obtain ⟨l', h1, h2⟩ := markov_stateSum (-q) (q + qinv) n w s l h hs hn
  refine ⟨l', h1, ?_⟩
  rw [evalJones_stateSum, evalJones_stateSum, h2, ← mul_assoc]
  by_cases hpos : s > 0
  · simp only [hpos, if_true, Nat.add_zero]
    rw [prefactor_pos q qinv hq]
  · simp only [hpos, if_false, Nat.add_zero]
    rw [prefactor_neg q qinv hq]

/-- (R1, braid form) END TO END with the reference's OWN crossing signs: the stabilised closure exists, both sign
computations succeed, and the Jones lists (and the Euler-characteristic lists) are LITERALLY equal -/
theorem r1_markov_jones_signs (n : Nat) (w : List Int) (s : Int) (l : C18.Link)
    (h : C18.closure n w = .ok l) (hs : s.natAbs = n) (hn : 0 < n) :
    ∃ l' sg sg', C18.closure (n + 1) (w ++ [s]) = .ok l' ∧
      KhRef.crossingSigns (toKh l) = some sg ∧ KhRef.crossingSigns (toKh l') = some sg' ∧
      jones (toKh l') sg' = jones (toKh l) sg ∧ chiChain (toKh l') sg' = chiChain (toKh l) sg := by
  open LaurentPolynomial in
  obtain ⟨sg, h1, h2, h3⟩ := C18Bridge.khref_writhe_closure n w l h
  obtain ⟨l', hl', hev⟩ := r1_markov_evalJones (T 1 : ℤ[T;T⁻¹]) (T (-1)) T_unit
    (C18Bridge.nPosK sg) (C18Bridge.nNegK sg) n w s l h hs hn
  obtain ⟨sg', h1', h2', h3'⟩ := C18Bridge.khref_writhe_closure (n + 1) _ l' hl'
  have e : C18.expSum (w ++ [s]) = C18.expSum w + Int.sign s := by
    simp [C18.expSum_eq_sum]
  rw [e] at h2'
  simp only [List.length_append, List.length_cons, List.length_nil] at h3'
  unfold C18Bridge.nPosK C18Bridge.nNegK at *
  have hj : jones (toKh l') sg' = jones (toKh l) sg := by
    refine canon_eq_of_eval _ _ (canon_jones _ _) (canon_jones _ _) ?_
    show LP.eval _ _ _ _ = LP.eval _ _ _ _
    rw [eval_jones _ _ T_unit, eval_jones _ _ T_unit, ← hev]
    by_cases hpos : s > 0
    · have : Int.sign s = 1 := Int.sign_eq_one_of_pos hpos
      rw [this] at h2'
      simp only [hpos, if_true]
      congr 1 <;> omega
    · have : Int.sign s = -1 := Int.sign_eq_neg_one_of_neg (by omega)
      rw [this] at h2'
      simp only [hpos, if_false]
      congr 1 <;> omega
  exact ⟨l', sg, sg', hl', h1, h1', hj, by rw [chiChain_eq_jones_literal, chiChain_eq_jones_literal, hj]⟩

/-! ### non-vacuity: the hypotheses are satisfiable; concrete instances

(`jones` itself is not evaluable by `decide` — `KhRef.circles` runs imperative loops and `Array.qsort`; the values in
the comments are `#eval` outputs.  NOTE: the zero-crossing diagram `#[]` is the EMPTY link in this model
(`jones #[] #[] = [(0,1)]`, i.e. 1), not the unknot; a crossing-free unknot is e.g. `#[⟨.V, #[0,0,1,1]⟩]`
(`jones = [(-1,1),(1,1)]`, i.e. q⁻¹ + q), and so are the one-crossing curls `X[0,0,1,1]` (+) and `X[0,1,1,0]` (−).) -/

/-- what `addKink` produces: the trefoil `X[1,4,2,5] X[3,6,4,1] X[5,2,6,3]` with a negative curl on the edge 1 (its
head, slot 0 of the first crossing, becomes 7; loop 8), appended at the end -/
example : addKink trefoil 0 0 7 8 0 3 =
    #[⟨.X, #[7, 4, 2, 5]⟩, ⟨.X, #[3, 6, 4, 1]⟩, ⟨.X, #[5, 2, 6, 3]⟩, ⟨.X, #[1, 8, 8, 7]⟩] := by rfl

/-- trefoil + negative curl (shape 0), signs `−−−` and `−−−−`: both sides are `[(-9,-1),(-5,1),(-3,1),(-1,1)]` -/
example : jones (addKink trefoil 0 0 7 8 0 3) #[-1, -1, -1, -1] = jones trefoil #[-1, -1, -1] :=
  r1_jones_push trefoil wf_trefoil 0 (by decide) (by decide) (by simp [labelSet, trefoil]) (by simp [labelSet, trefoil])
    (by decide) (by decide) #[-1, -1, -1]

/-- … and the reference's own sign computation on the kinked code returns exactly these signs -/
example : KhRef.crossingSigns (addKink trefoil 0 0 7 8 0 3) = some #[-1, -1, -1, -1] ∧
    KhRef.crossingSigns trefoil = some #[-1, -1, -1] := by
  rw [C18Bridge.crossingSigns_eq, C18Bridge.crossingSigns_eq]; decide +kernel

/-- trefoil + positive curl (shape 3) on the edge 2 (slot 1 of the third crossing), inserted in front -/
example : jones (addKink trefoil 2 1 7 8 3 0) #[1, -1, -1, -1] = jones trefoil #[-1, -1, -1] :=
  r1_jones trefoil wf_trefoil 3 (by decide) (by decide) (by simp [labelSet, trefoil]) (by simp [labelSet, trefoil])
    (by decide) (by decide) _ _ (by decide) (by decide)

/-- the crossing-free unknot with a curl of either sign: all three lists are `[(-1,1),(1,1)]` -/
example : jones (addKink #[⟨.V, #[0, 0, 1, 1]⟩] 0 0 2 3 0 1) #[-1] = jones #[⟨.V, #[0, 0, 1, 1]⟩] #[] ∧
    jones (addKink #[⟨.V, #[0, 0, 1, 1]⟩] 0 0 2 3 1 0) #[1] = jones #[⟨.V, #[0, 0, 1, 1]⟩] #[] := by
  have hwf : WF #[⟨.V, #[0, 0, 1, 1]⟩] := by intro c hc; simp at hc; subst hc; rfl
  exact ⟨r1_jones_push _ hwf 0 (by decide) (by decide) (by simp [labelSet]) (by simp [labelSet]) (by decide) (by decide) #[],
    r1_jones_push _ hwf 1 (by decide) (by decide) (by simp [labelSet]) (by simp [labelSet]) (by decide) (by decide) #[]⟩

/-- a bigon between the edges 1 and 6 of the trefoil (slots (0,0) and (1,1)), both forms -/
example (np : Bool) : jones (addBigon trefoil 0 0 1 1 7 8 9 10 np) #[1, -1, -1, -1, -1] = jones trefoil #[-1, -1, -1] :=
  r2_addBigon_jones trefoil wf_trefoil np (by decide) (by decide) (by decide) (by decide) (by decide)
    (by simp [labelSet, trefoil]) (by simp [labelSet, trefoil]) (by simp [labelSet, trefoil])
    (by simp [labelSet, trefoil]) (by decide) (by decide) (by decide) (by decide) (by decide) (by decide) _ _
    (by decide) (by decide)

/-- braid form: both closures exist for `σ₁σ₂` and `σ₁ σ₂σ₂⁻¹ σ₂` on 3 strands (and for the other order) -/
example : (C18.closure 3 ([1] ++ [2])).isOk = true ∧ (C18.closure 3 ([1] ++ [2, -2] ++ [2])).isOk = true ∧
    (C18.closure 3 ([1] ++ [-2, - -2] ++ [2])).isOk = true := by decide

/-- … so the theorem applies (`#eval`: both `[(-1,1),(1,1)]`, signs `++−+` and `++`) -/
example : ∃ l l' sg sg', C18.closure 3 ([1] ++ [2]) = .ok l ∧ C18.closure 3 ([1] ++ [2, -2] ++ [2]) = .ok l' ∧
    KhRef.crossingSigns (toKh l) = some sg ∧ KhRef.crossingSigns (toKh l') = some sg' ∧
    jones (toKh l') sg' = jones (toKh l) sg := by
  have ok : ∀ {r : Res C18.Link}, r.isOk = true → ∃ a, r = .ok a := by
    intro r hr; cases r <;> simp [Res.isOk] at hr ⊢
  obtain ⟨l, h⟩ := ok (r := C18.closure 3 ([1] ++ [2])) (by decide)
  obtain ⟨l', h'⟩ := ok (r := C18.closure 3 ([1] ++ [2, -2] ++ [2])) (by decide)
  obtain ⟨sg, sg', h1, h2, h3, _⟩ := r2_braid_jones_signs 3 [1] [2] 2 l l' h h'
  exact ⟨l, l', sg, sg', h, h', h1, h2, h3⟩

/-- Markov stabilisation of the trefoil braid `σ₁³` on 2 strands by `σ₂⁻¹` on 3 strands -/
example : ∃ l l' sg sg', C18.closure 2 [1, 1, 1] = .ok l ∧ C18.closure 3 ([1, 1, 1] ++ [-2]) = .ok l' ∧
    KhRef.crossingSigns (toKh l) = some sg ∧ KhRef.crossingSigns (toKh l') = some sg' ∧
    jones (toKh l') sg' = jones (toKh l) sg := by
  have ok : ∀ {r : Res C18.Link}, r.isOk = true → ∃ a, r = .ok a := by
    intro r hr; cases r <;> simp [Res.isOk] at hr ⊢
  obtain ⟨l, h⟩ := ok (r := C18.closure 2 [1, 1, 1]) (by decide)
  obtain ⟨l', sg, sg', h', h1, h2, h3, _⟩ := r1_markov_jones_signs 2 [1, 1, 1] (-2) l h (by decide) (by decide)
  exact ⟨l, l', sg, sg', h, h', h1, h2, h3⟩

/-- `Braid::closure` panics on a free strand, e.g. for the empty word — there the braid-form theorem says nothing -/
example : C18.closure 2 [] = .panic := by decide

/-- an invertible `q` in a non-trivial ring -/
example : (-1 : Int) * (-1) = 1 := by decide

end Yuiv.C04Inv
