import Yuiv.Proofs.C19Hyp
import Yuiv.Props.C19Inv
/-
C19 (extension) — the two per-instance hypotheses of the `InvLink` / involutive-cube theorems, derived.

(G1) `Props/C19Inv.inv_x_involutive_of_checks` needs `sameCardB` (all crossings have equally many distinct labels) and
     `distinctSetsB` (a crossing is determined by its label set), evaluated per instance.  Here, on the same code model
     (`Model/C19Inv.lean` of `yui-link/src/inv_link.rs`):
  * `match_symm_of_valid`: for a VALID planar-diagram code (`C19Cone.validKB`: four slots per crossing, every label in exactly
    two slots), an edge map that is an involution of the labels, and the acceptance condition of `InvLink::new` (every
    crossing has a crossing containing the images of its labels), the matching relation is symmetric — `sameCardB` is not
    needed (it is FALSE for accepted diagrams with a kink, see `same_card_not_needed`);
  * `distinct_label_sets_of_connected`: valid + connected + at least three (pairwise different) crossings ⇒ a crossing is
    determined by its label set.  For TWO crossings it is false for every kink-free connected code
    (`two_crossing_counterexample`: both crossings carry all four labels; the real loop of `InvLink::new`,
    inv_link.rs:23-39, then finds `data[0]` for both (`find_position`, lines 25-27), stores `data[0] ↦ data[0]` (line 34),
    and the second iteration overwrites it by `data[0] ↦ data[1]` (lines 36-38, `x_map.insert(y, x)`): `inv_x` is the swap — an involution, but NOT the loop's first
    match, so the conclusion `firstMatch` of `inv_x_involutive_of_checks` fails there);
  * `inv_x_exact_of_valid`, `inv_x_involutive_of_valid`, `sinv_inv_x_involutive_of_valid`: the conclusions of
    `inv_x_spec` / `inv_x_involutive_of_checks` / `sinv_inv_x_involutive` from validity (+ connectedness, ≥ 3 crossings).
(G2) `icubeWf` asks, for all `2^n` states, that the circles of `s` correspond bijectively to the circles of `τ s`.  Here:
  * `ArcCompat l f π` — ONE local condition per crossing: the two arcs of the `b`-smoothing of crossing `i` are carried by the
    label map `f` to the arcs of the SAME smoothing `b` of crossing `π i` (this is where "the involution is a symmetry of the
    diagram preserving the crossing type" enters; `InvLink::new` does not check it: `// TODO? check resolution`, inv_link.rs:22);
  * `circles_tau_bijection`, `icube_circles_tau_bijection`: under `ArcCompat`, with `f` an involution of the labels and `π`
    an involution of the crossing positions, for EVERY pair of states `s, t` with `t_{π i} = s_i` the circles of `s` (as
    computed by `KhRef.circles`, stored in `mkCube`) are carried by `f` bijectively onto the circles of `t`: an index
    bijection `σ` with `members(circle_t (σ i)) = f(members(circle_s i))`, in particular equally many circles.
  Still per instance: `ArcCompat` itself (`arcCompatB`, `3·…` list look-ups per crossing instead of `2^n` states), and that
  the arrays `tst`/`tlab` built by `mkICube` are this `t` and this `σ`.
-/
namespace Yuiv.C19Hyp
open Yuiv Yuiv.KhRef Yuiv.C19 Yuiv.C19Inv Yuiv.C04Inv

/-! ### (G1) -/

/-- valid code + involutive edge map + every crossing has a match ⇒ the matching relation is symmetric -/
theorem match_symm_of_valid (link : Link) (f : Nat → Nat) (hv : C19Cone.validKB link = true)
    (hinv : ∀ e ∈ edgesOf link.toList, f (f e) = e)
    (hm : ∀ x ∈ link.toList, ∃ y ∈ link.toList, Mt f x y) :
    ∀ x ∈ link.toList, ∀ y ∈ link.toList, Mt f x y → Mt f y x :=
  mt_symm_of_valid link.toList f (validPD_of_validKB link hv) hinv hm

/-- valid + connected + at least three pairwise different crossings ⇒ crossings with the same label set are equal -/
theorem distinct_label_sets_of_connected (link : Link) (hv : C19Cone.validKB link = true)
    (hc : ConnectedPD link.toList) (hnd : link.toList.Nodup) (h3 : 3 ≤ link.size) :
    ∀ x ∈ link.toList, ∀ y ∈ link.toList, (∀ e, e ∈ x.e.toList ↔ e ∈ y.e.toList) → x = y :=
  distinct_of_connected link.toList (validPD_of_validKB link hv) hc hnd (by simpa using h3)

/-- accepted valid code, involutive edge map (no further hypothesis): `inv_x(x)` is a crossing of the link whose labels are
EXACTLY the images of the labels of `x` -/
theorem inv_x_exact_of_valid (link : Link) (f : Nat → Nat) (base : Option Nat) (d : InvData)
    (h : new link f base = .ok d) (hv : C19Cone.validKB link = true) (h1 : involB f (edgesOf link.toList) = true) :
    ∀ x ∈ link.toList, ∃ y ∈ link.toList, d.invX x = .ok y ∧
      ∀ e, e ∈ y.e.toList ↔ ∃ e' ∈ x.e.toList, f e' = e := by
  have hinv := involB_spec f _ h1
  obtain ⟨hm, _, _⟩ := (invlink_new_ok_iff link f base).1 ⟨d, h⟩
  have hsym := match_symm_of_valid link f hv hinv hm
  intro x hx
  obtain ⟨y, hy, b1, b2, b3⟩ := inv_x_spec link f base d h hsym x hx
  exact ⟨y, hy, b1, match_exact f x y (fun e he => hinv e ((mem_edgesOf _ e).2 ⟨y, hy, he⟩)) b2 b3⟩

/-- the conclusion of `inv_x_involutive_of_checks` with `sameCardB`, `distinctSetsB` replaced by: valid code, connected,
at least three crossings -/
theorem inv_x_involutive_of_valid (link : Link) (f : Nat → Nat) (base : Option Nat) (d : InvData)
    (h : new link f base = .ok d) (hv : C19Cone.validKB link = true) (h1 : involB f (edgesOf link.toList) = true)
    (hc : ConnectedPD link.toList) (h3 : 3 ≤ link.size) :
    ∀ x ∈ link.toList, ∃ y ∈ link.toList, d.invX x = .ok y ∧ d.invX y = .ok x ∧ firstMatch f link.toList x = some y ∧
      ∀ e, e ∈ y.e.toList ↔ ∃ e' ∈ x.e.toList, f e' = e := by
  have hinv := involB_spec f _ h1
  obtain ⟨hm, hnd, _⟩ := (invlink_new_ok_iff link f base).1 ⟨d, h⟩
  have hsym := match_symm_of_valid link f hv hinv hm
  have hfun := match_unique_of_distinct_label_sets link f hinv hsym
    (distinct_label_sets_of_connected link hv hc hnd h3)
  intro x hx
  obtain ⟨y, hy, a1, a2, a3⟩ := inv_x_involutive link f base d h hsym hfun x hx
  obtain ⟨y', _, b1, b2, b3⟩ := inv_x_spec link f base d h hsym x hx
  have : y' = y := by rw [a1] at b1; exact (Res.ok.inj b1).symm
  subst this
  exact ⟨y', hy, a1, a2, a3, match_exact f x y' (fun e he => hinv e ((mem_edgesOf _ e).2 ⟨y', hy, he⟩)) b2 b3⟩

/-- `sinv_knot_from_code`: for an accepted valid connected code with at least three crossings `inv_x` is an involution on
crossings, carries exactly the image labels and is the first match of the reference model (the edge map is an involution
by `sinv_emap_involutive`, so nothing about it is assumed) -/
theorem sinv_inv_x_involutive_of_valid (code : List (Array Nat)) (d : InvData) (h : sinvFromCode code = .ok d)
    (hv : C19Cone.validKB (linkOfCode code) = true) (hc : ConnectedPD (linkOfCode code).toList) (h3 : 3 ≤ code.length) :
    let l := linkOfCode code
    let n := (labelsOf l).length
    ∀ x ∈ l.toList, ∃ y ∈ l.toList, d.invX x = .ok y ∧ d.invX y = .ok x ∧ firstMatch (sinvEMap n) l.toList x = some y ∧
      ∀ e, e ∈ y.e.toList ↔ ∃ e' ∈ x.e.toList, sinvEMap n e' = e := by
  intro l n
  have hinv : ∀ e ∈ edgesOf l.toList, sinvEMap n (sinvEMap n e) = e :=
    fun e he => (sinv_emap_involutive code d h e he).2.1
  obtain ⟨_, _, _, hm, hnd⟩ := (sinv_ok_iff code).1 ⟨d, h⟩
  have hsym := match_symm_of_valid l (sinvEMap n) hv hinv hm
  have hsize : 3 ≤ l.size := by simpa [l, linkOfCode] using h3
  have hdist := distinct_label_sets_of_connected l hv hc hnd hsize
  have hcard : ∀ x ∈ l.toList, ∀ y ∈ l.toList, (∀ e, e ∈ x.e.toList ↔ e ∈ y.e.toList) → x = y := hdist
  -- reuse the headline of `Props/C19Inv` through its symmetric/unique-matching core
  have hfun := match_unique_of_distinct_label_sets l (sinvEMap n) hinv hsym hcard
  obtain ⟨h1, h2, h3', _, _⟩ := (sinv_ok_iff code).1 ⟨d, h⟩
  have hnew : new l (sinvEMap n) (some 1) = .ok d := by
    have hdef : sinvFromCode code =
      if n % 2 ≠ 0 then .panic else if listMin (labelsOf l) ≠ some 1 then .panic
      else if listMax (labelsOf l) ≠ some n then .panic else new l (sinvEMap n) (some 1) := rfl
    rw [hdef, if_neg (by simpa using h1), if_neg (by simpa using h2), if_neg (by simpa using h3')] at h
    exact h
  intro x hx
  obtain ⟨y, hy, a1, a2, a3⟩ := inv_x_involutive l (sinvEMap n) (some 1) d hnew hsym hfun x hx
  obtain ⟨y', _, b1, b2, b3⟩ := inv_x_spec l (sinvEMap n) (some 1) d hnew hsym x hx
  have : y' = y := by rw [a1] at b1; exact (Res.ok.inj b1).symm
  subst this
  exact ⟨y', hy, a1, a2, a3,
    match_exact (sinvEMap n) x y' (fun e he => hinv e ((mem_edgesOf _ e).2 ⟨y', hy, he⟩)) b2 b3⟩

/-- COUNTEREXAMPLE to "valid ⇒ distinct label sets": a valid two-crossing code of a one-component diagram
(`1→2→3→4→1`), accepted by `sinv_knot_from_code`; both crossings carry all four labels (`distinctSetsB = false`); the
`HashMap` loop ends with `inv_x` = the swap (an involution) although the first match of BOTH crossings is `data[0]` -/
theorem two_crossing_counterexample :
    let code : List (Array Nat) := [#[1,3,2,4], #[2,4,3,1]]
    let l := linkOfCode code
    C19Cone.validKB l = true ∧ distinctSetsB l.toList = false ∧ sameCardB l.toList = true ∧
    firstMatch (sinvEMap 4) l.toList l[0]! = some l[0]! ∧ firstMatch (sinvEMap 4) l.toList l[1]! = some l[0]! ∧
    ∃ d, sinvFromCode code = .ok d ∧ d.invX l[0]! = .ok l[1]! ∧ d.invX l[1]! = .ok l[0]! := by
  intro code l
  refine ⟨by decide +kernel, by decide +kernel, by decide +kernel, by decide +kernel, by decide +kernel, ?_⟩
  have h : okAnd (sinvFromCode code) (fun d => decide (d.invX l[0]! = .ok l[1]!) && decide (d.invX l[1]! = .ok l[0]!)) = true := by
    decide +kernel
  obtain ⟨d, hd, hp⟩ := okAnd_elim _ _ h
  simp only [Bool.and_eq_true, decide_eq_true_eq] at hp
  exact ⟨d, hd, hp.1, hp.2⟩

/-- `sameCardB` is not needed and can fail on accepted valid codes: a three-crossing diagram with a kink on the axis
(crossing `[3,4,4,5]` has three distinct labels, the other two have four); `inv_x` exchanges the first two crossings and
fixes the kink, as `inv_x_exact_of_valid` predicts -/
theorem same_card_not_needed :
    let code : List (Array Nat) := [#[1,5,2,6], #[2,6,3,1], #[3,4,4,5]]
    let l := linkOfCode code
    C19Cone.validKB l = true ∧ sameCardB l.toList = false ∧
    ∃ d, sinvFromCode code = .ok d ∧ d.invX l[0]! = .ok l[1]! ∧ d.invX l[1]! = .ok l[0]! ∧ d.invX l[2]! = .ok l[2]! := by
  intro code l
  refine ⟨by decide +kernel, by decide +kernel, ?_⟩
  have h : okAnd (sinvFromCode code) (fun d => decide (d.invX l[0]! = .ok l[1]!) && decide (d.invX l[1]! = .ok l[0]!) &&
      decide (d.invX l[2]! = .ok l[2]!)) = true := by
    decide +kernel
  obtain ⟨d, hd, hp⟩ := okAnd_elim _ _ h
  simp only [Bool.and_eq_true, decide_eq_true_eq] at hp
  exact ⟨d, hd, hp.1.1, hp.1.2, hp.2⟩

/-- the trefoil of the table is connected (any crossing shares a label with any other) -/
theorem trefoil_connected : ConnectedPD (linkOfCode [#[1,5,2,4], #[3,1,4,6], #[5,3,6,2]]).toList := by
  intro S ⟨x, hx, hS⟩ hcl y hy
  refine hcl x hx y hy hS ?_
  simp only [linkOfCode, List.map_cons, List.map_nil, List.mem_cons, List.not_mem_nil, or_false] at hx hy
  rcases hx with rfl | rfl | rfl <;> rcases hy with rfl | rfl | rfl <;> decide

/-- the hypotheses of `sinv_inv_x_involutive_of_valid` hold for the table's trefoil -/
example :
    let code : List (Array Nat) := [#[1,5,2,4], #[3,1,4,6], #[5,3,6,2]]
    (∃ d, sinvFromCode code = .ok d) ∧ C19Cone.validKB (linkOfCode code) = true ∧
      ConnectedPD (linkOfCode code).toList ∧ 3 ≤ code.length := by
  intro code
  refine ⟨?_, by decide +kernel, trefoil_connected, by decide⟩
  have h : okAnd (sinvFromCode code) (fun _ => true) = true := by decide +kernel
  obtain ⟨d, hd, _⟩ := okAnd_elim _ _ h
  exact ⟨d, hd⟩

/-! ### (G2) -/

/-- under the LOCAL condition `ArcCompat` (arcs of the `b`-smoothing of crossing `i` ↦ arcs of the `b`-smoothing of crossing
`π i`), for every pair of states with `t_{π i} = s_i`: the circles of `s` are carried by the label involution `f`
bijectively onto the circles of `t` (index bijection `σ`, contents `circle_t(σ i) = f(circle_s i)`, equally many) -/
theorem circles_tau_bijection (l : Link) (hwf : C04Inv.WF l) (hun : ∀ c ∈ l.toList, c.ct.isResolved = false)
    (f π : Nat → Nat)
    (hlab : ∀ x, x ∈ edgeLabels l → f x ∈ edgeLabels l) (hinv : ∀ x, x ∈ edgeLabels l → f (f x) = x)
    (hπ : ∀ i, i < l.size → π i < l.size) (hππ : ∀ i, i < l.size → π (π i) = i)
    (hc : ArcCompat l f π) (s t : Nat) (hbits : ∀ i, i < l.size → t.testBit (π i) = s.testBit i) :
    let cs := circles l (edgeLabels l) s
    let ct := circles l (edgeLabels l) t
    cs.size = ct.size ∧
    ∃ σ : Nat → Nat,
      (∀ i, i < cs.size → σ i < ct.size ∧ ∀ y, y ∈ ct[σ i]! ↔ ∃ x, x ∈ cs[i]! ∧ f x = y) ∧
      (∀ i j, i < cs.size → j < cs.size → σ i = σ j → i = j) ∧
      (∀ j, j < ct.size → ∃ i, i < cs.size ∧ σ i = j) := by
  intro cs ct
  have hbits' : ∀ i, i < l.size → s.testBit (π i) = t.testBit i := by
    intro i hi
    have := hbits (π i) (hπ i hi)
    rw [hππ i hi] at this
    exact this.symm
  have hPQ := arcs_into l hun f π hπ hc s t hbits
  have hQP := arcs_into l hun f π hπ hc t s hbits'
  obtain ⟨σ, h1, h2, h3⟩ := circle_bij (C06Cycle.circles_spec l hwf s) (C06Cycle.circles_spec l hwf t) f hlab hinv hPQ hQP
  exact ⟨size_eq_of_bij _ _ σ (fun i hi => (h1 i hi).1) h2 h3, σ, h1, h2, h3⟩

/-- the same for the circle lists stored in the reference cube `mkCube` (the `cube` of `mkICube`), all `2^n` vertices at once -/
theorem icube_circles_tau_bijection (l : Link) (p : Params) (hwf : C04Inv.WF l)
    (hun : ∀ c ∈ l.toList, c.ct.isResolved = false) (f π : Nat → Nat)
    (hlab : ∀ x, x ∈ edgeLabels l → f x ∈ edgeLabels l) (hinv : ∀ x, x ∈ edgeLabels l → f (f x) = x)
    (hπ : ∀ i, i < l.size → π i < l.size) (hππ : ∀ i, i < l.size → π (π i) = i)
    (hc : ArcCompat l f π) (s t : Nat) (hs : s < 2 ^ crossingNum l) (ht : t < 2 ^ crossingNum l)
    (hbits : ∀ i, i < l.size → t.testBit (π i) = s.testBit i) :
    let cs := (mkCube l p).circ[s]!
    let ct := (mkCube l p).circ[t]!
    cs.size = ct.size ∧
    ∃ σ : Nat → Nat,
      (∀ i, i < cs.size → σ i < ct.size ∧ ∀ y, y ∈ ct[σ i]! ↔ ∃ x, x ∈ cs[i]! ∧ f x = y) ∧
      (∀ i j, i < cs.size → j < cs.size → σ i = σ j → i = j) ∧
      (∀ j, j < ct.size → ∃ i, i < cs.size ∧ σ i = j) := by
  intro cs ct
  have e1 : cs = circles l (edgeLabels l) s := mkCube_circ_eq l p s hs
  have e2 : ct = circles l (edgeLabels l) t := mkCube_circ_eq l p t ht
  rw [e1, e2]
  exact circles_tau_bijection l hwf hun f π hlab hinv hπ hππ hc s t hbits

/-- ALL `2^n` vertices at once, with `τ s` given explicitly: `permState n π s` (bit `π i` of it is bit `i` of `s`) is again a
vertex of the cube, and the circles stored at `s` go bijectively (via `f`) to the circles stored at `τ s` — the circle-level
clauses of `icubeWf` for the pair `(s, τ s)` from one local condition per crossing -/
theorem icube_circles_tau_all_states (l : Link) (p : Params) (hwf : C04Inv.WF l)
    (hun : ∀ c ∈ l.toList, c.ct.isResolved = false) (f π : Nat → Nat)
    (hlab : ∀ x, x ∈ edgeLabels l → f x ∈ edgeLabels l) (hinv : ∀ x, x ∈ edgeLabels l → f (f x) = x)
    (hπ : ∀ i, i < l.size → π i < l.size) (hππ : ∀ i, i < l.size → π (π i) = i)
    (hc : ArcCompat l f π) :
    ∀ s, s < 2 ^ (mkCube l p).n →
      let t := permState l.size π s
      let cs := (mkCube l p).circ[s]!
      let ct := (mkCube l p).circ[t]!
      t < 2 ^ (mkCube l p).n ∧ permState l.size π t % 2 ^ l.size = s ∧ cs.size = ct.size ∧
      ∃ σ : Nat → Nat,
        (∀ i, i < cs.size → σ i < ct.size ∧ ∀ y, y ∈ ct[σ i]! ↔ ∃ x, x ∈ cs[i]! ∧ f x = y) ∧
        (∀ i j, i < cs.size → j < cs.size → σ i = σ j → i = j) ∧
        (∀ j, j < ct.size → ∃ i, i < cs.size ∧ σ i = j) := by
  intro s hs t cs ct
  have hn : (mkCube l p).n = l.size := crossingNum_eq_size l hun
  have hn' : crossingNum l = l.size := crossingNum_eq_size l hun
  obtain ⟨ht, hbits⟩ := permState_spec l.size π s hπ hππ
  obtain ⟨ht2, hbits2⟩ := permState_spec l.size π t hπ hππ
  rw [hn] at hs ⊢
  have hback : permState l.size π t % 2 ^ l.size = s := by
    rw [Nat.mod_eq_of_lt ht2]
    apply Nat.eq_of_testBit_eq
    intro j
    by_cases hj : j < l.size
    · have h1 := hbits2 (π j) (hπ j hj)
      rw [hππ j hj] at h1
      rw [h1]; exact hbits j hj
    · rw [Nat.testBit_lt_two_pow (Nat.lt_of_lt_of_le ht2 (Nat.pow_le_pow_right (by omega) (by omega))),
        Nat.testBit_lt_two_pow (Nat.lt_of_lt_of_le hs (Nat.pow_le_pow_right (by omega) (by omega)))]
  refine ⟨ht, hback, ?_⟩
  exact icube_circles_tau_bijection l p hwf hun f π hlab hinv hπ hππ hc s t (by rw [hn']; exact hs) (by rw [hn']; exact ht) hbits

/-- the executable form `arcCompatB` implies `ArcCompat` -/
theorem arcCompat_of_check (l : Link) (f π : Nat → Nat) (h : arcCompatB l f π = true) : ArcCompat l f π :=
  arcCompatB_spec l f π h

/-- non-vacuity: the table's trefoil with its involution `e ↦ (7 − e) % 6 + 1` and the crossing permutation `(0 1)(2)`
satisfies `ArcCompat` and the other hypotheses; e.g. the states `s = 0b001`, `t = 0b010` are related -/
example :
    let l := linkOfCode [#[1,5,2,4], #[3,1,4,6], #[5,3,6,2]]
    let π : Nat → Nat := fun i => if i = 0 then 1 else if i = 1 then 0 else i
    arcCompatB l (sinvEMap 6) π = true ∧ (∀ i, i < l.size → π i < l.size ∧ π (π i) = i) ∧
    (∀ i, i < l.size → (2 : Nat).testBit (π i) = (1 : Nat).testBit i) ∧
    (∀ c ∈ l.toList, c.ct.isResolved = false) ∧ (∀ c ∈ l.toList, c.e.size = 4) := by
  intro l π
  refine ⟨by decide +kernel, ?_, ?_, by decide, by decide⟩
  · intro i hi
    have : i < 3 := hi
    obtain rfl | rfl | rfl : i = 0 ∨ i = 1 ∨ i = 2 := by omega
    all_goals decide
  · intro i hi
    have : i < 3 := hi
    obtain rfl | rfl | rfl : i = 0 ∨ i = 1 ∨ i = 2 := by omega
    all_goals decide

/-- `ArcCompat` is a real restriction: with the trefoil's crossing permutation but the IDENTITY on labels it fails -/
example :
    let l := linkOfCode [#[1,5,2,4], #[3,1,4,6], #[5,3,6,2]]
    arcCompatB l id (fun i => if i = 0 then 1 else if i = 1 then 0 else i) = false := by
  decide +kernel

end Yuiv.C19Hyp
