import Yuiv.Proofs.C07Gen
/-
C07 — the hand-written code model of `HomologyCalc::{calculate, trivial_result, process_snf, result, trans}`
(`Yuiv/Model/C07Calc.lean`, which the C07 driver runs against the real code and whose outputs `Props/C07*.lean` speak
about) IS the source text of `/repo/yui-homology/src/utils/homology_calc.rs`.

`Yuiv.GenHomCalc.*` (file `Yuiv/Gen/HomCalcFn.lean`) is regenerated from the Rust source by
`tools/rs2lean_fn.py fn:homcalc` on every `./check` run (`R := Int`, the SNF routine an argument `snf : SnfFn`, exactly
as in the model).  Each theorem states, for EVERY `snf` and all inputs, that a generated definition equals the model's
function — including every panic (`assert!`, `assert_eq!`, `unwrap()`, the range checks of `submat_*`, the shape checks
of `*`, `stack`, `concat`, `Trans::new`, and `usize` underflow) and an `err` of the SNF routine.

Property theorems only; helpers are in `Yuiv/Proofs/C07Gen.lean`.
-/
set_option linter.unusedSimpArgs false
namespace Yuiv.C07Gen
open Yuiv Res Yuiv.Rust Yuiv.GenHomCalc Yuiv.C07

/-- `trivial_result(rank, with_trans)` is the first branch of the model's `calculate` -/
theorem gen_trivial_result_eq (rank : Nat) (withTrans : Bool) :
    HomologyCalc.trivial_result rank withTrans = (rank, [], if withTrans then some (Trans.id rank) else none) := rfl

theorem gen_process_snf_eq (snf : SnfFn) (d1 d2 : Mat) (withTrans : Bool) :
    HomologyCalc.process_snf snf d1 d2 withTrans = processSnf snf d1 d2 withTrans := by
  unfold HomologyCalc.process_snf processSnf
  simp only [HMat.nrows, HMat.into_dense, HMat.into_sparse, HSnf.rank, HSnf.pinv, HMat.submat_cols, HMat.mul,
    unwrap_eq, pure_eq_ok]
  refine bind_congr' _ (fun s1 => ?_)
  by_cases h : s1.rank > 0
  · simp only [h, decide_true, if_true, bind_assoc', bind_ok]
  · simp only [h, decide_false, if_false, Bool.false_eq_true, bind_ok]

theorem gen_result_eq (s1 s2 : Snf) : HomologyCalc.result s1 s2 = calcResult s1 s2 := by
  unfold HomologyCalc.result calcResult
  simp only [HMat.nrows, HSnf.result, HSnf.rank, HSnf.factors, tors_eq, pure_eq_ok]
  by_cases h : s1.result.r ≥ s1.rank + s2.rank
  · have h1 : s1.rank ≤ s1.result.r := by omega
    have h2 : s2.rank ≤ s1.result.r - s1.rank := by omega
    simp [h, assert_true, U64.sub, h1, h2]
  · simp [h, assert_false]

theorem gen_trans_eq (s1 s2 : Snf) : HomologyCalc.trans s1 s2 = calcTrans s1 s2 := by
  unfold HomologyCalc.trans calcTrans
  simp only [HMat.nrows, HMat.into_sparse, HMat.shape, HSnf.result, HSnf.rank, HSnf.factors, HSnf.p, HSnf.pinv, HSnf.q,
    HSnf.qinv, HMat.submat_rows, HMat.submat_cols, HMat.mul, HMat.stack, HMat.concat, HTrans.new, unwrap_eq, sub_eq,
    tcount_eq, bind_assoc']
  refine bind_congr' _ (fun a => ?_)
  refine bind_congr' _ (fun r => ?_)
  refine bind_congr' _ (fun p1 => ?_)
  refine bind_congr' _ (fun p11 => ?_)
  refine bind_congr' _ (fun p2 => ?_)
  refine bind_congr_eq _ (fun nr1 hnr1 => ?_)
  refine bind_congr' _ (fun p22 => ?_)
  refine bind_congr' _ (fun pFree => ?_)
  refine bind_congr_eq _ (fun lo hlo => ?_)
  refine bind_congr' _ (fun pTor => ?_)
  refine bind_congr' _ (fun p => ?_)
  rw [pair_beq]
  refine bind_congr' _ (fun _ => ?_)
  refine bind_congr' _ (fun q1 => ?_)
  refine bind_congr' _ (fun q12 => ?_)
  refine bind_congr' _ (fun q2 => ?_)
  rw [hnr1, hlo]
  simp only [bind_ok, pair_beq]

theorem gen_calculate_eq (snf : SnfFn) (d1 d2 : Mat) (withTrans : Bool) :
    HomologyCalc.calculate snf d1 d2 withTrans = calculate snf d1 d2 withTrans := by
  unfold HomologyCalc.calculate calculate
  simp only [HMat.nrows, HMat.ncols, HMat.is_zero, gen_process_snf_eq, gen_result_eq, gen_trans_eq,
    gen_trivial_result_eq, pure_eq_ok, nat_beq]
  refine bind_congr' _ (fun _ => ?_)
  by_cases hz : (d1.isZero && d2.isZero) = true
  · simp only [hz, if_true]
  · simp only [hz, if_false]
    refine bind_congr' _ (fun s => ?_)
    refine bind_congr' _ (fun rt => ?_)
    cases withTrans
    · rfl
    · simp only [if_true, bind_assoc', bind_ok]

end Yuiv.C07Gen
