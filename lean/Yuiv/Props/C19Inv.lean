import Yuiv.Proofs.C19Inv
import Yuiv.Props.C19
/-
C19 (extension) — the involution data of `InvLink` (`yui-link/src/inv_link.rs`), on the code model `Model/C19Inv.lean`.

(a) `InvLink::new` succeeds EXACTLY when every crossing has a crossing containing the images of its labels, the crossings
    are pairwise distinct as values (this is all the assertion `x_map.len() == n` can see: every crossing is inserted as
    a key, so the length is the number of distinct crossing values), and the base point is a label fixed by the map.
    It never checks that the map is an involution, nor crossing types / the cyclic order (`// TODO? check resolution`).
(b) if the matching relation is symmetric (e.g. the edge map is an involution of the labels and all crossings have the same
    number of distinct labels), `inv_x(x)` carries exactly the images of the labels of `x`; if moreover a crossing is
    determined by its label set, `inv_x` is the first match of the loop and is an involution on crossings (as values).
    Without the last hypothesis it is NOT one in general (overwriting of the `HashMap`): see `inv_x_not_involutive_example`.
(c) `sinv_knot_from_code`: after its three asserts the labels are exactly `1..n`, the map `e ↦ (n+1−e) % n + 1` is an
    involution of them (cited from `Props/C19.lean`), and the base point `1` is always accepted.
(d) the reference involutive cube (`Model/C19.lean`): if the per-instance check `icubeWf` holds (the driver evaluates it
    for every instance), `ICube.tau` is an involution on generators, preserves the homological and the quantum degree and
    the reduced sub-complex.
Not proved: that `wf` holds for every accepted diagram (circles of `s` ↦ circles of `τ s`), and that τ commutes with `Cube.d`
(the driver keeps re-checking `D∘D = 0` of the cone on every instance, which by `cone_d_sq` is equivalent).
-/
namespace Yuiv.C19Inv
open Yuiv Yuiv.KhRef Yuiv.C19

/-! ### (a) `InvLink::new` -/

/-- `new` succeeds iff every crossing has a match, the crossings are pairwise distinct values, the base point is a fixed label -/
theorem invlink_new_ok_iff (link : Link) (f : Nat → Nat) (base : Option Nat) :
    (∃ d, new link f base = .ok d) ↔
      (∀ x ∈ link.toList, ∃ y ∈ link.toList, Mt f x y) ∧ link.toList.Nodup ∧
      (∀ p, base = some p → p ∈ edgesOf link.toList ∧ f p = p) := by
  have hiff := (newLoop_ok_iff f (labelsOf link) link.toList (labelsOf_cover link) link.toList (fun _ h => h) []).1
  have hlab : ∀ p, p ∈ labelsOf link ↔ p ∈ edgesOf link.toList := fun p => mem_dedup p _
  constructor
  · rintro ⟨d, hd⟩
    obtain ⟨xmap, hl, hlen, _, hb⟩ := new_ok_elim link f base d hd
    obtain ⟨hk1, hk2, hk3⟩ := loop_keys link f xmap hl
    refine ⟨hiff.1 ⟨xmap, hl⟩, ?_, ?_⟩
    · apply (length_eq_iff_nodup (keys xmap) link.toList hk1 hk2 hk3).1
      rw [← hlen]; simp [keys]
    · intro p hp
      exact ⟨(hlab p).1 (hb p hp).1, (hb p hp).2⟩
  · rintro ⟨hm, hnd, hb⟩
    obtain ⟨xmap, hl⟩ := hiff.2 hm
    obtain ⟨hk1, hk2, hk3⟩ := loop_keys link f xmap hl
    have hlen : xmap.length = link.toList.length := by
      have := (length_eq_iff_nodup (keys xmap) link.toList hk1 hk2 hk3).2 hnd
      rw [← this]; simp [keys]
    exact ⟨_, new_ok_intro link f base xmap hl hlen (fun p hp => ⟨(hlab p).2 (hb p hp).1, (hb p hp).2⟩)⟩

/-- `new` either returns or panics -/
theorem invlink_new_ok_or_panic (link : Link) (f : Nat → Nat) (base : Option Nat) :
    (∃ d, new link f base = .ok d) ∨ new link f base = .panic := by
  have := new_ne_err link f base
  cases h : new link f base with
  | ok d => exact Or.inl ⟨d, rfl⟩
  | panic => exact Or.inr rfl
  | err => exact absurd h this

/-- the stored data: link and base point unchanged, `inv_e` is the given map on the labels and panics elsewhere -/
theorem invlink_new_data (link : Link) (f : Nat → Nat) (base : Option Nat) (d : InvData) (h : new link f base = .ok d) :
    d.link = link ∧ d.base = base ∧
    ∀ e, d.invE e = if e ∈ edgesOf link.toList then .ok (f e) else .panic := by
  obtain ⟨xmap, _, _, hd, _⟩ := new_ok_elim link f base d h
  subst hd
  refine ⟨rfl, rfl, ?_⟩
  intro e
  simp only [InvData.invE, emGet_build, labelsOf, mem_dedup]
  by_cases he : e ∈ edgesOf link.toList <;> simp [he]

/-! ### (b) `inv_x` -/

/-- with a symmetric matching relation: `inv_x(x)` is a crossing of the link matching `x` in both directions -/
theorem inv_x_spec (link : Link) (f : Nat → Nat) (base : Option Nat) (d : InvData) (h : new link f base = .ok d)
    (hsym : ∀ x ∈ link.toList, ∀ y ∈ link.toList, Mt f x y → Mt f y x) :
    ∀ x ∈ link.toList, ∃ y ∈ link.toList, d.invX x = .ok y ∧ Mt f x y ∧ Mt f y x := by
  obtain ⟨xmap, hl, _, hd, _⟩ := new_ok_elim link f base d h
  subst hd
  obtain ⟨_, _, hk3⟩ := loop_keys link f xmap hl
  have hent := loop_entries link f xmap hsym hl
  intro x hx
  obtain ⟨y, hy⟩ := amGet_of_key xmap x (hk3 x hx)
  obtain ⟨_, h2, h3⟩ := hent (x, y) (amGet_mem xmap x y hy)
  exact ⟨y, h2, by simp [InvData.invX, hy], h3, hsym x hx y h2 h3⟩

/-- two-sided matching under an involutive edge map means: the labels of `y` are EXACTLY the images of the labels of `x` -/
theorem match_exact (f : Nat → Nat) (x y : Crossing) (hinv : ∀ e ∈ y.e.toList, f (f e) = e)
    (h1 : Mt f x y) (h2 : Mt f y x) : ∀ e, e ∈ y.e.toList ↔ ∃ e' ∈ x.e.toList, f e' = e := by
  intro e
  constructor
  · intro he; exact ⟨f e, h2 e he, hinv e he⟩
  · rintro ⟨e', he', rfl⟩; exact h1 e' he'

/-- sufficient for symmetry: the edge map is an involution on the labels and all crossings have equally many distinct labels
(in particular: four distinct labels each — a diagram without kinks) -/
theorem match_symm_of_involutive (link : Link) (f : Nat → Nat)
    (hinv : ∀ e ∈ edgesOf link.toList, f (f e) = e)
    (hcard : ∀ x ∈ link.toList, ∀ y ∈ link.toList, x.e.toList.toFinset.card = y.e.toList.toFinset.card) :
    ∀ x ∈ link.toList, ∀ y ∈ link.toList, Mt f x y → Mt f y x := by
  intro x hx y hy hxy
  have hE : ∀ a ∈ x.e.toList, a ∈ edgesOf link.toList := fun a ha => (mem_edgesOf _ a).2 ⟨x, hx, ha⟩
  apply Mt_symm_of_card f x y _ (fun a ha => hinv a (hE a ha)) (hcard x hx y hy).symm.le hxy
  intro a ha b hb hab
  rw [← hinv a (hE a ha), ← hinv b (hE b hb), hab]

/-- sufficient for uniqueness of the match: a crossing is determined by its set of labels -/
theorem match_unique_of_distinct_label_sets (link : Link) (f : Nat → Nat)
    (hinv : ∀ e ∈ edgesOf link.toList, f (f e) = e)
    (hsym : ∀ x ∈ link.toList, ∀ y ∈ link.toList, Mt f x y → Mt f y x)
    (hdist : ∀ x ∈ link.toList, ∀ y ∈ link.toList, (∀ e, e ∈ x.e.toList ↔ e ∈ y.e.toList) → x = y) :
    ∀ x ∈ link.toList, ∀ y ∈ link.toList, ∀ y' ∈ link.toList, Mt f x y → Mt f x y' → y = y' := by
  intro x hx y hy y' hy' h1 h2
  have key : ∀ a ∈ link.toList, ∀ b ∈ link.toList, Mt f x a → Mt f x b → ∀ e, e ∈ a.e.toList → e ∈ b.e.toList := by
    intro a ha b hb ma mb e he
    have h3 := hsym x hx a ha ma e he
    have := mb (f e) h3
    rwa [hinv e ((mem_edgesOf _ e).2 ⟨a, ha, he⟩)] at this
  exact hdist y hy y' hy' (fun e => ⟨key y hy y' hy' h1 h2 e, key y' hy' y hy h2 h1 e⟩)

/-- symmetric + unique matching: `inv_x` is the loop's first match (the reference model's `invX`) and an involution -/
theorem inv_x_involutive (link : Link) (f : Nat → Nat) (base : Option Nat) (d : InvData) (h : new link f base = .ok d)
    (hsym : ∀ x ∈ link.toList, ∀ y ∈ link.toList, Mt f x y → Mt f y x)
    (hfun : ∀ x ∈ link.toList, ∀ y ∈ link.toList, ∀ y' ∈ link.toList, Mt f x y → Mt f x y' → y = y') :
    ∀ x ∈ link.toList, ∃ y ∈ link.toList, d.invX x = .ok y ∧ d.invX y = .ok x ∧ firstMatch f link.toList x = some y := by
  intro x hx
  obtain ⟨y, hy, hxy, m1, m2⟩ := inv_x_spec link f base d h hsym x hx
  obtain ⟨z, hz, hyz, m3, _⟩ := inv_x_spec link f base d h hsym y hy
  have hzx : z = x := hfun y hy z hz x hx m3 m2
  subst hzx
  refine ⟨y, hy, hxy, hyz, ?_⟩
  cases hm : firstMatch f link.toList z with
  | none => exact absurd m1 ((firstMatch_none f _ z).1 hm y hy)
  | some w =>
    obtain ⟨hw, m4⟩ := firstMatch_some f _ z w hm
    rw [hfun z hx w hw y hy m4 m1]

/-- two Hopf links exchanged by the edge map: `new` accepts, every crossing has a two-sided match, yet `inv_x` is not an
involution (the second insertion overwrites): `inv_x(x₁) = y₀` but `inv_x(y₀) = x₀`. -/
theorem inv_x_not_involutive_example :
    let l : Link := #[⟨.X, #[1, 3, 2, 4]⟩, ⟨.X, #[3, 1, 4, 2]⟩, ⟨.X, #[5, 7, 6, 8]⟩, ⟨.X, #[7, 5, 8, 6]⟩]
    let f : Nat → Nat := fun e => if e ≤ 4 then e + 4 else e - 4
    (∀ e ∈ edgesOf l.toList, f (f e) = e) ∧
    ∃ d, new l f none = .ok d ∧ d.invX l[1]! = .ok l[2]! ∧ d.invX l[2]! = .ok l[0]! := by
  intro l f
  refine ⟨by decide, ?_⟩
  have h : okAnd (new l f none) (fun d => decide (d.invX l[1]! = .ok l[2]!) && decide (d.invX l[2]! = .ok l[0]!)) = true := by
    decide +kernel
  obtain ⟨d, hd, hp⟩ := okAnd_elim _ _ h
  simp only [Bool.and_eq_true, decide_eq_true_eq] at hp
  exact ⟨d, hd, hp.1, hp.2⟩

/-! ### (c) `sinv_knot_from_code` -/

/-- after the three asserts the labels are exactly `1..n` (`n` = number of distinct labels) -/
theorem sinv_labels (es : List Nat) (hn : es.Nodup) (hmin : listMin es = some 1) (hmax : listMax es = some es.length) :
    ∀ e, e ∈ es ↔ 1 ≤ e ∧ e ≤ es.length :=
  labels_full es hn (listMin_spec es 1 hmin).2 (listMax_spec es _ hmax)

/-- `sinv_knot_from_code` succeeds iff its three asserts hold and `new` finds a match for every crossing among pairwise
distinct crossings; the base point `1` is then always accepted -/
theorem sinv_ok_iff (code : List (Array Nat)) :
    let l := linkOfCode code
    let n := (labelsOf l).length
    (∃ d, sinvFromCode code = .ok d) ↔
      n % 2 = 0 ∧ listMin (labelsOf l) = some 1 ∧ listMax (labelsOf l) = some n ∧
      (∀ x ∈ l.toList, ∃ y ∈ l.toList, Mt (sinvEMap n) x y) ∧ l.toList.Nodup := by
  intro l n
  have hdef : sinvFromCode code =
      if n % 2 ≠ 0 then .panic else if listMin (labelsOf l) ≠ some 1 then .panic
      else if listMax (labelsOf l) ≠ some n then .panic else new l (sinvEMap n) (some 1) := rfl
  rw [hdef]
  by_cases h1 : n % 2 = 0
  · by_cases h2 : listMin (labelsOf l) = some 1
    · by_cases h3 : listMax (labelsOf l) = some n
      · rw [if_neg (by simpa using h1), if_neg (by simpa using h2), if_neg (by simpa using h3), invlink_new_ok_iff]
        have h1mem : 1 ∈ labelsOf l := (listMin_spec _ 1 h2).1
        have hn1 : 1 ≤ n := (listMax_spec _ n h3) 1 h1mem
        constructor
        · rintro ⟨ha, hb, _⟩; exact ⟨h1, h2, h3, ha, hb⟩
        · rintro ⟨_, _, _, ha, hb⟩
          refine ⟨ha, hb, ?_⟩
          intro p hp
          simp only [Option.some.injEq] at hp
          subst hp
          refine ⟨(mem_dedup 1 _).1 h1mem, ?_⟩
          unfold sinvEMap
          simp [Nat.mod_self]
      · rw [if_neg (by simpa using h1), if_neg (by simpa using h2), if_pos h3]
        simp [h3]
    · rw [if_neg (by simpa using h1), if_pos h2]
      simp [h2]
  · rw [if_pos h1]
    simp [h1]

/-- the edge map of an accepted code is an involution of the label set, fixing exactly `1` and `n/2 + 1`
(uses `sinvEMap_involutive`, `sinvEMap_fixed` of `Props/C19.lean`) -/
theorem sinv_emap_involutive (code : List (Array Nat)) (d : InvData) (h : sinvFromCode code = .ok d) :
    let l := linkOfCode code
    let n := (labelsOf l).length
    ∀ e ∈ edgesOf l.toList,
      sinvEMap n e ∈ edgesOf l.toList ∧ sinvEMap n (sinvEMap n e) = e ∧ (sinvEMap n e = e ↔ (e = 1 ∨ e = n / 2 + 1)) := by
  intro l n e he
  obtain ⟨h1, h2, h3, _, _⟩ : n % 2 = 0 ∧ listMin (labelsOf l) = some 1 ∧ listMax (labelsOf l) = some n ∧ _ ∧ _ :=
    (sinv_ok_iff code).1 ⟨d, h⟩
  have hlab := sinv_labels (labelsOf l) (nodup_dedup _) h2 h3
  have hmem : ∀ a, a ∈ edgesOf l.toList ↔ 1 ≤ a ∧ a ≤ n := fun a => by rw [← hlab a]; exact (mem_dedup a _).symm
  obtain ⟨he1, hen⟩ := (hmem e).1 he
  obtain ⟨i1, i2, i3⟩ := sinvEMap_involutive n e he1 hen
  refine ⟨(hmem _).2 ⟨i1, i2⟩, i3, ?_⟩
  have hn2 : n = 2 * (n / 2) := by omega
  have := sinvEMap_fixed (n / 2) e (by omega) he1 (by omega)
  rw [← hn2] at this
  exact this

/-- headline for accepted codes whose crossings have four distinct labels each and pairwise different label sets (all table
codes; checked per instance by the driver): `inv_x` is an involution on crossings, `inv_x(x)` carries exactly the images of
the labels of `x`, and it is the first match used by the reference model -/
theorem sinv_inv_x_involutive (code : List (Array Nat)) (d : InvData) (h : sinvFromCode code = .ok d)
    (h4 : ∀ x ∈ (linkOfCode code).toList, ∀ y ∈ (linkOfCode code).toList, x.e.toList.toFinset.card = y.e.toList.toFinset.card)
    (hdist : ∀ x ∈ (linkOfCode code).toList, ∀ y ∈ (linkOfCode code).toList,
      (∀ e, e ∈ x.e.toList ↔ e ∈ y.e.toList) → x = y) :
    let l := linkOfCode code
    let n := (labelsOf l).length
    ∀ x ∈ l.toList, ∃ y ∈ l.toList, d.invX x = .ok y ∧ d.invX y = .ok x ∧ firstMatch (sinvEMap n) l.toList x = some y ∧
      ∀ e, e ∈ y.e.toList ↔ ∃ e' ∈ x.e.toList, sinvEMap n e' = e := by
  intro l n x hx
  have hinv : ∀ e ∈ edgesOf l.toList, sinvEMap n (sinvEMap n e) = e :=
    fun e he => (sinv_emap_involutive code d h e he).2.1
  have hsym := match_symm_of_involutive l (sinvEMap n) hinv h4
  have hfun := match_unique_of_distinct_label_sets l (sinvEMap n) hinv hsym hdist
  obtain ⟨h1, h2, h3, _, _⟩ := (sinv_ok_iff code).1 ⟨d, h⟩
  have hnew : new l (sinvEMap n) (some 1) = .ok d := by
    have hdef : sinvFromCode code =
      if n % 2 ≠ 0 then .panic else if listMin (labelsOf l) ≠ some 1 then .panic
      else if listMax (labelsOf l) ≠ some n then .panic else new l (sinvEMap n) (some 1) := rfl
    rw [hdef, if_neg (by simpa using h1), if_neg (by simpa using h2), if_neg (by simpa using h3)] at h
    exact h
  obtain ⟨y, hy, a1, a2, a3⟩ := inv_x_involutive l (sinvEMap n) (some 1) d hnew hsym hfun x hx
  obtain ⟨y', _, b1, b2, b3⟩ := inv_x_spec l (sinvEMap n) (some 1) d hnew hsym x hx
  have : y' = y := by rw [a1] at b1; exact (Res.ok.inj b1).symm
  subst this
  exact ⟨y', hy, a1, a2, a3,
    match_exact (sinvEMap n) x y' (fun e he => hinv e ((mem_edgesOf _ e).2 ⟨y', hy, he⟩)) b2 b3⟩

/-- the same with the hypotheses in the decidable form the driver evaluates on every instance (`hyp=1` in its replies) -/
theorem inv_x_involutive_of_checks (link : Link) (f : Nat → Nat) (base : Option Nat) (d : InvData)
    (h : new link f base = .ok d) (h1 : involB f (edgesOf link.toList) = true)
    (h2 : sameCardB link.toList = true) (h3 : distinctSetsB link.toList = true) :
    ∀ x ∈ link.toList, ∃ y ∈ link.toList, d.invX x = .ok y ∧ d.invX y = .ok x ∧ firstMatch f link.toList x = some y ∧
      ∀ e, e ∈ y.e.toList ↔ ∃ e' ∈ x.e.toList, f e' = e := by
  have hinv := involB_spec f _ h1
  have hsym := match_symm_of_involutive link f hinv (sameCardB_spec _ h2)
  have hfun := match_unique_of_distinct_label_sets link f hinv hsym (distinctSetsB_spec _ h3)
  intro x hx
  obtain ⟨y, hy, a1, a2, a3⟩ := inv_x_involutive link f base d h hsym hfun x hx
  obtain ⟨y', _, b1, b2, b3⟩ := inv_x_spec link f base d h hsym x hx
  have : y' = y := by rw [a1] at b1; exact (Res.ok.inj b1).symm
  subst this
  exact ⟨y', hy, a1, a2, a3, match_exact f x y' (fun e he => hinv e ((mem_edgesOf _ e).2 ⟨y', hy, he⟩)) b2 b3⟩

/-- the hypotheses are satisfiable: the table's trefoil -/
example :
    let code : List (Array Nat) := [#[1,5,2,4], #[3,1,4,6], #[5,3,6,2]]
    (∃ d, sinvFromCode code = .ok d ∧ d.invX ⟨.X, #[1,5,2,4]⟩ = .ok ⟨.X, #[3,1,4,6]⟩ ∧
      d.invX ⟨.X, #[5,3,6,2]⟩ = .ok ⟨.X, #[5,3,6,2]⟩) ∧
    sameCardB (linkOfCode code).toList = true ∧ distinctSetsB (linkOfCode code).toList = true := by
  intro code
  refine ⟨?_, by decide, by decide⟩
  have h : okAnd (sinvFromCode code) (fun d => decide (d.invX ⟨.X, #[1,5,2,4]⟩ = .ok ⟨.X, #[3,1,4,6]⟩) &&
      decide (d.invX ⟨.X, #[5,3,6,2]⟩ = .ok ⟨.X, #[5,3,6,2]⟩)) = true := by decide +kernel
  obtain ⟨d, hd, hp⟩ := okAnd_elim _ _ h
  simp only [Bool.and_eq_true, decide_eq_true_eq] at hp
  exact ⟨d, hd, hp.1, hp.2⟩

/-! ### (d) τ on the reference cube (`Model/C19.lean`), under the per-instance check `icubeWf` -/

/-- τ is an involution on the states of the cube and preserves the weight (homological degree) -/
theorem icube_tState_involutive (ic : ICube) (h : icubeWf ic = true) (s : Nat) (hs : s < 2 ^ ic.cube.n) :
    ic.tst[s]! < 2 ^ ic.cube.n ∧ ic.tst[ic.tst[s]!]! = s ∧ popcount (ic.tst[s]!) ic.cube.n = popcount s ic.cube.n :=
  ⟨(wf_spec ic h s hs).lt, (wf_spec ic h s hs).inv, (wf_spec ic h s hs).wt⟩

/-- `ICube.tau` is an involution on generators (state below `2^n`, labelling of the circles of that state) -/
theorem icube_tau_involutive (ic : ICube) (h : icubeWf ic = true) (g : Gen) (hs : g.s < 2 ^ ic.cube.n)
    (hm : g.mask < 2 ^ (ic.cube.circ[g.s]!).size) : ic.tau (ic.tau g) = g := by
  have ws := wf_spec ic h g.s hs
  have wt := wf_spec ic h _ ws.lt
  rw [tau_eq ic (ic.tau g), tau_eq ic g]
  simp only
  obtain ⟨s, mask⟩ := g
  simp only at hs hm ws wt ⊢
  rw [Gen.mk.injEq]
  refine ⟨ws.inv, ?_⟩
  apply Nat.eq_of_testBit_eq
  intro j
  have hb1 := fun x j => tauMask_bit_of_inverse (ic.tlab[s]!) (ic.tlab[ic.tst[s]!]!) (ic.cube.circ[s]!).size x j ws.lab
    (by have := wt.bij; rw [ws.inv, ws.circ] at this; exact this) ws.bij
  have hb2 := fun x j => tauMask_bit_of_inverse (ic.tlab[ic.tst[s]!]!) (ic.tlab[s]!) (ic.cube.circ[s]!).size x j
    (by rw [wt.lab, ws.circ]) ws.bij (by have := wt.bij; rw [ws.inv, ws.circ] at this; exact this)
  rw [hb2]
  by_cases hj : j < (ic.cube.circ[s]!).size
  · simp only [hj, decide_true, Bool.true_and]
    rw [hb1]
    have := ws.bij j hj
    simp [this.1, this.2]
  · simp only [hj, decide_false, Bool.false_and]
    exact (testBit_false_of_lt mask _ j hm (by omega)).symm

/-- τ preserves the homological degree (weight of the state) -/
theorem icube_tau_hdeg (ic : ICube) (h : icubeWf ic = true) (g : Gen) (hs : g.s < 2 ^ ic.cube.n) :
    popcount (ic.tau g).s ic.cube.n = popcount g.s ic.cube.n :=
  (wf_spec ic h g.s hs).wt

/-- τ preserves the quantum degree -/
theorem icube_tau_qdeg (ic : ICube) (h : icubeWf ic = true) (q0 : Int) (g : Gen) (hs : g.s < 2 ^ ic.cube.n) :
    ic.cube.qDeg q0 (ic.tau g) = ic.cube.qDeg q0 g := by
  have ws := wf_spec ic h g.s hs
  have wt := wf_spec ic h _ ws.lt
  have hbij' : ∀ i < (ic.cube.circ[g.s]!).size, (ic.tlab[ic.tst[g.s]!]!)[i]! < (ic.cube.circ[g.s]!).size ∧
      (ic.tlab[g.s]!)[(ic.tlab[ic.tst[g.s]!]!)[i]!]! = i := by
    have := wt.bij; rw [ws.inv, ws.circ] at this; exact this
  unfold Cube.qDeg
  rw [tau_eq]
  simp only [ws.circ, ws.wt]
  have hpc : popcount (tauMask (ic.tlab[g.s]!) g.mask) (ic.cube.circ[g.s]!).size =
      popcount g.mask (ic.cube.circ[g.s]!).size := by
    unfold popcount
    rw [← count_perm (ic.cube.circ[g.s]!).size (fun i => (ic.tlab[g.s]!)[i]!) (fun i => (ic.tlab[ic.tst[g.s]!]!)[i]!)
      hbij' ws.bij (fun i => g.mask.testBit i)]
    congr 1
    apply List.filter_congr
    intro j hj
    rw [tauMask_bit_of_inverse (ic.tlab[g.s]!) (ic.tlab[ic.tst[g.s]!]!) (ic.cube.circ[g.s]!).size g.mask j ws.lab hbij' ws.bij]
    simp [List.mem_range.1 hj]
  rw [hpc]

/-- τ preserves the reduced sub-complex: the base circle goes to the base circle and keeps its label `X` -/
theorem icube_tau_reduced (ic : ICube) (h : icubeWf ic = true) (g : Gen) (hs : g.s < 2 ^ ic.cube.n) (b : Nat)
    (hb : ic.cube.baseCircle g.s = some b) (hx : g.mask.testBit b = true) :
    ∃ b', ic.cube.baseCircle (ic.tau g).s = some b' ∧ (ic.tau g).mask.testBit b' = true := by
  have ws := wf_spec ic h g.s hs
  obtain ⟨hbr, hb'⟩ := ws.base b hb
  refine ⟨_, hb', ?_⟩
  rw [tau_eq]
  simp only
  rw [tauMask_testBit']
  exact ⟨b, by rw [ws.lab]; exact hbr, hx, rfl⟩

/-- `icubeWf` is satisfiable by a cube vertex pair on which τ permutes circles non-trivially (reduced, base circle fixed) -/
example :
    let ic : ICube := ⟨⟨1, #[#[#[1], #[2, 3]], #[#[1], #[2], #[3]]], some 1⟩, #[0, 1], #[#[0, 1], #[0, 2, 1]]⟩
    icubeWf ic = true ∧ (ic.tau ⟨1, 3⟩).s = 1 ∧ (ic.tau ⟨1, 3⟩).mask = 5 := by
  intro ic
  refine ⟨by decide +kernel, by decide +kernel, by decide +kernel⟩

/-- both outcomes of `new` occur on the trefoil: base point `4` (on the axis) is accepted, base point `2` is not -/
example :
    let l : Link := #[⟨.X, #[1,5,2,4]⟩, ⟨.X, #[3,1,4,6]⟩, ⟨.X, #[5,3,6,2]⟩]
    (new l (sinvEMap 6) (some 4)).isOk = true ∧ (new l (sinvEMap 6) (some 2)).isOk = false ∧
    (new l (sinvEMap 6) (some 9)).isOk = false := by
  intro l
  refine ⟨by decide +kernel, by decide +kernel, by decide +kernel⟩

end Yuiv.C19Inv
