import Yuiv.Proofs.SnfUniqueC09
import Yuiv.Proofs.SnfUniqueRank
import Mathlib.Algebra.Field.ZMod
import Mathlib.Data.Int.Associated
/-
UNIQUENESS OF THE SMITH NORMAL FORM over ℤ — property theorems only (definitions and lemmas:
`Proofs/SnfUnique.lean`, bridge to the C09 model: `Proofs/SnfUniqueC09.lean`).

Properties C09 (Smith normal form) and C07 (homology rank/torsion) prove that the code returns `D = P·A·Q` with `P`, `Q`
invertible and `D` a normalised Smith diagonal.  What was trusted mathematics is that `D` is DETERMINED by `A`.
Here this is proved, over ℤ, for Mathlib matrices `Matrix (Fin m) (Fin n) ℤ` and then for the framework's own objects.

Vocabulary: `dgM D k` is the `k`-th diagonal entry (`0` outside the matrix); `IsSmith D` says: off-diagonal entries
vanish and `dgM D k ∣ dgM D (k+1)` for all `k` (hence zeros only at the end); `nsol q A` is the number of solutions of
`A·x = 0` in `(ℤ/q)ⁿ`; `cz d q = #{y ∈ ℤ/q | d·y = 0}`.

Proof by counting (Mathlib has neither the statement nor Cauchy–Binet): `nsol q` is invariant under `A ↦ U·A·V`
(`nsol_invariant`), it is `∏ cz (d_i) q` on a diagonal matrix (`nsol_smith`), and a divisibility chain is determined up
to sign by these products for all `q ≥ 1` (`Proofs: chain_unique`).
-/
namespace Yuiv.SnfUnique
open Matrix Finset

variable {m n : ℕ}

/-! ### the two pillars -/

/-- the number of solutions of `A·x = 0` over `ℤ/q` does not change under `A ↦ U·A·V`, `U`, `V` invertible over ℤ -/
theorem nsol_invariant (q : ℕ) (A : Matrix (Fin m) (Fin n) ℤ) (U : Matrix (Fin m) (Fin m) ℤ)
    (V : Matrix (Fin n) (Fin n) ℤ) (hU : IsUnit U.det) (hV : IsUnit V.det) : nsol q (U * A * V) = nsol q A :=
  nsol_mul q U U⁻¹ V V⁻¹ (Matrix.nonsing_inv_mul U hU) (Matrix.mul_nonsing_inv V hV) (Matrix.nonsing_inv_mul V hV) A

/-- for a diagonal matrix the number of solutions of `D·x = 0` over `ℤ/q` is `∏_{i<n} #{y ∈ ℤ/q | d_i·y = 0}` -/
theorem nsol_smith (q : ℕ) (D : Matrix (Fin m) (Fin n) ℤ) (hD : IsDiagM D) :
    nsol q D = ∏ i ∈ range n, cz (dgM D i) q := nsol_diag q D hD

/-- the counting function is explicit: the number of `y ∈ ℤ/q` with `d·y = 0` is `gcd(|d|, q)` (`q ≥ 1`) -/
theorem solutions_mod_q_eq_gcd (d : ℤ) (q : ℕ) (hq : 0 < q) : cz d q = Nat.gcd d.natAbs q := by
  have : NeZero q := ⟨by omega⟩
  exact cz_eq_gcd d q

/-- hence for a diagonal matrix the number of solutions of `D·x = 0` over `ℤ/q` is `∏_{i<n} gcd(|d_i|, q)`
(`d_i = 0`, factor `q`, for `i ≥ m`) — the complete system of invariants used in the proof -/
theorem nsol_smith_gcd (q : ℕ) (hq : 0 < q) (D : Matrix (Fin m) (Fin n) ℤ) (hD : IsDiagM D) :
    nsol q D = ∏ i ∈ range n, Nat.gcd (dgM D i).natAbs q := by
  have : NeZero q := ⟨by omega⟩
  exact nsol_diag_gcd q D hD

/-! ### (M3) uniqueness -/

/-- **uniqueness of the Smith normal form over ℤ.**  If `D` and `D'` are Smith diagonals (diagonal, `d_0 ∣ d_1 ∣ …`) and
`D' = U·D·V` with `U`, `V` invertible over ℤ, then `|d_k| = |d'_k|` for every `k`. -/
theorem smith_diag_unique (D D' : Matrix (Fin m) (Fin n) ℤ) (hD : IsSmith D) (hD' : IsSmith D')
    (U : Matrix (Fin m) (Fin m) ℤ) (V : Matrix (Fin n) (Fin n) ℤ) (hU : IsUnit U.det) (hV : IsUnit V.det)
    (h : D' = U * D * V) (k : ℕ) : (dgM D k).natAbs = (dgM D' k).natAbs :=
  smith_natAbs_eq D D' hD hD' U U⁻¹ V V⁻¹ (Matrix.nonsing_inv_mul U hU) (Matrix.mul_nonsing_inv V hV)
    (Matrix.nonsing_inv_mul V hV) h k

/-- … equivalently the diagonal entries are associated (equal up to a unit `±1`) -/
theorem smith_diag_associated (D D' : Matrix (Fin m) (Fin n) ℤ) (hD : IsSmith D) (hD' : IsSmith D')
    (U : Matrix (Fin m) (Fin m) ℤ) (V : Matrix (Fin n) (Fin n) ℤ) (hU : IsUnit U.det) (hV : IsUnit V.det)
    (h : D' = U * D * V) (k : ℕ) : Associated (dgM D k) (dgM D' k) :=
  Int.natAbs_eq_iff_associated.1 (smith_diag_unique D D' hD hD' U V hU hV h k)

/-- two Smith forms `U·A·V = D`, `U'·A·V' = D'` of the SAME matrix `A` (transforms with explicit right inverses, as the
code hands them out) have the same diagonal up to sign -/
theorem smith_of_same_matrix_unique (A D D' : Matrix (Fin m) (Fin n) ℤ) (hD : IsSmith D) (hD' : IsSmith D')
    (U Ui U' Ui' : Matrix (Fin m) (Fin m) ℤ) (V Vi V' Vi' : Matrix (Fin n) (Fin n) ℤ)
    (hU : U * Ui = 1) (hV : V * Vi = 1) (hU' : U' * Ui' = 1) (hV' : V' * Vi' = 1)
    (h : U * A * V = D) (h' : U' * A * V' = D') (k : ℕ) : (dgM D k).natAbs = (dgM D' k).natAbs :=
  smith_natAbs_eq_of_same A D D' hD hD' U Ui U' Ui' V Vi V' Vi' hU hV hU' hV' h h' k

/-- **normalised Smith forms are equal.**  If moreover both diagonals are non-negative then `D = D'` -/
theorem smith_unique_normalised (D D' : Matrix (Fin m) (Fin n) ℤ) (hD : IsSmith D) (hD' : IsSmith D')
    (hn : ∀ k, 0 ≤ dgM D k) (hn' : ∀ k, 0 ≤ dgM D' k)
    (U : Matrix (Fin m) (Fin m) ℤ) (V : Matrix (Fin n) (Fin n) ℤ) (hU : IsUnit U.det) (hV : IsUnit V.det)
    (h : D' = U * D * V) : D = D' :=
  eq_of_dgM_eq D D' hD.diag hD'.diag fun k =>
    eq_of_natAbs_eq_of_nonneg (smith_diag_unique D D' hD hD' U V hU hV h k) (hn k) (hn' k)

/-! ### (M1), (M2) as corollaries: the counts of zero / unit / `p`-divisible entries are invariants -/

/-- every integer divides `d_k` iff it divides `d'_k`; with `q = 0`: `d_k = 0 ↔ d'_k = 0` (M1: the rank, i.e. the
number of non-zero entries, agrees), with `q = p` prime: (M2) -/
theorem smith_diag_dvd_iff (D D' : Matrix (Fin m) (Fin n) ℤ) (hD : IsSmith D) (hD' : IsSmith D')
    (U : Matrix (Fin m) (Fin m) ℤ) (V : Matrix (Fin n) (Fin n) ℤ) (hU : IsUnit U.det) (hV : IsUnit V.det)
    (h : D' = U * D * V) (k : ℕ) (q : ℤ) : q ∣ dgM D k ↔ q ∣ dgM D' k :=
  (smith_diag_associated D D' hD hD' U V hU hV h k).dvd_iff_dvd_right

/-- (M1) the number of non-zero diagonal entries (the rank), (M2) the number of unit entries (trivial summands of the
cokernel) and, for every `p`, the number of entries not divisible by `p` (the rank modulo `p`) are determined -/
theorem smith_counts_unique (D D' : Matrix (Fin m) (Fin n) ℤ) (hD : IsSmith D) (hD' : IsSmith D')
    (U : Matrix (Fin m) (Fin m) ℤ) (V : Matrix (Fin n) (Fin n) ℤ) (hU : IsUnit U.det) (hV : IsUnit V.det)
    (h : D' = U * D * V) :
    #{k ∈ range (min m n) | dgM D k ≠ 0} = #{k ∈ range (min m n) | dgM D' k ≠ 0} ∧
    #{k ∈ range (min m n) | IsUnit (dgM D k)} = #{k ∈ range (min m n) | IsUnit (dgM D' k)} ∧
    ∀ p : ℤ, #{k ∈ range (min m n) | ¬ p ∣ dgM D k} = #{k ∈ range (min m n) | ¬ p ∣ dgM D' k} := by
  have ha := smith_diag_associated D D' hD hD' U V hU hV h
  refine ⟨?_, ?_, fun p => ?_⟩
  · congr 1
    apply Finset.filter_congr
    intro k _
    rw [not_iff_not]
    exact ⟨fun h0 => by simpa [h0] using (ha k).symm, fun h0 => by simpa [h0] using ha k⟩
  · congr 1
    apply Finset.filter_congr
    intro k _
    exact (ha k).isUnit_iff
  · congr 1
    apply Finset.filter_congr
    intro k _
    rw [not_iff_not]
    exact (ha k).dvd_iff_dvd_right

/-- (M1, rank form) if `D = U·A·V` is a Smith form of `A` then the rank of `A` over ℚ is the number of non-zero diagonal
entries of `D` -/
theorem smith_rank_rat (A D : Matrix (Fin m) (Fin n) ℤ) (hD : IsSmith D)
    (U : Matrix (Fin m) (Fin m) ℤ) (V : Matrix (Fin n) (Fin n) ℤ) (hU : IsUnit U.det) (hV : IsUnit V.det)
    (h : D = U * A * V) :
    (A.map (Int.castRingHom ℚ)).rank = #{k ∈ range (min m n) | dgM D k ≠ 0} := by
  classical
  rw [← rank_map_eq_of_equiv (Int.castRingHom ℚ) A U V hU hV, ← h, rank_map_smith (Int.castRingHom ℚ) D hD]
  congr 1
  apply Finset.filter_congr
  intro k _
  simp

/-- (M2, rank form) … and for every prime `p` the rank of `A` over `𝔽_p` is the number of diagonal entries of `D` not
divisible by `p` -/
theorem smith_rank_mod_p (p : ℕ) [Fact p.Prime] (A D : Matrix (Fin m) (Fin n) ℤ) (hD : IsSmith D)
    (U : Matrix (Fin m) (Fin m) ℤ) (V : Matrix (Fin n) (Fin n) ℤ) (hU : IsUnit U.det) (hV : IsUnit V.det)
    (h : D = U * A * V) :
    (A.map (Int.castRingHom (ZMod p))).rank = #{k ∈ range (min m n) | ¬ (p : ℤ) ∣ dgM D k} := by
  classical
  rw [← rank_map_eq_of_equiv (Int.castRingHom (ZMod p)) A U V hU hV, ← h,
    rank_map_smith (Int.castRingHom (ZMod p)) D hD]
  congr 1
  apply Finset.filter_congr
  intro k _
  rw [Int.coe_castRingHom, ne_eq, ZMod.intCast_zmod_eq_zero_iff_dvd]

/-- (M3′) the product of the non-zero diagonal entries — the order of the torsion subgroup of the cokernel — is determined -/
theorem smith_torsion_order_unique (D D' : Matrix (Fin m) (Fin n) ℤ) (hD : IsSmith D) (hD' : IsSmith D')
    (U : Matrix (Fin m) (Fin m) ℤ) (V : Matrix (Fin n) (Fin n) ℤ) (hU : IsUnit U.det) (hV : IsUnit V.det)
    (h : D' = U * D * V) :
    ∏ k ∈ range (min m n) with dgM D k ≠ 0, (dgM D k).natAbs =
      ∏ k ∈ range (min m n) with dgM D' k ≠ 0, (dgM D' k).natAbs := by
  have hk := smith_diag_unique D D' hD hD' U V hU hV h
  have hf : ∀ k, dgM D k ≠ 0 ↔ dgM D' k ≠ 0 := fun k => by
    rw [← Int.natAbs_ne_zero, ← Int.natAbs_ne_zero, hk k]
  rw [Finset.filter_congr (fun k _ => hf k)]
  exact Finset.prod_congr rfl fun k _ => hk k

/-! ### non-vacuity: `A = [[2,4],[6,8]]` has the Smith form `diag(2, 4)`, reached by two different transform pairs -/

example : IsSmith !![(2 : ℤ), 0; 0, 4] := by
  refine ⟨?_, ?_⟩
  · intro i j hij
    fin_cases i <;> fin_cases j <;> simp_all
  · intro k
    rcases k with _ | k
    · simp [dgM]
    · rw [dgM_out _ (k + 1 + 1) (by omega)]; exact dvd_zero _

example : !![(1 : ℤ), 0; 3, -1] * !![2, 4; 6, 8] * !![1, -2; 0, 1] = !![2, 0; 0, 4] ∧
    !![(1 : ℤ), 0; -3, 1] * !![2, 4; 6, 8] * !![1, 2; 0, -1] = !![2, 0; 0, 4] ∧
    IsUnit (!![(1 : ℤ), 0; 3, -1]).det ∧ IsUnit (!![(1 : ℤ), -2; 0, 1]).det ∧
    IsUnit (!![(1 : ℤ), 0; -3, 1]).det ∧ IsUnit (!![(1 : ℤ), 2; 0, -1]).det := by
  refine ⟨by decide, by decide, ?_, ?_, ?_, ?_⟩ <;> simp [Matrix.det_fin_two]

end Yuiv.SnfUnique

namespace Yuiv.C09
open Yuiv Matrix Yuiv.SnfUnique

variable {m n : Nat}

/-! ### (B) the framework's own objects -/

/-- **snf_diag_unique.**  `IsSnfOf A T` is literally the conclusion of `snf_total_correct` about the final target `T`
(there are `P, P⁻¹, Q, Q⁻¹` with `P·A·Q = T`, `P·P⁻¹ = Q·Q⁻¹ = I`, `T` diagonal, `ShapeSpec (0 ≤ ·) (diagL T)`).  Any two
matrices satisfying it for the same `A` have the same diagonal list — and are equal entry by entry. -/
theorem snf_diag_unique (A T T' : Mat Int m n) (h : IsSnfOf A T) (h' : IsSnfOf A T') :
    diagL T = diagL T' ∧ ∀ i j, T.get i j = T'.get i j := by
  have hd := dgM_eq_of_isSnfOf A T T' h h'
  refine ⟨diagL_eq_of_dgM_eq T T' hd, fun i j => ?_⟩
  obtain ⟨P, Pi, Q, Qi, w⟩ := h
  obtain ⟨P', Pi', Q', Qi', w'⟩ := h'
  have := eq_of_dgM_eq (toM id T) (toM id T') w.isSmith.diag w'.isSmith.diag hd
  exact congrFun (congrFun this i) j

/-- **the code model's diagonal IS the invariant-factor list of `A`.**  For every integer matrix the code model of
`SnfCalc::process` returns (for all `fuel ≥ N`) one state `s` whose target is a normalised Smith form of `A`, and
EVERY normalised Smith form `T` of `A` — however obtained — has the same diagonal `diagL T = diagL s.t`. -/
theorem snf_model_diag_is_the_invariant (A : Mat Int m n) :
    ∃ N s, (∀ fuel, N ≤ fuel → snfCalc intOps true (fun s => .ok s) fuel A = .ok s) ∧ IsSnfOf A s.t ∧
      ∀ T, IsSnfOf A T → diagL T = diagL s.t := by
  obtain ⟨N, s, hN, hs⟩ := snf_total_correct A
  have hsn : IsSnfOf A s.t := ⟨s.p, s.pinv, s.q, s.qinv, hs⟩
  exact ⟨N, s, hN, hsn, fun T hT => (snf_diag_unique A T s.t hT hsn).1⟩

/-- whenever the code model returns (any fuel), its diagonal equals the diagonal of any normalised Smith form of `A` -/
theorem snf_result_diag_unique (fuel : Nat) (A : Mat Int m n) (s : St Int m n)
    (h : snfCalc intOps true (fun s => .ok s) fuel A = .ok s) (T : Mat Int m n) (hT : IsSnfOf A T) :
    diagL s.t = diagL T :=
  (snf_diag_unique A s.t T ⟨s.p, s.pinv, s.q, s.qinv, snf_correct fuel A s h⟩ hT).1

/-- **the diagonal is an invariant of the equivalence class.**  If `A' = U·A·V` with `U`, `V` invertible over ℤ then the
code model computes the same diagonal for `A` and `A'` -/
theorem snf_diag_equiv_invariant (fuel fuel' : Nat) (A A' : Mat Int m n) (s s' : St Int m n)
    (h : snfCalc intOps true (fun s => .ok s) fuel A = .ok s)
    (h' : snfCalc intOps true (fun s => .ok s) fuel' A' = .ok s')
    (U : Matrix (Fin m) (Fin m) ℤ) (V : Matrix (Fin n) (Fin n) ℤ) (hU : IsUnit U.det) (hV : IsUnit V.det)
    (hA : toM id A' = U * toM id A * V) : diagL s.t = diagL s'.t := by
  have w := snf_correct fuel A s h
  have w' := snf_correct fuel' A' s' h'
  have hw : SnfWitness A s.t s.p s.pinv s.q s.qinv := w
  have hw' : SnfWitness A' s'.t s'.p s'.pinv s'.q s'.qinv := w'
  apply diagL_eq_of_dgM_eq
  intro k
  have hn := smith_natAbs_eq_of_same (toM id A) (toM id s.t) (toM id s'.t) hw.isSmith hw'.isSmith
    (toM id s.p) (toM id s.pinv) (toM id s'.p * U) (U⁻¹ * toM id s'.pinv)
    (toM id s.q) (toM id s.qinv) (V * toM id s'.q) (toM id s'.qinv * V⁻¹)
    w.1.2.1 w.1.2.2 ?_ ?_ w.1.1 ?_ k
  · exact eq_of_natAbs_eq_of_nonneg hn ((shapeSpec_chain_nonneg s.t w.2.2).2 k)
      ((shapeSpec_chain_nonneg s'.t w'.2.2).2 k)
  · calc toM id s'.p * U * (U⁻¹ * toM id s'.pinv) = toM id s'.p * (U * U⁻¹) * toM id s'.pinv := by
          simp only [Matrix.mul_assoc]
      _ = 1 := by rw [Matrix.mul_nonsing_inv U hU, Matrix.mul_one, w'.1.2.1]
  · calc V * toM id s'.q * (toM id s'.qinv * V⁻¹) = V * (toM id s'.q * toM id s'.qinv) * V⁻¹ := by
          simp only [Matrix.mul_assoc]
      _ = 1 := by rw [w'.1.2.2, Matrix.mul_one, Matrix.mul_nonsing_inv V hV]
  · rw [← w'.1.1, hA]
    simp only [Matrix.mul_assoc]

/-- the same against an arbitrary Smith form given as Mathlib matrices: if `D = U·A·V` (`U`, `V` with unit determinant) is a
Smith diagonal with non-negative entries, then the Mathlib image of every framework Smith form `T` of `A` IS `D` -/
theorem snf_eq_any_smith_form (A T : Mat Int m n) (h : IsSnfOf A T) (D : Matrix (Fin m) (Fin n) ℤ)
    (U : Matrix (Fin m) (Fin m) ℤ) (V : Matrix (Fin n) (Fin n) ℤ) (hU : IsUnit U.det) (hV : IsUnit V.det)
    (hD : IsSmith D) (hn : ∀ k, 0 ≤ dgM D k) (hA : U * toM id A * V = D) :
    toM id T = D ∧ diagL T = (List.range (min m n)).map (dgM D) := by
  have hd := dgM_eq_of_isSnfOf_matrix A T h D U V hU hV hD hn hA
  obtain ⟨P, Pi, Q, Qi, w⟩ := h
  refine ⟨eq_of_dgM_eq (toM id T) D w.isSmith.diag hD.diag hd, ?_⟩
  rw [diagL_eq_map_dgM]
  exact List.map_congr_left fun k _ => hd k

/-! ### non-vacuity in the framework: `A = [[2,4],[6,8]]` -/

/-- the code model returns `diag(2, 4)` … -/
example : (match snfCalc intOps true (fun s => .ok s) 50 (⟨#v[#v[2, 4], #v[6, 8]]⟩ : Mat Int 2 2) with
    | .ok s => diagL s.t == [2, 4]
    | _ => false) = true := by decide +kernel

/-- … and `diag(2, 4)` is a normalised Smith form of `A` through a hand-made pair `(P, Q) = ([[1,0],[-3,1]], [[1,2],[0,-1]])`
(column operations first), different from the transforms the code finds -/
example : IsSnfOf (⟨#v[#v[2, 4], #v[6, 8]]⟩ : Mat Int 2 2) ⟨#v[#v[2, 0], #v[0, 4]]⟩ := by
  refine ⟨⟨#v[#v[1, 0], #v[-3, 1]]⟩, ⟨#v[#v[1, 0], #v[3, 1]]⟩, ⟨#v[#v[1, 2], #v[0, -1]]⟩, ⟨#v[#v[1, 2], #v[0, -1]]⟩,
    ⟨by decide, by decide, by decide⟩, spec_of_isSnfShape _ (by decide)⟩

end Yuiv.C09
