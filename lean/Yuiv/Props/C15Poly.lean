import Yuiv.Proofs.C15Poly
/-
C15 — the clause "a = (a/b)·b + (a%b) with the remainder zero or of strictly smaller Euclidean norm" for
univariate polynomials over a field (`Poly<'x', R>::div_rem`, poly.rs) and for homogeneous polynomials
(`HPoly::div_rem`, h_poly.rs): property theorems about the code model `Poly.divRem`, `HP.divRem`,
`polyOps`, `hpolyOps` of `Yuiv/Model/C15.lean`.

Coefficients: any `EucOps F` with `FieldRep E V φ` (the operations of `E` compute a field `K` on the valid
representatives `V` via `φ : F → K`, see `Proofs/C15Poly.lean`); this holds for the models of `Ratio`
(`rat_fieldRep`) and of `FF<p>` for every prime `p` (`ff_fieldRep`).  Polynomials are canonical coefficient
lists (`Poly.Canon`: valid coefficients, no trailing zero — what `Poly`'s term map holds and what the driver
parses); `Poly.toPoly φ f ∈ K[X]` is the polynomial a list denotes.
-/
namespace Yuiv.C15
open Yuiv Polynomial

/-- the coefficient model of `Ratio` (canonical fractions) is a field representation of ℚ -/
theorem rat_fieldRep : FieldRep ratOps Q.WF Q.toRat := Q.fieldRep

/-- the coefficient model of `FF<p>` (residues `< p`) is a field representation of `ZMod p`, any prime `p` -/
theorem ff_fieldRep (p : Nat) [Fact p.Prime] : FieldRep (ffOps p) (fun a => a < p) (fun a => (a : ZMod p)) :=
  FF.fieldRep p

section poly
variable {F K : Type} [Field K] {E : EucOps F} {V : F → Prop} {φ : F → K} (H : FieldRep E V φ)
include H

/-- `Poly::div_rem`, `/`, `%` on `F[x]`.
* `g = 0`: the Rust operators panic (division of the leading coefficients by `0`);
* `g ≠ 0`: no panic; quotient and remainder are canonical; `f = q·g + r` — both in `K[X]` and literally in
  the model's arithmetic (`f = add (mul q g) r`, the identity the harness oracle evaluates with the real
  `*`, `+`); `r = 0` or `deg r < deg g` (model's `lead_deg`), i.e. the Euclidean size used as loop fuel
  strictly decreases, i.e. `degree r < degree g` in `K[X]` (`degree 0 = ⊥`). -/
theorem poly_divRem_spec (f g : List F) (hf : Poly.Canon E V f) (hg : Poly.Canon E V g) :
    (g = [] → (polyOps E).divR f g = .panic ∧ (polyOps E).remR f g = .panic) ∧
    (g ≠ [] → ∃ q r, Poly.divRem E f g = (q, r) ∧
      (polyOps E).divR f g = .ok q ∧ (polyOps E).remR f g = .ok r ∧
      Poly.Canon E V q ∧ Poly.Canon E V r ∧
      Poly.toPoly φ f = Poly.toPoly φ q * Poly.toPoly φ g + Poly.toPoly φ r ∧
      f = Poly.add E (Poly.mul E q g) r ∧
      (r = [] ∨ Poly.deg r < Poly.deg g) ∧
      (polyOps E).norm r < (polyOps E).norm g ∧
      (Poly.toPoly φ r).degree < (Poly.toPoly φ g).degree) := by
  refine ⟨fun h => ?_, fun h => ?_⟩
  · subst h; exact ⟨rfl, rfl⟩
  · have hz : (polyOps E).isZero g = false := by
      cases g with
      | nil => exact absurd rfl h
      | cons a t => rfl
    obtain ⟨hq, hr, e, hl⟩ := Poly.divRem_spec H f g hf hg h
    refine ⟨(Poly.divRem E f g).1, (Poly.divRem E f g).2, rfl, ?_, ?_, hq, hr, e, ?_, ?_, hl,
      Poly.degree_lt_of_length_lt H _ g hg hl⟩
    · unfold EucOps.divR; rw [hz]; rfl
    · unfold EucOps.remR; rw [hz]; rfl
    · have hm := Poly.mul_spec H _ g hq.1 hg.1
      have ha := Poly.add_spec H _ _ hm.1.1 hr.1
      exact Poly.canon_inj H _ _ hf ha.1 (by rw [ha.2, hm.2, e])
    · by_cases h0 : (Poly.divRem E f g).2 = []
      · exact Or.inl h0
      · right
        have := List.length_pos_of_ne_nil h0
        unfold Poly.deg; omega

/-- quotient and remainder are unique: any canonical `q', r'` with `f = q'·g + r'` and `r'` shorter than `g`
(i.e. `r' = 0 ∨ deg r' < deg g`) are the ones `div_rem` returns -/
theorem poly_divRem_unique (f g q' r' : List F) (hf : Poly.Canon E V f) (hg : Poly.Canon E V g)
    (hq' : Poly.Canon E V q') (hr' : Poly.Canon E V r')
    (e' : Poly.toPoly φ f = Poly.toPoly φ q' * Poly.toPoly φ g + Poly.toPoly φ r')
    (hl' : r'.length < g.length) : Poly.divRem E f g = (q', r') := by
  have hg0 : g ≠ [] := by rintro rfl; simp at hl'
  obtain ⟨hq, hr, e, hl⟩ := Poly.divRem_spec H f g hf hg hg0
  have := Poly.divRem_unique H f g _ _ q' r' hg hq hr hq' hr' e hl e' hl'
  exact Prod.ext this.1 this.2

/-- … in particular `div_rem` computes the Euclidean division of `K[X]` in the model's own arithmetic:
if `f = add (mul q' g) r'` with `r'` shorter than `g` then `(q', r')` is the result -/
theorem poly_divRem_unique_model (f g q' r' : List F) (hf : Poly.Canon E V f) (hg : Poly.Canon E V g)
    (hq' : Poly.Canon E V q') (hr' : Poly.Canon E V r')
    (e' : f = Poly.add E (Poly.mul E q' g) r') (hl' : r'.length < g.length) :
    Poly.divRem E f g = (q', r') := by
  refine poly_divRem_unique H f g q' r' hf hg hq' hr' ?_ hl'
  have hm := Poly.mul_spec H _ g hq'.1 hg.1
  have ha := Poly.add_spec H _ _ hm.1.1 hr'.1
  rw [← hm.2, ← ha.2, ← e']

end poly

/-- `Poly<'x', Ratio<_>>::div_rem` (canonical fractions as coefficients) -/
theorem poly_divRem_spec_rat (f g : List Q) (hf : Poly.Canon ratOps Q.WF f) (hg : Poly.Canon ratOps Q.WF g)
    (hg0 : g ≠ []) :
    ∃ q r, Poly.divRem ratOps f g = (q, r) ∧ (polyOps ratOps).divR f g = .ok q ∧ (polyOps ratOps).remR f g = .ok r ∧
      Poly.Canon ratOps Q.WF q ∧ Poly.Canon ratOps Q.WF r ∧
      f = Poly.add ratOps (Poly.mul ratOps q g) r ∧ (r = [] ∨ Poly.deg r < Poly.deg g) := by
  obtain ⟨q, r, h1, h2, h3, h4, h5, _, h7, h8, _⟩ := (poly_divRem_spec rat_fieldRep f g hf hg).2 hg0
  exact ⟨q, r, h1, h2, h3, h4, h5, h7, h8⟩

/-- `Poly<'x', FF<p>>::div_rem`, any prime `p` -/
theorem poly_divRem_spec_ff (p : Nat) [Fact p.Prime] (f g : List Nat)
    (hf : Poly.Canon (ffOps p) (fun a => a < p) f) (hg : Poly.Canon (ffOps p) (fun a => a < p) g) (hg0 : g ≠ []) :
    ∃ q r, Poly.divRem (ffOps p) f g = (q, r) ∧ (polyOps (ffOps p)).divR f g = .ok q ∧
      (polyOps (ffOps p)).remR f g = .ok r ∧
      Poly.Canon (ffOps p) (fun a => a < p) q ∧ Poly.Canon (ffOps p) (fun a => a < p) r ∧
      f = Poly.add (ffOps p) (Poly.mul (ffOps p) q g) r ∧ (r = [] ∨ Poly.deg r < Poly.deg g) := by
  obtain ⟨q, r, h1, h2, h3, h4, h5, _, h7, h8, _⟩ := (poly_divRem_spec (ff_fieldRep p) f g hf hg).2 hg0
  exact ⟨q, r, h1, h2, h3, h4, h5, h7, h8⟩

/-- the hypotheses are satisfiable; the unit test of poly.rs: `(x² + 2x + 1) = (x/2 + 1/4)(2x + 3) + 1/4` over Q,
and `x³ + 2 = (3x² + 6x + 5)(5x + 4) + 3` over F_7; division by `0` panics -/
example :
    Poly.divRem ratOps [⟨1, 1⟩, ⟨2, 1⟩, ⟨1, 1⟩] [⟨3, 1⟩, ⟨2, 1⟩] = ([⟨1, 4⟩, ⟨1, 2⟩], [⟨1, 4⟩]) ∧
    Poly.divRem (ffOps 7) [2, 0, 0, 1] [4, 5] = ([5, 6, 3], [3]) ∧
    (polyOps ratOps).divR [⟨1, 1⟩] [] = .panic := by
  decide +kernel

section hpoly
variable {F K : Type} [Field K] {E : EucOps F} {V : F → Prop} {φ : F → K} (H : FieldRep E V φ)
include H

/-- `HPoly::div_rem`, `/`, `%` on homogeneous polynomials `c·x^d`.
* `y = 0` (zero coefficient): `assert!(!rhs.is_zero())` panics;
* `y ≠ 0`: no panic; `x = q·y + r` — in `K[X]` (`HP.toPoly ⟨d, c⟩ = φ(c)·X^d`) and in the model's arithmetic up
  to `HPoly`'s `PartialEq` (`HP.Equiv`: all zeros are equal); the remainder is zero or of smaller degree, and
  the Euclidean size of `hpolyOps` (`0` for zero, `deg + 1` otherwise) strictly decreases. -/
theorem hpoly_divRem_spec (x y : HP F) (hx : V x.coeff) (hy : V y.coeff) :
    (HP.isZero E y = true → (hpolyOps E).divR x y = .panic ∧ (hpolyOps E).remR x y = .panic) ∧
    (HP.isZero E y = false → ∃ q r, HP.divRem E x y = (q, r) ∧
      (hpolyOps E).divR x y = .ok q ∧ (hpolyOps E).remR x y = .ok r ∧
      V q.coeff ∧ V r.coeff ∧
      HP.toPoly φ x = HP.toPoly φ q * HP.toPoly φ y + HP.toPoly φ r ∧
      HP.Equiv E x (HP.add E (HP.mul E q y) r) ∧
      (HP.isZero E r = true ∨ r.deg < y.deg) ∧
      (hpolyOps E).norm r < (hpolyOps E).norm y) := by
  refine ⟨fun h => ?_, fun h => ?_⟩
  · have : (hpolyOps E).isZero y = true := h
    unfold EucOps.divR EucOps.remR; rw [this]; exact ⟨rfl, rfl⟩
  · have hz : (hpolyOps E).isZero y = false := h
    obtain ⟨hq, hr, e, hl, he⟩ := HP.divRem_spec H x y hx hy h
    refine ⟨(HP.divRem E x y).1, (HP.divRem E x y).2, rfl, ?_, ?_, hq, hr, e, he, hl, ?_⟩
    · unfold EucOps.divR; rw [hz]; rfl
    · unfold EucOps.remR; rw [hz]; rfl
    · show (if HP.isZero E _ then 0 else _ + 1) < (if HP.isZero E y then 0 else y.deg + 1)
      rw [h]
      rcases hl with h0 | hlt
      · rw [h0]; simp
      · split
        · simp
        · simp; omega

end hpoly

/-- `3x⁵ / 2x² = (3/2)x³` rem `0`; `3x / 2x² = 0` rem `3x`; division by zero panics -/
example :
    (HP.divRem ratOps ⟨5, ⟨3, 1⟩⟩ ⟨2, ⟨2, 1⟩⟩).1.deg = 3 ∧ (HP.divRem ratOps ⟨5, ⟨3, 1⟩⟩ ⟨2, ⟨2, 1⟩⟩).1.coeff = ⟨3, 2⟩ ∧
    (HP.divRem ratOps ⟨1, ⟨3, 1⟩⟩ ⟨2, ⟨2, 1⟩⟩).2.deg = 1 ∧
    (match (hpolyOps ratOps).divR ⟨1, ⟨3, 1⟩⟩ ⟨2, ⟨0, 1⟩⟩ with | .panic => true | _ => false) = true := by
  decide +kernel

/-! ### the generic `EucRing::{gcd, gcdx, lcm}` at `F[x]`

`LawfulEuc` of `Props/C15.lean` asks for a `CommRing` on the carrier whose operations are *literally* those of
`E`; the carrier `List F` of `polyOps` contains non-canonical lists (and invalid coefficients), so it is not a
ring and `LawfulEuc (polyOps E)` cannot even be stated.  `EucRep E V ψ` (Proofs/C15Poly.lean) is the same set of
hypotheses through an interpretation `ψ` that is injective on valid representatives; the generic theorems are
proved again over it (`rep_gcd_total`, `rep_gcdx_bezout`, `rep_lcm_gcd_assoc`, `rep_lcm_zero_zero_panics`) and
`poly_gcd_lawful` shows that `F[x]` satisfies it. -/

section rep
variable {α R : Type} [CommRing R] {E : EucOps α} {V : α → Prop} {ψ : α → R} (L : EucRep E V ψ)
include L

/-- `gcd` terminates (fuel `norm y + 1` is never exhausted) and never panics; the result is valid, divides both
arguments and is divisible by every common divisor — on all paths incl. the early returns -/
theorem rep_gcd_total (x y : α) (hx : V x) (hy : V y) :
    ∃ d, E.gcd x y = .ok d ∧ V d ∧ ψ d ∣ ψ x ∧ ψ d ∣ ψ y ∧ (∀ c, c ∣ ψ x → c ∣ ψ y → c ∣ ψ d) := by
  obtain ⟨d, h, hv, hc⟩ := L.gcd_spec x y hx hy
  exact ⟨d, h, hv, ((hc _).1 dvd_rfl).1, ((hc _).1 dvd_rfl).2, fun c h1 h2 => (hc c).2 ⟨h1, h2⟩⟩

/-- `gcdx` returns valid `(d, s, t)` with `s·x + t·y = d`, and `d` is what `gcd` returns -/
theorem rep_gcdx_bezout (x y : α) (hx : V x) (hy : V y) :
    ∃ d s t, E.gcdx x y = .ok (d, s, t) ∧ V d ∧ V s ∧ V t ∧ ψ s * ψ x + ψ t * ψ y = ψ d ∧ E.gcd x y = .ok d :=
  L.gcdx_spec x y hx hy

/-- `lcm·gcd` is an associate of `x·y` (`x`, `y` not both zero) -/
theorem rep_lcm_gcd_assoc (x y : α) (hx : V x) (hy : V y) (hxy : ¬(ψ x = 0 ∧ ψ y = 0)) :
    ∃ l g, E.lcm x y = .ok l ∧ E.gcd x y = .ok g ∧ V l ∧ V g ∧ Associated (ψ l * ψ g) (ψ x * ψ y) :=
  L.lcm_spec x y hx hy hxy

/-- `lcm(0,0)` panics (division by the gcd `0`) -/
theorem rep_lcm_zero_zero_panics (x y : α) (hx : V x) (hy : V y) (hx0 : ψ x = 0) (hy0 : ψ y = 0) :
    E.lcm x y = .panic := L.lcm_zero_zero x y hx hy hx0 hy0

end rep

section polygcd
variable {F K : Type} [Field K] {E : EucOps F} {V : F → Prop} {φ : F → K} (H : FieldRep E V φ)
include H

/-- `F[x]` — canonical coefficient lists with the operations `polyOps E` (`Poly`'s `+ - * / %`, `is_zero`,
`is_one`, `normalizing_unit`, Euclidean size `length`) — satisfies the hypotheses of the generic Euclidean
theorems: ring operations of `K[X]`, Euclidean division with strictly decreasing size, `%` vanishes on
multiples, the normalising unit is a unit -/
theorem poly_gcd_lawful : EucRep (polyOps E) (Poly.Canon E V) (Poly.toPoly φ) := Poly.eucRep H

/-- `gcd` on `F[x]`: terminates, no panic, canonical result, a greatest common divisor in `K[X]` -/
theorem poly_gcd_total (f g : List F) (hf : Poly.Canon E V f) (hg : Poly.Canon E V g) :
    ∃ d, (polyOps E).gcd f g = .ok d ∧ Poly.Canon E V d ∧ Poly.toPoly φ d ∣ Poly.toPoly φ f ∧
      Poly.toPoly φ d ∣ Poly.toPoly φ g ∧
      (∀ c, c ∣ Poly.toPoly φ f → c ∣ Poly.toPoly φ g → c ∣ Poly.toPoly φ d) :=
  rep_gcd_total (Poly.eucRep H) f g hf hg

/-- `gcdx` on `F[x]`: Bezout identity with the returned `s, t` — in `K[X]` and literally in the model's
arithmetic (`d = s·f + t·g` evaluated with `Poly`'s `*`, `+`) -/
theorem poly_gcdx_bezout (f g : List F) (hf : Poly.Canon E V f) (hg : Poly.Canon E V g) :
    ∃ d s t, (polyOps E).gcdx f g = .ok (d, s, t) ∧ Poly.Canon E V d ∧ Poly.Canon E V s ∧ Poly.Canon E V t ∧
      Poly.toPoly φ s * Poly.toPoly φ f + Poly.toPoly φ t * Poly.toPoly φ g = Poly.toPoly φ d ∧
      d = Poly.add E (Poly.mul E s f) (Poly.mul E t g) ∧
      (polyOps E).gcd f g = .ok d := by
  obtain ⟨d, s, t, h, hd, hs, ht, hb, hgc⟩ := rep_gcdx_bezout (Poly.eucRep H) f g hf hg
  refine ⟨d, s, t, h, hd, hs, ht, hb, ?_, hgc⟩
  have m1 := Poly.mul_spec H s f hs.1 hf.1
  have m2 := Poly.mul_spec H t g ht.1 hg.1
  have ha := Poly.add_spec H _ _ m1.1.1 m2.1.1
  exact Poly.canon_inj H _ _ hd ha.1 (by rw [ha.2, m1.2, m2.2, hb])

/-- `lcm` on `F[x]`: `lcm·gcd ~ f·g` unless both vanish; `lcm(0,0)` panics -/
theorem poly_lcm_gcd_assoc (f g : List F) (hf : Poly.Canon E V f) (hg : Poly.Canon E V g) :
    (¬(f = [] ∧ g = []) → ∃ l d, (polyOps E).lcm f g = .ok l ∧ (polyOps E).gcd f g = .ok d ∧
      Poly.Canon E V l ∧ Poly.Canon E V d ∧
      Associated (Poly.toPoly φ l * Poly.toPoly φ d) (Poly.toPoly φ f * Poly.toPoly φ g)) ∧
    ((f = [] ∧ g = []) → (polyOps E).lcm f g = .panic) := by
  refine ⟨fun h => ?_, fun h => ?_⟩
  · refine rep_lcm_gcd_assoc (Poly.eucRep H) f g hf hg ?_
    rw [Poly.toPoly_eq_zero_iff H f hf, Poly.toPoly_eq_zero_iff H g hg]; exact h
  · exact rep_lcm_zero_zero_panics (Poly.eucRep H) f g hf hg (by rw [h.1]; rfl) (by rw [h.2]; rfl)

end polygcd

/-- over Q: `gcd(x² − 1, x² + 2x + 1) = x + 1`; over F_7: `gcdx(x² − 1, x² + 3x + 5) = (1, 4x + 4, 3x + 1)`;
`lcm(0, 0)` panics -/
example :
    (polyOps ratOps).gcd [⟨-1, 1⟩, ⟨0, 1⟩, ⟨1, 1⟩] [⟨1, 1⟩, ⟨2, 1⟩, ⟨1, 1⟩] = .ok [⟨1, 1⟩, ⟨1, 1⟩] ∧
    (polyOps (ffOps 7)).gcdx [6, 0, 1] [5, 3, 1] = .ok ([1], [4, 4], [1, 3]) ∧
    (polyOps ratOps).lcm [] [] = .panic := by
  decide +kernel

end Yuiv.C15
