import Yuiv.Proofs.C12SchurPar
/-
C12 — "same value on one thread and on many" for `compute_schur` (`yui-matrix/src/sparse/schur.rs`, `multithread` branch:
`(0..n).into_par_iter().map(|j| d.col_vec(j) - c * ainvb.col_vec(j)).collect::<Vec<_>>()`).

Property theorems only.  Objects:
  `C12Par.parCollectSt g init n sched`  rayon's indexed collect (`Model/C12SchurPar.lean`): `sched` = the events
        `(worker, index)` in the order they happen — any number of workers, any assignment, any order; each worker has a
        private state (what a thread-local would be) threaded through ITS tasks by `g : σ → Nat → σ × β`; the task for
        index `j` writes slot `j` of the target vector; unwritten slot at the end = rayon's write-count panic
  `C12Par.parCollect f n sched`         the same for a pure closure `f` (state `Unit`)
  `C12Par.ValidSched n sched`           every index of `0..n` is handed to exactly one task
  `C12Par.computeSchurPar X C D sched`  the parallel branch with the closure translated from schur.rs on every run
        (`GenSchur.Schur.compute_schur_closure1`) — which IS a pure function of `j`: the Rust closure captures only shared
        references and allocates its operands and result itself; there is no thread-local or shared buffer on this path
  `GenSchur.Schur.compute_schur`        the translated sequential branch;  `C12.computeSchur` the hand model (`Props/C12`)
-/
namespace Yuiv.C12Par
open Yuiv Res Yuiv.Rust

/-- SCHEDULE INDEPENDENCE of the indexed collect for a pure closure: under EVERY valid schedule the collected vector is the
sequential `List.map f (List.range n)` — no panic, no dependence on which worker computes which index or in which order -/
theorem par_collect_schedule_independent {β : Type} (f : Nat → β) (n : Nat) (sched : List (Nat × Nat))
    (hs : ValidSched n sched) : parCollect f n sched = ok ((List.range n).map f) :=
  parCollectSt_eq _ () f (fun _ => True) trivial (fun _ _ _ => ⟨trivial, rfl⟩) n sched hs

/-- NO LEAK BETWEEN COLUMNS, with private worker state (the general shape of a thread-local scratch buffer): if some
invariant `I` of the private state holds initially, is restored by every task, and under `I` the value computed for index
`j` is `f j`, then every valid schedule yields the sequential result.  Without such an invariant the statement is false
(`stale_state_counterexample`). -/
theorem par_collect_state_does_not_leak {σ β : Type} (g : σ → Nat → σ × β) (init : σ) (f : Nat → β) (I : σ → Prop)
    (h0 : I init) (hI : ∀ s j, I s → I (g s j).1 ∧ (g s j).2 = f j)
    (n : Nat) (sched : List (Nat × Nat)) (hs : ValidSched n sched) :
    parCollectSt g init n sched = ok ((List.range n).map f) :=
  parCollectSt_eq g init f I h0 hI n sched hs

/-- any two valid schedules — in particular one worker taking `0, 1, …, n-1` in order, and many workers — agree -/
theorem par_collect_one_thread_eq_many {β : Type} (f : Nat → β) (n : Nat) (sched : List (Nat × Nat))
    (hs : ValidSched n sched) :
    ValidSched n ((List.range n).map fun j => (0, j)) ∧
    parCollect f n sched = parCollect f n ((List.range n).map fun j => (0, j)) := by
  have h1 : ValidSched n ((List.range n).map fun j => (0, j)) := by
    unfold ValidSched; simp [List.map_map, Function.comp_def]
  exact ⟨h1, by rw [par_collect_schedule_independent f n sched hs, par_collect_schedule_independent f n _ h1]⟩

/-- the partition form: the indices are split into per-worker lists `parts[w]` (any split, any order inside a list) -/
theorem par_collect_partition {β : Type} (f : Nat → β) (n : Nat) (parts : List (List Nat))
    (hp : parts.flatten.Perm (List.range n)) :
    parCollect f n (schedOfParts 0 parts) = ok ((List.range n).map f) :=
  par_collect_schedule_independent f n _ (by unfold ValidSched; rw [schedOfParts_cols]; exact hp)

/-- an index that no task takes is detected: if the schedule hands out distinct indices of `0..n` but misses `j`, rayon's
write-count check panics (the model's `readSlots`) rather than returning a vector with a stale / uninitialised slot -/
theorem par_collect_lost_index_panics {β : Type} (f : Nat → β) (n : Nat) (sched : List (Nat × Nat))
    (hnd : (sched.map (·.2)).Nodup) (hlt : ∀ e ∈ sched, e.2 < n) (j : Nat) (hj : j < n) (hmiss : j ∉ sched.map (·.2)) :
    parCollect f n sched = panic := by
  obtain ⟨slots, hr, hlost⟩ := runEvents_missing f n sched hnd hlt j hj hmiss
  unfold parCollect parCollectSt
  rw [hr]
  exact readSlots_none _ hlost

/-- `compute_schur`: the `multithread` branch under every valid schedule of the columns equals the sequential branch
(both with the closure translated from the source) -/
theorem compute_schur_par_eq_seq {α : Type} [C12.Scal α] (X C D : C12.SpMat α) (sched : List (Nat × Nat))
    (hs : ValidSched D.ncols sched) :
    computeSchurPar X C D sched = GenSchur.Schur.compute_schur X C D := by
  unfold computeSchurPar
  rw [show (SM.shape D).2 = D.ncols from rfl, par_collect_schedule_independent _ _ sched hs]
  simp [GenSchur.Schur.compute_schur, List.range_eq_range']

/-- … and hence the hand model `C12.computeSchur`, about which `Props/C12.lean` proves `S = D − C·A⁻¹·B` -/
theorem compute_schur_par_eq_model {α : Type} [C12.Scal α] (X C D : C12.SpMat α) (h : D.nrows ≤ C.nrows)
    (sched : List (Nat × Nat)) (hs : ValidSched D.ncols sched) :
    computeSchurPar X C D sched = ok (C12.computeSchur X C D) := by
  rw [compute_schur_par_eq_seq X C D sched hs, gen_compute_schur_eq_model X C D h]

/-! ### non-vacuity, and why the state hypothesis is needed -/

/-- three workers, indices out of order -/
example : ValidSched 4 [(1, 2), (0, 0), (1, 3), (2, 1)] := by decide

example : parCollect (fun j => 10 * j) 4 [(1, 2), (0, 0), (1, 3), (2, 1)] = ok [0, 10, 20, 30] := by decide

/-- a schedule that loses index 1 panics -/
example : parCollect (fun j => 10 * j) 3 [(1, 2), (0, 0)] = panic := by decide

/-- a column function with a STALE private accumulator (`acc` is not reset between columns: the value for `j` is
`acc + j`): two valid schedules disagree, so schedule independence really needs the invariant of
`par_collect_state_does_not_leak` — a stale-buffer bug makes that hypothesis unprovable, not the theorem vacuous -/
theorem stale_state_counterexample :
    ValidSched 2 [(0, 0), (0, 1)] ∧ ValidSched 2 [(0, 1), (0, 0)] ∧
    parCollectSt (fun (acc : Nat) j => (acc + j + 1, acc + j)) 0 2 [(0, 0), (0, 1)] ≠
    parCollectSt (fun (acc : Nat) j => (acc + j + 1, acc + j)) 0 2 [(0, 1), (0, 0)] := by decide

end Yuiv.C12Par
