import Yuiv.Proofs.C13GenT
/-
C13 — the hand-written model of `Trans` (`C13.Trans.*` in `Yuiv/Model/C13.lean`), about which `Props/C13.lean` proves the
composition laws over any history (`trans_forward_eq_forward_mat`, `trans_forward_mat_is_product`, `trans_reduce_preserves`,
`trans_append_dims`, `trans_merge_dims`, …), IS the source text of `/repo/yui-matrix/src/sparse/trans.rs`.

`Yuiv.GenTrans.*` (file `Yuiv/Gen/TransFn.lean`) is regenerated from the Rust source by `tools/rs2lean_fn.py fn:trans` on
every `./check` run.  `ofT` embeds a model transform into the generated structure; every theorem is an unconditional
equality generated = model — in particular the composition ORDER (`forward` folds `f_mats` front to back, `backward`
folds `b_mats` back to front, `forward_mat = id·f_k·…·f_0` built as `res * f` over the reversed list, `backward_mat` as
`b * res`), the single-factor shortcut, and every `assert_eq!` / product-shape panic.

Property theorems only; helpers are in `Yuiv/Proofs/C13GenT.lean`.
-/
set_option linter.unusedSimpArgs false
set_option linter.unusedSectionVars false
namespace Yuiv.C13GenT
open Yuiv Res Yuiv.Rust Yuiv.C13

variable {R : Type} [Zero R] [One R] [Add R] [Mul R] [Neg R] [DecidableEq R]

theorem gen_id_eq (n : Nat) : GenTrans.Trans.id (R := R) n = ofT (Trans.id n) := rfl
theorem gen_zero_eq : GenTrans.Trans.zero (R := R) = ofT (Trans.id 0) := rfl
theorem gen_default_eq : GenTrans.Trans.Default.default (R := R) = ofT (Trans.id 0) := rfl
theorem gen_dims_eq (t : Trans R) :
    GenTrans.Trans.src_dim (ofT t) = t.srcDim ∧ GenTrans.Trans.tgt_dim (ofT t) = t.tgtDim := ⟨rfl, rfl⟩
theorem gen_is_id_eq (t : Trans R) : GenTrans.Trans.is_id (ofT t) = t.isId := rfl

theorem gen_append_eq (t : Trans R) (f b : SpMat R) :
    GenTrans.Trans.append (ofT t) f b = mapR ofT (t.append f b) := by
  unfold GenTrans.Trans.append C13.Trans.append
  rw [mapR_bind]
  refine bind_congr' _ (fun _ => ?_)
  rw [mapR_bind]
  refine bind_congr' _ (fun _ => ?_)
  rw [mapR_bind]
  refine bind_congr' _ (fun _ => ?_)
  rfl

theorem gen_new_eq (f b : SpMat R) : GenTrans.Trans.new f b = mapR ofT (Trans.new f b) := by
  unfold GenTrans.Trans.new C13.Trans.new
  exact gen_append_eq (Trans.id f.ncols) f b

theorem gen_append_perm_eq (t : Trans R) (p : Perm) :
    GenTrans.Trans.append_perm (ofT t) p = mapR ofT (t.appendPerm p) := by
  unfold GenTrans.Trans.append_perm C13.Trans.appendPerm
  rw [mapR_bind]
  refine bind_congr' _ (fun _ => ?_)
  rw [mapR_bind]
  refine bind_congr' _ (fun f => ?_)
  rw [mapR_bind]
  refine bind_congr' _ (fun b => ?_)
  exact gen_append_eq t f b

theorem gen_merge_eq (t o : Trans R) : GenTrans.Trans.merge (ofT t) (ofT o) = mapR ofT (t.merge o) := by
  unfold GenTrans.Trans.merge C13.Trans.merge
  rw [mapR_bind]
  refine bind_congr' _ (fun _ => ?_)
  rfl

theorem gen_merged_eq (t o : Trans R) : GenTrans.Trans.merged (ofT t) (ofT o) = mapR ofT (t.merge o) := by
  unfold GenTrans.Trans.merged
  exact gen_merge_eq t o

/-- `forward`: `f_mats` folded front to back, `v ↦ f * v` -/
theorem gen_forward_eq (t : Trans R) (v : SpVec R) : GenTrans.Trans.forward (ofT t) v = t.forward v := by
  unfold GenTrans.Trans.forward C13.Trans.forward
  have e : (ofT t).src_dim = t.srcDim := rfl
  by_cases h : v.dim = t.srcDim
  · have d1 : decide (v.dim = t.srcDim) = true := by simp [h]
    have d2 : decide (t.srcDim = v.dim) = true := by simp [h]
    simp only [e, d1, d2, assert_true, bind_ok]; rfl
  · have d1 : decide (v.dim = t.srcDim) = false := by simp [h]
    have d2 : decide (t.srcDim = v.dim) = false := decide_eq_false (fun x => h x.symm)
    simp only [e, d1, d2, assert_false]; rfl

/-- `backward`: `b_mats` folded back to front -/
theorem gen_backward_eq (t : Trans R) (v : SpVec R) : GenTrans.Trans.backward (ofT t) v = t.backward v := by
  unfold GenTrans.Trans.backward C13.Trans.backward
  have e : (ofT t).tgt_dim = t.tgtDim := rfl
  by_cases h : v.dim = t.tgtDim
  · have d1 : decide (v.dim = t.tgtDim) = true := by simp [h]
    have d2 : decide (t.tgtDim = v.dim) = true := by simp [h]
    simp only [e, d1, d2, assert_true, bind_ok]; rfl
  · have d1 : decide (v.dim = t.tgtDim) = false := by simp [h]
    have d2 : decide (t.tgtDim = v.dim) = false := decide_eq_false (fun x => h x.symm)
    simp only [e, d1, d2, assert_false]; rfl

theorem gen_forward_mat_eq (t : Trans R) : GenTrans.Trans.forward_mat (ofT t) = t.forwardMat := by
  unfold GenTrans.Trans.forward_mat C13.Trans.forwardMat
  exact single_or t.fMats (fun fs => List.foldlM (fun res f => res.mul f) (SpMat.id t.tgtDim) fs.reverse)

theorem gen_backward_mat_eq (t : Trans R) : GenTrans.Trans.backward_mat (ofT t) = t.backwardMat := by
  unfold GenTrans.Trans.backward_mat C13.Trans.backwardMat
  exact single_or t.bMats (fun bs => List.foldlM (fun res b => b.mul res) (SpMat.id t.tgtDim) bs.reverse)

theorem gen_reduce_eq (t : Trans R) : GenTrans.Trans.reduce (ofT t) = mapR ofT t.reduce := by
  unfold GenTrans.Trans.reduce C13.Trans.reduce C13.Trans.reduceF
  have hb : ∀ t1 : Trans R, (if decide ((ofT t1).b_mats.length > 1) = true then
        (GenTrans.Trans.backward_mat (ofT t1) >>= fun b => ok { ofT t1 with b_mats := [b] }) else ok (ofT t1)) =
      mapR ofT t1.reduceB := by
    intro t1
    unfold C13.Trans.reduceB
    rw [gen_backward_mat_eq]
    by_cases h : t1.bMats.length > 1
    · have h' : (ofT t1).b_mats.length > 1 := h
      simp only [h, h', decide_true, if_true, mapR_bind]
      refine bind_congr' _ (fun b => ?_)
      rfl
    · have h' : ¬ (ofT t1).b_mats.length > 1 := h
      simp only [h, h', decide_false, if_false, Bool.false_eq_true]
      rfl
  rw [gen_forward_mat_eq]
  by_cases h : t.fMats.length > 1
  · have h' : (ofT t).f_mats.length > 1 := h
    simp only [h, h', decide_true, if_true, bind_assoc', mapR_bind]
    refine bind_congr' _ (fun f => ?_)
    simp only [bind_ok, pure_eq_ok]
    exact hb { t with fMats := [f] }
  · have h' : ¬ (ofT t).f_mats.length > 1 := h
    simp only [h, h', decide_false, if_false, Bool.false_eq_true, bind_ok, pure_eq_ok]
    exact hb t

theorem gen_sub_eq (t : Trans R) (indices : List Nat) :
    GenTrans.Trans.sub (ofT t) indices = mapR ofT (t.sub indices) := by
  unfold GenTrans.Trans.sub C13.Trans.sub
  simp only [Sp.enumerate, enum_eq]
  have h1 : GenTrans.Trans.sub_closure1 (R := R) = fun (x : Nat × Nat) => (x.1, x.2, (1 : R)) := by funext x; rfl
  have h2 : GenTrans.Trans.sub_closure2 (R := R) = fun (x : Nat × Nat) => (x.2, x.1, (1 : R)) := by funext x; rfl
  rw [h1, h2, mapR_bind]
  refine bind_congr' _ (fun f => ?_)
  rw [mapR_bind]
  refine bind_congr' _ (fun b => ?_)
  exact gen_append_eq t f b

end Yuiv.C13GenT
