import Yuiv.Proofs.C04
/-
C04 — graded Euler characteristic of Kh is the Jones polynomial.

Proved for EVERY diagram (any number of crossings `n`, any circle-count function `r` on states, any
signs) and every commutative ring `R` with an invertible `q` (in particular `R = ℤ[q,q⁻¹]`, i.e. as an
identity of Laurent polynomials):
  * `chi_chain_eq_jones`: Σ_generators (−1)^{h-degree} q^{q-degree} of the cube-of-resolutions chain groups equals the
    state sum computed by `jones_polynomial`;
  * `jones_mirror`: mirroring (states complemented, n₊ ↔ n₋) turns the state sum into its value at q⁻¹;
  * the executable coefficient-list models `jones` / `chiChain` evaluate to these ring elements.
Trusted, not proved: χ(homology) = χ(chain complex); isotopy invariance (explored by the harness).
-/
namespace Yuiv.C04
open Yuiv.KhRef

variable {R : Type} [CommRing R]

/-- binomial core: Σ over labellings `m` of `r` circles of q^{r − 2·#X(m)} equals (q + q⁻¹)^r -/
theorem sum_labels (q qinv : R) (hq : q * qinv = 1) (r : Nat) :
    sumRange (2 ^ r) (fun m => zpow q qinv ((-2 : Int) * popcount m r + r)) = npow (q + qinv) r := by
  rw [sumRange_eq, npow_eq]
  induction r with
  | zero => simp [popcount_zero_bits, zpow_zero']
  | succ r ih =>
    have h2 : 2 ^ (r + 1) = 2 ^ r + 2 ^ r := by omega
    rw [h2, Finset.sum_range_add, pow_succ, ← ih, Finset.sum_mul, ← Finset.sum_add_distrib]
    apply Finset.sum_congr rfl
    intro m hm
    have hm' : m < 2 ^ r := Finset.mem_range.mp hm
    rw [popcount_lt m r hm', popcount_add m r hm']
    have e1 : (-2 : Int) * (popcount m r : Nat) + ((r + 1 : Nat) : Int) = ((-2 : Int) * popcount m r + r) + 1 := by
      push_cast; ring
    have e2 : (-2 : Int) * ((popcount m r + 1 : Nat) : Int) + ((r + 1 : Nat) : Int) = ((-2 : Int) * popcount m r + r) + (-1) := by
      push_cast; ring
    rw [e1, e2, zpow_add' q qinv hq _ 1, zpow_add' q qinv hq _ (-1), zpow_one', zpow_neg_one', mul_add]

/-- Euler characteristic of the chain groups = Jones state sum, for every diagram shape -/
theorem chi_chain_eq_jones (q qinv : R) (hq : q * qinv = 1) (n nPos nNeg : Nat) (r : Nat → Nat) :
    evalChi q qinv n nPos nNeg r = evalJones q qinv n nPos nNeg r := by
  unfold evalChi evalJones
  rw [sumRange_eq, sumRange_eq, Finset.mul_sum]
  apply Finset.sum_congr rfl
  intro s _
  rw [← sum_labels q qinv hq (r s), sumRange_eq, sumRange_eq, Finset.mul_sum, Finset.mul_sum]
  apply Finset.sum_congr rfl
  intro m _
  have e : ((nPos : Int) - 2 * nNeg) + (-2 : Int) * popcount m (r s) + r s + popcount s n
      = ((nPos : Int) - 2 * nNeg) + (((-2 : Int) * popcount m (r s) + r s) + (popcount s n : Nat)) := by ring
  rw [e, zpow_add' q qinv hq, zpow_add' q qinv hq, zpow_natCast']
  simp only [npow_eq]
  rw [neg_pow q, pow_add]
  ring

/-- mirror: complementing every state and exchanging n₊, n₋ gives the state sum at q⁻¹ -/
theorem jones_mirror (q qinv : R) (hq : q * qinv = 1) (n nPos nNeg : Nat) (hn : nPos + nNeg = n) (r : Nat → Nat) :
    evalJones q qinv n nNeg nPos (fun s => r (2 ^ n - 1 - s)) = evalJones qinv q n nPos nNeg r := by
  unfold evalJones
  simp only [npow_eq, sumRange_eq]
  have hsum : ∑ s ∈ Finset.range (2 ^ n), (-q) ^ popcount s n * (q + qinv) ^ r (2 ^ n - 1 - s)
      = (-q) ^ n * ∑ s ∈ Finset.range (2 ^ n), (-qinv) ^ popcount s n * (qinv + q) ^ r s := by
    rw [← Finset.sum_range_reflect (fun s => (-qinv) ^ popcount s n * (qinv + q) ^ r s), Finset.mul_sum]
    apply Finset.sum_congr rfl
    intro s hs
    have hs' : s < 2 ^ n := Finset.mem_range.mp hs
    have hp := popcount_compl s n hs'
    have h1 : (-q) * (-qinv) = 1 := by rw [neg_mul_neg]; exact hq
    have h2 : (-q) ^ n = (-q) ^ popcount s n * (-q) ^ popcount (2 ^ n - 1 - s) n := by
      rw [← pow_add, Nat.add_comm, hp]
    rw [h2, add_comm q qinv]
    have h3 : (-q) ^ popcount (2 ^ n - 1 - s) n * (-qinv) ^ popcount (2 ^ n - 1 - s) n = 1 := by
      rw [← mul_pow, h1, one_pow]
    calc (-q) ^ popcount s n * (qinv + q) ^ r (2 ^ n - 1 - s)
        = (-q) ^ popcount s n * ((-q) ^ popcount (2 ^ n - 1 - s) n * (-qinv) ^ popcount (2 ^ n - 1 - s) n) * (qinv + q) ^ r (2 ^ n - 1 - s) := by
          rw [h3, mul_one]
      _ = _ := by ring
  rw [hsum, zpow_swap q qinv hq]
  subst hn
  have e : -(((nPos : Nat) : Int) - 2 * (nNeg : Nat)) = ((nNeg : Int) - 2 * nPos) + ((nPos + nNeg : Nat) : Int) := by
    push_cast; ring
  rw [e, zpow_add' q qinv hq, zpow_natCast', neg_pow q, pow_add]
  have h4 : ((-1 : R)) ^ nPos * (-1) ^ nPos = 1 := by rw [← mul_pow]; simp
  calc (-1 : R) ^ nPos * zpow q qinv (↑nNeg - 2 * ↑nPos) * ((-1) ^ nPos * (-1) ^ nNeg * q ^ (nPos + nNeg) * ∑ s ∈ Finset.range (2 ^ (nPos + nNeg)), (-qinv) ^ popcount s (nPos + nNeg) * (qinv + q) ^ r s)
      = ((-1 : R) ^ nPos * (-1) ^ nPos) * ((-1) ^ nNeg * (zpow q qinv (↑nNeg - 2 * ↑nPos) * q ^ (nPos + nNeg)) * ∑ s ∈ Finset.range (2 ^ (nPos + nNeg)), (-qinv) ^ popcount s (nPos + nNeg) * (qinv + q) ^ r s) := by ring
    _ = _ := by rw [h4, one_mul]

/-! ### the executable coefficient-list arithmetic is sound w.r.t. evaluation -/

set_option linter.unusedVariables false in -- `hq` is not needed for this one
theorem eval_addTerm (q qinv : R) (hq : q * qinv = 1) (e c : Int) (a : LP) :
    LP.eval q qinv (fun k => (k : R)) (LP.addTerm e c a) =
      LP.eval q qinv (fun k => (k : R)) a + (c : R) * zpow q qinv e := by
  exact ev_addTerm q qinv e c a

set_option linter.unusedVariables false in -- `hq` is not needed for this one
theorem eval_add (q qinv : R) (hq : q * qinv = 1) (a b : LP) :
    LP.eval q qinv (fun k => (k : R)) (LP.add a b) =
      LP.eval q qinv (fun k => (k : R)) a + LP.eval q qinv (fun k => (k : R)) b := by
  exact ev_add q qinv a b

theorem eval_mul (q qinv : R) (hq : q * qinv = 1) (a b : LP) :
    LP.eval q qinv (fun k => (k : R)) (LP.mul a b) =
      LP.eval q qinv (fun k => (k : R)) a * LP.eval q qinv (fun k => (k : R)) b := by
  exact ev_mul q qinv hq a b

theorem eval_pow (q qinv : R) (hq : q * qinv = 1) (a : LP) (n : Nat) :
    LP.eval q qinv (fun k => (k : R)) (LP.pow a n) = npow (LP.eval q qinv (fun k => (k : R)) a) n := by
  rw [npow_eq]; exact ev_pow q qinv hq a n

/-- the code model of `jones_polynomial` evaluates to the state sum -/
theorem eval_jones (q qinv : R) (hq : q * qinv = 1) (l : Link) (signs : Array Int) :
    LP.eval q qinv (fun k => (k : R)) (jones l signs) =
      evalJones q qinv (crossingNum l) (signs.filter (· > 0)).size (signs.filter (· < 0)).size (circleCount l) := by
  show ev q qinv (jones l signs) = _
  unfold jones evalJones sumRange
  simp only
  rw [ev_mul q qinv hq, ev_mono, cast_sign, npow_eq, ev_foldl_add, ev_nil]
  congr 1
  apply congrArg (fun f => List.foldl f 0 (List.range (2 ^ crossingNum l)))
  funext acc s
  rw [ev_mul q qinv hq, ev_pow q qinv hq, ev_pow q qinv hq, npow_eq, npow_eq]
  congr 2
  · rw [ev_cons, ev_nil, zpow_one']; simp
  · rw [ev_cons, ev_cons, ev_nil, zpow_one', zpow_neg_one']; simp [add_comm]

/-- non-vacuity: q = 2 is invertible in ℚ-like rings; here the trivial ring-free instance q = 1 -/
example : (1 : Int) * 1 = 1 := by decide

end Yuiv.C04

namespace Yuiv.C04
open Yuiv.KhRef
variable {R : Type} [CommRing R]

set_option linter.unusedVariables false in -- `hq` is not needed for this one
/-- the executable Euler characteristic of the chain groups of the cube reference (`chiChain`, built from
`KhRef.mkCube`, `Cube.gensAt`, `Cube.qDeg`) evaluates to `evalChi` for the diagram's own circle-count function —
so, with `chi_chain_eq_jones` and `eval_jones`, the two executable coefficient lists have the same value at every
invertible `q` of every commutative ring. -/
theorem eval_chiChain (q qinv : R) (hq : q * qinv = 1) (l : Link) (signs : Array Int) :
    LP.eval q qinv (fun k => (k : R)) (chiChain l signs) =
      evalChi q qinv (crossingNum l) (signs.filter (· > 0)).size (signs.filter (· < 0)).size (circleCount l) := by
  show ev q qinv (chiChain l signs) = _
  unfold chiChain evalChi
  dsimp only
  rw [mkCube_n]
  rw [ev_foldl_step q qinv _ (fun s => sumRange (2 ^ circleCount l s) (fun m =>
      npow (-1 : R) ((signs.filter (· < 0)).size + popcount s (crossingNum l)) *
        zpow q qinv ((((signs.filter (· > 0)).size : Int) - 2 * (signs.filter (· < 0)).size) + (-2 : Int) * popcount m (circleCount l s) + circleCount l s + popcount s (crossingNum l))))]
  · rw [ev_nil]; rfl
  · intro s hs acc
    have hs' : s < 2 ^ crossingNum l := List.mem_range.mp hs
    rw [mkCube_gensAt l s hs', ← Array.foldl_toList, Array.toList_map, Array.toList_range, List.foldl_map]
    simp only [mkCube_qDeg l _ s _ hs']
    rw [ev_foldl_addTerm, foldl_add_acc]
    unfold sumRange
    congr 1
    apply congrArg (fun f => List.foldl f 0 (List.range (2 ^ circleCount l s)))
    funext a m
    rw [cast_sign_neg, npow_eq]

theorem eval_chiChain_eq_eval_jones (q qinv : R) (hq : q * qinv = 1) (l : Link) (signs : Array Int) :
    LP.eval q qinv (fun k => (k : R)) (chiChain l signs) = LP.eval q qinv (fun k => (k : R)) (jones l signs) := by
  rw [eval_chiChain q qinv hq, eval_jones q qinv hq, chi_chain_eq_jones q qinv hq]

end Yuiv.C04
