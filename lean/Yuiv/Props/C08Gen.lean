import Yuiv.Proofs.C08Gen
import Yuiv.Model.C12Rings
/-
C08 — the hand-written sparse code model of `Schur::from_partial_triangular` (`C12.schur`, `C12.computeSchur` in
`Yuiv/Model/C12.lean`; `Props/C12.lean` proves `schur_complement_correct` and `schur_transfer_maps_correct` about it, and
`Props/C08*` use the resulting block identities) IS the source text of `/repo/yui-matrix/src/sparse/schur.rs`.

`Yuiv.GenSchur.*` (file `Yuiv/Gen/SchurFn.lean`) is regenerated from the Rust source by `tools/rs2lean_fn.py fn:schur` on
every `./check` run.  The functions of other files that schur.rs calls are the model's (through `Yuiv/Model/RustCsc.lean`);
what these theorems pin down is schur.rs's own text: the two range asserts, which block goes where, the order of the two
triangular solves and their arguments, the signs, `[-a⁻¹b; 1]` stacked vs `[-ca⁻¹, 1]` extended, the `incl` / `proj`
index arithmetic, which factor is forward / backward in each `Trans::new`, and the `with_trans` flag.
The only hypothesis is `isZero one = false` (`from_entries` drops zero values; `incl` / `proj` store `one`).

Property theorems only; helpers are in `Yuiv/Proofs/C08Gen.lean`.
-/
set_option linter.unusedSimpArgs false
set_option linter.unusedSectionVars false
namespace Yuiv.C08Gen
open Yuiv Res Yuiv.Rust Yuiv.C12

variable {α : Type} [Scal α]

theorem gen_accessors_eq (o : SchurOut α) :
    GenSchur.Schur.complement (toS o) = o.s ∧ GenSchur.Schur.trans_src (toS o) = o.src ∧
    GenSchur.Schur.trans_tgt (toS o) = o.tgt ∧ GenSchur.Schur.disassemble (toS o) = (o.s, o.src, o.tgt) :=
  ⟨rfl, rfl, rfl, rfl⟩

/-- `compute_schur`: column `j` is `d.col_vec(j) - c * ainvb.col_vec(j)` -/
theorem gen_compute_schur_eq (X C D : SpMat α) (h : D.nrows ≤ C.nrows) :
    GenSchur.Schur.compute_schur X C D = ok (computeSchur X C D) := by
  unfold GenSchur.Schur.compute_schur computeSchur SM.from_col_vecs
  simp only [SM.shape, Nat.sub_zero]
  have hd : ∀ j, (GenSchur.Schur.compute_schur_closure1 X C D j).dim = D.nrows := fun j => rfl
  have hall : (List.map (GenSchur.Schur.compute_schur_closure1 X C D) (List.range' 0 D.ncols)).all (fun v => v.dim == D.nrows) = true := by
    simp [hd]
  rw [if_pos hall]
  simp only [List.length_map, List.length_range', List.map_map, List.range_eq_range']
  congr 3
  apply List.map_congr_left
  intro j _
  show (SVec.sub (SM.col_vec D j) (SM.mul_vec C (SM.col_vec X j))).ents = _
  unfold SVec.sub SM.col_vec SM.mul_vec
  simp only [List.range_eq_range']
  apply List.map_congr_left
  intro i hi
  have hi' : i < C.nrows := by simp at hi; omega
  simp only [SVec.valAt, ← List.range_eq_range', find_dense _ _ _ hi']

/-- `from_partial_triangular(t, abcd, r, with_trans)`; `t` is `is_upper` -/
theorem gen_from_partial_triangular_eq (hone : isZero (one : α) = false) (upper : Bool) (M : SpMat α) (r : Nat)
    (withTrans : Bool) :
    GenSchur.Schur.from_partial_triangular upper M r withTrans = mapR toS (schur upper M r withTrans) := by
  unfold GenSchur.Schur.from_partial_triangular schur
  by_cases hm : r ≤ M.nrows
  · by_cases hn : r ≤ M.ncols
    · have hm' : ¬ M.nrows < r := by omega
      have hn' : ¬ M.ncols < r := by omega
      simp only [hm, hn, hm', hn', decide_true, assert_true, bind_ok, if_false, SM.shape, SM.divide4, and_self, if_true,
        SM.solve_triangular]
      have sa : (divide4 M r r).1.nrows = r ∧ (divide4 M r r).1.ncols = r := ⟨rfl, rfl⟩
      have sb : (divide4 M r r).2.1.nrows = r ∧ (divide4 M r r).2.1.ncols = M.ncols - r := ⟨rfl, rfl⟩
      have sc : (divide4 M r r).2.2.1.nrows = M.nrows - r ∧ (divide4 M r r).2.2.1.ncols = r := ⟨rfl, rfl⟩
      have sd : (divide4 M r r).2.2.2.nrows = M.nrows - r ∧ (divide4 M r r).2.2.2.ncols = M.ncols - r := ⟨rfl, rfl⟩
      generalize divide4 M r r = D at *
      obtain ⟨a, b, c, d⟩ := D
      simp only at sa sb sc sd ⊢
      cases hs : solve upper a b with
      | panic => rfl
      | err => rfl
      | ok X =>
        have hX := solve_shape hs
        have hcs := gen_compute_schur_eq X c d (by rw [sd.1, sc.1]; exact Nat.le_refl _)
        simp only [bind_ok, hcs]
        cases withTrans with
        | false => rfl
        | true =>
          have hsubn : U64.sub M.ncols r = ok (M.ncols - r) := by simp [U64.sub, hn]
          have hsubm : U64.sub M.nrows r = ok (M.nrows - r) := by simp [U64.sub, hm]
          have hmap1 := mapM_range (GenSchur.Schur.from_partial_triangular_closure1 (α := α) M.ncols (M.ncols - r))
            (fun i => (i, M.ncols - (M.ncols - r) + i, (one : α))) (M.ncols - r) 0 (fun i _ _ => by
              unfold GenSchur.Schur.from_partial_triangular_closure1
              simp [U64.sub])
          have hmap2 := mapM_range (GenSchur.Schur.from_partial_triangular_closure2 (α := α) M.nrows (M.nrows - r))
            (fun i => (M.nrows - (M.nrows - r) + i, i, (one : α))) (M.nrows - r) 0 (fun i _ _ => by
              unfold GenSchur.Schur.from_partial_triangular_closure2
              simp [U64.sub])
          have hproj := proj_eq hone M.ncols (M.ncols - r) (Nat.sub_le _ _)
          have hincl := incl_eq hone M.nrows (M.nrows - r) (Nat.sub_le _ _)
          have hstack : SM.stack (SM.neg X) (SM.id (M.ncols - r) : SpMat α) = ok (stack (negMat X) (idMat (M.ncols - r))) := by
            unfold SM.stack
            rw [if_pos]; rfl
            show X.ncols = M.ncols - r
            rw [hX.2, sb.2]
          have hnew1 := trnew_ok (proj M.ncols (M.ncols - r) : SpMat α) (stack (negMat X) (idMat (M.ncols - r)))
            (by show M.ncols = X.nrows + (M.ncols - r); rw [hX.1, sa.1]; omega)
            (by show M.ncols - r = X.ncols; rw [hX.2, sb.2])
          simp only [if_true, hsubn, hsubm, bind_ok, Nat.sub_zero, hmap1, hproj, hstack, hnew1, SM.solve_triangular_left,
            Bool.not_true, Bool.false_eq_true, if_false]
          cases hw : solveLeft upper a c with
          | panic => rfl
          | err => rfl
          | ok w =>
            have hW := solveLeft_shape hw
            simp only [bind_ok, SM.extend_cols, SM.neg, SM.id]
            cases hf : extendCols (negMat w) (idMat (M.nrows - r)) with
            | panic => rfl
            | err => rfl
            | ok ft =>
              have hF := extendCols_shape hf
              have hnew2 := trnew_ok ft (incl M.nrows (M.nrows - r) : SpMat α)
                (by rw [hF.2]; show w.ncols + (M.nrows - r) = M.nrows; rw [hW.2, sa.2]; omega)
                (by rw [hF.1]; show w.nrows = M.nrows - r; rw [hW.1, sc.1])
              simp only [bind_ok, hmap2, hincl, hnew2]
              rfl
    · have hn' : M.ncols < r := by omega
      have hm' : ¬ M.nrows < r := by omega
      simp [hm, hn, hm', hn', assert_true, assert_false, mapR]
  · have hm' : M.nrows < r := by omega
    simp [hm, hm', assert_false, mapR]

/-! ### the hypothesis is satisfiable: the scalar models of the harness have `1 ≠ 0` -/

example : isZero (one : Int) = false := by decide
example : isZero (one : Fin 5) = false := by decide

end Yuiv.C08Gen
