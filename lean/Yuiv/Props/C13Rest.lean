import Yuiv.Proofs.C13Rest
/-
C13 — the remaining small routines of the code model `Yuiv/Model/C13.lean` (property theorems only; helpers in
`Yuiv/Proofs/C13Rest.lean`).  As in `Props/C13`: `R` is an arbitrary commutative ring with decidable equality,
`A.entry i j` / `v.entry i` is what `into_dense` reads (the sum of the stored values at that position, so
explicitly stored zeros are allowed), `A.WF` / `v.WF` is well-formed CSC data (every `SpMat` / `SpVec` value has it).

* dense `Mat::{diag, is_zero, is_id, is_diag}` (`dense/mat.rs:57-90`): `iter()` visits every position of the
  `DMatrix`, so the predicates mean exactly the mathematical statement; `is_id` demands a square shape (`mat.rs:70`),
  `is_diag` and `is_zero` do not; `diag` panics iff more entries than `min(m, n)` are given (`mat[(i, i)] = a`).
* sparse `SpMat::is_zero` (`sp_mat.rs:48-51`) and `SpVec::is_zero` (`sp_vec.rs:41-44`) test the *stored values*
  only; because a well-formed column stores every row at most once this is equivalent to "every entry is zero",
  whether or not zeros are stored explicitly.
* `SpVec` `+ − neg` (`sp_vec.rs:219-250`, nalgebra's kernels on the one-column matrix, then `SpVec::new`) and
  `SpVec::unit` (`sp_vec.rs:46-56`, `try_from_csc_data(..).unwrap()` panics iff `i ≥ n`).
* `util::perm_for_indices` (`util.rs:1-22`): the call returns iff the indices are pairwise distinct and below `n`;
  an out-of-range index trips `assert!(i < n)`, a repeated in-range index makes `vec` longer than `n`, the last
  position written into `inv` is then `≥ n` and `PermOwned::new` panics in `assert!(perm_is_valid(..))`.
  The accepted permutation puts the listed indices first (in order) and the others after them in increasing order.
* the ad-hoc closures which the driver / harness hand to `extract` (`x0` swap, `x1` fold modulo a shape, `x2` even
  rows; `vx1`, `vx2` for vectors).
-/
namespace Yuiv.C13
open Yuiv Res

variable {R : Type} [CommRing R] [DecidableEq R]

/-! ### dense: `diag`, `is_zero`, `is_id`, `is_diag` -/

/-- `Mat::diag((m, n), es)` with at most `min(m, n)` entries: an `m × n` matrix with `es[i]` at `(i, i)`
(zero on the rest of the diagonal) and zero off the diagonal -/
theorem dense_diag_entries (m n : Nat) (es : List R) (hm : es.length ≤ m) (hn : es.length ≤ n) :
    ∃ A, DMat.diag m n es = ok A ∧ A.nrows = m ∧ A.ncols = n ∧
      ∀ i j, i < m → j < n → A.get i j = if i = j then es.getD i 0 else 0 :=
  ddiag_ok m n es hm hn

/-- `Mat::diag` returns iff there are at most `min(m, n)` entries; otherwise `mat[(i, i)] = a` panics -/
theorem dense_diag_defined (m n : Nat) (es : List R) :
    ((∃ A, DMat.diag m n es = ok A) ↔ es.length ≤ m ∧ es.length ≤ n) ∧
      (¬ (es.length ≤ m ∧ es.length ≤ n) → DMat.diag m n es = panic) := by
  refine ⟨⟨?_, ?_⟩, ddiag_panic m n es⟩
  · rintro ⟨A, hA⟩
    by_contra hc
    rw [ddiag_panic m n es hc] at hA; cases hA
  · rintro ⟨hm, hn⟩
    obtain ⟨A, hA, _⟩ := ddiag_ok m n es hm hn
    exact ⟨A, hA⟩

/-- what `diag` returns passes `is_diag` -/
theorem dense_diag_is_diag (m n : Nat) (es : List R) (A : DMat R) (h : DMat.diag m n es = ok A) :
    A.isDiag = true := by
  by_cases hc : es.length ≤ m ∧ es.length ≤ n
  · obtain ⟨B, hB, h1, h2, h3⟩ := ddiag_ok m n es hc.1 hc.2
    rw [h] at hB; cases hB
    rw [disDiag_iff]
    intro i j hi hj hij
    rw [h3 i j (h1 ▸ hi) (h2 ▸ hj), if_neg hij]
  · rw [ddiag_panic m n es hc] at h; cases h

/-- `Mat::is_zero` ⇔ every entry is zero -/
theorem dense_is_zero_iff (A : DMat R) :
    A.isZero = true ↔ ∀ i j, i < A.nrows → j < A.ncols → A.get i j = 0 := disZero_iff A

/-- `Mat::is_id` ⇔ the matrix is square and its entries are those of the identity matrix -/
theorem dense_is_id_iff (A : DMat R) :
    A.isId = true ↔ A.nrows = A.ncols ∧
      ∀ i j, i < A.nrows → j < A.ncols → A.get i j = if i = j then 1 else 0 := disId_iff A

/-- `Mat::is_diag` ⇔ every off-diagonal entry is zero (any shape: no squareness is required by the code) -/
theorem dense_is_diag_iff (A : DMat R) :
    A.isDiag = true ↔ ∀ i j, i < A.nrows → j < A.ncols → i ≠ j → A.get i j = 0 := disDiag_iff A

/-! ### sparse `is_zero`: explicitly stored zeros do not matter -/

/-- `SpMat::is_zero` ⇔ every entry is zero, for well-formed CSC data with or without stored zeros -/
theorem sparse_is_zero_iff (A : SpMat R) (hA : A.WF) : A.isZero = true ↔ ∀ i j, A.entry i j = 0 :=
  isZero_iff A hA

/-- the direction that needs no well-formedness: `is_zero` never accepts a matrix with a non-zero entry -/
theorem sparse_is_zero_sound (A : SpMat R) (h : A.isZero = true) (i j : Nat) : A.entry i j = 0 :=
  isZero_entries A h i j

/-- `SpVec::is_zero` ⇔ every entry is zero -/
theorem spvec_is_zero_iff (v : SpVec R) (hv : v.WF) : v.isZero = true ↔ ∀ i, v.entry i = 0 :=
  visZero_iff v hv

/-! ### `SpVec` `+ − neg unit` -/

/-- `&v + &w` for equal dimensions: entrywise sum -/
theorem spvec_add_entries (v w : SpVec R) (hv : v.WF) (hw : w.WF) (hd : v.dim = w.dim) :
    ∃ u, v.add w = ok u ∧ u.dim = v.dim ∧ u.WF ∧ ∀ i, u.entry i = v.entry i + w.entry i :=
  vadd_spec v w hv hw hd

/-- `&v + &w` panics (nalgebra's shape assertion) iff the dimensions differ -/
theorem spvec_add_rejects (v w : SpVec R) (hd : v.dim ≠ w.dim) : v.add w = panic := vadd_panic v w hd

/-- `&v - &w` for equal dimensions: entrywise difference -/
theorem spvec_sub_entries (v w : SpVec R) (hv : v.WF) (hw : w.WF) (hd : v.dim = w.dim) :
    ∃ u, v.sub w = ok u ∧ u.dim = v.dim ∧ u.WF ∧ ∀ i, u.entry i = v.entry i - w.entry i :=
  vsub_spec v w hv hw hd

theorem spvec_sub_rejects (v w : SpVec R) (hd : v.dim ≠ w.dim) : v.sub w = panic := vsub_panic v w hd

/-- `-v`: same dimension, entrywise negation (total) -/
theorem spvec_neg_entries (v : SpVec R) (hv : v.WF) :
    v.neg.dim = v.dim ∧ v.neg.WF ∧ ∀ i, v.neg.entry i = - v.entry i := vneg_spec v hv

/-- `SpVec::unit(n, i)` for `i < n`: the `i`-th standard basis vector of dimension `n` -/
theorem spvec_unit_entries (n i : Nat) (hi : i < n) :
    ∃ v : SpVec R, SpVec.unit n i = ok v ∧ v.dim = n ∧ v.WF ∧ ∀ k, v.entry k = if k = i then 1 else 0 :=
  ⟨_, vunit_ok n i hi, rfl, vunit_wf n i hi, vunit_entry n i⟩

/-- `SpVec::unit(n, i)` panics (`try_from_csc_data(..).unwrap()`) iff `i ≥ n` -/
theorem spvec_unit_rejects (n i : Nat) (hi : ¬ i < n) : (SpVec.unit n i : Res (SpVec R)) = panic :=
  vunit_panic n i hi

/-! ### `util::perm_for_indices` -/

/-- a repeated index (all indices in range): `vec` gets longer than `n`, the slot of its last element receives a
position `≥ n`, and `PermOwned::new` panics -/
theorem perm_for_indices_repeated_rejects (n : Nat) (indices : List Nat) (hb : ∀ i ∈ indices, i < n)
    (hnd : ¬ indices.Nodup) : permForIndices n indices = panic := permForIndices_repeat n indices hb hnd

/-- `perm_for_indices(n, indices)` returns iff the indices are pairwise distinct and below `n`; in every other
case it panics (never an `err`) -/
theorem perm_for_indices_defined_iff (n : Nat) (indices : List Nat) :
    ((∃ p, permForIndices n indices = ok p) ↔ indices.Nodup ∧ ∀ i ∈ indices, i < n) ∧
      (¬ (indices.Nodup ∧ ∀ i ∈ indices, i < n) → permForIndices n indices = panic) := by
  have hpanic : ¬ (indices.Nodup ∧ ∀ i ∈ indices, i < n) → permForIndices n indices = panic := by
    intro hc
    by_cases hb : ∀ i ∈ indices, i < n
    · exact permForIndices_repeat n indices hb (fun hnd => hc ⟨hnd, hb⟩)
    · apply permForIndices_reject
      by_contra hne
      exact hb (fun i hi => by by_contra hlt; exact hne ⟨i, hi, hlt⟩)
  refine ⟨⟨?_, ?_⟩, hpanic⟩
  · rintro ⟨p, hp⟩
    by_contra hc
    rw [hpanic hc] at hp; cases hp
  · rintro ⟨hnd, hb⟩
    obtain ⟨p, hp, _⟩ := permForIndices_spec n indices hnd hb
    exact ⟨p, hp⟩

/-- the accepted permutation: a valid permutation of `0..n`; the `k`-th listed index goes to position `k`, an
unlisted index `i` goes to `|indices| + #{unlisted indices below i}` — the others follow in increasing order -/
theorem perm_for_indices_positions (n : Nat) (indices : List Nat) (hnd : indices.Nodup) (hb : ∀ i ∈ indices, i < n) :
    ∃ p, permForIndices n indices = ok p ∧ p.Valid ∧ p.dim = n ∧
      (∀ k (h : k < indices.length), p.fn indices[k] = k) ∧
      ∀ i, i < n → i ∉ indices →
        p.fn i = indices.length + ((List.range i).filter (fun k => !indices.contains k)).length :=
  permForIndices_unlisted n indices hnd hb

/-- consequence: on the unlisted indices the permutation is strictly increasing and lands behind all listed ones -/
theorem perm_for_indices_unlisted_increasing (n : Nat) (indices : List Nat) (hnd : indices.Nodup)
    (hb : ∀ i ∈ indices, i < n) (p : Perm) (hp : permForIndices n indices = ok p) :
    (∀ i, i < n → i ∉ indices → indices.length ≤ p.fn i) ∧
      ∀ i j, i < j → j < n → i ∉ indices → j ∉ indices → p.fn i < p.fn j := by
  obtain ⟨p', hp', _, _, _, h5⟩ := permForIndices_unlisted n indices hnd hb
  rw [hp] at hp'; cases hp'
  refine ⟨fun i hi hni => by rw [h5 i hi hni]; omega, ?_⟩
  intro i j hij hj hni hnj
  rw [h5 i (by omega) hni, h5 j hj hnj]
  have := filter_range_length_lt i j (fun k => !indices.contains k) hij (by simpa using hni)
  omega

/-! ### the ad-hoc closures handed to `extract` -/

/-- `extract((n, m), |i, j| Some((j, i)))` is the transpose -/
theorem extract_swap_is_transpose (A : SpMat R) (hA : A.WF) :
    ∃ B, A.extract A.ncols A.nrows (fun i j => ok (some (j, i))) = ok B ∧ B.nrows = A.ncols ∧
      B.ncols = A.nrows ∧ B.WF ∧ ∀ i j, B.entry i j = A.entry j i := extract_swap_spec A hA

/-- `extract(((m+1)/2, n), |i, j| if i % 2 == 0 { Some((i/2, j)) } else { None })` keeps the even rows -/
theorem extract_even_rows_entries (A : SpMat R) (hA : A.WF) :
    ∃ B, A.extract ((A.nrows + 1) / 2) A.ncols (fun i j => ok (if i % 2 = 0 then some (i / 2, j) else none)) = ok B ∧
      B.nrows = (A.nrows + 1) / 2 ∧ B.ncols = A.ncols ∧ B.WF ∧ ∀ i j, B.entry i j = A.entry (2 * i) j :=
  extract_even_rows_spec A hA

/-- folding closure `(i, j) ↦ (i % m', j % n')` with positive `m'`, `n'`: entry `(i', j')` is the sum of all entries
of `A` at positions congruent to `(i', j')` (several stored values land on one position and are summed) -/
theorem extract_fold_entries (A : SpMat R) (hA : A.WF) (m' n' : Nat) (hm : 0 < m') (hn : 0 < n') :
    ∃ B, A.extract m' n' (fun i j => if m' = 0 ∨ n' = 0 then panic else ok (some (i % m', j % n'))) = ok B ∧
      B.nrows = m' ∧ B.ncols = n' ∧ B.WF ∧ ∀ i' j', i' < m' → j' < n' →
        B.entry i' j' = ∑ i ∈ Finset.range A.nrows, ∑ j ∈ Finset.range A.ncols,
          if i % m' = i' ∧ j % n' = j' then A.entry i j else 0 := extract_fold_math A hA m' n' hm hn

/-- a closure that panics (remainder by zero) is called once per stored triplet: with an empty target dimension
`extract` panics iff something is stored; on an empty pattern the closure never runs -/
theorem extract_fold_rejects (A : SpMat R) (m' n' : Nat) (h0 : m' = 0 ∨ n' = 0) :
    (A.triplets ≠ [] →
      A.extract m' n' (fun i j => if m' = 0 ∨ n' = 0 then panic else ok (some (i % m', j % n'))) = panic) ∧
    (A.triplets = [] →
      A.extract m' n' (fun i j => if m' = 0 ∨ n' = 0 then panic else ok (some (i % m', j % n')))
        = ok (cooToCsc m' n' [])) :=
  ⟨extract_fold_panic A m' n' h0, extract_fold_empty A m' n'⟩

/-- `SpVec::extract((d+1)/2, |i| if i % 2 == 0 { Some(i/2) } else { None })` keeps the even indices -/
theorem spvec_extract_even_entries (v : SpVec R) (hv : v.WF) :
    ∃ w, v.extract ((v.dim + 1) / 2) (fun i => ok (if i % 2 = 0 then some (i / 2) else none)) = ok w ∧
      w.dim = (v.dim + 1) / 2 ∧ w.WF ∧ ∀ i, w.entry i = v.entry (2 * i) := vextract_even_spec v hv

/-- folding closure `i ↦ i % d'` with positive `d'` -/
theorem spvec_extract_fold_entries (v : SpVec R) (hv : v.WF) (d' : Nat) (hd : 0 < d') :
    ∃ w, v.extract d' (fun i => if d' = 0 then panic else ok (some (i % d'))) = ok w ∧
      w.dim = d' ∧ w.WF ∧ ∀ i', i' < d' →
        w.entry i' = ∑ i ∈ Finset.range v.dim, if i % d' = i' then v.entry i else 0 :=
  vextract_fold_math v hv d' hd

/-- with `d' = 0` the closure panics on the first stored entry -/
theorem spvec_extract_fold_rejects (v : SpVec R) (d' : Nat) (h0 : d' = 0) (hne : v.ents ≠ []) :
    v.extract d' (fun i => if d' = 0 then panic else ok (some (i % d'))) = panic := by
  subst h0; exact vextract_fold_panic v hne

/-! ### the hypotheses are satisfiable, and the statements bite: small concrete values -/

/-- a vector with an explicitly stored zero at index 1: `[3, 0*, 0, -2]` -/
def exV : SpVec Int := ⟨4, [(0, 3), (1, 0), (3, -2)]⟩
/-- `[-3, 0, 5, 2*]` -/
def exW : SpVec Int := ⟨4, [(0, -3), (2, 5), (3, 2)]⟩
/-- a 2 × 3 matrix holding nothing but stored zeros -/
def exZ : SpMat Int := ⟨2, 3, [[(0, 0), (1, 0)], [], [(1, 0)]]⟩
/-- ill-formed data (row 0 stored twice): all entries are zero but a stored value is not -/
def exBad : SpMat Int := ⟨1, 1, [[(0, 1), (0, -1)]]⟩

example : exV.WF ∧ exW.WF ∧ exV.dim = exW.dim := ⟨⟨rfl, by decide, by decide⟩, ⟨rfl, by decide, by decide⟩, rfl⟩
example : exZ.WF ∧ exZ.isZero = true := ⟨⟨rfl, by decide, by decide⟩, by decide⟩
example : exBad.isZero = false ∧ exBad.entry 0 0 = 0 := by decide
example : exV.isZero = false ∧ (⟨3, [(1, 0)]⟩ : SpVec Int).isZero = true := by decide
example : ∃ u, exV.add exW = ok u ∧ u.entry 0 = 0 ∧ u.entry 2 = 5 ∧ u.entry 3 = 0 ∧ u.isZero = false :=
  ⟨_, rfl, by decide, by decide, by decide, by decide⟩
example : ∃ u, exV.sub exW = ok u ∧ u.entry 0 = 6 ∧ u.entry 3 = -4 := ⟨_, rfl, by decide, by decide⟩
example : exV.neg.entry 3 = 2 ∧ exV.neg.entry 1 = 0 := by decide
example : exV.add (⟨3, []⟩ : SpVec Int) = panic ∧ exV.sub (⟨5, []⟩ : SpVec Int) = panic := ⟨rfl, rfl⟩
example : (SpVec.unit 3 2 : Res (SpVec Int)) = ok ⟨3, [(2, 1)]⟩ ∧ (SpVec.unit 3 3 : Res (SpVec Int)) = panic ∧
    (SpVec.unit 0 0 : Res (SpVec Int)) = panic := ⟨rfl, rfl, rfl⟩

example : ∃ A, DMat.diag 2 3 [(5 : Int), 7] = ok A ∧ A.get 1 1 = 7 ∧ A.get 0 1 = 0 ∧ A.isDiag = true ∧
    A.isId = false ∧ A.isZero = false := ⟨_, rfl, by decide, by decide, by decide, by decide, by decide⟩
example : DMat.diag 2 3 [(1 : Int), 1, 1] = panic ∧ DMat.diag 3 2 [(1 : Int), 1, 1] = panic := ⟨rfl, rfl⟩
example : ∃ A, DMat.diag 2 2 [(1 : Int), 1] = ok A ∧ A.isId = true := ⟨_, rfl, by decide⟩
example : ∃ A, DMat.diag 2 3 [(1 : Int), 1] = ok A ∧ A.isId = false ∧ A.isDiag = true := ⟨_, rfl, by decide, by decide⟩
example : ∃ A, DMat.diag 0 3 ([] : List Int) = ok A ∧ A.isZero = true ∧ A.isDiag = true ∧ A.isId = false :=
  ⟨_, rfl, by decide, by decide, by decide⟩

example : ([1, 3, 1].Nodup = False) ∧ ∀ i ∈ [1, 3, 1], i < 4 := by decide
example : permForIndices 4 [1, 3, 1] = panic ∧ permForIndices 4 [1, 4] = panic ∧ permForIndices 0 [0] = panic := by
  decide
example : permForIndices 5 [3, 1] = ok ⟨5, some [2, 1, 3, 0, 4]⟩ := by decide
example : (3 ∉ [3, 1] → False) ∧ 2 ∉ [3, 1] ∧ 4 ∉ [3, 1] ∧ (2 : Nat) < 4 := by decide

example : ∃ B, (⟨2, 3, [[(0, 1)], [(0, 0)], [(1, -1)]]⟩ : SpMat Int).extract 3 2 (fun i j => ok (some (j, i))) = ok B ∧
    B.entry 2 1 = -1 ∧ B.entry 0 0 = 1 := ⟨_, rfl, by decide, by decide⟩
example : ∃ B, (⟨3, 2, [[(0, 1), (1, 2), (2, 3)], [(2, 4)]]⟩ : SpMat Int).extract 2 1
      (fun i j => if 2 = 0 ∨ 1 = 0 then panic else ok (some (i % 2, j % 1))) = ok B ∧
    B.entry 0 0 = 8 ∧ B.entry 1 0 = 2 := ⟨_, rfl, by decide, by decide⟩
example : (⟨3, 2, [[(0, 1)], []]⟩ : SpMat Int).extract 0 1
      (fun i j => if 0 = 0 ∨ 1 = 0 then panic else ok (some (i % 0, j % 1))) = panic := rfl
example : ∃ w, exV.extract 2 (fun i => ok (if i % 2 = 0 then some (i / 2) else none)) = ok w ∧
    w.entry 0 = 3 ∧ w.entry 1 = 0 := ⟨_, rfl, by decide, by decide⟩
example : ∃ w, exV.extract 3 (fun i => if 3 = 0 then panic else ok (some (i % 3))) = ok w ∧ w.entry 0 = 1 :=
  ⟨_, rfl, by decide⟩

end Yuiv.C13
