import Yuiv.Proofs.C13Gen
/-
C13 — the hand-written model of the index-remapping functions of `SpMat` (`Yuiv/Model/C13.lean`), about which
`Props/C13.lean` proves the entry lemmas (`permute_entries`, `submat_entries`, `divide4_entries`, `combine_blocks_entries`,
`extend_cols_columns`, …), IS the source text of `/repo/yui-matrix/src/sparse/sp_mat.rs`.

`Yuiv.GenSpMat.*` (file `Yuiv/Gen/SpMatFn.lean`) is regenerated from the Rust source by `tools/rs2lean_fn.py fn:spmat` on
every `./check` run, over the same representation and the same scalar classes.  Every theorem is an unconditional
equality generated = model, including all panics (`assert!`, `assert_eq!`, `CooMatrix::push` outside the shape,
`PermView::at` out of range, checked `usize` subtraction, `pop().unwrap()`, `try_from_csc_data(..).unwrap()`).

Property theorems only; helpers are in `Yuiv/Proofs/C13Gen.lean`.
-/
set_option linter.unusedSimpArgs false
set_option linter.unusedSectionVars false
namespace Yuiv.C13Gen
open Yuiv Res Yuiv.Rust Yuiv.C13

variable {R : Type} [Zero R] [One R] [Add R] [DecidableEq R]

/-! ### `from_entries`, `extract` and its clients -/

theorem gen_from_entries_eq (m n : Nat) (es : List (Trip R)) :
    GenSpMat.SpMat.from_entries (m, n) es = fromEntries m n es := by
  unfold GenSpMat.SpMat.from_entries
  show (Sp.forList es GenSpMat.SpMat.from_entries_for1 (⟨m, n, []⟩ : Sp.Coo R) >>= _) = _
  rw [from_entries_loop, fromEntries_def]
  cases inR m n (nz es)
  · rfl
  · simp only [if_true, bind_ok, List.nil_append]; rfl

theorem gen_extract_eq (A : SpMat R) (m n : Nat) (f : Nat → Nat → Res (Option (Nat × Nat))) :
    GenSpMat.SpMat.extract A (m, n) f = A.extract m n f := by
  unfold GenSpMat.SpMat.extract C13.SpMat.extract Sp.iter
  rw [extract_map]
  refine bind_congr' _ (fun es => ?_)
  exact gen_from_entries_eq m n es

theorem gen_permute_eq (A : SpMat R) (p q : Perm) : GenSpMat.SpMat.permute A p q = A.permute p q := by
  unfold GenSpMat.SpMat.permute C13.SpMat.permute
  rw [show Sp.shape A = (A.nrows, A.ncols) from rfl, gen_extract_eq]
  rfl

theorem gen_permute_rows_eq (A : SpMat R) (p : Perm) : GenSpMat.SpMat.permute_rows A p = A.permuteRows p := by
  unfold GenSpMat.SpMat.permute_rows C13.SpMat.permuteRows
  exact gen_permute_eq A p _

theorem gen_permute_cols_eq (A : SpMat R) (q : Perm) : GenSpMat.SpMat.permute_cols A q = A.permuteCols q := by
  unfold GenSpMat.SpMat.permute_cols C13.SpMat.permuteCols
  exact gen_permute_eq A _ q

theorem gen_submat_eq (A : SpMat R) (i0 i1 j0 j1 : Nat) :
    GenSpMat.SpMat.submat A (i0, i1) (j0, j1) = A.submat i0 i1 j0 j1 := by
  unfold GenSpMat.SpMat.submat C13.SpMat.submat
  simp only []
  by_cases h1 : i0 ≤ i1 ∧ i1 ≤ A.nrows
  · by_cases h2 : j0 ≤ j1 ∧ j1 ≤ A.ncols
    · simp only [h1.1, h1.2, h2.1, h2.2, decide_true, Bool.and_self, assert_true, bind_ok, U64.sub, if_true, gen_extract_eq]
      congr 1
      funext i j
      unfold GenSpMat.SpMat.submat_closure1 Sp.range_contains
      by_cases hc : ((decide (i0 ≤ i) && decide (i < i1)) && (decide (j0 ≤ j) && decide (j < j1))) = true
      · have hi : i0 ≤ i := by simp at hc; exact hc.1.1
        have hj : j0 ≤ j := by simp at hc; exact hc.2.1
        simp only [hc, if_true]
        simp only [U64.sub, hi, hj, if_true, bind_ok, pure_eq_ok]
      · simp only [hc, if_false, pure_eq_ok]; rfl
    · have : (decide (j0 ≤ j1) && decide (j1 ≤ A.ncols)) = false := by
        by_cases a : j0 ≤ j1
        · have b : ¬ j1 ≤ A.ncols := fun b => h2 ⟨a, b⟩
          simp [a, b]
        · simp [a]
      simp only [h1.1, h1.2, decide_true, Bool.and_self, assert_true, bind_ok, this, assert_false]; rfl
  · have : (decide (i0 ≤ i1) && decide (i1 ≤ A.nrows)) = false := by
      by_cases a : i0 ≤ i1
      · have b : ¬ i1 ≤ A.nrows := fun b => h1 ⟨a, b⟩
        simp [a, b]
      · simp [a]
    simp only [this, assert_false]; rfl

theorem gen_submat_rows_eq (A : SpMat R) (i0 i1 : Nat) : GenSpMat.SpMat.submat_rows A (i0, i1) = A.submatRows i0 i1 := by
  unfold GenSpMat.SpMat.submat_rows C13.SpMat.submatRows
  exact gen_submat_eq A i0 i1 0 A.ncols

theorem gen_submat_cols_eq (A : SpMat R) (j0 j1 : Nat) : GenSpMat.SpMat.submat_cols A (j0, j1) = A.submatCols j0 j1 := by
  unfold GenSpMat.SpMat.submat_cols C13.SpMat.submatCols
  exact gen_submat_eq A 0 A.nrows j0 j1

/-! ### `combine_blocks`, `concat`, `stack` -/

theorem gen_combine_blocks_eq (a b c d : SpMat R) :
    GenSpMat.SpMat.combine_blocks (a, b, c, d) = combineBlocks a b c d := by
  unfold GenSpMat.SpMat.combine_blocks combineBlocks
  simp only []
  refine bind_congr' _ (fun _ => ?_)
  refine bind_congr' _ (fun _ => ?_)
  refine bind_congr' _ (fun _ => ?_)
  refine bind_congr' _ (fun _ => ?_)
  rw [gen_from_entries_eq]
  congr 1
  have hc : ∀ di dj : Nat, GenSpMat.SpMat.combine_blocks_closure2 (R := R) di dj = fun t => (t.1 + di, t.2.1 + dj, t.2.2) := by
    intro di dj; funext t; obtain ⟨i, j, r⟩ := t; rfl
  simp only [List.flatMap_cons, List.flatMap_nil, List.append_nil, GenSpMat.SpMat.combine_blocks_closure1, Sp.iter,
    shiftTrips, hc, List.append_assoc]

theorem gen_concat_eq (A B : SpMat R) : GenSpMat.SpMat.concat A B = A.concat B := by
  unfold GenSpMat.SpMat.concat C13.SpMat.concat
  exact gen_combine_blocks_eq _ _ _ _

theorem gen_stack_eq (A B : SpMat R) : GenSpMat.SpMat.stack A B = A.stack B := by
  unfold GenSpMat.SpMat.stack C13.SpMat.stack
  exact gen_combine_blocks_eq _ _ _ _

/-! ### `extend_cols` (raw CSC arrays) -/

theorem gen_extend_cols_eq (A B : SpMat R) : GenSpMat.SpMat.extend_cols A B = A.extendCols B := by
  unfold GenSpMat.SpMat.extend_cols C13.SpMat.extendCols
  refine bind_congr' _ (fun _ => ?_)
  by_cases h0 : B.ncols = 0
  · simp only [h0, decide_true, if_true]
  · simp only [h0, decide_false, Bool.false_eq_true, if_false, Sp.disassemble, try_unwrap]
    cases hl : (A.disassemble).1.getLast? with
    | none => simp [Opt.unwrap, hl]
    | some offset =>
      simp only [Opt.unwrap, bind_ok, hl]
      have hc : GenSpMat.SpMat.extend_cols_closure1 (R := R) offset = fun i => offset + i := rfl
      rw [hc]
      generalize tryFromCsc A.nrows (A.ncols + B.ncols) _ _ _ = x
      cases x <;> rfl

/-! ### `from_col_vecs` (raw CSC arrays) -/

theorem gen_from_col_vecs_eq (n : Nat) (vs : List (SpVec R)) :
    GenSpMat.SpMat.from_col_vecs n vs = fromColVecs n vs := by
  unfold GenSpMat.SpMat.from_col_vecs fromColVecs
  show (GenSpMat.SpMat.from_col_vecs_loop1 vs n [0] [] [] >>= _) = (_ >>= fun _ => match List.foldl fcvStep ([0], [], []) vs with
      | (offs, rows, vals) => tryFromCsc n (offs.length - 1) offs rows vals)
  rw [fcv_loop]
  cases hall : vs.all (fun v => decide (n = v.dim))
  · simp [assert_false]
  · have hlen := fcv_offs_len vs (([0], [], []) : List Nat × List Nat × List R)
    have h1 : 1 ≤ (List.foldl fcvStep (([0], [], []) : List Nat × List Nat × List R) vs).1.length := by
      rw [hlen]; simp
    simp only [if_true, bind_ok, assert_true, U64.sub, h1, try_unwrap]

/-! ### `from_row_perm`, `from_col_perm` -/

theorem gen_from_row_perm_eq (p : Perm) : GenSpMat.SpMat.from_row_perm (R := R) p = fromRowPerm p := by
  unfold GenSpMat.SpMat.from_row_perm fromRowPerm
  simp only [Nat.sub_zero, perm_map_row, List.range_eq_range', bind_mapR, gen_from_entries_eq]

theorem gen_from_col_perm_eq (p : Perm) : GenSpMat.SpMat.from_col_perm (R := R) p = fromColPerm p := by
  unfold GenSpMat.SpMat.from_col_perm fromColPerm
  simp only [Nat.sub_zero, perm_map_col, List.range_eq_range', bind_mapR, gen_from_entries_eq]

/-! ### `divide4` -/

theorem gen_divide4_eq (A : SpMat R) (k l : Nat) : GenSpMat.SpMat.divide4 A (k, l) = A.divide4 k l := by
  unfold GenSpMat.SpMat.divide4 C13.SpMat.divide4
  simp only []
  by_cases hk : k ≤ A.nrows
  · by_cases hl : l ≤ A.ncols
    · simp only [hk, hl, decide_true, assert_true, bind_ok, U64.sub, if_true, Sp.Coo.new, Sp.iter]
      rw [divide4_loop k l (A.nrows - k) (A.ncols - l) A.triplets [] [] [] []]
      show _ = (cooFrom k l (qa k l (nz A.triplets)) >>= fun a => cooFrom k (A.ncols - l) (qb k l (nz A.triplets)) >>= fun b =>
        cooFrom (A.nrows - k) l (qc k l (nz A.triplets)) >>= fun c =>
        cooFrom (A.nrows - k) (A.ncols - l) (qd k l (nz A.triplets)) >>= fun d => ok (a, b, c, d))
      simp only [cooFrom_def, ok4]
      rcases Bool.eq_false_or_eq_true (inR k l (qa k l (nz A.triplets))) with h1 | h1 <;>
      rcases Bool.eq_false_or_eq_true (inR k (A.ncols - l) (qb k l (nz A.triplets))) with h2 | h2 <;>
      rcases Bool.eq_false_or_eq_true (inR (A.nrows - k) l (qc k l (nz A.triplets))) with h3 | h3 <;>
      rcases Bool.eq_false_or_eq_true (inR (A.nrows - k) (A.ncols - l) (qd k l (nz A.triplets))) with h4 | h4 <;>
      simp only [h1, h2, h3, h4, Bool.and_self, Bool.and_true, Bool.and_false, Bool.true_and, Bool.false_and, if_true,
        Bool.false_eq_true, if_false, bind_ok, List.nil_append] <;> rfl
    · simp [hk, hl, assert_true, assert_false]
  · simp [hk, assert_false]

end Yuiv.C13Gen
