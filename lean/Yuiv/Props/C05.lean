import Yuiv.Proofs.C05
/-
C05 — every Khovanov complex returned is a graded chain complex, over any ring.

Property theorems only (spec definitions and helper lemmas live in `Yuiv/Proofs/C05.lean`).

What is proved here is the algebraic kernel every matrix entry of the returned differential is produced by:
`CobComp::part_eval` / `CobComp::eval` (model `partEval` / `evalClosed`, compared line by line with the Rust
code by the correspondence run) are sound in the Frobenius algebra `A = R[X]/(X² − hX − t)` for EVERY
commutative ring `R` whose `Coef` operations are the ring operations (`LawfulCoef`; `Int` is an instance) and
every `h, t`, and they are homogeneous for `deg h = −2`, `deg t = −4`, one dot `= −2`, one handle `= −2`.
`matMulZero_sound` is a Lean-verified CHECKER that the driver applies to the integer matrices exported from
the real `KhComplex` (`d_{i+1}·d_i = 0`).
NOT proved (explored by the correspondence run only): that delooping + Gaussian elimination + planar
composition keep `d² = 0` / the gradings for every diagram, and that specialisation commutes with homology.
-/
namespace Yuiv.C05
open Yuiv

/-! ### (a) `part_eval` is sound -/

/-- open component: the output combination `Σ rₖ · X^{xₖ} Y^{yₖ}` equals `X^x · Y^y · (X+Y)^g` in `A`
(neck cutting replaces a handle by `X + Y`), and every output term is the same component with genus 0
and at most one dot (never the empty cobordism). -/
theorem partEval_sound {R : Type} [CommRing R] [Coef R] [LawfulCoef R] (h t : R) (g x y : Nat) :
    sem (muA h t) (partEval h t false g x y) = Xd h t ^ x * Yd h t ^ y * (Xd h t + Yd h t) ^ g
    ∧ ∀ p ∈ partEval h t false g x y, ∃ x' y', p.1 = Key.comp x' y' ∧ x' + y' ≤ 1 := by
  refine ⟨partEval_open_sem h t g x y, fun p hp => ?_⟩
  have := partEval_open_keys h t g x y p hp
  cases hk : p.1 with
  | empty => rw [hk] at this; exact this.elim
  | comp x' y' => rw [hk] at this; exact ⟨x', y', rfl, this⟩

/-- the instance that is run against `i64` / `BigInt` -/
theorem partEval_sound_int (h t : Int) (g x y : Nat) :
    sem (muA h t) (partEval h t false g x y) = Xd h t ^ x * Yd h t ^ y * (Xd h t + Yd h t) ^ g :=
  (partEval_sound h t g x y).1

/-- closed component: the result is `0` or a single multiple of the empty cobordism, and that scalar is
`ε(X^x · Y^y · (X+Y)^g)`. -/
theorem partEval_sound_closed {R : Type} [CommRing R] [Coef R] [LawfulCoef R] (h t : R) (g x y : Nat) :
    (partEval h t true g x y = [] ∨ ∃ r, partEval h t true g x y = [(Key.empty, r)])
    ∧ sem (S := R) muC (partEval h t true g x y) = counit (Xd h t ^ x * Yd h t ^ y * (Xd h t + Yd h t) ^ g) :=
  ⟨partEval_closed_scalar h t g x y, partEval_closed_sem h t g x y⟩

/-- the relations used: `X² = hX + t`, `XY = t`, `Y² = −hY + t`, `Y = X − h` -/
theorem relations {R : Type} [CommRing R] (h t : R) :
    Xd h t * Xd h t = Cc h t h * Xd h t + Cc h t t ∧ Xd h t * Yd h t = Cc h t t
    ∧ Yd h t * Yd h t = Cc h t (-h) * Yd h t + Cc h t t ∧ Yd h t = Xd h t - Cc h t h :=
  ⟨XX h t, XY h t, YY h t, Yd_eq h t⟩

/-! ### (b) closed evaluation -/

/-- `CobComp::eval` never trips its assertions on a closed component and returns
`ε(X^x Y^y (X+Y)^g)` where `ε(1) = 0`, `ε(X) = 1`. -/
theorem evalClosed_spec {R : Type} [CommRing R] [Coef R] [LawfulCoef R] (h t : R) (g x y : Nat) :
    evalClosed h t true g x y = .ok (counit (Xd h t ^ x * Yd h t ^ y * (Xd h t + Yd h t) ^ g)) :=
  evalClosed_eq h t g x y

theorem counit_spec {R : Type} [CommRing R] (h t : R) :
    counit (1 : A h t) = 0 ∧ counit (Xd h t) = 1 ∧ counit (Yd h t) = 1 :=
  ⟨rfl, rfl, rfl⟩

/-- `assert!(self.is_closed())` -/
theorem evalClosed_open_panics {R : Type} [Coef R] (h t : R) (g x y : Nat) :
    evalClosed h t false g x y = .panic := rfl

/-- `is_zero_cob` (closed, even genus, equally many X- and Y-dots) only answers `true` on components whose
value is 0 — the code drops such terms without evaluating them. -/
theorem is_zero_cob_sound {R : Type} [CommRing R] [Coef R] [LawfulCoef R] (h t : R) (closed : Bool) (g x y : Nat)
    (hz : isZeroCob closed g x y = true) : evalClosed h t closed g x y = .ok 0 := by
  simp only [isZeroCob, Bool.and_eq_true, beq_iff_eq] at hz
  obtain ⟨⟨hc, hg⟩, hxy⟩ := hz
  subst hc; subst hxy
  obtain ⟨k, rfl⟩ : ∃ k, g = 2 * k := ⟨g / 2, by omega⟩
  rw [evalClosed_spec, zero_cob_value]

example : isZeroCob true 2 3 3 = true := by decide

/-- `is_unit_cob` (a sphere with exactly one dot) only answers `true` on components of value 1 — the code
removes such components from a cobordism. -/
theorem is_unit_cob_sound {R : Type} [CommRing R] [Coef R] [LawfulCoef R] (h t : R) (closed : Bool) (g x y : Nat)
    (hu : isUnitCob closed g x y = true) : evalClosed h t closed g x y = .ok 1 := by
  simp only [isUnitCob, Bool.and_eq_true, Bool.or_eq_true, beq_iff_eq] at hu
  obtain ⟨⟨hc, hg⟩, hxy⟩ := hu
  subst hc; subst hg
  rw [evalClosed_spec]
  rcases hxy with ⟨rfl, rfl⟩ | ⟨rfl, rfl⟩ <;> simp [counit, Xd, Yd]

example : isUnitCob true 0 0 1 = true := by decide

/-! ### (c) homogeneity -/

/-- one more dot or one more handle lowers the degree by 2 (`deg = χ − #endpts/2 − 2·#dots`, `χ = 2 − 2g − #∂`) -/
theorem deg_step (nbdr endpts g x y : Nat) :
    deg nbdr endpts g (x + 1) y = deg nbdr endpts g x y - 2 ∧ deg nbdr endpts g x (y + 1) = deg nbdr endpts g x y - 2
    ∧ deg nbdr endpts (g + 1) x y = deg nbdr endpts g x y - 2 := by
  simp only [deg, eulerNum]; push_cast; refine ⟨?_, ?_, ?_⟩ <;> ring

/-- With polynomial parameters `h = H`, `t = T` (`deg H = −2`, `deg T = −4`): for every component (any
boundary data `nbdr`, `endpts`; a closed component has none), all `g, x, y`, every output term `(k, p)` of
`part_eval` and every monomial `H^a T^b` of its coefficient `p`:
`deg(term k) + deg(H^a T^b) = deg(input component)`. -/
theorem partEval_homogeneous (closed : Bool) (nbdr endpts g x y : Nat)
    (hc : closed = true → nbdr = 0 ∧ endpts = 0) :
    ∀ p ∈ partEval HT.H HT.T closed g x y, ∀ q ∈ p.2,
      Key.deg nbdr endpts p.1 + monoDeg q.1 = deg nbdr endpts g x y := by
  intro p hp q hq
  have hw := partEval_HT_homog closed g x y p hp q hq
  rw [monoDeg_eq]
  have hw' : ((p.1.dots + wt q.1 : Nat) : Int) = ((g + x + y : Nat) : Int) := by rw [hw]
  push_cast at hw'
  cases closed with
  | false =>
    have hk := partEval_open_keys HT.H HT.T g x y p hp
    cases hk' : p.1 with
    | empty => rw [hk'] at hk; exact hk.elim
    | comp x' y' =>
      rw [hk'] at hw'
      simp only [Key.deg, deg, eulerNum, Key.dots] at *
      push_cast at *
      linarith
  | true =>
    obtain ⟨rfl, rfl⟩ := hc rfl
    rcases partEval_closed_scalar HT.H HT.T g x y with h0 | ⟨r, h1⟩
    · rw [h0] at hp; simp at hp
    · rw [h1] at hp
      have : p = (Key.empty, r) := by simpa using hp
      subst this
      simp only [Key.deg, deg, eulerNum, Key.dots] at *
      push_cast at *
      linarith

/-- the hypothesis is satisfiable with a non-trivial output: a closed genus-3 surface evaluates to `2H² + 8T` -/
example : partEval HT.H HT.T true 3 0 0 = [(Key.empty, [((2, 0), 2), ((0, 1), 8)])] := by
  simp [partEval]; decide

/-! ### (d) the verified checker for `d ∘ d = 0` -/

/-- if the checker accepts two integer matrices of fitting shapes, every entry of the product is zero
(`mulEntry A B i j = Σ_{k < rows B} A[i][k] · B[k][j]`).  The driver applies it to `d_{i+1}`, `d_i`
exported from the real `KhComplex::d_matrix`. -/
theorem matMulZero_sound (A B : List (List Int)) (n : Nat) (hz : matMulZero A B n = true)
    (hs : shapeOk A B n = true) : ∀ i < A.length, ∀ j < n, mulEntry A B i j = 0 :=
  fun i hi j hj => matMulZero_entry A B n hz hs i j hi hj

example : matMulZero [[1, 1]] [[1, -2], [-1, 2]] 2 = true ∧ shapeOk [[1, 1]] [[1, -2], [-1, 2]] 2 = true := by decide

end Yuiv.C05
