import Yuiv.Proofs.C17
/-
C17 — bit sequences behave as sequences of at most 64 bits.

Property theorems only (spec definitions and helper lemmas live in `Yuiv/Proofs/C17.lean`).
A bit sequence denotes `toList b : List Bool`; every operation of the code model refines the
corresponding list operation for every length `0..64` inclusive, and is rejected (`panic`/`err`)
outside its guard — never a corrupted value.
-/
namespace Yuiv.C17
open Yuiv Res

/-! ### representation -/

theorem toList_length (b : BS) : (toList b).length = b.len := toList_len b

/-- equality of values ⇔ equality of denoted lists (so `==` is list equality) -/
theorem toList_inj (a b : BS) (ha : WF a) (hb : WF b) : toList a = toList b ↔ a = b :=
  toList_inj' a b ha hb

theorem ofList_wf (l : List Bool) (h : l.length ≤ 64) : WF (ofList l) := by
  unfold WF; rw [ofList_len]; exact ⟨h, ofList_lt l⟩
theorem toList_ofList (l : List Bool) : toList (ofList l) = l := toList_ofList' l

/-! ### constructors -/

theorem new_spec (val len : Nat) (hl : len ≤ 64) (hv : val < 2 ^ len) :
    new val len = ok ⟨val, len⟩ ∧ WF ⟨val, len⟩ := ⟨new_ok val len hl hv, hl, hv⟩

theorem new_reject (val len : Nat) (h : 64 < len ∨ 2 ^ len ≤ val) : new val len = panic :=
  new_panic val len h

theorem newRev_spec (val len : Nat) (hv : val < 2 ^ 64) (hl : len ≤ 64) :
    Refines (newRev val len) ((List.range len).map (fun i => val.testBit (len - 1 - i))) := by
  -- `hv` (the argument is a `u64`) is not needed: the model's `revBits 64` ignores higher bits
  have _ := hv
  exact newRev_refines val len hl

theorem newRev_reject (val len : Nat) (h : 64 < len) : newRev val len = panic := by
  simp [newRev, Res.assert, maxLen, Nat.not_le.2 h]

theorem empty_spec : Refines empty [] := by
  unfold empty; rw [new_ok 0 0 (by decide) (by decide)]
  exact refines_ok ⟨by decide, by decide⟩ (by simp [toList])

theorem zeros_spec (len : Nat) (hl : len ≤ 64) : Refines (zeros len) (List.replicate len false) := by
  unfold zeros; rw [new_ok 0 len hl (Nat.two_pow_pos len)]
  exact refines_ok ⟨hl, Nat.two_pow_pos len⟩ (toList_zero len)
theorem zeros_reject (len : Nat) (h : 64 < len) : zeros len = panic := new_panic 0 len (Or.inl h)

theorem ones_spec (len : Nat) (hl : len ≤ 64) : Refines (ones len) (List.replicate len true) := by
  have hlt : 2 ^ len - 1 < 2 ^ len := Nat.sub_lt (Nat.two_pow_pos len) (by decide)
  unfold ones; rw [mask_le len hl, bind_ok, new_ok _ len hl hlt]
  exact refines_ok ⟨hl, hlt⟩ (toList_ones len)
theorem ones_reject (len : Nat) (h : 64 < len) : ones len = panic := by
  unfold ones; rw [mask_ge len (Nat.le_of_lt h), bind_ok]; exact new_panic _ len (Or.inl h)

/-! ### observers -/

theorem weight_spec (b : BS) (h : WF b) : weight b = (toList b).count true := weight_eq b h

theorem iter_spec (b : BS) : iter b = toList b := iterLoop_eq b.len b.val

theorem index_spec (b : BS) (h : WF b) (i : Nat) (hi : i < b.len) :
    index b i = ok ((toList b).getD i false) := index_eq b h i hi
theorem index_reject (b : BS) (i : Nat) (hi : b.len ≤ i) : index b i = panic := by
  simp [index, Res.assert, Nat.not_lt.2 hi]

theorem toStr_spec (b : BS) : toStr b = (toList b).map (fun x => if x then '1' else '0') := by
  unfold toStr; rw [iter_spec]

/-! ### mutators -/

theorem set_spec (b : BS) (h : WF b) (i : Nat) (x : Bool) (hi : i < b.len) :
    Refines (set b i x) ((toList b).set i x) := set_refines b h i x hi
theorem set_reject (b : BS) (i : Nat) (x : Bool) (hi : b.len ≤ i) : set b i x = panic := by
  simp [set, Res.assert, Nat.not_lt.2 hi]

theorem push_spec (b : BS) (h : WF b) (x : Bool) (hl : b.len < 64) :
    Refines (push b x) (toList b ++ [x]) := push_refines b h x hl
theorem push_reject (b : BS) (x : Bool) (hl : 64 ≤ b.len) : push b x = panic := by
  simp [push, Res.assert, maxLen, Nat.not_lt.2 hl]

theorem append_spec (a b : BS) (ha : WF a) (hb : WF b) (hl : a.len + b.len ≤ 64) :
    Refines (append a b) (toList a ++ toList b) := append_refines a b ha hb hl
theorem append_reject (a b : BS) (hl : 64 < a.len + b.len) : append a b = panic := by
  simp [append, Res.assert, maxLen, Nat.not_le.2 hl]

theorem remove_spec (b : BS) (h : WF b) (i : Nat) (hi : i < b.len) :
    Refines (remove b i) ((toList b).eraseIdx i) := remove_refines b h i hi
theorem remove_reject (b : BS) (i : Nat) (hi : b.len ≤ i) : remove b i = panic := by
  simp [remove, Res.assert, Nat.not_lt.2 hi]

theorem insert_spec (b : BS) (h : WF b) (i : Nat) (x : Bool) (hi : i ≤ b.len) (hl : b.len < 64) :
    Refines (insert b i x) ((toList b).insertIdx i x) := insert_refines b h i x hi hl
theorem insert_reject (b : BS) (i : Nat) (x : Bool) (h : b.len < i ∨ 64 ≤ b.len) :
    insert b i x = panic := by
  rcases h with h | h
  · simp [insert, Res.assert, Nat.not_le.2 h]
  · by_cases hi : i ≤ b.len <;> simp [insert, Res.assert, maxLen, Nat.not_lt.2 h, hi]

theorem sub_spec (b : BS) (h : WF b) (l : Nat) (hl : l ≤ b.len) :
    Refines (sub b l) ((toList b).take l) := by
  obtain ⟨h1, h2, h3⟩ := sub_eq b h l hl
  rw [h1]; exact refines_ok h2 h3
theorem sub_reject (b : BS) (l : Nat) (hl : b.len < l) : sub b l = panic := by
  simp [sub, Res.assert, Nat.not_le.2 hl]

theorem isSub_spec (a b : BS) (ha : WF a) (hb : WF b) :
    isSub a b = ok ((toList a).isPrefixOf (toList b)) := isSub_eq a b ha hb

/-! ### iterator-based constructors -/

theorem fromIter_spec (l : List Bool) (h : l.length ≤ 64) : Refines (fromIter l) l := by
  rw [fromIter_eq l h]; exact refines_ok ⟨h, ofList_lt l⟩ (toList_mk_ofList l)
theorem fromIter_reject (l : List Bool) (h : 64 < l.length) : fromIter l = panic := fromIter_panic l h

/-- a string of at most 64 characters `0`/`1` parses to the list it spells -/
theorem fromStr_spec (l : List Bool) (h : l.length ≤ 64) :
    Refines (fromStr (l.map (fun x => if x then '1' else '0'))) l := by
  rw [fromStr_eq l h]; exact refines_ok ⟨h, ofList_lt l⟩ (toList_mk_ofList l)

/-- anything else is rejected: never `ok` -/
theorem fromStr_reject (s : List Char)
    (h : 64 < s.length ∨ ∃ c ∈ s, c ≠ '0' ∧ c ≠ '1') : ¬ (fromStr s).isOk := fromStr_not_ok s h

/-- `generate len` yields `2^len` items; item `k` is the sequence with value `k` — so the items are
pairwise distinct, well-formed, of length `len`, hence all `2^len` lists of that length. -/
theorem generate_spec (len k : Nat) (hl : len ≤ 64) (hk : k < 2 ^ len) :
    generateCount len = ok (2 ^ len) ∧ generateNth len k = ok ⟨k, len⟩ ∧ WF ⟨k, len⟩ := by
  have hp : 1 ≤ 2 ^ len := Nat.one_le_two_pow
  refine ⟨?_, ?_, hl, hk⟩
  · simp [generateCount, Res.assert, maxLen, hl, mask_le len hl]; omega
  · have : k ≤ 2 ^ len - 1 := by omega
    simp [generateNth, Res.assert, maxLen, hl, mask_le len hl, this, new_ok k len hl hk]

theorem generate_complete (len : Nat) (l : List Bool) (hlen : l.length = len) :
    ∃ k, k < 2 ^ len ∧ toList ⟨k, len⟩ = l := by
  subst hlen; exact ⟨(ofList l).val, ofList_lt l, toList_mk_ofList l⟩

/-! ### ordering -/

theorem cmp_eq_iff (a b : BS) : cmp a b = .eq ↔ a = b := by
  constructor
  · intro h
    simp only [cmp, Ordering.then_eq_eq, Nat.compare_eq_eq] at h
    cases a; cases b; simp_all
  · intro h; subst h; simp [cmp]

theorem cmp_swap (a b : BS) : cmp b a = (cmp a b).swap := by
  simp [cmp, Ordering.swap_then, Nat.compare_swap]

theorem cmp_trans (a b c : BS) (h1 : cmp a b = .lt) (h2 : cmp b c = .lt) : cmp a c = .lt := by
  simp only [cmp, Ordering.then_eq_lt, Nat.compare_eq_lt, Nat.compare_eq_eq] at h1 h2 ⊢
  omega

/-- by length, then weight, then value -/
theorem cmp_lt_iff (a b : BS) : cmp a b = .lt ↔
    a.len < b.len ∨ (a.len = b.len ∧ (weight a < weight b ∨ (weight a = weight b ∧ a.val < b.val))) := by
  simp [cmp, Ordering.then_eq_lt, Nat.compare_eq_lt]

/-! ### every reachable value is well-formed: closure under any history of operations -/

inductive Op where
  | push (x : Bool) | append (b : BS) | remove (i : Nat) | insert (i : Nat) (x : Bool)
  | set (i : Nat) (x : Bool) | sub (l : Nat)

def step (b : BS) : Op → Res BS
  | .push x => push b x
  | .append c => append b c
  | .remove i => remove b i
  | .insert i x => insert b i x
  | .set i x => set b i x
  | .sub l => sub b l

def OpWF : Op → Prop
  | .append c => WF c
  | _ => True

/-- any successful history of operations from a well-formed value ends in a well-formed value
(with `*_spec`/`*_reject`: ends in the value the list history gives, or is rejected) -/
theorem history_wf (ops : List Op) (hops : ∀ o ∈ ops, OpWF o) (b : BS) (h : WF b) (b' : BS)
    (hrun : ops.foldlM step b = ok b') : WF b' := by
  have ofRefines : ∀ {r : Res BS} {l : List Bool} {c : BS}, Refines r l → r = ok c → WF c := by
    intro r l c ⟨d, hd, hw, _⟩ hc
    rw [hd] at hc; cases hc; exact hw
  have stepWF : ∀ (b : BS) (o : Op) (c : BS), WF b → OpWF o → step b o = ok c → WF c := by
    intro b o c hb ho hs
    cases o with
    | push x =>
      by_cases g : b.len < 64
      · exact ofRefines (push_spec b hb x g) hs
      · rw [show step b (.push x) = push b x from rfl, push_reject b x (by omega)] at hs; cases hs
    | append d =>
      by_cases g : b.len + d.len ≤ 64
      · exact ofRefines (append_spec b d hb ho g) hs
      · rw [show step b (.append d) = append b d from rfl, append_reject b d (by omega)] at hs
        cases hs
    | remove i =>
      by_cases g : i < b.len
      · exact ofRefines (remove_spec b hb i g) hs
      · rw [show step b (.remove i) = remove b i from rfl, remove_reject b i (by omega)] at hs
        cases hs
    | insert i x =>
      by_cases g : i ≤ b.len ∧ b.len < 64
      · exact ofRefines (insert_spec b hb i x g.1 g.2) hs
      · rw [show step b (.insert i x) = insert b i x from rfl, insert_reject b i x (by omega)] at hs
        cases hs
    | set i x =>
      by_cases g : i < b.len
      · exact ofRefines (set_spec b hb i x g) hs
      · rw [show step b (.set i x) = set b i x from rfl, set_reject b i x (by omega)] at hs
        cases hs
    | sub l =>
      by_cases g : l ≤ b.len
      · exact ofRefines (sub_spec b hb l g) hs
      · rw [show step b (.sub l) = sub b l from rfl, sub_reject b l (by omega)] at hs; cases hs
  induction ops generalizing b with
  | nil =>
    have : b = b' := by simpa [List.foldlM] using hrun
    rw [← this]; exact h
  | cons o os ih =>
    rw [List.foldlM_cons] at hrun
    cases hs : step b o with
    | ok c =>
      rw [hs, bind_ok] at hrun
      exact ih (fun o' ho' => hops o' (List.mem_cons_of_mem _ ho')) c
        (stepWF b o c h (hops o List.mem_cons_self) hs) hrun
    | panic => rw [hs] at hrun; cases hrun
    | err => rw [hs] at hrun; cases hrun

/-! ### non-vacuity: the boundary length 64 satisfies the hypotheses -/

example : WF ⟨2 ^ 64 - 1, 64⟩ := by unfold WF; decide
example : WF ⟨0, 0⟩ := by unfold WF; decide

end Yuiv.C17
