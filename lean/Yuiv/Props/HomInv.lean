import Yuiv.Proofs.HomInv
/-
Rank and invariant factors are ISOMORPHISM INVARIANTS of a finitely generated abelian group (ℤ-module) — property theorems
only (definitions and lemmas: `Proofs/HomInv.lean`, arithmetic core `chain_unique`: `Proofs/SnfUnique.lean`).

This is the uniqueness half of the structure theorem over ℤ, which Mathlib does not have:  if
`M ≃ ℤ^r × ∏_{u<s} ℤ/t_u` and `M' ≃ ℤ^r' × ∏_{u<s'} ℤ/t'_u` with `2 ≤ t_0 ∣ t_1 ∣ …` and `M ≃ M'`, then `r = r'`,
`s = s'`, `t = t'`.  Proof by counting: `#Hom(M, ℤ/q) = q^r · ∏ gcd(t_u, q)` is an isomorphism invariant, and these numbers
(for all `q ≥ 1`) determine a divisibility chain.  Isomorphisms are taken as `≃+` (for abelian groups the same as `≃ₗ[ℤ]`:
use `LinearEquiv.toAddEquiv`), so that no choice of a `Module ℤ` instance enters the statements.
-/
namespace Yuiv.HomInv
open Yuiv.SnfUnique Finset

/-- `#Hom(M, ℤ/q)` is an isomorphism invariant -/
theorem homCount_iso_invariant {M M' : Type*} [AddCommGroup M] [AddCommGroup M'] (e : M ≃+ M') (q : ℕ) :
    homCount M q = homCount M' q := homCount_congr e q

/-- **the counting formula**: for `M ≃ ℤ^r × ∏_{u<s} ℤ/t_u` and `q ≥ 1`, `#Hom(M, ℤ/q) = q^r · ∏_u gcd(t_u, q)` -/
theorem homCount_of_presentation {M : Type*} [AddCommGroup M] (r s : ℕ) (t : Fin s → ℕ)
    (e : M ≃+ (Fin r → ℤ) × (∀ u : Fin s, ZMod (t u))) (q : ℕ) [NeZero q] :
    homCount M q = q ^ r * ∏ u, Nat.gcd (t u) q := by
  rw [homCount_congr e q, homCount_prod, homCount_pi_zmod]
  congr 1
  · have := homCount_pi_zmod (fun _ : Fin r => 0) q
    simp only [Nat.cast_zero, cz_zero, Finset.prod_const, Finset.card_univ, Fintype.card_fin] at this
    exact this
  · exact Finset.prod_congr rfl fun u _ => by rw [cz_eq_gcd]; rfl

/-- the same for a product of cyclic groups `∏_{i<n} ZMod (c i)` (`c i = 0`: a free summand `ZMod 0 = ℤ`) -/
theorem homCount_of_cyclic_presentation {M : Type*} [AddCommGroup M] (n : ℕ) (c : Fin n → ℕ)
    (e : M ≃+ (∀ i : Fin n, ZMod (c i))) (q : ℕ) [NeZero q] :
    homCount M q = ∏ i, Nat.gcd (c i) q := by
  rw [homCount_congr e q, homCount_pi_zmod]
  exact Finset.prod_congr rfl fun u _ => by rw [cz_eq_gcd]; rfl

/-- **rank and invariant factors are isomorphism invariants** (ℤ).  If `M ≃ ℤ^r × ∏_{u<s} ℤ/t_u` and
`M' ≃ ℤ^r' × ∏_{u<s'} ℤ/t'_u`, the orders being non-zero non-units (`2 ≤ t_u`) each dividing the next, and `M ≃ M'`, then
the free ranks agree, the numbers of torsion summands agree and the orders agree. -/
theorem rank_and_invariant_factors_unique {M M' : Type*} [AddCommGroup M] [AddCommGroup M']
    (r s r' s' : ℕ) (t t' : ℕ → ℕ)
    (ht : ∀ u, u < s → 2 ≤ t u) (ht' : ∀ u, u < s' → 2 ≤ t' u)
    (hc : ∀ u, u + 1 < s → t u ∣ t (u + 1)) (hc' : ∀ u, u + 1 < s' → t' u ∣ t' (u + 1))
    (p : M ≃+ (Fin r → ℤ) × (∀ u : Fin s, ZMod (t u)))
    (p' : M' ≃+ (Fin r' → ℤ) × (∀ u : Fin s', ZMod (t' u)))
    (e : M ≃+ M') :
    r = r' ∧ s = s' ∧ ∀ u, u < s → t u = t' u := by
  have hcount : ∀ (r s : ℕ) (t : ℕ → ℕ) (q : ℕ) [NeZero q],
      homCount ((Fin r → ℤ) × (∀ u : Fin s, ZMod (t u))) q = q ^ r * ∏ u ∈ range s, cz ((t u : ℕ) : ℤ) q := by
    intro r s t q _
    rw [homCount_of_presentation r s (fun u : Fin s => t u) (AddEquiv.refl _) q,
      ← Fin.prod_univ_eq_prod_range (fun u => cz ((t u : ℕ) : ℤ) q) s]
    congr 1
    exact Finset.prod_congr rfl fun u _ => by rw [cz_eq_gcd]; rfl
  have := rank_tors_unique_core r s r' s' (fun u => (t u : ℤ)) (fun u => (t' u : ℤ))
    (fun u hu => by have := ht u hu; simp only [Int.natAbs_natCast]; omega)
    (fun u hu => by have := ht' u hu; simp only [Int.natAbs_natCast]; omega)
    (fun u hu => Int.natCast_dvd_natCast.2 (hc u hu)) (fun u hu => Int.natCast_dvd_natCast.2 (hc' u hu)) (by
      intro q hq
      have : NeZero q := ⟨by omega⟩
      rw [← hcount r s t q, ← hcount r' s' t' q]
      exact homCount_congr ((p.symm.trans e).trans p') q)
  simpa using this

/-- the general form with units allowed and the free part written as zeros at the END of the chain: if
`M ≃ ∏_{i<n} ZMod (a i)`, `M' ≃ ∏_{i<n'} ZMod (b i)` for divisibility chains `a`, `b` and `n ≤ n'`, and `M ≃ M'`, then `b`
starts with `n' − n` ones (trivial summands) and continues with `a`. -/
theorem cyclic_decomposition_unique {M M' : Type*} [AddCommGroup M] [AddCommGroup M'] (n n' : ℕ) (hle : n ≤ n')
    (a b : ℕ → ℕ) (ha : ∀ i, a i ∣ a (i + 1)) (hb : ∀ i, b i ∣ b (i + 1))
    (p : M ≃+ (∀ i : Fin n, ZMod (a i))) (p' : M' ≃+ (∀ i : Fin n', ZMod (b i))) (e : M ≃+ M') :
    (∀ i, i < n' - n → b i = 1) ∧ ∀ i, i < n → a i = b (n' - n + i) := by
  have := chain_unique_shift n n' hle (fun i => (a i : ℤ)) (fun i => (b i : ℤ))
    (fun i => Int.natCast_dvd_natCast.2 (ha i)) (fun i => Int.natCast_dvd_natCast.2 (hb i)) (by
      intro q _
      rw [← Fin.prod_univ_eq_prod_range (fun i => cz ((a i : ℕ) : ℤ) q) n,
        ← Fin.prod_univ_eq_prod_range (fun i => cz ((b i : ℕ) : ℤ) q) n',
        ← homCount_pi_zmod (fun i : Fin n => a i), ← homCount_pi_zmod (fun i : Fin n' => b i)]
      exact homCount_congr ((p.symm.trans e).trans p') q)
  simpa using this

/-! ### the hypotheses are satisfiable by non-trivial values -/

/-- `M = ℤ × ℤ/2 × ℤ/4` (`r = 1`, `t = (2, 4)`): `#Hom(M, ℤ/q) = q · gcd(2, q) · gcd(4, q)`, e.g. `6·2·2 = 24` for `q = 6` -/
example : homCount ((Fin 1 → ℤ) × (∀ u : Fin 2, ZMod (![2, 4] u))) 6 = 24 := by
  rw [homCount_of_presentation 1 2 ![2, 4] (AddEquiv.refl _) 6]
  decide

/-- … and `ℤ × ℤ/2 × ℤ/4` is NOT isomorphic to `ℤ × ℤ/8` or to `ℤ² × ℤ/2 × ℤ/4` -/
example : IsEmpty (((Fin 1 → ℤ) × (∀ u : Fin 2, ZMod ((fun u => if u = 0 then 2 else 4) u.1)))
    ≃+ ((Fin 1 → ℤ) × (∀ u : Fin 1, ZMod ((fun _ => 8) u.1)))) := by
  refine ⟨fun e => ?_⟩
  have := (rank_and_invariant_factors_unique 1 2 1 1 (fun u => if u = 0 then 2 else 4) (fun _ => 8)
    (by intro u _; show 2 ≤ if u = 0 then 2 else 4; split <;> omega) (by intro u _; omega)
    (by intro u hu; have : u = 0 := by omega
        subst this; decide) (by intro u hu; omega)
    (AddEquiv.refl _) (AddEquiv.refl _) e).2.1
  omega

end Yuiv.HomInv
