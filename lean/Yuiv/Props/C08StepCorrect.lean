import Yuiv.Proofs.C08StepCorrect
import Yuiv.Props.C08
/-
C08 — the code model of `Schur::from_partial_triangular` (`Yuiv.C08.schurModel`, Model/C08Step.lean, the function
the driver `yuivd_c08` runs against the Rust code) is CORRECT, and its outputs are exactly the block matrices of
the algebraic Schur step `schur_step_*` / `schur_homotopy_*` (Props/C08.lean).  Property theorems only;
definitions and lemmas are in `Yuiv/Proofs/C08StepCorrect.lean`.  Proved directly on the definitions of C08Step
(no detour through the CSC model of C12).

Reading guide.
 * scalars: `Lawful R φ` — the operation record `R : Ops α` of the model computes in a commutative ring `K`
   through `φ : α → K` (`+ * neg 0 1` commute with `φ`, `isZero a ↔ φ a = 0`, `inv? a = some u → φ a · φ u = 1`).
   Proved for the driver's tags `Z` (`opsZ`, `K = ℤ`), `Q` (`opsQ`, `K = ℚ`), `F_p` (`opsP p`, `K = ZMod p`,
   `p` prime `< 2^64`, including correctness of the model's `powMod`).  NOT proved: `opsZH` (`ℤ[H]` on coefficient
   lists; it would need a ring isomorphism of `Poly` with `Polynomial ℤ`).
 * matrices: `M : DMat α` dense `m × n`, `r` = size of the pivot block.  `blkA/blkB/blkC/blkD R φ M r …` are the four
   blocks as Mathlib matrices over `K`, `splitBoth … = fromBlocks A B C D` is `M` itself re-indexed
   (`schur_model_blocks`), `splitCols` / `splitRows` read an output matrix with its columns / rows split `r | rest`,
   `toMat` reads a matrix as it is.
 * `UnitTri R upper M r`: every entry of the leading `r × r` block on the wrong side of the diagonal is zero
   (`isZero`), every diagonal entry is stored (`isZero = false`) and `inv?` succeeds on it.  For `Z` this is
   "diagonal entries are ±1", for `Q` / `F_p` "diagonal entries are non-zero" (`unit_tri_int/rat/fp`).
 * panics: the model has three guards (`r ≤ m`, `r ≤ n`, `is_triang`); a run that returns `.ok` passed all three
   (`schur_model_ok_guards`), a run violating one panics (`schur_model_guard_panics`), `.err` never occurs.  The
   fourth panic source, `u.inv().unwrap()` / `debug_assert!(b == 0)` inside the substitution, is NOT equivalent to
   "some diagonal entry is not invertible": the code (and the model) skips a pivot whose right-hand side entry is
   zero, so e.g. `[[2,0],[0,5]]`, `r = 1` returns `.ok` (see the `example` at the end).  What holds on EVERY `.ok`
   run, triangular/invertible or not, is `A·X = B`, `W·A = C` and the Schur data built from `X`, `W`
   (`schur_model_ok_sound`); with `det A` a unit these are `A⁻¹B`, `C A⁻¹` (`schur_model_ok_inv`).
-/
namespace Yuiv.C08
open Yuiv Matrix

/-! ## 1. the triangular substitution `_solve_triangular` -/

section solve
variable {α : Type} {K : Type*} [CommRing K] {R : Ops α} {φ : α → K}

/-- **invariant.** Any run of the outer loop (any matrix `a`, any `diag`, any duplicate-free list `js` of pivots
`< r`, `x` still zero at the pivots to come) preserves `A·x + b`. -/
theorem solve_col_invariant (L : Lawful R φ) (a : DMat α) (r : Nat) (diag : List α) (js : List Nat)
    (s s' : Array α × Array α) (h : foldRes (stepL R a r diag) s js = .ok s') (hnd : js.Nodup)
    (hjs : ∀ j ∈ js, j < r) (hb : s.1.size = r) (hx : s.2.size = r)
    (hxj : ∀ j ∈ js, φ (s.2.getD j R.zero) = 0) :
    s'.1.size = r ∧ s'.2.size = r ∧
      ∀ i, i < r →
        ∑ t ∈ Finset.range r, φ (dget R a i t) * φ (s'.2.getD t R.zero) + φ (s'.1.getD i R.zero) =
        ∑ t ∈ Finset.range r, φ (dget R a i t) * φ (s.2.getD t R.zero) + φ (s.1.getD i R.zero) :=
  outer_sound L a r diag js s s' h hnd hjs hb hx hxj

/-- the `do`-block of the model IS that loop followed by the `debug_assert!` -/
theorem solve_col_unfold (R : Ops α) (upper : Bool) (a : DMat α) (r : Nat) (diag : List α) (b : Array α) :
    solveCol R upper a r diag b =
      match foldRes (stepL R a r diag) (b, Array.replicate r R.zero) (order upper diag.length) with
      | .ok s => if s.1.all R.isZero then .ok s.2 else .panic
      | .panic => .panic
      | .err => .err :=
  solveCol_eq R upper a r diag b

/-- **`A·x = b` whenever `_solve_triangular` returns** — for ANY matrix and ANY `diag` of length `≤ r`. -/
theorem solve_col_correct (L : Lawful R φ) (upper : Bool) (a : DMat α) (r : Nat) (diag : List α)
    (b x : Array α) (h : solveCol R upper a r diag b = .ok x) (hb : b.size = r) (hd : diag.length ≤ r) :
    x.size = r ∧ ∀ i, i < r →
      ∑ t ∈ Finset.range r, φ (dget R a i t) * φ (x.getD t R.zero) = φ (b.getD i R.zero) :=
  solveCol_sound L upper a r diag b x h hb hd

/-- **no panic** on a triangular matrix with stored, invertible diagonal (`collect_diag` is then the diagonal). -/
theorem solve_col_no_panic (L : Lawful R φ) (upper : Bool) (a : DMat α) (r : Nat) (b : Array α) (hb : b.size = r)
    (hA : UnitTri R upper a r) : ∃ x, solveCol R upper a r (collectDiag R a r) b = .ok x :=
  solveCol_complete L upper a r b hb (fun i j hi hj h => (L.isZero _).1 (hA.tri i j hi hj h)) hA.diag

/-- **`solve_triangular`: `A·X = Y`** on every `.ok` run, and the `debug_assert!(is_triang)` held. -/
theorem solve_tri_correct (L : Lawful R φ) (upper : Bool) (a : DMat α) (r : Nat) (y : DMat α) (k : Nat)
    (X : DMat α) (h : solveTri R upper a r y k = .ok X) :
    isTriang R upper a r = true ∧ toMat R φ a r r * toMat R φ X r k = toMat R φ y r k :=
  solveTri_sound L upper a r y k X h

/-- **`solve_triangular_left`: `W·A = Y`** on every `.ok` run. -/
theorem solve_tri_left_correct (L : Lawful R φ) (upper : Bool) (a : DMat α) (r : Nat) (y : DMat α) (k : Nat)
    (W : DMat α) (h : solveTriLeft R upper a r y k = .ok W) :
    isTriang R upper a r = true ∧ toMat R φ W k r * toMat R φ a r r = toMat R φ y k r :=
  solveTriLeft_sound L upper a r y k W h

theorem solve_tri_no_panic (L : Lawful R φ) (upper : Bool) (a : DMat α) (r : Nat) (y : DMat α) (k : Nat)
    (hA : UnitTri R upper a r) : ∃ X, solveTri R upper a r y k = .ok X :=
  solveTri_complete L upper a r y k hA

theorem solve_tri_left_no_panic (L : Lawful R φ) (upper : Bool) (a : DMat α) (r : Nat) (y : DMat α) (k : Nat)
    (hA : UnitTri R upper a r) : ∃ W, solveTriLeft R upper a r y k = .ok W :=
  solveTriLeft_complete L upper a r y k hA

end solve

/-! ## 2. `Schur::from_partial_triangular` -/

section schur
variable {α : Type} {K : Type*} [CommRing K] {R : Ops α} {φ : α → K}

/-- **main theorem.** For `r ≤ m`, `r ≤ n` and a (lower or upper) triangular pivot block with invertible diagonal
the model does not panic, the pivot block `A` is invertible over `K`, `S = D − C·A⁻¹·B`, and the four transfer
matrices are EXACTLY `F_src = [0 1]`, `B_src = [−A⁻¹B; 1]`, `F_tgt = [−C·A⁻¹ 1]`, `B_tgt = [0; 1]` — the
definitions `schurS/Fsrc/Bsrc/Ftgt/Btgt` that `schur_step_*` and `schur_homotopy_*` are stated for. -/
theorem schur_model_correct (L : Lawful R φ) (upper : Bool) (M : DMat α) (m n r : Nat) (hm : r ≤ m) (hn : r ≤ n)
    (hA : UnitTri R upper M r) :
    ∃ o, schurModel R upper M m n r = .ok o ∧ IsUnit (blkA R φ M r).det ∧
      toMat R φ o.s (m - r) (n - r) =
        schurS (blkA R φ M r)⁻¹ (blkB R φ M r (n - r)) (blkC R φ M r (m - r)) (blkD R φ M r (m - r) (n - r)) ∧
      splitCols R φ o.fsrc r (n - r) (n - r) = Fsrc K (Fin r) (Fin (n - r)) ∧
      splitRows R φ o.bsrc r (n - r) (n - r) = Bsrc (blkA R φ M r)⁻¹ (blkB R φ M r (n - r)) ∧
      splitCols R φ o.ftgt r (m - r) (m - r) = Ftgt (blkA R φ M r)⁻¹ (blkC R φ M r (m - r)) ∧
      splitRows R φ o.btgt r (m - r) (m - r) = Btgt K (Fin r) (Fin (m - r)) := by
  obtain ⟨o, ho⟩ := schurModel_complete L upper M m n r hm hn hA
  have hdet := unitTri_det L hA
  exact ⟨o, ho, hdet, schurModel_ok_inv L upper M m n r o ho hdet⟩

/-- **no panic** under the preconditions (part of `schur_model_correct`, stated alone). -/
theorem schur_model_no_panic (L : Lawful R φ) (upper : Bool) (M : DMat α) (m n r : Nat) (hm : r ≤ m) (hn : r ≤ n)
    (hA : UnitTri R upper M r) : ∃ o, schurModel R upper M m n r = .ok o :=
  schurModel_complete L upper M m n r hm hn hA

/-- a non-trivial `K` turns "`inv?` succeeds on the diagonal" into `UnitTri` (stored-ness is automatic). -/
theorem unit_tri_of_inv [Nontrivial K] (L : Lawful R φ) {upper : Bool} {M : DMat α} {r : Nat}
    (tri : ∀ i j, i < r → j < r → (if upper then j < i else i < j) → R.isZero (dget R M i j) = true)
    (diag : ∀ j, j < r → (R.inv? (dget R M j j)).isSome) : UnitTri R upper M r :=
  UnitTri.of_inv L tri diag

/-- **every `.ok` run, no hypothesis on `M`**: the guards held and the outputs are the Schur data of solutions
`X`, `W` of `A·X = B`, `W·A = C`. -/
theorem schur_model_ok_sound (L : Lawful R φ) (upper : Bool) (M : DMat α) (m n r : Nat) (o : SchurOut α)
    (h : schurModel R upper M m n r = .ok o) :
    r ≤ m ∧ r ≤ n ∧ isTriang R upper M r = true ∧
    ∃ (X : Matrix (Fin r) (Fin (n - r)) K) (W : Matrix (Fin (m - r)) (Fin r) K),
      blkA R φ M r * X = blkB R φ M r (n - r) ∧ W * blkA R φ M r = blkC R φ M r (m - r) ∧
      toMat R φ o.s (m - r) (n - r) = blkD R φ M r (m - r) (n - r) - blkC R φ M r (m - r) * X ∧
      splitCols R φ o.fsrc r (n - r) (n - r) = fromCols 0 1 ∧
      splitRows R φ o.bsrc r (n - r) (n - r) = fromRows (-X) 1 ∧
      splitCols R φ o.ftgt r (m - r) (m - r) = fromCols (-W) 1 ∧
      splitRows R φ o.btgt r (m - r) (m - r) = fromRows 0 1 :=
  schurModel_sound L upper M m n r o h

/-- every `.ok` run with `det A` a unit (however `.ok` came about) yields exactly the `schur_step_*` matrices. -/
theorem schur_model_ok_inv (L : Lawful R φ) (upper : Bool) (M : DMat α) (m n r : Nat) (o : SchurOut α)
    (h : schurModel R upper M m n r = .ok o) (hdet : IsUnit (blkA R φ M r).det) :
    toMat R φ o.s (m - r) (n - r) =
        schurS (blkA R φ M r)⁻¹ (blkB R φ M r (n - r)) (blkC R φ M r (m - r)) (blkD R φ M r (m - r) (n - r)) ∧
      splitCols R φ o.fsrc r (n - r) (n - r) = Fsrc K (Fin r) (Fin (n - r)) ∧
      splitRows R φ o.bsrc r (n - r) (n - r) = Bsrc (blkA R φ M r)⁻¹ (blkB R φ M r (n - r)) ∧
      splitCols R φ o.ftgt r (m - r) (m - r) = Ftgt (blkA R φ M r)⁻¹ (blkC R φ M r (m - r)) ∧
      splitRows R φ o.btgt r (m - r) (m - r) = Btgt K (Fin r) (Fin (m - r)) :=
  schurModel_ok_inv L upper M m n r o h hdet

/-- the pivot block of a `UnitTri` matrix is invertible. -/
theorem schur_model_pivot_invertible (L : Lawful R φ) {upper : Bool} {M : DMat α} {r : Nat}
    (hA : UnitTri R upper M r) : IsUnit (blkA R φ M r).det :=
  unitTri_det L hA

/-- the guards: `.ok` ⇒ all three assertions held (no lawfulness needed) … -/
theorem schur_model_ok_guards (R : Ops α) (upper : Bool) (M : DMat α) (m n r : Nat) (o : SchurOut α)
    (h : schurModel R upper M m n r = .ok o) : r ≤ m ∧ r ≤ n ∧ isTriang R upper M r = true :=
  schurModel_guards R upper M m n r o h

/-- … and conversely a violated guard is a panic (never `.err`, never `.ok`). -/
theorem schur_model_guard_panics (R : Ops α) (upper : Bool) (M : DMat α) (m n r : Nat)
    (h : ¬ (r ≤ m ∧ r ≤ n ∧ isTriang R upper M r = true)) : schurModel R upper M m n r = .panic := by
  cases h1 : schurModel R upper M m n r with
  | ok o => exact absurd (schurModel_guards R upper M m n r o h1) h
  | panic => rfl
  | err => exact absurd h1 (schurModel_ne_err upper M m n r)

/-- the model never reports `.err`. -/
theorem schur_model_never_err (R : Ops α) (upper : Bool) (M : DMat α) (m n r : Nat) :
    schurModel R upper M m n r ≠ .err :=
  schurModel_ne_err upper M m n r

omit [CommRing K] in
/-- the four blocks are the blocks of `M`: `fromBlocks A B C D` is `M` re-indexed along
`Fin r ⊕ Fin (m−r) ≃ Fin m`, `Fin r ⊕ Fin (n−r) ≃ Fin n`. -/
theorem schur_model_blocks (R : Ops α) (φ : α → K) (M : DMat α) (m n r : Nat) (hm : r ≤ m) (hn : r ≤ n) :
    fromBlocks (blkA R φ M r) (blkB R φ M r (n - r)) (blkC R φ M r (m - r)) (blkD R φ M r (m - r) (n - r)) =
      (toMat R φ M m n).submatrix (glue r m hm) (glue r n hn) :=
  splitBoth_eq M m n r hm hn

/-! ### the `schur_step_*` / `schur_homotopy_*` identities for what the model returns

Hypotheses: the run returned `o` and `det A` is a unit (both follow from `r ≤ m`, `r ≤ n`, `UnitTri`, see
`schur_model_correct`).  `Mb` abbreviates `fromBlocks A B C D`. -/

/-- (a) `F_tgt · M · B_src = S`. -/
theorem schur_model_FMB (L : Lawful R φ) (upper : Bool) (M : DMat α) (m n r : Nat) (o : SchurOut α)
    (h : schurModel R upper M m n r = .ok o) (hdet : IsUnit (blkA R φ M r).det) :
    splitCols R φ o.ftgt r (m - r) (m - r) * splitBoth R φ M r (m - r) (n - r) *
      splitRows R φ o.bsrc r (n - r) (n - r) = toMat R φ o.s (m - r) (n - r) := by
  obtain ⟨e1, _, e3, e4, _⟩ := schurModel_ok_inv L upper M m n r o h hdet
  rw [e1, e3, e4, splitBoth]
  exact schur_step_FMB _ _ _ _ _ (Matrix.nonsing_inv_mul _ hdet)

/-- (b) `F_src · B_src = 1`. -/
theorem schur_model_FB_src (L : Lawful R φ) (upper : Bool) (M : DMat α) (m n r : Nat) (o : SchurOut α)
    (h : schurModel R upper M m n r = .ok o) (hdet : IsUnit (blkA R φ M r).det) :
    splitCols R φ o.fsrc r (n - r) (n - r) * splitRows R φ o.bsrc r (n - r) (n - r) = 1 := by
  obtain ⟨_, e2, e3, _, _⟩ := schurModel_ok_inv L upper M m n r o h hdet
  rw [e2, e3]
  exact schur_step_FB_src _ _

/-- (b) `F_tgt · B_tgt = 1`. -/
theorem schur_model_FB_tgt (L : Lawful R φ) (upper : Bool) (M : DMat α) (m n r : Nat) (o : SchurOut α)
    (h : schurModel R upper M m n r = .ok o) (hdet : IsUnit (blkA R φ M r).det) :
    splitCols R φ o.ftgt r (m - r) (m - r) * splitRows R φ o.btgt r (m - r) (m - r) = 1 := by
  obtain ⟨_, _, _, e4, e5⟩ := schurModel_ok_inv L upper M m n r o h hdet
  rw [e4, e5]
  exact schur_step_FB_tgt _ _

/-- (c) `F_tgt · M = S · F_src`. -/
theorem schur_model_F_comm (L : Lawful R φ) (upper : Bool) (M : DMat α) (m n r : Nat) (o : SchurOut α)
    (h : schurModel R upper M m n r = .ok o) (hdet : IsUnit (blkA R φ M r).det) :
    splitCols R φ o.ftgt r (m - r) (m - r) * splitBoth R φ M r (m - r) (n - r) =
      toMat R φ o.s (m - r) (n - r) * splitCols R φ o.fsrc r (n - r) (n - r) := by
  obtain ⟨e1, e2, _, e4, _⟩ := schurModel_ok_inv L upper M m n r o h hdet
  rw [e1, e2, e4, splitBoth]
  exact schur_step_F_comm _ _ _ _ _ (Matrix.nonsing_inv_mul _ hdet)

/-- (d) `M · B_src = B_tgt · S`. -/
theorem schur_model_B_comm (L : Lawful R φ) (upper : Bool) (M : DMat α) (m n r : Nat) (o : SchurOut α)
    (h : schurModel R upper M m n r = .ok o) (hdet : IsUnit (blkA R φ M r).det) :
    splitBoth R φ M r (m - r) (n - r) * splitRows R φ o.bsrc r (n - r) (n - r) =
      splitRows R φ o.btgt r (m - r) (m - r) * toMat R φ o.s (m - r) (n - r) := by
  obtain ⟨e1, _, e3, _, e5⟩ := schurModel_ok_inv L upper M m n r o h hdet
  rw [e1, e3, e5, splitBoth]
  exact schur_step_B_comm _ _ _ _ _ (Matrix.mul_nonsing_inv _ hdet)

/-- homotopy at the source: `B_src · F_src − 1 = h · M`, `h = [[−A⁻¹, 0], [0, 0]]`. -/
theorem schur_model_homotopy_src (L : Lawful R φ) (upper : Bool) (M : DMat α) (m n r : Nat) (o : SchurOut α)
    (h : schurModel R upper M m n r = .ok o) (hdet : IsUnit (blkA R φ M r).det) :
    splitRows R φ o.bsrc r (n - r) (n - r) * splitCols R φ o.fsrc r (n - r) (n - r) - 1 =
      hmt (Fin (n - r)) (Fin (m - r)) (blkA R φ M r)⁻¹ * splitBoth R φ M r (m - r) (n - r) := by
  obtain ⟨_, e2, e3, _, _⟩ := schurModel_ok_inv L upper M m n r o h hdet
  rw [e2, e3, splitBoth]
  exact schur_homotopy_src _ _ _ _ _ (Matrix.nonsing_inv_mul _ hdet)

/-- homotopy at the target: `B_tgt · F_tgt − 1 = M · h`. -/
theorem schur_model_homotopy_tgt (L : Lawful R φ) (upper : Bool) (M : DMat α) (m n r : Nat) (o : SchurOut α)
    (h : schurModel R upper M m n r = .ok o) (hdet : IsUnit (blkA R φ M r).det) :
    splitRows R φ o.btgt r (m - r) (m - r) * splitCols R φ o.ftgt r (m - r) (m - r) - 1 =
      splitBoth R φ M r (m - r) (n - r) * hmt (Fin (n - r)) (Fin (m - r)) (blkA R φ M r)⁻¹ := by
  obtain ⟨_, _, _, e4, e5⟩ := schurModel_ok_inv L upper M m n r o h hdet
  rw [e4, e5, splitBoth]
  exact schur_homotopy_tgt _ _ _ _ _ (Matrix.mul_nonsing_inv _ hdet)

/-- neighbours: an incoming differential `N = [x; y]` with `M·N = 0` is `B_src · y`, and `S · y = 0`. -/
theorem schur_model_in (L : Lawful R φ) (upper : Bool) (M : DMat α) (m n r : Nat) (o : SchurOut α)
    (h : schurModel R upper M m n r = .ok o) (hdet : IsUnit (blkA R φ M r).det) {k : Type*}
    (x : Matrix (Fin r) k K) (y : Matrix (Fin (n - r)) k K)
    (hMN : splitBoth R φ M r (m - r) (n - r) * fromRows x y = 0) :
    fromRows x y = splitRows R φ o.bsrc r (n - r) (n - r) * y ∧ toMat R φ o.s (m - r) (n - r) * y = 0 := by
  obtain ⟨e1, _, e3, _, _⟩ := schurModel_ok_inv L upper M m n r o h hdet
  rw [e1, e3]
  exact ⟨schur_step_in_B _ _ _ _ _ x y (Matrix.nonsing_inv_mul _ hdet) hMN,
    schur_step_in_sq_zero _ _ _ _ _ x y (Matrix.nonsing_inv_mul _ hdet) hMN⟩

/-- neighbours: an outgoing differential `L = [z w]` with `L·M = 0` is `w · F_tgt`, and `w · S = 0`. -/
theorem schur_model_out (L : Lawful R φ) (upper : Bool) (M : DMat α) (m n r : Nat) (o : SchurOut α)
    (h : schurModel R upper M m n r = .ok o) (hdet : IsUnit (blkA R φ M r).det) {l : Type*}
    (z : Matrix l (Fin r) K) (w : Matrix l (Fin (m - r)) K)
    (hLM : fromCols z w * splitBoth R φ M r (m - r) (n - r) = 0) :
    fromCols z w = w * splitCols R φ o.ftgt r (m - r) (m - r) ∧ w * toMat R φ o.s (m - r) (n - r) = 0 := by
  obtain ⟨e1, _, _, e4, _⟩ := schurModel_ok_inv L upper M m n r o h hdet
  rw [e1, e4]
  exact ⟨schur_step_out_F _ _ _ _ _ z w (Matrix.mul_nonsing_inv _ hdet) hLM,
    schur_step_out_sq_zero _ _ _ _ _ z w (Matrix.mul_nonsing_inv _ hdet) hLM⟩

end schur

/-! ## 3. the scalar tags of the driver -/

/-- tag `Z`: `opsZ` computes in `ℤ` (`inv?` succeeds exactly on `±1`). -/
theorem lawful_Z : Lawful opsZ (fun a : Int => a) := lawful_opsZ
/-- tag `Q`: `opsQ` computes in `ℚ`. -/
theorem lawful_Q : Lawful opsQ (fun a : Rat => a) := lawful_opsQ
/-- tags `F2, F3, …`: `opsP p` computes in `ZMod p` on integer representatives, for a prime `p < 2^64`
(`inv?` is Fermat's `a^(p-2)` through the model's 64-step `powMod`). -/
theorem lawful_Fp (p : Nat) [Fact p.Prime] (hp : p < 2 ^ 64) : Lawful (opsP p) (fun a : Int => (a : ZMod p)) :=
  lawful_opsP p hp
/-- the model's `powMod` is modular exponentiation for exponents `< 2^64`. -/
theorem powMod_correct (p : Nat) (a : Int) (e : Nat) (he : e < 2 ^ 64) :
    ((powMod a e p : Int) : ZMod p) = (a : ZMod p) ^ e := by
  rw [powMod_eq, loop_pow p 64 1 (a % p) e he, ZMod.intCast_mod, Int.cast_one, one_mul]

/-- over `ℤ`: triangular with diagonal entries `±1`. -/
theorem unit_tri_int (upper : Bool) (M : DMat Int) (r : Nat)
    (tri : ∀ i j, i < r → j < r → (if upper then j < i else i < j) → dget opsZ M i j = 0)
    (diag : ∀ j, j < r → dget opsZ M j j = 1 ∨ dget opsZ M j j = -1) : UnitTri opsZ upper M r :=
  unitTri_int upper M r tri diag
/-- over `ℚ`: triangular with non-zero diagonal. -/
theorem unit_tri_rat (upper : Bool) (M : DMat Rat) (r : Nat)
    (tri : ∀ i j, i < r → j < r → (if upper then j < i else i < j) → dget opsQ M i j = 0)
    (diag : ∀ j, j < r → dget opsQ M j j ≠ 0) : UnitTri opsQ upper M r :=
  unitTri_rat upper M r tri diag
/-- over `F_p`: triangular mod `p` with diagonal non-zero mod `p`. -/
theorem unit_tri_fp (p : Nat) (upper : Bool) (M : DMat Int) (r : Nat)
    (tri : ∀ i j, i < r → j < r → (if upper then j < i else i < j) → dget (opsP p) M i j % (p : Int) = 0)
    (diag : ∀ j, j < r → dget (opsP p) M j j % (p : Int) ≠ 0) : UnitTri (opsP p) upper M r :=
  unitTri_fp p upper M r tri diag

/-- **over `ℤ`, diagonal `±1`** — `schur_model_correct` spelled out for the tag `Z` (`φ = id`). -/
theorem schur_model_correct_int (upper : Bool) (M : DMat Int) (m n r : Nat) (hm : r ≤ m) (hn : r ≤ n)
    (tri : ∀ i j, i < r → j < r → (if upper then j < i else i < j) → dget opsZ M i j = 0)
    (diag : ∀ j, j < r → dget opsZ M j j = 1 ∨ dget opsZ M j j = -1) :
    ∃ o, schurModel opsZ upper M m n r = .ok o ∧ IsUnit (blkA opsZ (fun a : Int => a) M r).det ∧
      toMat opsZ (fun a : Int => a) o.s (m - r) (n - r) =
        blkD opsZ (fun a : Int => a) M r (m - r) (n - r) -
          blkC opsZ (fun a : Int => a) M r (m - r) * (blkA opsZ (fun a : Int => a) M r)⁻¹ *
            blkB opsZ (fun a : Int => a) M r (n - r) ∧
      splitCols opsZ (fun a : Int => a) o.fsrc r (n - r) (n - r) = fromCols 0 1 ∧
      splitRows opsZ (fun a : Int => a) o.bsrc r (n - r) (n - r) =
        fromRows (-((blkA opsZ (fun a : Int => a) M r)⁻¹ * blkB opsZ (fun a : Int => a) M r (n - r))) 1 ∧
      splitCols opsZ (fun a : Int => a) o.ftgt r (m - r) (m - r) =
        fromCols (-(blkC opsZ (fun a : Int => a) M r (m - r) * (blkA opsZ (fun a : Int => a) M r)⁻¹)) 1 ∧
      splitRows opsZ (fun a : Int => a) o.btgt r (m - r) (m - r) = fromRows 0 1 :=
  schur_model_correct lawful_opsZ upper M m n r hm hn (unitTri_int upper M r tri diag)

/-- over `ℚ`, non-zero diagonal. -/
theorem schur_model_correct_rat (upper : Bool) (M : DMat Rat) (m n r : Nat) (hm : r ≤ m) (hn : r ≤ n)
    (tri : ∀ i j, i < r → j < r → (if upper then j < i else i < j) → dget opsQ M i j = 0)
    (diag : ∀ j, j < r → dget opsQ M j j ≠ 0) :
    ∃ o, schurModel opsQ upper M m n r = .ok o ∧ IsUnit (blkA opsQ (fun a : Rat => a) M r).det ∧
      toMat opsQ (fun a : Rat => a) o.s (m - r) (n - r) =
        schurS (blkA opsQ (fun a : Rat => a) M r)⁻¹ (blkB opsQ (fun a : Rat => a) M r (n - r))
          (blkC opsQ (fun a : Rat => a) M r (m - r)) (blkD opsQ (fun a : Rat => a) M r (m - r) (n - r)) ∧
      splitCols opsQ (fun a : Rat => a) o.fsrc r (n - r) (n - r) = Fsrc ℚ (Fin r) (Fin (n - r)) ∧
      splitRows opsQ (fun a : Rat => a) o.bsrc r (n - r) (n - r) =
        Bsrc (blkA opsQ (fun a : Rat => a) M r)⁻¹ (blkB opsQ (fun a : Rat => a) M r (n - r)) ∧
      splitCols opsQ (fun a : Rat => a) o.ftgt r (m - r) (m - r) =
        Ftgt (blkA opsQ (fun a : Rat => a) M r)⁻¹ (blkC opsQ (fun a : Rat => a) M r (m - r)) ∧
      splitRows opsQ (fun a : Rat => a) o.btgt r (m - r) (m - r) = Btgt ℚ (Fin r) (Fin (m - r)) :=
  schur_model_correct lawful_opsQ upper M m n r hm hn (unitTri_rat upper M r tri diag)

/-- over `F_p` (prime `p < 2^64`), diagonal non-zero mod `p`; the statement is about the images in `ZMod p`. -/
theorem schur_model_correct_fp (p : Nat) [Fact p.Prime] (hp : p < 2 ^ 64) (upper : Bool) (M : DMat Int)
    (m n r : Nat) (hm : r ≤ m) (hn : r ≤ n)
    (tri : ∀ i j, i < r → j < r → (if upper then j < i else i < j) → dget (opsP p) M i j % (p : Int) = 0)
    (diag : ∀ j, j < r → dget (opsP p) M j j % (p : Int) ≠ 0) :
    ∃ o, schurModel (opsP p) upper M m n r = .ok o ∧
      IsUnit (blkA (opsP p) (fun a : Int => (a : ZMod p)) M r).det ∧
      toMat (opsP p) (fun a : Int => (a : ZMod p)) o.s (m - r) (n - r) =
        schurS (blkA (opsP p) (fun a : Int => (a : ZMod p)) M r)⁻¹
          (blkB (opsP p) (fun a : Int => (a : ZMod p)) M r (n - r))
          (blkC (opsP p) (fun a : Int => (a : ZMod p)) M r (m - r))
          (blkD (opsP p) (fun a : Int => (a : ZMod p)) M r (m - r) (n - r)) ∧
      splitCols (opsP p) (fun a : Int => (a : ZMod p)) o.fsrc r (n - r) (n - r) =
        Fsrc (ZMod p) (Fin r) (Fin (n - r)) ∧
      splitRows (opsP p) (fun a : Int => (a : ZMod p)) o.bsrc r (n - r) (n - r) =
        Bsrc (blkA (opsP p) (fun a : Int => (a : ZMod p)) M r)⁻¹
          (blkB (opsP p) (fun a : Int => (a : ZMod p)) M r (n - r)) ∧
      splitCols (opsP p) (fun a : Int => (a : ZMod p)) o.ftgt r (m - r) (m - r) =
        Ftgt (blkA (opsP p) (fun a : Int => (a : ZMod p)) M r)⁻¹
          (blkC (opsP p) (fun a : Int => (a : ZMod p)) M r (m - r)) ∧
      splitRows (opsP p) (fun a : Int => (a : ZMod p)) o.btgt r (m - r) (m - r) =
        Btgt (ZMod p) (Fin r) (Fin (m - r)) :=
  schur_model_correct (lawful_opsP p hp) upper M m n r hm hn (unitTri_fp p upper M r tri diag)

/-! ## 4. the hypotheses are satisfiable; the `.ok`/panic boundary is as described -/

/-- a `3 × 3` integer matrix, `r = 2`, lower triangular pivot block with diagonal `1, -1`, all blocks non-zero -/
def exM : DMat Int := #[#[1, 0, 2], #[3, -1, 4], #[5, 6, 7]]

example : UnitTri opsZ false exM 2 := by
  refine unitTri_int false exM 2 ?_ ?_
  · intro i j hi hj h
    have : i = 0 ∧ j = 1 := by simp at h; omega
    obtain ⟨rfl, rfl⟩ := this
    decide
  · intro j hj
    have : j = 0 ∨ j = 1 := by omega
    rcases this with rfl | rfl <;> decide

/-- … on which the model returns `S = [7 − (5·2 + 6·2)] = [-15]` (`A⁻¹B = [2; 2]`) -/
example : (schurModel opsZ false exM 3 3 2).isOk = true ∧
    showSchur opsZ 3 3 2 (schurModel opsZ false exM 3 3 2) =
      "1 1 -15 | 1 3 0 0 1 | 3 1 -2 -2 1 | 1 3 -23 6 1 | 3 1 0 0 1" := by
  constructor <;> decide +kernel

/-- hypotheses of the `schur_model_*` corollaries (`.ok` and `det A` a unit) for that matrix -/
example : ∃ o, schurModel opsZ false exM 3 3 2 = .ok o ∧ IsUnit (blkA opsZ (fun a : Int => a) exM 2).det := by
  have hA : UnitTri opsZ false exM 2 := by
    refine unitTri_int false exM 2 ?_ ?_
    · intro i j hi hj h
      have : i = 0 ∧ j = 1 := by simp at h; omega
      obtain ⟨rfl, rfl⟩ := this
      decide
    · intro j hj
      have : j = 0 ∨ j = 1 := by omega
      rcases this with rfl | rfl <;> decide
  obtain ⟨o, ho, hdet, _⟩ := schur_model_correct lawful_opsZ false exM 3 3 2 (by decide) (by decide) hA
  exact ⟨o, ho, hdet⟩

/-- a non-unit diagonal entry need NOT panic: its right-hand sides are zero, the pivot is skipped -/
example : (schurModel opsZ false #[#[2, 0], #[0, 5]] 2 2 1).isOk = true := by decide +kernel

/-- … it does as soon as the inverse is needed -/
example : schurModel opsZ false #[#[2, 1], #[0, 5]] 2 2 1 = .panic := by
  have hk : (schurModel opsZ false #[#[2, 1], #[0, 5]] 2 2 1).isOk = false := by decide +kernel
  cases h : schurModel opsZ false #[#[2, 1], #[0, 5]] 2 2 1 with
  | panic => rfl
  | ok o => rw [h] at hk; cases hk
  | err => exact absurd h (schurModel_ne_err _ _ _ _ _)

/-- a violated guard (`is_triang`) panics -/
example : schurModel opsZ false #[#[1, 7], #[0, 1]] 2 2 2 = .panic :=
  schur_model_guard_panics _ _ _ _ _ _ (by decide +kernel)

end Yuiv.C08
