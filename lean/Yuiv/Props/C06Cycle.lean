import Yuiv.Proofs.C06CycleMain
import Yuiv.Proofs.C06CycleHyp
import Yuiv.Proofs.C06CycleEx
import Yuiv.Proofs.C06CycleSigns
/-
C06Cycle — THE LIFT of the local cycle lemma (`Props/C06Canon.canon_is_cycle_local`) to the cube reference:
`KhRef.Cube.d` applied to the canonical chain is the zero chain.  Property theorems only; proofs in
`Proofs/C06CycleDefs, C06CycleCirc, C06CycleD, C06CycleHash, C06CycleHyp, C06CycleMerge, C06CycleConn, C06CycleEdge,
C06CycleAlg, C06CycleMain, C06CycleSigns, C06CycleEx`.

Setting (exactly the computation of the C06 driver, `Drv/C06.canonReply`): `t = 0`, any `h`; the cube is
`{ mkCube l ⟨h, 0, false⟩ with base := base }`, the differential `Cube.d` with parameters `⟨h, 0, base.isSome⟩`
(unreduced: `base = none`; reduced: the base-point filter of `Cube.d` is covered), the chain is
`chainOf s h cols = ⊗ over the circles of the state s of (X if colour a, X − h if colour b)` expanded into cube
generators, and `dOfChain` is the driver's own evaluation of `d z` (hash-map accumulation, zero entries dropped).

Hypotheses.
 * `validK l` (decidable): every crossing has four slots and every edge label occurs in exactly two slots.
   It is needed: with free ends, changing one smoothing need not merge or split circles (`X[1,2,3,4]`).
 * H = `bicoloured l (circles of s) cols` (decidable, on the reference's own circle list): every unresolved crossing
   touches exactly two circles of the state and these have different colours.  For the orientation preserving state
   and the BFS colouring of the Seifert circles this is the bipartiteness of the Seifert graph — a TOPOLOGICAL INPUT
   that is NOT proved here (neither in general nor for braid closures); the driver evaluates it on every instance
   (`crossingsBicoloured`, on the walk-model Seifert circles), and `bicoloured_of_driver` + `canon_cycles_dz` turn the
   driver's per-instance re-check `d z = 0` into a theorem under the driver's checks `hyp` and `sets`.
 * nothing else: the state `s` is arbitrary (`s < 2^n`), it need not be the orientation preserving one.

Structure: (i) `flipped_crossing_merges_arcs` / `oriented_state_edges_are_merges` — every cube edge out of `s` is a
merge of two differently coloured circles (parity argument on the 2-regular arc graph + union-find specification of
`KhRef.circles`); (ii)+(iii) `canon_edge_zero` — the edge map multiplies the two tensor factors and fixes the others,
and (X)(X − h) = 0 (`mergeColours_zero` of `Props/C06Canon`); (iv) `canon_is_cycle` — all edges together.
-/
namespace Yuiv.C06Cycle
open Yuiv Yuiv.KhRef Yuiv.C06Canon Yuiv.C04Inv Yuiv.Drv.C06

/-! ### (i) edges out of a bicoloured state are merges -/

/-- the arc relation of the neighbouring state: flipping the `k`-th unresolved crossing `x` of a valid diagram from its
0- to its 1-resolution, where `a—b`, `c—d` are the arcs of `x` in `s` (`a, b, c, d` = the four slots of `x`): if the two
arcs lie on different circles of `s`, the circles of `s ||| 1 <<< k` are the circles of `s` with the circles of `a`
and of `c` merged into one, all others unchanged -/
theorem flipped_crossing_merges_arcs (l : Link) (hv : validK l = true) (s k : Nat) (hk : k < crossingNum l)
    (hb : s.testBit k = false) :
    ∃ (x : Crossing) (a b c d : Nat), x ∈ l ∧ x.ct.isResolved = false ∧ x.e.toList.Perm [a, b, c, d] ∧
      Conn (statePairs l s) a b ∧ Conn (statePairs l s) c d ∧
      (¬ Conn (statePairs l s) a c → ∀ u v, Conn (statePairs l (s ||| 1 <<< k)) u v ↔
        Conn (statePairs l s) u v ∨
          ((Conn (statePairs l s) u a ∨ Conn (statePairs l s) u c) ∧
           (Conn (statePairs l s) v a ∨ Conn (statePairs l s) v c))) :=
  neighbour_conn l hv s k hk hb

/-- the circle list computed by the reference is the list of classes of the arc relation, for every well-formed
diagram and every state (full content of `KhRef.circles`, not only its size) -/
theorem khref_circles_spec (l : Link) (hwf : WF l) (s : Nat) :
    CirclesSpec (edgeLabels l) (statePairs l s) (circles l (edgeLabels l) s) :=
  circles_spec l hwf s

/-- (i) under H every cube edge out of `s` is a MERGE: exactly two circles `i1 < i2` of `s` disappear, they have
different colours, exactly one circle `j0` of the neighbouring state is new, every other circle is common -/
theorem oriented_state_edges_are_merges (l : Link) (hv : validK l = true) (s k : Nat) (hk : k < crossingNum l)
    (hb : s.testBit k = false) (cols : List Colour)
    (H : bicoloured l (circles l (edgeLabels l) s) cols = true) :
    ∃ i1 i2 j0, i1 < i2 ∧ i2 < (circles l (edgeLabels l) s).size ∧
      j0 < (circles l (edgeLabels l) (s ||| 1 <<< k)).size ∧
      goneOf (circles l (edgeLabels l) s) (circles l (edgeLabels l) (s ||| 1 <<< k)) = #[i1, i2] ∧
      bornOf (circles l (edgeLabels l) s) (circles l (edgeLabels l) (s ||| 1 <<< k)) = #[j0] ∧
      cols.getD i1 .a ≠ cols.getD i2 .a :=
  edge_shape l hv s k hk hb cols H

/-! ### the reference's `Cube.d` and the driver's `dOfChain`, functionally -/

/-- `Cube.d` (nested loops, early `return none`) equals its loop-free form, for ALL inputs -/
theorem khref_cube_d_functional (c : Cube) (p : Params) (g : Gen) :
    c.d p g = (dRaw c p g).map (fun out =>
      match c.base with
      | none => out.toArray
      | some _ => (out.filter (fun t => baseKeep c t.1)).toArray) :=
  cube_d_eq c p g

/-- the driver's re-check `dOfChain c p z = some []` means exactly: `d` is defined on every generator of `z` and every
target generator has total coefficient `0` in `d z` -/
theorem driver_dOfChain_meaning (c : Cube) (p : Params) (z : Chain) :
    dOfChain c p z = some [] ↔
      (∀ ga ∈ z, ∃ ts, c.d p ga.1 = some ts) ∧
      ∀ y, chainSum (fun g => ((c.d p g).getD #[]).toList) z y = 0 :=
  dOfChain_nil_iff c p z

/-! ### (ii) + (iii) one edge -/

/-- ONE EDGE: under H, along the cube edge `k` out of `s` (any labelling mask `m`, reduced or not) the edge map is
defined, it is the merge `prod` on the two circles `i1, i2` (`mergeTerms`), and the canonical chain of `cols` is sent
to `0`: every target generator `y` gets total coefficient `0` -/
theorem canon_edge_zero (l : Link) (hv : validK l = true) (h : Int) (base : Option Nat) (red : Bool) (s k : Nat)
    (hs : s < 2 ^ crossingNum l) (hk : k < crossingNum l) (hb : s.testBit k = false) (cols : List Colour)
    (hlen : cols.length = (circles l (edgeLabels l) s).size)
    (H : bicoloured l (circles l (edgeLabels l) s) cols = true) :
    ∃ i1 i2 j0,
      (∀ m, edgeTerms { mkCube l ⟨h, 0, false⟩ with base := base } ⟨h, 0, red⟩ ⟨s, m⟩ k =
        some (mergeTerms { mkCube l ⟨h, 0, false⟩ with base := base } h s k i1 i2 j0 m)) ∧
      ∀ y, ((chainOf s h cols).map (fun ga => ga.2 * termSum y
        ((edgeTerms { mkCube l ⟨h, 0, false⟩ with base := base } ⟨h, 0, red⟩ ga.1 k).getD []))).sum = 0 := by
  obtain ⟨i1, i2, j0, h12, h2, hg, hbn, hne⟩ :=
    cube_edge_data l hv ⟨h, 0, false⟩ base s hs cols cols hlen H (fun _ _ _ _ e => e) k hk hb
  refine ⟨i1, i2, j0, fun m => edgeTerms_merge _ h red s k i1 i2 j0 m hg hbn, fun y => ?_⟩
  refine Eq.trans ?_ (edge_sum_zero _ h s k i1 i2 j0 cols h12 h2 hg hne y)
  unfold chainOf
  rw [List.map_map]
  congr 1
  apply List.map_congr_left
  intro t _
  simp only [Function.comp, edgeTerms_merge _ h red s k i1 i2 j0 t.1 hg hbn, Option.getD_some]

/-! ### (iv) the canonical chain is a cycle of the cube reference -/

/-- THE LIFT: for every valid diagram `l`, every `h` (with `t = 0`), unreduced or reduced at any base edge, every state
`s` and every colouring `cols` of its circles satisfying H, the driver's evaluation of `d` on the canonical chain
`chainOf s h cols` in the cube reference returns the zero chain -/
theorem canon_is_cycle (l : Link) (hv : validK l = true) (h : Int) (base : Option Nat) (red : Bool) (s : Nat)
    (hs : s < 2 ^ crossingNum l) (cols : List Colour)
    (hlen : cols.length = (circles l (edgeLabels l) s).size)
    (H : bicoloured l (circles l (edgeLabels l) s) cols = true) :
    dOfChain { mkCube l ⟨h, 0, false⟩ with base := base } ⟨h, 0, red⟩ (chainOf s h cols) = some [] :=
  chain_cycle_core l hv h base red s hs cols cols hlen H (fun _ _ _ _ e => e)

/-- the second canonical cycle (colours swapped) is a cycle under the same hypothesis -/
theorem canon_is_cycle_swapped (l : Link) (hv : validK l = true) (h : Int) (base : Option Nat) (red : Bool) (s : Nat)
    (hs : s < 2 ^ crossingNum l) (cols : List Colour)
    (hlen : cols.length = (circles l (edgeLabels l) s).size)
    (H : bicoloured l (circles l (edgeLabels l) s) cols = true) :
    dOfChain { mkCube l ⟨h, 0, false⟩ with base := base } ⟨h, 0, red⟩ (chainOf s h (cols.map Colour.other)) =
      some [] :=
  chain_cycle_core l hv h base red s hs cols (cols.map Colour.other) (by simpa using hlen) H
    (fun i1 i2 h1 h2 e => getD_map_other cols i1 i2 (by simpa using h1) (by simpa using h2) e)

/-- in coefficients (no hash map): `Cube.d` is defined on every generator of the canonical chain, and every target
generator has coefficient `0` in `d z` -/
theorem canon_is_cycle_coefficients (l : Link) (hv : validK l = true) (h : Int) (base : Option Nat) (red : Bool)
    (s : Nat) (hs : s < 2 ^ crossingNum l) (cols : List Colour)
    (hlen : cols.length = (circles l (edgeLabels l) s).size)
    (H : bicoloured l (circles l (edgeLabels l) s) cols = true) :
    (∀ ga ∈ chainOf s h cols, ∃ ts,
      ({ mkCube l ⟨h, 0, false⟩ with base := base } : Cube).d ⟨h, 0, red⟩ ga.1 = some ts) ∧
    ∀ y, chainSum (fun g =>
      ((({ mkCube l ⟨h, 0, false⟩ with base := base } : Cube).d ⟨h, 0, red⟩ g).getD #[]).toList)
        (chainOf s h cols) y = 0 :=
  (dOfChain_nil_iff _ _ _).1 (canon_is_cycle l hv h base red s hs cols hlen H)

/-! ### the driver's per-instance re-check as a theorem -/

/-- the hypothesis check of the driver (`crossingsBicoloured`, on the walk-model Seifert circles `cc`) gives H on the
cube's circle list, once the driver's `sets` check (sorted walk-model circles = cube circles) holds -/
theorem driver_hyp_gives_H (l : Link) (cc : List (Path × Colour)) (circ : Array (Array Nat))
    (hne : ∀ i, i < circ.size → circ[i]! ≠ #[])
    (hdisj : ∀ i j, i < circ.size → j < circ.size → ∀ x, x ∈ circ[i]! → x ∈ circ[j]! → i = j)
    (hsets : (((cc.map (fun pc => sortNat pc.1.edges)).toArray.qsort (fun x y => x.headD 0 < y.headD 0)).toList
                == circ.toList.map (·.toList)) = true)
    (hyp : crossingsBicoloured l cc = true) :
    bicoloured l circ (coloursInRefOrder cc circ.toList) = true :=
  bicoloured_of_driver l cc circ hne hdisj hsets hyp

/-- `canonReply`'s `dz` check is implied by its `hyp` and `sets` checks: for a valid diagram with `signs` of the right
length, whatever cycles `canonCyclesAt` returns (none for links, one in the reduced, two in the unreduced theory), if
the coloured Seifert circles they were built from pass the driver's `crossingsBicoloured` test and agree (as sorted
edge sets) with the circles of the cube at the orientation preserving state, then `dOfChain` returns the zero chain
on every one of them — the expression `dzOk` of `Drv/C06.canonReply` is `true` -/
theorem canon_cycles_dz (l : Link) (hv : validK l = true) (signs : List Int) (hsl : signs.length = crossingNum l)
    (h : Int) (base : Option Nat) (zs : List Chain)
    (hz : canonCyclesAt l signs h base = .ok zs)
    (hchk : ∀ start cc, (match base with | some e => some e | none => firstEdge l) = some start →
      coloredSeifertCircles l signs start = .ok cc →
      crossingsBicoloured l cc = true ∧
      (((cc.map (fun pc => sortNat pc.1.edges)).toArray.qsort (fun x y => x.headD 0 < y.headD 0)).toList
        == ((({ mkCube l ⟨h, 0, false⟩ with base := base } : Cube).circ[oriPresState signs]!).toList.map
              (·.toList))) = true) :
    zs.all (fun z =>
      match dOfChain { mkCube l ⟨h, 0, false⟩ with base := base } ⟨h, 0, base.isSome⟩ z with
      | some [] => true
      | _ => false) = true := by
  have hs : oriPresState signs < 2 ^ crossingNum l := hsl ▸ oriPresState_lt signs
  rcases canonCyclesAt_cc l signs h base zs hz with rfl | ⟨start, cc, hstart, hcc, hzs⟩
  · rfl
  · obtain ⟨hyp, hsets⟩ := hchk start cc hstart hcc
    rw [mkCube_circ l _ base _ hs] at hsets
    have spec := circles_spec l (wf_of_validK l hv) (oriPresState signs)
    have hne : ∀ i, i < (circles l (edgeLabels l) (oriPresState signs)).size →
        (circles l (edgeLabels l) (oriPresState signs))[i]! ≠ #[] := by
      intro i hi e
      obtain ⟨x, hx⟩ := spec.nonempty hi
      rw [e] at hx
      simp at hx
    have hdisj : ∀ i j, i < (circles l (edgeLabels l) (oriPresState signs)).size →
        j < (circles l (edgeLabels l) (oriPresState signs)).size →
        ∀ x, x ∈ (circles l (edgeLabels l) (oriPresState signs))[i]! →
          x ∈ (circles l (edgeLabels l) (oriPresState signs))[j]! → i = j :=
      fun i j hi hj x hxi hxj => spec.sep i j hi hj x x hxi hxj (Conn.refl x)
    have H := bicoloured_of_driver l cc _ hne hdisj hsets hyp
    have hlen : (coloursInRefOrder cc (circles l (edgeLabels l) (oriPresState signs)).toList).length =
        (circles l (edgeLabels l) (oriPresState signs)).size := by
      simp [coloursInRefOrder]
    have c1 := canon_is_cycle l hv h base base.isSome _ hs _ hlen H
    have c2 := canon_is_cycle_swapped l hv h base base.isSome _ hs _ hlen H
    rw [hzs]
    cases hb : base.isSome
    · simp only [Bool.false_eq_true, if_false, List.all_cons, List.all_nil, Bool.and_true]
      rw [hb] at c1 c2
      rw [c1, c2]
      rfl
    · simp only [if_true, List.all_cons, List.all_nil, Bool.and_true]
      rw [hb] at c1
      rw [c1]

/-- the same with the signs the driver uses (`KhRef.crossingSigns l = some sg`, one sign per unresolved crossing, so the
orientation preserving state is a vertex of the cube): this is `canonReply l h base` — its `dz` flag is `true`
whenever its `hyp` and `sets` flags are, for every valid diagram -/
theorem canon_reply_dz (l : Link) (hv : validK l = true) (sg : Array Int) (hsg : crossingSigns l = some sg)
    (h : Int) (base : Option Nat) (zs : List Chain)
    (hz : canonCyclesAt l sg.toList h base = .ok zs)
    (hchk : ∀ start cc, (match base with | some e => some e | none => firstEdge l) = some start →
      coloredSeifertCircles l sg.toList start = .ok cc →
      crossingsBicoloured l cc = true ∧
      (((cc.map (fun pc => sortNat pc.1.edges)).toArray.qsort (fun x y => x.headD 0 < y.headD 0)).toList
        == ((({ mkCube l ⟨h, 0, false⟩ with base := base } : Cube).circ[oriPresState sg.toList]!).toList.map
              (·.toList))) = true) :
    zs.all (fun z =>
      match dOfChain { mkCube l ⟨h, 0, false⟩ with base := base } ⟨h, 0, base.isSome⟩ z with
      | some [] => true
      | _ => false) = true :=
  canon_cycles_dz l hv sg.toList (by rw [Array.length_toList]; exact crossingSigns_size l sg hsg) h base zs hz hchk

/-! ### non-vacuity: the hypotheses hold for (mirror) trefoil and Hopf link, and the chains are not zero

`trefoilX` = `X[1,4,2,5] X[3,6,4,1] X[5,2,6,3]` has three negative crossings (`KhRef.crossingSigns`, see
`Props/C18Bridge`), its orientation preserving state is `0b111` — the top vertex, no edge leaves it; the mirror diagram
(`Xm`) has the orientation preserving state `0`, all three edges leave it.  Both have the Seifert circles
`{1,3,5}`, `{2,4,6}`.  Same for the Hopf link `X[4,1,3,2] X[2,3,1,4]` (circles `{1,3}`, `{2,4}`). -/

example : validK trefoilX = true ∧ validK trefoilM = true ∧ validK hopfX = true ∧ validK hopfM = true := by
  decide +kernel

example : circles trefoilM (edgeLabels trefoilM) 0 = #[#[1, 3, 5], #[2, 4, 6]] ∧
    bicoloured trefoilM (circles trefoilM (edgeLabels trefoilM) 0) [.a, .b] = true ∧
    bicoloured trefoilM (circles trefoilM (edgeLabels trefoilM) 0) [.a, .a] = false := by
  rw [edgeLabels_trefoilM]; decide +kernel

example : circles trefoilX (edgeLabels trefoilX) 7 = #[#[1, 3, 5], #[2, 4, 6]] ∧
    bicoloured trefoilX (circles trefoilX (edgeLabels trefoilX) 7) [.a, .b] = true := by
  rw [edgeLabels_trefoilX]; decide +kernel

example : circles hopfM (edgeLabels hopfM) 0 = #[#[1, 3], #[2, 4]] ∧
    bicoloured hopfM (circles hopfM (edgeLabels hopfM) 0) [.a, .b] = true ∧
    bicoloured hopfX (circles hopfX (edgeLabels hopfX) 3) [.b, .a] = true := by
  rw [edgeLabels_hopfM, edgeLabels_hopfX]; decide +kernel

/-- the instance of `canon_is_cycle` at the mirror trefoil, `h = 2`, state `0` (three merge edges leave it); the chain
is `−2·(X⊗1) + X⊗X ≠ 0` -/
example : dOfChain { mkCube trefoilM ⟨2, 0, false⟩ with base := none } ⟨2, 0, false⟩ (chainOf 0 2 [.a, .b]) = some [] ∧
    (chainOf 0 2 [.a, .b]).map (fun ga => (ga.1.s, ga.1.mask, ga.2)) = [(0, 1, -2), (0, 3, 1)] :=
  ⟨canon_is_cycle trefoilM (by decide +kernel) 2 none false 0 (by decide +kernel) [.a, .b]
      (by rw [edgeLabels_trefoilM]; decide +kernel) (by rw [edgeLabels_trefoilM]; decide +kernel),
    by decide +kernel⟩

/-- the instance at the mirror Hopf link, reduced theory based at edge `1` -/
example : dOfChain { mkCube hopfM ⟨3, 0, false⟩ with base := some 1 } ⟨3, 0, true⟩ (chainOf 0 3 [.b, .a]) = some [] :=
  canon_is_cycle hopfM (by decide +kernel) 3 (some 1) true 0 (by decide +kernel) [.b, .a]
    (by rw [edgeLabels_hopfM]; decide +kernel) (by rw [edgeLabels_hopfM]; decide +kernel)

/-- the parity argument at work: the two arcs of the first crossing of the mirror trefoil in the state `0` lie on the
different circles `{1,3,5}` and `{2,4,6}`, and the state `1` has the single circle `{1,…,6}` -/
example : circles trefoilM (edgeLabels trefoilM) 1 = #[#[1, 2, 3, 4, 5, 6]] ∧
    goneOf (circles trefoilM (edgeLabels trefoilM) 0) (circles trefoilM (edgeLabels trefoilM) 1) = #[0, 1] ∧
    bornOf (circles trefoilM (edgeLabels trefoilM) 0) (circles trefoilM (edgeLabels trefoilM) 1) = #[0] := by
  rw [edgeLabels_trefoilM]; decide +kernel

/-- validity is needed: the crossing with four free ends `freeX = X[1,2,3,4]` is neither merged nor split by changing
its smoothing (two circles gone, two born), and the reference's `d` is undefined there -/
example : validK freeX = false ∧
    goneOf (circles freeX (edgeLabels freeX) 0) (circles freeX (edgeLabels freeX) 1) = #[0, 1] ∧
    bornOf (circles freeX (edgeLabels freeX) 0) (circles freeX (edgeLabels freeX) 1) = #[0, 1] := by
  rw [edgeLabels_free]; decide +kernel

end Yuiv.C06Cycle
