import Yuiv.Proofs.C05CobEq
import Yuiv.Proofs.C05CobLc
/-
C05 (cobordisms) — identities about SINGLE cobordisms of the model and what they buy for "every complex the engine
model builds has d∘d = 0".

 (C1, first half) PROVED: the Rust equality `unori_eq` of tangle components is, on components without a repeated edge
      label, exactly "same edge list up to reversal (arcs) / up to rotation and reversal (circles)", hence an
      equivalence relation; so are the derived equalities of tangles, cobordism components and cobordisms (`cobEq`)
      on well-formed data.  COUNTEREXAMPLE (by `decide`): with a repeated label `unori_eq` is NOT symmetric — the
      code looks at the first occurrence of `a[0]` in `b` only.  (In a link diagram every edge label occurs once per
      component, so the engine never builds such circles; the harness' malformed streams do.)
      NOT proved: `stack`, `connect`, `cap_off` respect `cobEq`.
 (C2–C4) NOT proved; tested by running the model (no counterexample): associativity of `Cob::stack` on 15 000
      composable triples made of saddles, cups / caps with dots and handles and the closed components they create
      (trefoil, figure eight, up to 4 crossings); unit laws on all edges; the interchange law
      `(f ⊗ 1)·(1 ⊗ g) = (1 ⊗ g)·(f ⊗ 1) = f ⊗ g` on all pairs of edges of the two halves of these diagrams.
 THE REDUCTION: `script_preserves_dd_lc` below — for the REAL edge algebra `lcOps h t`, every script preserves
      `d∘d = 0` of the VALUES `lcVal φ` for every invariant `φ : Cob → A` into an `R`-algebra that satisfies
        (L1) `CobLaws`: `φ` respects `Eq`, is multiplicative for `Cob::stack`, compatible with `connect(·, id)`,
             invisible to `part_eval`, zero on `is_zero_cob` cobordisms  — identities about single cobordisms;
        (L2) `cap_off` multiplies `φ` by a cap / cup                     — an identity about single cobordisms;
        (L3) the interchange law on values;
        (L4) LOCAL units on the complexes that occur: `a·a⁻¹` / `a⁻¹·a` act as identities on the labels out of the
             target / into the source of the pivot, and `Σ cup·cap` acts as the identity between the labels into and
             out of the delooped vertex.  (L4) is where the missing boundary-tangle clause of `WF` sits: for a
             functorial `φ` it says that the labels at a vertex have that vertex' tangle as source / target.
      No panic-freeness is needed: the theorem is about scripts that ran.
-/
namespace Yuiv.C05.Tng
open Yuiv Yuiv.C05

/-! ### (C1) the Rust equality is an equivalence relation on well-formed data -/

/-- `unori_eq` on components without repeated labels is the relation "equal up to reversal / rotation" -/
theorem unori_eq_characterised (a b : Path) (ha : a.WFP) (hb : b.WFP) :
    unoriEq a b = true ↔ Path.Same a b := unoriEq_iff_same a b hb ha

/-- … and therefore reflexive, symmetric and transitive there (arcs: unconditionally, see `unoriEq_arc`) -/
theorem unori_eq_equivalence (a b c : Path) (ha : a.WFP) (hb : b.WFP) (hc : c.WFP) :
    unoriEq a a = true ∧ (unoriEq a b = true → unoriEq b a = true) ∧
    (unoriEq a b = true → unoriEq b c = true → unoriEq a c = true) :=
  ⟨unoriEq_refl a, unoriEq_symm a b ha hb, unoriEq_trans a b c ha hb hc⟩

/-- the Rust `Eq` of cobordisms is an equivalence relation on well-formed cobordisms -/
theorem cob_eq_equivalence (a b c : Cob) (ha : WFK a) (hb : WFK b) (hc : WFK c) :
    cobEq a a = true ∧ (cobEq a b = true → cobEq b a = true) ∧
    (cobEq a b = true → cobEq b c = true → cobEq a c = true) :=
  ⟨cobEq_refl a, cobEq_symm a b ha hb, cobEq_trans a b c ha hb hc⟩

/-- COUNTEREXAMPLE: with a repeated edge label the comparison of circles is not symmetric
(`[2,1,3,1,1]` is `[1,1,2,1,3]` rotated by two; the code finds the first `1` of the other list and gives up) -/
theorem unori_eq_not_symmetric_with_repeated_label :
    unoriEq ⟨[2, 1, 3, 1, 1], true⟩ ⟨[1, 1, 2, 1, 3], true⟩ = true ∧
    unoriEq ⟨[1, 1, 2, 1, 3], true⟩ ⟨[2, 1, 3, 1, 1], true⟩ = false := by decide

/-- the circle specification really needs rotations and reflections: three representatives of one circle -/
example : unoriEq ⟨[1, 2, 3, 4], true⟩ ⟨[3, 4, 1, 2], true⟩ = true ∧
    unoriEq ⟨[1, 2, 3, 4], true⟩ ⟨[2, 1, 4, 3], true⟩ = true ∧
    unoriEq ⟨[1, 2, 3, 4], true⟩ ⟨[1, 3, 2, 4], true⟩ = false := by decide

/-- associativity of `Cob::stack` on a triple that creates a closed component in the middle (cup, dotted cap, cup) -/
example :
    (match Cob.stack [⟨[], [⟨[7], true⟩], 0, (0, 0)⟩] [⟨[⟨[7], true⟩], [], 0, (1, 0)⟩] with
      | .ok ab => Cob.stack ab [⟨[], [⟨[7], true⟩], 1, (0, 0)⟩]
      | r => r) =
    (match Cob.stack [⟨[⟨[7], true⟩], [], 0, (1, 0)⟩] [⟨[], [⟨[7], true⟩], 1, (0, 0)⟩] with
      | .ok bc => Cob.stack [⟨[], [⟨[7], true⟩], 0, (0, 0)⟩] bc
      | r => r) := by decide

end Yuiv.C05.Tng

namespace Yuiv.C05.Engine
open Yuiv Yuiv.C05 Yuiv.C05.Tng

/-! ### the `d ∘ d = 0` theorems in values (any label type, local units) -/

/-- `eliminate` preserves `d∘d = 0` of the values; the inverse only needs to be a local two-sided inverse -/
theorem eliminate_preserves_dd_val {E A : Type} [Ring A] (val : E → A) (ops : EdgeOps E) (hops : ValEdgeOps ops val)
    (cx cx' : Cx E) (k0 k1 : TKey) (hwf : WF ops cx)
    (hunit : ∀ a ainv, cx.edge? k0 k1 = some a → ops.inv a = .ok ainv →
      (∀ m, entV val cx k1 m * (val a * val ainv) = entV val cx k1 m) ∧
      (∀ k, (val ainv * val a) * entV val cx k k0 = entV val cx k k0))
    (hdd : DDV val cx) (h : cx.eliminate ops k0 k1 = .ok cx') : DDV val cx' :=
  eliminate_ddV val ops hops cx cx' k0 k1 hwf hunit hdd h

/-- `deloop` preserves `d∘d = 0` of the values; the copies only need to decompose the identity between the labels
into and out of the delooped vertex -/
theorem deloop_preserves_dd_val {E A : Type} [Ring A] (val : E → A) (ops : EdgeOps E) (cx cx' : Cx E) (k : TKey)
    (r : Nat) (upd : List TKey) (t : Tng) (c : Path) (cap cup : Dot → A) (hwf : WF ops cx)
    (ht : cx.tng? k = some t) (hc : t[r]? = some c) (hops : ValDeloopOps ops val c cap cup)
    (hiso : if cx.containsBase c = true then
              ∀ x y, entV val cx k y * (cup .X * cap .none) * entV val cx x k = entV val cx k y * entV val cx x k
            else ∀ x y, entV val cx k y * (cup .X * cap .none + cup .none * cap .Y) * entV val cx x k
              = entV val cx k y * entV val cx x k)
    (hdd : DDV val cx) (h : cx.deloop ops k r = .ok (upd, cx')) : DDV val cx' :=
  deloop_ddV val ops cx cx' k r upd t c cap cup hwf ht hc hops hiso hdd h

/-- `connect` preserves `d∘d = 0` of the values -/
theorem connect_preserves_dd_val {E A : Type} [Ring A] (val : E → A) (ops : EdgeOps E) (tl tr : A → Tng → A)
    (hops : ValTensorOps ops val tl tr) (left right cx' : Cx E) (hl : WF ops left) (hr : WF ops right)
    (hbl : Bounded left) (hbr : Bounded right)
    (hX : ∀ k k' l l' f g, left.edge? k k' = some f → right.edge? l l' = some g →
      tr (val g) (tngOf left k') * tl (val f) (tngOf right l) = tl (val f) (tngOf right l') * tr (val g) (tngOf left k))
    (hd1 : DDV val left) (hd2 : DDV val right) (h : left.connect ops right = .ok cx') : DDV val cx' :=
  connect_ddV val ops tl tr hops left right cx' hl hr hbl hbr hX hd1 hd2 h

/-- every script preserves base point, `WF`, bounded weights and `d∘d = 0` of the values -/
theorem script_preserves_dd_val {E A : Type} [Ring A] (val : E → A) (ops : EdgeOps E) (mkSdl : CobComp → E)
    (base : Option Nat) (tl tr : A → Tng → A) (hL : ValLaws val ops base tl tr) (steps : List (Step E))
    (cx cx' : Cx E) (hg : GoodV val ops base cx)
    (hcon : ∀ o, Step.con o ∈ steps → ∃ obase, GoodV val ops obase o ∧ base.or obase = base)
    (h : runScript ops mkSdl steps cx = .ok cx') : GoodV val ops base cx' :=
  script_ddV val ops mkSdl base tl tr hL steps cx cx' hg hcon h

/-! ### the real edge algebra -/

section
variable {R A : Type} [CommRing R] [CoefU R] [LawfulCoef R] [Ring A] [Algebra R A]

/-- the real edge algebra is lawful in values as soon as `φ` satisfies the single-cobordism identities `CobLaws`
(and, for `deloop`, `cap_off` multiplies `φ` by a cap / cup) -/
theorem lcOps_lawful_in_values (φ : Cob → A) (h t : R) (tl tr : A → Tng → A) (hφ : CobLaws φ h t tl tr) :
    ValEdgeOps (lcOps h t) (lcVal φ : LcCob R → A) ∧
    ValTensorOps (lcOps h t) (lcVal φ : LcCob R → A) tl tr ∧
    (∀ (c : Path) (cap cup : Dot → A),
      (∀ d k k', Cob.capOff k .tgt c d = .ok k' → φ k' = cap d * φ k) →
      (∀ d k k', Cob.capOff k .src c d = .ok k' → φ k' = φ k * cup d) →
      ValDeloopOps (lcOps h t) (lcVal φ : LcCob R → A) c cap cup) :=
  ⟨lcOps_valEdgeOps φ h t tl tr hφ, lcOps_valTensorOps φ h t tl tr hφ,
   fun c cap cup hT hS => lcOps_valDeloopOps φ h t tl tr hφ c cap cup hT hS⟩

/-- **every script over the REAL edge algebra preserves `d∘d = 0` of the values**, with exactly these assumptions:
(L1) `CobLaws`, (L2) `cap_off` = multiplication by a cap / cup for every circle, (L3) interchange on values,
(L4) local units / local delooping decomposition on well-formed complexes. -/
theorem script_preserves_dd_lc (φ : Cob → A) (h t : R) (tl tr : A → Tng → A) (base : Option Nat)
    (L1 : CobLaws φ h t tl tr)
    (L3 : ∀ (f g : LcCob R) (v v' w w' : Tng),
      tr (lcVal φ g) v' * tl (lcVal φ f) w = tl (lcVal φ f) w' * tr (lcVal φ g) v)
    (L4u : ∀ (cx : Cx (LcCob R)) k0 k1 a ainv, WF (lcOps h t) cx → cx.edge? k0 k1 = some a →
      (lcOps h t).inv a = .ok ainv →
      (∀ m, entV (lcVal φ) cx k1 m * (lcVal φ a * lcVal φ ainv) = entV (lcVal φ) cx k1 m) ∧
      (∀ k, (lcVal φ ainv * lcVal φ a) * entV (lcVal φ) cx k k0 = entV (lcVal φ) cx k k0))
    (L2L4d : ∀ (cx : Cx (LcCob R)) k t' (c : Path), WF (lcOps h t) cx → cx.base = base → cx.tng? k = some t' →
      c ∈ t' → ∃ cap cup : Dot → A,
        (∀ d k k', Cob.capOff k .tgt c d = .ok k' → φ k' = cap d * φ k) ∧
        (∀ d k k', Cob.capOff k .src c d = .ok k' → φ k' = φ k * cup d) ∧
        (if cx.containsBase c = true then
          ∀ x y, entV (lcVal φ) cx k y * (cup .X * cap .none) * entV (lcVal φ) cx x k
            = entV (lcVal φ) cx k y * entV (lcVal φ) cx x k
         else ∀ x y, entV (lcVal φ) cx k y * (cup .X * cap .none + cup .none * cap .Y) * entV (lcVal φ) cx x k
            = entV (lcVal φ) cx k y * entV (lcVal φ) cx x k))
    (steps : List (Step (LcCob R))) (dh dq : Int) (cx' : Cx (LcCob R)) (hcon : ∀ o, Step.con o ∉ steps)
    (hrun : runScript (lcOps h t) mkSdlLc steps (Cx.init dh dq base) = .ok cx') :
    WF (lcOps h t) cx' ∧ DDV (lcVal φ) cx' := by
  have hL : ValLaws (lcVal φ : LcCob R → A) (lcOps h t) base tl tr := by
    refine ⟨lcOps_valEdgeOps φ h t tl tr L1, lcOps_valTensorOps φ h t tl tr L1, L3, L4u, ?_⟩
    intro cx k t' c hwf hb ht hc
    obtain ⟨cap, cup, hT, hS, hiso⟩ := L2L4d cx k t' c hwf hb ht hc
    exact ⟨cap, cup, lcOps_valDeloopOps φ h t tl tr L1 c cap cup hT hS, hiso⟩
  have := script_ddV (lcVal φ) (lcOps h t) mkSdlLc base tl tr hL steps _ cx' (goodV_init _ _ dh dq base)
    (fun o ho => absurd ho (hcon o)) hrun
  exact ⟨this.wf, this.dd⟩

/-- non-vacuity of `CobLaws`: the zero invariant into any algebra (a degenerate but genuine instance; a non-trivial
one is a TQFT-type functor, whose laws are exactly the unproved single-cobordism identities) -/
example (h t : R) : CobLaws (fun (_ : Cob) => (0 : A)) h t (fun _ _ => 0) (fun _ _ => 0) where
  resp _ _ _ := rfl
  stack _ _ _ _ := by simp
  peval _ e _ := by
    have : ∀ e : LcCob R, lcVal (fun (_ : Cob) => (0 : A)) e = 0 := by
      intro e
      induction e with
      | nil => rfl
      | cons p e ih => rw [lcVal_cons, ih]; simp
    exact this e
  zcob _ _ := rfl
  connL _ _ _ _ := rfl
  connR _ _ _ _ := rfl
  tl_zero _ := rfl
  tr_zero _ := rfl
  tl_add _ _ _ := by simp
  tr_add _ _ _ := by simp
  tl_smul _ _ _ := by simp
  tr_smul _ _ _ := by simp
  tl_mul _ _ _ := by simp
  tr_mul _ _ _ := by simp

end
end Yuiv.C05.Engine
