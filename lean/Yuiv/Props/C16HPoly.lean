import Yuiv.Proofs.C16HPoly
/-
C16 — `HPoly<X,R>` (yui/src/types/poly/h_poly.rs): addition, subtraction, negation, equality, and their interplay
with the multiplication already covered in `Props/C16.lean` §7.  Property theorems only.

What the code does (model `Model/C16.lean`, proved equal to the translated source in `Props/C16Gen`):
a value is one term `coeff·X^deg`; EVERY value with `coeff = 0` is the zero polynomial, whatever its stored degree
(`zero()` stores 0, `x² − x²` stores 2) and `==` identifies them all; `+=`/`-=` first test `self.is_zero()`
(result: `rhs` / `−rhs`), then `rhs.is_zero()` (result: `self`), and only then `assert_eq!(self.deg, rhs.deg)`.

So `+`/`−` are defined exactly on pairs that lie in a common homogeneous part
`HPoly.InDeg d a := a.coeff = 0 ∨ a.deg = d`, each part is closed under `+ − neg` and is an abelian group up to
`==`, `==` is an equivalence and a congruence for all operations, products of parts land in the part of the summed
degree, and `*` distributes over `+` wherever the sum is defined.  Outcomes of two computations are compared by
`HPoly.reqv` (both panic, or both `ok` with `==` results).

NOT a theorem, and false in the code as well: unrestricted associativity of `+` at the level of panics — a
cancellation can make one bracketing defined and the other panic (`hpoly_add_assoc_panic_asymmetry`).
`R` is any commutative ring with decidable equality (the driver runs ℤ, ℚ, F₃, ℤ[i]).
-/
namespace Yuiv.C16
open Yuiv

section HPolyAdd
set_option linter.unusedSectionVars false
variable {R : Type} [DecidableEq R] [CommRing R]

/-! ## `==` -/

/-- `==` is reflexive -/
theorem hpoly_eqv_refl (a : HPoly R) : a.eqv a = true := hp_eqv_refl a
/-- `==` is symmetric -/
theorem hpoly_eqv_symm (a b : HPoly R) (h : a.eqv b = true) : b.eqv a = true := hp_eqv_symm h
/-- `==` is transitive -/
theorem hpoly_eqv_trans (a b c : HPoly R) (h1 : a.eqv b = true) (h2 : b.eqv c = true) : a.eqv c = true :=
  hp_eqv_trans h1 h2
example : (HPoly.eqv (⟨0, 0⟩ : HPoly Int) ⟨7, 0⟩) = true ∧ (HPoly.eqv (⟨7, 0⟩ : HPoly Int) ⟨3, 0⟩) = true := by
  simp [HPoly.eqv]

/-- `==` is structural equality except that the stored degree of a zero polynomial is ignored -/
theorem hpoly_eqv_iff_struct (a b : HPoly R) :
    a.eqv b = true ↔ (a.coeff = 0 ∧ b.coeff = 0) ∨ (a.deg = b.deg ∧ a.coeff = b.coeff) :=
  hp_eqv_iff_struct a b

/-- `is_zero` is `== zero()`, and equally `==` any zero of any stored degree -/
theorem hpoly_isZero_iff (a : HPoly R) (d : Nat) : a.isZero = true ↔ a.eqv ⟨d, 0⟩ = true := by
  rw [hp_eqv_iff_struct]
  simp only [HPoly.isZero, decide_eq_true_eq, and_true]
  constructor
  · intro h; exact Or.inl h
  · rintro (h | h)
    · exact h
    · exact h.2

/-- `is_one` is `== one()` — in a non-trivial ring (in the zero ring `1 = 0`, every value `==` `one()`, but
`is_one` still looks at the stored degree) -/
theorem hpoly_isOne_iff (h10 : (1 : R) ≠ 0) (a : HPoly R) : a.isOne = true ↔ a.eqv ⟨0, 1⟩ = true := by
  rw [hp_eqv_iff_struct]
  simp only [HPoly.isOne, Bool.and_eq_true, beq_iff_eq, decide_eq_true_eq]
  constructor
  · intro h; exact Or.inr h
  · rintro (h | h)
    · exact absurd h.2 h10
    · exact h
example : (1 : Int) ≠ 0 := by decide

/-! ## `+` and `−`: where they are defined, and what they return -/

/-- `+` returns normally exactly when one summand is zero or the degrees agree (the complement of
`hpoly_add_panics_iff`), and there is no third outcome -/
theorem hpoly_add_ok_iff (a b : HPoly R) :
    ((∃ c, a.add b = .ok c) ↔ a.coeff = 0 ∨ b.coeff = 0 ∨ a.deg = b.deg) ∧ a.add b ≠ .err :=
  ⟨hp_add_ok_iff a b, hp_add_ne_err a b⟩

/-- `a − b` is `a + (−b)`, literally: same branch taken, same stored pair, same panic -/
theorem hpoly_sub_eq_add_neg (a b : HPoly R) : a.sub b = a.add b.neg := hp_sub_eq_add_neg a b

/-- `−` panics exactly for two non-zero operands of different degrees -/
theorem hpoly_sub_panics_iff (a b : HPoly R) :
    a.sub b = .panic ↔ a.coeff ≠ 0 ∧ b.coeff ≠ 0 ∧ a.deg ≠ b.deg := by
  rw [hp_sub_eq_add_neg, hpoly_add_panic_iff]
  simp [HPoly.neg]

/-- when `−` returns, the result denotes the difference -/
theorem hpoly_sub_spec (a b c : HPoly R) (h : a.sub b = .ok c) (n : Nat) :
    hval c n = hval a n - hval b n := hpoly_sub_val h n
example : (HPoly.sub (⟨2, 3⟩ : HPoly Int) ⟨2, 5⟩) = .ok ⟨2, -2⟩ ∧ (HPoly.sub (⟨0, 0⟩ : HPoly Int) ⟨2, 5⟩) = .ok ⟨2, -5⟩
    ∧ (HPoly.sub (⟨2, 3⟩ : HPoly Int) ⟨1, 5⟩) = .panic := by
  simp [HPoly.sub, HPoly.isZero, HPoly.neg]

/-- negation denotes the negative -/
theorem hpoly_neg_spec (a : HPoly R) (n : Nat) : hval a.neg n = - hval a n := hval_neg a n
/-- negation is an involution on the stored pair -/
theorem hpoly_neg_neg (a : HPoly R) : a.neg.neg = a := by
  cases a; simp [HPoly.neg]

/-! ## each homogeneous part is an abelian group (up to `==`) -/

/-- closure: on the degree-`d` part `+`, `−`, `neg` never panic, stay in the part, and denote sum / difference -/
theorem hpoly_add_closed (d : Nat) (a b : HPoly R) (ha : a.InDeg d) (hb : b.InDeg d) :
    ∃ c, a.add b = .ok c ∧ c.InDeg d ∧ ∀ n, hval c n = hval a n + hval b n := hp_add_inDeg ha hb
/-- closure of the degree-`d` part under `−` (defined, stays in the part, denotes the difference) -/
theorem hpoly_sub_closed (d : Nat) (a b : HPoly R) (ha : a.InDeg d) (hb : b.InDeg d) :
    ∃ c, a.sub b = .ok c ∧ c.InDeg d ∧ ∀ n, hval c n = hval a n - hval b n := by
  obtain ⟨c, h1, h2, _⟩ := hp_add_inDeg ha (hp_neg_inDeg hb)
  rw [← hp_sub_eq_add_neg] at h1
  exact ⟨c, h1, h2, hpoly_sub_val h1⟩
/-- closure of the degree-`d` part under `neg` -/
theorem hpoly_neg_closed (d : Nat) (a : HPoly R) (ha : a.InDeg d) : a.neg.InDeg d := hp_neg_inDeg ha
example : HPoly.InDeg 2 (⟨2, 3⟩ : HPoly Int) ∧ HPoly.InDeg 2 (⟨2, -3⟩ : HPoly Int) ∧ HPoly.InDeg 2 (⟨9, 0⟩ : HPoly Int) := by
  simp [HPoly.InDeg]

/-- commutativity, for ALL operands: same outcome (both panic, or `==` results) -/
theorem hpoly_add_comm (a b : HPoly R) : HPoly.reqv (a.add b) (b.add a) := hp_add_comm a b

/-- associativity on a homogeneous part: both bracketings are defined and `==` -/
theorem hpoly_add_assoc (d : Nat) (a b c : HPoly R) (ha : a.InDeg d) (hb : b.InDeg d) (hc : c.InDeg d) :
    ∃ s t u v, a.add b = .ok s ∧ s.add c = .ok t ∧ b.add c = .ok u ∧ a.add u = .ok v ∧ t.eqv v = true := by
  obtain ⟨s, e1, hs, v1⟩ := hp_add_inDeg ha hb
  obtain ⟨t, e2, _, v2⟩ := hp_add_inDeg hs hc
  obtain ⟨u, e3, hu, v3⟩ := hp_add_inDeg hb hc
  obtain ⟨v, e4, _, v4⟩ := hp_add_inDeg ha hu
  refine ⟨s, t, u, v, e1, e2, e3, e4, ?_⟩
  rw [hpoly_eqv_iff_val]
  intro n; rw [v2, v1, v4, v3, add_assoc]

/-- associativity for arbitrary operands whenever all four sums are defined -/
theorem hpoly_add_assoc_of_ok (a b c s t u v : HPoly R) (e1 : a.add b = .ok s) (e2 : s.add c = .ok t)
    (e3 : b.add c = .ok u) (e4 : a.add u = .ok v) : t.eqv v = true := by
  rw [hpoly_eqv_iff_val]
  intro n
  rw [hpoly_add_val e2, hpoly_add_val e1, hpoly_add_val e4, hpoly_add_val e3, add_assoc]

/-- … but definedness itself is not associative (in the code as in the model): `(x − x) + x²` is `x²`, while
`x + (−x + x²)` hits `assert_eq!(self.deg, rhs.deg)` -/
theorem hpoly_add_assoc_panic_asymmetry :
    ((HPoly.add (⟨1, 1⟩ : HPoly Int) ⟨1, -1⟩) >>= fun s => s.add ⟨2, 1⟩) = .ok ⟨2, 1⟩ ∧
    ((HPoly.add (⟨1, -1⟩ : HPoly Int) ⟨2, 1⟩) >>= fun u => HPoly.add ⟨1, 1⟩ u) = .panic := by
  constructor <;> simp [HPoly.add, HPoly.isZero, bind, Res.bind]

/-- zero is neutral from both sides, whatever degree it stores: `0 + a` is `a` itself, `a + 0` is `== a`
(it is `a` itself unless `a` is zero too, in which case the right operand is returned) -/
theorem hpoly_add_zero (a z : HPoly R) (hz : z.coeff = 0) :
    z.add a = .ok a ∧ ∃ c, a.add z = .ok c ∧ c.eqv a = true := by
  constructor
  · rw [hp_add_eq]; simp [hz]
  · rw [hp_add_eq]
    by_cases ha : a.coeff = 0
    · exact ⟨z, by simp [ha], (hp_eqv_iff_struct z a).2 (Or.inl ⟨hz, ha⟩)⟩
    · exact ⟨a, by simp [ha, hz], hp_eqv_refl a⟩

/-- `a + (−a)` and `a − a` are defined and zero (stored with the degree of `a`) -/
theorem hpoly_add_neg_self (a : HPoly R) :
    ∃ z, a.add a.neg = .ok z ∧ a.sub a = .ok z ∧ z.isZero = true ∧ z.deg = a.deg := by
  rw [hp_sub_eq_add_neg, hp_add_eq]
  by_cases ha : a.coeff = 0
  · exact ⟨a.neg, by simp [ha], by simp [ha], by simp [HPoly.isZero, HPoly.neg, ha], rfl⟩
  · have hn : ¬ a.neg.coeff = 0 := fun h => ha ((hp_neg_coeff_eq_zero a).1 h)
    have hd : a.deg = a.neg.deg := rfl
    refine ⟨⟨a.deg, a.coeff + a.neg.coeff⟩, ?_, ?_, ?_, rfl⟩
    · rw [if_neg ha, if_neg hn, if_pos hd]
    · rw [if_neg ha, if_neg hn, if_pos hd]
    · simp [HPoly.isZero, HPoly.neg]

/-! ## `==` is a congruence -/

/-- replacing operands by `==` ones gives the same outcome of `+` and `−` (same panic, `==` results), and `==`
results of `neg` and `*`.  (Two zeros of different stored degrees are interchangeable everywhere.) -/
theorem hpoly_add_congr (a a' b b' : HPoly R) (ha : a.eqv a' = true) (hb : b.eqv b' = true) :
    HPoly.reqv (a.add b) (a'.add b') := hp_add_congr ha hb
/-- `−` respects `==` in both operands (same panic, `==` results) -/
theorem hpoly_sub_congr (a a' b b' : HPoly R) (ha : a.eqv a' = true) (hb : b.eqv b' = true) :
    HPoly.reqv (a.sub b) (a'.sub b') := by
  rw [hp_sub_eq_add_neg, hp_sub_eq_add_neg]
  exact hp_add_congr ha (hp_neg_congr hb)
/-- `neg` respects `==` -/
theorem hpoly_neg_congr (a a' : HPoly R) (ha : a.eqv a' = true) : a.neg.eqv a'.neg = true := hp_neg_congr ha
/-- `*` respects `==` in both operands -/
theorem hpoly_mul_congr (a a' b b' : HPoly R) (ha : a.eqv a' = true) (hb : b.eqv b' = true) :
    (a.mul b).eqv (a'.mul b') = true := hp_mul_congr ha hb
example : (HPoly.eqv (⟨4, 0⟩ : HPoly Int) ⟨1, 0⟩) = true ∧
    HPoly.reqv (HPoly.add (⟨4, 0⟩ : HPoly Int) ⟨2, 3⟩) (HPoly.add (⟨1, 0⟩ : HPoly Int) ⟨2, 3⟩) := by
  simp [HPoly.eqv, HPoly.add, HPoly.isZero, HPoly.reqv]

/-! ## multiplication: grading, monoid laws, distributivity -/

/-- the product of the degree-`d` and the degree-`e` part lies in the degree-`d+e` part (incl. the `is_one`
shortcut, which returns `self` unchanged) -/
theorem hpoly_mul_graded (d e : Nat) (a b : HPoly R) (ha : a.InDeg d) (hb : b.InDeg e) :
    (a.mul b).InDeg (d + e) := hp_mul_inDeg ha hb

/-- associativity of `*` up to `==` -/
theorem hpoly_mul_assoc (a b c : HPoly R) : ((a.mul b).mul c).eqv (a.mul (b.mul c)) = true := by
  have h1 := hp_eqv_trans (hp_mul_congr (hp_mul_eqv_pair a b) (hp_eqv_refl c)) (hp_mul_eqv_pair _ c)
  have h2 := hp_eqv_trans (hp_mul_congr (hp_eqv_refl a) (hp_mul_eqv_pair b c)) (hp_mul_eqv_pair a _)
  refine hp_eqv_trans h1 (hp_eqv_symm ?_)
  simpa only [Nat.add_assoc, mul_assoc] using h2

/-- `one()` is neutral: `a · 1` is `a` itself (shortcut), `1 · a` is `== a` -/
theorem hpoly_mul_one (a : HPoly R) : a.mul ⟨0, 1⟩ = a ∧ (HPoly.mul ⟨0, 1⟩ a).eqv a = true := by
  constructor
  · simp [HPoly.mul, HPoly.isOne]
  · rw [hpoly_eqv_iff_val]
    intro n; rw [hval_mul]; simp [hval]

/-- left distributivity: wherever `b + c` is defined, `a·b + a·c` is defined too and `a·(b + c) == a·b + a·c` -/
theorem hpoly_mul_add (a b c s : HPoly R) (h : b.add c = .ok s) :
    ∃ t, (a.mul b).add (a.mul c) = .ok t ∧ (a.mul s).eqv t = true := by
  obtain ⟨e, hb, hc⟩ := hp_common_deg_of_ok ⟨s, h⟩
  have ha : a.InDeg a.deg := Or.inr rfl
  obtain ⟨t, ht, _, vt⟩ := hp_add_inDeg (hp_mul_inDeg ha hb) (hp_mul_inDeg ha hc)
  refine ⟨t, ht, ?_⟩
  rw [hpoly_eqv_iff_val]
  intro n
  rw [vt, hval_mul_left, hval_mul_left, hval_mul_left, hpoly_add_val h]
  by_cases h1 : a.deg ≤ n <;> simp [h1, mul_add]

/-- right distributivity, same shape: `(b + c)·a == b·a + c·a` -/
theorem hpoly_add_mul (a b c s : HPoly R) (h : b.add c = .ok s) :
    ∃ t, (b.mul a).add (c.mul a) = .ok t ∧ (s.mul a).eqv t = true := by
  obtain ⟨e, hb, hc⟩ := hp_common_deg_of_ok ⟨s, h⟩
  have ha : a.InDeg a.deg := Or.inr rfl
  obtain ⟨t, ht, _, vt⟩ := hp_add_inDeg (hp_mul_inDeg hb ha) (hp_mul_inDeg hc ha)
  refine ⟨t, ht, ?_⟩
  rw [hpoly_eqv_iff_val]
  intro n
  rw [vt, hval_mul_right, hval_mul_right, hval_mul_right, hpoly_add_val h]
  by_cases h1 : a.deg ≤ n <;> simp [h1, add_mul]
example : (HPoly.add (⟨2, 3⟩ : HPoly Int) ⟨2, 4⟩) = .ok ⟨2, 7⟩ ∧
    (HPoly.add (HPoly.mul (⟨1, 5⟩ : HPoly Int) ⟨2, 3⟩) (HPoly.mul ⟨1, 5⟩ ⟨2, 4⟩)) = .ok ⟨3, 35⟩ := by
  simp [HPoly.add, HPoly.mul, HPoly.isZero, HPoly.isOne]

/-- the converse direction fails only through zero divisors/zero factors: if `b + c` panics, `a·b + a·c` may still be
defined (e.g. `a = 0`); the precise statement is `hpoly_add_panics_iff` applied to the products. -/
theorem hpoly_mul_add_undefined_side :
    (HPoly.add (⟨1, 1⟩ : HPoly Int) ⟨2, 1⟩) = .panic ∧
    (HPoly.add (HPoly.mul (⟨0, 0⟩ : HPoly Int) ⟨1, 1⟩) (HPoly.mul ⟨0, 0⟩ ⟨2, 1⟩)) = .ok ⟨2, 0⟩ := by
  simp [HPoly.add, HPoly.mul, HPoly.isZero, HPoly.isOne]

/-- scalar multiplication `*= &r` (with its `is_one` shortcut) scales the denoted polynomial -/
theorem hpoly_smul_spec (a : HPoly R) (r : R) (n : Nat) : hval (a.smul r) n = hval a n * r := hval_smul a r n

end HPolyAdd

end Yuiv.C16
