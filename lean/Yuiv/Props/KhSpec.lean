import Yuiv.Proofs.KhSpecRowsOK
import Yuiv.Proofs.KhSpecSort
import Yuiv.Proofs.KhSpecRed
import Yuiv.Proofs.C01SqEx
/-
KhSpec — THE END-TO-END SPECIFICATION OF `KhRef.khHomology`.  Property theorems only; proofs in
`Proofs/KhSpecDefs, KhSpecFn, KhSpecFnQ, KhSpecGens, KhSpecRows, KhSpecQDeg, KhSpecSort, KhSpecMain, KhSpecTop,
KhSpecQ, KhSpecHom, KhSpecRowsOK, KhSpecRed` on top of `Props/C01Sq` (`d ∘ d = 0`), `Props/KhSnf` (Smith invariants) and
`Proofs/C03Uct` (cells, `Homology`).

SETTING.  A diagram `l` with `validK l` (decidable), at most 64 edge labels, Frobenius parameters `p` of the UNREDUCED
theory, `cubeOK (mkCube l p)` (decidable: every edge a merge or a split).  No other per-instance condition: the
well-formedness of the sparse rows (`khInstanceOk`) is a THEOREM now, because `Array.qsort` is proved to sort
(`qsort_sorts`) and hence `normalizeRow` to return strictly sorted zero-free rows (`normalizeRow_wellformed`).
`signs` is any array (the reference's `crossingSigns l` in the drivers); it enters only through the shifts
`h0Of signs = −n₋`, `q0Of signs p = n₊ − 2n₋`.

STATEMENT.  With `c = mkCube l p`, `G = gensByWeight c` (generators by weight of the state), `dT = dTab c p G` (the
differential table as a function), `dMat c p G i` (the matrix of `Cube.d` from weight `i` to weight `i+1`, entries
`dCoef`), `diagAt c p G i` (`1,…,1,d₁,…,d_k` read off `smithInvariants`):
  * `khHomology l signs p k false = .ok ⟨cells⟩` — never `malformed`, never `notComplex` —, the cells being the non-zero
    groups `(−n₋ + i, none, H_i)` of `homologyOf k G dT`, `i = 0..n`;
  * `diagAt c p G i` IS a unimodular diagonal form of `dMat c p G i` (`EquivDiag`), `dMat i · dMat (i+1) = 0`;
  * over ℤ, `H_i = cellOf |G_i| (diagonal of the incoming differential) (diagonal of the outgoing one)`: rank
    `|G_i| − rk − rk`, torsion = invariant factors `> 1` of the incoming differential; over ℚ / `𝔽_q` the rank is
    `|G_i| − nz − nz` / `|G_i| − ndiv q − ndiv q`, which IS `dim ker/im` of the complex tensored with the field
    (`khHomology_ranks_are_homology`).
  * `bigraded = true`, `h = t = 0`: `Cube.d` preserves the quantum degree (`cube_d_preserves_qdeg`), and the same holds
    for every slice `G_q = gensQ c (q0Of signs p) G q`; the cells are `(−n₋ + i, some q, H_{i,q})`, `q` running
    through the quantum degrees `qDeg (n₊ − 2n₋) g` of the generators, each once (in the order of `qsOf`).
REDUCED theory, `t = 0`, unbigraded (`khHomology_spec_reduced`): the same statements for the family `gensByWeight
(mkCube l p)` of the generators with base circle labelled X inside the unreduced cube `cube0 l p`.
NOT covered: the reduced bigraded computation, the reduced theory with `t ≠ 0` (not a complex, see `Props/C01Sq`), and
that the order in which the cells are listed is immaterial.  Nothing of `KhRef.khHomology` for the unreduced theory
remains trusted.
-/
namespace Yuiv.KhSpec
open Yuiv Yuiv.KhRef Matrix Yuiv.KhSnf Yuiv.C03Uct Yuiv.C03 Module
open Yuiv.C02Mirror (cubeOK)

/-! ### sorting -/

/-- core Lean's `Array.qsort` sorts (for comparisons by a natural-number key) -/
theorem qsort_sorts {α : Type} (key : α → Nat) (as : Array α) :
    ((as.qsort (fun a b => decide (key a < key b))).toList).Pairwise (fun a b => key a ≤ key b) :=
  qsort_sorted_key key as

/-- `normalizeRow` returns a well-formed sparse row with the same values -/
theorem normalizeRow_wellformed (n : Nat) (r : Array (Nat × Int)) (h : ∀ x ∈ r.toList, x.1 < n) :
    RowOK n (normalizeRow r) ∧
    ∀ c, rval (normalizeRow r) c = ((r.toList.filter (fun x => x.1 == c)).map (fun x => x.2)).sum :=
  ⟨normalizeRow_rowOK n r h, rval_normalizeRow r⟩

/-! ### the generators and the table -/

/-- the generators listed at weight `w`: the states of weight `w` with all labellings of their circles, each once -/
theorem generators_by_weight (c : Cube) (hb : c.base = none) (w : Nat) (g : Gen) :
    (g ∈ ((gensByWeight c)[w]!).toList ↔
      w ≤ c.n ∧ g.s < 2 ^ c.n ∧ popcount g.s c.n = w ∧ g.mask < 2 ^ (c.circ[g.s]!).size) ∧
    ((gensByWeight c)[w]!).toList.Nodup ∧ (gensByWeight c).size = c.n + 1 := by
  refine ⟨?_, gensByWeight_nodup c w, gensByWeight_size c⟩
  rw [mem_gensByWeight]
  constructor
  · rintro ⟨h1, h2, h3, h4⟩
    exact ⟨h1, h2, h3, ((mem_gensAt_unreduced c hb g.s g).1 h4).2⟩
  · rintro ⟨h1, h2, h3, h4⟩
    exact ⟨h1, h2, h3, (mem_gensAt_unreduced c hb g.s g).2 ⟨rfl, h4⟩⟩

/-- `Cube.d` maps generators of weight `w` to combinations of generators of weight `w + 1` -/
theorem cube_d_raises_weight (l : Link) (hv : C06Cycle.validK l = true) (hL : (edgeLabels l).size ≤ 64) (p : Params)
    (hr : p.reduced = false) (hok : cubeOK (mkCube l p)) (w : Nat) (g : Gen)
    (hg : g ∈ ((gensByWeight (mkCube l p))[w]!).toList) :
    ∃ ts, (mkCube l p).d p g = some ts ∧ ∀ t ∈ ts.toList, t.1 ∈ ((gensByWeight (mkCube l p))[w + 1]!).toList := by
  have H := ctx_mkCube l hv hL p hr hok
  obtain ⟨ts, hd⟩ := d_defined H (gen_props H hg).2.1
  exact ⟨ts, hd, d_targets_mem _ p H.hb H.hok H.hP w g hg ts hd⟩

/-- for `h = t = 0`, `Cube.d` preserves the quantum degree -/
theorem cube_d_preserves_qdeg (l : Link) (hv : C06Cycle.validK l = true) (hL : (edgeLabels l).size ≤ 64) (p : Params)
    (hr : p.reduced = false) (hh : p.h = 0) (ht : p.t = 0) (hok : cubeOK (mkCube l p)) (w : Nat) (g : Gen)
    (hg : g ∈ ((gensByWeight (mkCube l p))[w]!).toList) (ts : Array Term) (hd : (mkCube l p).d p g = some ts)
    (q0 : Int) : ∀ t ∈ ts.toList, (mkCube l p).qDeg q0 t.1 = (mkCube l p).qDeg q0 g := by
  have H := ctx_mkCube l hv hL p hr hok
  obtain ⟨_, hs, _, hm⟩ := gen_props H hg
  exact qDeg_preserved _ p hh ht H.hb H.hok H.hP g hs hm ts hd q0

/-- the per-instance condition on the sparse rows holds for every instance -/
theorem khInstanceOk_holds (l : Link) (hv : C06Cycle.validK l = true) (hL : (edgeLabels l).size ≤ 64) (p : Params)
    (hr : p.reduced = false) (hok : cubeOK (mkCube l p)) :
    RowsOK (gensByWeight (mkCube l p)) (dTab (mkCube l p) p (gensByWeight (mkCube l p))) :=
  rowsOK_of_fam normalizeRow_rowOK (fam_all (ctx_mkCube l hv hL p hr hok))

/-! ### unbigraded -/

/-- END TO END, `bigraded = false`, any `(h, t)`, any coefficients `k` -/
theorem khHomology_spec (l : Link) (hv : C06Cycle.validK l = true) (hL : (edgeLabels l).size ≤ 64) (p : Params)
    (hr : p.reduced = false) (hok : cubeOK (mkCube l p)) (signs : Array Int) :
    (∀ k, khHomology l signs p k false =
      .ok ⟨(cellsUn (h0Of signs) none
        (homologyOf k (gensByWeight (mkCube l p)) (dTab (mkCube l p) p (gensByWeight (mkCube l p))))).toArray⟩ ∧
      (homologyOf k (gensByWeight (mkCube l p)) (dTab (mkCube l p) p (gensByWeight (mkCube l p)))).size =
        crossingNum l + 1) ∧
    (∀ i, i < crossingNum l → EquivDiag (dMat (mkCube l p) p (gensByWeight (mkCube l p)) i)
      (diagAt (mkCube l p) p (gensByWeight (mkCube l p)) i)) ∧
    (∀ i, crossingNum l ≤ i → diagAt (mkCube l p) p (gensByWeight (mkCube l p)) i = []) ∧
    (∀ i, dMat (mkCube l p) p (gensByWeight (mkCube l p)) i * dMat (mkCube l p) p (gensByWeight (mkCube l p)) (i + 1) = 0) ∧
    ∀ i, i ≤ crossingNum l →
      let G := gensByWeight (mkCube l p)
      let dT := dTab (mkCube l p) p G
      let dIn := diagIn (mkCube l p) p G i
      let dOut := diagAt (mkCube l p) p G i
      ((homologyOf .Z G dT)[i]!).rank = (cellOf (G[i]!).size dIn dOut).rank ∧
      ((homologyOf .Z G dT)[i]!).tors.toList = (cellOf (G[i]!).size dIn dOut).tors ∧
      ((homologyOf .Q G dT)[i]!).rank = (G[i]!).size - nz dIn - nz dOut ∧ ((homologyOf .Q G dT)[i]!).tors = #[] ∧
      ∀ q, 2 ≤ q → ((homologyOf (.Fp q) G dT)[i]!).rank = (G[i]!).size - ndiv (q : ℤ) dIn - ndiv (q : ℤ) dOut ∧
        ((homologyOf (.Fp q) G dT)[i]!).tors = #[] := by
  have H := ctx_mkCube l hv hL p hr hok
  have F := fam_all H
  have hR := rowsOK_of_fam normalizeRow_rowOK F
  refine ⟨fun k => ⟨khHomology_ok H signs k, ?_⟩, fun i hi => diagAt_equivDiag H F hR i hi,
    fun i hi => diagAt_nil F i hi, fun i => dMat_mul H F i, fun i hi => groups_spec F hR i hi⟩
  rw [homologyOf_size, gensByWeight_size]; rfl

/-- the reported ranks over ℚ and `𝔽_q` ARE the dimensions of `ker/im`: position `j + 1` is the homology of
`ℤ^{G_j} --(dMat j)ᵀ--> ℤ^{G_{j+1}} --(dMat (j+1))ᵀ--> ℤ^{G_{j+2}}`, position `0` of `0 --> ℤ^{G_0} --(dMat 0)ᵀ--> ℤ^{G_1}`
(matrices acting on column vectors; over ℤ the group is the cell `cellOf` of `khHomology_spec`) -/
theorem khHomology_ranks_are_homology (l : Link) (hv : C06Cycle.validK l = true) (hL : (edgeLabels l).size ≤ 64)
    (p : Params) (hr : p.reduced = false) (hok : cubeOK (mkCube l p)) :
    let c := mkCube l p
    let G := gensByWeight c
    let dT := dTab c p G
    (∀ j, j < crossingNum l →
      ((homologyOf .Q G dT)[j + 1]!).rank =
        finrank ℚ (Homology (toRat (dMat c p G j)ᵀ) (toRat (dMat c p G (j + 1))ᵀ)) ∧
      ∀ (q : ℕ) [Fact q.Prime], ((homologyOf (.Fp q) G dT)[j + 1]!).rank =
        finrank (ZMod q) (Homology (redMod q (dMat c p G j)ᵀ) (redMod q (dMat c p G (j + 1))ᵀ))) ∧
    (((homologyOf .Q G dT)[0]!).rank =
        finrank ℚ (Homology (toRat (0 : Matrix (Fin (G[0]!).size) (Fin 0) ℤ)) (toRat (dMat c p G 0)ᵀ)) ∧
      ∀ (q : ℕ) [Fact q.Prime], ((homologyOf (.Fp q) G dT)[0]!).rank =
        finrank (ZMod q) (Homology (redMod q (0 : Matrix (Fin (G[0]!).size) (Fin 0) ℤ)) (redMod q (dMat c p G 0)ᵀ))) := by
  have H := ctx_mkCube l hv hL p hr hok
  have F := fam_all H
  have hR := rowsOK_of_fam normalizeRow_rowOK F
  exact ⟨fun j hj => rank_is_homology H F hR j hj, rank_is_homology_zero H F hR⟩

/-! ### bigraded (`h = t = 0`) -/

/-- END TO END, `bigraded = true`, `h = t = 0`: the cells are, for every quantum degree `q` of a generator (each once, in the
order of `qsOf`), the non-zero groups of the slice `G_q`; and for EVERY `q` the slice satisfies the statements of
`khHomology_spec` -/
theorem khHomology_spec_bigraded (l : Link) (hv : C06Cycle.validK l = true) (hL : (edgeLabels l).size ≤ 64)
    (p : Params) (hr : p.reduced = false) (hh : p.h = 0) (ht : p.t = 0) (hok : cubeOK (mkCube l p))
    (signs : Array Int) :
    (∀ k, khHomology l signs p k true =
      .ok ⟨((qsOf (mkCube l p) (q0Of signs p) (gensByWeight (mkCube l p))).toList.flatMap (fun q =>
        cellsUn (h0Of signs) (some q)
          (homologyOf k (gensQ (mkCube l p) (q0Of signs p) (gensByWeight (mkCube l p)) q)
            (dTab (mkCube l p) p (gensByWeight (mkCube l p)))))).toArray⟩) ∧
    (qsOf (mkCube l p) (q0Of signs p) (gensByWeight (mkCube l p))).toList.Nodup ∧
    (∀ q, q ∈ (qsOf (mkCube l p) (q0Of signs p) (gensByWeight (mkCube l p))).toList ↔
      ∃ gs ∈ (gensByWeight (mkCube l p)).toList, ∃ g ∈ gs.toList, (mkCube l p).qDeg (q0Of signs p) g = q) ∧
    ∀ q : Int,
      let c := mkCube l p
      let G := gensQ c (q0Of signs p) (gensByWeight c) q
      let dT := dTab c p (gensByWeight c)
      (∀ (i : Nat) (g : Gen), g ∈ (G[i]!).toList ↔ g ∈ ((gensByWeight c)[i]!).toList ∧ c.qDeg (q0Of signs p) g = q) ∧
      (∀ i, i < crossingNum l → EquivDiag (dMat c p G i) (diagAt c p G i)) ∧
      (∀ i, crossingNum l ≤ i → diagAt c p G i = []) ∧
      (∀ i, dMat c p G i * dMat c p G (i + 1) = 0) ∧
      (∀ i, i ≤ crossingNum l →
        ((homologyOf .Z G dT)[i]!).rank = (cellOf (G[i]!).size (diagIn c p G i) (diagAt c p G i)).rank ∧
        ((homologyOf .Z G dT)[i]!).tors.toList = (cellOf (G[i]!).size (diagIn c p G i) (diagAt c p G i)).tors ∧
        ((homologyOf .Q G dT)[i]!).rank = (G[i]!).size - nz (diagIn c p G i) - nz (diagAt c p G i) ∧
        ((homologyOf .Q G dT)[i]!).tors = #[] ∧
        ∀ q', 2 ≤ q' → ((homologyOf (.Fp q') G dT)[i]!).rank =
            (G[i]!).size - ndiv (q' : ℤ) (diagIn c p G i) - ndiv (q' : ℤ) (diagAt c p G i) ∧
          ((homologyOf (.Fp q') G dT)[i]!).tors = #[]) ∧
      (∀ j, j < crossingNum l →
        ((homologyOf .Q G dT)[j + 1]!).rank =
          finrank ℚ (Homology (toRat (dMat c p G j)ᵀ) (toRat (dMat c p G (j + 1))ᵀ)) ∧
        ∀ (q' : ℕ) [Fact q'.Prime], ((homologyOf (.Fp q') G dT)[j + 1]!).rank =
          finrank (ZMod q') (Homology (redMod q' (dMat c p G j)ᵀ) (redMod q' (dMat c p G (j + 1))ᵀ))) := by
  have H := ctx_mkCube l hv hL p hr hok
  refine ⟨fun k => khHomology_ok_bigraded H hh ht signs k, qsOf_nodup _ _ _, fun q => mem_qsOf _ _ _ q, ?_⟩
  · intro q
    have F := fam_gensQ H hh ht (q0Of signs p) q
    have hR := rowsOK_of_fam normalizeRow_rowOK F
    exact ⟨fun i g => mem_gensQ _ _ q i g, fun i hi => diagAt_equivDiag H F hR i hi, fun i hi => diagAt_nil F i hi,
      fun i => dMat_mul H F i, fun i hi => groups_spec F hR i hi, fun j hj => rank_is_homology H F hR j hj⟩

/-! ### reduced theory, `t = 0` -/

/-- END TO END for the reduced theory with `t = 0` (`bigraded = false`): the computation succeeds; the generators of the
reduced cube are a family `G` of the unreduced cube `cube0 l p` closed under its `Cube.d`, and `khHomology` reports the
cells of that sub-complex: diagonal forms, `d ∘ d = 0`, `cellOf`, and `dim ker/im` over ℚ and `𝔽_q` exactly as in the
unreduced case (any `p.reduced`; for `p.reduced = false` this is `khHomology_spec`) -/
theorem khHomology_spec_reduced (l : Link) (hv : C06Cycle.validK l = true) (hL : (edgeLabels l).size ≤ 64) (p : Params)
    (ht : p.t = 0) (hok : cubeOK (mkCube l p)) (signs : Array Int) :
    let c0 := cube0 l p
    let G := gensByWeight (mkCube l p)
    let dT := dTab c0 p (gensByWeight c0)
    (∀ k, khHomology l signs p k false = .ok ⟨(cellsUn (h0Of signs) none (homologyOf k G dT)).toArray⟩) ∧
    (∀ (i : Nat) (g : Gen), g ∈ (G[i]!).toList → g ∈ ((gensByWeight c0)[i]!).toList) ∧
    (∀ i, i < crossingNum l → EquivDiag (dMat c0 p G i) (diagAt c0 p G i)) ∧
    (∀ i, crossingNum l ≤ i → diagAt c0 p G i = []) ∧
    (∀ i, dMat c0 p G i * dMat c0 p G (i + 1) = 0) ∧
    (∀ i, i ≤ crossingNum l →
      ((homologyOf .Z G dT)[i]!).rank = (cellOf (G[i]!).size (diagIn c0 p G i) (diagAt c0 p G i)).rank ∧
      ((homologyOf .Z G dT)[i]!).tors.toList = (cellOf (G[i]!).size (diagIn c0 p G i) (diagAt c0 p G i)).tors ∧
      ((homologyOf .Q G dT)[i]!).rank = (G[i]!).size - nz (diagIn c0 p G i) - nz (diagAt c0 p G i) ∧
      ((homologyOf .Q G dT)[i]!).tors = #[] ∧
      ∀ q, 2 ≤ q → ((homologyOf (.Fp q) G dT)[i]!).rank =
          (G[i]!).size - ndiv (q : ℤ) (diagIn c0 p G i) - ndiv (q : ℤ) (diagAt c0 p G i) ∧
        ((homologyOf (.Fp q) G dT)[i]!).tors = #[]) ∧
    (∀ j, j < crossingNum l →
      ((homologyOf .Q G dT)[j + 1]!).rank =
        finrank ℚ (Homology (toRat (dMat c0 p G j)ᵀ) (toRat (dMat c0 p G (j + 1))ᵀ)) ∧
      ∀ (q : ℕ) [Fact q.Prime], ((homologyOf (.Fp q) G dT)[j + 1]!).rank =
        finrank (ZMod q) (Homology (redMod q (dMat c0 p G j)ᵀ) (redMod q (dMat c0 p G (j + 1))ᵀ))) := by
  have H := ctx_cube0 l hv hL p hok
  have F := fam_reduced l hv hL p ht hok
  have hR := rowsOK_of_fam normalizeRow_rowOK F
  exact ⟨fun k => khHomology_ok_reduced l hv hL p ht hok signs k, F.sub, fun i hi => diagAt_equivDiag H F hR i hi,
    fun i hi => diagAt_nil F i hi, fun i => dMat_mul H F i, fun i hi => groups_spec F hR i hi,
    fun j hj => rank_is_homology H F hR j hj⟩

/-! ### non-vacuity: trefoil and Hopf link -/

open Yuiv.C02Mirror.Ex Yuiv.C01Sq.Ex Yuiv.C04Inv in
/-- the hypotheses hold for the trefoil and the Hopf link; their cubes have `8, 12, 6, 4` resp. `4, 4, 4` generators
in the weights `0, 1, …` -/
example : (C06Cycle.validK trefoil = true ∧ (edgeLabels trefoil).size ≤ 64 ∧ cubeOK (mkCube trefoil p0)) ∧
    (C06Cycle.validK hopf = true ∧ (edgeLabels hopf).size ≤ 64 ∧ cubeOK (mkCube hopf p0)) ∧
    (gensByWeight (mkCube trefoil p0)).map (·.size) = #[8, 12, 6, 4] ∧
    (gensByWeight (mkCube hopf p0)).map (·.size) = #[4, 4, 4] := by
  refine ⟨⟨valid_examples.1, trefoil_labels, trefoil_ok⟩, ⟨valid_examples.2.1, hopf_labels, hopf_ok⟩, ?_, ?_⟩
  · rw [mkCube_eq_cubeWith _ _ rfl, edgeLabels_trefoil]; decide +kernel
  · rw [mkCube_eq_cubeWith _ _ rfl, edgeLabels_hopf]; decide +kernel

open Yuiv.C02Mirror.Ex Yuiv.C01Sq.Ex Yuiv.C04Inv in
/-- the instance of `khHomology_spec` at the left-handed trefoil (signs `− − −`, so the shift is `h0 = −3`), ℤ
coefficients: the computation succeeds and returns the non-zero groups of `homologyOf`, four positions -/
example : khHomology trefoil #[-1, -1, -1] p0 .Z false =
      .ok ⟨(cellsUn (-3) none
        (homologyOf .Z (gensByWeight (mkCube trefoil p0)) (dTab (mkCube trefoil p0) p0 (gensByWeight (mkCube trefoil p0))))).toArray⟩ ∧
    (homologyOf .Z (gensByWeight (mkCube trefoil p0)) (dTab (mkCube trefoil p0) p0 (gensByWeight (mkCube trefoil p0)))).size = 4 := by
  have h := (khHomology_spec trefoil valid_examples.1 trefoil_labels p0 rfl trefoil_ok #[-1, -1, -1]).1 .Z
  have e : crossingNum trefoil + 1 = 4 := by decide
  rw [e] at h
  exact h

open Yuiv.C02Mirror.Ex Yuiv.C01Sq.Ex Yuiv.C04Inv in
/-- the bigraded instance at the Hopf link (`h = t = 0`, signs `− −`): success, cells slice by slice -/
example : ∃ res, khHomology hopf #[-1, -1] p0 (.Fp 2) true = .ok res :=
  ⟨_, (khHomology_spec_bigraded hopf valid_examples.2.1 hopf_labels p0 rfl rfl rfl hopf_ok #[-1, -1]).1 (.Fp 2)⟩

end Yuiv.KhSpec
