import Yuiv.Props.SnfUnique
import Yuiv.Props.C07Full
/-
C07 — the homology invariants are UNIQUELY DETERMINED by `(d1, d2)` (property theorems only).

`C07.calculate_end_to_end` (Props/C07Full.lean) proves that the composite code model returns `rank = n − rank d1 − rank d2`
and `tors` = the non-unit entries on the Smith diagonal which the library's SNF computes for `d1`.  With the uniqueness of
the Smith normal form over ℤ (Props/SnfUnique.lean) the torsion list no longer depends on "the diagonal the code happens
to find": it is the list of non-unit entries of EVERY normalised Smith form of `d1`.
-/
namespace Yuiv.C07
open Matrix Yuiv Yuiv.SnfUnique

/-- **homology_invariants_unique.**  For `d2·d1 = 0` there is a fuel bound `N` and ONE pair `(rank, tors)` such that for every
`fuel ≥ N` the code model of `HomologyCalc::calculate` on the code model of the library's SNF returns `(rank, tors, _)`, and

* `rank + rank(d1) + rank(d2) = n` with `Matrix.rank` (so `rank` is a function of `d1, d2` alone);
* for EVERY normalised Smith normal form `T` of `d1` in the framework's sense (`C09.IsSnfOf`: `P·d1·Q = T` with invertible
  `P`, `Q`, `T` diagonal with non-negative entries `t_0 ∣ t_1 ∣ …`) `tors` is the list of entries `≠ 0, 1` of its diagonal;
* the same for every Smith form `D = U·d1·V` given as Mathlib matrices with `IsUnit U.det`, `IsUnit V.det`. -/
theorem homology_invariants_unique (d1 d2 : Mat) (hsh : d2.c = d1.r)
    (hdd : d2.toM d2.r d1.r * d1.toM d1.r d1.c = 0) :
    ∃ (N rank : Nat) (tors : List Int),
      (∀ fuel, N ≤ fuel → ∃ T, calculate (snfC09 fuel) d1 d2 true = .ok (rank, tors, some T)) ∧
      rank + (d1.toM d1.r d1.c).rank + (d2.toM d2.r d1.r).rank = d1.r ∧
      (∀ T : C09.Mat Int d1.r d1.c, C09.IsSnfOf (toC09 d1) T →
        tors = (C09.diagL T).filter (fun a => a != 0 && a != 1)) ∧
      (∀ (D : Matrix (Fin d1.r) (Fin d1.c) ℤ) (U : Matrix (Fin d1.r) (Fin d1.r) ℤ) (V : Matrix (Fin d1.c) (Fin d1.c) ℤ),
        IsUnit U.det → IsUnit V.det → IsSmith D → (∀ k, 0 ≤ dgM D k) → U * d1.toM d1.r d1.c * V = D →
        tors = ((List.range (min d1.r d1.c)).map (dgM D)).filter (fun a => a != 0 && a != 1)) := by
  obtain ⟨N, st1, st2, rank, tors, T, P, Q, h1, _, hc, _, _, hr, hr1, hr2, ht, _⟩ :=
    calculate_end_to_end d1 d2 hsh hdd
  have hs1 : C09.IsSnfOf (toC09 d1) st1.t :=
    ⟨st1.p, st1.pinv, st1.q, st1.qinv, C09.snf_correct N (toC09 d1) st1 (h1 N (Nat.le_refl _))⟩
  refine ⟨N, rank, tors, fun fuel hf => ⟨T, hc fuel hf⟩, by omega, ?_, ?_⟩
  · intro T' hT'
    rw [ht, nonUnitFactors, (C09.snf_diag_unique (toC09 d1) st1.t T' hs1 hT').1]
  · intro D U V hU hV hD hn hA
    rw [ht, nonUnitFactors,
      (C09.snf_eq_any_smith_form (toC09 d1) st1.t hs1 D U V hU hV hD hn (by rw [toC09_toM]; exact hA)).2]

/-- the hypotheses are satisfiable non-trivially: `d1 = [[2,0,0],[2,6,0],[0,0,0],[0,0,0]]`, `d2 = (0,0,0,1)`, `d2·d1 = 0`
(`H = ℤ ⊕ ℤ/2 ⊕ ℤ/6`, see Props/C07Full.lean) -/
example : prodZero 0 ⟨1, 4, #[0, 0, 0, 1]⟩ ⟨4, 3, #[2, 0, 0, 2, 6, 0, 0, 0, 0, 0, 0, 0]⟩ = true := by decide +kernel

end Yuiv.C07
