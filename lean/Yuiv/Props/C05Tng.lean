import Yuiv.Proofs.C05Tng
import Yuiv.Props.C05Deloop
/-
C05 (engine structure) — the structural operations on tangles and cobordisms
(`yui-link/src/link/path.rs`, `yui-khovanov/src/kh/internal/v2/{tng,cob}.rs`).
Property theorems only; code model in `Yuiv/Model/C05Tng.lean`, helper lemmas in `Yuiv/Proofs/C05Tng.lean`.
Every statement is for ALL inputs of the model (arbitrary edge lists, genus, dots).

What is proved, and how the statements were adjusted to what the code really does:

 * `TngComp::connect` (= `Path::connect`) on PROPER arcs (the two ends of an arc differ; the code also accepts
   arcs like `[0, 0]` of a kink, for which "symmetric difference" is not the right description): never panics on
   connectable arcs, the result is a circle exactly when both ends are shared, otherwise an arc whose end points
   are the symmetric difference; the two argument orders give components that are equal for the Rust
   `PartialEq` (`unori_eq`) when one end is shared.  When BOTH ends are shared (the connect closes up) only
   "both orders give circles with the same number of edges" is proved (`…_circle_partial`): `unori_eq` of the
   two rotated edge lists is explored by the correspondence run, not proved.
 * genus bookkeeping of `CobComp::connect` / `Cob::stack_comps`: whenever the two `assert!`s pass, the stored
   genus is the unique natural number with `χ = 2 − 2g − b`, `χ = χ₁ + χ₂ − a`.  The hypothesis under which the
   asserts pass (orientable gluing) is NOT characterised: all statements assume the call returned.
 * `deg` additivity under horizontal (`CobComp::connect`) and vertical (`Cob::stack_comps`) composition is
   proved UNDER the end-point bookkeeping hypothesis (end points of the composite = symmetric difference, resp.
   the arcs in the lower targets are matched with the end points above).  That `Tng::connect` /`append_arc`
   produce exactly those end points on well-formed tangles is not proved (explored by the harness oracles).
 * `cap_off` changes `deg` by the degree of the disc (`Deloop.discDeg`, via `deloop_degrees`) — for every
   component, bottom, index and dot (`cap_off_deg`), and for `Cob::cap_off` on a whole cobordism including the
   removal of a unit sphere and the re-sorting (`cob_cap_off_deg`).
 * stacking with the identity and `inv` as two-sided inverse: proved for CYLINDER-type components (one source,
   one target component; arbitrary genus/dots for the identity statement) at the level of `Cob::stack_comps`;
   the bookkeeping of `take_stackable_comps` for several components is explored only.
-/
namespace Yuiv.C05.Tng
open Yuiv Yuiv.C05

/-! ### (a) connecting arcs -/

/-- `TngComp::connect` on proper connectable arcs with ends `(e0,e1)`, `(f0,f1)`: it returns; the result is a
circle when both ends are shared; otherwise it is an arc with distinct ends `x, y` and
`{x, y} = {e0, e1} Δ {f0, f1}` (symmetric difference). -/
theorem tngcomp_connect_ends (p q : Path) (e0 e1 f0 f1 : Nat)
    (hp : p.ends = some (e0, e1)) (hq : q.ends = some (f0, f1)) (he : e0 ≠ e1) (hf : f0 ≠ f1)
    (hc : isConnectable p q = true) :
    ∃ r, p.connect q = .ok r ∧
      (((e0 = f0 ∧ e1 = f1) ∨ (e0 = f1 ∧ e1 = f0)) → r.closed = true ∧ r.ends = none) ∧
      (¬ ((e0 = f0 ∧ e1 = f1) ∨ (e0 = f1 ∧ e1 = f0)) →
        ∃ x y, r.ends = some (x, y) ∧ x ≠ y ∧
          ∀ e, (e = x ∨ e = y) ↔ (((e = e0 ∨ e = e1) ∧ ¬ (e = f0 ∨ e = f1)) ∨ (¬ (e = e0 ∨ e = e1) ∧ (e = f0 ∨ e = f1)))) := by
  obtain ⟨L, x, y, _, hx, hy, hd, hr⟩ := path_connect_spec p q e0 e1 f0 f1 hp hq hc
  refine ⟨_, hr, ?_, ?_⟩
  · intro hb
    have hxy : x = y := by omega
    simp [hxy, Path.ends]
  · intro hnb
    have hxy : x ≠ y := by omega
    refine ⟨x, y, ?_, hxy, ?_⟩
    · rw [if_neg hxy]
      exact (ends_some _ x y).2 ⟨rfl, hx, hy⟩
    · intro e
      omega

/-- a connect that closes up gives a circle: both ends shared ⇔ the result is closed -/
theorem tngcomp_connect_closes_circle (p q : Path) (e0 e1 f0 f1 : Nat)
    (hp : p.ends = some (e0, e1)) (hq : q.ends = some (f0, f1)) (he : e0 ≠ e1) (hf : f0 ≠ f1)
    (hc : isConnectable p q = true) (r : Path) (hr : p.connect q = .ok r) :
    r.closed = true ↔ ((e0 = f0 ∧ e1 = f1) ∨ (e0 = f1 ∧ e1 = f0)) := by
  obtain ⟨r', hr', h1, h2⟩ := tngcomp_connect_ends p q e0 e1 f0 f1 hp hq he hf hc
  rw [hr] at hr'
  injection hr' with hr'
  subst hr'
  constructor
  · intro hcl
    by_contra hnb
    obtain ⟨x, y, hxy, _, _⟩ := h2 hnb
    simp [Path.ends, hcl] at hxy
  · intro hb
    exact (h1 hb).1

/-- commutativity of `TngComp::connect` as the Rust `PartialEq` sees it: proper arcs sharing exactly one end give,
in either argument order, arcs that are `unori_eq` (the edge lists are equal or reversed). -/
theorem tngcomp_connect_comm (p q : Path) (e0 e1 f0 f1 : Nat)
    (hp : p.ends = some (e0, e1)) (hq : q.ends = some (f0, f1)) (he : e0 ≠ e1) (hf : f0 ≠ f1)
    (hc : isConnectable p q = true) (hnb : ¬ ((e0 = f0 ∧ e1 = f1) ∨ (e0 = f1 ∧ e1 = f0))) :
    ∃ r r', p.connect q = .ok r ∧ q.connect p = .ok r' ∧ unoriEq r r' = true ∧ unoriEq r' r = true := by
  obtain ⟨L, L', h1, h2, h3⟩ := path_connect_comm_edges p q e0 e1 f0 f1 hp hq he hf hc hnb
  refine ⟨_, _, h1, h2, ?_, ?_⟩
  · rcases h3 with rfl | rfl
    · exact unoriEq_arc_self _
    · exact unoriEq_arc_reverse _
  · rcases h3 with rfl | rfl
    · exact unoriEq_arc_self _
    · have := unoriEq_arc_reverse L.reverse
      simpa using this

/-- the closing case, PARTIAL: when both ends are shared, both argument orders return circles with the same number
of edges `|p| + |q| − 2`.  Missing: `unori_eq` of the two (rotated / reflected) edge lists. -/
theorem tngcomp_connect_comm_circle_partial (p q : Path) (e0 e1 f0 f1 : Nat)
    (hp : p.ends = some (e0, e1)) (hq : q.ends = some (f0, f1)) (he : e0 ≠ e1) (hf : f0 ≠ f1)
    (hb : (e0 = f0 ∧ e1 = f1) ∨ (e0 = f1 ∧ e1 = f0)) :
    ∃ r r', p.connect q = .ok r ∧ q.connect p = .ok r' ∧ r.closed = true ∧ r'.closed = true
      ∧ r.edges.length + 2 = p.edges.length + q.edges.length ∧ r'.edges.length = r.edges.length := by
  have hc : isConnectable p q = true := by
    rw [isConnectable_iff p q e0 e1 f0 f1 hp hq]; omega
  have hc' : isConnectable q p = true := by
    rw [isConnectable_iff q p f0 f1 e0 e1 hq hp]; omega
  obtain ⟨L, x, y, hL, hx, hy, hd, hr⟩ := path_connect_spec p q e0 e1 f0 f1 hp hq hc
  obtain ⟨L', x', y', hL', hx', hy', hd', hr'⟩ := path_connect_spec q p f0 f1 e0 e1 hq hp hc'
  have hxy : x = y := by omega
  have hxy' : x' = y' := by omega
  rw [if_pos hxy] at hr
  rw [if_pos hxy'] at hr'
  obtain ⟨_, hp0, _⟩ := (ends_some p e0 e1).1 hp
  obtain ⟨_, hq0, _⟩ := (ends_some q f0 f1).1 hq
  have hpne : p.edges ≠ [] := by intro h0; simp [h0] at hp0
  have hqne : q.edges ≠ [] := by intro h0; simp [h0] at hq0
  have l1 := glue_length _ _ _ _ _ _ hqne L hL
  have l2 := glue_length _ _ _ _ _ _ hpne L' hL'
  have hLne : 1 ≤ L.length := by
    cases L with
    | nil => simp at hx
    | cons a t => simp
  have hLne' : 1 ≤ L'.length := by
    cases L' with
    | nil => simp at hx'
    | cons a t => simp
  refine ⟨_, _, hr, hr', rfl, rfl, ?_, ?_⟩
  · simp only [List.length_dropLast]; omega
  · simp only [List.length_dropLast]; omega

/-- the hypotheses are satisfiable: `[0,1] + [1,2] = [0,1,2]`, and `[0,1,2] + [0,2]` closes up to `⚪(0,1,2)`
(the unit test `connect_comp` of `tng.rs`) -/
example : (Path.mk [0, 1] false).connect ⟨[1, 2], false⟩ = .ok ⟨[0, 1, 2], false⟩
    ∧ (Path.mk [0, 1, 2] false).connect ⟨[0, 2], false⟩ = .ok ⟨[0, 1, 2], true⟩
    ∧ unoriEq ⟨[0, 1, 2], true⟩ ⟨[2, 0, 1], true⟩ = true := by decide

/-! ### (b) Euler characteristic and genus -/

/-- the genus computed by `connect` / `stack_comps` (`g2 = 2 − (x1 + x2 + b) + a`, `assert!(g2 >= 0)`,
`assert!(g2 % 2 == 0)`, `genus = g2 / 2`) is THE natural number `g` with `2 − 2g − b = x1 + x2 − a`: the call
returns `g` iff that equation holds (so the asserts pass iff such a natural number exists). -/
theorem genus_unique (x1 x2 : Int) (b a g : Nat) :
    genusFrom x1 x2 b a = .ok g ↔ 2 - 2 * (g : Int) - (b : Int) = x1 + x2 - (a : Int) :=
  ⟨genusFrom_ok x1 x2 b a g, genusFrom_of_eq x1 x2 b a g⟩

/-- `CobComp::connect`: if it returns (`debug_assert!(is_connectable)`, `assert!(a > 0)`, the two genus asserts
pass), then both inputs have an Euler number, `a = #shared end points > 0`, the source / target tangles are the
`Tng::connect` of the sources / targets, dots add, and
`euler_num(result) = χ₁ + χ₂ − a = 2 − 2·genus − #∂` with the stored genus. -/
theorem cobcomp_connect_euler (c d r : CobComp) (h : c.connect d = .ok r) :
    ∃ x1 x2 b, c.eulerNum = .ok x1 ∧ d.eulerNum = .ok x2 ∧ r.nbdr = .ok b
      ∧ r.eulerNum = .ok (x1 + x2 - (sharedEndpts c d : Int))
      ∧ x1 + x2 - (sharedEndpts c d : Int) = 2 - 2 * (r.genus : Int) - (b : Int)
      ∧ (∀ g' : Nat, 2 - 2 * (g' : Int) - (b : Int) = x1 + x2 - (sharedEndpts c d : Int) → g' = r.genus)
      ∧ 0 < sharedEndpts c d
      ∧ Tng.connect c.src d.src = .ok r.src ∧ Tng.connect c.tgt d.tgt = .ok r.tgt
      ∧ r.dots = (c.dots.1 + d.dots.1, c.dots.2 + d.dots.2) := by
  obtain ⟨x1, x2, b, hx1, hx2, hb, hs, ht, hg, hdots, ha⟩ := connect_spec c d r h
  have he := genusFrom_ok _ _ _ _ _ hg
  refine ⟨x1, x2, b, hx1, hx2, hb, ?_, he.symm, ?_, ha, hs, ht, hdots⟩
  · rw [(deg_of_nbdr r b hb).2]
    congr 1
  · intro g' hg'
    omega

/-- `Cob::stack_comps`: if it returns, `euler_num(result) = Σχ(bot) + Σχ(top) − a = 2 − 2·genus − #∂` where
`a` = number of arcs in the targets of `bot`; source / target are the connected sources of `bot` / targets of
`top`; dots add. -/
theorem stack_comps_euler (bot top : List CobComp) (r : CobComp) (h : stackComps bot top = .ok r) :
    ∃ x0 x1 b, Cob.eulerNum bot = .ok x0 ∧ Cob.eulerNum top = .ok x1 ∧ r.nbdr = .ok b
      ∧ r.eulerNum = .ok (x0 + x1 - (tgtArcs bot : Int))
      ∧ x0 + x1 - (tgtArcs bot : Int) = 2 - 2 * (r.genus : Int) - (b : Int)
      ∧ foldConnect (bot.map (·.src)) [] = .ok r.src ∧ foldConnect (top.map (·.tgt)) [] = .ok r.tgt
      ∧ r.dots = sumDots (bot ++ top) := by
  obtain ⟨x0, x1, b, hx0, hx1, hs, ht, hb, hg, hdots, _, _⟩ := stackComps_spec bot top r h
  have he := genusFrom_ok _ _ _ _ _ hg
  refine ⟨x0, x1, b, hx0, hx1, hb, ?_, he.symm, hs, ht, hdots⟩
  rw [(deg_of_nbdr r b hb).2]
  congr 1

/-- non-vacuous: the unit test `connect_incr_genus` of `cob.rs` (two strips + a band: genus 1, χ = −1) -/
example : (CobComp.mk [⟨[1, 2], false⟩, ⟨[3, 4], false⟩] [⟨[1, 2], false⟩, ⟨[3, 4], false⟩] 0 (0, 0)).connect
      (CobComp.id ⟨[1, 3], false⟩)
    = .ok ⟨[⟨[4, 3, 1, 2], false⟩], [⟨[4, 3, 1, 2], false⟩], 1, (0, 0)⟩ := by decide

/-! ### (c) the quantum degree is additive -/

/-- `deg` is additive under horizontal composition of components.  Hypotheses: the call returned; the end
points of the composite are the symmetric difference of the end points (`#E = #E₁ + #E₂ − 2a`) and every
component has an even number of end points — what `Tng::connect` produces on well-formed tangles (checked by the
harness oracle on every generated case, not proved). -/
theorem deg_connect_additive (c d r : CobComp) (h : c.connect d = .ok r)
    (hE : r.endpts.length + 2 * sharedEndpts c d = c.endpts.length + d.endpts.length)
    (hc : c.endpts.length % 2 = 0) (hd : d.endpts.length % 2 = 0) :
    ∃ x y, c.deg = .ok x ∧ d.deg = .ok y ∧ r.deg = .ok (x + y) :=
  deg_connect_additive_aux c d r h hE hc hd

/-- `deg` is additive under vertical composition (`Cob::stack_comps` on one group of lower and upper
components; `Cob::deg` = sum over components).  Hypothesis (end-point bookkeeping): `#E(result)/2 + a =
Σ_bot #E/2 + Σ_top #E/2`, i.e. the result keeps the end points of the lower components and every arc of the lower
targets accounts for two end points of the upper components. -/
theorem deg_stack_additive (bot top : List CobComp) (r : CobComp) (h : stackComps bot top = .ok r)
    (hE : r.endpts.length / 2 + tgtArcs bot = halfEnds bot + halfEnds top) :
    ∃ x y, Cob.deg bot = .ok x ∧ Cob.deg top = .ok y ∧ r.deg = .ok (x + y) :=
  deg_stack_additive_aux bot top r h hE

/-- the hypotheses hold on the unit-test example above (band glued on two strips): degrees `−2 + 0 = −2` -/
example :
    let c : CobComp := ⟨[⟨[1, 2], false⟩, ⟨[3, 4], false⟩], [⟨[1, 2], false⟩, ⟨[3, 4], false⟩], 0, (0, 0)⟩
    let d := CobComp.id ⟨[1, 3], false⟩
    let r : CobComp := ⟨[⟨[4, 3, 1, 2], false⟩], [⟨[4, 3, 1, 2], false⟩], 1, (0, 0)⟩
    r.endpts.length + 2 * sharedEndpts c d = c.endpts.length + d.endpts.length
      ∧ c.deg = .ok (-2) ∧ d.deg = .ok 0 ∧ r.deg = .ok (-2) := by decide

/-! ### (d) capping off -/

/-- `CobComp::cap_off(b, i)` followed by `add_dot(dot)` — what `Cob::cap_off` does to the component that
contains the circle: if the component had a degree, the result has degree `deg + discDeg dot`
(`discDeg` = degree of the dotted disc, `+1` plain, `−1` dotted: `deloop_degrees`). -/
theorem cap_off_deg (c c' : CobComp) (bt : Bottom) (i : Nat) (dot : Dot) (x : Int)
    (h : c.capOff bt i = .ok c') (hx : c.deg = .ok x) :
    (c'.addDot dot).deg = .ok (x + Deloop.discDeg dot.toDeloop) := by
  unfold CobComp.deg at hx
  split at hx
  · rename_i b hb
    injection hx with hx
    subst hx
    obtain ⟨b', hb', rfl, hE, hg, hdots⟩ := capOff_spec c c' bt i b h hb
    obtain ⟨hd, hs, ht, hgen⟩ := addDot_dots c' dot
    have hn : (c'.addDot dot).nbdr = .ok b' := by
      unfold CobComp.nbdr; rw [hs, ht]; exact hb'
    rw [(deg_of_nbdr _ b' hn).1]
    congr 1
    have hE' : (c'.addDot dot).endpts.length = c.endpts.length := by
      unfold CobComp.endpts; rw [hs]; exact hE
    rw [hE', hgen, hg, hd, hdots]
    exact Deloop.deloop_degrees.2.1 dot.toDeloop b' c.endpts.length c.genus c.dots.1 c.dots.2
  · cases hx
  · cases hx

/-- `Cob::cap_off(b, c, dot)` on a whole cobordism (find the component, cap, add the dot, drop a unit sphere,
re-sort): `Cob::deg` changes by the degree of the dotted disc. -/
theorem cob_cap_off_deg (k k' : Cob) (bt : Bottom) (c : Path) (dot : Dot) (D : Int)
    (h : Cob.capOff k bt c dot = .ok k') (hD : Cob.deg k = .ok D) :
    Cob.deg k' = .ok (D + Deloop.discDeg dot.toDeloop) := by
  unfold Cob.capOff at h
  split at h
  · cases h
  · split at h
    · cases h
    · rename_i i comp p hf
      have hi := findComp_some k bt c i p comp hf
      split at h
      · rename_i comp1 h1
        obtain ⟨x, hx⟩ := sumRes_get CobComp.deg k i comp D hD hi
        have h2 := cap_off_deg comp comp1 bt p dot x h1 hx
        simp only at h
        split at h
        · rename_i hu
          injection h with h; subst h
          have h0 := unit_deg _ hu
          rw [h0] at h2
          injection h2 with h2
          unfold Cob.deg Cob.new
          rw [sumRes_sortBy, sumRes_erase CobComp.deg k i comp D x hD hi hx]
          congr 1; omega
        · injection h with h; subst h
          unfold Cob.deg Cob.new
          rw [sumRes_sortBy, sumRes_set CobComp.deg k i comp _ D x _ hD hi hx h2]
          congr 1; omega
      · cases h
      · cases h

/-- non-vacuous: capping the source circle of a cylinder with an `X`-dotted disc: `0 ↦ −1` -/
example : (CobComp.mk [⟨[1], true⟩] [⟨[2], true⟩] 0 (0, 0)).capOff .src 0 = .ok ⟨[], [⟨[2], true⟩], 0, (0, 0)⟩
    ∧ (CobComp.mk [⟨[1], true⟩] [⟨[2], true⟩] 0 (0, 0)).deg = .ok 0
    ∧ ((CobComp.mk [] [⟨[2], true⟩] 0 (0, 0)).addDot .X).deg = .ok (-1) := by decide

/-! ### (e) identity and inverse (cylinder-type components) -/

/-- stacking a cylinder-type component `[s] → [t]` (any genus, any dots) with the identity component below
(`id(s)`) or above (`id(t)`) gives the component back.  "Valid" = both circles, or both arcs with common end
points (what `CobComp::new` and `nbdr_comps` need). -/
theorem stack_id_cyl (s t : Path) (g : Nat) (d : Nat × Nat)
    (h : (s.closed = true ∧ t.closed = true) ∨
      (s.closed = false ∧ t.closed = false ∧ isConnectable t s = true
        ∧ setEq (Tng.endpts [s]) (Tng.endpts [t]) = true)) :
    stackComps [CobComp.id s] [⟨[s], [t], g, d⟩] = .ok ⟨[s], [t], g, d⟩
    ∧ stackComps [⟨[s], [t], g, d⟩] [CobComp.id t] = .ok ⟨[s], [t], g, d⟩ := by
  rcases h with ⟨hs, ht⟩ | ⟨hs, ht, hts, hE⟩
  · have h1 := stackComps_cyl_circ s s t 0 g (0, 0) d hs hs ht
    have h2 := stackComps_cyl_circ s t t g 0 d (0, 0) hs ht ht
    simp only [Nat.zero_add, Nat.add_zero] at h1 h2
    exact ⟨h1, h2⟩
  · obtain ⟨htt, hss⟩ := isConnectable_self t s hts
    have h1 := stackComps_cyl_arc s s t 0 g (0, 0) d hs hs ht hss hts hts hE
    have h2 := stackComps_cyl_arc s t t g 0 d (0, 0) hs ht ht hts htt hts hE
    simp only [Nat.zero_add, Nat.add_zero] at h1 h2
    exact ⟨h1, h2⟩

/-- `inv` of an invertible (cylinder-type, genus 0, no dots) component is a two-sided inverse under stacking:
`c` then `inv c` is `id(s)`, `inv c` then `c` is `id(t)`; and `inv (inv c) = c`. -/
theorem inv_two_sided (s t : Path)
    (h : (s.closed = true ∧ t.closed = true) ∨
      (s.closed = false ∧ t.closed = false ∧ isConnectable t s = true
        ∧ setEq (Tng.endpts [t]) (Tng.endpts [s]) = true ∧ setEq (Tng.endpts [s]) (Tng.endpts [t]) = true)) :
    let c : CobComp := ⟨[s], [t], 0, (0, 0)⟩
    let i : CobComp := ⟨[t], [s], 0, (0, 0)⟩
    c.isInvertible = true ∧ c.inv = .ok (some i) ∧ i.inv = .ok (some c)
      ∧ stackComps [c] [i] = .ok (CobComp.id s) ∧ stackComps [i] [c] = .ok (CobComp.id t) := by
  intro c i
  have hinv : c.isInvertible = true ∧ i.isInvertible = true := by
    simp [c, i, CobComp.isInvertible, CobComp.isCyl]
  rcases h with ⟨hs, ht⟩ | ⟨hs, ht, hts, hE, hE'⟩
  · have e1 : setEq (Tng.endpts [t]) (Tng.endpts [s]) = true := by
      simp [Tng.endpts, endsMulti, ends_of_closed, hs, ht, dedup, setEq]
    have e2 : setEq (Tng.endpts [s]) (Tng.endpts [t]) = true := by
      simp [Tng.endpts, endsMulti, ends_of_closed, hs, ht, dedup, setEq]
    refine ⟨hinv.1, ?_, ?_, ?_, ?_⟩
    · simp [CobComp.inv, hinv.1, CobComp.plain, CobComp.new, c, i, e1]
    · simp [CobComp.inv, hinv.2, CobComp.plain, CobComp.new, c, i, e2]
    · exact stackComps_cyl_circ s t s 0 0 (0, 0) (0, 0) hs ht hs
    · exact stackComps_cyl_circ t s t 0 0 (0, 0) (0, 0) ht hs ht
  · obtain ⟨htt, hss⟩ := isConnectable_self t s hts
    have hst : isConnectable s t = true := by rw [isConnectable_symm]; exact hts
    refine ⟨hinv.1, ?_, ?_, ?_, ?_⟩
    · simp [CobComp.inv, hinv.1, CobComp.plain, CobComp.new, c, i, hE]
    · simp [CobComp.inv, hinv.2, CobComp.plain, CobComp.new, c, i, hE']
    · exact stackComps_cyl_arc s t s 0 0 (0, 0) (0, 0) hs ht hs hts hst hss (setEq_self _)
    · exact stackComps_cyl_arc t s t 0 0 (0, 0) (0, 0) ht hs ht hst hts htt (setEq_self _)

/-- the hypotheses are satisfiable (the unit test `inv` of `cob.rs`: a cylinder over arcs `[0,5,1] → [0,1]`) -/
example : (Path.mk [0, 5, 1] false).closed = false ∧ (Path.mk [0, 1] false).closed = false
    ∧ isConnectable ⟨[0, 1], false⟩ ⟨[0, 5, 1], false⟩ = true
    ∧ setEq (Tng.endpts [⟨[0, 1], false⟩]) (Tng.endpts [⟨[0, 5, 1], false⟩]) = true
    ∧ setEq (Tng.endpts [⟨[0, 5, 1], false⟩]) (Tng.endpts [⟨[0, 1], false⟩]) = true := by decide

end Yuiv.C05.Tng
