import Yuiv.Proofs.C07Euc
import Yuiv.Proofs.C07EucTie
import Yuiv.Proofs.C07EucInt
import Yuiv.Proofs.C09EucPoly
import Yuiv.Proofs.C09EucEis
import Yuiv.Props.C07Full
/-
C07 END-TO-END over EVERY lawful Euclidean operation record — property theorems only.

`Props/C07Full.lean` composes the `Int` model of `HomologyCalc::{calculate, trans}` with the C09 code model of the
library's SNF at `intOps`.  The Rust code is generic (`HomologyCalc<R: EucRing>`); `Props/C09Euc.lean` proves the C09
model total and correct for every operation record `e : EOps α` with `L : LawfulEuc e φ` (`φ : α → K`, `K` a
commutative domain).  Here:

 * `calculateG e` (Proofs/C07EucModel.lean) is the SAME code as `Model/C07Calc.lean`/`C07Trans.lean`, line by line, with
   `0, 1, +, *, == 0, is_unit` taken from the operation record; `generic_code_is_int_model` /
   `generic_composite_is_int_composite` prove that at `intOps` it computes exactly what the `Int` model (the one
   the driver `yuivd_c07` runs) computes — same values, same panics, same fuel exhaustion;
 * `calculate_end_to_end_euc`: for every lawful `e`, the LITERAL COMPOSITION `calculateG e (snfC09G e fuel) d1 d2 true`
   returns for all `fuel ≥ N` one answer satisfying ALL clauses of property C07, with no hypothesis besides
   `φ(d2)·φ(d1) = 0` and the shape condition `d2.ncols = d1.nrows`;
 * corollaries for ℤ (the statement of `Props/C07Full.lean` is re-derived from the generic theorem through the tie),
   ℚ, 𝔽_p, ℤ[i] (and 𝔽_p[x], ℤ[ω] when their instances are available).

Not covered (as in C07Full/C09Euc): the LLL–HNF preprocessing of `snf_in_place` for integer types is the identity in
the C09 model; the fuel is existential.
-/
namespace Yuiv.C07
open Matrix Yuiv

variable {α K : Type} [CommRing K] [IsDomain K] {e : C09.EOps α} {φ : α → K}

/-! ### the generic code is tied to the driver's model -/

/-- **the generic code at `intOps` is the `Int` model.**  For SNF routines that correspond under the bijection
`Mat.toG : Mat → GMat Int` (same shape, same array), `calculateG intOps` returns the image of what the model
`calculate` of `Model/C07Calc.lean` returns — same value, same panic, same fuel exhaustion -/
theorem generic_code_is_int_model (snf : SnfFn) (snfG : GSnfFn Int)
    (hsnf : ∀ A fl, snfG (Mat.toG A) fl = Res.mapR Snf.toG (snf A fl)) (d1 d2 : Mat) (wt : Bool) :
    calculateG C09.intOps snfG d1.toG d2.toG wt = Res.mapR ansToG (calculate snf d1 d2 wt) :=
  calculateG_int snf snfG hsnf d1 d2 wt

/-- **… and the generic composite is the composite of `Props/C07Full.lean`**: `calculateG intOps (snfC09G intOps fuel)`
is `calculate (snfC09 fuel)`; so are the coordinate matrices read off the returned `Trans` -/
theorem generic_composite_is_int_composite (fuel : Nat) (d1 d2 : Mat) (wt : Bool) :
    calculateG C09.intOps (snfC09G C09.intOps fuel) d1.toG d2.toG wt =
      Res.mapR ansToG (calculate (snfC09 fuel) d1 d2 wt) ∧
    (∀ t : Trans, t.toG.forwardMat C09.intOps.toROps = Res.mapR Mat.toG t.forwardMat ∧
      t.toG.backwardMat C09.intOps.toROps = Res.mapR Mat.toG t.backwardMat) :=
  ⟨calculateG_snfC09_int fuel d1 d2 wt, fun t => ⟨forwardMatG_int t, backwardMatG_int t⟩⟩

/-! ### the end-to-end theorem -/

/-- **the number of non-zero diagonal entries of the library's SNF is the rank**, for every lawful operation record:
the C09 code model returns (for all `fuel ≥ N`) one final state `st`, the verified checker accepts its target, and
the number of non-zero entries on its diagonal equals `Matrix.rank` of the input read through `φ` (over `K`) -/
theorem snf_nzCount_eq_rank_euc (L : C09.LawfulEuc e φ) (A : GMat α) :
    ∃ (N : Nat) (st : C09.St α A.r A.c),
      (∀ fuel, N ≤ fuel → C09.snfCalc e true (fun s => .ok s) fuel (toC09G e.toROps A) = .ok st) ∧
      C09.isSnfShape e st.t = true ∧
      nzCountG e st = (A.toM φ e.toROps A.r A.c).rank := by
  obtain ⟨N, st, r1, hN, _, hdat, hdl⟩ := snfC09G_spec L A
  refine ⟨N, st, hN, C09.snf_shape_euc L true _ N _ st (hN N (Nat.le_refl _)), ?_⟩
  rw [hdat.rank_eq]
  unfold nzCountG
  rw [hdl, diagL_nzG L (fun k => (ofC09G e.toROps st.t).get e.toROps k k) r1 _
    (by have := hdat.r1r; have := hdat.r1c; omega) hdat.nz
    (fun k hk => by have := hdat.diag k k; simpa [show ¬ k < r1 by omega] using this)]
  simp

/-- **C07 end-to-end, every lawful Euclidean operation record.**  Let `L : LawfulEuc e φ` (`φ : α → K`, `K` a
commutative domain).  For every pair of matrices `d1 : n×m`, `d2 : k×n` over `α` (`n = d1.r`, `m = d1.c`, `k = d2.r`)
with `φ(d2)·φ(d1) = 0` there is a fuel bound `N` such that for every `fuel ≥ N` the generic code of
`HomologyCalc::calculate(d1, d2, with_trans = true)` running on the code model of the library's SNF returns — no
panic, no fuel exhaustion — one answer `(rank, tors, T)` with `P = T.forward_mat()`, `Q = T.backward_mat()` and

* `rank + r(d1) + r(d2) = n`, where `r(·)` = number of non-zero diagonal entries of the SNF which the library
  computes for `d1` resp. `d2` (`st1`, `st2`; the verified checker `isSnfShape` accepts both), and `r(·)` =
  `Matrix.rank` over `K`;
* `tors` = the non-zero non-unit entries on the Smith diagonal of `d1` (`st1`), in order;
* `HomologySpecG`: the orders are non-zero, non-units, normalised, each divides the next; `P·Q = I`; `d2·Q = 0`;
  every boundary `d1·x` has zero free coordinates and torsion coordinate `u` divisible by `tors[u]`;
  `P·(Q·e_i) = e_i`; and completeness — every cycle whose free coordinates vanish and whose torsion coordinates are
  divisible by the orders is a boundary.  (So `z ↦ P·z` induces `ker d2 / im d1 ≅ K^rank ⊕ ⊕_u K/(tors[u])`.) -/
theorem calculate_end_to_end_euc (L : C09.LawfulEuc e φ) (d1 d2 : GMat α) (hsh : d2.c = d1.r)
    (hdd : d2.toM φ e.toROps d2.r d1.r * d1.toM φ e.toROps d1.r d1.c = 0) :
    ∃ (N : Nat) (st1 : C09.St α d1.r d1.c) (st2 : C09.St α d2.r d2.c)
      (rank : Nat) (tors : List α) (T : GTrans α) (P Q : GMat α),
      (∀ fuel, N ≤ fuel → C09.snfCalc e true (fun s => .ok s) fuel (toC09G e.toROps d1) = .ok st1) ∧
      (∀ fuel, N ≤ fuel → C09.snfCalc e true (fun s => .ok s) fuel (toC09G e.toROps d2) = .ok st2) ∧
      (∀ fuel, N ≤ fuel → calculateG e (snfC09G e fuel) d1 d2 true = .ok (rank, tors, some T)) ∧
      T.forwardMat e.toROps = .ok P ∧ T.backwardMat e.toROps = .ok Q ∧
      C09.isSnfShape e st1.t = true ∧ C09.isSnfShape e st2.t = true ∧
      rank + nzCountG e st1 + nzCountG e st2 = d1.r ∧
      nzCountG e st1 = (d1.toM φ e.toROps d1.r d1.c).rank ∧
      nzCountG e st2 = (d2.toM φ e.toROps d2.r d1.r).rank ∧
      tors = nonUnitFactorsG e st1 ∧
      HomologySpecG e φ d1 d2 d1.r d1.c d2.r rank tors P Q := by
  obtain ⟨N1, st1, r1, hN1, hsnf1, hdat1, hdl1⟩ := snfC09G_spec L d1
  obtain ⟨N3, st3, r3, hN3, _, hdat3, hdl3⟩ := snfC09G_spec L d2
  have hsh1 : C09.isSnfShape e st1.t = true := C09.snf_shape_euc L true _ N1 _ st1 (hN1 N1 (Nat.le_refl _))
  have hsh3 : C09.isSnfShape e st3.t = true := C09.snf_shape_euc L true _ N3 _ st3 (hN3 N3 (Nat.le_refl _))
  have hz1 : ∀ k, r1 ≤ k → φ ((ofC09G e.toROps st1.t).get e.toROps k k) = 0 := fun k hk => by
    have := hdat1.diag k k; simpa [show ¬ k < r1 by omega] using this
  have hz3 : ∀ k, r3 ≤ k → φ ((ofC09G e.toROps st3.t).get e.toROps k k) = 0 := fun k hk => by
    have := hdat3.diag k k; simpa [show ¬ k < r3 by omega] using this
  have hnz1 : nzCountG e st1 = r1 := by
    unfold nzCountG
    rw [hdl1, diagL_nzG L _ r1 _ (by have := hdat1.r1r; have := hdat1.r1c; omega) hdat1.nz hz1]
    simp
  have hnz3 : nzCountG e st3 = r3 := by
    unfold nzCountG
    rw [hdl3, diagL_nzG L _ r3 _ (by have := hdat3.r1r; have := hdat3.r1c; omega) hdat3.nz hz3]
    simp
  have hrk1 : (d1.toM φ e.toROps d1.r d1.c).rank = r1 := hdat1.rank_eq
  have hrk3 : (d2.toM φ e.toROps d2.r d1.r).rank = r3 := by
    have := hdat3.rank_eq
    rw [hsh] at this
    exact this
  have htors1 : nonUnitFactorsG e st1 =
      ((List.range r1).map fun i => (ofC09G e.toROps st1.t).get e.toROps i i).filter (fun x => !e.isUnit x) := by
    unfold nonUnitFactorsG
    rw [hdl1]
    exact diagL_filterG L _ r1 _ (by have := hdat1.r1r; have := hdat1.r1c; omega) hdat1.nz hz1
  have hassert : Res.assert (d1.r == d2.c) = .ok () := by simp [Res.assert, hsh]
  by_cases htriv : (d1.isZero e.toROps && d2.isZero e.toROps) = true
  · -- `trivial_result`
    obtain ⟨hz1', hz2'⟩ := Bool.and_eq_true_iff.1 htriv
    have hd1 : d1.toM φ e.toROps d1.r d1.c = 0 := by ext i j; exact isZero_getG L d1 hz1' _ _
    have hd2 : d2.toM φ e.toROps d2.r d1.r = 0 := by ext i j; exact isZero_getG L d2 hz2' _ _
    have hr1 : r1 = 0 := by rw [← hrk1, hd1, Matrix.rank_zero]
    have hr3 : r3 = 0 := by rw [← hrk3, hd2, Matrix.rank_zero]
    refine ⟨max N1 N3, st1, st3, d1.r, [], GTrans.id d1.r, GMat.id e.toROps d1.r, GMat.id e.toROps d1.r,
      fun fuel hf => hN1 fuel (by omega), fun fuel hf => hN3 fuel (by omega), ?_, rfl, rfl, hsh1, hsh3, by omega,
      by omega, by omega, ?_, trivial_specG L d1 d2 _ _ _ hd1 hd2⟩
    · intro fuel _
      unfold calculateG
      rw [hassert, Res.bind_ok, if_pos htriv]
      rfl
    · rw [htors1, hr1]; rfl
  · -- the general branch
    have h0 : r1 = 0 → (ofC09G e.toROps st1.pinv).toM φ e.toROps d1.r d1.r = 1 := by
      intro hr
      have hS : (ofC09G e.toROps st1.t).toM φ e.toROps d1.r d1.c = 0 := by
        ext i j
        show φ ((ofC09G e.toROps st1.t).get e.toROps i.val j.val) = 0
        rw [hdat1.diag]; simp [hr]
      have hA : d1.toM φ e.toROps d1.r d1.c = 0 := by
        have ts : C09.TransformSpec (d1.toM φ e.toROps d1.r d1.c) ((ofC09G e.toROps st1.t).toM φ e.toROps d1.r d1.c)
            ((ofC09G e.toROps st1.p).toM φ e.toROps d1.r d1.r)
            ((ofC09G e.toROps st1.pinv).toM φ e.toROps d1.r d1.r) ((ofC09G e.toROps st1.q).toM φ e.toROps d1.c d1.c)
            ((ofC09G e.toROps st1.qinv).toM φ e.toROps d1.c d1.c) :=
          And.intro hdat1.eqS.symm (And.intro hdat1.pp hdat1.qq)
        rw [ts.two_sided.2.2, hS]; simp
      have hzm : C09.isZeroMat e.toROps (toC09G e.toROps d1) = true := by
        rw [C09.isZeroMat_iff L.lawful, toC09G_toM]; exact hA
      have hinit : C09.snfCalc e true (fun s => .ok s) N1 (toC09G e.toROps d1) =
          .ok (C09.St.init e.toROps (toC09G e.toROps d1)) := by
        unfold C09.snfCalc; rw [if_pos hzm]
      rw [hN1 N1 (le_refl _)] at hinit
      injection hinit with hinit
      rw [ofC09G_toM, hinit]
      exact C09.toM_idMat L.lawful _
    obtain ⟨hD2r, hD2c, hD2m⟩ := D2_toMG L d2 (ofC09G e.toROps st1.pinv) d1.r d2.r r1 hdat1.r1r ⟨rfl, hsh⟩
      hdat1.shPi h0
    generalize hD2def : (if 0 < r1 then d2.mul e.toROps ((ofC09G e.toROps st1.pinv).cols e.toROps r1 d1.r) else d2)
      = D2 at hD2r hD2c hD2m
    obtain ⟨N2, S2, P2, P2i, Q2, Q2i, r2, hsnf2, hdat2⟩ := snfC09G_spec' L D2 d2.r (d1.r - r1) hD2r hD2c
    obtain ⟨P, Q, hres, htr, hspec⟩ := calc_coreG L d1 d2 D2 (ofC09G e.toROps st1.t) (ofC09G e.toROps st1.p)
      (ofC09G e.toROps st1.pinv) (ofC09G e.toROps st1.q) (ofC09G e.toROps st1.qinv) S2 P2 P2i Q2 Q2i d1.r d1.c d2.r
      r1 r2 hdd hdat1 hdat1.r1r hD2m hdat2
    have hr23 : r2 = r3 := by
      rw [← hdat2.rank_eq, hD2m, rank_d2'K hdat1.r1r _ ((ofC09G e.toROps st1.p).toM φ e.toROps d1.r d1.r) _ hdat1.pp
        (fun i j hj => hdat1.d2P1i_cols hdd i j hj), hrk3]
    have hr12 : r1 + r2 ≤ d1.r := by have := hdat2.r1c; have := hdat1.r1r; omega
    refine ⟨max N1 (max N2 N3), st1, st3, d1.r - r1 - r2, _,
      ⟨d1.r, d1.r - r1 - r2 +
        (((List.range r1).map fun i => (ofC09G e.toROps st1.t).get e.toROps i i).filter
          fun x => !e.isUnit x).length, [P], [Q]⟩, P, Q,
      fun fuel hf => hN1 fuel (by omega), fun fuel hf => hN3 fuel (by omega), ?_, rfl, rfl, hsh1, hsh3, by omega,
      by omega, by omega, htors1.symm, hspec⟩
    intro fuel hf
    have hp := processSnfG_eq e.toROps (snfC09G e fuel) d1 d2 D2
      ⟨ofC09G e.toROps st1.t, some (ofC09G e.toROps st1.p), some (ofC09G e.toROps st1.pinv), none, none⟩
      ⟨S2, none, none, some Q2, some Q2i⟩ (ofC09G e.toROps st1.pinv) r1
      (by rw [hsnf1 fuel (by omega)]; rfl)
      (snf_rank_of_diagG L _ d1.r d1.c r1 hdat1.shS hdat1.r1r hdat1.r1c hdat1.diag hdat1.nz) rfl hsh hdat1.shPi
      hdat1.r1r hD2def.symm (by rw [hsnf2 fuel (by omega)]; rfl)
    unfold calculateG
    rw [hassert, Res.bind_ok, if_neg htriv, hp, Res.bind_ok]
    simp only [hres, htr, Res.bind_ok, if_true, Res.pure_eq]

omit [IsDomain K] in
/-- over a FIELD (every non-zero element of `K` is a unit) there is no torsion: the answer of
`calculate_end_to_end_euc` has `tors = []`, so `H ≅ K^rank` with `rank = n − rank d1 − rank d2` -/
theorem no_torsion_over_field (hK : ∀ x : K, x ≠ 0 → IsUnit x) {d1 d2 : GMat α} {n m k rank : Nat} {tors : List α}
    {P Q : GMat α} (h : HomologySpecG e φ d1 d2 n m k rank tors P Q) : tors = [] := by
  cases tors with
  | nil => rfl
  | cons x xs =>
    obtain ⟨h1, h2, _⟩ := h.tors_nonunit x (by simp)
    exact absurd (hK _ h1) h2

/-- **C07 end-to-end over a field** (every non-zero element of `K` is a unit): `H ≅ K^rank` with
`rank + rank d1 + rank d2 = n` (`Matrix.rank` over `K`), no torsion, and all generator clauses -/
theorem calculate_end_to_end_field (L : C09.LawfulEuc e φ) (hK : ∀ x : K, x ≠ 0 → IsUnit x) (d1 d2 : GMat α)
    (hsh : d2.c = d1.r) (hdd : d2.toM φ e.toROps d2.r d1.r * d1.toM φ e.toROps d1.r d1.c = 0) :
    ∃ (N rank : Nat) (T : GTrans α) (P Q : GMat α),
      (∀ fuel, N ≤ fuel → calculateG e (snfC09G e fuel) d1 d2 true = .ok (rank, [], some T)) ∧
      T.forwardMat e.toROps = .ok P ∧ T.backwardMat e.toROps = .ok Q ∧
      rank + (d1.toM φ e.toROps d1.r d1.c).rank + (d2.toM φ e.toROps d2.r d1.r).rank = d1.r ∧
      HomologySpecG e φ d1 d2 d1.r d1.c d2.r rank [] P Q := by
  obtain ⟨N, st1, st2, rank, tors, T, P, Q, _, _, h3, h4, h5, _, _, h6, h7, h8, _, h10⟩ :=
    calculate_end_to_end_euc L d1 d2 hsh hdd
  have ht : tors = [] := no_torsion_over_field hK h10
  subst ht
  exact ⟨N, rank, T, P, Q, h3, h4, h5, by omega, h10⟩

/-! ### the rings of the library -/

/-- **ℤ through the generic theorem**: `calculate_end_to_end_euc` at `(intOps, id)` -/
theorem calculate_end_to_end_int (d1 d2 : GMat Int) (hsh : d2.c = d1.r)
    (hdd : d2.toM (id : Int → Int) C09.intOps.toROps d2.r d1.r * d1.toM id C09.intOps.toROps d1.r d1.c = 0) :
    ∃ (N : Nat) (st1 : C09.St Int d1.r d1.c) (st2 : C09.St Int d2.r d2.c)
      (rank : Nat) (tors : List Int) (T : GTrans Int) (P Q : GMat Int),
      (∀ fuel, N ≤ fuel → C09.snfCalc C09.intOps true (fun s => .ok s) fuel (toC09G C09.intOps.toROps d1) = .ok st1) ∧
      (∀ fuel, N ≤ fuel → C09.snfCalc C09.intOps true (fun s => .ok s) fuel (toC09G C09.intOps.toROps d2) = .ok st2) ∧
      (∀ fuel, N ≤ fuel → calculateG C09.intOps (snfC09G C09.intOps fuel) d1 d2 true = .ok (rank, tors, some T)) ∧
      T.forwardMat C09.intOps.toROps = .ok P ∧ T.backwardMat C09.intOps.toROps = .ok Q ∧
      C09.isSnfShape C09.intOps st1.t = true ∧ C09.isSnfShape C09.intOps st2.t = true ∧
      rank + nzCountG C09.intOps st1 + nzCountG C09.intOps st2 = d1.r ∧
      nzCountG C09.intOps st1 = (d1.toM id C09.intOps.toROps d1.r d1.c).rank ∧
      nzCountG C09.intOps st2 = (d2.toM id C09.intOps.toROps d2.r d1.r).rank ∧
      tors = nonUnitFactorsG C09.intOps st1 ∧
      HomologySpecG C09.intOps id d1 d2 d1.r d1.c d2.r rank tors P Q :=
  calculate_end_to_end_euc C09.int_lawfulEuc d1 d2 hsh hdd

/-- **`Props/C07Full.lean` recovered**: the ℤ end-to-end theorem `calculate_end_to_end` — about the `Int` model
`calculate (snfC09 fuel)` that the driver's definitions compose, in the vocabulary `Mat`, `nzCount`,
`nonUnitFactors`, `HomologySpec` — follows from the generic theorem at `(intOps, id)` and the tie
`generic_composite_is_int_composite` -/
theorem calculate_end_to_end_recovered (d1 d2 : Mat) (hsh : d2.c = d1.r)
    (hdd : d2.toM d2.r d1.r * d1.toM d1.r d1.c = 0) :
    ∃ (N : Nat) (st1 : C09.St Int d1.r d1.c) (st2 : C09.St Int d2.r d2.c)
      (rank : Nat) (tors : List Int) (T : Trans) (P Q : Mat),
      (∀ fuel, N ≤ fuel → C09.snfCalc C09.intOps true (fun s => .ok s) fuel (toC09 d1) = .ok st1) ∧
      (∀ fuel, N ≤ fuel → C09.snfCalc C09.intOps true (fun s => .ok s) fuel (toC09 d2) = .ok st2) ∧
      (∀ fuel, N ≤ fuel → calculate (snfC09 fuel) d1 d2 true = .ok (rank, tors, some T)) ∧
      T.forwardMat = .ok P ∧ T.backwardMat = .ok Q ∧
      rank + nzCount st1 + nzCount st2 = d1.r ∧
      nzCount st1 = (d1.toM d1.r d1.c).rank ∧ nzCount st2 = (d2.toM d2.r d1.r).rank ∧
      tors = nonUnitFactors st1 ∧
      HomologySpec d1 d2 d1.r d1.c d2.r rank tors P Q := by
  obtain ⟨N, st1, st2, rank, tors, T, P, Q, h1, h2, h3, h4, h5, hs1, _, h6, h7, h8, h9, h10⟩ :=
    calculate_end_to_end_int d1.toG d2.toG hsh hdd
  obtain ⟨T', hT', hc⟩ := calculate_of_calculateG_int (h3 N (Nat.le_refl _))
  subst hT'
  rw [forwardMatG_int] at h4
  rw [backwardMatG_int] at h5
  have h4' := mapR_toG_ok h4
  have h5' := mapR_toG_ok h5
  refine ⟨N, st1, st2, rank, tors, T', P.toZ, Q.toZ, h1, h2, ?_, h4', h5', h6, h7, h8, ?_, ?_⟩
  · intro fuel hf
    obtain ⟨T'', hT'', hc'⟩ := calculate_of_calculateG_int (h3 fuel hf)
    have : T'' = T' := by
      obtain ⟨a1, a2, a3, a4⟩ := T''
      obtain ⟨b1, b2, b3, b4⟩ := T'
      simp only [Trans.toG, GTrans.mk.injEq] at hT''
      obtain ⟨rfl, rfl, e3, e4⟩ := hT''
      rw [(List.map_injective_iff.2 Mat.toG_injective) e3, (List.map_injective_iff.2 Mat.toG_injective) e4]
    rw [hc', this]
  · rw [h9]; exact nonUnitFactorsG_int st1 hs1
  · exact HomologySpecG.to_int (P := P.toZ) (Q := Q.toZ) h10

/-- **ℚ**: `H ≅ ℚ^rank`, `rank = n − rank d1 − rank d2`, no torsion -/
theorem calculate_end_to_end_rat (d1 d2 : GMat Rat) (hsh : d2.c = d1.r)
    (hdd : d2.toM (id : Rat → Rat) C09.ratOps.toROps d2.r d1.r * d1.toM id C09.ratOps.toROps d1.r d1.c = 0) :
    ∃ (N rank : Nat) (T : GTrans Rat) (P Q : GMat Rat),
      (∀ fuel, N ≤ fuel → calculateG C09.ratOps (snfC09G C09.ratOps fuel) d1 d2 true = .ok (rank, [], some T)) ∧
      T.forwardMat C09.ratOps.toROps = .ok P ∧ T.backwardMat C09.ratOps.toROps = .ok Q ∧
      rank + (d1.toM id C09.ratOps.toROps d1.r d1.c).rank + (d2.toM id C09.ratOps.toROps d2.r d1.r).rank = d1.r ∧
      HomologySpecG C09.ratOps id d1 d2 d1.r d1.c d2.r rank [] P Q :=
  calculate_end_to_end_field C09.rat_lawfulEuc (fun x hx => IsUnit.mk0 x hx) d1 d2 hsh hdd

/-- **𝔽_p** (`p` prime; residues as natural numbers, `φ = Nat.cast : ℕ → ZMod p`): `H ≅ 𝔽_p^rank`, no torsion -/
theorem calculate_end_to_end_fp (p : Nat) [Fact p.Prime] (d1 d2 : GMat Nat) (hsh : d2.c = d1.r)
    (hdd : d2.toM (fun a : Nat => (a : ZMod p)) (C09.fpOps p).toROps d2.r d1.r *
      d1.toM (fun a : Nat => (a : ZMod p)) (C09.fpOps p).toROps d1.r d1.c = 0) :
    ∃ (N rank : Nat) (T : GTrans Nat) (P Q : GMat Nat),
      (∀ fuel, N ≤ fuel → calculateG (C09.fpOps p) (snfC09G (C09.fpOps p) fuel) d1 d2 true = .ok (rank, [], some T)) ∧
      T.forwardMat (C09.fpOps p).toROps = .ok P ∧ T.backwardMat (C09.fpOps p).toROps = .ok Q ∧
      rank + (d1.toM (fun a : Nat => (a : ZMod p)) (C09.fpOps p).toROps d1.r d1.c).rank +
        (d2.toM (fun a : Nat => (a : ZMod p)) (C09.fpOps p).toROps d2.r d1.r).rank = d1.r ∧
      HomologySpecG (C09.fpOps p) (fun a : Nat => (a : ZMod p)) d1 d2 d1.r d1.c d2.r rank [] P Q :=
  calculate_end_to_end_field (C09.fp_lawfulEuc p) (fun x hx => IsUnit.mk0 x hx) d1 d2 hsh hdd

/-- **ℤ[i]** (`gaussOps` on pairs, `φ = gφ : ℤ × ℤ → GaussianInt`): rank, torsion (normalised to the quadrant
`re > 0, im ≥ 0` by `normalizing_unit`), and all generator clauses -/
theorem calculate_end_to_end_gauss (d1 d2 : GMat (Int × Int)) (hsh : d2.c = d1.r)
    (hdd : d2.toM C09.gφ C09.gaussOps.toROps d2.r d1.r * d1.toM C09.gφ C09.gaussOps.toROps d1.r d1.c = 0) :
    ∃ (N : Nat) (st1 : C09.St (Int × Int) d1.r d1.c) (st2 : C09.St (Int × Int) d2.r d2.c)
      (rank : Nat) (tors : List (Int × Int)) (T : GTrans (Int × Int)) (P Q : GMat (Int × Int)),
      (∀ fuel, N ≤ fuel →
        C09.snfCalc C09.gaussOps true (fun s => .ok s) fuel (toC09G C09.gaussOps.toROps d1) = .ok st1) ∧
      (∀ fuel, N ≤ fuel →
        C09.snfCalc C09.gaussOps true (fun s => .ok s) fuel (toC09G C09.gaussOps.toROps d2) = .ok st2) ∧
      (∀ fuel, N ≤ fuel →
        calculateG C09.gaussOps (snfC09G C09.gaussOps fuel) d1 d2 true = .ok (rank, tors, some T)) ∧
      T.forwardMat C09.gaussOps.toROps = .ok P ∧ T.backwardMat C09.gaussOps.toROps = .ok Q ∧
      C09.isSnfShape C09.gaussOps st1.t = true ∧ C09.isSnfShape C09.gaussOps st2.t = true ∧
      rank + nzCountG C09.gaussOps st1 + nzCountG C09.gaussOps st2 = d1.r ∧
      nzCountG C09.gaussOps st1 = (d1.toM C09.gφ C09.gaussOps.toROps d1.r d1.c).rank ∧
      nzCountG C09.gaussOps st2 = (d2.toM C09.gφ C09.gaussOps.toROps d2.r d1.r).rank ∧
      tors = nonUnitFactorsG C09.gaussOps st1 ∧
      HomologySpecG C09.gaussOps C09.gφ d1 d2 d1.r d1.c d2.r rank tors P Q :=
  calculate_end_to_end_euc C09.gauss_lawfulEuc d1 d2 hsh hdd

/-- **ℤ[ω]** (Eisenstein integers, `eisOps`, `Proofs/C09EucEis.lean`) -/
theorem calculate_end_to_end_eis (d1 d2 : GMat (Int × Int)) (hsh : d2.c = d1.r)
    (hdd : d2.toM C09.eφ C09.eisOps.toROps d2.r d1.r * d1.toM C09.eφ C09.eisOps.toROps d1.r d1.c = 0) :
    ∃ (N : Nat) (st1 : C09.St (Int × Int) d1.r d1.c) (st2 : C09.St (Int × Int) d2.r d2.c)
      (rank : Nat) (tors : List (Int × Int)) (T : GTrans (Int × Int)) (P Q : GMat (Int × Int)),
      (∀ fuel, N ≤ fuel →
        C09.snfCalc C09.eisOps true (fun s => .ok s) fuel (toC09G C09.eisOps.toROps d1) = .ok st1) ∧
      (∀ fuel, N ≤ fuel →
        C09.snfCalc C09.eisOps true (fun s => .ok s) fuel (toC09G C09.eisOps.toROps d2) = .ok st2) ∧
      (∀ fuel, N ≤ fuel →
        calculateG C09.eisOps (snfC09G C09.eisOps fuel) d1 d2 true = .ok (rank, tors, some T)) ∧
      T.forwardMat C09.eisOps.toROps = .ok P ∧ T.backwardMat C09.eisOps.toROps = .ok Q ∧
      C09.isSnfShape C09.eisOps st1.t = true ∧ C09.isSnfShape C09.eisOps st2.t = true ∧
      rank + nzCountG C09.eisOps st1 + nzCountG C09.eisOps st2 = d1.r ∧
      nzCountG C09.eisOps st1 = (d1.toM C09.eφ C09.eisOps.toROps d1.r d1.c).rank ∧
      nzCountG C09.eisOps st2 = (d2.toM C09.eφ C09.eisOps.toROps d2.r d1.r).rank ∧
      tors = nonUnitFactorsG C09.eisOps st1 ∧
      HomologySpecG C09.eisOps C09.eφ d1 d2 d1.r d1.c d2.r rank tors P Q :=
  calculate_end_to_end_euc C09.lawfulEuc_eis d1 d2 hsh hdd

/-- **`F[x]`** for every field `F` with decidable equality (coefficient lists, `polyOps F`,
`Proofs/C09EucPoly.lean`) — the ring of the Khovanov-homology computations over `𝔽_2[H]`, `ℚ[H]` -/
theorem calculate_end_to_end_poly (F : Type) [Field F] [DecidableEq F] (d1 d2 : GMat (List F)) (hsh : d2.c = d1.r)
    (hdd : d2.toM (C09.pφ (F := F)) (C09.polyOps F).toROps d2.r d1.r *
      d1.toM (C09.pφ (F := F)) (C09.polyOps F).toROps d1.r d1.c = 0) :
    ∃ (N : Nat) (st1 : C09.St (List F) d1.r d1.c) (st2 : C09.St (List F) d2.r d2.c)
      (rank : Nat) (tors : List (List F)) (T : GTrans (List F)) (P Q : GMat (List F)),
      (∀ fuel, N ≤ fuel →
        C09.snfCalc (C09.polyOps F) true (fun s => .ok s) fuel (toC09G (C09.polyOps F).toROps d1) = .ok st1) ∧
      (∀ fuel, N ≤ fuel →
        C09.snfCalc (C09.polyOps F) true (fun s => .ok s) fuel (toC09G (C09.polyOps F).toROps d2) = .ok st2) ∧
      (∀ fuel, N ≤ fuel →
        calculateG (C09.polyOps F) (snfC09G (C09.polyOps F) fuel) d1 d2 true = .ok (rank, tors, some T)) ∧
      T.forwardMat (C09.polyOps F).toROps = .ok P ∧ T.backwardMat (C09.polyOps F).toROps = .ok Q ∧
      C09.isSnfShape (C09.polyOps F) st1.t = true ∧ C09.isSnfShape (C09.polyOps F) st2.t = true ∧
      rank + nzCountG (C09.polyOps F) st1 + nzCountG (C09.polyOps F) st2 = d1.r ∧
      nzCountG (C09.polyOps F) st1 = (d1.toM (C09.pφ (F := F)) (C09.polyOps F).toROps d1.r d1.c).rank ∧
      nzCountG (C09.polyOps F) st2 = (d2.toM (C09.pφ (F := F)) (C09.polyOps F).toROps d2.r d1.r).rank ∧
      tors = nonUnitFactorsG (C09.polyOps F) st1 ∧
      HomologySpecG (C09.polyOps F) (C09.pφ (F := F)) d1 d2 d1.r d1.c d2.r rank tors P Q :=
  calculate_end_to_end_euc C09.lawfulEuc_poly d1 d2 hsh hdd

/-! ### the generic composite runs (non-vacuity) -/

/- `runsToG e d1 d2 rank tors` (Proofs/C07Euc.lean): run `calculateG e (snfC09G e 50) d1 d2 true`, compare `(rank, tors)`
and test `P·Q = I`, `d2·Q = 0` and the boundary clause on the returned maps with the operations of `e` -/

/-- over 𝔽_5: `d1 = [[1,2],[2,4],[0,0]] : 𝔽_5² → 𝔽_5³` (rank 1), `d2 = (3,1,2) : 𝔽_5³ → 𝔽_5` (rank 1),
`d2·d1 = (5, 10) = 0`;  `H = 𝔽_5^(3-1-1) = 𝔽_5` -/
example : runsToG (C09.fpOps 5) ⟨3, 2, #[1, 2, 2, 4, 0, 0]⟩ ⟨1, 3, #[3, 1, 2]⟩ 1 [] = true := by decide +kernel

/-- … and the hypotheses of `calculate_end_to_end_fp` hold for it (`d2·d1 = 0` with the operations of `fpOps 5`) -/
example : (GMat.mul (C09.fpOps 5).toROps ⟨1, 3, #[3, 1, 2]⟩ ⟨3, 2, #[1, 2, 2, 4, 0, 0]⟩).isZero (C09.fpOps 5).toROps
    = true := by decide +kernel

/-- over ℤ[i]: `d1 = [[1+i, 2],[0, 3+i]]`, `d2 = (0, 0)`;  `H = ℤ[i]/(1+i) ⊕ ℤ[i]/(3+i)` (`(1+i) ∣ (3+i)`) -/
example : runsToG C09.gaussOps ⟨2, 2, #[(1, 1), (2, 0), (0, 0), (3, 1)]⟩ ⟨1, 2, #[(0, 0), (0, 0)]⟩ 0
    [(1, 1), (3, 1)] = true := by decide +kernel

/-- over ℤ[i] with a free part: `d1 = (2, 0)ᵀ : ℤ[i] → ℤ[i]²`, `d2 = 0 : ℤ[i]² → ℤ[i]`;  `H = ℤ[i] ⊕ ℤ[i]/(2)` -/
example : runsToG C09.gaussOps ⟨2, 1, #[(2, 0), (0, 0)]⟩ ⟨1, 2, #[(0, 0), (0, 0)]⟩ 1 [(2, 0)] = true := by
  decide +kernel

/-- over ℚ: `d1 = (1, 2)ᵀ`, `d2 = (2, -1)`; exact: `H = 0` -/
example : runsToG C09.ratOps ⟨2, 1, #[1, 2]⟩ ⟨1, 2, #[2, -1]⟩ 0 [] = true := by decide +kernel

/-- over 𝔽_2[x]: `d1 = (x, 0)ᵀ`, `d2 = 0`;  `H = 𝔽_2[x] ⊕ 𝔽_2[x]/(x)` -/
example : runsToG (C09.polyOps (ZMod 2)) ⟨2, 1, #[[0, 1], []]⟩ ⟨1, 2, #[[], []]⟩ 1 [[0, 1]] = true := by
  decide +kernel

/-- over 𝔽_3[x]: `d1 = [[x, 1],[0, x²]]` (Smith form `diag(1, x³)`), `d2 = 0`;  `H = 𝔽_3[x]/(x³)` -/
example : runsToG (C09.polyOps (ZMod 3)) ⟨2, 2, #[[0, 1], [1], [], [0, 0, 1]]⟩ ⟨1, 2, #[[], []]⟩ 0 [[0, 0, 0, 1]]
    = true := by decide +kernel

/-- the generic code at `intOps` on the complex of `Props/C07Full.lean`: `H = ℤ ⊕ ℤ/2 ⊕ ℤ/6` -/
example : runsToG C09.intOps ⟨4, 3, #[2, 0, 0, 2, 6, 0, 0, 0, 0, 0, 0, 0]⟩ ⟨1, 4, #[0, 0, 0, 1]⟩ 1 [2, 6] = true := by
  decide +kernel

end Yuiv.C07
