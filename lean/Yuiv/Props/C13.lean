import Yuiv.Proofs.C13
import Yuiv.Proofs.C13Trans
import Yuiv.Proofs.C13Dense
import Yuiv.Proofs.C13Block
import Yuiv.Proofs.C13Raw
import Yuiv.Proofs.C13Perm
import Yuiv.Proofs.C13Vec
/-
C13 — sparse and dense matrix containers implement ordinary matrix algebra.

Property theorems only (spec definitions and helper lemmas live in `Yuiv/Proofs/C13*.lean`).  They are
statements about the code model `Yuiv/Model/C13.lean`, for an arbitrary commutative ring `R` with decidable
equality (`Int` is one; the driver also runs the model over models of `Ratio<i64>` and `FF<3>`):

* `A.entry i j` is what `into_dense` reads (sum of the stored values at `(i, j)`; stored zeros allowed);
  `A.WF` says the CSC data is well formed (every `SpMat` value is; each constructor theorem re-establishes it).
* yui's own index-remapping code is proved entry by entry; nalgebra's kernels (`COO→CSC`, `+ − · neg transpose`,
  dense↔sparse) are *defined* by their mathematical meaning in the model and only compared with the real
  code in the differential run — the `*_kernel` theorems just record that the definitions mean what they should
  (they are needed for the `Trans` laws).
* `A.apply x` is the linear map `x ↦ A·x` on coordinate functions; `fwdSem [f₀,…,fₙ] = fₙ ∘ ⋯ ∘ f₀`,
  `bwdSem [b₀,…,bₙ] = b₀ ∘ ⋯ ∘ bₙ`.
-/
namespace Yuiv.C13
open Yuiv Res

variable {R : Type} [CommRing R] [DecidableEq R]

/-! ### construction from entries -/

/-- `from_entries`: shape, well-formed data, entry = sum of the given triplets at that position
(zero values skipped, duplicates summed — possibly to a stored zero) -/
theorem from_entries_entries (m n : Nat) (es : List (Trip R)) (A : SpMat R) (h : fromEntries m n es = ok A) :
    A.nrows = m ∧ A.ncols = n ∧ A.WF ∧ ∀ i j, A.entry i j = if i < m ∧ j < n then entryT es i j else 0 :=
  fromEntries_spec m n es A h

/-- `from_entries` succeeds iff every non-zero entry is inside the shape -/
theorem from_entries_defined (m n : Nat) (es : List (Trip R)) :
    (∃ A, fromEntries m n es = ok A) ↔ ∀ t ∈ es, t.2.2 ≠ 0 → t.1 < m ∧ t.2.1 < n := by
  constructor
  · rintro ⟨A, hA⟩
    by_contra hc
    rw [fromEntries_panic m n es hc] at hA; cases hA
  · intro h; exact ⟨_, fromEntries_ok m n es h⟩

theorem from_entries_reject (m n : Nat) (es : List (Trip R))
    (h : ∃ t ∈ es, t.2.2 ≠ 0 ∧ ¬ (t.1 < m ∧ t.2.1 < n)) : fromEntries m n es = panic := by
  apply fromEntries_panic
  intro hs
  obtain ⟨t, ht, hnz, hb⟩ := h
  exact hb (hs t ht hnz)

/-- the stored triplets of a matrix sum up to its entries (what `iter()` hands to every `extract` client) -/
theorem triplets_entries (A : SpMat R) (i j : Nat) : entryT A.triplets i j = A.entry i j := entryT_triplets A i j

/-! ### `extract`, `permute`, `submat` -/

/-- `extract(shape, f)` for a total relocation `g`: the new entry at `(i', j')` is the sum of the stored values
that `g` sends there -/
theorem extract_entries (A : SpMat R) (m n : Nat) (f : Nat → Nat → Res (Option (Nat × Nat)))
    (g : Nat → Nat → Option (Nat × Nat))
    (hf : ∀ t ∈ A.triplets, f t.1 t.2.1 = ok (g t.1 t.2.1))
    (hg : ∀ t ∈ A.triplets, ∀ x, g t.1 t.2.1 = some x → x.1 < m ∧ x.2 < n) :
    ∃ B, A.extract m n f = ok B ∧ B.nrows = m ∧ B.ncols = n ∧ B.WF ∧
      ∀ i' j', i' < m → j' < n →
        B.entry i' j' = ((A.triplets.filter (fun t => g t.1 t.2.1 = some (i', j'))).map (·.2.2)).sum :=
  extract_spec A m n f g hf hg

/-- `permute(p, q)`: `entry (permute p q A) (p i) (q j) = entry A i j` -/
theorem permute_entries (A : SpMat R) (hA : A.WF) (p q : Perm) (hp : p.Valid) (hq : q.Valid)
    (hpd : p.dim = A.nrows) (hqd : q.dim = A.ncols) :
    ∃ B, A.permute p q = ok B ∧ B.nrows = A.nrows ∧ B.ncols = A.ncols ∧ B.WF ∧
      ∀ i j, i < A.nrows → j < A.ncols → B.entry (p.fn i) (q.fn j) = A.entry i j :=
  permute_spec A hA p q hp hq hpd hqd

theorem permute_rows_entries (A : SpMat R) (hA : A.WF) (p : Perm) (hp : p.Valid) (hpd : p.dim = A.nrows) :
    ∃ B, A.permuteRows p = ok B ∧ B.nrows = A.nrows ∧ B.ncols = A.ncols ∧ B.WF ∧
      ∀ i j, i < A.nrows → j < A.ncols → B.entry (p.fn i) j = A.entry i j :=
  permute_spec A hA p (Perm.identity A.ncols) hp (Perm.identity_valid _) hpd rfl

theorem permute_cols_entries (A : SpMat R) (hA : A.WF) (q : Perm) (hq : q.Valid) (hqd : q.dim = A.ncols) :
    ∃ B, A.permuteCols q = ok B ∧ B.nrows = A.nrows ∧ B.ncols = A.ncols ∧ B.WF ∧
      ∀ i j, i < A.nrows → j < A.ncols → B.entry i (q.fn j) = A.entry i j :=
  permute_spec A hA (Perm.identity A.nrows) q (Perm.identity_valid _) hq rfl hqd

/-- the values accepted by `PermOwned::new` are exactly the permutations of `0..n`; they act injectively -/
theorem perm_new_defined (l : List Nat) :
    (∃ p, Perm.new l = ok p) ↔ (∀ x ∈ l, x < l.length) ∧ l.Nodup := by
  constructor
  · rintro ⟨p, hp⟩
    by_contra hc
    rw [Perm.new_panic l hc] at hp; cases hp
  · rintro ⟨h1, h2⟩; exact ⟨_, (Perm.new_ok l h1 h2).1⟩

theorem perm_injective (p : Perm) (hv : p.Valid) (i j : Nat) (hi : i < p.dim) (hj : j < p.dim)
    (h : p.fn i = p.fn j) : i = j := p.fn_inj hv i j hi hj h

/-- `submat(i0..i1, j0..j1)` -/
theorem submat_entries (A : SpMat R) (hA : A.WF) (i0 i1 j0 j1 : Nat)
    (hi : i0 ≤ i1 ∧ i1 ≤ A.nrows) (hj : j0 ≤ j1 ∧ j1 ≤ A.ncols) :
    ∃ B, A.submat i0 i1 j0 j1 = ok B ∧ B.nrows = i1 - i0 ∧ B.ncols = j1 - j0 ∧ B.WF ∧
      ∀ i j, i < i1 - i0 → j < j1 - j0 → B.entry i j = A.entry (i0 + i) (j0 + j) :=
  submat_spec A hA i0 i1 j0 j1 hi hj

theorem submat_rejects (A : SpMat R) (i0 i1 j0 j1 : Nat)
    (h : ¬ ((i0 ≤ i1 ∧ i1 ≤ A.nrows) ∧ (j0 ≤ j1 ∧ j1 ≤ A.ncols))) : A.submat i0 i1 j0 j1 = panic :=
  submat_reject A i0 i1 j0 j1 h

theorem submat_rows_entries (A : SpMat R) (hA : A.WF) (i0 i1 : Nat) (hi : i0 ≤ i1 ∧ i1 ≤ A.nrows) :
    ∃ B, A.submatRows i0 i1 = ok B ∧ B.nrows = i1 - i0 ∧ B.ncols = A.ncols ∧ B.WF ∧
      ∀ i j, i < i1 - i0 → j < A.ncols → B.entry i j = A.entry (i0 + i) j := by
  obtain ⟨B, h1, h2, h3, h4, h5⟩ := submat_spec A hA i0 i1 0 A.ncols hi ⟨Nat.zero_le _, Nat.le_refl _⟩
  exact ⟨B, h1, h2, h3, h4, fun i j hi' hj' => by rw [h5 i j hi' hj', Nat.zero_add]⟩

theorem submat_cols_entries (A : SpMat R) (hA : A.WF) (j0 j1 : Nat) (hj : j0 ≤ j1 ∧ j1 ≤ A.ncols) :
    ∃ B, A.submatCols j0 j1 = ok B ∧ B.nrows = A.nrows ∧ B.ncols = j1 - j0 ∧ B.WF ∧
      ∀ i j, i < A.nrows → j < j1 - j0 → B.entry i j = A.entry i (j0 + j) := by
  obtain ⟨B, h1, h2, h3, h4, h5⟩ := submat_spec A hA 0 A.nrows j0 j1 ⟨Nat.zero_le _, Nat.le_refl _⟩ hj
  exact ⟨B, h1, h2, h3, h4, fun i j hi' hj' => by rw [h5 i j hi' hj', Nat.zero_add]⟩

/-! ### four-way split and recombination, concatenation, stacking -/

theorem divide4_entries (A : SpMat R) (hA : A.WF) (k l : Nat) (hk : k ≤ A.nrows) (hl : l ≤ A.ncols) :
    ∃ a b c d, A.divide4 k l = ok (a, b, c, d) ∧
      (a.nrows = k ∧ a.ncols = l ∧ a.WF) ∧ (b.nrows = k ∧ b.ncols = A.ncols - l ∧ b.WF) ∧
      (c.nrows = A.nrows - k ∧ c.ncols = l ∧ c.WF) ∧ (d.nrows = A.nrows - k ∧ d.ncols = A.ncols - l ∧ d.WF) ∧
      (∀ i j, i < k → j < l → a.entry i j = A.entry i j) ∧
      (∀ i j, i < k → j < A.ncols - l → b.entry i j = A.entry i (l + j)) ∧
      (∀ i j, i < A.nrows - k → j < l → c.entry i j = A.entry (k + i) j) ∧
      (∀ i j, i < A.nrows - k → j < A.ncols - l → d.entry i j = A.entry (k + i) (l + j)) :=
  divide4_spec A hA k l hk hl

theorem divide4_rejects (A : SpMat R) (k l : Nat) (h : ¬ (k ≤ A.nrows ∧ l ≤ A.ncols)) : A.divide4 k l = panic :=
  divide4_reject A k l h

theorem combine_blocks_entries (a b c d : SpMat R) (ha : a.WF) (hb : b.WF) (hc : c.WF) (hd : d.WF)
    (h1 : a.nrows = b.nrows) (h2 : c.nrows = d.nrows) (h3 : a.ncols = c.ncols) (h4 : b.ncols = d.ncols) :
    ∃ C, combineBlocks a b c d = ok C ∧ C.nrows = a.nrows + c.nrows ∧ C.ncols = a.ncols + b.ncols ∧ C.WF ∧
      ∀ i j, i < a.nrows + c.nrows → j < a.ncols + b.ncols →
        C.entry i j = if i < a.nrows then (if j < a.ncols then a.entry i j else b.entry i (j - a.ncols))
                      else (if j < a.ncols then c.entry (i - a.nrows) j else d.entry (i - a.nrows) (j - a.ncols)) :=
  combineBlocks_spec a b c d ha hb hc hd h1 h2 h3 h4

theorem combine_blocks_rejects (a b c d : SpMat R)
    (h : ¬ (a.nrows = b.nrows ∧ c.nrows = d.nrows ∧ a.ncols = c.ncols ∧ b.ncols = d.ncols)) :
    combineBlocks a b c d = panic := combineBlocks_reject a b c d h

/-- recombining the four parts gives back every entry of `A` -/
theorem combine_after_divide4 (A : SpMat R) (hA : A.WF) (k l : Nat) (hk : k ≤ A.nrows) (hl : l ≤ A.ncols) :
    ∃ a b c d C, A.divide4 k l = ok (a, b, c, d) ∧ combineBlocks a b c d = ok C ∧
      C.nrows = A.nrows ∧ C.ncols = A.ncols ∧ ∀ i j, C.entry i j = A.entry i j :=
  combine_divide4 A hA k l hk hl

/-- splitting a block matrix at the block boundary gives back every entry of the four blocks -/
theorem divide4_after_combine (a b c d : SpMat R) (ha : a.WF) (hb : b.WF) (hc : c.WF) (hd : d.WF)
    (h1 : a.nrows = b.nrows) (h2 : c.nrows = d.nrows) (h3 : a.ncols = c.ncols) (h4 : b.ncols = d.ncols) :
    ∃ C a' b' c' d', combineBlocks a b c d = ok C ∧ C.divide4 a.nrows a.ncols = ok (a', b', c', d') ∧
      (∀ i j, a'.entry i j = a.entry i j) ∧ (∀ i j, b'.entry i j = b.entry i j) ∧
      (∀ i j, c'.entry i j = c.entry i j) ∧ (∀ i j, d'.entry i j = d.entry i j) :=
  divide4_combine a b c d ha hb hc hd h1 h2 h3 h4

theorem concat_entries (A B : SpMat R) (hA : A.WF) (hB : B.WF) (h : A.nrows = B.nrows) :
    ∃ C, A.concat B = ok C ∧ C.nrows = A.nrows ∧ C.ncols = A.ncols + B.ncols ∧ C.WF ∧
      ∀ i j, i < A.nrows → j < A.ncols + B.ncols →
        C.entry i j = if j < A.ncols then A.entry i j else B.entry i (j - A.ncols) :=
  concat_spec A B hA hB h

theorem concat_rejects (A B : SpMat R) (h : A.nrows ≠ B.nrows) : A.concat B = panic := concat_reject A B h

theorem stack_entries (A B : SpMat R) (hA : A.WF) (hB : B.WF) (h : A.ncols = B.ncols) :
    ∃ C, A.stack B = ok C ∧ C.nrows = A.nrows + B.nrows ∧ C.ncols = A.ncols ∧ C.WF ∧
      ∀ i j, i < A.nrows + B.nrows → j < A.ncols →
        C.entry i j = if i < A.nrows then A.entry i j else B.entry (i - A.nrows) j :=
  stack_spec A B hA hB h

theorem stack_rejects (A B : SpMat R) (h : A.ncols ≠ B.ncols) : A.stack B = panic := stack_reject A B h

/-! ### raw CSC arrays: `extend_cols`, `from_col_vecs`, `from_sorted_entries` -/

/-- `disassemble` followed by `try_from_csc_data` is the identity on well-formed data -/
theorem csc_roundtrip (A : SpMat R) (hA : A.WF) :
    tryFromCsc A.nrows A.ncols A.disassemble.1 A.disassemble.2.1 A.disassemble.2.2 = ok A := by
  have := tryFromCsc_cols A.nrows A.cols hA.bound hA.sorted
  rw [hA.len] at this
  exact this

/-- `extend_cols` offset arithmetic: popping the last offset of `self` and appending `offset + c_k` yields the
offsets of the concatenated columns; result = columns of `self` followed by the columns of `b` -/
theorem extend_cols_columns (A B : SpMat R) (hA : A.WF) (hB : B.WF) (h : A.nrows = B.nrows) :
    A.extendCols B = ok ⟨A.nrows, A.ncols + B.ncols, A.cols ++ B.cols⟩ ∧
    (⟨A.nrows, A.ncols + B.ncols, A.cols ++ B.cols⟩ : SpMat R).WF ∧
    ∀ i j, (⟨A.nrows, A.ncols + B.ncols, A.cols ++ B.cols⟩ : SpMat R).entry i j
      = if j < A.ncols then A.entry i j else B.entry i (j - A.ncols) :=
  ⟨extendCols_spec A B hA hB h, extendCols_wf A B hA hB h, extendCols_entry A B hA hB⟩

theorem extend_cols_rejects (A B : SpMat R) (h : A.nrows ≠ B.nrows) : A.extendCols B = panic :=
  extendCols_reject A B h

theorem from_col_vecs_columns (m : Nat) (vs : List (SpVec R)) (hv : ∀ v ∈ vs, v.WF ∧ v.dim = m) :
    fromColVecs m vs = ok ⟨m, vs.length, vs.map (·.ents)⟩ ∧
    ∀ i j (hj : j < vs.length), (⟨m, vs.length, vs.map (·.ents)⟩ : SpMat R).entry i j = (vs[j]).entry i :=
  ⟨fromColVecs_spec m vs hv, fun i j hj => fromColVecs_entry m vs i j hj⟩

theorem from_col_vecs_rejects (m : Nat) (vs : List (SpVec R)) (h : ∃ v ∈ vs, v.dim ≠ m) : fromColVecs m vs = panic :=
  fromColVecs_reject m vs h

theorem from_sorted_entries_ok (d : Nat) (es : List (Nat × R))
    (hb : ∀ p ∈ es, p.1 < d) (hs : (es.map (·.1)).Pairwise (· < ·)) :
    SpVec.fromSortedEntries d es = ok ⟨d, es⟩ ∧ (⟨d, es⟩ : SpVec R).WF := fromSortedEntries_spec d es hb hs

theorem from_sorted_entries_rejects (d : Nat) (es : List (Nat × R))
    (h : ¬ ((∀ p ∈ es, p.1 < d) ∧ strictInc (es.map (·.1)) = true)) : SpVec.fromSortedEntries d es = panic :=
  fromSortedEntries_reject d es h

/-! ### nalgebra kernels: the definitions used by the model mean `+ − · neg transpose` -/

theorem add_kernel (A B : SpMat R) (hA : A.WF) (hB : B.WF) (h1 : A.nrows = B.nrows) (h2 : A.ncols = B.ncols) :
    ∃ C, A.add B = ok C ∧ C.nrows = A.nrows ∧ C.ncols = A.ncols ∧ C.WF ∧
      ∀ i j, C.entry i j = A.entry i j + B.entry i j := add_spec A B hA hB h1 h2

theorem sub_kernel (A B : SpMat R) (hA : A.WF) (hB : B.WF) (h1 : A.nrows = B.nrows) (h2 : A.ncols = B.ncols) :
    ∃ C, A.sub B = ok C ∧ C.nrows = A.nrows ∧ C.ncols = A.ncols ∧ C.WF ∧
      ∀ i j, C.entry i j = A.entry i j - B.entry i j := sub_spec A B hA hB h1 h2

theorem neg_kernel (A : SpMat R) (hA : A.WF) : A.neg.WF ∧ ∀ i j, A.neg.entry i j = - A.entry i j :=
  ⟨neg_wf A hA, neg_entry A⟩

theorem transpose_kernel (A : SpMat R) (hA : A.WF) :
    A.transpose.nrows = A.ncols ∧ A.transpose.ncols = A.nrows ∧ A.transpose.WF ∧
      ∀ i j, A.transpose.entry i j = A.entry j i := transpose_spec A hA

theorem mul_kernel (A B : SpMat R) (hA : A.WF) (hB : B.WF) (h : A.ncols = B.nrows) :
    ∃ C, A.mul B = ok C ∧ C.nrows = A.nrows ∧ C.ncols = B.ncols ∧ C.WF ∧
      ∀ i j, C.entry i j = ∑ k ∈ Finset.range A.ncols, A.entry i k * B.entry k j := mul_spec A B hA hB h

/-- the product's linear map is the composition (associativity comes for free from here on) -/
theorem mul_is_composition (A B C : SpMat R) (hA : A.WF) (hB : B.WF) (h : A.mul B = ok C) (x : Nat → R) :
    C.apply x = A.apply (B.apply x) := mul_apply A B C hA hB h x

/-- `&SpMat * &SpVec` -/
theorem mul_vec_entries (A : SpMat R) (v : SpVec R) (hA : A.WF) (hv : v.WF) (h : A.ncols = v.dim) :
    ∃ w, A.mulVec v = ok w ∧ w.dim = A.nrows ∧ w.WF ∧ w.entry = A.apply v.entry := mulVec_spec A v hA hv h

/-! ### permutation / selection matrices -/

theorem from_row_perm_entries (p : Perm) (hp : p.Valid) :
    ∃ F : SpMat R, fromRowPerm p = ok F ∧ F.WF ∧ F.nrows = p.dim ∧ F.ncols = p.dim ∧
      ∀ i j, F.entry i j = if j < p.dim ∧ p.fn j = i then 1 else 0 := fromRowPerm_spec p hp

theorem from_col_perm_entries (p : Perm) (hp : p.Valid) :
    ∃ F : SpMat R, fromColPerm p = ok F ∧ F.WF ∧ F.nrows = p.dim ∧ F.ncols = p.dim ∧
      ∀ i j, F.entry i j = if i < p.dim ∧ p.fn i = j then 1 else 0 := fromColPerm_spec p hp

/-! ### `Trans` -/

/-- `forward v = forward_mat * v`, both equal `fₙ ∘ ⋯ ∘ f₀` on the coordinates of `v`, for every transform
satisfying the invariant (which every history establishes, see `trans_history_laws`) -/
theorem trans_forward_eq_forward_mat (t : Trans R) (ht : t.Inv) (v : SpVec R) (hv : v.WF) (hd : v.dim = t.srcDim) :
    ∃ w M w', t.forward v = ok w ∧ t.forwardMat = ok M ∧ M.mulVec v = ok w' ∧
      w.dim = t.tgtDim ∧ M.nrows = t.tgtDim ∧ M.ncols = t.srcDim ∧
      (∀ i, w.entry i = fwdSem t.fMats v.entry i) ∧ (∀ i, w'.entry i = w.entry i) := by
  obtain ⟨w, h1, h2, h3, h4⟩ := forward_spec t ht v hv hd
  obtain ⟨M, g1, g2, g3, g4, g5⟩ := forwardMat_spec t ht
  obtain ⟨w', k1, k2, k3, k4⟩ := mulVec_spec M v g2 hv (by rw [g4, hd])
  refine ⟨w, M, w', h1, g1, k1, h3, g3, g4, fun i => by rw [h4], ?_⟩
  intro i
  rw [k4, h4]
  by_cases hi : i < t.tgtDim
  · exact g5 v.entry i hi
  · rw [apply_oob M g2 _ i (by omega)]
    have : w.entry i = 0 := by
      have hw : w.toMat.WF := h2
      have := hw.entry_oob i 0 (by simp [SpVec.toMat]; omega)
      exact this
    rw [← h4, this]

theorem trans_backward_eq_backward_mat (t : Trans R) (ht : t.Inv) (v : SpVec R) (hv : v.WF) (hd : v.dim = t.tgtDim) :
    ∃ w M w', t.backward v = ok w ∧ t.backwardMat = ok M ∧ M.mulVec v = ok w' ∧
      w.dim = t.srcDim ∧ M.nrows = t.srcDim ∧ M.ncols = t.tgtDim ∧
      (∀ i, w.entry i = bwdSem t.bMats v.entry i) ∧ (∀ i, w'.entry i = w.entry i) := by
  obtain ⟨w, h1, h2, h3, h4⟩ := backward_spec t ht v hv hd
  obtain ⟨M, g1, g2, g3, g4, g5⟩ := backwardMat_spec t ht
  obtain ⟨w', k1, k2, k3, k4⟩ := mulVec_spec M v g2 hv (by rw [g4, hd])
  refine ⟨w, M, w', h1, g1, k1, h3, g3, g4, fun i => by rw [h4], ?_⟩
  intro i
  rw [k4, h4]
  by_cases hi : i < t.srcDim
  · exact g5 v.entry i hi
  · rw [apply_oob M g2 _ i (by omega)]
    have : w.entry i = 0 := by
      have hw : w.toMat.WF := h2
      have := hw.entry_oob i 0 (by simp [SpVec.toMat]; omega)
      exact this
    rw [← h4, this]

/-- `forward_mat = fₙ ⋯ f₀` as a linear map (`tgt × src`, well formed) -/
theorem trans_forward_mat_is_product (t : Trans R) (ht : t.Inv) :
    ∃ M, t.forwardMat = ok M ∧ M.WF ∧ M.nrows = t.tgtDim ∧ M.ncols = t.srcDim ∧
      ∀ x i, i < t.tgtDim → M.apply x i = fwdSem t.fMats x i := forwardMat_spec t ht

/-- `backward_mat = b₀ ⋯ bₙ` as a linear map (`src × tgt`, well formed) -/
theorem trans_backward_mat_is_product (t : Trans R) (ht : t.Inv) :
    ∃ M, t.backwardMat = ok M ∧ M.WF ∧ M.nrows = t.srcDim ∧ M.ncols = t.tgtDim ∧
      ∀ y i, i < t.srcDim → M.apply y i = bwdSem t.bMats y i := backwardMat_spec t ht

/-- `reduce` changes neither map, nor the dimensions, nor `is_id` -/
theorem trans_reduce_preserves (t : Trans R) (ht : t.Inv) :
    ∃ t', t.reduce = ok t' ∧ t'.Inv ∧ t'.srcDim = t.srcDim ∧ t'.tgtDim = t.tgtDim ∧
      (∀ x, fwdSem t'.fMats x = fwdSem t.fMats x) ∧ (∀ y, bwdSem t'.bMats y = bwdSem t.bMats y) ∧
      t'.fMats.length ≤ 1 ∧ t'.bMats.length ≤ 1 ∧ (t'.fMats = [] ↔ t.fMats = []) := reduce_spec t ht

/-- dimension bookkeeping of `append` / `merge` / `append_perm` / `sub`, and what they reject -/
theorem trans_append_dims (t : Trans R) (ht : t.Inv) (f b : SpMat R) (hf : f.WF) (hb : b.WF)
    (h1 : f.ncols = b.nrows) (h2 : f.nrows = b.ncols) (h3 : f.ncols = t.tgtDim) :
    t.append f b = ok { t with tgtDim := f.nrows, fMats := t.fMats ++ [f], bMats := t.bMats ++ [b] } ∧
    ({ t with tgtDim := f.nrows, fMats := t.fMats ++ [f], bMats := t.bMats ++ [b] } : Trans R).Inv :=
  append_spec t ht f b hf hb h1 h2 h3

theorem trans_append_rejects (t : Trans R) (f b : SpMat R)
    (h : ¬ (f.ncols = b.nrows ∧ f.nrows = b.ncols ∧ f.ncols = t.tgtDim)) : t.append f b = panic :=
  append_reject t f b h

theorem trans_merge_dims (t o : Trans R) (ht : t.Inv) (ho : o.Inv) (h : t.tgtDim = o.srcDim) :
    t.merge o = ok { t with tgtDim := o.tgtDim, fMats := t.fMats ++ o.fMats, bMats := t.bMats ++ o.bMats } ∧
    ({ t with tgtDim := o.tgtDim, fMats := t.fMats ++ o.fMats, bMats := t.bMats ++ o.bMats } : Trans R).Inv :=
  merge_spec t o ht ho h

theorem trans_merge_rejects (t o : Trans R) (h : t.tgtDim ≠ o.srcDim) : t.merge o = panic := merge_reject t o h

theorem trans_forward_rejects (t : Trans R) (v : SpVec R) (hd : v.dim ≠ t.srcDim) : t.forward v = panic :=
  forward_reject t v hd
theorem trans_backward_rejects (t : Trans R) (v : SpVec R) (hd : v.dim ≠ t.tgtDim) : t.backward v = panic :=
  backward_reject t v hd

/-- `sub(indices)` appends the selection of the listed coordinates (and the inclusion back) -/
theorem trans_sub_factors (t : Trans R) (ht : t.Inv) (indices : List Nat) (h : ∀ j ∈ indices, j < t.tgtDim) :
    ∃ F B : SpMat R,
      t.sub indices = ok { t with tgtDim := F.nrows, fMats := t.fMats ++ [F], bMats := t.bMats ++ [B] } ∧
      F.nrows = indices.length ∧
      (∀ i j, F.entry i j = if indices[i]? = some j then 1 else 0) ∧
      (∀ i j, B.entry i j = if indices[j]? = some i then 1 else 0) ∧
      ({ t with tgtDim := F.nrows, fMats := t.fMats ++ [F], bMats := t.bMats ++ [B] } : Trans R).Inv :=
  sub_spec' t ht indices h

theorem trans_append_perm_factors (t : Trans R) (ht : t.Inv) (p : Perm) (hp : p.Valid) (hd : p.dim = t.tgtDim) :
    ∃ F B : SpMat R, fromRowPerm p = ok F ∧ fromColPerm p = ok B ∧
      t.appendPerm p = ok { t with tgtDim := F.nrows, fMats := t.fMats ++ [F], bMats := t.bMats ++ [B] } ∧
      F.nrows = t.tgtDim ∧
      ({ t with tgtDim := F.nrows, fMats := t.fMats ++ [F], bMats := t.bMats ++ [B] } : Trans R).Inv :=
  appendPerm_spec t ht p hp hd

/-- **the `Trans` laws for ANY history** of `id / new / append / append_perm / merge / sub / reduce` that runs
without panic: the invariant holds and the maps behind `forward`/`forward_mat` and `backward`/`backward_mat`
are the compositions `fₙ ∘ ⋯ ∘ f₀` / `b₀ ∘ ⋯ ∘ bₙ` of ALL factors the history appended, no matter where
`reduce` was called in between. -/
theorem trans_history_laws (h : Hist R) (hg : h.Good) (t : Trans R) (hr : h.run = ok t) :
    t.Inv ∧ (∀ x, fwdSem t.fMats x = fwdSem h.fFactors x) ∧ (∀ y, bwdSem t.bMats y = bwdSem h.bFactors y) :=
  history_laws h hg t hr

/-! ### dense `Mat` primitives -/

theorem dense_swap_rows (A : DMat R) (i j : Nat) (hi : i < A.nrows) (hj : j < A.nrows) :
    ∃ B, A.swapRows i j = ok B ∧ B.nrows = A.nrows ∧ B.ncols = A.ncols ∧
      ∀ r c, r < A.nrows → c < A.ncols →
        B.get r c = if r = i then A.get j c else if r = j then A.get i c else A.get r c := swapRows_spec A i j hi hj
theorem dense_swap_rows_rejects (A : DMat R) (i j : Nat) (h : ¬ (i < A.nrows ∧ j < A.nrows)) :
    A.swapRows i j = panic := swapRows_reject A i j h

theorem dense_swap_cols (A : DMat R) (i j : Nat) (hi : i < A.ncols) (hj : j < A.ncols) :
    ∃ B, A.swapCols i j = ok B ∧ B.nrows = A.nrows ∧ B.ncols = A.ncols ∧
      ∀ r c, r < A.nrows → c < A.ncols →
        B.get r c = if c = i then A.get r j else if c = j then A.get r i else A.get r c := swapCols_spec A i j hi hj
theorem dense_swap_cols_rejects (A : DMat R) (i j : Nat) (h : ¬ (i < A.ncols ∧ j < A.ncols)) :
    A.swapCols i j = panic := swapCols_reject A i j h

theorem dense_mul_row (A : DMat R) (i : Nat) (a : R) (hi : i < A.nrows) :
    ∃ B, A.mulRow i a = ok B ∧ B.nrows = A.nrows ∧ B.ncols = A.ncols ∧
      ∀ r c, r < A.nrows → c < A.ncols → B.get r c = if r = i then A.get i c * a else A.get r c := mulRow_spec A i a hi
theorem dense_mul_row_rejects (A : DMat R) (i : Nat) (a : R) (hi : ¬ i < A.nrows) : A.mulRow i a = panic :=
  mulRow_reject A i a hi

theorem dense_mul_col (A : DMat R) (j : Nat) (a : R) (hj : j < A.ncols) :
    ∃ B, A.mulCol j a = ok B ∧ B.nrows = A.nrows ∧ B.ncols = A.ncols ∧
      ∀ r c, r < A.nrows → c < A.ncols → B.get r c = if c = j then A.get r j * a else A.get r c := mulCol_spec A j a hj
theorem dense_mul_col_rejects (A : DMat R) (j : Nat) (a : R) (hj : ¬ j < A.ncols) : A.mulCol j a = panic :=
  mulCol_reject A j a hj

theorem dense_add_row_to (A : DMat R) (i j : Nat) (a : R) (hi : i < A.nrows) (hj : j < A.nrows) :
    ∃ B, A.addRowTo i j a = ok B ∧ B.nrows = A.nrows ∧ B.ncols = A.ncols ∧
      ∀ r c, r < A.nrows → c < A.ncols → B.get r c = if r = j then A.get j c + A.get i c * a else A.get r c :=
  addRowTo_spec A i j a hi hj
theorem dense_add_row_to_rejects (A : DMat R) (i j : Nat) (a : R) (h : ¬ (i < A.nrows ∧ j < A.nrows)) :
    A.addRowTo i j a = panic := addRowTo_reject A i j a h

theorem dense_add_col_to (A : DMat R) (i j : Nat) (a : R) (hi : i < A.ncols) (hj : j < A.ncols) :
    ∃ B, A.addColTo i j a = ok B ∧ B.nrows = A.nrows ∧ B.ncols = A.ncols ∧
      ∀ r c, r < A.nrows → c < A.ncols → B.get r c = if c = j then A.get r j + A.get r i * a else A.get r c :=
  addColTo_spec A i j a hi hj
theorem dense_add_col_to_rejects (A : DMat R) (i j : Nat) (a : R) (h : ¬ (i < A.ncols ∧ j < A.ncols)) :
    A.addColTo i j a = panic := addColTo_reject A i j a h

/-- `left_elementary([a,b,c,d], i, j)`, `i ≠ j`: rows `(i, j)` are multiplied by `[a b; c d]` from the left -/
theorem dense_left_elementary (A : DMat R) (a b c d : R) (i j : Nat) (hi : i < A.nrows) (hj : j < A.nrows) (hij : i ≠ j) :
    ∃ B, A.leftElementary a b c d i j = ok B ∧ B.nrows = A.nrows ∧ B.ncols = A.ncols ∧
      ∀ r k, r < A.nrows → k < A.ncols →
        B.get r k = if r = i then A.get i k * a + A.get j k * b
                    else if r = j then A.get i k * c + A.get j k * d else A.get r k :=
  leftElementary_spec A a b c d i j hi hj hij
theorem dense_left_elementary_rejects (A : DMat R) (a b c d : R) (i j : Nat) (h : ¬ (i < A.nrows ∧ j < A.nrows)) :
    A.leftElementary a b c d i j = panic := leftElementary_reject A a b c d i j h

/-- `right_elementary([a,b,c,d], i, j)`, `i ≠ j`: columns `(i, j)` are multiplied by `[a c; b d]` from the right -/
theorem dense_right_elementary (A : DMat R) (a b c d : R) (i j : Nat) (hi : i < A.ncols) (hj : j < A.ncols) (hij : i ≠ j) :
    ∃ B, A.rightElementary a b c d i j = ok B ∧ B.nrows = A.nrows ∧ B.ncols = A.ncols ∧
      ∀ r k, r < A.nrows → k < A.ncols →
        B.get r k = if k = i then A.get r i * a + A.get r j * b
                    else if k = j then A.get r i * c + A.get r j * d else A.get r k :=
  rightElementary_spec A a b c d i j hi hj hij
theorem dense_right_elementary_rejects (A : DMat R) (a b c d : R) (i j : Nat) (h : ¬ (i < A.ncols ∧ j < A.ncols)) :
    A.rightElementary a b c d i j = panic := rightElementary_reject A a b c d i j h

theorem dense_submat (A : DMat R) (i0 i1 j0 j1 : Nat) (hi : i0 ≤ i1 ∧ i1 ≤ A.nrows) (hj : j0 ≤ j1 ∧ j1 ≤ A.ncols) :
    ∃ B, A.submat i0 i1 j0 j1 = ok B ∧ B.nrows = i1 - i0 ∧ B.ncols = j1 - j0 ∧
      ∀ i j, i < i1 - i0 → j < j1 - j0 → B.get i j = A.get (i0 + i) (j0 + j) := dsubmat_spec A i0 i1 j0 j1 hi hj
theorem dense_submat_rejects (A : DMat R) (i0 i1 j0 j1 : Nat)
    (h : ¬ ((i0 ≤ i1 ∧ i1 ≤ A.nrows) ∧ (j0 ≤ j1 ∧ j1 ≤ A.ncols))) : A.submat i0 i1 j0 j1 = panic :=
  dsubmat_reject A i0 i1 j0 j1 h

theorem dense_mul_kernel (A B : DMat R) (h : A.ncols = B.nrows) :
    ∃ C, A.mul B = ok C ∧ C.nrows = A.nrows ∧ C.ncols = B.ncols ∧
      ∀ i j, i < A.nrows → j < B.ncols → C.get i j = ∑ k ∈ Finset.range A.ncols, A.get i k * B.get k j :=
  dmul_spec A B h

/-! ### sparse ↔ dense -/

theorem to_dense_entries (A : SpMat R) (i j : Nat) (hi : i < A.nrows) (hj : j < A.ncols) :
    A.toDense.get i j = A.entry i j := toDense_get A i j hi hj

theorem to_sparse_entries (A : DMat R) :
    A.toSparse.nrows = A.nrows ∧ A.toSparse.ncols = A.ncols ∧ A.toSparse.WF ∧
      ∀ i j, i < A.nrows → j < A.ncols → A.toSparse.entry i j = A.get i j := toSparse_spec A

/-! ### `util::perm_for_indices` -/

/-- for distinct indices below `n`: a valid permutation of `0..n`; with `vec = indices ++ (the other indices,
ascending)` it sends `vec[pos]` to `pos` — the listed indices first, in order, then the rest in order -/
theorem perm_for_indices_places (n : Nat) (indices : List Nat) (hnd : indices.Nodup) (hb : ∀ i ∈ indices, i < n) :
    ∃ p, permForIndices n indices = ok p ∧ p.Valid ∧ p.dim = n ∧
      ∀ pos (h : pos < (indices ++ (List.range n).filter (fun i => !indices.contains i)).length),
        p.fn ((indices ++ (List.range n).filter (fun i => !indices.contains i))[pos]) = pos :=
  permForIndices_spec n indices hnd hb

theorem perm_for_indices_listed_first (n : Nat) (indices : List Nat) (hnd : indices.Nodup) (hb : ∀ i ∈ indices, i < n) :
    ∃ p, permForIndices n indices = ok p ∧ p.Valid ∧ p.dim = n ∧
      ∀ k (h : k < indices.length), p.fn indices[k] = k := permForIndices_listed n indices hnd hb

theorem perm_for_indices_rejects (n : Nat) (indices : List Nat) (h : ∃ i ∈ indices, ¬ i < n) :
    permForIndices n indices = panic := permForIndices_reject n indices h

/-! ### sparse vectors -/

theorem spvec_from_entries (d : Nat) (es : List (Nat × R)) (h : ∀ p ∈ es, p.2 ≠ 0 → p.1 < d) :
    ∃ v, SpVec.fromEntries d es = ok v ∧ v.dim = d ∧ v.WF ∧ ∀ i, v.entry i = if i < d then sumAt es i else 0 :=
  vfromEntries_ok d es h

theorem spvec_from_entries_rejects (d : Nat) (es : List (Nat × R)) (h : ∃ p ∈ es, p.2 ≠ 0 ∧ ¬ p.1 < d) :
    SpVec.fromEntries d es = panic := vfromEntries_panic d es h

theorem spvec_permute_entries (v : SpVec R) (hv : v.WF) (p : Perm) (hp : p.Valid) (hd : p.dim = v.dim) :
    ∃ w, v.permute p = ok w ∧ w.dim = v.dim ∧ w.WF ∧ ∀ i, i < v.dim → w.entry (p.fn i) = v.entry i :=
  vpermute_spec v hv p hp hd

theorem spvec_subvec_entries (v : SpVec R) (hv : v.WF) (a b : Nat) (hab : a ≤ b) :
    ∃ w, v.subvec a b = ok w ∧ w.dim = b - a ∧ w.WF ∧ ∀ i, i < b - a → w.entry i = v.entry (a + i) :=
  subvec_spec v hv a b hab

theorem spvec_subvec_rejects (v : SpVec R) (a b : Nat) (hab : ¬ a ≤ b) : v.subvec a b = panic := subvec_reject v a b hab

theorem spvec_split_entries (v : SpVec R) (hv : v.WF) (k : Nat) (hk : k ≤ v.dim) :
    ∃ x y, v.split k = ok (x, y) ∧ x.dim = k ∧ y.dim = v.dim - k ∧ x.WF ∧ y.WF ∧
      (∀ i, i < k → x.entry i = v.entry i) ∧ (∀ i, i < v.dim - k → y.entry i = v.entry (k + i)) :=
  split_spec v hv k hk

theorem spvec_split_rejects (v : SpVec R) (k : Nat) (hk : ¬ k ≤ v.dim) : v.split k = panic := split_reject v k hk

theorem spvec_stack_entries (v w : SpVec R) (hv : v.WF) (hw : w.WF) :
    ∃ u, v.stack w = ok u ∧ u.dim = v.dim + w.dim ∧ u.WF ∧
      ∀ i, i < v.dim + w.dim → u.entry i = if i < v.dim then v.entry i else w.entry (i - v.dim) :=
  vstack_spec v w hv hw

theorem spvec_from_dense (l : List R) :
    ∃ v, SpVec.ofDense l = ok v ∧ v.dim = l.length ∧ v.WF ∧ ∀ i, v.entry i = l.getD i 0 := ofDense_spec l

/-- `to_dense` / `into_vec` -/
theorem spvec_to_dense (v : SpVec R) (hv : v.WF) :
    ∃ l, v.toDense = ok l ∧ l.length = v.dim ∧ ∀ i, i < v.dim → l.getD i 0 = v.entry i := toDense_spec v hv

/-- `stack_vecs`: the raw data stays valid after shifting the row indices by the running dimension -/
theorem spvec_stack_vecs (vs : List (SpVec R)) (hv : ∀ v ∈ vs, v.WF) :
    SpVec.stackVecs vs = ok ⟨totalDim vs, shiftedEnts 0 vs⟩ ∧ (⟨totalDim vs, shiftedEnts 0 vs⟩ : SpVec R).WF :=
  stackVecs_spec vs hv

/-- entries of the stacked vector, vector by vector -/
theorem spvec_stack_vecs_entries (v : SpVec R) (vs : List (SpVec R)) (hv : v.WF) (hvs : ∀ w ∈ vs, w.WF) (n0 i : Nat) :
    sumAt (shiftedEnts n0 (v :: vs)) i
      = if i < n0 + v.dim then (if n0 ≤ i then v.entry (i - n0) else 0) else sumAt (shiftedEnts (n0 + v.dim) vs) i :=
  shiftedEnts_entry v vs hv hvs n0 i

/-- `from_dense_data` (row-major) -/
theorem from_dense_data_entries (m n : Nat) (data : List R) (hl : data.length = m * n) :
    ∃ A, fromDenseData m n data = ok A ∧ A.nrows = m ∧ A.ncols = n ∧ A.WF ∧
      ∀ i j, i < m → j < n → A.entry i j = data.getD (i * n + j) 0 := fromDenseData_spec m n data hl

theorem col_vec_entries (A : SpMat R) (hA : A.WF) (j : Nat) (hj : j < A.ncols) :
    ∃ v, A.colVec j = ok v ∧ v.dim = A.nrows ∧ v.WF ∧ ∀ i, v.entry i = A.entry i j := colVec_spec A hA j hj

theorem col_vec_rejects (A : SpMat R) (j : Nat) (hj : ¬ j < A.ncols) : A.colVec j = panic := colVec_reject A j hj

/-! ### the hypotheses are satisfiable: a matrix with a stored zero, permutations, a history with `reduce` -/

/-- `[[1, 0*, 0], [0, 0, -1]]` with an explicitly stored zero at `(0, 1)` -/
def exA : SpMat Int := ⟨2, 3, [[(0, 1)], [(0, 0)], [(1, -1)]]⟩
def exP : Perm := ⟨2, some [1, 0]⟩
def exQ : Perm := ⟨3, some [2, 0, 1]⟩

example : exA.WF := ⟨rfl, by decide, by decide⟩
example : exP.Valid ∧ exQ.Valid ∧ exP.dim = exA.nrows ∧ exQ.dim = exA.ncols := by
  refine ⟨?_, ?_, rfl, rfl⟩ <;> (intro l h; cases h; decide)
example : fromEntries 2 3 [(0, 0, (1 : Int)), (0, 1, 2), (0, 1, -2), (1, 2, -1), (1, 1, 0)] = ok exA := by rfl
example : ∃ B, exA.permute exP exQ = ok B ∧ B.entry 1 2 = 1 ∧ B.entry 0 1 = -1 := ⟨_, rfl, by decide, by decide⟩
example : (0 ≤ 1 ∧ 1 ≤ exA.nrows) ∧ (1 ≤ 3 ∧ 3 ≤ exA.ncols) := by decide
example : [2, 0].Nodup ∧ ∀ i ∈ [2, 0], i < 4 := by decide
example : permForIndices 4 [2, 0] = ok ⟨4, some [1, 2, 0, 3]⟩ := by decide

/-- `sub [2,0]` after a reduced two-factor transform, merged with a permutation -/
def exH : Hist Int :=
  .merge (.reduce (.sub (.append (.id 3) (SpMat.id 3) (SpMat.id 3)) [2, 0])) (.appendPerm (.id 2) exP)

example : exH.Good := ⟨⟨trivial, id_wf 3, id_wf 3⟩, trivial⟩
example : ∃ t, exH.run = ok t ∧ t.srcDim = 3 ∧ t.tgtDim = 2 ∧ t.fMats.length = 2 := ⟨_, rfl, rfl, rfl, rfl⟩

end Yuiv.C13
