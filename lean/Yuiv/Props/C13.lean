import Yuiv.Proofs.C13
/-
C13 — sparse and dense matrix containers implement ordinary matrix algebra (property theorems).
-/
namespace Yuiv.C13
open Yuiv Res

variable {R : Type} [CommRing R] [DecidableEq R]

/-- `from_entries`: shape, well-formed CSC data, entries = sums of the given triplets -/
theorem from_entries_entries (m n : Nat) (es : List (Trip R)) (A : SpMat R) (h : fromEntries m n es = ok A) :
    A.nrows = m ∧ A.ncols = n ∧ A.WF ∧ ∀ i j, A.entry i j = if i < m ∧ j < n then entryT es i j else 0 :=
  fromEntries_spec m n es A h

end Yuiv.C13
