import Yuiv.Proofs.C14Gen
/-
C14 — the hand-written code model `Yuiv.C14.Ratio.*` (`Yuiv/Model/C14.lean`) IS the source text of
`/repo/yui/src/types/ratio.rs`, read over the unbounded integers.

`Yuiv.GenRatio.*` (file `Yuiv/Gen/RatioFn.lean`) is regenerated from the Rust source by `tools/rs2lean_fn.py fn:ratio`
on every `./check` run (type parameter `T := Int`; operators and trait methods of `T`: `Yuiv/Model/RustRing.lean`).
Each theorem states, for ALL arguments and WITHOUT any invariant hypothesis, that a generated definition equals the
corresponding function of the hand model through `toR : RatioS → Ratio` (`mapR` lifts it to results), including
panics (`new(_, 0)`, division by the zero ratio, …) and — for the `loop` of `Ord::cmp` — for every amount of fuel.
With `ratio_history`, `ratio_cmp_spec`, … of `Yuiv/Props/C14.lean`:
  source text ⇒ generated definition = hand model ⇒ canonical form / field operations / order of ℚ.
A semantic edit of a translated function (a dropped `reduce()`, a wrong gcd pair, swapped remainders in `cmp`, …)
changes the generated file and the theorem about it stops checking.

Property theorems only; helpers are in `Yuiv/Proofs/C14Gen.lean`.
-/
namespace Yuiv.C14Gen
open Yuiv Res Yuiv.Rust Yuiv.GenRatio

local macro "rsimp" "[" ts:Lean.Parser.Tactic.simpLemma,* "]" : tactic =>
  `(tactic| simp [mapR_bind, mapR_ite, mapR_ok, mapR_panic, mapR_err, bind_assoc', ite_bind, assert_true, assert_false, toR,
      is_zero_eq, is_one_eq, is_unit_eq, nu_eq, gcd_eq, lcm_eq, div_eq, rem_eq, unwrap_some, unwrap_none,
      Ratio.new_raw, Ratio.is_int, Ratio.Zero.is_zero, Ratio.One.is_one, Ratio.Zero.zero, Ratio.One.one,
      Ratio.From_T.from_, C14.Ratio.isZero, C14.Ratio.isOne, C14.Ratio.isInt, C14.Ratio.zero, C14.Ratio.one,
      C14.Ratio.fromInt, C14.Ratio.isUnit, $ts,*])

theorem gen_new_raw_eq (n d : Int) : toR (Ratio.new_raw n d) = ⟨n, d⟩ := rfl
theorem gen_numer_eq (s : RatioS) : Ratio.numer s = (toR s).num := rfl
theorem gen_denom_eq (s : RatioS) : Ratio.denom s = (toR s).den := rfl

theorem gen_reduce_eq (s : RatioS) : mapR toR (Ratio.reduce s) = C14.Ratio.reduce (toR s) := by
  unfold Ratio.reduce C14.Ratio.reduce
  by_cases h0 : s.numer = 0
  · by_cases h1 : s.denom = 1 <;> rsimp [h0, h1]
  · by_cases hu : C14.intNormUnit s.denom = 1
    · by_cases h2 : s.denom = 1 ∨ C14.intIsUnit s.numer = true
      · rsimp [h0, hu, h2]
      · by_cases hg : C14.intGcd s.numer s.denom = 1 <;> rsimp [h0, hu, h2, hg]
    · by_cases h2 : s.denom * C14.intNormUnit s.denom = 1 ∨ C14.intIsUnit (s.numer * C14.intNormUnit s.denom) = true
      · rsimp [h0, hu, h2]
      · by_cases hg : C14.intGcd (s.numer * C14.intNormUnit s.denom) (s.denom * C14.intNormUnit s.denom) = 1 <;>
          rsimp [h0, hu, h2, hg]

theorem gen_new_eq (n d : Int) : mapR toR (Ratio.new n d) = C14.Ratio.new n d := by
  unfold Ratio.new C14.Ratio.new
  by_cases h : d = 0
  · rsimp [h]
  · have h' : (d == 0) = false := by simpa using h
    rsimp [h, h', bne, gen_reduce_eq]

theorem gen_is_int_eq (s : RatioS) : Ratio.is_int s = (toR s).isInt := rfl
theorem gen_is_zero_eq (s : RatioS) : Ratio.Zero.is_zero s = (toR s).isZero := rfl
theorem gen_is_one_eq (s : RatioS) : Ratio.One.is_one s = (toR s).isOne := rfl
theorem gen_zero_eq : toR Ratio.Zero.zero = C14.Ratio.zero := rfl
theorem gen_one_eq : toR Ratio.One.one = C14.Ratio.one := rfl
theorem gen_from_eq (a : Int) : toR (Ratio.From_T.from_ a) = C14.Ratio.fromInt a := rfl

theorem gen_add_assign_eq (s r : RatioS) :
    mapR toR (Ratio.AddAssign_Ratio_T.add_assign s r) = C14.Ratio.add (toR s) (toR r) := by
  unfold Ratio.AddAssign_Ratio_T.add_assign C14.Ratio.add C14.Ratio.addSub
  by_cases h1 : r.numer = 0
  · rsimp [h1]
  · by_cases h2 : s.numer = 0
    · rsimp [h1, h2, C14.Ratio.pm]
    · by_cases h3 : s.denom = r.denom
      · rsimp [h1, h2, h3, C14.Ratio.pm, gen_reduce_eq]
      · rsimp [h1, h2, h3, C14.Ratio.pm, gen_reduce_eq]


theorem gen_sub_assign_eq (s r : RatioS) :
    mapR toR (Ratio.SubAssign_Ratio_T.sub_assign s r) = C14.Ratio.sub (toR s) (toR r) := by
  unfold Ratio.SubAssign_Ratio_T.sub_assign C14.Ratio.sub C14.Ratio.addSub
  by_cases h1 : r.numer = 0
  · rsimp [h1]
  · by_cases h2 : s.numer = 0
    · rsimp [h1, h2, C14.Ratio.pm]
    · by_cases h3 : s.denom = r.denom <;> rsimp [h1, h2, h3, C14.Ratio.pm, gen_reduce_eq]

theorem gen_neg_eq (s : RatioS) : mapR toR (Ratio.Neg.neg s) = C14.Ratio.neg (toR s) := gen_new_eq _ _
theorem gen_neg_ref_eq (s : RatioS) : mapR toR (Ratio.Neg_ref.neg s) = C14.Ratio.neg (toR s) := gen_new_eq _ _

theorem gen_mul_assign_eq (s r : RatioS) :
    mapR toR (Ratio.MulAssign_Ratio_T.mul_assign s r) = C14.Ratio.mul (toR s) (toR r) := by
  unfold Ratio.MulAssign_Ratio_T.mul_assign C14.Ratio.mul
  by_cases h1 : s.numer = 0 ∨ r.numer = r.denom
  · rsimp [h1]
  · by_cases h2 : r.numer = 0
    · rsimp [h1, h2]
    · by_cases h3 : r.denom = 1
      · rsimp [h1, h2, h3]
      · by_cases h4 : s.denom = 1 <;> rsimp [h1, h2, h3, h4]

theorem gen_inv_eq (s : RatioS) :
    mapR (Option.map toR) (Ratio.Ring.inv s) = C14.Ratio.inv (toR s) := by
  unfold Ratio.Ring.inv C14.Ratio.inv
  by_cases h : s.numer = 0
  · rsimp [h]
  · cases hx : Ratio.new s.denom s.numer <;> rsimp [h, hx, ← gen_new_eq]

theorem gen_is_unit_eq (s : RatioS) : Ratio.Ring.is_unit s = (toR s).isUnit := rfl

theorem gen_div_assign_eq (s r : RatioS) :
    mapR toR (Ratio.DivAssign_Ratio_T.div_assign s r) = C14.Ratio.div (toR s) (toR r) := by
  unfold Ratio.DivAssign_Ratio_T.div_assign C14.Ratio.div
  by_cases h : r.numer = 0
  · rsimp [h]
  · rw [← gen_inv_eq r]
    have h' : (r.numer == 0) = false := by simpa using h
    cases hx : Ratio.Ring.inv r with
    | ok o => cases o <;> rsimp [h, h', gen_mul_assign_eq]
    | panic => rsimp [h, h']
    | err => rsimp [h, h']

/-- the hand model has no `normalizing_unit` for `Ratio`; it is `one` for zero and `inv().unwrap()` otherwise -/
theorem gen_normalizing_unit_eq (s : RatioS) :
    mapR toR (Ratio.Ring.normalizing_unit s) =
      if (toR s).isZero then ok C14.Ratio.one else (C14.Ratio.inv (toR s) >>= fun o => match o with
        | some i => ok i
        | none => .panic) := by
  unfold Ratio.Ring.normalizing_unit
  by_cases h : s.numer = 0
  · rsimp [h]
  · rw [← gen_inv_eq s]
    cases hx : Ratio.Ring.inv s with
    | ok o => cases o <;> rsimp [h]
    | panic => rsimp [h]
    | err => rsimp [h]

theorem gen_div_rem_floor_eq (a b : Int) : Ratio.Ord.cmp.div_rem_floor a b = C14.Ratio.divRemFloor a b := by
  unfold Ratio.Ord.cmp.div_rem_floor C14.Ratio.divRemFloor
  by_cases h : b = 0
  · rsimp [h, C14.tdivR, C14.tmodR]
  · rsimp [h, C14.tdivR, C14.tmodR, RInt.is_negative]
    split <;> rfl

/-- the generated `loop` is the model's `cmpLoop`, for EVERY amount of fuel (so also when it runs out) -/
theorem gen_cmp_loop_eq (fuel : Nat) (a b c d : Int) (rev : Bool) :
    Ratio.Ord.cmp_loop1 fuel a b c d rev = C14.Ratio.cmpLoop fuel a b c d rev := by
  induction fuel generalizing a b c d rev with
  | zero => rfl
  | succ n ih =>
    unfold Ratio.Ord.cmp_loop1 C14.Ratio.cmpLoop
    simp only [gen_div_rem_floor_eq]
    refine bind_congr' _ (fun p1 => ?_)
    obtain ⟨q1, r1⟩ := p1
    refine bind_congr' _ (fun p2 => ?_)
    obtain ⟨q2, r2⟩ := p2
    simp only [compare_eq_icmp, ih]
    have z1 : (r1 == 0) = decide (r1 = 0) := rfl
    have z2 : (r2 == 0) = decide (r2 = 0) := rfl
    rw [z1, z2]
    cases ho : C14.icmp q1 q2 <;> cases rev <;>
      by_cases h1 : r1 = 0 <;> by_cases h2 : r2 = 0 <;>
      simp [h1, h2, RInt.is_zero, C14.Ratio.fin]

theorem gen_cmp_fuel_eq (fuel : Nat) (x y : RatioS) :
    Ratio.Ord.cmp fuel x y = C14.Ratio.cmpLoop fuel x.numer x.denom y.numer y.denom false := by
  unfold Ratio.Ord.cmp
  exact gen_cmp_loop_eq _ _ _ _ _ _

/-- with the model's fuel the generated `cmp` is the model's `cmp` -/
theorem gen_cmp_eq (x y : RatioS) :
    Ratio.Ord.cmp ((toR x).den.natAbs + 1) x y = C14.Ratio.cmp (toR x) (toR y) := by
  rw [gen_cmp_fuel_eq]; rfl

theorem gen_partial_cmp_eq (fuel : Nat) (x y : RatioS) :
    Ratio.PartialOrd.partial_cmp fuel x y = mapR some (C14.Ratio.cmpLoop fuel x.numer x.denom y.numer y.denom false) := by
  unfold Ratio.PartialOrd.partial_cmp
  rw [gen_cmp_fuel_eq]
  cases C14.Ratio.cmpLoop fuel x.numer x.denom y.numer y.denom false <;> rfl

/-! ### functions without counterpart in the hand model -/

theorem gen_from_pair_eq (p : Int × Int) : mapR toR (Ratio.From_T_T.from_ p) = C14.Ratio.new p.1 p.2 := by
  unfold Ratio.From_T_T.from_
  exact gen_new_eq p.1 p.2
theorem gen_default_eq : toR Ratio.Default.default = C14.Ratio.fromInt 0 := rfl
theorem gen_abs_eq (s : RatioS) :
    mapR toR (Ratio.abs s) = if (toR s).num < 0 then C14.Ratio.neg (toR s) else ok (toR s) := by
  unfold Ratio.abs
  by_cases h : s.numer < 0 <;> rsimp [h, RInt.is_negative, gen_neg_ref_eq]
theorem gen_rem_eq (s r : RatioS) :
    mapR toR (Ratio.Rem_Ratio_T_ref.rem s r) = if (toR r).isZero then .panic else ok C14.Ratio.zero := by
  unfold Ratio.Rem_Ratio_T_ref.rem
  by_cases h : r.numer = 0
  · rsimp [h]
  · have h' : (r.numer == 0) = false := by simpa using h
    rsimp [h, h']

/-! ### the statements are not vacuous -/

example : mapR toR (Ratio.new 6 (-8)) = ok ⟨-3, 4⟩ := by rw [gen_new_eq]; decide
example : mapR toR (Ratio.new 1 0) = .panic := by rw [gen_new_eq]; decide
example : mapR toR (Ratio.AddAssign_Ratio_T.add_assign ⟨1, 6⟩ ⟨1, 10⟩) = ok ⟨4, 15⟩ := by
  rw [gen_add_assign_eq]; decide
example : Ratio.Ord.cmp 4 ⟨1, 3⟩ ⟨2, 5⟩ = ok .lt := by rw [gen_cmp_fuel_eq]; decide

end Yuiv.C14Gen
