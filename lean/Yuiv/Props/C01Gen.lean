import Yuiv.Gen.Tables
/-
C01 (and C05): the Frobenius-algebra tables the reference cube uses (`KhRef.prod`, `KhRef.coprod`, the −2 of a label X in
`Cube.qDeg`) are THE tables of `yui-khovanov/src/kh/alg.rs` as they stand in /repo now: `Yuiv.Gen.*` is regenerated
from the Rust source by tools/rs2lean.py on every run, and these theorems are re-checked against it.
-/
namespace Yuiv.KhRef

theorem gen_prod_eq (h t : Int) (x y : Bool) : Yuiv.Gen.prod h t x y = prod h t x y := by
  cases x <;> cases y <;> rfl

theorem gen_coprod_eq (h t : Int) (x : Bool) : Yuiv.Gen.coprod h t x = coprod h t x := by
  cases x <;> rfl

/-- the quantum degree of the labels: deg 1 = 0, deg X = −2, as used by `Cube.qDeg` -/
theorem gen_algDeg_eq : Yuiv.Gen.algDeg false = 0 ∧ Yuiv.Gen.algDeg true = -2 := by
  constructor <;> rfl

end Yuiv.KhRef
