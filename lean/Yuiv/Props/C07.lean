import Yuiv.Proofs.C07
import Yuiv.Proofs.C07Alg
import Yuiv.Proofs.C07Bridge
/-
C07 — homology of a chain complex over a Euclidean domain is computed correctly.

Property theorems only.  Two groups:

(A) `homcalc_*`: the algebraic core of `HomologyCalc::{process_snf, trans}` over ANY commutative ring / domain and
    ALL sizes, from the specification of the two Smith normal forms as hypotheses
    (`S1 = P1·d1·Q1`, `S2 = P2·d2'·Q2`, the transformation matrices invertible, `S1`, `S2` diagonal):
    the coordinate maps `p` (chain → homology coordinates, `vectorize`) and `q` (coordinates → chain,
    `devectorize`/`gen`) which the code assembles satisfy  p·q = I,  d2·q = 0,  (p·d1) = [0 ; diag(a)·rows of Q1⁻¹].
    The block ranges of the code are arbitrary injective index maps here; `homcalc_fin` instantiates them with
    the literal ranges `r1..n`, `r1-t..r1`, `r2..n-r1`.

(A') `calcTrans_correct`: the executable code model of `HomologyCalc::trans` (Model/C07Calc.lean) returns, without
    panicking, exactly these matrices for the literal ranges, hence inherits the three statements.

(B) `check_*`: soundness of the executable checker `Yuiv.C07.check` (the SAME function the driver `yuivd_c07`
    runs on every answer of the real code): verdict `ok` ⇒ the answer `(rank, tors, P, Q)` of the implementation
    satisfies the generator clauses of the property for the input `(d1, d2)`, as matrix equations over `ZMod p`.

Trusted (not proved here): uniqueness of invariant factors, i.e. that "rank and torsion up to units" have one right
answer — the correspondence run compares them with planted values and with an independent Lean computation.
-/
namespace Yuiv.C07
open Matrix

section algebra
variable {R : Type*} [CommRing R]
variable {M N K B F T : Type*}
variable [Fintype M] [Fintype N] [Fintype K] [Fintype B] [Fintype F] [Fintype T]
variable [DecidableEq M] [DecidableEq N] [DecidableEq K] [DecidableEq B] [DecidableEq F] [DecidableEq T]

/-- **p·q = I**: the coordinates of the reported generators are the standard basis
(`vectorize ∘ devectorize = id`), for any invertible `P1`, `Q2`. -/
theorem homcalc_pq (P1 P1i : Matrix N N R) (Q2 Q2i : Matrix B B R) (iB : B → N) (iT : T → N) (iF : F → B)
    (h1 : P1 * P1i = 1) (h2 : Q2i * Q2 = 1)
    (hB : Function.Injective iB) (hT : Function.Injective iT) (hF : Function.Injective iF)
    (hBT : ∀ b t, iB b ≠ iT t) :
    pMat P1 Q2i iB iT iF * qMat P1i Q2 iB iT iF = 1 :=
  pq_eq_one P1 P1i Q2 Q2i iB iT iF h1 h2 hB hT hF hBT

/-- `vectorize(gen k) = e_k` -/
theorem vectorize_gen (P1 P1i : Matrix N N R) (Q2 Q2i : Matrix B B R) (iB : B → N) (iT : T → N) (iF : F → B)
    (h1 : P1 * P1i = 1) (h2 : Q2i * Q2 = 1)
    (hB : Function.Injective iB) (hT : Function.Injective iT) (hF : Function.Injective iF)
    (hBT : ∀ b t, iB b ≠ iT t) (k : F ⊕ T) :
    pMat P1 Q2i iB iT iF *ᵥ (qMat P1i Q2 iB iT iF *ᵥ Pi.single k 1) = Pi.single k 1 := by
  rw [Matrix.mulVec_mulVec, homcalc_pq P1 P1i Q2 Q2i iB iT iF h1 h2 hB hT hF hBT, Matrix.one_mulVec]

/-- **generators are cycles**: `d2·q = 0` given `d2·d1 = 0`, over a domain.
`S1` has, in column `cT t`, the non-zero entry `a t` at row `iT t` and zeros elsewhere;
`S2` has zero columns at the positions `iF f` (beyond its rank). -/
theorem homcalc_cycles [NoZeroDivisors R] (d1 : Matrix N M R) (d2 : Matrix K N R)
    (P1 P1i : Matrix N N R) (Q1 : Matrix M M R) (S1 : Matrix N M R)
    (P2 P2i : Matrix K K R) (Q2 : Matrix B B R) (S2 : Matrix K B R)
    (iB : B → N) (iT : T → N) (iF : F → B) (cT : T → M) (a : T → R)
    (hdd : d2 * d1 = 0)
    (hS1 : S1 = P1 * d1 * Q1) (h1 : P1i * P1 = 1)
    (hcol1 : ∀ t i, S1 i (cT t) = if i = iT t then a t else 0) (ha : ∀ t, a t ≠ 0)
    (hS2 : S2 = P2 * d2' d2 P1i iB * Q2) (h2 : P2i * P2 = 1) (hcol2 : ∀ i f, S2 i (iF f) = 0) :
    d2 * qMat P1i Q2 iB iT iF = 0 := by
  unfold qMat
  rw [Matrix.mul_fromCols, d2_mul_qFree d2 P1i Q2 P2 P2i S2 iB iF hS2 h2 hcol2,
    d2_mul_qTor d1 d2 P1 P1i Q1 S1 iT cT a hdd hS1 h1 hcol1 ha]
  ext i j; cases j <;> rfl

/-- **boundaries**: `p_free·d1 = 0` and row `t` of `p_tor·d1` is `a t` times row `cT t` of `Q1⁻¹`.
`S1` has zero rows at the positions `iB b` (beyond its rank) and row `iT t` is `a t` at column `cT t`. -/
theorem homcalc_boundaries (d1 : Matrix N M R) (P1 : Matrix N N R) (Q1 Q1i : Matrix M M R) (S1 : Matrix N M R)
    (Q2i : Matrix B B R) (iB : B → N) (iT : T → N) (iF : F → B) (cT : T → M) (a : T → R)
    (hS1 : S1 = P1 * d1 * Q1) (hq : Q1 * Q1i = 1)
    (hrowB : ∀ b j, S1 (iB b) j = 0)
    (hrowT : ∀ t j, S1 (iT t) j = if j = cT t then a t else 0) :
    pMat P1 Q2i iB iT iF * d1 = fromRows 0 (Matrix.of fun t j => a t * Q1i (cT t) j) := by
  unfold pMat
  rw [Matrix.fromRows_mul, pFree_mul_d1 d1 P1 Q1 Q1i S1 Q2i iB iF hS1 hq hrowB,
    pTor_mul_d1 d1 P1 Q1 Q1i S1 iT cT a hS1 hq hrowT]

/-- every boundary `d1·x` has zero free coordinates and torsion coordinates divisible by the orders -/
theorem homcalc_boundary_coords (d1 : Matrix N M R) (P1 : Matrix N N R) (Q1 Q1i : Matrix M M R)
    (S1 : Matrix N M R) (Q2i : Matrix B B R) (iB : B → N) (iT : T → N) (iF : F → B) (cT : T → M) (a : T → R)
    (hS1 : S1 = P1 * d1 * Q1) (hq : Q1 * Q1i = 1)
    (hrowB : ∀ b j, S1 (iB b) j = 0)
    (hrowT : ∀ t j, S1 (iT t) j = if j = cT t then a t else 0) (x : M → R) :
    (∀ f, (pMat P1 Q2i iB iT iF *ᵥ (d1 *ᵥ x)) (Sum.inl f) = 0) ∧
    (∀ t, a t ∣ (pMat P1 Q2i iB iT iF *ᵥ (d1 *ᵥ x)) (Sum.inr t)) := by
  rw [Matrix.mulVec_mulVec, homcalc_boundaries d1 P1 Q1 Q1i S1 Q2i iB iT iF cT a hS1 hq hrowB hrowT]
  constructor
  · intro f; simp [Matrix.mulVec, dotProduct]
  · intro t
    refine ⟨∑ j, Q1i (cT t) j * x j, ?_⟩
    simp [Matrix.mulVec, dotProduct, Finset.mul_sum, mul_assoc]

/-- **completeness**: a cycle whose free coordinates vanish and whose torsion coordinates are divisible by the orders
is a boundary — together with `homcalc_pq`, `homcalc_cycles`, `homcalc_boundary_coords` this says that `z ↦ p·z`
induces an isomorphism `ker d2 / im d1 ≅ R^F ⊕ ⊕_t R/(a_t)`.  Hypotheses: the full SNF specification
(`eN : A ⊕ B ≃ N`: non-zero / zero rows of `S1`; `eB : B2 ⊕ F ≃ B`: non-zero / zero columns of `S2`;
the diagonal entries of `S1` outside the torsion block `jT` are units). -/
theorem homcalc_complete [NoZeroDivisors R] {A B2 : Type*} [Fintype A] [Fintype B2] [DecidableEq A] [DecidableEq B2]
    (d1 : Matrix N M R) (d2 : Matrix K N R) (P1 P1i : Matrix N N R) (Q1 : Matrix M M R) (S1 : Matrix N M R)
    (P2 : Matrix K K R) (Q2 Q2i : Matrix B B R) (S2 : Matrix K B R)
    (eN : A ⊕ B ≃ N) (eB : B2 ⊕ F ≃ B) (jT : T → A) (cA : A → M) (rB : B2 → K) (α : A → R) (β : B2 → R)
    (hdd : d2 * d1 = 0)
    (hS1 : S1 = P1 * d1 * Q1) (hP1 : P1i * P1 = 1)
    (hrowA : ∀ a j, S1 (eN (Sum.inl a)) j = if j = cA a then α a else 0)
    (hcolA : ∀ a i, S1 i (cA a) = if i = eN (Sum.inl a) then α a else 0)
    (hrowB : ∀ b j, S1 (eN (Sum.inr b)) j = 0)
    (hα : ∀ a, α a ≠ 0) (hunit : ∀ a, (∃ t, a = jT t) ∨ IsUnit (α a))
    (hS2 : S2 = P2 * d2' d2 P1i (fun b => eN (Sum.inr b)) * Q2) (hQ2 : Q2 * Q2i = 1)
    (hrow2 : ∀ b j, S2 (rB b) j = if j = eB (Sum.inl b) then β b else 0) (hβ : ∀ b, β b ≠ 0)
    (z : N → R) (hz : d2 *ᵥ z = 0)
    (hfree : ∀ f, (pMat P1 Q2i (fun b => eN (Sum.inr b)) (fun t => eN (Sum.inl (jT t))) (fun f => eB (Sum.inr f)) *ᵥ z)
      (Sum.inl f) = 0)
    (htor : ∀ t, α (jT t) ∣ (pMat P1 Q2i (fun b => eN (Sum.inr b)) (fun t => eN (Sum.inl (jT t)))
      (fun f => eB (Sum.inr f)) *ᵥ z) (Sum.inr t)) :
    ∃ x : M → R, d1 *ᵥ x = z := by
  refine cycle_with_zero_coords_is_boundary d1 d2 P1 P1i Q1 S1 P2 Q2 Q2i S2 eN eB jT cA rB α β hdd hS1 hP1
    hrowA hcolA hrowB hα hunit hS2 hQ2 hrow2 hβ z hz ?_ ?_
  · ext f; exact hfree f
  · intro t; exact htor t

/-- the non-unit entries of a divisibility chain are a suffix, so the code's torsion list
(`factors().filter(!is_unit)`, length `t`) is `a[r1-t..r1]`, aligned with the rows `r1-t..r1` of `P1`. -/
theorem torsion_block_position (unit : R → Bool) (hunit : ∀ x y, x ∣ y → unit y = true → unit x = true)
    (l : List R) (hchain : l.Pairwise (· ∣ ·)) :
    l.filter (fun x => !unit x) = l.drop (l.length - (l.filter (fun x => !unit x)).length) := by
  induction l with
  | nil => simp
  | cons x xs ih =>
    rw [List.pairwise_cons] at hchain
    by_cases hx : unit x = true
    · have hle : (xs.filter (fun x => !unit x)).length ≤ xs.length := List.length_filter_le _ _
      simp only [List.filter_cons, hx, Bool.not_true, Bool.false_eq_true, if_false, List.length_cons]
      rw [show xs.length + 1 - (xs.filter (fun x => !unit x)).length
            = (xs.length - (xs.filter (fun x => !unit x)).length) + 1 by omega, List.drop_succ_cons]
      exact ih hchain.2
    · have hall : ∀ y ∈ x :: xs, (!unit y) = true := by
        intro y hy
        rcases List.mem_cons.mp hy with rfl | hy
        · simpa using hx
        · have := hchain.1 y hy
          cases h : unit y
          · rfl
          · exact absurd (hunit _ _ this h) hx
      rw [List.filter_eq_self.mpr hall]; simp

end algebra

/-! ### the literal ranges of the code -/

section fin
variable {R : Type*} [CommRing R] [NoZeroDivisors R]

/-- **`HomologyCalc::trans` with the literal ranges.**  `n, m, k` the dimensions, `r1, r2` the ranks of the two Smith
forms, `t ≤ r1` the number of torsion factors, `S1 = diag(a_0, …, a_{r1-1}, 0, …)` with `a_i ≠ 0`,
`S2` with zero columns from `r2` on. Then for
  `p = [Q2⁻¹[r2..n-r1] · P1[r1..n] ; P1[r1-t..r1]]`,  `q = [P1⁻¹[:, r1..n] · Q2[:, r2..n-r1] | P1⁻¹[:, r1-t..r1]]`:
  `p·q = I`,  `d2·q = 0`,  `p·d1 = [0 ; a_{r1-t+s} · (row r1-t+s of Q1⁻¹)]`. -/
theorem homcalc_fin (n m k r1 r2 t : Nat) (ht : t ≤ r1) (hr1n : r1 ≤ n) (hr1m : r1 ≤ m) (hr2 : r2 ≤ n - r1)
    (d1 : Matrix (Fin n) (Fin m) R) (d2 : Matrix (Fin k) (Fin n) R)
    (P1 P1i : Matrix (Fin n) (Fin n) R) (Q1 Q1i : Matrix (Fin m) (Fin m) R) (S1 : Matrix (Fin n) (Fin m) R)
    (P2 P2i : Matrix (Fin k) (Fin k) R) (Q2 Q2i : Matrix (Fin (n - r1)) (Fin (n - r1)) R)
    (S2 : Matrix (Fin k) (Fin (n - r1)) R) (a : Nat → R)
    (hdd : d2 * d1 = 0)
    (hP1 : P1 * P1i = 1) (hP1' : P1i * P1 = 1) (hQ1 : Q1 * Q1i = 1) (hP2 : P2i * P2 = 1) (hQ2 : Q2i * Q2 = 1)
    (hS1 : S1 = P1 * d1 * Q1)
    (hdiag1 : ∀ i j, S1 i j = if i.val = j.val ∧ i.val < r1 then a i.val else 0)
    (ha : ∀ i, i < r1 → a i ≠ 0) :
    let iB := rangeMap r1 (n - r1) n (by omega)
    let iT := rangeMap (r1 - t) t n (by omega)
    let iF := rangeMap r2 (n - r1 - r2) (n - r1) (by omega)
    ∀ (_hS2 : S2 = P2 * d2' d2 P1i iB * Q2) (_hcol2 : ∀ i (j : Fin (n - r1)), r2 ≤ j.val → S2 i j = 0),
      pMat P1 Q2i iB iT iF * qMat P1i Q2 iB iT iF = 1 ∧
      d2 * qMat P1i Q2 iB iT iF = 0 ∧
      pMat P1 Q2i iB iT iF * d1 =
        fromRows 0 (Matrix.of fun (s : Fin t) j => a (r1 - t + s.val) * Q1i ⟨r1 - t + s.val, by omega⟩ j) := by
  intro iB iT iF hS2 hcol2
  have hBT : ∀ b s, iB b ≠ iT s := by
    intro b s h
    simp only [iB, iT, rangeMap, Fin.mk.injEq] at h
    have := s.isLt
    omega
  let cT : Fin t → Fin m := rangeMap (r1 - t) t m (by omega)
  refine ⟨?_, ?_, ?_⟩
  · exact homcalc_pq P1 P1i Q2 Q2i iB iT iF hP1 hQ2 (rangeMap_injective _ _ _ _) (rangeMap_injective _ _ _ _)
      (rangeMap_injective _ _ _ _) hBT
  · refine homcalc_cycles d1 d2 P1 P1i Q1 S1 P2 P2i Q2 S2 iB iT iF cT (fun s => a (r1 - t + s.val))
      hdd hS1 hP1' ?_ ?_ hS2 hP2 ?_
    · intro s i
      rw [hdiag1]
      have hs := s.isLt
      by_cases h : i = iT s
      · subst h; simp [iT, cT, rangeMap]; omega
      · have : ¬ (i.val = (cT s).val ∧ i.val < r1) := by
          rintro ⟨h1, _⟩
          apply h; apply Fin.ext; simpa [iT, cT, rangeMap] using h1
        simp [this, h]
    · intro s; exact ha _ (by have := s.isLt; omega)
    · intro i f; exact hcol2 i _ (by simp [iF, rangeMap])
  · refine homcalc_boundaries d1 P1 Q1 Q1i S1 Q2i iB iT iF cT (fun s => a (r1 - t + s.val)) hS1 hQ1 ?_ ?_
    · intro b j; rw [hdiag1]
      have : ¬ ((iB b).val = j.val ∧ (iB b).val < r1) := by
        rintro ⟨_, h2⟩; simp [iB, rangeMap] at h2
      simp [this]
    · intro s j; rw [hdiag1]
      have hs := s.isLt
      by_cases h : j = cT s
      · subst h; simp [iT, cT, rangeMap]; omega
      · have : ¬ ((iT s).val = j.val ∧ (iT s).val < r1) := by
          rintro ⟨h1, _⟩
          apply h; apply Fin.ext; simpa [iT, cT, rangeMap] using h1.symm
        simp [this, h]

end fin

/-! ### the code model of `HomologyCalc::trans` -/

/-- **the code model is correct given the SNF specification.**  If the two SNF results carry transformation
matrices of the right shapes which satisfy the SNF specification for `d1` resp. `d2' = d2·P1⁻¹[:, r1..n]`
(over `ℤ`; `Q1`, `P2` are not computed by the code and only need to exist), then the model
`calcTrans` (Model/C07Calc.lean — `HomologyCalc::trans` branch by branch, with every `unwrap`, range assertion and
`usize` subtraction as a possible panic) does not panic and returns `Trans::new(p, q)` with
`p·q = I`, `d2·q = 0` and `p·d1 = [0 ; diag(a_{r1-t..r1}) · rows of Q1⁻¹]`. -/
theorem calcTrans_correct (d1 d2 : Mat) (s1 s2 : Snf) (P1 P1i Q2 Q2i : Mat) (n m k r1 r2 t : Nat)
    (hp : s1.p = some P1) (hpi : s1.pinv = some P1i) (hq : s2.q = some Q2) (hqi : s2.qinv = some Q2i)
    (hn : s1.result.r = n) (hr1 : s1.rank = r1) (hr2 : s2.rank = r2)
    (ht : (s1.factors.filter fun a => !isUnitZ a).length = t)
    (h12 : r1 + r2 ≤ n) (htr : t ≤ r1) (hr1m : r1 ≤ m)
    (sP1 : P1.r = n ∧ P1.c = n) (sP1i : P1i.r = n ∧ P1i.c = n)
    (sQ2 : Q2.r = n - r1 ∧ Q2.c = n - r1) (sQ2i : Q2i.r = n - r1 ∧ Q2i.c = n - r1)
    (Q1 Q1i : Matrix (Fin m) (Fin m) ℤ) (P2 P2i : Matrix (Fin k) (Fin k) ℤ) (a : Nat → ℤ)
    (hdd : d2.toM k n * d1.toM n m = 0)
    (hP1 : P1.toM n n * P1i.toM n n = 1) (hP1' : P1i.toM n n * P1.toM n n = 1) (hQ1 : Q1 * Q1i = 1)
    (hP2 : P2i * P2 = 1) (hQ2 : Q2i.toM (n - r1) (n - r1) * Q2.toM (n - r1) (n - r1) = 1)
    (hS1 : s1.result.toM n m = P1.toM n n * d1.toM n m * Q1)
    (hdiag1 : ∀ i j, s1.result.toM n m i j = if i.val = j.val ∧ i.val < r1 then a i.val else 0)
    (ha : ∀ i, i < r1 → a i ≠ 0)
    (hS2 : s2.result.toM k (n - r1) =
      P2 * d2' (d2.toM k n) (P1i.toM n n) (rangeMap r1 (n - r1) n (by omega)) * Q2.toM (n - r1) (n - r1))
    (hcol2 : ∀ i (j : Fin (n - r1)), r2 ≤ j.val → s2.result.toM k (n - r1) i j = 0) :
    ∃ p q : Mat, calcTrans s1 s2 = .ok ⟨n, n - r1 - r2 + t, [p], [q]⟩ ∧
      p.toM (n - r1 - r2 + t) n * q.toM n (n - r1 - r2 + t) = 1 ∧
      d2.toM k n * q.toM n (n - r1 - r2 + t) = 0 ∧
      p.toM (n - r1 - r2 + t) n * d1.toM n m =
        (fromRows (0 : Matrix (Fin (n - r1 - r2)) (Fin m) ℤ)
          (Matrix.of fun (u : Fin t) j => a (r1 - t + u.val) * Q1i ⟨r1 - t + u.val, by omega⟩ j)).submatrix
          finSumFinEquiv.symm id := by
  refine ⟨pModel P1 Q2i n r1 r2 t, qModel P1i Q2 n r1 r2 t,
    calcTrans_eq s1 s2 P1 P1i Q2 Q2i n r1 r2 t hp hpi hq hqi hn hr1 hr2 ht h12 htr sP1 sP1i sQ2 sQ2i, ?_⟩
  obtain ⟨h1, h2, h3⟩ := homcalc_fin n m k r1 r2 t htr (by omega) hr1m (by omega)
    (d1.toM n m) (d2.toM k n) (P1.toM n n) (P1i.toM n n) Q1 Q1i (s1.result.toM n m) P2 P2i
    (Q2.toM (n - r1) (n - r1)) (Q2i.toM (n - r1) (n - r1)) (s2.result.toM k (n - r1)) a
    hdd hP1 hP1' hQ1 hP2 hQ2 hS1 hdiag1 ha hS2 hcol2
  rw [pModel_toM P1 Q2i n r1 r2 t h12 htr sP1 sQ2i, qModel_toM P1i Q2 n r1 r2 t h12 htr sP1i sQ2]
  refine ⟨?_, ?_, ?_⟩
  · rw [sub_rows_mul_sub_cols', h1, Matrix.submatrix_one_equiv]
  · have : d2.toM k n * (qMat (P1i.toM n n) (Q2.toM (n - r1) (n - r1)) (rangeMap r1 (n - r1) n (by omega))
        (rangeMap (r1 - t) t n (by omega)) (rangeMap r2 (n - r1 - r2) (n - r1) (by omega))).submatrix id
          finSumFinEquiv.symm
        = (d2.toM k n * qMat (P1i.toM n n) (Q2.toM (n - r1) (n - r1)) (rangeMap r1 (n - r1) n (by omega))
        (rangeMap (r1 - t) t n (by omega)) (rangeMap r2 (n - r1 - r2) (n - r1) (by omega))).submatrix id
          finSumFinEquiv.symm := by
      ext i j; simp [Matrix.mul_apply]
    rw [this, h2]; rfl
  · rw [← h3]
    ext i j; simp [Matrix.mul_apply]

/-- the code model runs: `calculate` with the self-contained SNF on `d1 = [[2,4,4],[-6,6,12],[10,-4,-16]]`, `d2 = 0`
returns `Z/2 ⊕ Z/6 ⊕ Z/12` with coordinate maps which the checker accepts (so the hypotheses of
`calcTrans_correct` are satisfiable by a non-trivial value: this SNF result) -/
example :
    (match calculate snfOwn ⟨3, 3, #[2, 4, 4, -6, 6, 12, 10, -4, -16]⟩ ⟨1, 3, #[0, 0, 0]⟩ true with
     | .ok (rank, tors, some t) =>
        match t.forwardMat, t.backwardMat with
        | .ok P, .ok Q => rank == 0 && tors == [2, 6, 12] &&
            check ⟨0, ⟨3, 3, #[2, 4, 4, -6, 6, 12, 10, -4, -16]⟩, ⟨1, 3, #[0, 0, 0]⟩, rank, tors.toArray, P, Q⟩ == .ok
        | _, _ => false
     | _ => false) = true := by decide +kernel

/-! ### the checker applied to the answers of the real code -/

/-- **soundness of the checker**: verdict `ok` on `(p, d1, d2, rank, tors, P, Q)` means that over `ZMod p`
(`= ℤ` for `p = 0`): `d2·d1 = 0`, the torsion orders are non-zero non-units, `P·Q = I`, `d2·Q = 0`,
the free rows of `P·d1` vanish and torsion row `k` of `P·d1` is divisible by `tors[k]`. -/
theorem check_sound (a : Answer) (h : check a = .ok) : Certified a := by
  obtain ⟨hs, hdd, ht, hpq, hcyc, hb⟩ := (check_ok_iff_parts a).mp h
  obtain ⟨s1, s2, s3, s4⟩ := shapesOk_spec a hs
  refine ⟨s1, s2, s3, s4, (prodZero_iff _ _ _).mp hdd, torsOk_spec a ht, ?_, (prodZero_iff _ _ _).mp hcyc,
    (bdryOk_iff _ _ _ _ _).mp hb⟩
  exact (prodId_iff _ _ _ (by rw [s2.1, s3.2])).mp hpq

/-- over `ℤ` the certificate is literally `P·Q = I` and `d2·Q = 0` -/
theorem check_sound_int (a : Answer) (hp : a.p = 0) (h : check a = .ok) :
    a.P.toM a.P.r a.P.c * a.Q.toM a.P.c a.P.r = 1 ∧
    a.d2.toM a.d2.r a.d2.c * a.Q.toM a.d2.c a.Q.c = 0 ∧
    a.d2.toM a.d2.r a.d2.c * a.d1.toM a.d2.c a.d1.c = 0 := by
  have c := check_sound a h
  have key : ∀ {r c : Nat} (X Y : Matrix (Fin r) (Fin c) ℤ), modP 0 X = modP 0 Y → X = Y := by
    intro r c X Y hXY
    ext i j
    have := congrFun (congrFun hXY i) j
    simpa [modP] using this
  have one : ∀ r : Nat, modP 0 (1 : Matrix (Fin r) (Fin r) ℤ) = 1 := by
    intro r; ext i j; by_cases hij : i = j <;> simp [modP, Matrix.one_apply, hij]
  have zero : ∀ r c : Nat, modP 0 (0 : Matrix (Fin r) (Fin c) ℤ) = 0 := by
    intro r c; ext i j; simp [modP]
  refine ⟨key _ _ ?_, key _ _ ?_, key _ _ ?_⟩
  · rw [one]; have := c.pq; rwa [hp] at this
  · rw [zero]; have := c.cycles; rwa [hp] at this
  · rw [zero]; have := c.dd; rwa [hp] at this

/-- the hypotheses of `check_sound` are satisfiable by a non-trivial answer:
`d1 = (2)`, `d2 = 0 : Z¹ → Z⁰`, `H = Z/2` with `P = Q = (1)` -/
example : check ⟨0, ⟨1, 1, #[2]⟩, ⟨0, 1, #[]⟩, 0, #[2], ⟨1, 1, #[1]⟩, ⟨1, 1, #[1]⟩⟩ = .ok := by decide +kernel

/-- … and the checker rejects a wrong torsion order, a non-cycle and a wrong coordinate map -/
example : check ⟨0, ⟨1, 1, #[2]⟩, ⟨0, 1, #[]⟩, 0, #[3], ⟨1, 1, #[1]⟩, ⟨1, 1, #[1]⟩⟩ = .bdry := by decide +kernel
example : check ⟨0, ⟨2, 1, #[1, 1]⟩, ⟨1, 2, #[1, -1]⟩, 1, #[], ⟨1, 2, #[1, 0]⟩, ⟨2, 1, #[1, 0]⟩⟩ = .cycle := by
  decide +kernel
example : check ⟨0, ⟨1, 1, #[2]⟩, ⟨0, 1, #[]⟩, 0, #[2], ⟨1, 1, #[1]⟩, ⟨1, 1, #[2]⟩⟩ = .pq := by decide +kernel

/-- the hypotheses of `homcalc_fin` are satisfiable: `d1 = (2) : ℤ¹ → ℤ¹`, `d2 = 0 : ℤ¹ → ℤ⁰`, all
transformation matrices the identity, `r1 = t = 1`, `r2 = 0`, `S1 = (2)` -/
example :
    let d1 : Matrix (Fin 1) (Fin 1) ℤ := Matrix.of fun _ _ => 2
    let d2 : Matrix (Fin 0) (Fin 1) ℤ := 0
    d2 * d1 = 0 ∧ (1 : Matrix (Fin 1) (Fin 1) ℤ) * d1 * 1 = d1 ∧
      (∀ i j : Fin 1, d1 i j = if i.val = j.val ∧ i.val < 1 then (fun _ => (2 : ℤ)) i.val else 0) := by
  refine ⟨by ext i; exact i.elim0, by simp, ?_⟩
  intro i j; fin_cases i; fin_cases j; simp

end Yuiv.C07
