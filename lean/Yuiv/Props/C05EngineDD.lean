import Yuiv.Proofs.C05EngineDeloopDD
/-
C05 (engine) — (d): Gaussian elimination of the MODEL preserves `d ∘ d = 0`.

`E` is any (not necessarily commutative) ring of edge labels, `ops` any record of edge operations whose
`cab / sub / neg / isZero / inv` are the ring operations (`RingEdgeOps`).  `DD cx` says that for all keys `k, m` the
sum over ALL vertices `l` of `d(l → m) · d(k → l)` vanishes (`0` for missing edges).  Then one step
`TngComplex::eliminate(k0, k1)` of the model (graph bookkeeping included: which pairs are visited, removal of the pivots
and of their edges, dropping of zero labels) turns a well-formed complex with `d ∘ d = 0` into one with `d ∘ d = 0`.
This is `Props/C05Deloop.eliminate_step` for arbitrarily many neighbours, transported to the model.

NOT proved: that the real instance `lcOps h t` (stacking of cobordisms + `part_eval`) is such a ring-like algebra —
its composition is only partially defined (it panics on non-stackable cobordisms) and its associativity / bilinearity
would need functoriality of the structural model.
-/
namespace Yuiv.C05.Engine
open Yuiv Yuiv.C05

theorem eliminate_preserves_dd {E : Type} [Ring E] (ops : EdgeOps E) (hops : RingEdgeOps ops) (cx cx' : Cx E)
    (k0 k1 : TKey) (hwf : WF ops cx) (hdd : DD cx) (h : cx.eliminate ops k0 k1 = .ok cx') : DD cx' :=
  eliminate_dd ops hops cx cx' k0 k1 hwf hdd h

/-- together with (c): a well-formed complex with `d ∘ d = 0` stays so under any sequence of eliminations -/
theorem eliminations_preserve_wf_and_dd {E : Type} [Ring E] (ops : EdgeOps E) (hops : RingEdgeOps ops) :
    ∀ (pivots : List (TKey × TKey)) (cx cx' : Cx E), WF ops cx → DD cx →
      foldRes (fun c p => c.eliminate ops p.1 p.2) pivots cx = .ok cx' → WF ops cx' ∧ DD cx' := by
  intro pivots cx cx' hwf hdd h
  refine foldRes_inv (fun c => WF ops c ∧ DD c) _ pivots ?_ cx cx' ⟨hwf, hdd⟩ h
  intro b p b' _ hb hstep
  exact ⟨wf_eliminate ops b b' p.1 p.2 hb.1 hstep, eliminate_dd ops hops b b' p.1 p.2 hb.1 hb.2 hstep⟩

/-- the toy algebra over ℤ is a `RingEdgeOps`, so the hypotheses are satisfiable … -/
example : RingEdgeOps toyOps where
  cab _ _ _ := rfl
  sub _ _ := rfl
  neg _ := rfl
  zero x h := by simpa [toyOps] using h
  inv a ainv h := by
    simp only [toyOps] at h
    split at h
    · rename_i hu
      cases h
      simp only [Bool.or_eq_true, beq_iff_eq] at hu
      rcases hu with rfl | rfl <;> decide
    · cases h

/-- … on a complex with composable edges: `u → {k0, l0} → {k1, l1}` with `a = 1, b = −2, c = 3, d = −6`,
`x = 2, y = 1` (`a·x + b·y = 0`, `c·x + d·y = 0`), pivot `a`. -/
example : (toyCube.eliminate toyOps ⟨[true, false], []⟩ ⟨[true, true], [.X]⟩).isOk = true ∧ WF toyOps toyCube := by
  refine ⟨by decide, ⟨by decide, by decide, by decide, by decide, by decide⟩⟩

/-- the step on that complex: the entry `l0 → l1` becomes `−6 − 3·1·(−2) = 0` and is dropped; `u → l0` survives -/
example : ∃ cx', toyCube.eliminate toyOps ⟨[true, false], []⟩ ⟨[true, true], [.X]⟩ = .ok cx' ∧
    cx'.edge? ⟨[false, true], []⟩ ⟨[true, true], [.I]⟩ = none ∧
    cx'.edge? ⟨[false, false], []⟩ ⟨[false, true], []⟩ = some 1 ∧ cx'.verts.length = 3 := by
  refine ⟨_, rfl, by decide, by decide, by decide⟩

/-! ### delooping preserves `d ∘ d = 0` -/

/-- every entry of the complex after `deloop(k, r)`, in one formula: for keys other than the old `k`,
`d'(a → b) = L(b) · d(π a → π b) · R(a)` where `π` sends the new keys `k·X`, `k·1` to `k`, `L` is the cap glued on
edges into a new key (`cap(none)` for `k·X`, `cap(Y)` for `k·1`, `1` elsewhere) and `R` the cup glued under edges
out of it (`cup(X)`, `cup(none)`, `1`); nothing is left at `k`.  (`u = !based`: a circle through the base point has
only the `X` copy.)  This is the closed lookup formula for the composite
rename → duplicate → deloop_with → deloop_with. -/
theorem deloop_entries {E : Type} [Ring E] (ops : EdgeOps E) (cx cx' : Cx E) (k : TKey) (r : Nat) (upd : List TKey)
    (t : Tng.Tng) (c : Tng.Path) (cap cup : Tng.Dot → E) (hwf : WF ops cx) (ht : cx.tng? k = some t)
    (hc : t[r]? = some c) (hops : RingDeloopOps ops c cap cup) (h : cx.deloop ops k r = .ok (upd, cx')) (a b : TKey) :
    ent cx' a b =
      if a = k ∨ b = k then 0
      else dlL cap k (!cx.containsBase c) b * ent cx (dlPi k (!cx.containsBase c) a) (dlPi k (!cx.containsBase c) b)
            * dlR cup k (!cx.containsBase c) a :=
  deloop_ent ops cx cx' k r upd t c cap cup hwf ht hc hops h a b

/-- **`deloop` of the model preserves `d ∘ d = 0`**: edge labels in a ring, `cap_off(Tgt, c, dot)` = left
multiplication by `cap dot`, `cap_off(Src, c, dot)` = right multiplication by `cup dot` (for the circle `c` that is
delooped), and the copies decompose the identity of the delooped vertex:
`cup(X)·cap(none) + cup(none)·cap(Y) = 1` (`a = ε(a)·X + ε(aY)·1`, statement (2) of `Props/C05Deloop.deloop_iso`),
resp. `cup(X)·cap(none) = 1` for a circle through the base point (`deloop_iso_based`).  The new differential is the
old one conjugated by that decomposition, hence squares to zero. -/
theorem deloop_preserves_dd {E : Type} [Ring E] (ops : EdgeOps E) (cx cx' : Cx E) (k : TKey) (r : Nat)
    (upd : List TKey) (t : Tng.Tng) (c : Tng.Path) (cap cup : Tng.Dot → E) (hwf : WF ops cx)
    (ht : cx.tng? k = some t) (hc : t[r]? = some c) (hops : RingDeloopOps ops c cap cup)
    (hiso : if cx.containsBase c = true then cup .X * cap .none = 1
            else cup .X * cap .none + cup .none * cap .Y = 1)
    (hdd : DD cx) (h : cx.deloop ops k r = .ok (upd, cx')) : DD cx' :=
  deloop_dd ops cx cx' k r upd t c cap cup hwf ht hc hops hiso hdd h

/-- any script of `deloop` and `eliminate` steps keeps a well-formed complex with `d ∘ d = 0` such, provided the
edge operations are lawful for every circle (with the decomposition of the identity that fits its basedness) -/
theorem simplification_preserves_wf_and_dd {E : Type} [Ring E] (ops : EdgeOps E) (hops : RingEdgeOps ops)
    (base : Option Nat)
    (hdl : ∀ c : Tng.Path, ∃ cap cup : Tng.Dot → E, RingDeloopOps ops c cap cup ∧
      (if (match base with | some e => c.contains e | none => false) = true then cup .X * cap .none = 1
       else cup .X * cap .none + cup .none * cap .Y = 1)) :
    ∀ (steps : List (TKey × Nat ⊕ TKey × TKey)) (cx cx' : Cx E), cx.base = base → WF ops cx → DD cx →
      foldRes (fun c st => match st with
        | .inl (k, r) => (match c.deloop ops k r with | .ok (_, c') => .ok c' | .panic => .panic | .err => .err)
        | .inr (k0, k1) => c.eliminate ops k0 k1) steps cx = .ok cx' →
      cx'.base = base ∧ WF ops cx' ∧ DD cx' := by
  intro steps cx cx' hb hwf hdd h
  refine foldRes_inv (fun c => c.base = base ∧ WF ops c ∧ DD c) _ steps ?_ cx cx' ⟨hb, hwf, hdd⟩ h
  intro b st b' _ hbI hstep
  obtain ⟨hb0, hw, hd⟩ := hbI
  rcases st with ⟨k, r⟩ | ⟨k0, k1⟩
  · simp only at hstep
    rcases hdl' : b.deloop ops k r with ⟨upd, c'⟩ | _ | _
    · simp only [hdl', Res.ok.injEq] at hstep
      subst hstep
      obtain ⟨t, c, ht, hc, _, _⟩ := deloop_factors ops b _ k r upd hdl'
      obtain ⟨cap, cup, ho, hi⟩ := hdl c
      have hi' : if b.containsBase c = true then cup .X * cap .none = 1
          else cup .X * cap .none + cup .none * cap .Y = 1 := by
        unfold Cx.containsBase
        rw [hb0]
        exact hi
      exact ⟨(deloop_base ops b _ k r upd hdl').trans hb0, wf_deloop ops b _ k r upd hw hdl',
        deloop_dd ops b _ k r upd t c cap cup hw ht hc ho hi' hd hdl'⟩
    · simp [hdl'] at hstep
    · simp [hdl'] at hstep
  · simp only at hstep
    exact ⟨((eliminate_verts ops b b' k0 k1 hstep).2.2.2.1).trans hb0, wf_eliminate ops b b' k0 k1 hw hstep,
      eliminate_dd ops hops b b' k0 k1 hw hd hstep⟩

/-- the hypotheses of `deloop_preserves_dd` are satisfiable (ℤ, `cap(none) = cup(X) = 1`, `cap(Y) = cup(none) = 0`)
and the model's `deloop` runs on a complex with a circle: the vertex splits into `k·X` and `k·1`, the incoming edge
`3` is kept on the `X` copy and dropped (zero) on the `1` copy -/
example : (∀ c, RingDeloopOps toyDlOps c (fun d => if d = .Y then 0 else 1) (fun d => if d = .none then 0 else 1)) ∧
    ((1 : Int) * 1 + 0 * 0 = 1) := by
  refine ⟨fun c => ⟨?_, ?_, ?_⟩, by decide⟩
  · intro d f; cases d <;> simp [toyDlOps]
  · intro d f; cases d <;> simp [toyDlOps]
  · intro x h; simpa [toyDlOps, toyOps] using h

example : ∃ cx', toyLoop.deloop toyDlOps ⟨[true], []⟩ 0 = .ok ([⟨[true], [.X]⟩, ⟨[true], [.I]⟩], cx') ∧
    cx'.edge? ⟨[false], []⟩ ⟨[true], [.X]⟩ = some 3 ∧ cx'.edge? ⟨[false], []⟩ ⟨[true], [.I]⟩ = none ∧
    cx'.verts.length = 3 ∧ WF toyDlOps toyLoop := by
  refine ⟨_, rfl, by decide, by decide, by decide, ⟨by decide, by decide, by decide, by decide, by decide⟩⟩

end Yuiv.C05.Engine
