import Yuiv.Proofs.C05EngineDD
/-
C05 (engine) — (d): Gaussian elimination of the MODEL preserves `d ∘ d = 0`.

`E` is any (not necessarily commutative) ring of edge labels, `ops` any record of edge operations whose
`cab / sub / neg / isZero / inv` are the ring operations (`RingEdgeOps`).  `DD cx` says that for all keys `k, m` the
sum over ALL vertices `l` of `d(l → m) · d(k → l)` vanishes (`0` for missing edges).  Then one step
`TngComplex::eliminate(k0, k1)` of the model (graph bookkeeping included: which pairs are visited, removal of the pivots
and of their edges, dropping of zero labels) turns a well-formed complex with `d ∘ d = 0` into one with `d ∘ d = 0`.
This is `Props/C05Deloop.eliminate_step` for arbitrarily many neighbours, transported to the model.

NOT proved: that the real instance `lcOps h t` (stacking of cobordisms + `part_eval`) is such a ring-like algebra —
its composition is only partially defined (it panics on non-stackable cobordisms) and its associativity / bilinearity
would need functoriality of the structural model.
-/
namespace Yuiv.C05.Engine
open Yuiv Yuiv.C05

theorem eliminate_preserves_dd {E : Type} [Ring E] (ops : EdgeOps E) (hops : RingEdgeOps ops) (cx cx' : Cx E)
    (k0 k1 : TKey) (hwf : WF ops cx) (hdd : DD cx) (h : cx.eliminate ops k0 k1 = .ok cx') : DD cx' :=
  eliminate_dd ops hops cx cx' k0 k1 hwf hdd h

/-- together with (c): a well-formed complex with `d ∘ d = 0` stays so under any sequence of eliminations -/
theorem eliminations_preserve_wf_and_dd {E : Type} [Ring E] (ops : EdgeOps E) (hops : RingEdgeOps ops) :
    ∀ (pivots : List (TKey × TKey)) (cx cx' : Cx E), WF ops cx → DD cx →
      foldRes (fun c p => c.eliminate ops p.1 p.2) pivots cx = .ok cx' → WF ops cx' ∧ DD cx' := by
  intro pivots cx cx' hwf hdd h
  refine foldRes_inv (fun c => WF ops c ∧ DD c) _ pivots ?_ cx cx' ⟨hwf, hdd⟩ h
  intro b p b' _ hb hstep
  exact ⟨wf_eliminate ops b b' p.1 p.2 hb.1 hstep, eliminate_dd ops hops b b' p.1 p.2 hb.1 hb.2 hstep⟩

/-- the toy algebra over ℤ is a `RingEdgeOps`, so the hypotheses are satisfiable … -/
example : RingEdgeOps toyOps where
  cab _ _ _ := rfl
  sub _ _ := rfl
  neg _ := rfl
  zero x h := by simpa [toyOps] using h
  inv a ainv h := by
    simp only [toyOps] at h
    split at h
    · rename_i hu
      cases h
      simp only [Bool.or_eq_true, beq_iff_eq] at hu
      rcases hu with rfl | rfl <;> decide
    · cases h

/-- … on a complex with composable edges: `u → {k0, l0} → {k1, l1}` with `a = 1, b = −2, c = 3, d = −6`,
`x = 2, y = 1` (`a·x + b·y = 0`, `c·x + d·y = 0`), pivot `a`. -/
example : (toyCube.eliminate toyOps ⟨[true, false], []⟩ ⟨[true, true], [.X]⟩).isOk = true ∧ WF toyOps toyCube := by
  refine ⟨by decide, ⟨by decide, by decide, by decide, by decide, by decide⟩⟩

/-- the step on that complex: the entry `l0 → l1` becomes `−6 − 3·1·(−2) = 0` and is dropped; `u → l0` survives -/
example : ∃ cx', toyCube.eliminate toyOps ⟨[true, false], []⟩ ⟨[true, true], [.X]⟩ = .ok cx' ∧
    cx'.edge? ⟨[false, true], []⟩ ⟨[true, true], [.I]⟩ = none ∧
    cx'.edge? ⟨[false, false], []⟩ ⟨[false, true], []⟩ = some 1 ∧ cx'.verts.length = 3 := by
  refine ⟨_, rfl, by decide, by decide, by decide⟩

end Yuiv.C05.Engine
