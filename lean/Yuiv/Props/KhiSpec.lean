import Yuiv.Proofs.KhiSpecMain
import Yuiv.Proofs.KhiSpecGens
import Yuiv.Proofs.KhiSpecEx
import Yuiv.Proofs.KhiSpecClosed
/-
KhiSpec — END-TO-END STATEMENT ABOUT `C19.khiHomology` (singly graded case): what the reference returns is the table of
the dimensions over 𝔽₂ of `ker / im` of the mapping cone of `1 + τ` on the cube complex.

Hypothesis: ONE decidable check `khiSpecOk l p` (`Proofs/KhiSpecDefs.lean`, Mathlib-free) =
  `khiInstanceOk l p` (`Props/C19Cone`: valid code, ≤ 64 labels, every cube edge a merge/split, the τ-checks, reduced ⇒ `t = 0`)
  ∧ `khiGensOk ic p`: (a) every enumerated cube generator is a generator (state `< 2^n`, labelling of its circles, base
  circle `X`), (b) every degree of the cone enumeration is duplicate-free, (c) every target of `dI` on a cone generator of
  degree `i` is a cone generator of degree `i + 1`.  (c) is what the bit rows need: `homo` looks the target up in a hash map
  and uses column `0` when it is missing.

Then (`khi_homology_graded`): `khiHomology l signs p false = .ok ⟨cells⟩` — never `malformed`, never `notComplex` — and
`cells` is exactly the list, for `i = 0..n+1` in this order, of `(h0 + i, none, dim_i)` with `dim_i ≠ 0`, where `h0 = −n₋`,
    `dim_i = #gens_i − rank D_i − rank D_{i−1}`   (`rank D_{−1} := 0`),
`gens_i` = the cone generators `B g` (weight `i`) and `Q g` (weight `i − 1`) in the order of the model's enumeration, and
`D_i = Dm ic p i` the matrix over `ZMod 2` of the cone differential `dI` (`D(Bg) = B dg + Qg + Qτg`, `D(Qg) = Q dg`, entries =
multiplicities mod 2).  `khi_cone_matrices_complex`: `D_i · D_{i+1} = 0`; `khi_dim_is_homology`: `dim_{j+1}` is the dimension
of `ker D_{j+1}ᵀ / im D_jᵀ` (`Proofs/C03UctHom.finrank_homology`); at `i = 0` it is `dim ker D_0ᵀ`.

This covers the formerly trusted code of `khiHomology`: the early-exit loops (differential table, `D∘D` check — shown not to
exit), `reduce2` (hash-map parity reduction: `mem_reduce2`, `reduce2_nodup`), the index map `idx` (`idxOf_spec`), the bit
rows (`row_testBit`), `homo` (`homoA_eq`), `rankF2` (`Props/KhSnf.rankF2_correct`), the cell list and the degree shift.
`khiHomology = khiM` (`Proofs/KhiSpecModel.khiHomology_eq`) holds by unfolding.
`khiGensOk` IS NOT AN EXTRA ASSUMPTION: `kgens_enumeration` (the enumeration is sound, complete and duplicate-free, for every
cube) gives (a), (b); `khi_closure_of_instanceOk` gives (c) for every instance passing `khiInstanceOk`; so
`khi_homology_graded_of_instanceOk` states everything under `khiInstanceOk l p` ALONE.
The bigraded branch (`bigraded = true`, `h = t = 0`: the `q`-splitting, `Array.qsort` of the `q`-degrees) is the subject of
`Props/KhiSpecQ.lean` (`khi_homology_bigraded_of_instanceOk`).  The signs `signs` are an input (`h0 = −#negative signs`).
-/
namespace Yuiv.KhiSpec
open Yuiv Yuiv.KhRef Yuiv.C19 Yuiv.C06Cycle Yuiv.C19Inv Yuiv.C19Comm Yuiv.C19Cone Matrix

/-- `reduce2` keeps exactly the elements of odd multiplicity, each once -/
theorem reduce2_spec (xs : Array IGen) :
    (reduce2 xs).toList.Nodup ∧ ∀ y, y ∈ reduce2 xs ↔ xs.toList.count y % 2 = 1 :=
  ⟨reduce2_nodup xs, mem_reduce2 xs⟩

/-- the model with named pieces IS `khiHomology` -/
theorem khiHomology_is_model (l : InvLink) (signs : Array Int) (p : Params) (b : Bool) :
    khiHomology l signs p b = khiM l signs p b :=
  khiHomology_eq l signs p b

/-- THE END-TO-END STATEMENT (singly graded): under the decidable per-instance check, `khiHomology` succeeds and reports
exactly the non-zero dimensions `#gens_i − rank D_i − rank D_{i−1}` of the cone of `1 + τ`, in degrees `h0 + i` -/
theorem khi_homology_graded (l : InvLink) (signs : Array Int) (p : Params) (h : khiSpecOk l p = true) :
    ∃ ic, mkICube l p = some ic ∧
      khiHomology l signs p false = Except.ok { cells :=
        ((List.range (ic.cube.n + 2)).filterMap (fun (i : Nat) =>
          if coneDim ic p i ≠ 0 then
            some (-((signs.filter (· < 0)).size : Int) + (i : Int), (none : Option Int), coneDim ic p i)
          else none)).toArray } := by
  obtain ⟨ic, hic, hok, G⟩ := khiSpecOk_spec l p h
  exact ⟨ic, hic, khi_graded_eq l signs p ic hic hok G⟩

/-- in particular: never `malformed`, never `notComplex`, and every reported cell `(i, j, d)` has `j = none`,
`i = h0 + k` for a position `k ≤ n + 1` and `d = dim_k ≠ 0`; every position of non-zero dimension is reported -/
theorem khi_homology_graded_cells (l : InvLink) (signs : Array Int) (p : Params) (h : khiSpecOk l p = true) :
    ∃ ic res, mkICube l p = some ic ∧ khiHomology l signs p false = Except.ok res ∧
      ∀ cell, cell ∈ res.cells ↔ ∃ k, k < ic.cube.n + 2 ∧ coneDim ic p k ≠ 0 ∧
        cell = (-((signs.filter (· < 0)).size : Int) + (k : Int), none, coneDim ic p k) := by
  obtain ⟨ic, hic, he⟩ := khi_homology_graded l signs p h
  refine ⟨ic, _, hic, he, ?_⟩
  intro cell
  simp only [List.mem_toArray, List.mem_filterMap, List.mem_range]
  constructor
  · rintro ⟨k, hk, e⟩
    split at e
    · rename_i hne
      exact ⟨k, hk, hne, (Option.some.inj e).symm⟩
    · cases e
  · rintro ⟨k, hk, hne, rfl⟩
    exact ⟨k, hk, by rw [if_pos hne]⟩

/-- the matrices of the cone differential form a complex over `𝔽₂` -/
theorem khi_cone_matrices_complex (l : InvLink) (p : Params) (h : khiSpecOk l p = true) :
    ∃ ic, mkICube l p = some ic ∧ ∀ i, i < ic.cube.n + 2 → Dm ic p i * Dm ic p (i + 1) = 0 := by
  obtain ⟨ic, hic, hok, G⟩ := khiSpecOk_spec l p h
  refine ⟨ic, hic, fun i hi => ?_⟩
  exact Dm_mul ic p G (enumerated_ok l p ic hic hok G).2 i (by rw [coneGens_size]; exact hi)

/-- THE REPORTED DIMENSION IS THE DIMENSION OF `ker / im`: at every position `j + 1`, `coneDim` is the dimension over `𝔽₂` of
the homology of `𝔽₂^{gens_j} → 𝔽₂^{gens_{j+1}} → 𝔽₂^{gens_{j+2}}` (matrices `D_jᵀ`, `D_{j+1}ᵀ`, acting on column vectors) -/
theorem khi_dim_is_homology (l : InvLink) (p : Params) (h : khiSpecOk l p = true) :
    ∃ ic, mkICube l p = some ic ∧ ∀ j, j < ic.cube.n + 2 →
      Module.finrank (ZMod 2) (C03Uct.Homology (Dm ic p j)ᵀ (Dm ic p (j + 1))ᵀ) = coneDim ic p (j + 1) := by
  obtain ⟨ic, hic, hok, G⟩ := khiSpecOk_spec l p h
  refine ⟨ic, hic, fun j hj => ?_⟩
  rw [homology_dim ic p G (enumerated_ok l p ic hic hok G).2 j (by rw [coneGens_size]; exact hj)]
  unfold coneDim
  simp
  omega

/-- at position `0` nothing comes in: `coneDim 0 = #gens_0 − rank D_0 = dim ker D_0ᵀ` -/
theorem khi_dim_zero (ic : ICube) (p : Params) :
    coneDim ic p 0 = (cgens ic 0).size - (Dm ic p 0).rank ∧
    Module.finrank (ZMod 2) (LinearMap.ker (Dm ic p 0)ᵀ.mulVecLin) = (cgens ic 0).size - (Dm ic p 0).rank := by
  have : Fact (Nat.Prime 2) := ⟨Nat.prime_two⟩
  refine ⟨by simp [coneDim], ?_⟩
  rw [C03Uct.finrank_ker_mulVecLin, Matrix.rank_transpose]

/-! ### the generator enumeration -/

/-- THE ENUMERATION IS SOUND AND COMPLETE: the list of cube generators at weight `w` built by the `kgens` loop consists
exactly of the generators of weight `w` (state below `2^n` of weight `w`, a labelling of the circles of that state, base
circle labelled `X` in the reduced theory), each once; functionally it is the concatenation of `Cube.gensAt s` over the
states of weight `w` in increasing order -/
theorem kgens_enumeration (c : Cube) (w : Nat) :
    ((kgensOf c)[w]!).toList =
      ((List.range (2 ^ c.n)).filter (fun s => popcount s c.n == w)).flatMap (fun s => (c.gensAt s).toList) ∧
    ((kgensOf c)[w]!).toList.Nodup ∧
    ∀ g, g ∈ (kgensOf c)[w]! ↔ g.s < 2 ^ c.n ∧ popcount g.s c.n = w ∧ g.mask < 2 ^ (c.circ[g.s]!).size ∧
      baseKeep c g = true :=
  ⟨kgensOf_toList c w, kgensOf_nodup c w, mem_kgensOf c w⟩

/-- hence parts (a), (b) of `khiGensOk` hold for EVERY cube; the only instance property in it is (c), the closure of the
degree-wise enumeration under `dI` -/
theorem khiGensOk_only_closure (ic : ICube) (p : Params)
    (hcl : ∀ i : Nat, i < ic.cube.n + 2 → ∀ x ∈ cgens ic i, ∀ y ∈ dI ic p x, y ∈ cgens ic (i + 1)) :
    (∀ i : Nat, (cgens ic i).toList.Nodup) ∧
    (∀ gs ∈ kgensOf ic.cube, ∀ g ∈ gs,
      g.s < 2 ^ ic.cube.n ∧ g.mask < 2 ^ (ic.cube.circ[g.s]!).size ∧ baseKeep ic.cube g = true) := by
  have G := gensOk_of_closed ic p (fun i hi => hcl i (by rw [coneGens_size] at hi; exact hi))
  exact ⟨G.nodup, G.valid⟩

/-- THE CLOSURE (c) HOLDS FOR EVERY INSTANCE PASSING `khiInstanceOk`: the targets of `dI` on a cone generator of degree `i`
are cone generators of degree `i + 1` (targets of `Cube.d`: one more crossing resolved, labelling of the new circles, base
circle kept; `τ g`: same weight, again a generator) -/
theorem khi_closure_of_instanceOk (l : InvLink) (p : Params) (ic : ICube) (hic : mkICube l p = some ic)
    (hok : khiInstanceOk l p = true) :
    ∀ i : Nat, i < ic.cube.n + 2 → ∀ x ∈ cgens ic i, ∀ y ∈ dI ic p x, y ∈ cgens ic (i + 1) :=
  closed_of_instanceOk l p ic hic hok

/-- THE END-TO-END STATEMENT UNDER `khiInstanceOk` ALONE (singly graded): `khiHomology` succeeds, its cells are exactly the
non-zero `coneDim`s in the degrees `h0 + i`, the cone matrices form a complex, and `coneDim (j+1)` is the dimension of
`ker D_{j+1}ᵀ / im D_jᵀ` -/
theorem khi_homology_graded_of_instanceOk (l : InvLink) (signs : Array Int) (p : Params)
    (h : khiInstanceOk l p = true) :
    ∃ ic, mkICube l p = some ic ∧
      khiHomology l signs p false = Except.ok { cells :=
        ((List.range (ic.cube.n + 2)).filterMap (fun (i : Nat) =>
          if coneDim ic p i ≠ 0 then
            some (-((signs.filter (· < 0)).size : Int) + (i : Int), (none : Option Int), coneDim ic p i)
          else none)).toArray } ∧
      (∀ i, i < ic.cube.n + 2 → Dm ic p i * Dm ic p (i + 1) = 0) ∧
      (∀ j, j < ic.cube.n + 2 →
        Module.finrank (ZMod 2) (C03Uct.Homology (Dm ic p j)ᵀ (Dm ic p (j + 1))ᵀ) = coneDim ic p (j + 1)) := by
  obtain ⟨_, _, _, _, ic, hic, _, _⟩ := khi_instance_ok_meaning l p h
  have G : GensOk ic p := gensOk_of_closed ic p (fun i hi =>
    closed_of_instanceOk l p ic hic h i (by rw [coneGens_size] at hi; exact hi))
  have hcone := (enumerated_ok l p ic hic h G).2
  refine ⟨ic, hic, khi_graded_eq l signs p ic hic h G, ?_, ?_⟩
  · intro i hi
    exact Dm_mul ic p G hcone i (by rw [coneGens_size]; exact hi)
  · intro j hj
    rw [homology_dim ic p G hcone j (by rw [coneGens_size]; exact hj)]
    unfold coneDim
    simp
    omega

/-! ### non-vacuity: the strongly invertible trefoil -/

/-- under `khiInstanceOk` alone, on the trefoil for all `(h, t)` unreduced and all `h` reduced (`t = 0`) -/
example (signs : Array Int) (h t : Int) :
    (∃ res, khiHomology tref signs ⟨h, t, false⟩ false = Except.ok res) ∧
    (∃ res, khiHomology tref signs ⟨h, 0, true⟩ false = Except.ok res) := by
  obtain ⟨_, _, e1, _⟩ := khi_homology_graded_of_instanceOk tref signs ⟨h, t, false⟩ (tref_ok_unreduced h t)
  obtain ⟨_, _, e2, _⟩ := khi_homology_graded_of_instanceOk tref signs ⟨h, 0, true⟩ (tref_ok_reduced h)
  exact ⟨⟨_, e1⟩, ⟨_, e2⟩⟩

/-- the check holds on the trefoil (unreduced `(h,t) = (0,0), (1,1)`; reduced `(1,0)`), so `khiHomology` returns the
table of `coneDim`; evaluated (`#eval`, signs `−,−,−`): dimensions `2,2,2,4,2` in degrees `−3..1` unreduced, `1,1,1,2,1` reduced -/
example (signs : Array Int) :
    (∃ ic, mkICube tref ⟨0, 0, false⟩ = some ic ∧ ∃ res, khiHomology tref signs ⟨0, 0, false⟩ false = Except.ok res) ∧
    (∃ ic, mkICube tref ⟨1, 0, true⟩ = some ic ∧ ∃ res, khiHomology tref signs ⟨1, 0, true⟩ false = Except.ok res) := by
  obtain ⟨ic1, h1, e1⟩ := khi_homology_graded tref signs ⟨0, 0, false⟩ tref_spec_ok.1
  obtain ⟨ic2, h2, e2⟩ := khi_homology_graded tref signs ⟨1, 0, true⟩ tref_spec_ok.2.2
  exact ⟨⟨ic1, h1, _, e1⟩, ⟨ic2, h2, _, e2⟩⟩

/-- the sizes of the cone enumeration of the trefoil (`B`-generators of weight `i`, `Q`-generators of weight `i − 1`):
`4, 6+4, 12+6, 8+12, 8` in the positions `0..4` -/
example : (List.range 5).map (fun i => (cgens (trefIC false) i).size) = [4, 10, 18, 20, 8] := by
  decide +kernel

end Yuiv.KhiSpec
