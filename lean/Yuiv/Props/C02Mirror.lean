import Yuiv.Proofs.C02MirrorEx
import Yuiv.Props.C18Bridge
import Yuiv.Props.C03Uct
/-
C02Mirror — the MIRROR RULE of property C02 (free part `(i,j) ↦ (−i,−j)`, torsion `(i,j) ↦ (1−i,−j)`) for the
reference cube `Yuiv.KhRef` at `h = 0` (in particular `h = t = 0`), UNREDUCED theory.  Property theorems only; proofs
in `Proofs/C02MirrorAlg, C02MirrorCube, C02MirrorEdge, C02MirrorState, C02MirrorDual, C02MirrorCells, C02MirrorSigns,
C02MirrorEx`.

(1) CHAIN-LEVEL DUALITY.  For EVERY diagram `l : KhRef.Link` (no well-formedness needed for the cube part):
  * vertex `s̄ = 2ⁿ−1−s` of the cube of `mirror l` carries the same circle list as vertex `s` of the cube of `l`
    (`mirror_state_circles`);
  * the dual generator `dualGen (s, m) = (s̄, m̄)` (labels `1 ↔ X` swapped on every circle) has homological degree
    `−i` and quantum degree `−j`, the crossing signs being negated (`mirror_degrees`, with the reference's own
    `crossingSigns` on every valid link; `n₊ + n₋ = n` is proved of `KhRef.crossingSigns` for ALL links);
  * `prod_coprod_adjoint`: at `h = 0` the tables `prod`/`coprod` are adjoint under `⟨1, X⟩ = 1`;
  * `mirror_edge_map_transpose`: every single edge map is transposed (merge ↔ split), for any two circle lists
    without repeated circles and of size ≤ 64;
  * `mirror_d_transpose`, `mirror_d_matrix`: the matrix of `Cube.d` of the mirror cube in the dual bases is
        D_src · (matrix of `Cube.d` of the cube)ᵀ · D_tgt ,      D = diag(σ),  σ(s) = (−1)^{Σ positions of the 1-bits of s}
    — the edge signs `(−1)^{#1s before k}` of the reversed cube differ from the transposed ones by `(−1)^k`, which is
    the coboundary of `σ`; so the two differentials are conjugate by diagonal `±1` matrices (NOT equal).
  Hypotheses: `p.h = 0`, `p.reduced = false`, `(edgeLabels l).size ≤ 64` (the reference's `setBit` clears bits through
  a 64-bit mask, see `setBit_high_bits_lost`; a diagram with ≤ 64 edge labels has ≤ 64 circles in every state), and
  `cubeOK (mkCube l p)`: every edge of the cube is one merge or one split — this is exactly what `Cube.d` checks (else
  it returns `none` = `Failure.malformed`); it holds for planar diagrams, fails for some abstract PD codes (virtual
  crossings), is decidable per instance, and transfers to the mirror (`mirror_cube_ok`).
(2) FROM DUALITY TO THE TABLE.  `snf_transpose`: `EquivDiag A d → EquivDiag Aᵀ d`; `dual_cell_rule`: the cell of the
  dual complex; `mirror_rule_cells`: diagonal forms `dA`, `dB` of the differentials into / out of bidegree `(i,j)` of `l`
  are diagonal forms of the differentials out of / into the dual bidegree of `mirror l`, hence the cell of the mirror
  there has the free rank of the cell `(i,j)` of `l` and the torsion orders `torsOf dB` of the cell `(i+1,j)` of `l`;
  `mirror_rule_cells_unique`: whatever other diagonal forms are used for the mirror, the free rank and the number of
  torsion orders divisible by any prime are the same.  PER-INSTANCE DATA: the diagonal forms (they exist for every
  matrix: `C03Uct.snf_exists`) and `cubeOK`.
NOT covered: the reduced theory (`dualGen` swaps the label of the base circle, so it exchanges the sub- and the quotient
complex); that `KhRef.khHomology`'s own Smith-invariant code (`smithInvariants`, unverified array code) returns a
diagonal form; the enumeration order of the generators (immaterial: `equivDiag_reindex`).
-/
namespace Yuiv.C02Mirror
open Yuiv Yuiv.KhRef Yuiv.C04Inv Matrix Yuiv.C03 Yuiv.C03Uct
open Yuiv.C18Bridge (toKh nPosK nNegK)

/-! ### the Frobenius tables -/

/-- TABLE ADJOINTNESS at `h = 0` (any `t`): the coefficient of `y` in `x₁·x₂` is the coefficient of `x̄₁ ⊗ x̄₂` in `Δ ȳ`
(`¯` = swap `1 ↔ X`), i.e. `m` and `Δ` are adjoint under the pairing `⟨1, X⟩ = ⟨X, 1⟩ = 1`, `⟨1,1⟩ = ⟨X,X⟩ = 0` -/
theorem prod_coprod_adjoint (t : Int) (x1 x2 y : Bool) :
    prodCoef 0 t x1 x2 y = coprodCoef 0 t (!y) (!x1) (!x2) :=
  prod_coprod_adjoint' t x1 x2 y

/-- … and only then: for `h ≠ 0` the tables are not adjoint (`X·X ∋ h·X` but `Δ1 ∋ −h·1⊗1`) -/
theorem prod_coprod_adjoint_needs_h0 (h t : Int) (hh : h ≠ 0) :
    prodCoef h t true true true ≠ coprodCoef h t false false false :=
  prod_coprod_not_adjoint h t hh

/-! ### (2) linear algebra of the dual complex -/

/-- transposing the unimodular factors: a diagonal form of `A` is a diagonal form of `Aᵀ` -/
theorem snf_transpose {m n : ℕ} (A : Matrix (Fin m) (Fin n) ℤ) (d : List ℤ) (h : EquivDiag A d) : EquivDiag Aᵀ d :=
  equivDiag_transpose A d h

/-- diagonal forms do not depend on the enumeration of the generators, nor on unimodular changes of the bases -/
theorem snf_reindex_unimodular {m n : ℕ} (A : Matrix (Fin m) (Fin n) ℤ) (d : List ℤ) (h : EquivDiag A d) :
    (∀ (σ : Fin m ≃ Fin m) (τ : Fin n ≃ Fin n), EquivDiag (A.submatrix σ τ) d) ∧
    (∀ (U : Matrix (Fin m) (Fin m) ℤ) (V : Matrix (Fin n) (Fin n) ℤ), IsUnit U.det → IsUnit V.det →
      EquivDiag (U * A * V) d) :=
  ⟨fun σ τ => equivDiag_reindex A d σ τ h, fun U V hU hV => equivDiag_mul_unimodular A d U V hU hV h⟩

/-- THE CELL RULE OF THE DUAL COMPLEX.  For `ℤˡ --A--> ℤⁿ --B--> ℤᵏ` with diagonal forms `dA`, `dB`, the dual complex
`ℤᵏ --Bᵀ--> ℤⁿ --Aᵀ--> ℤˡ` (still a complex) has the diagonal forms `dB`, `dA`; its middle cell has the SAME free rank
as the middle cell of the original and the torsion orders `torsOf dB` — those of the NEXT cell of the original
(whatever the differential `dC` after `B` is) -/
theorem dual_cell_rule {l n k : ℕ} (A : Matrix (Fin n) (Fin l) ℤ) (B : Matrix (Fin k) (Fin n) ℤ)
    (hBA : B * A = 0) (dA dB : List ℤ) (hA : EquivDiag A dA) (hB : EquivDiag B dB) :
    Aᵀ * Bᵀ = 0 ∧ EquivDiag Bᵀ dB ∧ EquivDiag Aᵀ dA ∧
    (cellOf n dB dA).rank = (cellOf n dA dB).rank ∧
    (cellOf n dB dA).tors = torsOf dB ∧ ∀ dC : List ℤ, (cellOf k dB dC).tors = (cellOf n dB dA).tors := by
  refine ⟨?_, equivDiag_transpose B dB hB, equivDiag_transpose A dA hA, cellOf_rank_symm n dA dB, rfl, fun _ => rfl⟩
  rw [← Matrix.transpose_mul, hBA, Matrix.transpose_zero]

/-! ### (1) chain-level duality -/

/-- STATE CORRESPONDENCE (every diagram): the mirror has the same number of crossings and the same edge labels, and
the complementary state `s̄ = 2ⁿ − 1 − s` of the mirror has the same circles — as computed by `KhRef.circles` and as
stored in the cube — as the state `s` (because `resolve (mirror c) (¬b) = resolve c b`) -/
theorem mirror_state_circles (l : Link) (p : Params) (s : Nat) (hs : s < 2 ^ crossingNum l) :
    crossingNum (mirror l) = crossingNum l ∧ edgeLabels (mirror l) = edgeLabels l ∧
    resolvedTypes (mirror l) (compl (crossingNum l) s) = resolvedTypes l s ∧
    circles (mirror l) (edgeLabels (mirror l)) (compl (crossingNum l) s) = circles l (edgeLabels l) s ∧
    (mkCube (mirror l) p).circ[compl (crossingNum l) s]! = (mkCube l p).circ[s]! ∧
    compl (crossingNum l) (compl (crossingNum l) s) = s :=
  ⟨crossingNum_mirror l, edgeLabels_mirror l, resolvedTypes_mirror l s hs,
    by rw [edgeLabels_mirror]; exact circles_mirror l _ s hs, cube_mirror_circ l p s hs, compl_compl _ s hs⟩

/-- the circle lists of the cube have no repeated circle and at most as many circles as the diagram has labels
(the hypotheses of the edge-wise transpose) -/
theorem cube_circles_nodup (l : Link) (p : Params) (s : Nat) (hs : s < 2 ^ crossingNum l) :
    ((mkCube l p).circ[s]!).toList.Nodup ∧ ((mkCube l p).circ[s]!).size ≤ (edgeLabels l).size := by
  rw [mkCube_circ _ _ _ hs, circles_eq, circOut_eq]
  exact ⟨circF_nodup _ _ (edgeLabels_nodup l), circF_size_le _ _⟩

/-- the dual generators are the generators of the mirror cube, and dualising twice is the identity -/
theorem mirror_generators (l : Link) (p : Params) (g : Gen) (hg : IsGen (mkCube l p) g) :
    IsGen (mkCube (mirror l) p) (dualGen (mkCube l p) g) ∧
    dualGen (mkCube (mirror l) p) (dualGen (mkCube l p) g) = g :=
  ⟨isGen_dual l p g hg, dualGen_dualGen l p g hg⟩

/-- DEGREES, general form: if the degree shifts of the mirror are those of `l` with `n₊ ↔ n₋` and `n₊ + n₋ = n`, the dual
generator has homological degree `−i` and quantum degree `−j` (formulas of `KhRef.khHomology`: `i = −n₋ + |s|`,
`j = Cube.qDeg (n₊ − 2n₋) g`) -/
theorem mirror_degrees_shifts (l : Link) (p : Params) (hr : p.reduced = false) (g : Gen) (hg : IsGen (mkCube l p) g)
    (nPos nNeg : Nat) (hn : nPos + nNeg = crossingNum l) :
    (-(nPos : Int) + (popcount (dualGen (mkCube l p) g).s (mkCube (mirror l) p).n : Int)
        = -(-(nNeg : Int) + (popcount g.s (mkCube l p).n : Int))) ∧
    (mkCube (mirror l) p).qDeg ((nNeg : Int) - 2 * nPos + (if p.reduced then 1 else 0)) (dualGen (mkCube l p) g)
      = -((mkCube l p).qDeg ((nPos : Int) - 2 * nNeg + (if p.reduced then 1 else 0)) g) := by
  constructor
  · have : (mkCube (mirror l) p).n = crossingNum l := crossingNum_mirror l
    rw [this]
    exact hDeg_dual _ _ _ _ hg.1 hn
  · apply qDeg_dual l p g hg
    simp only [hr, Bool.false_eq_true, if_false]
    omega

/-- DEGREES with the reference's OWN crossing signs: for every valid link (C18's validity: every label occurs in exactly
two slots) `KhRef.crossingSigns` succeeds on the link and on its mirror, the signs of the mirror are the negated ones,
`n₊ + n₋ = n`, and the dual of a generator of bidegree `(i, j)` is a generator of the mirror of bidegree `(−i, −j)` -/
theorem mirror_degrees (l0 : C18.Link) (hv : C18.Valid l0) (p : Params) (hr : p.reduced = false) :
    ∃ sg sg', KhRef.crossingSigns (toKh l0) = some sg ∧ KhRef.crossingSigns (mirror (toKh l0)) = some sg' ∧
      nPosK sg' = nNegK sg ∧ nNegK sg' = nPosK sg ∧ nPosK sg + nNegK sg = crossingNum (toKh l0) ∧
      ∀ g, IsGen (mkCube (toKh l0) p) g →
        (-(nNegK sg' : Int) + (popcount (dualGen (mkCube (toKh l0) p) g).s (mkCube (mirror (toKh l0)) p).n : Int)
          = -(-(nNegK sg : Int) + (popcount g.s (mkCube (toKh l0) p).n : Int))) ∧
        (mkCube (mirror (toKh l0)) p).qDeg ((nPosK sg' : Int) - 2 * nNegK sg' + (if p.reduced then 1 else 0))
            (dualGen (mkCube (toKh l0) p) g)
          = -((mkCube (toKh l0) p).qDeg ((nPosK sg : Int) - 2 * nNegK sg + (if p.reduced then 1 else 0)) g) := by
  obtain ⟨sg, h1, h2, h3, h4⟩ := Yuiv.C18Bridge.khref_signs_mirror_neg l0 hv
  have hn := signs_count _ sg h1
  refine ⟨sg, _, h1, h2, h3, h4, hn, fun g hg => ?_⟩
  rw [h3, h4]
  exact mirror_degrees_shifts (toKh l0) p hr g hg _ _ hn

/-- `n₊ + n₋ = n` for ANY diagram on which the reference's `crossingSigns` succeeds -/
theorem khref_signs_count (l : Link) (sg : Array Int) (h : KhRef.crossingSigns l = some sg) :
    nPosK sg + nNegK sg = crossingNum l :=
  signs_count l sg h

/-- EDGE-WISE TRANSPOSE (`h = 0`, any `t`).  For two circle lists `cs`, `cs'` without repeated circles and with at most
64 circles each, and labellings `m` of `cs`, `m'` of `cs'`: either the lists do not differ by one merge / one split and
both edge maps are undefined, or both are defined and the coefficient of `m'` in the edge map `cs → cs'` applied to `m`
equals the coefficient of `m̄` in the edge map `cs' → cs` applied to `m̄'` (a merge read backwards is a split) -/
theorem mirror_edge_map_transpose (cs cs' : Circ) (hnd : cs.toList.Nodup) (hnd' : cs'.toList.Nodup)
    (h64 : cs.size ≤ 64) (h64' : cs'.size ≤ 64) (t : Int) (m m' : Nat) (hm : m < 2 ^ cs.size) (hm' : m' < 2 ^ cs'.size) :
    (edgeOK cs cs' = false ∧ edgeTerms 0 t cs cs' m = none ∧ edgeTerms 0 t cs' cs (flipMask cs'.size m') = none) ∨
    ∃ ts ts', edgeTerms 0 t cs cs' m = some ts ∧ edgeTerms 0 t cs' cs (flipMask cs'.size m') = some ts' ∧
      coefOf ts m' = coefOf ts' (flipMask cs.size m) :=
  edge_transpose ⟨hnd, hnd', h64, h64'⟩ t m m' hm hm'

/-- `Cube.d` IS the sum of the signed edge maps: in the unreduced theory the imperative `Cube.d` equals the loop-free
`dF` for ALL inputs, and on a cube all of whose edges are merges/splits it is defined on every generator with
coefficients `Σ_k kTerm` (`kTerm` = `edgeSign s k` · coefficient of the edge map of edge `k`, if `s ∪ {k} = s'`) -/
theorem cube_d_functional (c : Cube) (p : Params) (g : Gen) (hb : c.base = none) :
    c.d p g = dF c p g ∧
    (g.s < 2 ^ c.n → cubeOK c →
      (∃ ts, c.d p g = some ts) ∧ ∀ g', dCoef c p g g' = ((List.range' 0 c.n).map (kTerm c p g g')).sum) :=
  ⟨d_eq c p g hb, fun hs hok => d_coef c p g hb hs hok⟩

/-- "every edge is a merge or a split" transfers to the mirror cube, and then both differentials are defined on all
generators -/
theorem mirror_cube_ok (l : Link) (p : Params) (hr : p.reduced = false) (hok : cubeOK (mkCube l p)) :
    cubeOK (mkCube (mirror l) p) ∧
    (∀ g, IsGen (mkCube l p) g → ∃ ts, (mkCube l p).d p g = some ts) ∧
    (∀ g, IsGen (mkCube (mirror l) p) g → ∃ ts, (mkCube (mirror l) p).d p g = some ts) :=
  ⟨cubeOK_mirror l p hok,
    fun g hg => (d_coef _ p g (mkCube_base l p hr) hg.1 hok).1,
    fun g hg => (d_coef _ p g (mkCube_base _ p hr) hg.1 (cubeOK_mirror l p hok)).1⟩

/-- CHAIN-LEVEL DUALITY, coefficient form: for all generators `g`, `g'` of the cube of `l` (adjacent or not), the
coefficient of `ḡ` in `d_mirror(ḡ')` is `σ(s)·σ(s')` times the coefficient of `g'` in `d(g)` -/
theorem mirror_d_transpose (l : Link) (p : Params) (hh : p.h = 0) (hr : p.reduced = false)
    (hL : (edgeLabels l).size ≤ 64) (hok : cubeOK (mkCube l p)) (g g' : Gen)
    (hg : IsGen (mkCube l p) g) (hg' : IsGen (mkCube l p) g') :
    dCoef (mkCube (mirror l) p) p (dualGen (mkCube l p) g') (dualGen (mkCube l p) g)
      = sigma (crossingNum l) g.s * sigma (crossingNum l) g'.s * dCoef (mkCube l p) p g g' :=
  dCoef_dual l p hh hr hL hok g g' hg hg'

/-- CHAIN-LEVEL DUALITY, matrix form: for any families `src`, `tgt` of generators of the cube of `l` (e.g. all
generators of bidegrees `(i,j)` and `(i+1,j)`), the matrix of the differential of the mirror cube from the duals of `tgt`
to the duals of `src` is the transpose of the matrix of the differential of `l` from `src` to `tgt`, conjugated by the
diagonal `±1` matrices of the signs `σ` -/
theorem mirror_d_matrix (l : Link) (p : Params) (hh : p.h = 0) (hr : p.reduced = false)
    (hL : (edgeLabels l).size ≤ 64) (hok : cubeOK (mkCube l p)) {a b : ℕ} (src : Fin a → Gen) (tgt : Fin b → Gen)
    (hsrc : ∀ i, IsGen (mkCube l p) (src i)) (htgt : ∀ j, IsGen (mkCube l p) (tgt j)) :
    dMatrix (mkCube (mirror l) p) p (fun j => dualGen (mkCube l p) (tgt j)) (fun i => dualGen (mkCube l p) (src i))
      = Matrix.diagonal (fun i => sigma (crossingNum l) (src i).s) * (dMatrix (mkCube l p) p src tgt)ᵀ
          * Matrix.diagonal (fun j => sigma (crossingNum l) (tgt j).s) ∧
    (∀ i, sigma (crossingNum l) (src i).s = 1 ∨ sigma (crossingNum l) (src i).s = -1) :=
  ⟨dMatrix_dual l p hh hr hL hok src tgt hsrc htgt, fun _ => sigma_unit _ _⟩

/-! ### (1) + (2): the mirror rule, cell by cell -/

/-- THE MIRROR RULE ON CELLS.  Let `G0`, `G1`, `G2` enumerate generators of the cube of `l` (intended: ALL generators of
bidegrees `(i−1,j)`, `(i,j)`, `(i+1,j)`; by `mirror_degrees` / `mirror_generators` their duals then are all generators
of the mirror of bidegrees `(1−i,−j)`, `(−i,−j)`, `(−i−1,−j)`), `A = d : G0 → G1`, `B = d : G1 → G2` with diagonal forms
`dA`, `dB` (per-instance data; they always exist).  Then `dB`, `dA` are diagonal forms of the differentials of the mirror
INTO and OUT OF the duals of `G1`, so the cell of the mirror at `(−i,−j)` built from them is
    ⟨ free rank of the cell `(i,j)` of `l` ,  torsion orders of the cell `(i+1,j)` of `l` ⟩
— free part `(i,j) ↦ (−i,−j)`, torsion part `(i+1,j) ↦ (−i,−j) = (1−(i+1), −j)` -/
theorem mirror_rule_cells (l : Link) (p : Params) (hh : p.h = 0) (hr : p.reduced = false)
    (hL : (edgeLabels l).size ≤ 64) (hok : cubeOK (mkCube l p)) {a n b : ℕ}
    (G0 : Fin a → Gen) (G1 : Fin n → Gen) (G2 : Fin b → Gen)
    (h0 : ∀ i, IsGen (mkCube l p) (G0 i)) (h1 : ∀ i, IsGen (mkCube l p) (G1 i)) (h2 : ∀ i, IsGen (mkCube l p) (G2 i))
    (dA dB : List ℤ) (hA : EquivDiag (dMatrix (mkCube l p) p G0 G1) dA)
    (hB : EquivDiag (dMatrix (mkCube l p) p G1 G2) dB) :
    EquivDiag (dMatrix (mkCube (mirror l) p) p (fun i => dualGen (mkCube l p) (G2 i))
      (fun i => dualGen (mkCube l p) (G1 i))) dB ∧
    EquivDiag (dMatrix (mkCube (mirror l) p) p (fun i => dualGen (mkCube l p) (G1 i))
      (fun i => dualGen (mkCube l p) (G0 i))) dA ∧
    (cellOf n dB dA).rank = (cellOf n dA dB).rank ∧
    ∀ dC : List ℤ, (cellOf n dB dA).tors = (cellOf b dB dC).tors :=
  ⟨equivDiag_mirror l p hh hr hL hok G1 G2 h1 h2 dB hB, equivDiag_mirror l p hh hr hL hok G0 G1 h0 h1 dA hA,
    cellOf_rank_symm n dA dB, fun _ => rfl⟩

/-- … and the counts do not depend on the diagonal forms chosen for the mirror: for ANY diagonal forms `dA'`, `dB'` of the
two differentials of the mirror, the free rank of the mirror cell is the free rank of the cell `(i,j)` of `l`, and for
every prime `q` the number of its torsion orders divisible by `q` is that of the cell `(i+1,j)` of `l` -/
theorem mirror_rule_cells_unique (l : Link) (p : Params) (hh : p.h = 0) (hr : p.reduced = false)
    (hL : (edgeLabels l).size ≤ 64) (hok : cubeOK (mkCube l p)) {a n b : ℕ}
    (G0 : Fin a → Gen) (G1 : Fin n → Gen) (G2 : Fin b → Gen)
    (h0 : ∀ i, IsGen (mkCube l p) (G0 i)) (h1 : ∀ i, IsGen (mkCube l p) (G1 i)) (h2 : ∀ i, IsGen (mkCube l p) (G2 i))
    (dA dB dA' dB' : List ℤ) (hA : EquivDiag (dMatrix (mkCube l p) p G0 G1) dA)
    (hB : EquivDiag (dMatrix (mkCube l p) p G1 G2) dB)
    (hA' : EquivDiag (dMatrix (mkCube (mirror l) p) p (fun i => dualGen (mkCube l p) (G2 i))
      (fun i => dualGen (mkCube l p) (G1 i))) dA')
    (hB' : EquivDiag (dMatrix (mkCube (mirror l) p) p (fun i => dualGen (mkCube l p) (G1 i))
      (fun i => dualGen (mkCube l p) (G0 i))) dB') :
    (cellOf n dA' dB').rank = (cellOf n dA dB).rank ∧
    ∀ (q : ℕ) [Fact q.Prime], ∀ dC : List ℤ,
      ((cellOf n dA' dB').tors.filter (fun x => x % (q : ℤ) == 0)).length
        = ((cellOf b dB dC).tors.filter (fun x => x % (q : ℤ) == 0)).length := by
  obtain ⟨m1, m2, _, _⟩ := mirror_rule_cells l p hh hr hL hok G0 G1 G2 h0 h1 h2 dA dB hA hB
  have : Fact (Nat.Prime 2) := ⟨Nat.prime_two⟩
  have u1 := Yuiv.C03Uct.snf_counts_unique 2 _ dA' dB hA' m1
  have u2 := Yuiv.C03Uct.snf_counts_unique 2 _ dB' dA hB' m2
  refine ⟨?_, fun q _ dC => ?_⟩
  · show n - nz dA' - nz dB' = n - nz dA - nz dB
    rw [u1.1, u2.1]; omega
  · exact (Yuiv.C03Uct.snf_counts_unique q _ dA' dB hA' m1).2.2

/-! ### a limit of the reference (documents the hypothesis `≤ 64`) -/

/-- `KhRef.setBit x i false` clears bit `i` through a 64-bit mask, so it also drops every bit of `x` above 63: labellings
of more than 64 circles are not handled by the reference cube (never reached in practice: 2⁶⁴ generators) -/
theorem setBit_high_bits_lost : setBit (2 ^ 70 + 8) 3 false = 0 ∧ setBit (2 ^ 70 + 8) 3 true = 2 ^ 70 + 8 := by
  decide


/-! ### non-vacuity: trefoil `[[1,4,2,5],[3,6,4,1],[5,2,6,3]]` and Hopf link `[[4,1,3,2],[2,3,1,4]]` -/

section Examples
open Yuiv.C02Mirror.Ex

/-- the two diagrams are the translations of the PD codes, valid, with all signs negative -/
example : toKh (C18.fromPD [[1,4,2,5],[3,6,4,1],[5,2,6,3]]) = trefoil ∧ toKh (C18.fromPD [[4,1,3,2],[2,3,1,4]]) = hopf ∧
    C18.Valid (C18.fromPD [[1,4,2,5],[3,6,4,1],[5,2,6,3]]) ∧ C18.Valid (C18.fromPD [[4,1,3,2],[2,3,1,4]]) :=
  ⟨rfl, rfl, by decide, by decide⟩

/-- the hypotheses of the duality theorems hold: every edge of the two cubes is a merge or a split, ≤ 64 labels -/
example : cubeOK (mkCube trefoil p0) ∧ (edgeLabels trefoil).size ≤ 64 ∧ cubeOK (mkCube hopf p0) ∧
    (edgeLabels hopf).size ≤ 64 ∧ p0.h = 0 ∧ p0.reduced = false :=
  ⟨trefoil_ok, trefoil_labels, hopf_ok, hopf_labels, rfl, rfl⟩

/-- … and therefore for the mirror images (by the theorem, not by evaluation) -/
example : cubeOK (mkCube (mirror trefoil) p0) ∧ cubeOK (mkCube (mirror hopf) p0) :=
  ⟨(mirror_cube_ok trefoil p0 rfl trefoil_ok).1, (mirror_cube_ok hopf p0 rfl hopf_ok).1⟩

/-- state correspondence evaluated: state `101` of the trefoil (one circle) ↔ state `010` of its mirror -/
example : compl 3 5 = 2 ∧ (mkCube (mirror trefoil) p0).circ[2]! = (mkCube trefoil p0).circ[5]! :=
  ⟨by decide, (mirror_state_circles trefoil p0 5 (by decide)).2.2.2.2.1⟩

/-- a non-trivial instance of `mirror_d_transpose`, both sides evaluated: in the trefoil `d(X⊗X⊗1) ∋ +1·(X⊗X)` along
edge 1 of state `000`; in the mirror the dual coefficient is `−1 = σ(000)·σ(010)·(+1)` -/
example : dCoef (mkCube trefoil p0) p0 ⟨0, 3⟩ ⟨2, 3⟩ = 1 ∧
    ((dualGen (mkCube trefoil p0) ⟨0, 3⟩).s = 7 ∧ (dualGen (mkCube trefoil p0) ⟨0, 3⟩).mask = 4) ∧
    ((dualGen (mkCube trefoil p0) ⟨2, 3⟩).s = 5 ∧ (dualGen (mkCube trefoil p0) ⟨2, 3⟩).mask = 0) ∧
    dCoef (mkCube (mirror trefoil) p0) p0 ⟨5, 0⟩ ⟨7, 4⟩ = -1 ∧ sigma 3 0 * sigma 3 2 = -1 := by
  rw [mkCube_eq_cubeWith _ _ rfl, mkCube_eq_cubeWith _ _ rfl, edgeLabels_trefoil, edgeLabels_mirror_trefoil]
  decide +kernel

/-- the same instance through the theorem -/
example : dCoef (mkCube (mirror trefoil) p0) p0 (dualGen (mkCube trefoil p0) ⟨2, 3⟩) (dualGen (mkCube trefoil p0) ⟨0, 3⟩)
    = sigma 3 0 * sigma 3 2 * dCoef (mkCube trefoil p0) p0 ⟨0, 3⟩ ⟨2, 3⟩ :=
  mirror_d_transpose trefoil p0 rfl rfl trefoil_labels trefoil_ok ⟨0, 3⟩ ⟨2, 3⟩ (tSrc_gen 0) (tTgt_gen 1)

/-- Hopf link: a split edge `11 → …` does not exist, but `00 → 01` is a merge; its dual is a split of the mirror -/
example : dCoef (mkCube hopf p0) p0 ⟨0, 1⟩ ⟨1, 1⟩ = 1 ∧
    dCoef (mkCube (mirror hopf) p0) p0 (dualGen (mkCube hopf p0) ⟨1, 1⟩) (dualGen (mkCube hopf p0) ⟨0, 1⟩)
      = sigma 2 0 * sigma 2 1 * 1 := by
  constructor
  · rw [mkCube_eq_cubeWith _ _ rfl, edgeLabels_hopf]
    decide +kernel
  · have h : dCoef (mkCube hopf p0) p0 ⟨0, 1⟩ ⟨1, 1⟩ = 1 := by
      rw [mkCube_eq_cubeWith _ _ rfl, edgeLabels_hopf]
      decide +kernel
    rw [← h]
    refine mirror_d_transpose hopf p0 rfl rfl hopf_labels hopf_ok ⟨0, 1⟩ ⟨1, 1⟩ ?_ ?_ <;>
      (rw [mkCube_eq_cubeWith _ _ rfl, edgeLabels_hopf]; decide +kernel)

/-- THE ℤ/2 OF THE TREFOIL MOVES AS THE RULE SAYS.  Left-handed trefoil (`n₋ = 3`): `tSrc` / `tTgt` are the generators of
bidegrees `(−3,−7)` / `(−2,−7)`, the differential between them has Smith form `diag(1,1,2)` — torsion `ℤ/2` in the cell
`(−2,−7)` of `l`.  `mirror_rule_cells` (with `G0 = ∅`, `G1 = tSrc`, `G2 = tTgt`) gives for the mirror, at the duals of
`tSrc` (bidegree `(3,7)`), the cell `⟨0, [2]⟩`: torsion `(−2,−7) ↦ (3,7) = (1−(−2), 7)`, and free rank `0` as in `(−3,−7)` -/
example :
    EquivDiag (dMatrix (mkCube (mirror trefoil) p0) p0 (fun i => dualGen (mkCube trefoil p0) (tTgt i))
      (fun i => dualGen (mkCube trefoil p0) (tSrc i))) [1, 1, 2] ∧
    cellOf 3 [1, 1, 2] [] = ⟨0, [2]⟩ ∧ (cellOf 3 [] [1, 1, 2]).rank = 0 ∧ (cellOf 3 [1, 1, 2] []).tors = [2] :=
  ⟨(mirror_rule_cells trefoil p0 rfl rfl trefoil_labels trefoil_ok tNil tSrc tTgt (fun i => i.elim0) tSrc_gen tTgt_gen
      [] [1, 1, 2] tNil_snf tB_snf).1, by decide, by decide, by decide⟩

/-- the bidegrees used above, evaluated (`h0 = −3`, `q0 = −6` for the left-handed trefoil; `h0' = 0`, `q0' = 3` for its
mirror): `tSrc` in `(−3,−7)`, `tTgt` in `(−2,−7)`, dual of `tSrc 0` in `(3, 7)` -/
example : (∀ i, (-3 + (popcount (tSrc i).s 3 : Int) = -3) ∧ (mkCube trefoil p0).qDeg (-6) (tSrc i) = -7) ∧
    (∀ i, (-3 + (popcount (tTgt i).s 3 : Int) = -2) ∧ (mkCube trefoil p0).qDeg (-6) (tTgt i) = -7) ∧
    (mkCube (mirror trefoil) p0).qDeg 3 (dualGen (mkCube trefoil p0) (tSrc 0)) = 7 := by
  refine ⟨tSrc_deg, tTgt_deg, ?_⟩
  have := (mirror_degrees_shifts trefoil p0 rfl (tSrc 0) (tSrc_gen 0) 0 3 (by decide)).2
  have h := (tSrc_deg 0).2
  simp only [p0, Bool.false_eq_true, if_false] at this h ⊢
  norm_num at this
  rw [this, h]
  rfl

/-- corner cases.  A kink (`X[1,2,2,1]`, unknot) satisfies the hypotheses, so the duality covers it; the code `X[1,2,1,2]`
is valid in the sense of C18 (every label twice) but not planar: both smoothings have ONE circle, `cubeOK` fails and
the reference's `Cube.d` itself returns `none` (`Failure.malformed`) — `cubeOK` cannot be derived from validity -/
example : (cubeOK (mkCube kink p0) ∧ (edgeLabels kink).size ≤ 64) ∧
    (¬ cubeOK (mkCube virt p0) ∧ (mkCube virt p0).d p0 ⟨0, 0⟩ = none) ∧ C18.Valid (C18.fromPD [[1,2,1,2]]) ∧
    toKh (C18.fromPD [[1,2,1,2]]) = virt :=
  ⟨kink_ok, virt_not_ok, by decide, rfl⟩

end Examples

end Yuiv.C02Mirror
