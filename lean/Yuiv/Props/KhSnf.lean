import Yuiv.Proofs.KhSnfEx
import Yuiv.Proofs.KhSnfF2
/-
KhSnf — THE INTEGER LINEAR ALGEBRA OF THE REFERENCE IS VERIFIED: `KhRef.smithInvariants` (now a total definition:
`unitLoop` + `denseDiag` = `denseLoop`/`levelLoop`/`pivotStep`/`findPivot`, all by structural recursion on fuel)
returns a Smith normal form of the matrix represented by its sparse rows, and `KhRef.homologyOf` reports the cells
`cellOf` of `Proofs/C03Uct`.  Property theorems only; proofs in `Proofs/KhSnfDefs, KhSnfRows, KhSnfMat, KhSnfGInv,
KhSnfUnit, KhSnfUnitPhase, KhSnfDense, KhSnfDensePhase, KhSnfChain, KhSnfTrans, KhSnfMain, KhSnfHom, KhSnfHomSpec,
KhSnfEx` (and `KhSnfF2` for `C19.rankF2`).

VOCABULARY.  `rval r c` = value of the sparse row `r` at column `c`; `RowOK n r` (decidable) = strictly increasing
columns `< n`, no zero value; `matOf n rows : Matrix (Fin rows.size) (Fin n) ℤ`; `EquivDiag A d` (C03Uct) =
`P·A·Q = rectDiag d` with unimodular `P`, `Q`; `diagOf (r, d)` = `r − |d|` ones followed by `d`.

MAIN STATEMENT (`smithInvariants_correct`): for well-formed rows, `smithInvariants rows = (r, d)` satisfies
`|d| ≤ r`, `EquivDiag (matOf n rows) (1,…,1, d₁,…,d_k)` with `r − k` ones, every `dᵢ > 1` (POSITIVE, not only `≠ 1`:
the dense phase records absolute values and `chain` takes gcds/lcms of positive numbers), and `d₁ ∣ d₂ ∣ … ∣ d_k`.
So `snf_counts_unique`, `uct_count_fp`, `mirror_rule_cells`, … apply to what the reference actually computes.

METHOD.  An invariant `GInv` ("the original matrix is unimodularly equivalent to: `units` unit pivots alone in their
rows/columns, plus a copy of the live matrix, plus zeros") with an API of elementary moves (row operations, column
operations, re-indexing/dropping zero rows and columns, peeling a unit pivot, final diagonal); the unit-pivot phase and
every round of the dense phase are compositions of such moves; the fuel of `levelLoop` (absolute value of the first
pivot of the level) is never exhausted because every unclean round leaves a non-zero remainder of smaller absolute
value than its pivot.  Soundness of the unit phase does not depend on its fuel.

WHAT IS STILL ASSUMED (per instance, decidable): the rows handed to `smithInvariants` are `RowOK`.  `homologyOf` builds
them with `normalizeRow`, which sorts with `Array.qsort`; sortedness of `qsort` is not verified (only that it
permutes), so `homologyOf_spec` carries the hypothesis `RowsOK` — a cheap check a driver can evaluate.
FINDING (reference only, harmless): `rowAxpy a 0 b` can create zero entries (`rowAxpy_zero_defect`); it is only ever
called with a non-zero factor.
-/
namespace Yuiv.KhSnf
open Yuiv Yuiv.KhRef Matrix Yuiv.C03Uct Yuiv.C03

/-! ### sparse rows -/

/-- `rowGet` (binary search, a `while` loop with early return) returns the value of a well-formed row -/
theorem rowGet_spec (n : Nat) (r : Row) (j : Nat) (h : RowOK n r) : rowGet r j = rval r j := rowGetSpec n r j h

/-- `rowAxpy a k b = a + k·b` (sorted merge, a `while` loop), well-formed for `k ≠ 0` -/
theorem rowAxpy_spec (n : Nat) (a b : Row) (k : Int) (hk : k ≠ 0) (ha : RowOK n a) (hb : RowOK n b) :
    RowOK n (rowAxpy a k b) ∧ ∀ c, rval (rowAxpy a k b) c = rval a c + k * rval b c :=
  rowAxpySpec' n a b k hk ha hb

/-- the values are right for every `k` and all rows -/
theorem rowAxpy_value (a : Row) (k : Int) (b : Row) (c : Nat) : rval (rowAxpy a k b) c = rval a c + k * rval b c :=
  rval_rowAxpy a k b c

/-- … but for `k = 0` the result may contain explicit zeros (`rowAxpy #[] 0 #[(0,1)] = #[(0,0)]`): the two branches
that copy `k·b` do not test for zero.  The reference calls it with `k = −(a·u)`, `a ≠ 0`, `u = ±1` only. -/
theorem rowAxpy_zero_defect : ¬ RowAxpySpec := not_rowAxpySpec

/-! ### the phases -/

/-- the unit-pivot phase preserves the elimination invariant, whatever the fuel -/
theorem unit_phase_invariant {m n : Nat} {A : Matrix (Fin m) (Fin n) ℤ} (fuel : Nat) (rows : Array Row) (units : Nat)
    (hok : ∀ r ∈ rows.toList, RowOK n r) (hG : GInv m n A rows.size n (rowsFn rows) units) :
    (∀ r ∈ (unitLoop fuel rows units).1.toList, RowOK n r) ∧
    GInv m n A (unitLoop fuel rows units).1.size n (rowsFn (unitLoop fuel rows units).1) (unitLoop fuel rows units).2 :=
  unitLoop_ginv rowGetSpec rowAxpySpec' fuel rows units hok hG

/-- every round removes a row, so `unitLoop` with fuel `rows.size` reaches a matrix without unit entries -/
theorem unit_step_decreases (rows next : Array Row) (h : unitStep rows = some next) : next.size < rows.size :=
  unitStep_size rows next h

/-- the dense phase: the diagonal of `denseDiag` (all entries positive) completes the unit pivots to a diagonal form;
in particular the fuel of its loops is sufficient -/
theorem dense_phase_correct {m n : Nat} {A : Matrix (Fin m) (Fin n) ℤ} {mr nc units : Nat} {a0 : Array (Array Int)}
    (hS : Shape a0 mr nc) (hG : GInv m n A mr nc (afn a0) units) :
    EquivDiag A (List.replicate units 1 ++ (denseDiag a0).toList) ∧ ∀ x ∈ (denseDiag a0).toList, 0 < x :=
  denseDiag_equivDiag hS hG

/-- `chain` keeps the diagonal form (gcd/lcm steps are unimodular) and produces a divisibility chain -/
theorem chain_correct {m n : Nat} {A : Matrix (Fin m) (Fin n) ℤ} (pre : List Int) (d : Array Int)
    (h : EquivDiag A (pre ++ d.toList)) :
    EquivDiag A (pre ++ (chain d).toList) ∧ (chain d).size = d.size ∧
    ∀ i j, i < j → j < d.size → (chain d).toList.getD i 0 ∣ (chain d).toList.getD j 0 :=
  ⟨equivDiag_chain pre d h, chain_size d, chain_dvd' d⟩

/-! ### the main theorem -/

/-- `smithInvariants` RETURNS A SMITH NORMAL FORM -/
theorem smithInvariants_correct (n : Nat) (rows : Array Row) (hok : ∀ r ∈ rows.toList, RowOK n r) :
    (smithInvariants rows).2.size ≤ (smithInvariants rows).1 ∧
    EquivDiag (matOf n rows)
      (List.replicate ((smithInvariants rows).1 - (smithInvariants rows).2.size) 1 ++ (smithInvariants rows).2.toList) ∧
    (∀ x ∈ (smithInvariants rows).2.toList, 1 < x) ∧
    (smithInvariants rows).2.toList.Pairwise (fun x y => x ∣ y) :=
  smithInvariants_spec n rows hok

/-- the first component is the rank over ℚ -/
theorem smithInvariants_rank_rat (n : Nat) (rows : Array Row) (hok : ∀ r ∈ rows.toList, RowOK n r) :
    ((matOf n rows).map (Int.castRingHom ℚ)).rank = (smithInvariants rows).1 := by
  rw [rank_rat_of_equivDiag _ _ (equivDiag_smith n rows hok)]
  exact nz_diagOf (invOK_smith n rows hok)

/-- `rankOver (Fp p)` of the result is the rank of the matrix reduced mod `p` -/
theorem smithInvariants_rank_fp (p : ℕ) [hp : Fact p.Prime] (n : Nat) (rows : Array Row)
    (hok : ∀ r ∈ rows.toList, RowOK n r) :
    ((matOf n rows).map (Int.castRingHom (ZMod p))).rank = rankOver (.Fp p) (smithInvariants rows) := by
  rw [rank_zmod_of_equivDiag p _ _ (equivDiag_smith n rows hok)]
  exact ndiv_diagOf (invOK_smith n rows hok) p hp.out.two_le

/-! ### `homologyOf` -/

/-- `homologyOf` is, position by position, `groupAt` (loop-free form) -/
theorem homologyOf_functional (k : Coeff) (gens : Array (Array Gen)) (d : Gen → Array Term) :
    homologyOf k gens d = ((List.range gens.size).map (groupAt k gens d)).toArray :=
  homologyOf_eq k gens d

/-- WHAT `homologyOf` REPORTS: there are diagonal forms `dIn`, `dOut` of the matrices of the incoming and the outgoing
differential (as built by `homologyOf`: rows = generators of the source degree; the transposed statement for the incoming
one is included; `[]` at the ends of the complex) such that the group at position `i` is `cellOf n dIn dOut` over ℤ
(rank `n − rk − rk`, torsion = the invariant factors `> 1` of the incoming differential), has rank `n − nz dIn − nz dOut`
over ℚ and `n − ndiv p dIn − ndiv p dOut` over `𝔽_p` — the quantities of `uct_rank_rat`, `uct_count_fp`,
`dimFp_formula`, `rankQ_formula` (which need `B·A = 0` in addition) -/
theorem homologyOf_spec (gens : Array (Array Gen)) (d : Gen → Array Term) (hok : RowsOK gens d) (i : Nat)
    (hi : i < gens.size) :
    ∃ dIn dOut : List ℤ,
      (if i + 1 < gens.size then EquivDiag (matOf (gens[i + 1]!).size (rowsAt gens d i)) dOut else dOut = []) ∧
      (if 0 < i then EquivDiag (matOf (gens[i]!).size (rowsAt gens d (i - 1))) dIn ∧
          EquivDiag (matOf (gens[i]!).size (rowsAt gens d (i - 1)))ᵀ dIn else dIn = []) ∧
      ((homologyOf .Z gens d)[i]!).rank = (cellOf (gens[i]!).size dIn dOut).rank ∧
      ((homologyOf .Z gens d)[i]!).tors.toList = (cellOf (gens[i]!).size dIn dOut).tors ∧
      ((homologyOf .Q gens d)[i]!).rank = (gens[i]!).size - nz dIn - nz dOut ∧
      ((homologyOf .Q gens d)[i]!).tors = #[] ∧
      ∀ p, 2 ≤ p → ((homologyOf (.Fp p) gens d)[i]!).rank = (gens[i]!).size - ndiv (p : ℤ) dIn - ndiv (p : ℤ) dOut ∧
        ((homologyOf (.Fp p) gens d)[i]!).tors = #[] :=
  homologyOf_spec' gens d hok i hi

/-! ### `C19.rankF2` -/

/-- the bitset elimination of the involutive reference (`C19.rankF2`: a hash map of pivots by leading bit, a `while`
loop per row) computes the rank over `𝔽₂` of the 0/1 matrix of its rows -/
theorem rankF2_correct (n : Nat) (rows : Array Nat) (h : ∀ r ∈ rows.toList, r < 2 ^ n) :
    Yuiv.C19.rankF2 rows = (bitMat n rows).rank :=
  rankF2_spec n rows h

/-! ### non-vacuity -/

/-- `diag(2, 6)`: rank 2, invariant factors 2, 6 — and the theorem gives `EquivDiag … [2, 6]` -/
example : (∀ r ∈ exRows.toList, RowOK 2 r) ∧ smithInvariants exRows = (2, #[2, 6]) ∧
    EquivDiag (matOf 2 exRows) [2, 6] := by
  refine ⟨exRows_ok, exRows_smith, ?_⟩
  have := (smithInvariants_correct 2 exRows exRows_ok).2.1
  rw [exRows_smith] at this
  exact this

/-- the dense phase and `chain` on concrete matrices (kernel evaluation of the new total definitions) -/
example : chain (denseDiag #[#[2, 0], #[0, 6]]) = #[2, 6] ∧ chain (denseDiag #[#[4, 6], #[6, 6]]) = #[2, 6] ∧
    denseDiag #[#[2, 4, 4], #[-6, 6, 12], #[10, 4, 16]] = #[2, 4, 78] ∧
    chain #[4, 6] = #[2, 12] := by
  decide +kernel

/-- `rankF2` on `{011, 101, 110}` (rank 2) and on the unit vectors (rank 3) -/
example : Yuiv.C19.rankF2 #[3, 5, 6] = 2 ∧ Yuiv.C19.rankF2 #[1, 2, 4] = 3 ∧ (bitMat 3 #[3, 5, 6]).rank = 2 :=
  ⟨rankF2_ex_356, rankF2_ex_124, by rw [← rankF2_spec 3 #[3, 5, 6] (by decide)]; exact rankF2_ex_356⟩

end Yuiv.KhSnf
