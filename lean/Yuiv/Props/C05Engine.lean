import Yuiv.Proofs.C05Engine
/-
C05 (the whole v2 engine) — property theorems about the executable model `Yuiv/Model/C05Engine.lean` of
`yui-khovanov/src/kh/internal/v2/tng_complex.rs` (the model the driver `yuivd_c05` runs for the `eg …` requests,
tied to the Rust code step by step by the engine stream of `harness/src/bin/c05.rs`).
Theorems only; definitions and lemmas are in `Yuiv/Proofs/C05Engine.lean`.

All statements are about the GRAPH layer `Cx E` for an ARBITRARY record `ops : EdgeOps E` of edge operations — in
particular for the instance `lcOps h t` (linear combinations of cobordisms over any coefficient type, parameters
`(h, t)`) that the driver uses: nothing about `ops` is assumed unless stated.

 (a) `eliminate`  : edge `l0 → l1` ↦ `d − c·a⁻¹·b` exactly for the pairs with `b : l0 → k1`, `c : k0 → l1`; nothing
                    else is touched; exactly the two pivots disappear; in ring notation the step IS `elimEntry` of
                    `Model/C05Deloop`, whose algebra (`Props/C05Deloop.eliminate_step`) therefore applies.
 (b) `deloop`     : factors as rename → (duplicate) → `deloop_with` with the dots of `C05Deloop.copyX / copyI`;
                    `deloop_with` glues exactly the dotted cap on incoming and the dotted cup on outgoing edges
                    and touches nothing else; the new keys shift the quantum degree by `∓1`.
 (c) `WF`         : keys unique, at most one edge per pair, every edge joins existing vertices of consecutive
                    homological degree, no zero label stored — holds for `init` and is preserved by EVERY script of
                    `append / deloop / eliminate / connect` steps.  PARTIAL w.r.t. the intended invariant: the clause
                    "source / target tangle of every cobordism term = tangle of the end vertices" is NOT proved
                    (it needs `Tng::connect` = symmetric difference of end points and functoriality of the
                    structural cobordism operations); it is evaluated per instance on both sides (`wf=` in every
                    reply: `Cx.wfCheck` in the driver, `validate()` in the harness).
 (d) `d ∘ d = 0`  : NOT proved for the model's vertex lists.  What is proved: `eliminate_is_elimEntry` identifies the
                    model's step with `Deloop.elimEntry`, for which `Props/C05Deloop.eliminate_step` (1×1 blocks) and
                    `eliminate_step_blocks` (arbitrary finite blocks of neighbours, matrix form) show that the reduced
                    neighbours still compose to zero.  Missing: the transport of the block statement to sums over
                    the model's vertex list, and that `lcOps` is a lawful (associative, bilinear) edge algebra.
                    `d ∘ d = 0` of every final complex is evaluated per script (`check_complex` on the library side,
                    homology of the model's matrices = library = cube of resolutions in the driver).
-/
namespace Yuiv.C05.Engine
open Yuiv Yuiv.C05 Yuiv.C05.Tng

/-! ### (a) Gaussian elimination -/

/-- `eliminate(k0, k1)` needs the edge `a : k0 → k1` and its inverse; then, between surviving vertices, the entry
`l0 → l1` is rewritten to `d − c·a⁻¹·b` (`−c·a⁻¹·b` when there was no edge; dropped when the result is zero)
exactly when both `b : l0 → k1` and `c : k0 → l1` exist and is left alone otherwise; no edge at a pivot survives. -/
theorem eliminate_rewrites_edges {E : Type} (ops : EdgeOps E) (cx cx' : Cx E) (k0 k1 : TKey) (hwf : WF ops cx)
    (h : cx.eliminate ops k0 k1 = .ok cx') :
    ∃ a ainv, cx.edge? k0 k1 = some a ∧ ops.inv a = .ok ainv ∧
      ∀ l0 l1 : TKey,
        ((isPivot k0 k1 l0 = true ∨ isPivot k0 k1 l1 = true) → cx'.edge? l0 l1 = none) ∧
        (isPivot k0 k1 l0 = false → isPivot k0 k1 l1 = false →
          (∀ b c, cx.edge? l0 k1 = some b → cx.edge? k0 l1 = some c →
            ∃ cab, ops.cab c ainv b = .ok cab ∧
              cx'.edge? l0 l1 =
                (let s := match cx.edge? l0 l1 with
                  | some d => ops.sub d cab
                  | none => ops.neg cab
                 if ops.isZero s then none else some s)) ∧
          ((cx.edge? l0 k1 = none ∨ cx.edge? k0 l1 = none) → cx'.edge? l0 l1 = cx.edge? l0 l1)) :=
  eliminate_edges ops cx cx' k0 k1 hwf.edges h

/-- exactly the two pivot vertices are removed; tangles of the others, degree shift, base point and dimension stay -/
theorem eliminate_removes_exactly_pivots {E : Type} (ops : EdgeOps E) (cx cx' : Cx E) (k0 k1 : TKey)
    (h : cx.eliminate ops k0 k1 = .ok cx') :
    cx'.verts = cx.verts.filter (fun v => !(v.1 = k0 || v.1 = k1)) ∧
    cx'.dh = cx.dh ∧ cx'.dq = cx.dq ∧ cx'.base = cx.base ∧ cx'.dim = cx.dim := by
  have := eliminate_verts ops cx cx' k0 k1 h
  simpa [isPivot] using this

/-- the Rust panics of `eliminate`: no edge `k0 → k1` (indexing the hash map), or `a.inv()` is `None` -/
theorem eliminate_panics {E : Type} (ops : EdgeOps E) (cx : Cx E) (k0 k1 : TKey) :
    (cx.edge? k0 k1 = none → cx.eliminate ops k0 k1 = .panic) ∧
    (∀ a, cx.edge? k0 k1 = some a → ops.inv a = .panic → cx.eliminate ops k0 k1 = .panic) := by
  refine ⟨fun h => ?_, fun a h hi => ?_⟩
  · simp [Cx.eliminate, Cx.edgeR, h]
  · simp [Cx.eliminate, Cx.edgeR, h, hi]

/-- **connection with `Model/C05Deloop`**: when the edge operations are written in ring notation
(`cab c a⁻¹ b = c * a⁻¹ * b`, `sub = −`, `neg = −`), the model's step computes, for every pair of surviving vertices,
exactly `Deloop.elimEntry` — the function about which `Props/C05Deloop.eliminate_step` proves that the reduced
neighbours still square to zero. -/
theorem eliminate_is_elimEntry {E : Type} [Mul E] [Sub E] [Neg E] (ops : EdgeOps E) (cx cx' : Cx E) (k0 k1 : TKey)
    (hwf : WF ops cx)
    (hcab : ∀ c ainv b, ops.cab c ainv b = .ok (c * ainv * b))
    (hsub : ∀ d x, ops.sub d x = d - x) (hneg : ∀ x, ops.neg x = -x)
    (h : cx.eliminate ops k0 k1 = .ok cx') :
    ∃ a ainv, cx.edge? k0 k1 = some a ∧ ops.inv a = .ok ainv ∧
      ∀ l0 l1 : TKey, isPivot k0 k1 l0 = false → isPivot k0 k1 l1 = false →
        cx'.edge? l0 l1 = Deloop.elimEntry ops.isZero ainv (cx.edge? l0 k1) (cx.edge? k0 l1) (cx.edge? l0 l1) := by
  obtain ⟨a, ainv, ha, hi, hall⟩ := eliminate_rewrites_edges ops cx cx' k0 k1 hwf h
  refine ⟨a, ainv, ha, hi, ?_⟩
  intro l0 l1 h0 h1
  obtain ⟨hsome, hnone⟩ := (hall l0 l1).2 h0 h1
  rcases hb : cx.edge? l0 k1 with _ | b
  · rw [hnone (.inl hb)]; rfl
  · rcases hc : cx.edge? k0 l1 with _ | c
    · rw [hnone (.inr hc)]; rfl
    · obtain ⟨cab, hcab', he⟩ := hsome b c hb hc
      rw [hcab c ainv b] at hcab'
      cases hcab'
      rw [he]
      unfold Deloop.elimEntry
      rcases hd : cx.edge? l0 l1 with _ | d <;> simp [hsub, hneg]

/-! ### (b) delooping -/

/-- `deloop(k, r)` = `rename_vertex_key(k, k·X)`, then (for a circle without the base point) `duplicate_vertex(k·X, k·1)`,
then one `deloop_with` per copy with exactly the dots of `C05Deloop.copyX` (birth `X`, death none) and
`C05Deloop.copyI` (birth none, death `Y`); the returned keys are `k·label` for `C05Deloop.deloopCopies based`.
The Rust panics (missing vertex, index out of range, not a circle) are the only other outcomes of the first tests. -/
theorem deloop_factors {E : Type} (ops : EdgeOps E) (cx cx' : Cx E) (k : TKey) (r : Nat) (upd : List TKey)
    (h : cx.deloop ops k r = .ok (upd, cx')) :
    ∃ t c, cx.tng? k = some t ∧ t[r]? = some c ∧ c.closed = true ∧
      upd = (Deloop.deloopCopies (cx.containsBase c)).map (fun cp => k.push cp.label) ∧
      ∃ c1, cx.renameKey k (k.push .X) = .ok c1 ∧
        (cx.containsBase c = true →
          c1.deloopWith ops (k.push .X) r (dotOf Deloop.copyX.birthDot) (dotOf Deloop.copyX.deathDot) = .ok cx') ∧
        (cx.containsBase c = false → ∃ c2 c3,
          c1.duplicateKey (k.push .X) (k.push .I) = .ok c2 ∧
          c2.deloopWith ops (k.push .X) r (dotOf Deloop.copyX.birthDot) (dotOf Deloop.copyX.deathDot) = .ok c3 ∧
          c3.deloopWith ops (k.push .I) r (dotOf Deloop.copyI.birthDot) (dotOf Deloop.copyI.deathDot) = .ok cx') := by
  unfold Cx.deloop at h
  rcases ht : cx.tng? k with _ | t
  · simp [ht] at h
  · simp only [ht] at h
    rcases hc : t[r]? with _ | c
    · simp [hc] at h
    · simp only [hc] at h
      by_cases hcl : c.closed = true
      · simp only [hcl, Bool.not_true, Bool.false_eq_true, if_false] at h
        refine ⟨t, c, (by first | rfl | exact ht), (by first | exact hc | rfl), hcl, ?_⟩
        rcases h1 : cx.renameKey k (k.push .X) with c1 | _ | _
        · simp only [h1] at h
          by_cases hb : cx.containsBase c = true
          · simp only [hb, if_true] at h
            rcases h2 : c1.deloopWith ops (k.push .X) r .X .none with c2 | _ | _
            · simp only [h2, Res.ok.injEq, Prod.mk.injEq] at h
              obtain ⟨rfl, rfl⟩ := h
              exact ⟨by simp [Deloop.deloopCopies, Deloop.copyX, hb], c1, rfl, fun _ => h2, fun hf => by simp [hb] at hf⟩
            · simp [h2] at h
            · simp [h2] at h
          · have hb' : cx.containsBase c = false := by simpa using hb
            simp only [hb', Bool.false_eq_true, if_false] at h
            rcases h2 : c1.duplicateKey (k.push .X) (k.push .I) with c2 | _ | _
            · simp only [h2] at h
              rcases h3 : c2.deloopWith ops (k.push .X) r .X .none with c3 | _ | _
              · simp only [h3] at h
                rcases h4 : c3.deloopWith ops (k.push .I) r .none .Y with c4 | _ | _
                · simp only [h4, Res.ok.injEq, Prod.mk.injEq] at h
                  obtain ⟨rfl, rfl⟩ := h
                  exact ⟨by simp [Deloop.deloopCopies, Deloop.copyX, Deloop.copyI, hb'], c1, rfl,
                    fun hf => by simp [hb'] at hf, fun _ => ⟨c2, c3, h2, h3, h4⟩⟩
                · simp [h4] at h
                · simp [h4] at h
              · simp [h3] at h
              · simp [h3] at h
            · simp [h2] at h
            · simp [h2] at h
        · simp [h1] at h
        · simp [h1] at h
      · simp [hcl] at h

/-- the vertices after `deloop(k, r)`: the old keys in their order with `k` renamed to `k·X`, followed by the extra
copy `k·1` for a circle without the base point (`upd.drop 1`); nothing else appears or disappears -/
theorem deloop_keys {E : Type} (ops : EdgeOps E) (cx cx' : Cx E) (k : TKey) (r : Nat) (upd : List TKey)
    (h : cx.deloop ops k r = .ok (upd, cx')) :
    cx'.verts.map (·.1) = (cx.verts.map (·.1)).map (renameFn k (k.push .X)) ++ upd.drop 1 := by
  obtain ⟨t, c, _, _, _, hupd, c1, h1, hb, hu⟩ := deloop_factors ops cx cx' k r upd h
  have k1 := renameKey_keys cx c1 k (k.push .X) h1
  by_cases hbase : cx.containsBase c = true
  · have := deloopWith_keys ops c1 cx' _ _ _ _ (hb hbase)
    rw [this, k1, hupd]
    simp [Deloop.deloopCopies, hbase]
  · have hbase' : cx.containsBase c = false := by simpa using hbase
    obtain ⟨c2, c3, h2, h3, h4⟩ := hu hbase'
    have e2 := duplicateKey_keys c1 c2 _ _ h2
    have e3 := deloopWith_keys ops c2 c3 _ _ _ _ h3
    have e4 := deloopWith_keys ops c3 cx' _ _ _ _ h4
    rw [e4, e3, e2, k1, hupd]
    simp [Deloop.deloopCopies, hbase', Deloop.copyI]

/-- what one `deloop_with(k, r, birth, death)` does: the circle `r` leaves the tangle of `k` (all other vertices
untouched); every edge INTO `k` is composed with the cap carrying `death`, every edge OUT OF `k` with the cup
carrying `birth` (`cap_off(…).part_eval(h, t)`; a zero result is dropped); every other edge is unchanged and no
edge is created. -/
theorem deloop_with_edges {E : Type} (ops : EdgeOps E) (cx cx' : Cx E) (k : TKey) (r : Nat) (birth death : Dot)
    (hwf : WF ops cx) (h : cx.deloopWith ops k r birth death = .ok cx') :
    ∃ t circ t', cx.tng? k = some t ∧ Tng.removeAt t r = .ok (circ, t') ∧
      cx'.verts = cx.verts.map (fun v => if v.1 = k then (v.1, t') else v) ∧
      ∀ a b : TKey,
        (cx.edge? a b = none → cx'.edge? a b = none) ∧
        (∀ f, cx.edge? a b = some f →
          (b = k → ∃ g, ops.capOff .tgt circ death f = .ok g ∧
            cx'.edge? a b = if ops.isZero g then none else some g) ∧
          (b ≠ k → a = k → ∃ g, ops.capOff .src circ birth f = .ok g ∧
            cx'.edge? a b = if ops.isZero g then none else some g) ∧
          (b ≠ k → a ≠ k → cx'.edge? a b = some f)) :=
  deloopWith_edges ops cx cx' k r birth death hwf.edges h

/-- the two new keys sit in the same homological degree as `k`; their quantum degrees are `q(k) − 1` (copy `X`) and
`q(k) + 1` (copy `1`), the degree shifts for which `Props/C05Deloop.deloop_degrees` shows the four maps to have degree 0 -/
theorem deloop_key_degrees (k : TKey) :
    (k.push .X).weight = k.weight ∧ (k.push .I).weight = k.weight ∧
    (k.push .X).qRel = k.qRel - 1 ∧ (k.push .I).qRel = k.qRel + 1 := by
  refine ⟨rfl, rfl, ?_, ?_⟩
  · rw [qRel_push]; simp only [Deloop.AlgGen.qShift, Deloop.AlgGen.deg]; omega
  · rw [qRel_push]; simp only [Deloop.AlgGen.qShift, Deloop.AlgGen.deg]; omega

/-! ### (c) well-formedness over any script -/

/-- `TngComplex::init` is well formed -/
theorem wf_of_init {E : Type} (ops : EdgeOps E) (dh dq : Int) (base : Option Nat) :
    WF ops (Cx.init dh dq base : Cx E) := wf_init ops dh dq base

/-- every single operation of the engine preserves `WF` (each for arbitrary arguments, whenever it does not panic) -/
theorem wf_preserved_by_each_operation_partial {E : Type} (ops : EdgeOps E) (mkSdl : CobComp → E) (cx cx' : Cx E)
    (hwf : WF ops cx) :
    (∀ ct e, cx.appendX ops mkSdl ct e = .ok cx' → WF ops cx') ∧
    (∀ other, WF ops other → cx.connect ops other = .ok cx' → WF ops cx') ∧
    (∀ k r upd, cx.deloop ops k r = .ok (upd, cx') → WF ops cx') ∧
    (∀ k0 k1, cx.eliminate ops k0 k1 = .ok cx' → WF ops cx') :=
  ⟨fun ct e h => wf_appendX ops mkSdl cx cx' ct e hwf h,
   fun o ho h => wf_connect ops cx o cx' hwf ho h,
   fun k r upd h => wf_deloop ops cx cx' k r upd hwf h,
   fun k0 k1 h => wf_eliminate ops cx cx' k0 k1 hwf h⟩

/-- **`WF` over ANY script** (induction over the step list): starting from a well-formed complex — e.g. `init` —
every script of `append` / `deloop` / `eliminate` / `connect` steps (connecting only with well-formed complexes,
e.g. ones produced by scripts themselves) that runs without panic ends in a well-formed complex.
`_partial`: `WF` lacks the clause about boundary tangles (see the header). -/
theorem wf_preserved_by_script_partial {E : Type} (ops : EdgeOps E) (mkSdl : CobComp → E) (steps : List (Step E))
    (cx cx' : Cx E) (hwf : WF ops cx) (hcon : ∀ o, Step.con o ∈ steps → WF ops o)
    (h : runScript ops mkSdl steps cx = .ok cx') : WF ops cx' := by
  unfold runScript at h
  refine foldRes_inv (WF ops) _ steps ?_ cx cx' hwf h
  intro b st b' hst hb hstep
  exact wf_applyStep ops mkSdl b b' st hb (fun o ho => hcon o (ho ▸ hst)) hstep

/-- the same from `init`, for the real engine instance over ℤ with any parameters `(h, t)` -/
theorem wf_of_engine_script_partial (h t : Int) (dh dq : Int) (base : Option Nat) (steps : List (Step (LcCob Int)))
    (cx' : Cx (LcCob Int)) (hcon : ∀ o, Step.con o ∈ steps → WF (lcOps h t) o)
    (hrun : runScript (lcOps h t) mkSdlLc steps (Cx.init dh dq base) = .ok cx') : WF (lcOps h t) cx' :=
  wf_preserved_by_script_partial (lcOps h t) mkSdlLc steps _ cx' (wf_init _ dh dq base) hcon hrun

/-! ### non-vacuity: a toy edge algebra over ℤ and a square with an invertible edge -/

example : WF toyOps toySquare := ⟨by decide, by decide, by decide, by decide, by decide⟩

/-- eliminating `A → B` leaves `C → D` with `d − c·a⁻¹·b = −1 − 2·1·… ` … here: no edge `C → B`, so untouched -/
example : (toySquare.eliminate toyOps kA kB).isOk = true := by decide

example : ∃ cx', toySquare.eliminate toyOps kA kB = .ok cx' ∧ cx'.verts.map (·.1) = [kC, kD] ∧
    cx'.edge? kC kD = some (-1) := by
  refine ⟨_, rfl, by decide, by decide⟩

/-- `toyZ`: a pivot with neighbours on both sides: `u → k1` (b = 3), `k0 → w` (c = 5), `u → w` (d = 7), `a = −1`:
the new entry is `7 − 5·(−1)·3 = 22` -/
example : WF toyOps toyZ := ⟨by decide, by decide, by decide, by decide, by decide⟩

example : ∃ cx', toyZ.eliminate toyOps ⟨[false], [.X]⟩ ⟨[true], [.X]⟩ = .ok cx' ∧
    cx'.edge? ⟨[false], [.I]⟩ ⟨[true], [.I]⟩ = some 22 ∧ cx'.verts.length = 2 := by
  refine ⟨_, rfl, by decide, by decide⟩

/-- a script on the toy algebra that runs: eliminate, then connect with a one-vertex complex -/
example : (runScript toyOps (fun _ => 1) [.el ⟨[false], [.X]⟩ ⟨[true], [.X]⟩, .con (Cx.init 0 0 none)] toyZ).isOk = true := by
  decide

/-- the real engine instance: appending the crossing `X[0,1,2,3]` to `init` over ℤ with `(h, t) = (0, 0)` gives the
two-vertex complex with one (saddle) edge -/
example : (match (Cx.init 0 0 none : Cx (LcCob Int)).appendX (lcOps 0 0) mkSdlLc .X #[0, 1, 2, 3] with
    | .ok cx' => cx'.verts.length == 2 && cx'.edges.length == 1 && cx'.wfCheck
    | _ => false) = true := by
  decide +kernel

end Yuiv.C05.Engine
