import Yuiv.Proofs.C19ConeSq
import Yuiv.Proofs.C19ConeEx
import Yuiv.Props.C19Comm
import Yuiv.Props.C01Sq
/-
C19 (extension) — THE REFERENCE CONE OF `1 + τ` IS A CHAIN COMPLEX, with `d∘d = 0` no longer a hypothesis.

`Props/C19Comm.icube_cone_is_complex` needs `d∘d = 0 (mod 2)` of the cube at `g` in the count form
`∀ z, count z ((dK g).flatMap dK) % 2 = 0`.  Here it is discharged from `Props/C01Sq.khref_d_squared_zero` (integer
coefficients, the driver's `dOfChain … = some []`): a zero integer coefficient of `d (d g)` is an even number of pairs of
odd-coefficient terms (`khref_dsq_mod2`).

Setting: `mkICube l p = some ic`.  Its cube is the cube of the link with the base point of the involutive link
(`Props/C19Comm.mkicube_tst_is_tstate`), so in the REDUCED theory it is based at `l.base` (on the axis), not at the base
edge of `mkCube` — the reduced statement therefore goes through `C01Sq.d_squared_zero_reduced_of` for an arbitrary base
edge that is a label.  As found in `Props/C01Sq`: the reduced reference is a complex only for `t = 0` (`X·X = hX + t`); for
`t = 1` neither the cube nor the cone is (`example` at the end; `khiHomology` answers `notComplex`, the harness requests
the reduced theory with `t = 0` only).

  * `khref_dsq_mod2`                       integer `d (d g) = 0`  ⇒  count form mod 2 (any cube);
  * `icube_d_squared_even`                 `d∘d = 0 (mod 2)` on the cube of `mkICube` (unreduced all `h,t`; reduced `t = 0`);
  * `icube_cone_is_complex_valid`          unreduced, all `(h, t)`: `D∘D = 0 (mod 2)` at `Bg`, `Qg`;
  * `icube_cone_is_complex_valid_reduced`  reduced, `t = 0`, base point a label, `g` with base circle `X`;
  * `icube_cone_matrix_valid`              the matrix form through `Props/C19.cone_d_sq`;
  * `khi_instance_ok_sound`                ONE decidable check `khiInstanceOk l p` (`Proofs/C19ConeDefs.lean`, Mathlib-free)
        ⇒ `mkICube` succeeds, and on every generator: τ is an involution, preserves the homological and the quantum degree
        and the reduced sub-complex, is a chain map, maps edges along `k` to edges along `π k`, and the cone is a complex.
Per-instance (decidable, evaluated not proved): `validK`, at most 64 labels, `cubeOK`, `icubeWf'`, `piInvolB`.
-/
namespace Yuiv.C19Cone
open Yuiv Yuiv.KhRef Yuiv.C19 Yuiv.C06Cycle Yuiv.C19Inv Yuiv.C19Comm Matrix

/-! ### `d∘d = 0` mod 2 -/

/-- reduction mod 2 of the integer statement: if `d g` is defined and the driver's evaluation of `d` on the chain `d g`
is the zero chain, every generator occurs an even number of times in `(dK g).flatMap dK` (`dK` = targets of the terms with
odd coefficient) -/
theorem khref_dsq_mod2 (c : Cube) (p : Params) (g : Gen) (ts : Array Term) (hd : c.d p g = some ts)
    (hz : Yuiv.Drv.C06.dOfChain c p ts.toList = some []) (z : Gen) :
    ((dK c p g).flatMap (dK c p)).count z % 2 = 0 :=
  dsq_even_of_dOfChain c p g ts hd hz z

/-- `d∘d = 0 (mod 2)` on the cube of `mkICube`: unreduced for all `h`, `t`; reduced (`redOk`: `t = 0` and the base point is an
edge label, or there is no base point) on the generators whose base circle is labelled `X` (`baseKeep`, vacuous when
unreduced) -/
theorem icube_d_squared_even (l : InvLink) (p : Params) (ic : ICube) (hic : mkICube l p = some ic)
    (hv : validK l.link = true) (hL : (edgeLabels l.link).size ≤ 64) (hok : C02Mirror.cubeOK ic.cube)
    (hred : redOk l p = true) (g : Gen) (hs : g.s < 2 ^ ic.cube.n) (hg : baseKeep ic.cube g = true) (z : Gen) :
    ((dK ic.cube p g).flatMap (dK ic.cube p)).count z % 2 = 0 :=
  icube_dsq_even l p ic hic hv hL hok hred g hs hg z

/-! ### the cone is a complex -/

/-- UNREDUCED theory, all `(h, t)`: for a valid diagram with at most 64 labels whose cube has only merge/split edges, under
the τ-check `icubeWf'`, the cone of `1 + τ` satisfies `D∘D = 0 (mod 2)` at `Bg` and `Qg` for every generator `g` -/
theorem icube_cone_is_complex_valid (l : InvLink) (p : Params) (hr : p.reduced = false) (ic : ICube)
    (hic : mkICube l p = some ic) (hv : validK l.link = true) (hL : (edgeLabels l.link).size ≤ 64)
    (hok : C02Mirror.cubeOK (mkCube l.link p)) (F : Array Nat → Array Nat) (hwf : icubeWf' F ic = true)
    (g : Gen) (hs : g.s < 2 ^ ic.cube.n) (b : Bool) (z : IGen) :
    ((dI ic p (b, g)).flatMap (dI ic p)).count z % 2 = 0 := by
  obtain ⟨hc, _⟩ := mkICube_tst l p ic hic
  have hb : ic.cube.base = none := by rw [hc]; simp [icCube, hr]
  have hok' : C02Mirror.cubeOK ic.cube := by rw [hc]; exact hok
  have hred : redOk l p = true := by simp [redOk, hr]
  exact icube_cone_is_complex F ic hwf p g hs
    (icube_dsq_even l p ic hic hv hL hok' hred g hs (baseKeep_of_base_none _ hb g)) b z

/-- REDUCED theory, `t = 0` (any `h`), based at the on-axis point `l.base = some e`, `e` an edge label: the same for the
generators of the reduced complex (base circle labelled `X`) -/
theorem icube_cone_is_complex_valid_reduced (l : InvLink) (p : Params) (ht : p.t = 0) (e : Nat) (hbase : l.base = some e)
    (he : e ∈ edgeLabels l.link) (ic : ICube)
    (hic : mkICube l p = some ic) (hv : validK l.link = true) (hL : (edgeLabels l.link).size ≤ 64)
    (hok : C02Mirror.cubeOK (mkCube l.link p)) (F : Array Nat → Array Nat) (hwf : icubeWf' F ic = true)
    (g : Gen) (hs : g.s < 2 ^ ic.cube.n) (hg : baseKeep ic.cube g = true) (b : Bool) (z : IGen) :
    ((dI ic p (b, g)).flatMap (dI ic p)).count z % 2 = 0 := by
  obtain ⟨hc, _⟩ := mkICube_tst l p ic hic
  have hok' : C02Mirror.cubeOK ic.cube := by rw [hc]; exact hok
  have hred : redOk l p = true := by
    unfold redOk
    rw [hbase]
    simp [ht, he]
  exact icube_cone_is_complex F ic hwf p g hs (icube_dsq_even l p ic hic hv hL hok' hred g hs hg) b z

/-- THE MATRIX FORM through `cone_d_sq`: for a duplicate-free list of generators of the (reduced) complex closed under `d`
and `τ`, over any commutative ring of characteristic 2: `τ·d = d·τ` and `[[d, 0], [1 + τ, d]]² = 0` — `d·d = 0` is no longer
assumed -/
theorem icube_cone_matrix_valid {R : Type} [CommRing R] [CharP R 2] (l : InvLink) (p : Params) (ic : ICube)
    (hic : mkICube l p = some ic) (hv : validK l.link = true) (hL : (edgeLabels l.link).size ≤ 64)
    (hok : C02Mirror.cubeOK ic.cube) (hred : redOk l p = true) (F : Array Nat → Array Nat)
    (hwf : icubeWf' F ic = true) (gens : List Gen) (hnd : gens.Nodup)
    (hN : ∀ g ∈ gens, g.s < 2 ^ ic.cube.n ∧ baseKeep ic.cube g = true)
    (hcl : ∀ g ∈ gens, ∀ y ∈ dK ic.cube p g, y ∈ gens) (htau : ∀ g ∈ gens, ic.tau g ∈ gens) :
    tauMat R ic gens * dMat R ic.cube p gens = dMat R ic.cube p gens * tauMat R ic gens ∧
    (fromBlocks (dMat R ic.cube p gens) 0 (1 + tauMat R ic gens) (dMat R ic.cube p gens)) *
      (fromBlocks (dMat R ic.cube p gens) 0 (1 + tauMat R ic gens) (dMat R ic.cube p gens)) = 0 :=
  icube_cone_matrix_sq_zero F ic hwf p gens hnd (fun g hg => (hN g hg).1) hcl htau
    (fun g hg z => icube_dsq_even l p ic hic hv hL hok hred g (hN g hg).1 (hN g hg).2 z)

/-! ### one check for everything -/

/-- what `khiInstanceOk` consists of -/
theorem khi_instance_ok_meaning (l : InvLink) (p : Params) (h : khiInstanceOk l p = true) :
    validK l.link = true ∧ (edgeLabels l.link).size ≤ 64 ∧ piInvolB l = true ∧ redOk l p = true ∧
    ∃ ic, mkICube l p = some ic ∧ C02Mirror.cubeOK ic.cube ∧ icubeWf' (circImg l.invE) ic = true := by
  unfold khiInstanceOk at h
  simp only [Bool.and_eq_true, decide_eq_true_eq] at h
  obtain ⟨⟨⟨⟨h1, h2⟩, h3⟩, h4⟩, h5⟩ := h
  refine ⟨h1, h2, h3, h4, ?_⟩
  cases hm : mkICube l p with
  | none => rw [hm] at h5; cases h5
  | some ic =>
    rw [hm] at h5
    simp only [Bool.and_eq_true] at h5
    exact ⟨ic, rfl, cubeOKB_spec _ h5.1, h5.2⟩

/-- `khiInstanceOk l p` ⇒ THE REFERENCE INVOLUTIVE COMPLEX IS WHAT C19 SAYS: `mkICube` succeeds, and for every generator
`g` of the (reduced) complex — state below `2^n`, a labelling of the circles of that state, base circle labelled `X` —
 (1) `τ g` is again such a generator and `τ (τ g) = g`;
 (2) τ preserves the homological degree (weight of the state) and the quantum degree (any shift `q0`);
 (3) τ maps the cube edge along `k` to the cube edge along `π k` (`π` = `piOf l`, an involution of the positions);
 (4) τ is a chain map over 𝔽₂: the targets of `d (τ g)` are the τ-images of the targets of `d g`;
 (5) `d∘d = 0 (mod 2)` at `g`, and the cone of `1 + τ` is a complex: `D∘D = 0 (mod 2)` at `Bg` and `Qg`. -/
theorem khi_instance_ok_sound (l : InvLink) (p : Params) (h : khiInstanceOk l p = true) :
    ∃ ic, mkICube l p = some ic ∧ icubeWf ic = true ∧ ic.cube.n = crossingNum l.link ∧
    ∀ g : Gen, g.s < 2 ^ ic.cube.n → g.mask < 2 ^ (ic.cube.circ[g.s]!).size → baseKeep ic.cube g = true →
      ((ic.tau g).s < 2 ^ ic.cube.n ∧ (ic.tau g).mask < 2 ^ (ic.cube.circ[(ic.tau g).s]!).size ∧
        baseKeep ic.cube (ic.tau g) = true ∧ ic.tau (ic.tau g) = g) ∧
      (popcount (ic.tau g).s ic.cube.n = popcount g.s ic.cube.n ∧
        ∀ q0, ic.cube.qDeg q0 (ic.tau g) = ic.cube.qDeg q0 g) ∧
      (∀ k < ic.cube.n, g.s.testBit k = false →
        (piOf l k).getD 0 < ic.cube.n ∧ (ic.tau g).s.testBit ((piOf l k).getD 0) = false ∧
        ic.tst[g.s ||| 1 <<< k]! = (ic.tau g).s ||| 1 <<< ((piOf l k).getD 0)) ∧
      ((dK ic.cube p g).map ic.tau).Perm (dK ic.cube p (ic.tau g)) ∧
      (∀ z, ((dK ic.cube p g).flatMap (dK ic.cube p)).count z % 2 = 0) ∧
      (∀ b z, ((dI ic p (b, g)).flatMap (dI ic p)).count z % 2 = 0) := by
  obtain ⟨hv, hL, hpi, hred, ic, hic, hok, hwf'⟩ := khi_instance_ok_meaning l p h
  have hwf := wf'_wf _ ic hwf'
  obtain ⟨_, hn, hn', _⟩ := mkicube_tst_is_tstate l p ic hic
  refine ⟨ic, hic, hwf, hn.trans hn', ?_⟩
  intro g hs hm hg
  have ws := wf_spec ic hwf g.s hs
  have hdd := fun z => icube_dsq_even l p ic hic hv hL hok hred g hs hg z
  have hst := mkICube_states l p ic hic hpi g.s hs
  refine ⟨⟨ws.lt, ?_, ?_, icube_tau_involutive ic hwf g hs hm⟩,
    ⟨icube_tau_hdeg ic hwf g hs, fun q0 => icube_tau_qdeg ic hwf q0 g hs⟩, ?_,
    dK_comm _ ic hwf' p g hs, hdd, fun b z => icube_cone_is_complex _ ic hwf' p g hs hdd b z⟩
  · have wt := wf_spec ic hwf _ ws.lt
    have bI : ∀ i < (ic.cube.circ[g.s]!).size, (ic.tlab[ic.tst[g.s]!]!)[i]! < (ic.cube.circ[g.s]!).size ∧
        (ic.tlab[g.s]!)[(ic.tlab[ic.tst[g.s]!]!)[i]!]! = i := by
      have := wt.bij; rw [ws.inv, ws.circ] at this; exact this
    show (ic.tau g).mask < 2 ^ (ic.cube.circ[ic.tst[g.s]!]!).size
    rw [ws.circ]
    apply Nat.lt_pow_two_of_testBit
    intro j hj
    rw [tau_eq]
    simp only
    rw [tauMask_bit_of_inverse (ic.tlab[g.s]!) (ic.tlab[ic.tst[g.s]!]!) _ g.mask j ws.lab bI ws.bij]
    simp [show ¬ j < (ic.cube.circ[g.s]!).size by omega]
  · rw [baseKeep_tau ic hwf g hs]; exact hg
  · intro k hk hb
    obtain ⟨h1, h2, h3⟩ := hst.2.2.2 k hk hb
    exact ⟨h2, h1, h3⟩

/-! ### non-vacuity: the strongly invertible trefoil -/

set_option maxRecDepth 4000

/-- the check holds on the trefoil in the unreduced theory for all `(h, t)` and in the reduced theory for `t = 0`, and
rejects the reduced theory with `t = 1` -/
example (h t : Int) : khiInstanceOk tref ⟨h, t, false⟩ = true ∧ khiInstanceOk tref ⟨h, 0, true⟩ = true ∧
    khiInstanceOk tref ⟨0, 1, true⟩ = false :=
  ⟨tref_ok_unreduced h t, tref_ok_reduced h, tref_not_ok_reduced_t1⟩

/-- `khi_instance_ok_sound` on the trefoil, unreduced, all `(h, t)`: the cone is a complex at the generator `X⊗1` of the
state `000` (whose `d` has three terms for `h = t = 0`), and τ is a chain map there -/
example (h t : Int) (b : Bool) (z : IGen) :
    ((dI (trefIC false) ⟨h, t, false⟩ (b, ⟨0, 1⟩)).flatMap (dI (trefIC false) ⟨h, t, false⟩)).count z % 2 = 0 ∧
    ((dK (trefIC false).cube ⟨h, t, false⟩ ⟨0, 1⟩).map (trefIC false).tau).Perm
      (dK (trefIC false).cube ⟨h, t, false⟩ ((trefIC false).tau ⟨0, 1⟩)) ∧
    (dK (trefIC false).cube ⟨0, 0, false⟩ ⟨0, 1⟩).length = 3 := by
  obtain ⟨ic, hic, _, _, H⟩ := khi_instance_ok_sound tref ⟨h, t, false⟩ (tref_ok_unreduced h t)
  rw [tref_icube] at hic
  cases hic
  obtain ⟨_, _, _, hperm, _, hcone⟩ := H ⟨0, 1⟩ (by decide) (by decide +kernel) (by decide +kernel)
  exact ⟨hcone b z, hperm, by decide +kernel⟩

/-- the same in the reduced theory (`t = 0`, based at the on-axis point `1`), at the generator `X⊗1` of the state `101`
(base circle `{1,3,4,6}` labelled `X`) -/
example (h : Int) (b : Bool) (z : IGen) :
    ((dI (trefIC true) ⟨h, 0, true⟩ (b, ⟨5, 1⟩)).flatMap (dI (trefIC true) ⟨h, 0, true⟩)).count z % 2 = 0 := by
  obtain ⟨ic, hic, _, _, H⟩ := khi_instance_ok_sound tref ⟨h, 0, true⟩ (tref_ok_reduced h)
  rw [tref_icube] at hic
  cases hic
  exact (H ⟨5, 1⟩ (by decide) (by decide +kernel) (by decide +kernel)).2.2.2.2.2 b z

/-- `t = 0` IS NEEDED in the reduced theory: trefoil, `(h, t) = (0, 1)`, based at `1`: the generator `⟨001, X⟩` lies in the
reduced complex, and `Q⟨111, X⊗1⊗1⟩` occurs exactly once in `D (D (Q⟨001, X⟩))` — the cone is no complex (and the cube is
none: this is `d (d g)`), which `khiHomology` reports as `notComplex` -/
example :
    baseKeep (trefIC true).cube ⟨1, 1⟩ = true ∧
    ((dI (trefIC true) ⟨0, 1, true⟩ (true, ⟨1, 1⟩)).flatMap (dI (trefIC true) ⟨0, 1, true⟩)).count (true, ⟨7, 1⟩) = 1 ∧
    ((dK (trefIC true).cube ⟨0, 1, true⟩ ⟨1, 1⟩).flatMap (dK (trefIC true).cube ⟨0, 1, true⟩)).count ⟨7, 1⟩ = 1 := by
  refine ⟨by decide +kernel, by decide +kernel, by decide +kernel⟩

/-- the matrix form on all 15 generators of the reduced trefoil complex (`h = 1`, `t = 0`) -/
example {R : Type} [CommRing R] [CharP R 2] :
    let ic := trefIC true
    let p : Params := ⟨1, 0, true⟩
    let gens := allGens ic.cube
    gens.length = 15 ∧
    (fromBlocks (dMat R ic.cube p gens) 0 (1 + tauMat R ic gens) (dMat R ic.cube p gens)) *
      (fromBlocks (dMat R ic.cube p gens) 0 (1 + tauMat R ic gens) (dMat R ic.cube p gens)) = 0 := by
  intro ic p gens
  obtain ⟨hv, hL, _, hred, ic', hic, hok, hwf⟩ := khi_instance_ok_meaning tref p (tref_ok_reduced 1)
  rw [tref_icube] at hic
  cases hic
  exact ⟨by decide +kernel, (icube_cone_matrix_valid tref p ic (tref_icube 1 0 true) hv hL hok hred _ hwf gens
    (by decide +kernel) (by decide +kernel) (by decide +kernel) (by decide +kernel)).2⟩

end Yuiv.C19Cone
