import Yuiv.Proofs.C06WalkStr
import Yuiv.Proofs.C06ClosureEx
/-
C06Walk — SPECIFICATION OF THE WALK MODEL `C06Canon.componentsOf` (`Link::components`, `Link::seifert_circles` on the
links of the cube reference), the driver's `sets` flag as a theorem, and the UNCONDITIONAL reply `chk=ok` of the C06
driver on braid closures.  Property theorems only; proofs in `Proofs/C06WalkDefs, C06WalkSim, C06WalkSpec, C06WalkOrder,
C06WalkSets, C06WalkMain, C06WalkBfs, C06WalkClosure, C06WalkReply, C06WalkGen, C06WalkKnot, C06WalkFinal, C06WalkStr`.

PART 1 — the walk model, every valid diagram (`validK L`), every choice of crossing types `ts` (`components`: the
diagram's own types; `seifert_circles` / circles of a state `s`: `resolvedTypes L s`):
  * `walk_model_is_c18_model` — `C06Canon.componentsOf L ts` IS the code model `C18.components` of the Rust routine run on
    the same labels and types (`toC18 L ts`), path by path;
  * `walk_model_spec` — it returns (never panics, never runs out of its `4·n` budget) closed non-empty paths; every label
    of the diagram lies on exactly one path exactly once; every path is exactly one class of the equivalence generated
    by "the two ends of a strand through a crossing" (`passPairs`), and runs cyclically along such pairs (`WalkSpec`);
  * `seifert_circles_spec` — for the types of a state these pairs are the arcs of the state: the paths are exactly the
    classes of the arc relation `Conn (statePairs L s)` of `Proofs/C04InvUF`, each label once, each path a cyclic walk
    along arcs;
  * `c18_components_spec_arcs` — the same for the C18 code model itself (ties `Link::components` / `seifert_circles`
    of C18 to the arc relation of the reference).
PART 2 — the reference's circle list and the `sets` flag:
  * `circles_by_least_label` — `KhRef.circles` lists every circle increasingly and the circles by their least label
    (`edgeLabels` is strictly increasing);
  * `driver_sets_flag` — for every valid diagram and state: the walk-model circles, each sorted, sorted by heads, ARE
    the reference's circle list: the `sets` flag of `Drv/C06.canonReply` is a theorem.
PART 3 — braid closures (`C18.closure n w = .ok l`, `K = toKh l`):
  * `closure_walk_circles_are_strands` — the walked Seifert circles are the strands (one per position `0..n−1`);
  * `closure_seifert_graph_is_path` — `Path::is_adj` on them relates only neighbouring strands, and relates them (both
    ways) when the generator between them occurs;
  * `knot_closure_uses_every_generator`, `knot_closure_determined` — a closure that the walk model finds to be a knot
    uses every `σ_g`, and its orientation is determined (so `KhRef.crossingSigns` = letter signs);
  * `closure_driver_checks` — the flags `hyp` and `sets` for whatever `coloredSeifertCircles` returns (BFS colouring =
    parity of the distance to the start strand);
  * `canon_reply_flags_closure` — ALL flags `dz`, `hyp`, `sets` of the reply are `true`, for every braid closure (links:
    no cycles are built), every `h`, reduced or not: NO per-instance hypothesis;
  * `canon_reply_string_closure` — `canonReply K h base` is `"panic"` (e.g. base edge not on the diagram) or ends with
    `chk=ok`; it is never `"hang"` (`canon_cycles_never_hang`, every valid diagram) and never `err signs`.
-/
namespace Yuiv.C06Walk
open Yuiv Yuiv.KhRef Yuiv.C06Canon Yuiv.C04Inv Yuiv.C06Cycle Yuiv.Drv.C06 Yuiv.C06Closure
open Yuiv.C18 (closure posLab)
open Yuiv.C18Bridge (toKh)

/-! ### 1. the walk model -/

/-- the walk model of the reference level IS the C18 code model of `Link::components` on the same data -/
theorem walk_model_is_c18_model (L : Link) (hwf : ∀ c ∈ L, c.e.size = 4) (ts : Array CT) (hts : ts.size = L.size) :
    componentsOf L ts =
      match C18.components (toC18 L ts) with
      | .ok cs => .ok (cs.map convPath)
      | .panic => .panic
      | .err => .err :=
  componentsOf_sim L hwf ts hts

/-- SPECIFICATION of the walk model on a valid diagram, for any crossing types: it returns, and the paths are closed,
non-empty, partition the labels (each label on one path, once), each is one class of `Conn (passPairs L ts)` and runs
cyclically along `passPairs`.  `components L` is the instance `ts = L.map (·.ct)` -/
theorem walk_model_spec (L : Link) (hv : validK L = true) (ts : Array CT) (hts : ts.size = L.size) :
    (∃ paths, componentsOf L ts = .ok paths ∧ WalkSpec L (passPairs L ts) paths) ∧
    (∃ paths, components L = .ok paths ∧ WalkSpec L (passPairs L (L.map (·.ct))) paths) :=
  ⟨componentsOf_spec L hv ts hts, components_spec L hv⟩

/-- membership in `passPairs`: the labels at the two ends `j`, `ts[i].pass j` of a strand through crossing `i` -/
theorem passPairs_mem (L : Link) (ts : Array CT) (p : Nat × Nat) :
    p ∈ passPairs L ts ↔ ∃ i j, i < L.size ∧ j < 4 ∧ p = (L[i]!.e[j]!, L[i]!.e[ts[i]!.pass j]!) :=
  mem_passPairs L ts p

/-- SPECIFICATION of `Link::seifert_circles` (any signs) and of the circles of ANY state `s` of a valid diagram: the walk
returns paths that are exactly the classes of the arc relation `Conn (statePairs L s)`, each label of the diagram
exactly once, each path closed, non-empty and a cyclic walk along arcs (in one of the two directions) -/
theorem seifert_circles_spec (L : Link) (hv : validK L = true) (s : Nat) :
    (∃ paths, componentsOf L (resolvedTypes L s) = .ok paths ∧
      (∀ e, e ∈ edgeLabels L ↔ ∃ p ∈ paths, e ∈ p.edges) ∧
      (paths.flatMap (·.edges)).Nodup ∧
      (∀ p ∈ paths, p.closed = true ∧ p.edges ≠ []) ∧
      (∀ p ∈ paths, ∀ e ∈ p.edges, ∀ e', Conn (statePairs L s) e e' ↔ e' ∈ p.edges) ∧
      (∀ p ∈ paths, CyclicChain (fun a b => (a, b) ∈ statePairs L s ∨ (b, a) ∈ statePairs L s) p.edges)) ∧
    ∀ signs, seifertCircles L signs = componentsOf L (resolvedTypes L (oriPresState signs)) := by
  refine ⟨?_, fun _ => rfl⟩
  obtain ⟨paths, h1, W, hcls⟩ := stateCircles_spec L hv s
  refine ⟨paths, h1, W.cover, W.nodup, W.closed, hcls, ?_⟩
  intro p hp k hk
  have := W.cyc p hp k hk
  simp only [List.mem_append, List.mem_map, Prod.mk.injEq, Prod.exists] at this
  rcases this with h | ⟨a, b, hab, rfl, rfl⟩
  · exact Or.inl h
  · exact Or.inr hab

/-- the same for the C18 code model of the Rust routine: on the labels of a valid diagram with the types of a state,
`C18.components` returns the classes of the arc relation of the reference -/
theorem c18_components_spec_arcs (L : Link) (hv : validK L = true) (s : Nat) :
    ∃ cs, C18.components (toC18 L (resolvedTypes L s)) = .ok cs ∧
      WalkSpec L (statePairs L s ++ (statePairs L s).map (fun p => (p.2, p.1))) (cs.map convPath) ∧
      ∀ p ∈ cs, ∀ e ∈ p.edges, ∀ e', Conn (statePairs L s) e e' ↔ e' ∈ p.edges := by
  obtain ⟨cs, h1, W⟩ := c18_components_spec L hv (resolvedTypes L s)
  refine ⟨cs, h1, W.resolved (wf_of_validK L hv), ?_⟩
  intro p hp e he e'
  rw [← conn_passPairs_resolved L (wf_of_validK L hv) s]
  exact W.cls (convPath p) (List.mem_map_of_mem hp) e he e'

/-! ### 2. circle order and the `sets` flag -/

/-- `KhRef.circles` lists every circle increasingly and the circles by increasing least label; `edgeLabels` is strictly
increasing -/
theorem circles_by_least_label (l : Link) (s : Nat) :
    (edgeLabels l).toList.Pairwise (· < ·) ∧
    (∀ i, i < (circles l (edgeLabels l) s).size →
      ((circles l (edgeLabels l) s)[i]!).toList.Pairwise (· < ·)) ∧
    (∀ i j, i < j → j < (circles l (edgeLabels l) s).size →
      ((circles l (edgeLabels l) s)[i]!)[0]! < ((circles l (edgeLabels l) s)[j]!)[0]!) :=
  ⟨edgeLabels_sorted l, (circles_sorted' l s).1, (circles_sorted' l s).2⟩

/-- THE `sets` FLAG IS A THEOREM: for every valid diagram and every state, the walk-model circles — every path sorted,
the paths sorted by their heads, exactly the expression of `Drv/C06.canonReply` — are the circle list of the cube
reference at that state (as the cube stores it, for `s < 2^n`) -/
theorem driver_sets_flag (L : Link) (hv : validK L = true) (s : Nat) (paths : List Path)
    (hp : componentsOf L (resolvedTypes L s) = .ok paths) :
    ((paths.map (fun p => sortNat p.edges)).toArray.qsort (fun x y => x.headD 0 < y.headD 0)).toList =
      (circles L (edgeLabels L) s).toList.map (·.toList) ∧
    ∀ (p : Params) (base : Option Nat), s < 2 ^ crossingNum L →
      (((paths.map (fun p => sortNat p.edges)).toArray.qsort (fun x y => x.headD 0 < y.headD 0)).toList ==
        ((({ mkCube L p with base := base } : Cube).circ[s]!).toList.map (·.toList))) = true := by
  have h := sets_flag L hv s paths hp
  refine ⟨h, fun p base hs => ?_⟩
  rw [mkCube_circ L p base s hs, h]
  exact beq_self_eq_true _

/-- on a valid diagram the construction of the canonical cycles never runs out of budget -/
theorem canon_cycles_never_hang (L : Link) (hv : validK L = true) (signs : List Int) (h : Int) (base : Option Nat) :
    canonCyclesAt L signs h base ≠ .err :=
  canonCyclesAt_ne_err L hv signs h base

/-! ### 3. braid closures -/

/-- the walk-model Seifert circles of a braid closure are its strands: path `k` is the set of ALL labels of one strand
position `posW k`, and `k ↦ posW k` is a bijection onto `0..n−1` -/
theorem closure_walk_circles_are_strands (n : Nat) (w : List Int) (l : C18.Link) (hcl : closure n w = .ok l) :
    ∃ paths, componentsOf (toKh l) (resolvedTypes (toKh l) (braidState w)) = .ok paths ∧
      StrandPaths n w (toKh l) paths := by
  obtain ⟨paths, hp, _⟩ := stateCircles_spec (toKh l) (validK_toKh l (C18.closure_valid' n w l hcl)) (braidState w)
  exact ⟨paths, hp, strandPaths n w l hcl paths hp⟩

/-- the Seifert graph of a braid closure (adjacency `Path::is_adj` of `colored_seifert_circles`) is a sub-graph of the
path `0 — 1 — … — n−1` on the strands, and contains the edge `g — (g+1)` (both ways) whenever `σ_g` occurs -/
theorem closure_seifert_graph_is_path (n : Nat) (w : List Int) (l : C18.Link) (hcl : closure n w = .ok l)
    (paths : List Path) (hp : componentsOf (toKh l) (resolvedTypes (toKh l) (braidState w)) = .ok paths) :
    (∀ u v, isAdj (toKh l) (paths[u]!).edges (paths[v]!).edges = true →
      u < paths.length ∧ v < paths.length ∧
        (posW n w paths u = posW n w paths v + 1 ∨ posW n w paths v = posW n w paths u + 1)) ∧
    ((∀ g, g + 1 < n → ∃ j, j < w.length ∧ (w.getD j 0).natAbs - 1 = g) →
      ∀ u v, u < paths.length → v < paths.length → posW n w paths u + 1 = posW n w paths v →
        isAdj (toKh l) (paths[u]!).edges (paths[v]!).edges = true ∧
        isAdj (toKh l) (paths[v]!).edges (paths[u]!).edges = true) :=
  ⟨isAdj_pos n w l hcl paths (strandPaths n w l hcl paths hp),
    fun hgen => isAdj_of_pos n w l hcl paths (strandPaths n w l hcl paths hp) hgen⟩

/-- BFS 2-colouring of a path graph: the colour is the parity of the distance to the start vertex -/
theorem bfs_colours_path (adj : Nat → Nat → Bool) (m n i : Nat) (posW : Nat → Nat) (hi : i < m)
    (hadj : ∀ u v, adj u v = true → u < m ∧ v < m ∧ (posW u = posW v + 1 ∨ posW v = posW u + 1))
    (hnb : ∀ u v, u < m → v < m → posW u + 1 = posW v → adj u v = true ∧ adj v u = true)
    (hinj : ∀ u v, u < m → v < m → posW u = posW v → u = v)
    (hlt : ∀ u, u < m → posW u < n)
    (hsurj : ∀ k, k < n → ∃ u, u < m ∧ posW u = k)
    (col : Nat → Colour) (rem : List Nat) (hres : colouring adj ascending m i = some (col, rem)) :
    ∀ u, u < m → col u = if (posW u + posW i) % 2 = 0 then Colour.a else Colour.b :=
  path_colouring adj m n i posW hi hadj hnb hinj hlt hsurj col rem hres

/-- a braid closure that is a KNOT (the walk model finds one component) uses every generator -/
theorem knot_closure_uses_every_generator (n : Nat) (w : List Int) (l : C18.Link) (hcl : closure n w = .ok l)
    (comps : List Path) (hc : components (toKh l) = .ok comps) (h1 : comps.length = 1) :
    ∀ g, g + 1 < n → ∃ j, j < w.length ∧ (w.getD j 0).natAbs - 1 = g :=
  every_generator_of_knot n w l hcl comps hc h1

/-- a valid diagram that is a knot is `Determined` (every slot is connected to an under-strand entrance); for a knot
closure the reference's orientation preserving state is therefore `braidState w` -/
theorem knot_closure_determined (n : Nat) (w : List Int) (l : C18.Link) (hcl : closure n w = .ok l)
    (comps : List Path) (hc : components (toKh l) = .ok comps) (h1 : comps.length = 1) :
    C18.Determined l ∧
    ∀ sg, KhRef.crossingSigns (toKh l) = some sg → oriPresState sg.toList = braidState w :=
  ⟨determined_of_knot l (C18.closure_valid' n w l hcl) comps hc h1,
    fun sg hsg => (knot_closure_facts n w l hcl comps hc h1 sg hsg).2⟩

/-- THE DRIVER'S CHECKS on a braid closure whose word uses every generator, at the orientation preserving state: for
whatever `coloredSeifertCircles` returns, `hyp` (`crossingsBicoloured`) holds and `sets` holds -/
theorem closure_driver_checks (n : Nat) (w : List Int) (l : C18.Link) (hcl : closure n w = .ok l)
    (hgen : ∀ g, g + 1 < n → ∃ j, j < w.length ∧ (w.getD j 0).natAbs - 1 = g)
    (signs : List Int) (hso : oriPresState signs = braidState w) (start : Nat) (cc : List (Path × Colour))
    (hcc : coloredSeifertCircles (toKh l) signs start = .ok cc) :
    crossingsBicoloured (toKh l) cc = true ∧
    ((cc.map (fun pc => sortNat pc.1.edges)).toArray.qsort (fun x y => x.headD 0 < y.headD 0)).toList =
      (circles (toKh l) (edgeLabels (toKh l)) (braidState w)).toList.map (·.toList) :=
  closure_checks n w l hcl hgen signs hso start cc hcc

/-- **UNCONDITIONAL.**  For EVERY braid closure the code builds (`closure n w = .ok l`; knot or link, any `h`, reduced
or not), with the reference's own signs `sg` and whatever cycles `canonCyclesAt` returns: the three flags of
`Drv/C06.canonReply` — `dz` (`replyDz`), `hyp` and `sets` (`replyFlags`, the driver's expressions verbatim) — are
`true`.  No per-instance hypothesis, no check evaluated -/
theorem canon_reply_flags_closure (n : Nat) (w : List Int) (l : C18.Link) (hcl : closure n w = .ok l)
    (sg : Array Int) (hsg : KhRef.crossingSigns (toKh l) = some sg) (h : Int) (base : Option Nat) (zs : List Chain)
    (hz : canonCyclesAt (toKh l) sg.toList h base = .ok zs) :
    replyDz (toKh l) h base zs = true ∧ replyFlags (toKh l) sg.toList h base zs = (true, true) :=
  reply_flags_closure n w l hcl sg hsg h base zs hz

/-- the reply string itself: on every braid closure `canonReply` answers `panic` (the library's `unwrap`/`assert`: e.g.
the base edge is not an edge of the diagram) or a line ending in `chk=ok` — never `err signs`, never `hang`, never
`chk=fail(…)` -/
theorem canon_reply_string_closure (n : Nat) (w : List Int) (l : C18.Link) (hcl : closure n w = .ok l) (h : Int)
    (base : Option Nat) :
    canonReply (toKh l) h base = "panic" ∨ ∃ pre, canonReply (toKh l) h base = pre ++ " chk=ok" :=
  canonReply_closure n w l hcl h base

/-! ### non-vacuity -/

/-- instances: the figure eight closure `σ₁σ₂⁻¹σ₁σ₂⁻¹` (a knot), Lee theory `h = 2` unreduced, and the Hopf link closure
reduced at edge `0` -/
example : (canonReply (toKh fig8B) 2 none = "panic" ∨ ∃ pre, canonReply (toKh fig8B) 2 none = pre ++ " chk=ok") ∧
    (canonReply (toKh hopfB) 3 (some 0) = "panic" ∨ ∃ pre, canonReply (toKh hopfB) 3 (some 0) = pre ++ " chk=ok") :=
  ⟨canon_reply_string_closure 3 [1, -2, 1, -2] fig8B closure_fig8B 2 none,
    canon_reply_string_closure 2 [-1, -1] hopfB closure_hopfB 3 (some 0)⟩

/-- the walk specification at the trefoil closure: it returns, and the paths partition the six labels -/
example : ∃ paths, componentsOf (toKh trefoilB) (resolvedTypes (toKh trefoilB) 0) = .ok paths ∧
    (paths.flatMap (·.edges)).Nodup ∧ ∀ e, e ∈ edgeLabels (toKh trefoilB) ↔ ∃ p ∈ paths, e ∈ p.edges := by
  obtain ⟨⟨paths, h1, h2, h3, _⟩, _⟩ := seifert_circles_spec (toKh trefoilB) (by decide +kernel) 0
  exact ⟨paths, h1, h3, h2⟩

/-- the walk on the trefoil closure, evaluated: state `0` (all crossings positive) gives the two strands, the diagram
itself one component -/
example : (match componentsOf (toKh trefoilB) (resolvedTypes (toKh trefoilB) 0) with
      | .ok ps => ps.map (fun p => (p.edges, p.closed)) | _ => []) = [([0, 2, 4], true), ([3, 1, 5], true)] ∧
    (match components (toKh trefoilB) with
      | .ok ps => ps.map (fun p => (p.edges, p.closed)) | _ => []) = [([0, 3, 4, 1, 2, 5], true)] := by
  decide +kernel

end Yuiv.C06Walk
