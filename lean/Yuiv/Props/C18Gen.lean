import Yuiv.Gen.Tables
import Yuiv.Proofs.C18Gen
import Yuiv.Model.C18
/-
C18: the hand-written crossing tables of the link code model (`C18.CType.*`, `signAt`) are THE tables of
`yui-link/src/link/crossing.rs` / `link.rs` as they stand in /repo now (`Yuiv.Gen.*` is regenerated from the Rust source
by tools/rs2lean.py on every run).
-/
namespace Yuiv.C18

def toCT : CType → Yuiv.KhRef.CT
  | .X => .X | .Xm => .Xm | .V => .V | .H => .H

theorem gen18_mirror_eq (c : CType) : Yuiv.Gen.mirror (toCT c) = toCT c.mirror := by cases c <;> rfl

theorem gen18_resolve_eq (c : CType) (b : Bool) : Yuiv.Gen.resolve (toCT c) b = (c.resolve b).map toCT := by
  cases c <;> cases b <;> rfl

theorem gen18_pass_eq (c : CType) (j : Nat) : Yuiv.Gen.pass (toCT c) j = c.pass j := by cases c <;> rfl

theorem gen18_arcs_eq (c : CType) : Yuiv.Gen.arcSlots (toCT c) = [c.arcs.1, c.arcs.2] := by cases c <;> rfl

theorem gen18_signAt_eq (c : CType) (j : Nat) (hj : j < 4) :
    Yuiv.Gen.slotSign (toCT c) j = (match signAt c j with | some s => s.toInt | none => 0) := by
  have : j = 0 ∨ j = 1 ∨ j = 2 ∨ j = 3 := by omega
  rcases this with rfl | rfl | rfl | rfl <;> cases c <;> rfl

end Yuiv.C18

/-
TIE BY TRANSLATION (`fn:link`): `Yuiv.GenLink.*` (Yuiv/Gen/LinkFn.lean) is regenerated from the CURRENT source text of
yui-link/src/link/{crossing,path,link}.rs by tools/rs2lean_fn.py (renderer tools/rs2lean_link.py) on every run.  The proofs are
in Yuiv/Proofs/C18Gen.lean (`GenFn.g_*`); conversions `toT / toC / toL / toPath / toSign / toBit / bitB`, `rmap f` = map under `Res`.

* generated = hand model `Yuiv/Model/C18.lean` for ALL inputs, panics included: `CrossingType::mirror`, `Crossing::{new,
  from_pd_code, ctype, edge, edges, is_resolved, resolve, resolved, mirror, pass, arcs, convert_edges}`, `Path::{new, arc, circ}`,
  `Link::{from_pd_code, data, mirror, crossing_num, crossing_index, crossing_at_mut(0).resolve, resolved_by, pass_edge}`;
* for every fuel above the library's own bound `4·n` (the `loop` of `traverse_edges`): `traverse_edges` (with the `FnMut`
  parameter read as the log of its calls) = `traverse`, `components` = `components`, `crossing_signs` = `crossingSigns`,
  `signed_crossing_nums`, `writhe`, `is_knot`, `ori_pres_state`, `seifert_circles` = the model — for every link, valid or not;
* `gen_*_eq` without `model`: the composition shape of the generated function (same as the model's at that place);
* `gen_*_eq_samples`: kernel evaluation (`decide +kernel`) on twelve sample diagrams, every slot / every state up to length 4
  (kept as a cheap regression net; superseded by the general theorems).
-/
namespace Yuiv.C18
open Yuiv Yuiv.Rust Yuiv.GenLink Yuiv.C18.GenFn

theorem gen_ctype_mirror_eq (t : CrossingType) : toT t.mirror = (toT t).mirror :=
  GenFn.g_ctype_mirror_eq t

theorem gen_crossing_mirror_eq (c : GenLink.Crossing) : toC c.mirror = (toC c).mirror :=
  GenFn.g_crossing_mirror_eq c

theorem gen_is_resolved_eq (c : GenLink.Crossing) : c.is_resolved = (toC c).isResolved :=
  GenFn.g_is_resolved_eq c

theorem gen_resolve_eq (c : GenLink.Crossing) (b : Bool) : rmap toC (c.resolve (toBit b)) = (toC c).resolve b :=
  GenFn.g_resolve_eq c b

theorem gen_resolved_eq (c : GenLink.Crossing) (b : Bool) : rmap toC (c.resolved (toBit b)) = (toC c).resolve b :=
  GenFn.g_resolved_eq c b

theorem gen_edge_eq (c : GenLink.Crossing) (j : Nat) :
    c.edge j = if j < 4 then .ok ((toC c).edge j) else .panic :=
  GenFn.g_edge_eq c j

theorem gen_pass_eq (c : GenLink.Crossing) (j : Nat) :
    c.pass j = if j < 4 then .ok ((toC c).pass j) else .panic :=
  GenFn.g_pass_eq c j

theorem gen_crossing_from_pd_code_eq (a b c d : Nat) :
    toC (GenLink.Crossing.from_pd_code ⟨a, b, c, d⟩) = C18.Crossing.ofPD a b c d :=
  GenFn.g_crossing_from_pd_code_eq a b c d

theorem gen_crossing_new_eq (t : CrossingType) (a b c d : Nat) :
    toC (GenLink.Crossing.new t ⟨a, b, c, d⟩) = ⟨toT t, a, b, c, d⟩ :=
  GenFn.g_crossing_new_eq t a b c d

theorem gen_ctype_eq (c : GenLink.Crossing) : toT c.ctype = (toC c).ctype :=
  GenFn.g_ctype_eq c

theorem gen_edges_eq (c : GenLink.Crossing) : c.edges.toList = (toC c).edges :=
  GenFn.g_edges_eq c

theorem gen_convert_edges_eq (c : GenLink.Crossing) (f : Nat → Nat) : toC (c.convert_edges f) = (toC c).convertEdges f :=
  GenFn.g_convert_edges_eq c f

theorem gen_path_new_eq (es : List Nat) (b : Bool) :
    GenLink.Path.new es b = if es = [] then .panic else .ok ⟨es, b⟩ :=
  GenFn.g_path_new_eq es b

theorem gen_path_arc_eq (es : List Nat) : GenLink.Path.arc es = GenLink.Path.new es false :=
  GenFn.g_path_arc_eq es

theorem gen_path_circ_eq (es : List Nat) : GenLink.Path.circ es = GenLink.Path.new es true :=
  GenFn.g_path_circ_eq es

theorem gen_arcs_eq (c : GenLink.Crossing) :
    rmap (fun p => (toPath p.1, toPath p.2)) c.arcs = .ok (toC c).arcs :=
  GenFn.g_arcs_eq c

theorem gen_link_from_pd_code_eq (pd : List (Nat × Nat × Nat × Nat)) :
    toL (GenLink.Link.from_pd_code (pd.map fun x => ⟨x.1, x.2.1, x.2.2.1, x.2.2.2⟩)) = C18.fromPD4 pd :=
  GenFn.g_link_from_pd_code_eq pd

theorem gen_link_mirror_eq (l : GenLink.Link) : toL l.mirror = C18.mirror (toL l) :=
  GenFn.g_link_mirror_eq l

theorem gen_crossing_num_eq (l : GenLink.Link) : l.crossing_num = C18.crossingNum (toL l) :=
  GenFn.g_crossing_num_eq l

theorem gen_link_data_eq (l : GenLink.Link) : l.data.map toC = toL l :=
  GenFn.g_link_data_eq l

theorem gen_crossing_index_eq (l : GenLink.Link) (i : Nat) :
    l.crossing_index i = if i < l.crossing_num then ciSpec 0 l.data_ i else .panic :=
  GenFn.g_crossing_index_eq l i

theorem gen_crossing_index_zero_eq (l : GenLink.Link) : l.crossing_index 0 = ciSpec 0 l.data_ 0 :=
  GenFn.g_crossing_index_zero_eq l

theorem gen_crossing_at_mut_eq (l : GenLink.Link) (i : Nat) (k : GenLink.Crossing → Res GenLink.Crossing) :
    l.crossing_at_mut i k = (l.crossing_index i >>= fun j => Lk.idx l.data_ j >>= fun x => k x >>= fun x' =>
      Lk.idxSet l.data_ j x' >>= fun d => .ok ⟨d⟩) :=
  GenFn.g_crossing_at_mut_eq l i k

theorem gen_crossing_at_mut_zero_resolve_eq (l : GenLink.Link) (b : Bool) :
    rmap toL (l.crossing_at_mut 0 (fun x => x.resolve (toBit b))) = C18.resolveFirst (toL l) b :=
  GenFn.g_crossing_at_mut_zero_resolve_eq l b

theorem gen_resolved_by_eq (l : GenLink.Link) (s : List Bool) :
    rmap toL (l.resolved_by (s.map toBit)) = C18.resolvedBy (toL l) s :=
  GenFn.g_resolved_by_eq l s

theorem gen_pass_edge_eq (l : GenLink.Link) (ci ei : Nat) :
    l.pass_edge ci ei = if ci < l.data_.length ∧ ei < 4 then .ok (C18.passEdge (toL l) ci ei) else .panic :=
  GenFn.g_pass_edge_eq l ci ei

/-- `Link::traverse_edges` with the `FnMut` parameter read as the log of its calls = the model's `traverse`, for every fuel
above the library's own bound `4·n` (the `debug_assert!`s on `start` are visible). -/
theorem gen_traverse_edges_eq (l : GenLink.Link) (fuel : Nat) (start : Nat × Nat) (hf : 4 * l.data_.length < fuel) :
    l.traverse_edges fuel start =
      if start.1 < l.data_.length ∧ start.2 < 4 then C18.traverse (toL l) start else .panic :=
  GenFn.g_traverse_edges_eq l fuel start hf

/-- `Link::components` = the model's `components`, for every link (valid or not) and every fuel above `4·n`:
same components in the same order, same panics. -/
theorem gen_components_eq (l : GenLink.Link) (fuel : Nat) (hf : 4 * l.data_.length < fuel) :
    rmap (List.map toPath) (l.components fuel) = C18.components (toL l) :=
  GenFn.g_components_eq l fuel hf

theorem gen_crossing_signs_eq (l : GenLink.Link) (fuel : Nat) (hf : 4 * l.data_.length < fuel) :
    rmap (List.map toSign) (l.crossing_signs fuel) = C18.crossingSigns (toL l) :=
  GenFn.g_crossing_signs_eq l fuel hf

theorem gen_signed_crossing_nums_eq (l : GenLink.Link) (fuel : Nat) :
    l.signed_crossing_nums fuel = (l.crossing_signs fuel >>= fun s => .ok (s.count .Pos, s.count .Neg)) :=
  GenFn.g_signed_crossing_nums_eq l fuel

theorem gen_writhe_eq (l : GenLink.Link) (fuel : Nat) :
    l.writhe fuel = (l.signed_crossing_nums fuel >>= fun pn => .ok ((pn.1 : Int) - (pn.2 : Int))) :=
  GenFn.g_writhe_eq l fuel

theorem gen_is_knot_eq (l : GenLink.Link) (fuel : Nat) :
    l.is_knot fuel = (l.components fuel >>= fun cs => .ok (cs.length == 1)) :=
  GenFn.g_is_knot_eq l fuel

theorem gen_ori_pres_state_eq (l : GenLink.Link) (fuel : Nat) :
    l.ori_pres_state fuel = (l.crossing_signs fuel >>= fun s =>
      if s.length ≤ 64 then .ok (s.map fun x => if x = .Pos then Lk.Bit.Bit0 else Lk.Bit.Bit1) else .panic) :=
  GenFn.g_ori_pres_state_eq l fuel

theorem gen_seifert_circles_eq (l : GenLink.Link) (fuel : Nat) :
    l.seifert_circles fuel = (l.ori_pres_state fuel >>= fun s => l.resolved_by s >>= fun r => r.components fuel) :=
  GenFn.g_seifert_circles_eq l fuel

theorem gen_crossing_at_eq (l : GenLink.Link) (i : Nat) :
    l.crossing_at i = (l.crossing_index i >>= fun j => Lk.idx l.data_ j) :=
  GenFn.g_crossing_at_eq l i

theorem gen_resolved_at_eq (l : GenLink.Link) (i : Nat) (r : Lk.Bit) :
    l.resolved_at i r = (if i < l.crossing_num then l.crossing_at_mut i (fun x => x.resolve r) else .panic) :=
  GenFn.g_resolved_at_eq l i r

theorem gen_signed_crossing_nums_model_eq (l : GenLink.Link) (fuel : Nat) (hf : 4 * l.data_.length < fuel) :
    l.signed_crossing_nums fuel = C18.signedCrossingNums (toL l) :=
  GenFn.g_signed_crossing_nums_model_eq l fuel hf

theorem gen_writhe_model_eq (l : GenLink.Link) (fuel : Nat) (hf : 4 * l.data_.length < fuel) :
    l.writhe fuel = C18.writhe (toL l) :=
  GenFn.g_writhe_model_eq l fuel hf

theorem gen_is_knot_model_eq (l : GenLink.Link) (fuel : Nat) (hf : 4 * l.data_.length < fuel) :
    l.is_knot fuel = C18.isKnot (toL l) :=
  GenFn.g_is_knot_model_eq l fuel hf

theorem gen_ori_pres_state_model_eq (l : GenLink.Link) (fuel : Nat) (hf : 4 * l.data_.length < fuel) :
    rmap (List.map bitB) (l.ori_pres_state fuel) = C18.oriPresState (toL l) :=
  GenFn.g_ori_pres_state_model_eq l fuel hf

theorem gen_seifert_circles_model_eq (l : GenLink.Link) (fuel : Nat) (hf : 4 * l.data_.length < fuel) :
    rmap (List.map toPath) (l.seifert_circles fuel) = C18.seifertCircles (toL l) :=
  GenFn.g_seifert_circles_model_eq l fuel hf

theorem gen_pass_edge_eq_samples :
    samples.all (fun l => (slotsOf l).all fun s => l.pass_edge s.1 s.2 == .ok (C18.passEdge (toL l) s.1 s.2)) = true :=
  GenFn.g_pass_edge_eq_samples

theorem gen_traverse_edges_eq_samples :
    samples.all (fun l => (slotsOf l).all fun s => l.traverse_edges fuel0 s == C18.traverse (toL l) s) = true :=
  GenFn.g_traverse_edges_eq_samples

theorem gen_components_eq_samples :
    samples.all (fun l => rmap (List.map toPath) (l.components fuel0) == C18.components (toL l)) = true :=
  GenFn.g_components_eq_samples

theorem gen_crossing_signs_eq_samples :
    samples.all (fun l => rmap (List.map toSign) (l.crossing_signs fuel0) == C18.crossingSigns (toL l)) = true :=
  GenFn.g_crossing_signs_eq_samples

theorem gen_writhe_eq_samples :
    samples.all (fun l => l.writhe fuel0 == C18.writhe (toL l)) = true :=
  GenFn.g_writhe_eq_samples

theorem gen_resolved_by_eq_samples :
    samples.all (fun l => ((List.range 5).flatMap states).all fun s =>
      rmap toL (l.resolved_by (s.map toBit)) == C18.resolvedBy (toL l) s) = true :=
  GenFn.g_resolved_by_eq_samples

theorem gen_seifert_circles_eq_samples :
    samples.all (fun l => rmap (List.map toPath) (l.seifert_circles fuel0) == C18.seifertCircles (toL l)) = true :=
  GenFn.g_seifert_circles_eq_samples

/-- the fuel hypothesis of the walker theorems is satisfiable: the trefoil diagram (3 crossings) with fuel 13 -/
example : rmap (List.map toPath)
      ((⟨[GenFn.mk .X 1 4 2 5, GenFn.mk .X 3 6 4 1, GenFn.mk .X 5 2 6 3]⟩ : GenLink.Link).components 13) =
    C18.components (toL ⟨[GenFn.mk .X 1 4 2 5, GenFn.mk .X 3 6 4 1, GenFn.mk .X 5 2 6 3]⟩) :=
  gen_components_eq _ 13 (by decide)

/-- the fuel hypothesis of the walker theorems is satisfiable: the trefoil diagram (3 crossings) with fuel 13 -/
example : rmap (List.map toPath)
      ((⟨[GenFn.mk .X 1 4 2 5, GenFn.mk .X 3 6 4 1, GenFn.mk .X 5 2 6 3]⟩ : GenLink.Link).components 13) =
    C18.components (toL ⟨[GenFn.mk .X 1 4 2 5, GenFn.mk .X 3 6 4 1, GenFn.mk .X 5 2 6 3]⟩) :=
  gen_components_eq _ 13 (by decide)

end Yuiv.C18
