import Yuiv.Gen.Tables
import Yuiv.Model.C18
/-
C18: the hand-written crossing tables of the link code model (`C18.CType.*`, `signAt`) are THE tables of
`yui-link/src/link/crossing.rs` / `link.rs` as they stand in /repo now (`Yuiv.Gen.*` is regenerated from the Rust source
by tools/rs2lean.py on every run).
-/
namespace Yuiv.C18

def toCT : CType → Yuiv.KhRef.CT
  | .X => .X | .Xm => .Xm | .V => .V | .H => .H

theorem gen18_mirror_eq (c : CType) : Yuiv.Gen.mirror (toCT c) = toCT c.mirror := by cases c <;> rfl

theorem gen18_resolve_eq (c : CType) (b : Bool) : Yuiv.Gen.resolve (toCT c) b = (c.resolve b).map toCT := by
  cases c <;> cases b <;> rfl

theorem gen18_pass_eq (c : CType) (j : Nat) : Yuiv.Gen.pass (toCT c) j = c.pass j := by cases c <;> rfl

theorem gen18_arcs_eq (c : CType) : Yuiv.Gen.arcSlots (toCT c) = [c.arcs.1, c.arcs.2] := by cases c <;> rfl

theorem gen18_signAt_eq (c : CType) (j : Nat) (hj : j < 4) :
    Yuiv.Gen.slotSign (toCT c) j = (match signAt c j with | some s => s.toInt | none => 0) := by
  have : j = 0 ∨ j = 1 ∨ j = 2 ∨ j = 3 := by omega
  rcases this with rfl | rfl | rfl | rfl <;> cases c <;> rfl

end Yuiv.C18
