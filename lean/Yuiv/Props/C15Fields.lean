import Yuiv.Proofs.C15Q
import Yuiv.Proofs.C15Fp
import Mathlib.Tactic.NormNum.Prime
/-
C15 — the Euclidean-ring clauses for the two *field* types of `yui`: `Ratio` (model `Q`/`ratOps`, canonical
fractions) and `FF<p>` for an ARBITRARY prime `p` (model `ffOps p`, residues `0..p`).  Property theorems about
the code model `Yuiv/Model/C15.lean` (the same definitions the driver runs in the differential check).

All statements are literal equalities in the model's own arithmetic (`Q.add`, `Q.mul`, `FF.add p`, `FF.mul p`, …
— the operations the harness oracle evaluates with the real `+`, `*`), for ALL valid inputs:
`Q.WF x` = positive denominator and lowest terms (what `Ratio::new` produces), resp. `a < p`.
They are obtained from the Mathlib fields `ℚ` / `ZMod p` through `FieldModel` (Proofs/C15Q.lean), whose
interpretation map is injective on valid representatives.

Clauses of C15 covered here, for Q and F_p (p prime):
* `a = (a/b)·b + (a%b)` with remainder zero, `b ≠ 0`;  `b = 0`: the operators panic (`assert!(!rhs.is_zero())`
  in ratio.rs `div_assign`/`rem`, ff.rs `div`/`rem`);
* `gcd(a,b)` divides both, is divisible by every common divisor, is the normalised associate (`1`, or `0` for
  `gcd(0,0)`) and independent of the argument order;
* `gcdx` returns `(d, s, t)` with `s·a + t·b = d` and `d = gcd(a,b)`;
* `lcm·gcd` is an associate of `a·b` (a, b not both zero), lcm normalised, `lcm = 0` iff an operand is `0`;
  `lcm(0,0)` panics (division by the gcd `0`);
* F_p: unit ⇔ inverse returned, `a·inv(a) = 1`; normalising unit is a unit, normalisation idempotent and
  constant on associates (for Q these two are in Props/C15.lean: `rat_units`, `rat_normalized`);
* the fuel of the modelled Euclid loops is never exhausted (`gcd`/`gcdx` return `.ok`; any fuel `≥ 1` suffices).
The exhaustive theorems for p = 2,3,5,7 (Props/C15.lean) are kept; the ones here hold for every prime.
-/
namespace Yuiv.C15
open Yuiv

/-! ### Q (`Ratio`) -/

/-- the model of `Ratio` computes the field ℚ on canonical fractions: ring operations, `/`, `inv`,
`normalizing_unit` = inverse, `is_unit = !is_zero`, `% = 0`, Euclidean size `0/1` (hypotheses of every
field-level theorem below) -/
theorem rat_field_model : FieldModel ratOps Q.WF Q.toRat := Q.fieldModel

/-- C15 "a = (a/b)·b + (a%b), remainder zero" for `Ratio`.
* `b = 0`: `/` and `%` panic (ratio.rs: `assert!(!rhs.is_zero())`);
* `b ≠ 0`: no panic, the quotient is canonical and is the rational quotient, `a % b = 0`,
  and `(a/b)·b + a%b = a`, `(a/b)·b = a` literally. -/
theorem rat_div_rem (a b : Q) (ha : Q.WF a) (hb : Q.WF b) :
    (b.num = 0 → ratOps.divR a b = .panic ∧ ratOps.remR a b = .panic) ∧
    (b.num ≠ 0 → ratOps.divR a b = .ok (Q.div a b) ∧ ratOps.remR a b = .ok Q.zero ∧ Q.rem a b = Q.zero ∧
      Q.WF (Q.div a b) ∧ Q.add (Q.mul (Q.div a b) b) (Q.rem a b) = a ∧ Q.mul (Q.div a b) b = a ∧
      Q.toRat (Q.div a b) = Q.toRat a / Q.toRat b) :=
  ⟨fun h => Q.fieldModel.div_zero_panics a b ((Q.isZero_iff b).2 h),
   fun h => Q.fieldModel.div_spec a b ha hb ((Q.isZero_false_iff b).2 h)⟩

example : Q.WF ⟨-7, 4⟩ ∧ Q.WF ⟨21, 10⟩ ∧ Q.div ⟨-7, 4⟩ ⟨21, 10⟩ = ⟨-5, 6⟩ ∧
    Q.add (Q.mul (Q.div ⟨-7, 4⟩ ⟨21, 10⟩) ⟨21, 10⟩) (Q.rem ⟨-7, 4⟩ ⟨21, 10⟩) = ⟨-7, 4⟩ :=
  ⟨⟨by decide, by decide⟩, ⟨by decide, by decide⟩, by decide, by decide⟩

/-- C15 "gcd(a,b) divides both … normalised associate regardless of argument order" for `Ratio`:
`gcd` returns (no panic, fuel not exhausted) the canonical `d = 1`, or `0` for `gcd(0,0)`; `d` divides `a`
and `b` (`d·c = a` with a canonical cofactor), every common divisor divides `d`, `d` is normalised, and
`gcd(b,a)` is the same. -/
theorem rat_gcd_divides (a b : Q) (ha : Q.WF a) (hb : Q.WF b) :
    ∃ d, ratOps.gcd a b = .ok d ∧ ratOps.gcd b a = .ok d ∧ Q.WF d ∧
      d = (if a.num = 0 ∧ b.num = 0 then Q.zero else Q.one) ∧ ratOps.normalized d = d ∧
      (∃ c, Q.WF c ∧ Q.mul d c = a) ∧ (∃ c, Q.WF c ∧ Q.mul d c = b) ∧
      (∀ c, Q.WF c → (∃ c', Q.WF c' ∧ Q.mul c c' = a) → (∃ c', Q.WF c' ∧ Q.mul c c' = b) →
        ∃ c', Q.WF c' ∧ Q.mul c c' = d) := by
  obtain ⟨d, h1, h2, hv, h3, h4, h5⟩ := Q.fieldModel.gcd_divides a b ha hb
  have hd : d = (if a.num = 0 ∧ b.num = 0 then Q.zero else Q.one) := by
    have := Q.fieldModel.gcd_eq a b ha hb
    rw [h1, Q.ite_and] at this; injection this
  refine ⟨d, h1, h2, hv, hd, ?_, h3, h4, h5⟩
  obtain ⟨d', _, _, e, _, _, _, _, hg, _, hn⟩ := Q.fieldModel.gcdx_spec a b ha hb
  rw [h1] at hg; injection hg with hg; subst hg; exact hn

/-- C15 "gcd is a combination s·a + t·b with the returned s and t" for `Ratio`: the generic `gcdx` returns
(no panic, fuel not exhausted) canonical `(d, s, t)` with `s·a + t·b = d` literally, `d` is what `gcd`
returns, i.e. the normalised `1` (or `0` for `a = b = 0`). -/
theorem rat_gcdx_bezout (a b : Q) (ha : Q.WF a) (hb : Q.WF b) :
    ∃ d s t, ratOps.gcdx a b = .ok (d, s, t) ∧ Q.WF d ∧ Q.WF s ∧ Q.WF t ∧
      Q.add (Q.mul s a) (Q.mul t b) = d ∧ ratOps.gcd a b = .ok d ∧
      d = (if a.num = 0 ∧ b.num = 0 then Q.zero else Q.one) ∧ ratOps.normalized d = d := by
  obtain ⟨d, s, t, e, hd, hs, ht, hbz, hg, hv, hn⟩ := Q.fieldModel.gcdx_spec a b ha hb
  rw [Q.ite_and] at hv
  exact ⟨d, s, t, e, hd, hs, ht, hbz, hg, hv, hn⟩

example : ratOps.gcdx ⟨2, 3⟩ ⟨5, 1⟩ = .ok (⟨1, 1⟩, ⟨3, 2⟩, ⟨0, 1⟩) ∧
    Q.add (Q.mul ⟨3, 2⟩ ⟨2, 3⟩) (Q.mul ⟨0, 1⟩ ⟨5, 1⟩) = ⟨1, 1⟩ ∧
    ratOps.gcdx ⟨0, 1⟩ ⟨-5, 7⟩ = .ok (⟨1, 1⟩, ⟨0, 1⟩, ⟨-7, 5⟩) := by decide

/-- C15 "lcm·gcd is an associate of a·b (a, b not both zero)" for `Ratio`: `lcm` returns a canonical `l`,
`gcd` returns `g = 1`, `(l·g)·u = a·b` for a canonical non-zero (= unit) `u`, `l` is normalised, and
`l = 0` if an operand is `0`, `l = 1` otherwise. -/
theorem rat_lcm (a b : Q) (ha : Q.WF a) (hb : Q.WF b) (hab : ¬(a.num = 0 ∧ b.num = 0)) :
    ∃ l g, ratOps.lcm a b = .ok l ∧ ratOps.gcd a b = .ok g ∧ Q.WF l ∧ Q.WF g ∧ g = Q.one ∧
      (∃ u, Q.WF u ∧ u.num ≠ 0 ∧ Q.mul (Q.mul l g) u = Q.mul a b) ∧
      ratOps.normalized l = l ∧
      l = (if a.num = 0 ∨ b.num = 0 then Q.zero else Q.one) := by
  obtain ⟨l, g, e1, e2, hl, hg, hg1, ⟨u, hu, hu0, hm⟩, hn, hv⟩ :=
    Q.fieldModel.lcm_spec a b ha hb ((Q.and_false_iff a b).2 hab)
  rw [Q.ite_or] at hv
  exact ⟨l, g, e1, e2, hl, hg, hg1, ⟨u, hu, (Q.isZero_false_iff u).1 hu0, hm⟩, hn, hv⟩

/-- `lcm(0,0)` panics for `Ratio` (euc_ring.rs `lcm`: `y / gcd(x,y)` with `gcd = 0` hits the
`assert!(!rhs.is_zero())` of `div_assign`) -/
theorem rat_lcm_zero_zero (a b : Q) (ha : Q.WF a) (hb : Q.WF b) (h : a.num = 0 ∧ b.num = 0) :
    ratOps.lcm a b = .panic :=
  Q.fieldModel.lcm_zero_zero a b ha hb ((Q.and_true_iff a b).2 h)

example : ratOps.lcm ⟨2, 3⟩ ⟨-5, 7⟩ = .ok ⟨1, 1⟩ ∧ ratOps.lcm ⟨0, 1⟩ ⟨-5, 7⟩ = .ok ⟨0, 1⟩ ∧
    ratOps.lcm ⟨0, 1⟩ ⟨0, 1⟩ = .panic := by decide

/-- fuel: over `Ratio` the `while !y.is_zero()` loops of `gcd`/`gcdx` stop after at most one step, for ALL
operands (canonical or not): every fuel `≥ 1` gives the same result (the model runs them with
`norm y + 1 ≥ 1`; by `rat_gcd_divides`/`rat_gcdx_bezout` the early returns make them unreachable anyway). -/
theorem rat_euclid_loops_total (fuel : Nat) (hf : 1 ≤ fuel) (x y s0 s1 t0 t1 : Q) :
    ratOps.gcdLoop fuel x y = some (if y.num = 0 then x else y) ∧
    ratOps.gcdxLoop fuel x y s0 s1 t0 t1 = some (if y.num = 0 then (x, s0, t0) else (y, s1, t1)) := by
  have e1 := Q.fieldModel.gcdLoop_total fuel hf x y
  have e2 := Q.fieldModel.gcdxLoop_total fuel hf x y s0 s1 t0 t1
  have : ∀ {α : Type} (u v : α), (if ratOps.isZero y = true then u else v) = if y.num = 0 then u else v := by
    intro α u v; simp [ratOps, Q.isZero]
  rw [this] at e1 e2
  exact ⟨e1, e2⟩

/-! ### F_p, `p` any prime -/

/-- the model of `FF<p>` computes the field `ZMod p` on residues `< p`, for every prime `p` (in particular the
search in the model's `inv` always succeeds, i.e. `assert!(d.is_one())` in ff.rs cannot fail) -/
theorem ff_field_model (p : Nat) [Fact p.Prime] :
    FieldModel (ffOps p) (fun a => a < p) (fun a => (a : ZMod p)) := FF.fieldModel p

/-- C15 "a = (a/b)·b + (a%b), remainder zero" for `FF<p>`, any prime `p`, residues `a, b < p`.
* `b = 0`: `/` and `%` panic (ff.rs: `assert!(!rhs.is_zero())`);
* `b ≠ 0`: no panic, quotient `< p`, `a % b = 0`, `(a/b)·b + a%b = a` and `(a/b)·b = a` literally
  (`FF.mul p x y = x*y % p`, `FF.add p x y = (x+y) % p`). -/
theorem ff_div_rem (p : Nat) (hp : p.Prime) (a b : Nat) (ha : a < p) (hb : b < p) :
    (b = 0 → (ffOps p).divR a b = .panic ∧ (ffOps p).remR a b = .panic) ∧
    (b ≠ 0 → (ffOps p).divR a b = .ok (FF.div p a b) ∧ (ffOps p).remR a b = .ok 0 ∧
      FF.div p a b < p ∧ FF.add p (FF.mul p (FF.div p a b) b) 0 = a ∧ FF.mul p (FF.div p a b) b = a) := by
  have := Fact.mk hp
  refine ⟨fun h => (FF.fieldModel p).div_zero_panics a b ((FF.isZero_iff p b).2 h), fun h => ?_⟩
  obtain ⟨h1, h2, _, h4, h5, h6, _⟩ := (FF.fieldModel p).div_spec a b ha hb ((FF.isZero_false_iff p b).2 h)
  exact ⟨h1, h2, h4, h5, h6⟩

/-- C15 "an element reports itself a unit exactly when an inverse is returned and a·inv = 1" for `FF<p>`, any
prime `p`: `is_unit a ⇔ inv a ≠ None ⇔ a ≠ 0`; for `a ≠ 0` the inverse `u < p` is returned, is non-zero and
`a·u mod p = 1`; `inv 0 = None`. -/
theorem ff_units (p : Nat) (hp : p.Prime) (a : Nat) (ha : a < p) :
    ((ffOps p).isUnit a = true ↔ FF.inv p a ≠ none) ∧
    ((ffOps p).isUnit a = true ↔ a ≠ 0) ∧
    (a = 0 → FF.inv p a = none) ∧
    (a ≠ 0 → ∃ u, FF.inv p a = some u ∧ u < p ∧ u ≠ 0 ∧ FF.mul p a u = 1) ∧
    (∀ u, FF.inv p a = some u → u < p ∧ FF.mul p a u = 1) := by
  have := Fact.mk hp
  obtain ⟨h1, h2, h3, h4⟩ := (FF.fieldModel p).units a ha
  rw [FF.one_eq] at h3 h4
  refine ⟨h1, by simp [ffOps], fun h => h2 ((FF.isZero_iff p a).2 h), fun h => ?_, h4⟩
  obtain ⟨u, e, hu, hm, hz⟩ := h3 ((FF.isZero_false_iff p a).2 h)
  exact ⟨u, e, hu, (FF.isZero_false_iff p u).1 hz, hm⟩

/-- C15 "multiplying by the normalising unit is idempotent and constant on associates" for `FF<p>`, any prime
`p`: the normalising unit is `< p` and a unit, it is the inverse (`a·u = 1`, and `1` for `a = 0`);
`normalized a` is `1` for `a ≠ 0` and `0` for `0`; idempotent; `normalized (a·u) = normalized a` for every
unit (= non-zero) `u`. -/
theorem ff_normalisation (p : Nat) (hp : p.Prime) (a u : Nat) (ha : a < p) (hu : u < p) (hu0 : u ≠ 0) :
    FF.normUnit p a < p ∧ (ffOps p).isUnit (FF.normUnit p a) = true ∧
    (a = 0 → FF.normUnit p a = 1) ∧ (a ≠ 0 → FF.mul p a (FF.normUnit p a) = 1) ∧
    (ffOps p).normalized a = (if a = 0 then 0 else 1) ∧
    (ffOps p).normalized ((ffOps p).normalized a) = (ffOps p).normalized a ∧
    (ffOps p).normalized (FF.mul p a u) = (ffOps p).normalized a := by
  have := Fact.mk hp
  obtain ⟨h1, _, h3, h4, h5⟩ := (FF.fieldModel p).normUnit_spec a ha
  rw [FF.one_eq] at h4 h5
  refine ⟨h1, h3, fun h => h4 ((FF.isZero_iff p a).2 h), fun h => h5 ((FF.isZero_false_iff p a).2 h), ?_,
    (FF.fieldModel p).normalized_idem a ha,
    (FF.fieldModel p).normalized_assoc a u ha hu ((FF.isZero_false_iff p u).2 hu0)⟩
  rw [(FF.fieldModel p).normalized_eq a ha, FF.one_eq]
  by_cases h : a = 0 <;> simp [ffOps, h]

/-- C15 "gcd(a,b) divides both … normalised associate regardless of argument order" for `FF<p>`, any prime
`p`: `gcd` returns (no panic, fuel not exhausted) `d = 1`, or `0` for `gcd(0,0)`; `d < p`, `d` divides `a`
and `b` (`d·c mod p = a`), every common divisor divides `d`, `d` is normalised, `gcd(b,a)` is the same. -/
theorem ff_gcd_divides (p : Nat) (hp : p.Prime) (a b : Nat) (ha : a < p) (hb : b < p) :
    ∃ d, (ffOps p).gcd a b = .ok d ∧ (ffOps p).gcd b a = .ok d ∧ d < p ∧
      d = (if a = 0 ∧ b = 0 then 0 else 1) ∧ (ffOps p).normalized d = d ∧
      (∃ c, c < p ∧ FF.mul p d c = a) ∧ (∃ c, c < p ∧ FF.mul p d c = b) ∧
      (∀ c, c < p → (∃ c', c' < p ∧ FF.mul p c c' = a) → (∃ c', c' < p ∧ FF.mul p c c' = b) →
        ∃ c', c' < p ∧ FF.mul p c c' = d) := by
  have := Fact.mk hp
  obtain ⟨d, h1, h2, hv, h3, h4, h5⟩ := (FF.fieldModel p).gcd_divides a b ha hb
  have hd : d = (if a = 0 ∧ b = 0 then 0 else 1) := by
    have := (FF.fieldModel p).gcd_eq a b ha hb
    rw [h1, FF.ite_and, FF.one_eq] at this; injection this
  refine ⟨d, h1, h2, hv, hd, ?_, h3, h4, h5⟩
  obtain ⟨d', _, _, e, _, _, _, _, hg, _, hn⟩ := (FF.fieldModel p).gcdx_spec a b ha hb
  rw [h1] at hg; injection hg with hg; subst hg; exact hn

/-- C15 "gcd is a combination s·a + t·b with the returned s and t" for `FF<p>`, any prime `p`: the generic
`gcdx` returns (no panic, fuel not exhausted) `(d, s, t)`, all `< p`, with `(s·a + t·b) mod p = d`
literally, and `d` is what `gcd` returns: the normalised `1` (or `0` for `a = b = 0`). -/
theorem ff_gcdx_bezout (p : Nat) (hp : p.Prime) (a b : Nat) (ha : a < p) (hb : b < p) :
    ∃ d s t, (ffOps p).gcdx a b = .ok (d, s, t) ∧ d < p ∧ s < p ∧ t < p ∧
      FF.add p (FF.mul p s a) (FF.mul p t b) = d ∧ (s * a + t * b) % p = d ∧ (ffOps p).gcd a b = .ok d ∧
      d = (if a = 0 ∧ b = 0 then 0 else 1) ∧ (ffOps p).normalized d = d := by
  have := Fact.mk hp
  obtain ⟨d, s, t, e, hd, hs, ht, hbz, hg, hv, hn⟩ := (FF.fieldModel p).gcdx_spec a b ha hb
  rw [FF.ite_and, FF.one_eq] at hv
  refine ⟨d, s, t, e, hd, hs, ht, hbz, ?_, hg, hv, hn⟩
  have : FF.add p (FF.mul p s a) (FF.mul p t b) = (s * a + t * b) % p := by
    unfold FF.add FF.mul; exact (Nat.add_mod _ _ _).symm
  rw [← this]; exact hbz

/-- C15 "lcm·gcd is an associate of a·b (a, b not both zero)" for `FF<p>`, any prime `p`: `lcm` returns
`l < p`, `gcd` returns `g = 1`, `(l·g)·u = a·b` for a unit (= non-zero) `u < p`, `l` is normalised,
`l = 0` if an operand is `0` and `l = 1` otherwise; in particular `l = 0 ⇔ a·b mod p = 0`. -/
theorem ff_lcm (p : Nat) (hp : p.Prime) (a b : Nat) (ha : a < p) (hb : b < p) (hab : ¬(a = 0 ∧ b = 0)) :
    ∃ l g, (ffOps p).lcm a b = .ok l ∧ (ffOps p).gcd a b = .ok g ∧ l < p ∧ g = 1 ∧
      (∃ u, u < p ∧ u ≠ 0 ∧ FF.mul p (FF.mul p l g) u = FF.mul p a b) ∧
      (ffOps p).normalized l = l ∧
      l = (if a = 0 ∨ b = 0 then 0 else 1) ∧ (l = 0 ↔ a * b % p = 0) := by
  have := Fact.mk hp
  obtain ⟨l, g, e1, e2, hl, _, hg1, ⟨u, hu, hu0, hm⟩, hn, hv⟩ :=
    (FF.fieldModel p).lcm_spec a b ha hb ((FF.and_false_iff p a b).2 hab)
  rw [FF.ite_or, FF.one_eq] at hv
  replace hv : l = if a = 0 ∨ b = 0 then 0 else 1 := hv
  rw [FF.one_eq] at hg1
  refine ⟨l, g, e1, e2, hl, hg1, ⟨u, hu, (FF.isZero_false_iff p u).1 hu0, hm⟩, hn, hv, ?_⟩
  have hdvd : a * b % p = 0 ↔ (a = 0 ∨ b = 0) := by
    rw [← Nat.dvd_iff_mod_eq_zero, hp.dvd_mul]
    constructor
    · rintro (h | h)
      · exact Or.inl (Nat.eq_zero_of_dvd_of_lt h ha)
      · exact Or.inr (Nat.eq_zero_of_dvd_of_lt h hb)
    · rintro (h | h) <;> simp [h]
  rw [hdvd, hv]
  by_cases h : a = 0 ∨ b = 0 <;> simp [h]

/-- `lcm(0,0)` panics for `FF<p>` (division by the gcd `0`: `assert!(!rhs.is_zero())` in ff.rs `div`) -/
theorem ff_lcm_zero_zero (p : Nat) (hp : p.Prime) : (ffOps p).lcm 0 0 = .panic := by
  have := Fact.mk hp
  exact (FF.fieldModel p).lcm_zero_zero 0 0 hp.pos hp.pos ((FF.and_true_iff p 0 0).2 ⟨rfl, rfl⟩)

/-- fuel: over `FF<p>` (any `p`, prime or not, any operands) the `while !y.is_zero()` loops of `gcd`/`gcdx`
stop after at most one step because `%` is constantly `0`: every fuel `≥ 1` gives the same result. -/
theorem ff_euclid_loops_total (p : Nat) (fuel : Nat) (hf : 1 ≤ fuel) (x y s0 s1 t0 t1 : Nat) :
    (ffOps p).gcdLoop fuel x y = some (if y = 0 then x else y) ∧
    (ffOps p).gcdxLoop fuel x y s0 s1 t0 t1 = some (if y = 0 then (x, s0, t0) else (y, s1, t1)) := by
  obtain ⟨f, rfl⟩ : ∃ f, fuel = f + 1 := ⟨fuel - 1, by omega⟩
  constructor
  · unfold EucOps.gcdLoop
    by_cases h : y = 0
    · simp [ffOps, h]
    · unfold EucOps.gcdLoop; simp [ffOps, h]
  · unfold EucOps.gcdxLoop
    by_cases h : y = 0
    · simp [ffOps, h]
    · unfold EucOps.gcdxLoop; simp [ffOps, h]

/-- the hypotheses are satisfiable beyond the exhaustively checked primes: `p = 13` and `p = 101` -/
example : Nat.Prime 13 ∧ Nat.Prime 101 ∧
    FF.inv 13 5 = some 8 ∧ FF.div 13 7 5 = 4 ∧ FF.mul 13 4 5 = 7 ∧
    (ffOps 13).gcdx 6 11 = .ok (1, 11, 0) ∧ (11 * 6 + 0 * 11) % 13 = 1 ∧
    (ffOps 13).gcdx 0 11 = .ok (1, 0, 6) ∧ (ffOps 13).lcm 6 11 = .ok 1 ∧ (ffOps 13).lcm 0 11 = .ok 0 ∧
    FF.inv 101 37 = some 71 ∧ (ffOps 101).gcdx 37 5 = .ok (1, 71, 0) := by
  refine ⟨by norm_num, by norm_num, ?_⟩
  decide +kernel

end Yuiv.C15
