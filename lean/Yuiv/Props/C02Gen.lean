import Yuiv.Gen.Tables
/-
C02 (and C01, C04, C18): the crossing tables of the reference model (`KhRef.CT.*`, `slotSign`) are THE tables of
`yui-link/src/link/crossing.rs` / `link.rs` as they stand in /repo now (`Yuiv.Gen.*` is regenerated from the Rust source
by tools/rs2lean.py on every run).
-/
namespace Yuiv.KhRef

theorem gen_mirror_eq (c : CT) : Yuiv.Gen.mirror c = c.mirror := by cases c <;> rfl

/-- on unresolved crossings the generated table agrees; on resolved ones the Rust panics (the model is never asked) -/
theorem gen_resolve_eq (c : CT) (b : Bool) :
    (c.isResolved = false → Yuiv.Gen.resolve c b = some (c.resolve b)) ∧
    (c.isResolved = true → Yuiv.Gen.resolve c b = none) := by
  cases c <;> cases b <;> simp [Yuiv.Gen.resolve, CT.resolve, CT.isResolved]

theorem gen_pass_eq (c : CT) (j : Nat) : Yuiv.Gen.pass c j = c.pass j := by cases c <;> rfl

theorem gen_arcSlots_eq (c : CT) : Yuiv.Gen.arcSlots c = c.arcSlots := by cases c <;> rfl

theorem gen_slotSign_eq (c : CT) (j : Nat) (hj : j < 4) : Yuiv.Gen.slotSign c j = slotSign c j := by
  have : j = 0 ∨ j = 1 ∨ j = 2 ∨ j = 3 := by omega
  rcases this with rfl | rfl | rfl | rfl <;> cases c <;> rfl

end Yuiv.KhRef
