import Yuiv.Proofs.C05Deloop
/-
C05 (engine kernel) — delooping and Gaussian elimination of `TngComplex`
(`yui-khovanov/src/kh/internal/v2/tng_complex.rs`: `deloop` l.485, `deloop_with` l.515, `eliminate` l.548).
Property theorems only; model in `Yuiv/Model/C05Deloop.lean`, helper lemmas in `Yuiv/Proofs/C05Deloop.lean`.

`A = R[X]/(X² − hX − t)` is Mathlib's `QuadraticAlgebra R t h`; `ε = counit` (`ε 1 = 0`, `ε X = 1`);
`dotA : None ↦ 1, X ↦ X, Y ↦ Y = X − h`; closed surfaces are evaluated with the code model `evalClosed`
of `CobComp::eval` (`pairing`, `coord`).  Every statement is for EVERY commutative ring `R` with lawful `Coef`
operations and ALL `h, t` (the purely algebraic ones for every commutative ring).

What the code builds (the convention that is verified here):

    copy  label  q-shift   cap glued on incoming edges   cup glued under outgoing edges
     X     X      −1        plain   (Dot::None)            X-dotted (Dot::X)
     1     I      +1        Y-dotted (Dot::Y)              plain   (Dot::None)
    based circle: only the X copy.

NOT covered: that `deloop`/`eliminate` apply these maps to every incident edge of the graph (hash-map
bookkeeping of `rename_vertex_key`, `duplicate_vertex`, `modify_edge`, `remove_vertex`), functoriality of
`cap_off` for components with further boundary, and the tracked `elements` of the builder.
-/
namespace Yuiv.C05.Deloop
open Yuiv Yuiv.C05 Matrix

/-! ### (a) delooping is an isomorphism -/

/-- Unreduced case, `A ≅ R·X ⊕ R·1`.
(1) `R ⊕ R → A → R ⊕ R` is the identity: the 2×2 matrix of the spheres "cup of copy `i`, then cap of copy `j`",
evaluated by `CobComp::eval`, is the identity matrix (`ε(X) = 1, ε(XY) = 0, ε(1) = 0, ε(Y) = 1`).
(2) `A → R ⊕ R → A` is the identity: `a = ε(a·1)·X + ε(a·Y)·1` for every `a ∈ A`.
(3) the same with the code's evaluation: a cup with `g` handles and dots `(x, y)` (the general connected
cobordism bounding the circle) is the combination of the two dotted cups with the coefficients obtained by
capping it off with the dots of the two copies (`CobComp::eval` succeeds on both). -/
theorem deloop_iso {R : Type} [CommRing R] [Coef R] [LawfulCoef R] (h t : R) :
    (∀ ci ∈ deloopCopies false, ∀ cj ∈ deloopCopies false,
        pairing h t ci cj = .ok (if ci.label = cj.label then 1 else 0))
    ∧ (∀ a : A h t, a = counit (a * dotA h t copyX.deathDot) • dotA h t copyX.birthDot
          + counit (a * dotA h t copyI.deathDot) • dotA h t copyI.birthDot)
    ∧ (∀ g x y : Nat, ∃ rX rI : R, coord h t copyX g x y = .ok rX ∧ coord h t copyI g x y = .ok rI
          ∧ cupA h t g x y = rX • dotA h t copyX.birthDot + rI • dotA h t copyI.birthDot) := by
  refine ⟨?_, reconstruct h t, fun g x y => ⟨_, _, coord_eq h t copyX g x y, coord_eq h t copyI g x y,
    reconstruct h t _⟩⟩
  intro ci hi cj hj
  simp only [deloopCopies, Bool.false_eq_true, if_false, List.mem_cons, List.not_mem_nil, or_false] at hi hj
  rw [pairing_eq]
  rcases hi with rfl | rfl <;> rcases hj with rfl | rfl <;>
    simp [copyX, copyI, dotA, counit, Xd, Yd, QuadraticAlgebra.im_one]

/-- the four entries, spelled out -/
theorem deloop_iso_entries {R : Type} [CommRing R] [Coef R] [LawfulCoef R] (h t : R) :
    pairing h t copyX copyX = .ok 1 ∧ pairing h t copyX copyI = .ok 0
    ∧ pairing h t copyI copyX = .ok 0 ∧ pairing h t copyI copyI = .ok 1 := by
  have := (deloop_iso h t).1
  refine ⟨?_, ?_, ?_, ?_⟩
  · simpa using this copyX (by simp [deloopCopies]) copyX (by simp [deloopCopies])
  · simpa [copyX, copyI] using this copyX (by simp [deloopCopies]) copyI (by simp [deloopCopies])
  · simpa [copyX, copyI] using this copyI (by simp [deloopCopies]) copyX (by simp [deloopCopies])
  · simpa using this copyI (by simp [deloopCopies]) copyI (by simp [deloopCopies])

/-- Based (reduced) case: only the `X` copy is kept (`deloop`, `if based` branch).  The pair
`R --X-dotted cup--> A --plain cap--> R` is the identity for all `h, t` (`ε(X) = 1`); the other composite is the
identity ON THE IDEAL `X·A` (the reduced complex: the based circle carries `X`) exactly up to the error term
`t·ε(b)`, so it is the identity when `t = 0` — the condition `KhComplex::new` asserts for `reduced`
(`ctorGuard` of `Model/C05`).  `TngComplex::init` itself does not check it. -/
theorem deloop_iso_based {R : Type} [CommRing R] [Coef R] [LawfulCoef R] (h t : R) :
    deloopCopies true = [copyX]
    ∧ pairing h t copyX copyX = .ok 1
    ∧ (∀ b : A h t, Xd h t * b
        = counit (Xd h t * b * dotA h t copyX.deathDot) • dotA h t copyX.birthDot + Cc h t (t * counit b))
    ∧ (t = 0 → ∀ b : A h t, Xd h t * b
        = counit (Xd h t * b * dotA h t copyX.deathDot) • dotA h t copyX.birthDot)
    ∧ (t = 0 → ∀ g x y : Nat, ∃ r : R, coord h t copyX g (x + 1) y = .ok r
        ∧ cupA h t g (x + 1) y = r • dotA h t copyX.birthDot) := by
  refine ⟨rfl, (deloop_iso_entries h t).1, reconstruct_based h t, ?_, ?_⟩
  · intro ht b
    subst ht
    have := reconstruct_based h 0 b
    simpa [Cc] using this
  · intro ht g x y
    subst ht
    refine ⟨_, coord_eq h 0 copyX g (x + 1) y, ?_⟩
    have hx : cupA h 0 g (x + 1) y = Xd h 0 * cupA h 0 g x y := by unfold cupA; ring
    have := reconstruct_based h 0 (cupA h 0 g x y)
    rw [hx]
    simpa [Cc] using this

/-- the error term of the based case is really there when `t ≠ 0` (so `t = 0` cannot be dropped):
over `ℤ` with `h = 0, t = 1`, `X·X = 1` is not a multiple of `X`. -/
example : Xd (0 : Int) 1 * Xd 0 1
    ≠ counit (Xd (0 : Int) 1 * Xd 0 1 * dotA 0 1 copyX.deathDot) • dotA 0 1 copyX.birthDot := by
  intro h
  have := congrArg QuadraticAlgebra.re h
  simp [Xd, dotA, copyX, counit] at this

/-! ### (b) degrees -/

/-- Gradings.  Convention of the engine (Bar-Natan): an edge `f : v → w` has total degree
`deg f + q(w) − q(v)`, it must be `0`; `deg` = `CobComp::deg` = `χ − #endpts/2 − 2·#dots`, coefficients count
with `deg h = −2`, `deg t = −4`; a label entry `I` / `X` shifts `q` by `+1` / `−1` (`KhGen::q_deg`).
(1) for every copy of either branch, the cap into it and the cup out of it have total degree 0;
(2) capping any component (any boundary data, genus, dots) with a dotted disc adds exactly the degree of that
disc, so an incoming/outgoing edge of total degree 0 stays of total degree 0 after `deloop_with`;
(3) the shifts are `−1` (copy `X`) and `+1` (copy `1`). -/
theorem deloop_degrees :
    (∀ based : Bool, ∀ c ∈ deloopCopies based,
        discDeg c.deathDot + c.label.qShift = 0 ∧ discDeg c.birthDot - c.label.qShift = 0)
    ∧ (∀ (d : Dot) (nbdr endpts g x y : Nat),
        C05.deg nbdr endpts g (addDot d (x, y)).1 (addDot d (x, y)).2
          = C05.deg (nbdr + 1) endpts g x y + discDeg d)
    ∧ copyX.label.qShift = -1 ∧ copyI.label.qShift = 1 := by
  refine ⟨?_, ?_, by decide, by decide⟩
  · intro based c hc
    have : c = copyX ∨ c = copyI := by
      cases based <;> simp [deloopCopies] at hc <;> tauto
    rcases this with rfl | rfl <;> simp [discDeg, C05.deg, eulerNum, addDot, copyX, copyI, AlgGen.qShift, AlgGen.deg]
  · intro d nbdr endpts g x y
    cases d <;> simp only [discDeg, C05.deg, eulerNum, addDot] <;> push_cast <;> ring

/-- The scalars of the 2×2 matrix of `deloop_iso` are homogeneous for the shifts: with polynomial parameters
`h = H`, `t = T` (`deg H = −2`, `deg T = −4`), every monomial `H^a T^b` occurring in the value of the sphere
"cup of copy `i`, cap of copy `j`" satisfies `deg(H^a T^b) + q-shift(j) − q-shift(i) = 0`. -/
theorem deloop_degrees_pairing :
    ∀ ci ∈ deloopCopies false, ∀ cj ∈ deloopCopies false,
      ∀ p ∈ partEval HT.H HT.T true 0 (addDot cj.deathDot (cupDots ci)).1 (addDot cj.deathDot (cupDots ci)).2,
        ∀ q ∈ p.2, monoDeg q.1 + cj.label.qShift - ci.label.qShift = 0 := by
  intro ci hi cj hj p hp q hq
  have hh := partEval_homogeneous true 0 0 0 _ _ (fun _ => ⟨rfl, rfl⟩) p hp q hq
  have hk : p.1 = Key.empty := by
    rcases partEval_closed_scalar HT.H HT.T 0 (addDot cj.deathDot (cupDots ci)).1
      (addDot cj.deathDot (cupDots ci)).2 with h0 | ⟨r, h1⟩
    · rw [h0] at hp; simp at hp
    · rw [h1] at hp
      have : p = (Key.empty, r) := by simpa using hp
      rw [this]
  rw [hk] at hh
  simp only [deloopCopies, Bool.false_eq_true, if_false, List.mem_cons, List.not_mem_nil, or_false] at hi hj
  rcases hi with rfl | rfl <;> rcases hj with rfl | rfl <;>
    simp [Key.deg, C05.deg, eulerNum, addDot, cupDots, copyX, copyI, AlgGen.qShift, AlgGen.deg] at hh ⊢ <;>
    omega

/-- non-vacuity: the diagonal entries do have a term (the constant monomial) -/
example : partEval HT.H HT.T true 0 (addDot copyX.deathDot (cupDots copyX)).1
    (addDot copyX.deathDot (cupDots copyX)).2 = [(Key.empty, [((0, 0), 1)])] := by
  simp [partEval, addDot, cupDots, copyX]; decide

/-! ### (c) Gaussian elimination -/

/-- One elimination step, every block 1×1, entries in ANY ring `R` (not necessarily commutative — composition
of cobordisms is not), edges stored as `Option` (absent = 0).
`u --[x; y]--> k0 ⊕ l0 --[[a, b], [c, d]]--> k1 ⊕ l1 --[z w]--> u'` with `M·in = 0`, `out·M = 0`, the pivot `a`
present and inverted by `LcCob::inv` (any `inv` that returns two-sided inverses).  Then `eliminate` does not
panic, the entry `l0 → l1` becomes `d − c·a⁻¹·b` (whether or not the edge `d`, `b` or `c` existed), the
neighbours become `in' = y`, `out' = w`, and `d'·in' = 0`, `out'·d' = 0`.
This is the case `r = m = n = k = l = Unit` of `C08.schur_step_in_sq_zero` / `schur_step_out_sq_zero`
(see `eliminate_step_blocks` for arbitrarily many neighbours), proved here directly for the code model. -/
theorem eliminate_step {R : Type} [Ring R] (isZero : R → Bool) (hz : ∀ r, isZero r = true → r = 0)
    (inv : R → Option R) (hinv : ∀ a ai, inv a = some ai → a * ai = 1 ∧ ai * a = 1)
    (m : Blk R) (a ainv : R) (ha : m.a = some a) (hai : inv a = some ainv)
    (hMN1 : a * val m.x + val m.b * val m.y = 0) (hMN2 : val m.c * val m.x + val m.d * val m.y = 0)
    (hLM1 : val m.z * a + val m.w * val m.c = 0) (hLM2 : val m.z * val m.b + val m.w * val m.d = 0) :
    ∃ red, eliminate isZero inv m = .ok red
      ∧ val red.d' = val m.d - val m.c * ainv * val m.b
      ∧ red.in' = m.y ∧ red.out' = m.w
      ∧ val red.d' * val red.in' = 0 ∧ val red.out' * val red.d' = 0 := by
  obtain ⟨h1, h2⟩ := hinv a ainv hai
  refine ⟨⟨m.y, elimEntry isZero ainv m.b m.c m.d, m.w⟩, ?_, elimEntry_val isZero hz ainv _ _ _, rfl, rfl, ?_, ?_⟩
  · simp only [eliminate, ha, hai]
  · show val (elimEntry isZero ainv m.b m.c m.d) * val m.y = 0
    rw [elimEntry_val isZero hz]
    have hby : val m.b * val m.y = -(a * val m.x) := eq_neg_of_add_eq_zero_right hMN1
    rw [sub_mul, mul_assoc _ (val m.b), hby, mul_neg, mul_assoc (val m.c), ← mul_assoc ainv, h2, one_mul,
      sub_neg_eq_add, add_comm]
    exact hMN2
  · show val m.w * val (elimEntry isZero ainv m.b m.c m.d) = 0
    rw [elimEntry_val isZero hz]
    have hwc : val m.w * val m.c = -(val m.z * a) := eq_neg_of_add_eq_zero_right hLM1
    rw [mul_sub, ← mul_assoc, ← mul_assoc, hwc, neg_mul, neg_mul, mul_assoc (val m.z), h1, mul_one,
      sub_neg_eq_add, add_comm]
    exact hLM2

/-- `a.inv()` failing or a missing pivot edge is a panic, never a silent wrong answer -/
theorem eliminate_panics {R : Type} [Ring R] (isZero : R → Bool) (inv : R → Option R) (m : Blk R)
    (h : m.a = none ∨ ∃ a, m.a = some a ∧ inv a = none) : eliminate isZero inv m = .panic := by
  rcases h with h | ⟨a, h1, h2⟩
  · simp only [eliminate, h]
  · simp only [eliminate, h1, h2]

/-- non-vacuity of `eliminate_step` over `ℤ`: pivot `−1`, `b = 2`, `c = 3`, `d = −6`, neighbours `x = 2, y = 1`,
`z = 3, w = 1` satisfy all four hypotheses; the new entry `−6 − 3·(−1)·2 = 0` is not stored.  Second example:
the edge `d` is absent and the new entry is `0 − 3·(−1)·2 = 6`. -/
example : let m : Blk Int := ⟨some 2, some 1, some (-1), some 2, some 3, some (-6), some 3, some 1⟩
    ((-1 : Int) * val m.x + val m.b * val m.y = 0 ∧ val m.c * val m.x + val m.d * val m.y = 0
      ∧ val m.z * (-1) + val m.w * val m.c = 0 ∧ val m.z * val m.b + val m.w * val m.d = 0)
    ∧ eliminate (fun r => r == 0) (fun r => if r = 1 ∨ r = -1 then some r else none) m
        = .ok ⟨some 1, none, some 1⟩ := by decide

example : eliminate (fun r : Int => r == 0) (fun r => if r = 1 ∨ r = -1 then some r else none)
    ⟨none, none, some (-1), some 2, some 3, none, none, none⟩ = .ok ⟨none, some 6, none⟩ := by decide

/-- The same step with arbitrarily many other vertices (`l0ⱼ`, `j : n`; `l1ᵢ`, `i : m`; predecessors `k`,
successors `l`) around the single pivot edge — the shape `TngComplex::eliminate` really handles.  The matrix of
the entries the code writes (`elimFn`) is the Schur complement `d − c·a⁻¹·b`, and the untouched neighbours `y`,
`w` compose to zero with it.  Corollary of `C08.schur_step_in_sq_zero`, `C08.schur_step_out_sq_zero`
specialised to a 1×1 pivot block. -/
theorem eliminate_step_blocks {R : Type} [Ring R] {m n k l : Type} [Fintype m] [Fintype n]
    (isZero : R → Bool) (hz : ∀ r, isZero r = true → r = 0)
    (a ainv : R) (hai : a * ainv = 1) (hia : ainv * a = 1)
    (b : n → Option R) (c : m → Option R) (d : m → n → Option R)
    (x : Matrix Unit k R) (y : Matrix n k R) (z : Matrix l Unit R) (w : Matrix l m R)
    (hMN : fromBlocks (pivM a) (rowM b) (colM c) (matM d) * fromRows x y = 0)
    (hLM : fromCols z w * fromBlocks (pivM a) (rowM b) (colM c) (matM d) = 0) :
    matM (elimFn isZero ainv b c d) = matM d - colM c * pivM ainv * rowM b
    ∧ matM (elimFn isZero ainv b c d) * y = 0
    ∧ w * matM (elimFn isZero ainv b c d) = 0 := by
  have e := elimFn_matM isZero hz ainv b c d
  have h1 : pivM ainv * pivM a = 1 := by rw [pivM_mul, hia, pivM_one]
  have h2 : pivM a * pivM ainv = 1 := by rw [pivM_mul, hai, pivM_one]
  refine ⟨e, ?_, ?_⟩
  · rw [e]; exact C08.schur_step_in_sq_zero (pivM a) _ _ _ _ x y h1 hMN
  · rw [e]; exact C08.schur_step_out_sq_zero (pivM a) _ _ _ _ z w h2 hLM

/-- non-vacuity of `eliminate_step_blocks` (two vertices `l0`, two vertices `l1`, over `ℤ`, pivot `1`) -/
example :
    let b : Fin 2 → Option Int := ![some 2, none]
    let c : Fin 2 → Option Int := ![some 3, none]
    let d : Fin 2 → Fin 2 → Option Int := ![![some 6, none], ![none, some 5]]
    let x : Matrix Unit (Fin 1) Int := Matrix.of fun _ _ => -2
    let y : Matrix (Fin 2) (Fin 1) Int := !![1; 0]
    fromBlocks (pivM 1) (rowM b) (colM c) (matM d) * fromRows x y = 0
      ∧ matM (elimFn (fun r => r == 0) 1 b c d) = !![0, 0; 0, 5] := by
  decide

end Yuiv.C05.Deloop
