import Yuiv.Proofs.C03Uct
import Yuiv.Proofs.C03UctEx
import Yuiv.Proofs.C03UctExist
/-
C03Uct — the counting form of the universal coefficient theorem, at the matrix level, for ARBITRARY integer
complexes (this replaces "classical mathematics not formalised" for the clauses `rank_ℚ = rank_ℤ` and the
`dim_𝔽p` formula of property C03).

Setting (cohomological indexing, as in `Model/C03`):   ℤˡ --A--> ℤⁿ --B--> ℤᵏ ,  B * A = 0 ,
`A : Matrix (Fin n) (Fin l) ℤ` the incoming, `B : Matrix (Fin k) (Fin n) ℤ` the outgoing differential of
the middle group, `H = ker B / im A`.

Hypothesis form for Smith normal forms: `EquivDiag A d`  :=  `d.length ≤ min n l` and there are integer
matrices `P, Q` with unit determinants and `P * A * Q = rectDiag d` (the `n × l` matrix with `d` on the diagonal,
zero elsewhere).  That is the data `yui-matrix/src/dense/snf.rs` produces (C09 proves it of the code model);
`EquivDiag.of_inverses` accepts it with explicit inverses `P * P⁻¹ = 1`, `Q * Q⁻¹ = 1`.  The divisibility chain
`d₁ ∣ d₂ ∣ …` is not needed for the counts.  The hypothesis is satisfiable for every matrix (`snf_exists`, from
Mathlib's Smith normal form for submodules over a PID), which gives the unconditional form `uct_exists`; by
`snf_counts_unique` the counts do not depend on the diagonal form chosen.

Reporting convention of the library (correctness of which is C07):
  rank_ℤ H = n − #{dₖ(A) ≠ 0} − #{dₖ(B) ≠ 0},   torsion orders of H = `torsOf dA` = the dₖ(A) with dₖ ≠ 0, |dₖ| ≠ 1,
  torsion orders of the NEXT group (coker-side of `B`) = `torsOf dB`.

Over a field `K` the dimension of the homology of `C ⊗ K` is by `finrank_homology` equal to
`n − rank(A ⊗ K) − rank(B ⊗ K)`; the theorems are given both for that number and for `finrank K (ker/im)`.
Everything is proved from Mathlib's `Matrix.rank` (rank is invariant under multiplication by matrices with unit
determinant; rank–nullity); no theorem here depends on anything but `propext`, `Classical.choice`, `Quot.sound`.
Not covered (topological, out of scope): the 𝔽₂ reduced/unreduced clause; that the library's SNF generators are
q-homogeneous (finding F5).
-/
namespace Yuiv.C03Uct
open Matrix Module Yuiv.C03

/-! ### (a) ranks over ℚ and 𝔽_p from diagonal-form data -/

/-- rank over ℚ = number of non-zero diagonal entries -/
theorem snf_rank_rat {m n : ℕ} (A : Matrix (Fin m) (Fin n) ℤ) (d : List ℤ) (h : EquivDiag A d) :
    (toRat A).rank = (d.filter (fun x => x != 0)).length :=
  rank_rat_of_equivDiag A d h

/-- rank over 𝔽_p of `A mod p` = number of diagonal entries NOT divisible by `p` -/
theorem snf_rank_fp (p : ℕ) [Fact p.Prime] {m n : ℕ} (A : Matrix (Fin m) (Fin n) ℤ) (d : List ℤ)
    (h : EquivDiag A d) :
    (redMod p A).rank = (d.filter (fun x => !(x % (p : ℤ) == 0))).length :=
  rank_zmod_of_equivDiag p A d h

/-- consequently the three counts the tables are built from do not depend on which diagonal form (which SNF
algorithm, which pivots, which transforms) was used -/
theorem snf_counts_unique (p : ℕ) [Fact p.Prime] {m n : ℕ} (A : Matrix (Fin m) (Fin n) ℤ) (d d' : List ℤ)
    (h : EquivDiag A d) (h' : EquivDiag A d') :
    nz d = nz d' ∧ ndiv p d = ndiv p d' ∧
      ((torsOf d).filter (fun a => a % (p : ℤ) == 0)).length
        = ((torsOf d').filter (fun a => a % (p : ℤ) == 0)).length := by
  have hp : (2 : ℤ) ≤ p := by exact_mod_cast (Fact.out : p.Prime).two_le
  have h1 : nz d = nz d' := by
    rw [← rank_rat_of_equivDiag A d h, ← rank_rat_of_equivDiag A d' h']
  have h2 : ndiv p d = ndiv p d' := by
    rw [← rank_zmod_of_equivDiag p A d h, ← rank_zmod_of_equivDiag p A d' h']
  refine ⟨h1, h2, ?_⟩
  rw [tors_count p hp, tors_count p hp]
  have := nz_eq_ndiv_add_tdiv p d
  have := nz_eq_ndiv_add_tdiv p d'
  omega

/-! ### (b) the complex `ℤˡ --A--> ℤⁿ --B--> ℤᵏ` -/

/-- `rank_ℚ H = rank_ℤ H` (matrix form): `n − rk_ℚ A − rk_ℚ B = n − #{dₖ(A) ≠ 0} − #{dₖ(B) ≠ 0}` -/
theorem uct_rank_rat {l n k : ℕ} (A : Matrix (Fin n) (Fin l) ℤ) (B : Matrix (Fin k) (Fin n) ℤ)
    (dA dB : List ℤ) (hA : EquivDiag A dA) (hB : EquivDiag B dB) :
    n - (toRat A).rank - (toRat B).rank = (cellOf n dA dB).rank := by
  rw [rank_rat_of_equivDiag A dA hA, rank_rat_of_equivDiag B dB hB]
  rfl

/-- the counting universal coefficient theorem (matrix form), for every prime `p` and every pair of integer
matrices with `B * A = 0`:
`n − rk_p A − rk_p B = rank_ℤ H + #{torsion orders of H divisible by p} + #{torsion orders of the next group
divisible by p}` -/
theorem uct_count_fp (p : ℕ) [Fact p.Prime] {l n k : ℕ} (A : Matrix (Fin n) (Fin l) ℤ)
    (B : Matrix (Fin k) (Fin n) ℤ) (hBA : B * A = 0) (dA dB : List ℤ)
    (hA : EquivDiag A dA) (hB : EquivDiag B dB) :
    n - (redMod p A).rank - (redMod p B).rank
      = (cellOf n dA dB).rank
        + ((torsOf dA).filter (fun a => a % (p : ℤ) == 0)).length
        + ((torsOf dB).filter (fun a => a % (p : ℤ) == 0)).length := by
  have hp : (2 : ℤ) ≤ p := by exact_mod_cast (Fact.out : p.Prime).two_le
  rw [tors_count p hp, tors_count p hp]
  exact uct_arith p A B hBA dA dB hA hB

/-- `dim_ℚ H(C ⊗ ℚ) = rank_ℤ H`, with the homology taken literally as `ker/im` -/
theorem uct_homology_rat {l n k : ℕ} (A : Matrix (Fin n) (Fin l) ℤ) (B : Matrix (Fin k) (Fin n) ℤ)
    (hBA : B * A = 0) (dA dB : List ℤ) (hA : EquivDiag A dA) (hB : EquivDiag B dB) :
    finrank ℚ (Homology (toRat A) (toRat B)) = (cellOf n dA dB).rank := by
  rw [finrank_homology _ _ (toRat_mul_eq_zero A B hBA)]
  exact uct_rank_rat A B dA dB hA hB

/-- `dim_𝔽p H(C ⊗ 𝔽_p)`, with the homology taken literally as `ker/im`, is given by the count -/
theorem uct_homology_fp (p : ℕ) [Fact p.Prime] {l n k : ℕ} (A : Matrix (Fin n) (Fin l) ℤ)
    (B : Matrix (Fin k) (Fin n) ℤ) (hBA : B * A = 0) (dA dB : List ℤ)
    (hA : EquivDiag A dA) (hB : EquivDiag B dB) :
    finrank (ZMod p) (Homology (redMod p A) (redMod p B))
      = (cellOf n dA dB).rank
        + ((torsOf dA).filter (fun a => a % (p : ℤ) == 0)).length
        + ((torsOf dB).filter (fun a => a % (p : ℤ) == 0)).length := by
  rw [finrank_homology _ _ (redMod_mul_eq_zero p A B hBA)]
  exact uct_count_fp p A B hBA dA dB hA hB

/-! ### the hypotheses are always satisfiable: unconditional form -/

/-- every integer matrix has a diagonal form (from Mathlib's Smith normal form over a PID) -/
theorem snf_exists {m n : ℕ} (A : Matrix (Fin m) (Fin n) ℤ) : ∃ d : List ℤ, EquivDiag A d :=
  exists_equivDiag A

/-- unconditional counting UCT: for EVERY pair of integer matrices with `B * A = 0` there are a ℤ-cell
(free rank + torsion orders, read off diagonal forms of `A` and `B`) and a torsion list of the next group such that
the rational homology has dimension `rank` and, for every prime `p`, the mod-`p` homology has dimension
`rank + #{p ∣ torsion} + #{p ∣ next torsion}` -/
theorem uct_exists {l n k : ℕ} (A : Matrix (Fin n) (Fin l) ℤ) (B : Matrix (Fin k) (Fin n) ℤ)
    (hBA : B * A = 0) :
    ∃ (dA dB : List ℤ), EquivDiag A dA ∧ EquivDiag B dB ∧
      finrank ℚ (Homology (toRat A) (toRat B)) = (cellOf n dA dB).rank ∧
      ∀ (p : ℕ) [Fact p.Prime],
        finrank (ZMod p) (Homology (redMod p A) (redMod p B))
          = (cellOf n dA dB).rank
            + ((cellOf n dA dB).tors.filter (fun a => a % (p : ℤ) == 0)).length
            + ((torsOf dB).filter (fun a => a % (p : ℤ) == 0)).length := by
  obtain ⟨dA, hA⟩ := exists_equivDiag A
  obtain ⟨dB, hB⟩ := exists_equivDiag B
  exact ⟨dA, dB, hA, hB, uct_homology_rat A B hBA dA dB hA hB,
    fun p _ => uct_homology_fp p A B hBA dA dB hA hB⟩

/-! ### (c) in the vocabulary of `Model/C03`: the oracle clauses as theorems -/

/-- oracle clause "dim_Fp formula": if a ℤ-table `z` reports at `(i,j)` the cell of `H = ker B / im A` and at
`(i+1,j)` the torsion read off `B`, then `dimFp p z i j` (the formula the harness evaluates on the library's
ℤ-table) IS the dimension of the homology of the complex reduced mod `p` -/
theorem dimFp_formula (p : ℕ) [Fact p.Prime] {l n k : ℕ} (A : Matrix (Fin n) (Fin l) ℤ)
    (B : Matrix (Fin k) (Fin n) ℤ) (hBA : B * A = 0) (dA dB : List ℤ)
    (hA : EquivDiag A dA) (hB : EquivDiag B dB)
    (z : Table) (i j : ℤ) (hz : z.get (i, j) = cellOf n dA dB) (hz' : (z.get (i + 1, j)).tors = torsOf dB) :
    dimFp (p : ℤ) z i j = finrank (ZMod p) (Homology (redMod p A) (redMod p B)) ∧
    dimFp (p : ℤ) z i j = n - (redMod p A).rank - (redMod p B).rank := by
  have h := uct_count_fp p A B hBA dA dB hA hB
  have h' := uct_homology_fp p A B hBA dA dB hA hB
  unfold dimFp
  rw [hz, hz']
  exact ⟨h'.symm, h.symm⟩

/-- oracle clause "rank_ℚ = rank_ℤ": the rank the ℤ-table reports is the dimension of the rational homology -/
theorem rankQ_formula {l n k : ℕ} (A : Matrix (Fin n) (Fin l) ℤ) (B : Matrix (Fin k) (Fin n) ℤ)
    (hBA : B * A = 0) (dA dB : List ℤ) (hA : EquivDiag A dA) (hB : EquivDiag B dB)
    (z : Table) (i j : ℤ) (hz : z.get (i, j) = cellOf n dA dB) :
    (z.get (i, j)).rank = finrank ℚ (Homology (toRat A) (toRat B)) := by
  rw [hz]; exact (uct_homology_rat A B hBA dA dB hA hB).symm

/-- the diagonal complexes of `Props/C03.lean` are the special case `0 → ℤⁿ --diag(a)--> ℤⁿ → 0`:
`diagHomologyZ a` is the pair of cells of the general convention, `diagDimFp` is the corank mod `p`, and the
statement of `dimFp_diag` (for prime `p`) follows from `uct_count_fp` applied twice -/
theorem dimFp_diag_of_uct (p : ℕ) [Fact p.Prime] (a : List ℤ) :
    diagHomologyZ a = (cellOf a.length [] a, cellOf a.length a []) ∧
    diagDimFp (p : ℤ) a = a.length - (redMod p (rectDiag a.length a.length (fun k => a.getD k 0))).rank ∧
    (let hz := diagHomologyZ a
     let cnt : List Int → Nat := fun ts => (ts.filter (fun x => x % (p : ℤ) == 0)).length
     hz.1.rank + cnt hz.1.tors + cnt hz.2.tors = diagDimFp (p : ℤ) a ∧
     hz.2.rank + cnt hz.2.tors + cnt [] = diagDimFp (p : ℤ) a) := by
  set n := a.length with hn
  have hD : EquivDiag (rectDiag n n (fun k => a.getD k 0)) a := EquivDiag.rectDiag n n a (by simp [hn])
  have hL : EquivDiag (rectDiag n 0 (fun k => ([] : List ℤ).getD k 0)) [] := EquivDiag.rectDiag n 0 [] (by simp)
  have hR : EquivDiag (rectDiag 0 n (fun k => ([] : List ℤ).getD k 0)) [] := EquivDiag.rectDiag 0 n [] (by simp)
  have hdim := diagDimFp_eq (p : ℤ) a
  have hrk := rank_zmod_of_equivDiag p _ a hD
  have e1 := uct_count_fp p _ _ (by ext i j; exact j.elim0) [] a hL hD
  have e2 := uct_count_fp p _ _ (by ext i j; exact i.elim0) a [] hD hR
  rw [rank_zmod_of_equivDiag p _ _ hL, hrk] at e1
  rw [rank_zmod_of_equivDiag p _ _ hR, hrk] at e2
  refine ⟨diagHomologyZ_eq a, ?_, ?_⟩
  · rw [hrk]; omega
  · rw [diagHomologyZ_eq a]
    simp only [ndiv, List.filter_nil, List.length_nil, Nat.sub_zero] at e1 e2
    have t0 : torsOf [] = [] := rfl
    rw [t0] at e1 e2
    simp only [List.filter_nil, List.length_nil, Nat.add_zero] at e1 e2 ⊢
    constructor
    · have : (cellOf n [] a).tors = [] := rfl
      rw [this]
      simp only [List.filter_nil, List.length_nil, Nat.add_zero]
      have : (cellOf n a []).tors = torsOf a := rfl
      rw [this, ← e1]
      simp only [ndiv] at hdim; omega
    · have : (cellOf n a []).tors = torsOf a := rfl
      rw [this, ← e2]
      simp only [ndiv] at hdim; omega

/-! ### non-vacuity -/

section Examples
open Yuiv.C03Uct.Ex

/-- hypotheses are satisfiable: `diag(2,3)` has the diagonal forms `[2,3]` (trivially) and `[1,-6]` (its SNF, through
non-trivial unimodular `P, Q`), and the counts agree as `snf_counts_unique` says -/
example : EquivDiag exA [2, 3] ∧ EquivDiag exA [1, -6] := ⟨exA_diag, exA_snf⟩

/-- the complex `ℤ --(2,0)ᵀ--> ℤ² --(0 3)--> ℤ` : `H = ℤ/2`, next group `ℤ/3` -/
example : finrank ℚ (Homology (toRat exA1) (toRat exB1)) = 0 := by
  rw [uct_homology_rat exA1 exB1 exBA [2] [3] exA1_snf exB1_snf]; decide
example : finrank (ZMod 2) (Homology (redMod 2 exA1) (redMod 2 exB1)) = 1 := by
  rw [uct_homology_fp 2 exA1 exB1 exBA [2] [3] exA1_snf exB1_snf]; decide
example : finrank (ZMod 3) (Homology (redMod 3 exA1) (redMod 3 exB1)) = 1 := by
  rw [uct_homology_fp 3 exA1 exB1 exBA [2] [3] exA1_snf exB1_snf]; decide
example : finrank (ZMod 5) (Homology (redMod 5 exA1) (redMod 5 exB1)) = 0 := by
  rw [uct_homology_fp 5 exA1 exB1 exBA [2] [3] exA1_snf exB1_snf]; decide

/-- `ℤ² --diag(2,3)--> ℤ² --> 0` through its SNF `diag(1,-6)`: `H = ℤ/6`, one 𝔽₂- and one 𝔽₃-dimension, none
over 𝔽₅ -/
example : finrank (ZMod 2) (Homology (redMod 2 exA) (redMod 2 (0 : Matrix (Fin 0) (Fin 2) ℤ))) = 1 := by
  rw [uct_homology_fp 2 exA 0 exZero [1, -6] [] exA_snf exZero_snf]; decide
example : finrank (ZMod 3) (Homology (redMod 3 exA) (redMod 3 (0 : Matrix (Fin 0) (Fin 2) ℤ))) = 1 := by
  rw [uct_homology_fp 3 exA 0 exZero [1, -6] [] exA_snf exZero_snf]; decide
example : finrank (ZMod 5) (Homology (redMod 5 exA) (redMod 5 (0 : Matrix (Fin 0) (Fin 2) ℤ))) = 0 := by
  rw [uct_homology_fp 5 exA 0 exZero [1, -6] [] exA_snf exZero_snf]; decide

/-- `dimFp` on a concrete table for that complex -/
example : dimFp 2 [((0, 0), cellOf 2 [1, -6] [])] 0 0 = 1 ∧ dimFp 3 [((0, 0), cellOf 2 [1, -6] [])] 0 0 = 1 ∧
    dimFp 5 [((0, 0), cellOf 2 [1, -6] [])] 0 0 = 0 := by decide

end Examples

end Yuiv.C03Uct
