import Yuiv.Proofs.C08Schur
import Yuiv.Proofs.C08
import Mathlib.Data.ZMod.Basic
/-
C08 — chain reduction is a homotopy equivalence with correct transfer maps.  Property theorems only.

 1. one Schur step (the mechanism of `ChainReducer::reduce_at_spec` + `Schur::from_partial_triangular`), for
    any ring, any finite block sizes, pivot block `a` merely invertible: the transfer maps the code builds
    (`F_src = [0 1]`, `B_src = [-a⁻¹b; 1]`, `F_tgt = [-c a⁻¹ 1]`, `B_tgt = [0; 1]`) are chain maps for the three
    affected differentials, `F B = 1`, the reduced neighbours compose to zero with `S = d - c a⁻¹ b`;
 2. the homotopy `B F - 1 = d h + h d` with `h = [-a⁻¹ 0; 0 0]`;
 3. composition: reduction data (and homotopy equivalences) are closed under identity, composition and
    conjugation by invertible / permutation matrices — the induction principle for any sequence of steps;
 4. the executable checker that the driver runs on the exported state of the real reducer is sound and complete.

Definitions: `Yuiv/Proofs/C08Schur.lean` (Schur maps, `IsReduction`, `IsHomotopyEquiv`), `Yuiv/Proofs/C08.lean`
(`toM`, `Spec`), `Yuiv/Model/C08.lean` (`check`).
-/
namespace Yuiv.C08
open Matrix

/-! ## 1. one Schur step -/

/-- (a) `F_tgt * M * B_src = S`. -/
theorem schur_step_FMB {R : Type*} [Ring R] {r m n : Type*} [Fintype r] [DecidableEq r]
    [Fintype m] [DecidableEq m] [Fintype n] [DecidableEq n]
    (a ainv : Matrix r r R) (b : Matrix r n R) (c : Matrix m r R) (d : Matrix m n R)
    (hia : ainv * a = 1) :
    Ftgt ainv c * fromBlocks a b c d * Bsrc ainv b = schurS ainv b c d := by
  simp only [Ftgt, Bsrc, schurS, fromCols_mul_fromBlocks, fromCols_mul_fromRows, Matrix.neg_mul,
    Matrix.mul_neg, Matrix.one_mul, Matrix.mul_one, inv_mul_cancel_right' hia, neg_add_cancel,
    Matrix.zero_mul]
  abel

/-- (b) `F_src * B_src = 1`. -/
theorem schur_step_FB_src {R : Type*} [Ring R] {r n : Type*} [Fintype r]
    [Fintype n] [DecidableEq n] (ainv : Matrix r r R) (b : Matrix r n R) :
    Fsrc R r n * Bsrc ainv b = 1 := by
  simp [Fsrc, Bsrc, fromCols_mul_fromRows]

/-- (b) `F_tgt * B_tgt = 1`. -/
theorem schur_step_FB_tgt {R : Type*} [Ring R] {r m : Type*} [Fintype r]
    [Fintype m] [DecidableEq m] (ainv : Matrix r r R) (c : Matrix m r R) :
    Ftgt ainv c * Btgt R r m = 1 := by
  simp [Ftgt, Btgt, fromCols_mul_fromRows]

/-- (c) `F_tgt * M = S * F_src`: `F` is a chain map across the reduced differential. -/
theorem schur_step_F_comm {R : Type*} [Ring R] {r m n : Type*} [Fintype r] [DecidableEq r]
    [Fintype m] [DecidableEq m] [Fintype n] [DecidableEq n]
    (a ainv : Matrix r r R) (b : Matrix r n R) (c : Matrix m r R) (d : Matrix m n R)
    (hia : ainv * a = 1) :
    Ftgt ainv c * fromBlocks a b c d = schurS ainv b c d * Fsrc R r n := by
  simp only [Ftgt, Fsrc, schurS, fromCols_mul_fromBlocks, mul_fromCols, Matrix.neg_mul,
    Matrix.mul_zero, Matrix.one_mul, Matrix.mul_one, inv_mul_cancel_right' hia, fromCols_ext_iff]
  constructor <;> abel

/-- (d) `M * B_src = B_tgt * S`: `B` is a chain map across the reduced differential. -/
theorem schur_step_B_comm {R : Type*} [Ring R] {r m n : Type*} [Fintype r] [DecidableEq r]
    [Fintype m] [DecidableEq m] [Fintype n] [DecidableEq n]
    (a ainv : Matrix r r R) (b : Matrix r n R) (c : Matrix m r R) (d : Matrix m n R)
    (hai : a * ainv = 1) :
    fromBlocks a b c d * Bsrc ainv b = Btgt R r m * schurS ainv b c d := by
  simp only [Btgt, Bsrc, schurS, fromBlocks_mul_fromRows, fromRows_mul, Matrix.mul_neg,
    Matrix.zero_mul, Matrix.one_mul, Matrix.mul_one, mul_inv_cancel_left' hai, fromRows_ext_iff,
    ← Matrix.mul_assoc]
  constructor <;> abel

/-- (e) from `M * N = 0`, the upper block of `N` is determined: `x = -(a⁻¹ b y)`. -/
theorem schur_step_in_x {R : Type*} [Ring R] {r m n k : Type*} [Fintype r] [DecidableEq r]
    [Fintype n]
    (a ainv : Matrix r r R) (b : Matrix r n R) (c : Matrix m r R) (d : Matrix m n R)
    (x : Matrix r k R) (y : Matrix n k R) (hia : ainv * a = 1)
    (hMN : fromBlocks a b c d * fromRows x y = 0) :
    x = -(ainv * b * y) :=
  x_eq_of_top hia (MN_zero_iff.1 hMN).1

/-- (e) from `M * N = 0`: `S * y = 0` (the reduced incoming neighbour composes to zero). -/
theorem schur_step_in_sq_zero {R : Type*} [Ring R] {r m n k : Type*} [Fintype r] [DecidableEq r]
    [Fintype n]
    (a ainv : Matrix r r R) (b : Matrix r n R) (c : Matrix m r R) (d : Matrix m n R)
    (x : Matrix r k R) (y : Matrix n k R) (hia : ainv * a = 1)
    (hMN : fromBlocks a b c d * fromRows x y = 0) :
    schurS ainv b c d * y = 0 := by
  obtain ⟨h1, h2⟩ := MN_zero_iff.1 hMN
  have hx := x_eq_of_top hia h1
  rw [hx, Matrix.mul_neg] at h2
  rw [schurS, Matrix.sub_mul, sub_eq_neg_add]
  simpa only [Matrix.mul_assoc] using h2

/-- (e) `F_src * N = y` (needs no hypothesis). -/
theorem schur_step_in_F {R : Type*} [Ring R] {r n k : Type*} [Fintype r]
    [Fintype n] [DecidableEq n] (x : Matrix r k R) (y : Matrix n k R) :
    Fsrc R r n * fromRows x y = y := by
  simp [Fsrc, fromCols_mul_fromRows]

/-- (e) from `M * N = 0`: `N = B_src * y`. -/
theorem schur_step_in_B {R : Type*} [Ring R] {r m n k : Type*} [Fintype r] [DecidableEq r]
    [Fintype n] [DecidableEq n]
    (a ainv : Matrix r r R) (b : Matrix r n R) (c : Matrix m r R) (d : Matrix m n R)
    (x : Matrix r k R) (y : Matrix n k R) (hia : ainv * a = 1)
    (hMN : fromBlocks a b c d * fromRows x y = 0) :
    fromRows x y = Bsrc ainv b * y := by
  rw [Bsrc, fromRows_mul, Matrix.one_mul, Matrix.neg_mul,
    ← x_eq_of_top hia (MN_zero_iff.1 hMN).1]

/-- (f) from `L * M = 0`, the left block of `L` is determined: `z = -(w c a⁻¹)`. -/
theorem schur_step_out_z {R : Type*} [Ring R] {r m n l : Type*} [Fintype r] [DecidableEq r]
    [Fintype m]
    (a ainv : Matrix r r R) (b : Matrix r n R) (c : Matrix m r R) (d : Matrix m n R)
    (z : Matrix l r R) (w : Matrix l m R) (hai : a * ainv = 1)
    (hLM : fromCols z w * fromBlocks a b c d = 0) :
    z = -(w * c * ainv) :=
  z_eq_of_left hai (LM_zero_iff.1 hLM).1

/-- (f) from `L * M = 0`: `w * S = 0`. -/
theorem schur_step_out_sq_zero {R : Type*} [Ring R] {r m n l : Type*} [Fintype r]
    [DecidableEq r] [Fintype m]
    (a ainv : Matrix r r R) (b : Matrix r n R) (c : Matrix m r R) (d : Matrix m n R)
    (z : Matrix l r R) (w : Matrix l m R) (hai : a * ainv = 1)
    (hLM : fromCols z w * fromBlocks a b c d = 0) :
    w * schurS ainv b c d = 0 := by
  obtain ⟨h1, h2⟩ := LM_zero_iff.1 hLM
  have hz := z_eq_of_left hai h1
  rw [hz, Matrix.neg_mul] at h2
  rw [schurS, Matrix.mul_sub, sub_eq_neg_add]
  simpa only [Matrix.mul_assoc] using h2

/-- (f) `L * B_tgt = w` (needs no hypothesis). -/
theorem schur_step_out_B {R : Type*} [Ring R] {r m l : Type*} [Fintype r]
    [Fintype m] [DecidableEq m] (z : Matrix l r R) (w : Matrix l m R) :
    fromCols z w * Btgt R r m = w := by
  simp [Btgt, fromCols_mul_fromRows]

/-- (f) from `L * M = 0`: `L = w * F_tgt`. -/
theorem schur_step_out_F {R : Type*} [Ring R] {r m n l : Type*} [Fintype r] [DecidableEq r]
    [Fintype m] [DecidableEq m]
    (a ainv : Matrix r r R) (b : Matrix r n R) (c : Matrix m r R) (d : Matrix m n R)
    (z : Matrix l r R) (w : Matrix l m R) (hai : a * ainv = 1)
    (hLM : fromCols z w * fromBlocks a b c d = 0) :
    fromCols z w = w * Ftgt ainv c := by
  rw [Ftgt, mul_fromCols, Matrix.mul_one, Matrix.mul_neg, ← Matrix.mul_assoc,
    ← z_eq_of_left hai (LM_zero_iff.1 hLM).1]

/-! ## 2. the homotopy -/

/-- at `C_src`: `B_src * F_src - 1 = h * M`. -/
theorem schur_homotopy_src {R : Type*} [Ring R] {r m n : Type*} [Fintype r] [DecidableEq r]
    [Fintype m] [Fintype n] [DecidableEq n]
    (a ainv : Matrix r r R) (b : Matrix r n R) (c : Matrix m r R) (d : Matrix m n R)
    (hia : ainv * a = 1) :
    Bsrc ainv b * Fsrc R r n - 1 = hmt n m ainv * fromBlocks a b c d := by
  rw [Bsrc, Fsrc, hmt, fromRows_mul_fromCols, fromBlocks_multiply, ← fromBlocks_one,
    sub_eq_add_neg, fromBlocks_neg, fromBlocks_add, fromBlocks_inj]
  simp [hia]

/-- at `C_tgt`: `B_tgt * F_tgt - 1 = M * h`. -/
theorem schur_homotopy_tgt {R : Type*} [Ring R] {r m n : Type*} [Fintype r] [DecidableEq r]
    [Fintype m] [DecidableEq m] [Fintype n]
    (a ainv : Matrix r r R) (b : Matrix r n R) (c : Matrix m r R) (d : Matrix m n R)
    (hai : a * ainv = 1) :
    Btgt R r m * Ftgt ainv c - 1 = fromBlocks a b c d * hmt n m ainv := by
  rw [Btgt, Ftgt, hmt, fromRows_mul_fromCols, fromBlocks_multiply, ← fromBlocks_one,
    sub_eq_add_neg, fromBlocks_neg, fromBlocks_add, fromBlocks_inj]
  simp [hai]

/-- side condition `h * B_tgt = 0`. -/
theorem schur_homotopy_h_B {R : Type*} [Ring R] {r m n : Type*} [Fintype r]
    [Fintype m] [DecidableEq m] (ainv : Matrix r r R) :
    hmt n m ainv * Btgt R r m = 0 := by
  simp [hmt, Btgt, fromBlocks_mul_fromRows]

/-- side condition `F_src * h = 0`. -/
theorem schur_homotopy_F_h {R : Type*} [Ring R] {r m n : Type*} [Fintype r]
    [Fintype n] [DecidableEq n] (ainv : Matrix r r R) :
    Fsrc R r n * hmt n m ainv = 0 := by
  simp [hmt, Fsrc, fromCols_mul_fromBlocks]

/-! ### the hypotheses of section 1 and 2 are satisfiable by non-trivial data (`S ≠ 0`) -/

example : Ex.a * Ex.ainv = 1 := by decide
example : Ex.ainv * Ex.a = 1 := by decide
example : fromBlocks Ex.a Ex.b Ex.c Ex.d * fromRows Ex.x Ex.y = 0 := by decide
example : fromCols Ex.z Ex.w * fromBlocks Ex.a Ex.b Ex.c Ex.d = 0 := by decide
example : schurS Ex.ainv Ex.b Ex.c Ex.d = !![0, 0; 0, 5] := by decide
example : schurS Ex.ainv Ex.b Ex.c Ex.d * Ex.y = 0 :=
  schur_step_in_sq_zero Ex.a _ _ _ _ Ex.x _ (by decide) (by decide)
example : Ex.w * schurS Ex.ainv Ex.b Ex.c Ex.d = 0 :=
  schur_step_out_sq_zero Ex.a _ _ _ _ Ex.z _ (by decide) (by decide)

/-! ## 3. reduction data for whole complexes -/

/-- the identity maps reduce a complex to itself. -/
theorem IsReduction.refl {R : Type*} [Ring R] {ι : ℕ → Type*} [∀ i, Fintype (ι i)]
    [∀ i, DecidableEq (ι i)] (d : ∀ i, Matrix (ι i) (ι (i + 1)) R) :
    IsReduction d d (fun _ => 1) (fun _ => 1) :=
  ⟨fun i => by rw [Matrix.one_mul, Matrix.mul_one],
   fun i => by rw [Matrix.one_mul, Matrix.mul_one],
   fun i => Matrix.one_mul 1⟩

/-- `reduce_compose`: reductions compose. -/
theorem IsReduction.comp {R : Type*} [Ring R] {ι κ μ : ℕ → Type*}
    [∀ i, Fintype (ι i)] [∀ i, DecidableEq (ι i)] [∀ i, Fintype (κ i)] [∀ i, DecidableEq (κ i)]
    [∀ i, Fintype (μ i)] [∀ i, DecidableEq (μ i)]
    {d : ∀ i, Matrix (ι i) (ι (i + 1)) R} {d' : ∀ i, Matrix (κ i) (κ (i + 1)) R}
    {d'' : ∀ i, Matrix (μ i) (μ (i + 1)) R}
    {F₁ : ∀ i, Matrix (κ i) (ι i) R} {B₁ : ∀ i, Matrix (ι i) (κ i) R}
    {F₂ : ∀ i, Matrix (μ i) (κ i) R} {B₂ : ∀ i, Matrix (κ i) (μ i) R}
    (h₁ : IsReduction d d' F₁ B₁) (h₂ : IsReduction d' d'' F₂ B₂) :
    IsReduction d d'' (fun i => F₂ i * F₁ i) (fun i => B₁ i * B₂ i) where
  F_comm i := by
    show F₂ i * F₁ i * d i = d'' i * (F₂ (i + 1) * F₁ (i + 1))
    rw [Matrix.mul_assoc, h₁.F_comm, ← Matrix.mul_assoc, h₂.F_comm, Matrix.mul_assoc]
  B_comm i := by
    show d i * (B₁ (i + 1) * B₂ (i + 1)) = B₁ i * B₂ i * d'' i
    rw [← Matrix.mul_assoc, h₁.B_comm, Matrix.mul_assoc, h₂.B_comm, Matrix.mul_assoc]
  FB i := by
    show F₂ i * F₁ i * (B₁ i * B₂ i) = 1
    rw [Matrix.mul_assoc, ← Matrix.mul_assoc (F₁ i), h₁.FB, Matrix.one_mul, h₂.FB]

/-- the reduced differential is `F d B`. -/
theorem IsReduction.d'_eq {R : Type*} [Ring R] {ι κ : ℕ → Type*}
    [∀ i, Fintype (ι i)] [∀ i, DecidableEq (ι i)] [∀ i, Fintype (κ i)] [∀ i, DecidableEq (κ i)]
    {d : ∀ i, Matrix (ι i) (ι (i + 1)) R} {d' : ∀ i, Matrix (κ i) (κ (i + 1)) R}
    {F : ∀ i, Matrix (κ i) (ι i) R} {B : ∀ i, Matrix (ι i) (κ i) R}
    (h : IsReduction d d' F B) (i : ℕ) : d' i = F i * d i * B (i + 1) := by
  rw [h.F_comm, Matrix.mul_assoc, h.FB, Matrix.mul_one]

/-- the reduced complex is a complex. -/
theorem IsReduction.sq_zero {R : Type*} [Ring R] {ι κ : ℕ → Type*}
    [∀ i, Fintype (ι i)] [∀ i, DecidableEq (ι i)] [∀ i, Fintype (κ i)] [∀ i, DecidableEq (κ i)]
    {d : ∀ i, Matrix (ι i) (ι (i + 1)) R} {d' : ∀ i, Matrix (κ i) (κ (i + 1)) R}
    {F : ∀ i, Matrix (κ i) (ι i) R} {B : ∀ i, Matrix (ι i) (κ i) R}
    (h : IsReduction d d' F B) (hd : ∀ i, d i * d (i + 1) = 0) (i : ℕ) :
    d' i * d' (i + 1) = 0 := by
  rw [h.d'_eq (i + 1), ← Matrix.mul_assoc, ← Matrix.mul_assoc, ← h.F_comm, Matrix.mul_assoc (F i),
    hd, Matrix.mul_zero, Matrix.zero_mul]

/-- `perm_step`: conjugating every differential by a (two-sided) invertible matrix is a reduction
(with `F = P`, `B = P⁻¹`). -/
theorem IsReduction.of_iso {R : Type*} [Ring R] {ι : ℕ → Type*} [∀ i, Fintype (ι i)]
    [∀ i, DecidableEq (ι i)] (d : ∀ i, Matrix (ι i) (ι (i + 1)) R)
    (P Pinv : ∀ i, Matrix (ι i) (ι i) R)
    (hPinvP : ∀ i, Pinv i * P i = 1) (hPPinv : ∀ i, P i * Pinv i = 1) :
    IsReduction d (fun i => P i * d i * Pinv (i + 1)) P Pinv where
  F_comm i := by
    show P i * d i = P i * d i * Pinv (i + 1) * P (i + 1)
    rw [Matrix.mul_assoc (P i * d i), hPinvP, Matrix.mul_one]
  B_comm i := by
    show d i * Pinv (i + 1) = Pinv i * (P i * d i * Pinv (i + 1))
    rw [← Matrix.mul_assoc, ← Matrix.mul_assoc, hPinvP, Matrix.one_mul]
  FB := hPPinv

theorem permMatrix_mul_inv {R : Type*} [Ring R] {n : Type*} [Fintype n] [DecidableEq n]
    (σ : Equiv.Perm n) : σ.permMatrix R * σ⁻¹.permMatrix R = 1 := by
  rw [← permMatrix_mul, inv_mul_cancel, permMatrix_one]

theorem permMatrix_inv_mul {R : Type*} [Ring R] {n : Type*} [Fintype n] [DecidableEq n]
    (σ : Equiv.Perm n) : σ⁻¹.permMatrix R * σ.permMatrix R = 1 := by
  rw [← permMatrix_mul, mul_inv_cancel, permMatrix_one]

/-- `perm_step` for permutation matrices: permuting the bases of all chain modules. -/
theorem IsReduction.of_perm {R : Type*} [Ring R] {ι : ℕ → Type*} [∀ i, Fintype (ι i)]
    [∀ i, DecidableEq (ι i)] (d : ∀ i, Matrix (ι i) (ι (i + 1)) R)
    (σ : ∀ i, Equiv.Perm (ι i)) :
    IsReduction d (fun i => (σ i).permMatrix R * d i * (σ (i + 1))⁻¹.permMatrix R)
      (fun i => (σ i).permMatrix R) (fun i => (σ i)⁻¹.permMatrix R) :=
  IsReduction.of_iso d _ _ (fun i => permMatrix_inv_mul (σ i)) (fun i => permMatrix_mul_inv (σ i))

/-! ### homotopy version -/

theorem IsHomotopyEquiv.refl {R : Type*} [Ring R] {ι : ℕ → Type*} [∀ i, Fintype (ι i)]
    [∀ i, DecidableEq (ι i)] (d : ∀ i, Matrix (ι i) (ι (i + 1)) R) :
    IsHomotopyEquiv d d (fun _ => 1) (fun _ => 1) (fun _ => 0) where
  F_comm i := by rw [Matrix.one_mul, Matrix.mul_one]
  B_comm i := by rw [Matrix.one_mul, Matrix.mul_one]
  FB i := Matrix.one_mul 1
  htpy_zero := by simp
  htpy_succ i := by simp

/-- homotopy equivalences compose, with `h = h₁ + B₁ h₂ F₁`. -/
theorem IsHomotopyEquiv.comp {R : Type*} [Ring R] {ι κ μ : ℕ → Type*}
    [∀ i, Fintype (ι i)] [∀ i, DecidableEq (ι i)] [∀ i, Fintype (κ i)] [∀ i, DecidableEq (κ i)]
    [∀ i, Fintype (μ i)] [∀ i, DecidableEq (μ i)]
    {d : ∀ i, Matrix (ι i) (ι (i + 1)) R} {d' : ∀ i, Matrix (κ i) (κ (i + 1)) R}
    {d'' : ∀ i, Matrix (μ i) (μ (i + 1)) R}
    {F₁ : ∀ i, Matrix (κ i) (ι i) R} {B₁ : ∀ i, Matrix (ι i) (κ i) R}
    {F₂ : ∀ i, Matrix (μ i) (κ i) R} {B₂ : ∀ i, Matrix (κ i) (μ i) R}
    {h₁ : ∀ i, Matrix (ι (i + 1)) (ι i) R} {h₂ : ∀ i, Matrix (κ (i + 1)) (κ i) R}
    (e₁ : IsHomotopyEquiv d d' F₁ B₁ h₁) (e₂ : IsHomotopyEquiv d' d'' F₂ B₂ h₂) :
    IsHomotopyEquiv d d'' (fun i => F₂ i * F₁ i) (fun i => B₁ i * B₂ i)
      (fun i => h₁ i + B₁ (i + 1) * h₂ i * F₁ i) where
  toIsReduction := e₁.toIsReduction.comp e₂.toIsReduction
  htpy_zero := by
    show B₁ 0 * B₂ 0 * (F₂ 0 * F₁ 0) - 1 = d 0 * (h₁ 0 + B₁ (0 + 1) * h₂ 0 * F₁ 0)
    have key : B₁ 0 * B₂ 0 * (F₂ 0 * F₁ 0) - 1
        = B₁ 0 * (B₂ 0 * F₂ 0 - 1) * F₁ 0 + (B₁ 0 * F₁ 0 - 1) := by
      simp only [Matrix.mul_sub, Matrix.sub_mul, Matrix.mul_one, Matrix.mul_assoc]; abel
    rw [key, e₁.htpy_zero, e₂.htpy_zero, Matrix.mul_add, ← Matrix.mul_assoc (B₁ 0),
      ← e₁.B_comm]
    simp only [Matrix.mul_assoc]; abel
  htpy_succ i := by
    show B₁ (i + 1) * B₂ (i + 1) * (F₂ (i + 1) * F₁ (i + 1)) - 1
      = d (i + 1) * (h₁ (i + 1) + B₁ (i + 1 + 1) * h₂ (i + 1) * F₁ (i + 1))
        + (h₁ i + B₁ (i + 1) * h₂ i * F₁ i) * d i
    have key : B₁ (i + 1) * B₂ (i + 1) * (F₂ (i + 1) * F₁ (i + 1)) - 1
        = B₁ (i + 1) * (B₂ (i + 1) * F₂ (i + 1) - 1) * F₁ (i + 1)
          + (B₁ (i + 1) * F₁ (i + 1) - 1) := by
      simp only [Matrix.mul_sub, Matrix.sub_mul, Matrix.mul_one, Matrix.mul_assoc]; abel
    rw [key, e₁.htpy_succ, e₂.htpy_succ, Matrix.mul_add, Matrix.add_mul, Matrix.add_mul,
      Matrix.mul_add, ← Matrix.mul_assoc (B₁ (i + 1)) (d' (i + 1)), ← e₁.B_comm,
      Matrix.mul_assoc _ (F₁ i) (d i), e₁.F_comm]
    simp only [Matrix.mul_assoc]; abel

/-- conjugation by invertible matrices is a homotopy equivalence with `h = 0`. -/
theorem IsHomotopyEquiv.of_iso {R : Type*} [Ring R] {ι : ℕ → Type*} [∀ i, Fintype (ι i)]
    [∀ i, DecidableEq (ι i)] (d : ∀ i, Matrix (ι i) (ι (i + 1)) R)
    (P Pinv : ∀ i, Matrix (ι i) (ι i) R)
    (hPinvP : ∀ i, Pinv i * P i = 1) (hPPinv : ∀ i, P i * Pinv i = 1) :
    IsHomotopyEquiv d (fun i => P i * d i * Pinv (i + 1)) P Pinv (fun _ => 0) where
  F_comm i := by
    show P i * d i = P i * d i * Pinv (i + 1) * P (i + 1)
    rw [Matrix.mul_assoc (P i * d i), hPinvP, Matrix.mul_one]
  B_comm i := by
    show d i * Pinv (i + 1) = Pinv i * (P i * d i * Pinv (i + 1))
    rw [← Matrix.mul_assoc, ← Matrix.mul_assoc, hPinvP, Matrix.one_mul]
  FB := hPPinv
  htpy_zero := by simp [hPinvP]
  htpy_succ i := by simp [hPinvP]

/-- `perm_step`, homotopy version, for permutation matrices. -/
theorem IsHomotopyEquiv.of_perm {R : Type*} [Ring R] {ι : ℕ → Type*} [∀ i, Fintype (ι i)]
    [∀ i, DecidableEq (ι i)] (d : ∀ i, Matrix (ι i) (ι (i + 1)) R)
    (σ : ∀ i, Equiv.Perm (ι i)) :
    IsHomotopyEquiv d (fun i => (σ i).permMatrix R * d i * (σ (i + 1))⁻¹.permMatrix R)
      (fun i => (σ i).permMatrix R) (fun i => (σ i)⁻¹.permMatrix R) (fun _ => 0) :=
  IsHomotopyEquiv.of_iso d _ _ (fun i => permMatrix_inv_mul (σ i))
    (fun i => permMatrix_mul_inv (σ i))

/-! ### the hypotheses of section 3 are satisfiable by non-trivial data -/

theorem Ex.dd_sq_zero : ∀ i, Ex.dd i * Ex.dd (i + 1) = 0 := fun _ => by
    show (!![0, 1; 0, 0] : Matrix (Fin 2) (Fin 2) ℤ) * !![0, 1; 0, 0] = 0
    decide
example : Ex.dd 0 ≠ 0 ∧ (Ex.σ 0).permMatrix ℤ ≠ 1 := by decide
/-- a non-identity reduction of a non-zero complex (hypothesis of `sq_zero`, `comp`) -/
example : IsReduction Ex.dd
    (fun i => (Ex.σ i).permMatrix ℤ * Ex.dd i * (Ex.σ (i + 1))⁻¹.permMatrix ℤ)
    (fun i => (Ex.σ i).permMatrix ℤ) (fun i => (Ex.σ i)⁻¹.permMatrix ℤ) :=
  IsReduction.of_perm Ex.dd Ex.σ
example : ∀ i, ((Ex.σ i).permMatrix ℤ * Ex.dd i * (Ex.σ (i + 1))⁻¹.permMatrix ℤ) *
    ((Ex.σ (i + 1)).permMatrix ℤ * Ex.dd (i + 1) * (Ex.σ (i + 1 + 1))⁻¹.permMatrix ℤ) = 0 :=
  (IsReduction.of_perm Ex.dd Ex.σ).sq_zero Ex.dd_sq_zero
/-- hypotheses of `of_iso` -/
example : ∀ i, (Ex.σ i)⁻¹.permMatrix ℤ * (Ex.σ i).permMatrix ℤ = 1 :=
  fun i => permMatrix_inv_mul (Ex.σ i)
example : ∀ i, (Ex.σ i).permMatrix ℤ * (Ex.σ i)⁻¹.permMatrix ℤ = 1 :=
  fun i => permMatrix_mul_inv (Ex.σ i)
/-- hypothesis of `IsHomotopyEquiv.comp` (twice the swap) -/
example : ∃ (d' : ∀ _ : ℕ, Matrix (Fin 2) (Fin 2) ℤ) (F B h : ∀ _ : ℕ, Matrix (Fin 2) (Fin 2) ℤ),
    IsHomotopyEquiv Ex.dd d' F B h :=
  ⟨_, _, _, _, (IsHomotopyEquiv.of_perm Ex.dd Ex.σ).comp (IsHomotopyEquiv.of_perm _ Ex.σ)⟩

/-! ## 4. the executable checker `C08.check` (run by the driver on the exported state of the real reducer)

`check eq x = true` holds exactly when the exported data satisfy every identity of `Spec` — so a reply `ok` of
the driver on a harness line is a Lean-verified statement about the actual output of the Rust code:
`d'∘d' = 0`, `F d = d' F`, `d B = B d'`, `F B = 1`, `F v = v'` in every degree, as identities of Mathlib
matrices (over `β`, through `φ`; `φ = id` for `ℤ`, `ℚ`; `φ = Int.cast : ℤ → ZMod p` for `F_p`). -/

/-- soundness and completeness of the checker, for any scalar semiring and any equality test that decides
equality of `φ`-images. -/
theorem check_iff {α β : Type} [Semiring α] [Semiring β] (φ : α →+* β) (eq : α → α → Bool)
    (heq : ∀ a b, eq a b = true ↔ φ a = φ b) (x : RedData α) :
    check eq x = true ↔ Spec φ x := by
  simp only [check, checkIn, checkDD, checkFd, checkdB, checkFB, checkFv, Bool.and_eq_true, allN_iff,
    cIn, cDD, cFd, cdB, cFB, cFv, mulEq0_iff φ eq heq, mulEq2_iff φ eq heq, mulEqI_iff φ eq heq,
    mulEq1_iff φ eq heq, Nat.add_sub_cancel]
  constructor
  · rintro ⟨⟨⟨⟨⟨h1, h2⟩, h3⟩, h4⟩, h5⟩, h6⟩
    refine ⟨?_, ?_, ?_, ?_, fun i hi => h5 i (by omega), fun i hi => h6 i (by omega)⟩
    · intro i hi hk
      obtain ⟨j, rfl⟩ : ∃ j, i = j + 1 := ⟨i - 1, by omega⟩
      simpa using h1 j (by omega)
    · intro i hi hk
      obtain ⟨j, rfl⟩ : ∃ j, i = j + 1 := ⟨i - 1, by omega⟩
      simpa using h2 j (by omega)
    · intro i hi hk
      obtain ⟨j, rfl⟩ : ∃ j, i = j + 1 := ⟨i - 1, by omega⟩
      simpa using h3 j (by omega)
    · intro i hi hk
      obtain ⟨j, rfl⟩ : ∃ j, i = j + 1 := ⟨i - 1, by omega⟩
      simpa using h4 j (by omega)
  · rintro ⟨h1, h2, h3, h4, h5, h6⟩
    refine ⟨⟨⟨⟨⟨?_, ?_⟩, ?_⟩, ?_⟩, fun i hi => h5 i (by omega)⟩, fun i hi => h6 i (by omega)⟩
    · intro i hi; simpa using h1 (i + 1) (by omega) (by omega)
    · intro i hi; simpa using h2 (i + 1) (by omega) (by omega)
    · intro i hi; simpa using h3 (i + 1) (by omega) (by omega)
    · intro i hi; simpa using h4 (i + 1) (by omega) (by omega)

/-- soundness alone needs only one direction of the equality test -/
theorem check_sound {α β : Type} [Semiring α] [Semiring β] (φ : α →+* β) (eq : α → α → Bool)
    (heq : ∀ a b, eq a b = true → φ a = φ b) (x : RedData α) (h : check eq x = true) : Spec φ x := by
  -- strengthen the test to the exact one: `eq' a b := decide (φ a = φ b)` accepts whenever `eq` does
  classical
  have mono : ∀ (n : Nat) (p q : Nat → Bool), (∀ i, p i = true → q i = true) → allN n p = true → allN n q = true := by
    intro n p q hpq hp; rw [allN_iff] at *; exact fun i hi => hpq i (hp i hi)
  let eq' : α → α → Bool := fun a b => decide (φ a = φ b)
  have heq' : ∀ a b, eq' a b = true ↔ φ a = φ b := fun a b => by simp [eq']
  have himp : ∀ a b, eq a b = true → eq' a b = true := fun a b hab => (heq' a b).2 (heq a b hab)
  refine (check_iff φ eq' heq' x).1 ?_
  simp only [check, checkIn, checkDD, checkFd, checkdB, checkFB, checkFv, Bool.and_eq_true,
    cIn, cDD, cFd, cdB, cFB, cFv, mulEq0, mulEq2, mulEqI, mulEq1] at h ⊢
  obtain ⟨⟨⟨⟨⟨h1, h2⟩, h3⟩, h4⟩, h5⟩, h6⟩ := h
  refine ⟨⟨⟨⟨⟨?_, ?_⟩, ?_⟩, ?_⟩, ?_⟩, ?_⟩
  all_goals first
    | exact mono _ _ _ (fun i => mono _ _ _ (fun j => mono _ _ _ (fun l => himp _ _))) ‹_›
  
/-- over `ℤ` (ring tag `Z` of the driver: `eqMod 0`) -/
theorem check_int_iff (x : RedData Int) : check (eqMod 0) x = true ↔ Spec (RingHom.id Int) x :=
  check_iff (RingHom.id Int) (eqMod 0) (fun a b => by simpa using eqMod_zero_iff a b) x

/-- over `F_p` (ring tags `F2`, `F3`, …: integer representatives compared modulo `p`) -/
theorem check_zmod_iff (p : Nat) (x : RedData Int) :
    check (eqMod p) x = true ↔ Spec (Int.castRingHom (ZMod p)) x :=
  check_iff (Int.castRingHom (ZMod p)) (eqMod p)
    (fun a b => by
      rw [eqMod_iff, eq_comm (a := (Int.castRingHom (ZMod p)) a)]
      simpa using (ZMod.intCast_eq_intCast_iff_dvd_sub b a p).symm) x

/-- over `ℚ` (ring tag `Q`) -/
theorem check_rat_iff (x : RedData Rat) :
    check (fun a b => a == b) x = true ↔ Spec (RingHom.id Rat) x :=
  check_iff (RingHom.id Rat) (fun a b => a == b) (fun a b => by simp) x

/-- the checker accepts a genuine reduction (`ℤ --2--> ℤ` kept, with a tracked vector) … -/
example : check (eqMod 0)
    { k := 1, n := #[1, 1], m := #[1, 1], d := #[⟨0, 1, #[]⟩, ⟨1, 1, #[2]⟩], d' := #[⟨0, 1, #[]⟩, ⟨1, 1, #[2]⟩],
      F := #[⟨1, 1, #[1]⟩, ⟨1, 1, #[1]⟩], B := #[⟨1, 1, #[1]⟩, ⟨1, 1, #[1]⟩], t := #[0, 1],
      V := #[⟨1, 0, #[]⟩, ⟨1, 1, #[5]⟩], V' := #[⟨1, 0, #[]⟩, ⟨1, 1, #[5]⟩] } = true := by decide

/-- … and rejects a wrong forward map. -/
example : check (eqMod 0)
    { k := 1, n := #[1, 1], m := #[1, 1], d := #[⟨0, 1, #[]⟩, ⟨1, 1, #[2]⟩], d' := #[⟨0, 1, #[]⟩, ⟨1, 1, #[2]⟩],
      F := #[⟨1, 1, #[1]⟩, ⟨1, 1, #[3]⟩], B := #[⟨1, 1, #[1]⟩, ⟨1, 1, #[1]⟩], t := #[0, 0],
      V := #[⟨1, 0, #[]⟩, ⟨1, 0, #[]⟩], V' := #[⟨1, 0, #[]⟩, ⟨1, 0, #[]⟩] } = false := by decide

end Yuiv.C08
