import Yuiv.Proofs.C08Sched
import Yuiv.Props.C08Hom
import Yuiv.Props.C11New
/-
C08 — "same homology for EVERY thread schedule": composition of
  * `Props/C11New`  (`find_pivots_triangular_in_matrix`: every schedule of the parallel pivot search on every valid CSC
                    matrix returns distinct rows / columns, unit pivots, triangular order),
  * `Props/C08`     (Schur-step identities, homotopy, closure under composition),
  * `Props/C08Hom`  (homotopy equivalence ⇒ isomorphic homology in every degree).
Property theorems only; definitions and lemmas are in `Yuiv/Proofs/C08Sched.lean`:
  `TriPivots A upper P`  matrix-level pivot list (in range, distinct rows, distinct columns, unit entries, triangular)
  `pivBlock A P`         leading block after `perms_by_pivots` (pivots first, in list order)
  `Represents a A`       the CSC storage `a` of C11 (observations `is_zero/is_pm_one/is_unit`) describes `A` truthfully
  `Cpx R`, `HEquiv`      bundled complex `… → C_{i+1} --d i--> C_i → …` with `d i * d (i+1) = 0`; reduction + homotopy
  `StepShape C k`        splitting `e i : ρ i ⊕ κ i ≃ ι i` of every chain module, `ρ i` empty unless `i ∈ {k, k+1}`;
                         blocks `S.a/b/c/dd i` of the permuted `d i`; `S.reduced ainv _ _` the complex on `κ` with
                         `d' k = dd k − c k · a k⁻¹ · b k` and `d' i = dd i` for `i ≠ k`
  `ReducerStep C C'`     one `reduce_at_spec` with SOME schedule (`acts`, `keys`) of the pivot search
What is quantified: the interleaving `acts` of the pivot workers, the hash-map order `keys`, the valid schedule `sched`
of rayon's indexed collect in `compute_schur`.  What is not: that the real `rayon` / `RwLock` behave like these models.
-/
namespace Yuiv.C08
open Matrix Yuiv.C11 Yuiv.Res

variable {R : Type} [CommRing R]

/-! ## (S1) bridge: pivots of any schedule ⇒ unit-triangular, invertible leading block -/

/-- for every valid CSC matrix `a` describing `A`, every pivot type and condition and EVERY schedule (`acts`, `keys`) of
the search, `result()` succeeds and the returned pivots, mapped to matrix coordinates, are a `TriPivots` list of `A`:
in range, pairwise distinct rows and columns, unit entries, and for `p` before `q` the entry `(row q, col p)`
(`Rows` / upper) resp. `(row p, col q)` (`Cols` / lower) is `0` -/
theorem pivots_triangular_every_schedule (a : Csc) (ha : a.Valid) (A : Matrix (Fin a.nrows) (Fin a.ncols) R)
    (hA : Represents a A) (t : PivType) (c : Cond)
    (s : Str) (hs : matrixStrNew a t c = ok s) (st0 : State) (h0 : initState s = ok st0)
    (acts : List Act) (st : State) (os : List Outcome) (hr : run s st0 acts = ok (st, os))
    (keys : List ℕ) (hk : keys.Perm (st.S.map (·.2))) :
    ∃ L, result s st.S keys = ok L ∧ TriPivots A (isUpper t) (matPivots t L) := by
  obtain ⟨L, hL, h1, h2, h3, h4⟩ := find_pivots_triangular_in_matrix a ha t c s hs st0 h0 acts st os hr keys hk
  exact ⟨L, hL, triPivots_of_pivSpec ha hA t c L ⟨h1, h2, h3, h4⟩⟩

/-- the leading block `U = pivBlock A P` of the matrix permuted by `perms_by_pivots` (entry `(x, y)` = the matrix at
(row of pivot `x`, column of pivot `y`)) is triangular — upper for `Rows`, lower for `Cols` — with unit diagonal; its
determinant is a unit and `U⁻¹` is a two-sided inverse: the hypothesis `ainv * a = 1`, `a * ainv = 1` of every
`schur_step_*` / `schur_homotopy_*` theorem of `Props/C08.lean`, and (over ℤ, ℚ, 𝔽_p) of the unit-triangular
precondition under which `Props/C08StepCorrect` proves the solver panic-free -/
theorem pivot_block_unit_triangular (m n : ℕ) (A : Matrix (Fin m) (Fin n) R) (upper : Bool) (P : List (ℕ × ℕ))
    (h : TriPivots A upper P) :
    (∀ x y : Fin P.length, (if upper then y < x else x < y) → pivBlock A P h.bound x y = 0) ∧
    (∀ x, IsUnit (pivBlock A P h.bound x x)) ∧
    IsUnit (pivBlock A P h.bound).det ∧
    (pivBlock A P h.bound)⁻¹ * pivBlock A P h.bound = 1 ∧ pivBlock A P h.bound * (pivBlock A P h.bound)⁻¹ = 1 := by
  refine ⟨?_, h.diag_unit, h.det_isUnit, Matrix.nonsing_inv_mul _ h.det_isUnit, Matrix.mul_nonsing_inv _ h.det_isUnit⟩
  intro x y hxy
  cases upper with
  | true => exact h.upper_tri (by simpa using hxy)
  | false => exact h.lower_tri (show OrderDual.toDual y < OrderDual.toDual x by simpa using hxy)

/-- the pivot rows (columns) enumerate without repetition, so "pivots first, the rest after" is a bijection: the
hypothesis on `S.e k`, `S.e (k+1)` in the theorems below is satisfiable for every pivot list -/
theorem pivot_positions_injective (m n : ℕ) (A : Matrix (Fin m) (Fin n) R) (upper : Bool) (P : List (ℕ × ℕ))
    (h : TriPivots A upper P) :
    Function.Injective (pivRow P h.bound) ∧ Function.Injective (pivCol P h.bound) :=
  ⟨pivRow_injective h.bound h.rows, pivCol_injective h.bound h.cols⟩

/-! ## one Schur step inside a whole complex -/

/-- a reduction step at degree `k` of a whole complex whose pivot block `a k` has a two-sided inverse is a homotopy
equivalence: chain maps `F`, `B` in EVERY degree with `F B = 1` and `B F − 1 = d h + h d` (the maps are the permutation
followed by `[−c a⁻¹, 1]`, `[−a⁻¹ b; 1]`, `[[−a⁻¹,0],[0,0]]`, uniformly in the degree), and the reduced complex is a
complex -/
theorem schur_step_whole_complex (C : Cpx R) (k : ℕ) (S : StepShape C k)
    (ainv : ∀ i, Matrix (S.ρ (i + 1)) (S.ρ i) R) (hia : ainv k * S.a k = 1) (hai : S.a k * ainv k = 1) :
    (∃ F B h, IsHomotopyEquiv C.d (S.reduced ainv hia hai).d F B h) ∧
    (∀ i, (S.reduced ainv hia hai).d i * (S.reduced ainv hia hai).d (i + 1) = 0) ∧
    (S.reduced ainv hia hai).d k = S.dd k - S.c k * ainv k * S.b k ∧
    (∀ i, i ≠ k → (S.reduced ainv hia hai).d i = S.dd i) ∧
    ∀ n, Nonempty (Hn C.d n ≃ₗ[R] Hn (S.reduced ainv hia hai).d n) :=
  ⟨S.isHomotopyEquiv ainv hia hai, (S.reduced ainv hia hai).sq, rfl, S.reduced_d_of_ne ainv hia hai,
    (S.hEquiv ainv hia hai).homology⟩

/-! ## (S2) one reducer step, every schedule -/

/-- **every schedule of the pivot search gives a step that preserves homology.**  `C` any complex, `a` a valid CSC
storage describing `d k` (numbering `eT`, `eS`), any pivot type and condition, EVERY interleaving `acts` and hash-map
order `keys`: `result()` returns a list `L` (no panic) which is a `TriPivots` list, and for every splitting `S` of the
chain modules that removes exactly the pivot rows of `C_k` and pivot columns of `C_{k+1}` in list order (what
`perms_by_pivots` + `Schur::from_partial_triangular(…, r)` do; order of the remaining basis vectors arbitrary) the pivot
block has a two-sided inverse `ainv k`, the Schur-complement complex `S.reduced` is a reduction of `C` with a chain
homotopy, and `H_n(C) ≃ H_n(reduced)` for every `n`.  The pivots — hence the reduced matrices — depend on the schedule;
the homology does not. -/
theorem reduce_step_every_schedule (C : Cpx R) (k : ℕ) (a : Csc) (ha : a.Valid) (t : PivType) (c : Cond)
    (eT : Fin a.nrows ≃ C.ι k) (eS : Fin a.ncols ≃ C.ι (k + 1)) (hA : Represents a ((C.d k).submatrix eT eS))
    (s : Str) (hs : matrixStrNew a t c = ok s) (st0 : State) (h0 : initState s = ok st0)
    (acts : List Act) (st : State) (os : List Outcome) (hr : run s st0 acts = ok (st, os))
    (keys : List ℕ) (hk : keys.Perm (st.S.map (·.2))) :
    ∃ L, result s st.S keys = ok L ∧
      ∃ hP : TriPivots ((C.d k).submatrix eT eS) (isUpper t) (matPivots t L),
        ∀ (S : StepShape C k) (er : Fin (matPivots t L).length ≃ S.ρ k)
          (es : Fin (matPivots t L).length ≃ S.ρ (k + 1)),
          (∀ x, S.e k (Sum.inl (er x)) = eT (pivRow _ hP.bound x)) →
          (∀ x, S.e (k + 1) (Sum.inl (es x)) = eS (pivCol _ hP.bound x)) →
          ∃ (ainv : ∀ i, Matrix (S.ρ (i + 1)) (S.ρ i) R) (hia : ainv k * S.a k = 1) (hai : S.a k * ainv k = 1),
            ReducerStep C (S.reduced ainv hia hai) ∧ HEquiv C (S.reduced ainv hia hai) ∧
            ∀ n, Nonempty (Hn C.d n ≃ₗ[R] Hn (S.reduced ainv hia hai).d n) := by
  obtain ⟨L, hL, hP⟩ := pivots_triangular_every_schedule a ha _ hA t c s hs st0 h0 acts st os hr keys hk
  refine ⟨L, hL, hP, fun S er es hrow hcol => ?_⟩
  obtain ⟨_, X, hXa, haX⟩ := S.exists_inv_of_pivots eT eS hP er es hrow hcol
  obtain ⟨ainv, hk'⟩ := exists_family (T := fun i => Matrix (S.ρ (i + 1)) (S.ρ i) R) k X
  have hia : ainv k * S.a k = 1 := by rw [hk']; exact hXa
  have hai : S.a k * ainv k = 1 := by rw [hk']; exact haX
  exact ⟨ainv, hia, hai,
    ⟨k, a, ha, t, c, eT, eS, hA, s, hs, st0, h0, acts, st, os, hr, keys, hk, L, hL, hP, S, er, es, hrow, hcol, ainv,
      hia, hai, rfl⟩,
    S.hEquiv ainv hia hai, (S.hEquiv ainv hia hai).homology⟩

/-- two schedules of the same step: whatever pivots they find, the two reduced complexes have isomorphic homology in
every degree (both are isomorphic to `H_n(C)`) -/
theorem two_schedules_same_homology {C C₁ C₂ : Cpx R} (h₁ : ReducerStep C C₁) (h₂ : ReducerStep C C₂) (n : ℕ) :
    Nonempty (Hn C₁.d n ≃ₗ[R] Hn C₂.d n) := by
  obtain ⟨e₁⟩ := h₁.hEquiv.homology n
  obtain ⟨e₂⟩ := h₂.hEquiv.homology n
  exact ⟨e₁.symm.trans e₂⟩

/-! ## (S3) the reducer's loop: any number of steps, any schedule at every step -/

/-- any finite sequence of reducer steps (each at any degree, with any pivot type / condition and any schedule) is a
reduction with a chain homotopy, hence preserves the homology in every degree -/
theorem reduce_loop_every_schedule {C C' : Cpx R} (h : Relation.ReflTransGen ReducerStep C C') :
    HEquiv C C' ∧ ∀ n, Nonempty (Hn C.d n ≃ₗ[R] Hn C'.d n) :=
  ⟨reflTransGen_hEquiv h, (reflTransGen_hEquiv h).homology⟩

/-- … and two complete runs from the same complex (different schedules, different numbers of steps, different reduced
matrices) end in complexes with isomorphic homology -/
theorem two_runs_same_homology {C C₁ C₂ : Cpx R} (h₁ : Relation.ReflTransGen ReducerStep C C₁)
    (h₂ : Relation.ReflTransGen ReducerStep C C₂) (n : ℕ) : Nonempty (Hn C₁.d n ≃ₗ[R] Hn C₂.d n) := by
  obtain ⟨e₁⟩ := (reflTransGen_hEquiv h₁).homology n
  obtain ⟨e₂⟩ := (reflTransGen_hEquiv h₂).homology n
  exact ⟨e₁.symm.trans e₂⟩

/-! ## the hypotheses are satisfiable: one matrix, two schedules, two different pivot sets -/

/-- the integer matrix stored in `C11.exCsc` (4×3; a stored zero at `(1,0)`, the non-unit `2` at `(1,2)`; rows 2 and 3
race for column 2 in the parallel phase) -/
def exA : Matrix (Fin exCsc.nrows) (Fin exCsc.ncols) ℤ := !![1, 0, 0; 0, 1, 2; 1, 0, 1; 1, 0, 1]

/-- `Represents` holds of a matrix with a stored zero and a non-unit entry -/
theorem exA_represents : Represents exCsc exA where
  zero := by
    intro i j h
    fin_cases i <;> fin_cases j <;>
      first
        | rfl
        | exact absurd ⟨by decide, by decide, rfl⟩ (h sOne)
        | exact absurd ⟨by decide, by decide, rfl⟩ (h sTwo)
  pmOne := by
    intro i j r hs hr
    obtain ⟨_, hm, hz⟩ := hs
    fin_cases i <;> fin_cases j <;> simp [exCsc, Csc.col, sOne, sTwo, sZero] at hm <;>
      first
        | (left; rfl)
        | (subst hm; simp at hr)
  unit := by
    intro i j r hs hr
    obtain ⟨_, hm, hz⟩ := hs
    rw [Int.isUnit_iff]
    fin_cases i <;> fin_cases j <;> simp [exCsc, Csc.col, sOne, sTwo, sZero] at hm <;>
      first
        | (left; rfl)
        | (subst hm; simp at hr)

/-- every hypothesis of `pivots_triangular_every_schedule` is satisfiable (here: the empty schedule after the sequential
phases, obtained from `C11.find_pivots_acyclic_of_matrix`; `#eval` of the model gives for the schedules
`[start 2 2, search 2 (some 2), validate 2]`, keys `[0,1,2]` and `[start 3 2, search 3 (some 2), validate 3]`, keys
`[2,1,0]` the DIFFERENT pivot lists `[(1,1),(2,2),(0,0)]` and `[(1,1),(3,2),(0,0)]` of the next example — the kernel
cannot evaluate the well-founded loops of `initState`, so these two runs are not restated as `example`s) -/
example : ∃ L, TriPivots exA true (matPivots .rows L) := by
  obtain ⟨s, st0, hs, h0, _⟩ := find_pivots_acyclic_of_matrix exCsc (by decide) .rows .one
  obtain ⟨L, _, hL⟩ := pivots_triangular_every_schedule exCsc (by decide) exA exA_represents .rows .one s hs st0 h0
    [] st0 [] rfl (st0.S.map (·.2)) (List.Perm.refl _)
  exact ⟨L, hL⟩

/-- two different pivot sets (row 2 resp. row 3 wins the race for column 2), both `TriPivots` lists of `exA` -/
example : TriPivots exA true [(1, 1), (2, 2), (0, 0)] ∧ TriPivots exA true [(1, 1), (3, 2), (0, 0)] :=
  ⟨⟨by decide, by decide, by decide, by intro p hp; rw [Int.isUnit_iff]; revert p; decide, by decide⟩,
   ⟨by decide, by decide, by decide, by intro p hp; rw [Int.isUnit_iff]; revert p; decide, by decide⟩⟩

/-- … and the leading block of the second one is upper unit-triangular with the non-unit `2` above the diagonal
(pivot order `(1,1), (3,2), (0,0)`), invertible by `pivot_block_unit_triangular` -/
example (h : TriPivots exA true [(1, 1), (3, 2), (0, 0)]) :
    pivBlock exA _ h.bound ⟨0, by decide⟩ ⟨1, by decide⟩ = 2 ∧ IsUnit (pivBlock exA _ h.bound).det :=
  ⟨rfl, (pivot_block_unit_triangular _ _ exA true _ h).2.2.1⟩

end Yuiv.C08
