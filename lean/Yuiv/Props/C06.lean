import Yuiv.Proofs.C06
/-
C06 — canonical (Lee) classes and the s-type invariant.

Proved: (1) the valuation loop used by `ss_invariant` is correct and terminates exactly when the divisor is not a
unit: for a ≠ 0 and |c| ≥ 2 it returns the k with c^k ∣ a and ¬ c^(k+1) ∣ a; for c = ±1 it runs forever (for every
budget) — the reason for the `!c.is_unit()` assertion; (2) the local reason canonical cycles are cycles when t = 0:
in A = ℤ[X]/(X² − hX) the two colours a = X and b = X − h multiply to zero, a² = h·a, b² = −h·b, and the
comultiplication of a (resp. b) is a⊗a (resp. b⊗b) up to the unit-free form below — so merging differently coloured
circles and splitting a monochromatic one never leaves the span of monochromatically consistent labellings;
(3) elementary `ss` arithmetic.
NOT proved: Lee's theorem (rank 2^components), non-torsion of the classes, diagram independence of ss, the
crossing-change inequality — explored by the harness on knots with ≤ 9 crossings.
-/
namespace Yuiv.C06
open Yuiv Yuiv.KhRef

/-- (1a) correctness of the valuation for a non-unit divisor -/
theorem div_spec (a c : Int) (ha : a ≠ 0) (hc : 2 ≤ c.natAbs) :
    ∃ k, div a c = .ok (some k) ∧ c ^ k ∣ a ∧ ¬ c ^ (k + 1) ∣ a := by
  have hc0 : c ≠ 0 := by intro h; subst h; simp at hc
  obtain ⟨j, hj1, hj2, hj3⟩ :=
    divLoop_spec a.natAbs (a.natAbs + 1) a c 0 (Nat.le_refl _) ha hc (Nat.lt_succ_self _)
  refine ⟨j, ?_, hj2, hj3⟩
  simp [div, ha, hc0, hj1]

/-- (1b) for a unit divisor the loop never terminates, whatever the budget -/
theorem divLoop_unit_diverges (fuel : Nat) (a c : Int) (k : Nat) (hc : c.natAbs = 1) :
    divLoop fuel a c k = none :=
  divLoop_unit fuel a c k hc

theorem div_zero (c : Int) : div 0 c = .ok none := by
  simp [div]

/-- (2) t = 0: the two colours annihilate each other and are (scaled) idempotents -/
theorem colour_products (h : Int) :
    let a : A := X
    let b : A := (-h, 1)          -- X − h
    mul h 0 a b = (0, 0) ∧ mul h 0 a a = smul h a ∧ mul h 0 b b = smul (-h) b := by
  simp [mul, add, smul, vecOf, prod, X]

/-- (2') comultiplication of the colours when t = 0: Δa = a ⊗ a and Δb = b ⊗ b (coefficients in the basis
1⊗1, 1⊗X, X⊗1, X⊗X: a⊗a = X⊗X; b⊗b = h²·1⊗1 − h·1⊗X − h·X⊗1 + X⊗X) -/
theorem colour_coproducts (h : Int) :
    comul h 0 X = (0, 0, 0, 1) ∧ comul h 0 ((-h, 1) : A) = (h * h, -h, -h, 1) := by
  simp [comul, add4, smul4, tenOf, coprod, X]

/-- (3) ss changes by twice the change of d when writhe and Seifert-circle count are fixed, and mirror-type
symmetry `ss(−d' …)`: if d' = −d − (w − r + 1) … we only record the affine dependence used by the harness -/
theorem ss_affine (d d' w r : Int) : ss d' w r - ss d w r = 2 * (d' - d) := by
  unfold ss; ring

end Yuiv.C06
