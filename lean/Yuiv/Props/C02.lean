import Yuiv.Model.KhRef
/-
C02 — link invariance and mirror duality.

Proved here (finite tables, by exhaustive `decide`): the crossing-level facts the diagram moves of the property
rest on — mirroring a crossing and flipping the resolution bit gives the same smoothing; `mirror` is an
involution and negates the sign table; `pass` is an involution on the four slots for every crossing type;
the smoothing arcs pair slot `j` with a slot different from `pass j` … ; reversing all orientations
(`[a,b,c,d] ↦ [c,d,a,b]`, i.e. slots rotated by two) preserves both smoothings.
NOT proved: Reidemeister invariance of Khovanov homology and the chain-level mirror duality; they are explored by
the harness (moved diagram vs. original vs. Lean cube reference, mirror rule cell by cell).
-/
namespace Yuiv.KhRef

theorem resolve_mirror (c : CT) (b : Bool) : (c.mirror).resolve (!b) = c.resolve b := by
  cases c <;> cases b <;> rfl

theorem mirror_mirror (c : CT) : c.mirror.mirror = c := by cases c <;> rfl

theorem slotSign_mirror (c : CT) (j : Nat) (hj : j < 4) : slotSign c.mirror j = - slotSign c j := by
  have : j = 0 ∨ j = 1 ∨ j = 2 ∨ j = 3 := by omega
  rcases this with rfl | rfl | rfl | rfl <;> cases c <;> rfl

theorem pass_involutive (c : CT) (j : Nat) (hj : j < 4) : c.pass (c.pass j) = j ∧ c.pass j < 4 := by
  have : j = 0 ∨ j = 1 ∨ j = 2 ∨ j = 3 := by omega
  rcases this with rfl | rfl | rfl | rfl <;> cases c <;> decide

/-- the strand through a crossing joins the two slots of one arc: `arcSlots` pairs `j` with `pass j` -/
theorem arcSlots_pass (c : CT) (j : Nat) (hj : j < 4) :
    (j, c.pass j) ∈ c.arcSlots ∨ (c.pass j, j) ∈ c.arcSlots := by
  have : j = 0 ∨ j = 1 ∨ j = 2 ∨ j = 3 := by omega
  rcases this with rfl | rfl | rfl | rfl <;> cases c <;> decide

/-- rotating the four slots by two (global orientation reversal) maps each smoothing arc to a smoothing arc -/
theorem arcSlots_rotate (c : CT) (a b : Nat) (h : (a, b) ∈ c.arcSlots) :
    ((a + 2) % 4, (b + 2) % 4) ∈ c.arcSlots ∨ ((b + 2) % 4, (a + 2) % 4) ∈ c.arcSlots := by
  cases c <;> simp [CT.arcSlots] at h <;> rcases h with ⟨rfl, rfl⟩ | ⟨rfl, rfl⟩ <;> decide

/-- a crossing sign does not change when both strands are reversed: entering through the opposite slot of the
same strand in the rotated code carries the same sign -/
theorem slotSign_rotate (c : CT) (j : Nat) (hj : j < 4) : slotSign c ((c.pass j + 2) % 4) = slotSign c j := by
  have : j = 0 ∨ j = 1 ∨ j = 2 ∨ j = 3 := by omega
  rcases this with rfl | rfl | rfl | rfl <;> cases c <;> decide

end Yuiv.KhRef
