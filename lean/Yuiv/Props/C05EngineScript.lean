import Yuiv.Proofs.C05EngineScriptDD
/-
C05 (engine) — the product complex of the MODEL (`TngComplex::connect`, hence `append`) and: EVERY engine script
preserves `d ∘ d = 0`.

Edge labels live in a (not necessarily commutative) ring `E`; `ops : EdgeOps E` is lawful in ring notation:
 * `RingEdgeOps`    — `eliminate` uses `c·a⁻¹·b`, `−`, two-sided inverses (Props/C05EngineDD);
 * `RingDeloopOps`  — `cap_off` is multiplication by a cap / cup, and the copies decompose the identity;
 * `RingTensorOps`  — `D(f, 1) = tl f w` and `D(1, g) = tr g v` are additive and multiplicative in `f` resp. `g`
                      (functoriality of `⊗` with an identity), `connect_edges` multiplies `D(1, g)` by
                      `(−1)^{weight(k) − deg_shift.0}`;
 * the interchange law `(1 ⊗ g)·(f ⊗ 1) = (f ⊗ 1)·(1 ⊗ g)` (both are `f ⊗ g`), for the edges `f`, `g` of the two
   factors (`connect_preserves_dd`) resp. for all labels (the script theorem, where the factors are not known in
   advance; in the single untyped ring `E` this is the only way to say it).
`Bounded`: every vertex has weight ≤ `dim` (what `collect_keys` looks at; true for `init`, crossings and everything
built from them — proved as part of the invariant).
NOT proved: that the real instance `lcOps h t` satisfies these hypotheses — see `Props/C05EngineLc.lean` for what is.
-/
namespace Yuiv.C05.Engine
open Yuiv Yuiv.C05

/-- the vertices of `connect`: one per pair of vertices, keyed by `k + l`, in the order of the degree rounds; no two
pairs get the same key (otherwise `add_vertex` panics) -/
theorem connect_vertices {E : Type} (ops : EdgeOps E) (left right cx' : Cx E) (hl : WF ops left) (hr : WF ops right)
    (h : left.connect ops right = .ok cx') :
    cx'.verts.map (·.1) = (allPairs left right).map pkey ∧
    (∀ p ∈ allPairs left right, ∀ q ∈ allPairs left right, pkey p = pkey q → p = q) :=
  connect_verts ops left right cx' hl hr h

/-- the edges of `connect`, soundness and completeness: every edge is `D(f, 1) : (k0,l0) → (k1,l0)` or
`±D(1, g) : (k0,l0) → (k0,l1)`, and every such edge with a non-zero label is there -/
theorem connect_edges_sound_complete {E : Type} (ops : EdgeOps E) (left right cx' : Cx E) (hl : WF ops left)
    (hr : WF ops right) (hbl : Bounded left) (hbr : Bounded right) (h : left.connect ops right = .ok cx') :
    (∀ e ∈ cx'.edges, ∃ k0 l0 v0 w0, left.tng? k0 = some v0 ∧ right.tng? l0 = some w0 ∧
      ((∃ a ∈ left.edges, a.1.1 = k0 ∧ ∃ g, ops.hcompL a.2 w0 = .ok g ∧
          e = ((k0.append l0, a.1.2.append l0), g)) ∨
       (∃ a ∈ right.edges, a.1.1 = l0 ∧ ∃ g, ops.hcompR (signNeg left k0) a.2 v0 = .ok g ∧
          e = ((k0.append l0, k0.append a.1.2), g)))) ∧
    (∀ a ∈ left.edges, ∀ l0 w0, right.tng? l0 = some w0 → ∃ g, ops.hcompL a.2 w0 = .ok g ∧
      (ops.isZero g = false → ((a.1.1.append l0, a.1.2.append l0), g) ∈ cx'.edges)) ∧
    (∀ a ∈ right.edges, ∀ k0 v0, left.tng? k0 = some v0 → ∃ g, ops.hcompR (signNeg left k0) a.2 v0 = .ok g ∧
      (ops.isZero g = false → ((k0.append a.1.1, k0.append a.1.2), g) ∈ cx'.edges)) :=
  ⟨fun e he => connect_sound ops left right cx' h e he,
   fun a ha l0 w0 hw => connect_complete_left ops left right cx' hl hbl hbr h a ha l0 w0 hw,
   fun a ha k0 v0 hv => connect_complete_right ops left right cx' hr hbl hbr h a ha k0 v0 hv⟩

/-- the entries of the product complex: `D((k,l) → (x,y)) = [y = l]·(d₁(k→x) ⊗ 1_l) + [x = k]·(−1)^{w(k)}·(1_k ⊗ d₂(l→y))` -/
theorem connect_entries {E : Type} [Ring E] (ops : EdgeOps E) (tl tr : E → Tng.Tng → E)
    (hops : RingTensorOps ops tl tr) (left right cx' : Cx E) (hl : WF ops left) (hr : WF ops right)
    (hbl : Bounded left) (hbr : Bounded right) (h : left.connect ops right = .ok cx') (k x l y : TKey)
    (v w : Tng.Tng) (hx : x ∈ left.verts.map (·.1)) (hy : y ∈ right.verts.map (·.1))
    (hv : left.tng? k = some v) (hw : right.tng? l = some w) :
    ent cx' (k.append l) (x.append y) =
      (if y = l then tl (ent left k x) w else 0) + (if x = k then sg left k (tr (ent right l y) v) else 0) :=
  connect_ent ops tl tr hops left right cx' hl hr hbl hbr h k x l y v w hx hy hv hw

/-- **`connect` preserves `d ∘ d = 0`** (the tensor product of two complexes with the sign rule of `connect_edges`) -/
theorem connect_preserves_dd {E : Type} [Ring E] (ops : EdgeOps E) (tl tr : E → Tng.Tng → E)
    (hops : RingTensorOps ops tl tr) (left right cx' : Cx E) (hl : WF ops left) (hr : WF ops right)
    (hbl : Bounded left) (hbr : Bounded right)
    (hX : ∀ k k' l l' f g, left.edge? k k' = some f → right.edge? l l' = some g →
      tr g (tngOf left k') * tl f (tngOf right l) = tl f (tngOf right l') * tr g (tngOf left k))
    (hd1 : DD left) (hd2 : DD right) (h : left.connect ops right = .ok cx') : DD cx' :=
  connect_dd ops tl tr hops left right cx' hl hr hbl hbr hX hd1 hd2 h

/-- the two-vertex complex of a crossing (`make_x`) is well formed, bounded, and has `d ∘ d = 0` (no two composable
edges), so **`append` preserves `d ∘ d = 0`** as the special case of `connect` -/
theorem append_preserves_dd {E : Type} [Ring E] (ops : EdgeOps E) (mkSdl : Tng.CobComp → E) (tl tr : E → Tng.Tng → E)
    (hops : RingTensorOps ops tl tr) (hX : ∀ f g v v' w w', tr g v' * tl f w = tl f w' * tr g v)
    (cx cx' : Cx E) (ct : KhRef.CT) (e : Array Nat) (hwf : WF ops cx) (hb : Bounded cx) (hdd : DD cx)
    (h : cx.appendX ops mkSdl ct e = .ok cx') : WF ops cx' ∧ Bounded cx' ∧ DD cx' := by
  unfold Cx.appendX at h
  rcases hx : makeX ops mkSdl ct e with x | _ | _
  · simp only [hx] at h
    obtain ⟨bx, _⟩ := bounded_makeX ops mkSdl ct e x hx
    have wx := wf_makeX ops mkSdl ct e x hx
    exact ⟨wf_connect ops cx x cx' hwf wx h, bounded_connect ops cx x cx' hb bx h,
      connect_dd ops tl tr hops cx x cx' hwf wx hb bx (fun k k' l l' f g _ _ => hX f g _ _ _ _) hdd
        (dd_makeX ops mkSdl ct e x hx) h⟩
  · simp [hx] at h
  · simp [hx] at h

/-- **EVERY engine script of the model preserves `d ∘ d = 0`** (together with well-formedness, bounded weights and
the base point): induction over the list of `append` / `deloop` / `eliminate` / `connect` steps; `connect` only with
complexes that have the invariant themselves (e.g. results of scripts) and a compatible base point -/
theorem script_preserves_dd {E : Type} [Ring E] (ops : EdgeOps E) (mkSdl : Tng.CobComp → E) (tl tr : E → Tng.Tng → E)
    (hE : RingEdgeOps ops) (hT : RingTensorOps ops tl tr)
    (hX : ∀ f g v v' w w', tr g v' * tl f w = tl f w' * tr g v) (base : Option Nat)
    (hdl : ∀ c : Tng.Path, ∃ cap cup : Tng.Dot → E, RingDeloopOps ops c cap cup ∧
      (if (match base with | some e => c.contains e | none => false) = true then cup .X * cap .none = 1
       else cup .X * cap .none + cup .none * cap .Y = 1))
    (steps : List (Step E)) (cx cx' : Cx E) (hg : Good ops base cx)
    (hcon : ∀ o, Step.con o ∈ steps → ∃ obase, Good ops obase o ∧ base.or obase = base)
    (h : runScript ops mkSdl steps cx = .ok cx') : Good ops base cx' := by
  unfold runScript at h
  refine foldRes_inv (Good ops base) _ steps ?_ cx cx' hg h
  intro b st b' hst hb hstep
  exact good_step ops mkSdl tl tr hE hT hX base hdl b b' st hb (fun o ho => hcon o (ho ▸ hst)) hstep

/-- … in particular from `TngComplex::init`: whatever script (without `connect` of foreign complexes) is run, the
result is well formed and has `d ∘ d = 0` -/
theorem script_from_init_dd {E : Type} [Ring E] (ops : EdgeOps E) (mkSdl : Tng.CobComp → E) (tl tr : E → Tng.Tng → E)
    (hE : RingEdgeOps ops) (hT : RingTensorOps ops tl tr)
    (hX : ∀ f g v v' w w', tr g v' * tl f w = tl f w' * tr g v) (dh dq : Int) (base : Option Nat)
    (hdl : ∀ c : Tng.Path, ∃ cap cup : Tng.Dot → E, RingDeloopOps ops c cap cup ∧
      (if (match base with | some e => c.contains e | none => false) = true then cup .X * cap .none = 1
       else cup .X * cap .none + cup .none * cap .Y = 1))
    (steps : List (Step E)) (cx' : Cx E) (hcon : ∀ o, Step.con o ∉ steps)
    (h : runScript ops mkSdl steps (Cx.init dh dq base) = .ok cx') : WF ops cx' ∧ DD cx' := by
  have := script_preserves_dd ops mkSdl tl tr hE hT hX base hdl steps _ cx' (good_init ops dh dq base)
    (fun o ho => absurd ho (hcon o)) h
  exact ⟨this.wf, this.dd⟩

/-- non-vacuity: over ℤ (commutative) with `f ⊗ 1 = f`, `1 ⊗ g = g` the toy algebra satisfies `RingTensorOps` and the
interchange law, and the toy `deloop` algebra satisfies both delooping hypotheses at once; a script with an
`append`, a `connect` and an `eliminate` runs on it -/
example : RingTensorOps toyOps (fun f _ => f) (fun g _ => g) ∧
    (∀ f g : Int, ∀ v v' w w' : Tng.Tng, (fun g (_ : Tng.Tng) => g) g v' * (fun f (_ : Tng.Tng) => f) f w
      = (fun f (_ : Tng.Tng) => f) f w' * (fun g (_ : Tng.Tng) => g) g v) := by
  refine ⟨⟨fun _ _ => rfl, fun neg g v => by cases neg <;> rfl, fun x h => by simpa [toyOps] using h,
    fun _ => rfl, fun _ => rfl, fun _ _ _ => rfl, fun _ _ _ => rfl, fun _ _ _ => rfl, fun _ _ _ => rfl⟩, ?_⟩
  intro f g _ _ _ _
  exact mul_comm g f

example : (runScript toyOps (fun _ => 1)
    [.app .X #[0, 1, 2, 3], .con toyZ, .el ⟨[false, false], [.X]⟩ ⟨[false, true], [.X]⟩] (Cx.init 0 0 none)).isOk = true := by
  decide

end Yuiv.C05.Engine
