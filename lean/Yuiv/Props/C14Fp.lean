import Yuiv.Proofs.C14Fp
/-
C14 — `FF<p>` is a field for EVERY prime `p` (property theorems only; helper lemmas in `Proofs/C14Fp.lean`).

The model `FF.inv` (Model/C14.lean) follows `ff.rs`: `None` for zero, otherwise the integers' extended gcd
`gcdx(a, p)` (the `num_integer::Integer::extended_gcd` iteration with fuel `|p| + 2`), `assert!(d.is_one())`,
`Self::new(x)`.  `Props/C14.lean` has the partial-correctness half (`ff_inv_sound`) and totality for p ∈ {2,3,5,7}
by evaluation.  Here: for every prime `p` and every canonical representative `0 ≤ a < p` the call never panics,
never runs out of fuel, returns `None` exactly for `a = 0` and otherwise THE inverse `u ∈ [0, p)`, `a·u ≡ 1`;
`a · a⁻¹ = 1` and `a / b = a · b⁻¹` in the model's own `mul`/`div` (which carry the `i32` overflow check, hence
`p ≤ 46340` there); `div` panics exactly at `b = 0`.  For a composite modulus the exact behaviour is stated too
(`assert!` fails exactly on the non-zero non-units).  The commutative-ring identities are stated on the model's
operations themselves for every modulus `1 ≤ p ≤ 46340` (prime or not).
-/
namespace Yuiv.C14
open Yuiv Res

/-! ## `inv` -/

/-- `inv(0) = None` for every modulus (no panic, even for `p ≤ 0`, because `FF::new` is not reached) -/
theorem ff_inv_zero (p : Int) : FF.inv p 0 = ok none := ff_inv_zero' p

/-- every prime `p`, every non-zero canonical `a`: `inv` returns `Some(u)`, `u` canonical, `a·u ≡ 1 (mod p)` -/
theorem ff_inv_prime (p : Nat) (hp : p.Prime) (a : Int) (ha : 0 < a ∧ a < (p : Int)) :
    ∃ u : Int, FF.inv (p : Int) a = ok (some u) ∧ 0 ≤ u ∧ u < (p : Int) ∧ (a * u) % (p : Int) = 1 := by
  obtain ⟨k, rfl⟩ := Int.eq_ofNat_of_zero_le (Int.le_of_lt ha.1)
  have hk : 0 < k := by omega
  have hkp : k < p := by omega
  obtain ⟨u, e, h0, h1, h2⟩ := ff_inv_of_coprime p k hp.pos hk (prime_coprime_of_lt p k hp hk hkp)
  have h1p : (1 : Int) % (p : Int) = 1 := Int.emod_eq_of_lt (by omega) (by have := hp.one_lt; omega)
  exact ⟨u, e, h0, h1, by rw [h2, h1p]⟩
example : Nat.Prime 46337 ∧ (0 : Int) < 12345 ∧ (12345 : Int) < (46337 : Nat) := by
  refine ⟨by norm_num, by decide, by decide⟩

/-- totality and correctness in one statement, as the code reads: for every prime `p` and every canonical `a`
`inv p a = ok (if a = 0 then None else Some u)` with `0 ≤ u < p` and `a·u ≡ 1 (mod p)` -/
theorem ff_inv_total (p : Nat) (hp : p.Prime) (a : Int) (ha : 0 ≤ a ∧ a < (p : Int)) :
    ∃ u : Int, FF.inv (p : Int) a = ok (if a = 0 then none else some u) ∧ 0 ≤ u ∧ u < (p : Int) ∧
      (a ≠ 0 → (a * u) % (p : Int) = 1) := by
  by_cases h0 : a = 0
  · subst h0
    exact ⟨0, by simp [ff_inv_zero], Int.le_refl 0, by have := hp.pos; omega, fun h => absurd rfl h⟩
  · obtain ⟨u, e, h1, h2, h3⟩ := ff_inv_prime p hp a ⟨by omega, ha.2⟩
    exact ⟨u, by rw [if_neg h0]; exact e, h1, h2, fun _ => h3⟩

/-- in particular: on canonical representatives of a prime field `inv` neither panics nor exhausts the loop fuel -/
theorem ff_inv_never_fails (p : Nat) (hp : p.Prime) (a : Int) (ha : 0 ≤ a ∧ a < (p : Int)) :
    FF.inv (p : Int) a ≠ panic ∧ FF.inv (p : Int) a ≠ err := by
  obtain ⟨u, e, _⟩ := ff_inv_total p hp a ha
  rw [e]
  exact ⟨fun h => (by cases h), fun h => (by cases h)⟩

/-- the returned value is determined by the field law: `inv p a = Some(u)` iff `u` is THE canonical solution of
`a·u ≡ 1 (mod p)`.  (So any other algorithm for the inverse — e.g. the search of the C15 model — agrees.) -/
theorem ff_inv_eq_iff (p : Nat) (hp : p.Prime) (a u : Int) (ha : 0 < a ∧ a < (p : Int)) :
    FF.inv (p : Int) a = ok (some u) ↔ (0 ≤ u ∧ u < (p : Int) ∧ (a * u) % (p : Int) = 1) := by
  have h1p : (1 : Int) % (p : Int) = 1 := Int.emod_eq_of_lt (by omega) (by have := hp.one_lt; omega)
  constructor
  · intro h
    obtain ⟨h0, h1, h2⟩ := ff_inv_spec _ _ _ h
    exact ⟨h0, h1, by rw [h2, h1p]⟩
  · rintro ⟨h0, h1, h2⟩
    obtain ⟨v, e, g0, g1, g2⟩ := ff_inv_prime p hp a ha
    have : u = v := inv_unique (p : Int) a u v ⟨h0, h1⟩ ⟨g0, g1⟩ (by rw [h2, h1p]) (by rw [g2, h1p])
    rw [this]; exact e

/-- `is_unit` (`!is_zero`) is exactly invertibility, for every prime -/
theorem ff_isUnit_iff_inv (p : Nat) (hp : p.Prime) (a : Int) (ha : 0 ≤ a ∧ a < (p : Int)) :
    FF.isUnit a = true ↔ ∃ u, FF.inv (p : Int) a = ok (some u) := by
  obtain ⟨u, e, _⟩ := ff_inv_total p hp a ha
  by_cases h0 : a = 0
  · subst h0
    simp [FF.isUnit, FF.isZero, ff_inv_zero]
  · rw [e, if_neg h0]
    simp [FF.isUnit, FF.isZero, h0]

/-- ANY modulus `p ≥ 1` (prime or not), non-zero canonical `a`: `inv` returns the inverse when `gcd(a, p) = 1`
and panics (`assert!(d.is_one())`) otherwise — never `None`, never out of fuel.  For a composite `p` the
`Field` claim of `ff.rs` is false and this is how the code reacts. -/
theorem ff_inv_any_modulus (p k : Nat) (hk : 0 < k) (hkp : k < p) :
    (Nat.gcd k p = 1 → ∃ u : Int, FF.inv (p : Int) (k : Int) = ok (some u) ∧ 0 ≤ u ∧ u < (p : Int) ∧
        ((k : Int) * u) % (p : Int) = 1 % (p : Int)) ∧
    (Nat.gcd k p ≠ 1 → FF.inv (p : Int) (k : Int) = panic) :=
  ⟨fun hc => ff_inv_of_coprime p k (by omega) hk hc, fun hc => ff_inv_of_not_coprime p k hk hc⟩
example : FF.inv 6 5 = ok (some 5) ∧ FF.inv 6 4 = panic := by decide

/-! ## the field law and division (model `mul`/`div` with the `i32` overflow check: `p ≤ 46340`) -/

/-- `a · a⁻¹ = a⁻¹ · a = 1` for every prime `p ≤ 46340` and every non-zero canonical `a` -/
theorem ff_mul_inv_cancel (p : Nat) (hp : p.Prime) (hp32 : p ≤ 46340) (a : Int) (ha : 0 < a ∧ a < (p : Int)) :
    ∃ u : Int, FF.inv (p : Int) a = ok (some u) ∧ FF.mul (p : Int) a u = ok 1 ∧ FF.mul (p : Int) u a = ok 1 := by
  obtain ⟨u, e, h0, h1, h2⟩ := ff_inv_prime p hp a ha
  have hp0 : (0 : Int) < (p : Int) := by have := hp.pos; omega
  have hpb : (p : Int) ≤ 46340 := by omega
  refine ⟨u, e, ?_, ?_⟩
  · rw [ff_mul_ok hp0 hpb ⟨by omega, ha.2⟩ ⟨h0, h1⟩, h2]
  · rw [ff_mul_ok hp0 hpb ⟨h0, h1⟩ ⟨by omega, ha.2⟩, Int.mul_comm, h2]
example : Nat.Prime 46337 ∧ 46337 ≤ 46340 := ⟨by norm_num, by decide⟩

/-- `a / b = a · b⁻¹`: for every prime `p ≤ 46340`, canonical `a` and non-zero canonical `b` the quotient is
`ok c` with `c = a · inv(b)` (the model's `mul`), `c` canonical, and `c · b = a` -/
theorem ff_div_spec (p : Nat) (hp : p.Prime) (hp32 : p ≤ 46340) (a b : Int)
    (ha : 0 ≤ a ∧ a < (p : Int)) (hb : 0 < b ∧ b < (p : Int)) :
    ∃ u c : Int, FF.inv (p : Int) b = ok (some u) ∧ FF.mul (p : Int) a u = ok c ∧ FF.div (p : Int) a b = ok c ∧
      0 ≤ c ∧ c < (p : Int) ∧ FF.mul (p : Int) c b = ok a := by
  obtain ⟨u, e, h0, h1, h2⟩ := ff_inv_prime p hp b hb
  have hp0 : (0 : Int) < (p : Int) := by have := hp.pos; omega
  have hpb : (p : Int) ≤ 46340 := by omega
  have hm := ff_mul_ok hp0 hpb ha ⟨h0, h1⟩
  have hr := emod_range (p : Int) (a * u) hp0
  have hz : FF.isZero b = false := by simp only [FF.isZero, beq_eq_false_iff_ne, ne_eq]; omega
  refine ⟨u, (a * u) % (p : Int), e, hm, ?_, hr.1, hr.2, ?_⟩
  · unfold FF.div
    rw [hz, e]
    simpa [Res.assert] using hm
  · rw [ff_mul_ok hp0 hpb hr ⟨by omega, hb.2⟩, Int.mul_emod, Int.emod_emod, ← Int.mul_emod,
      Int.mul_assoc, Int.mul_comm u b, Int.mul_emod, h2, Int.mul_one, Int.emod_emod,
      Int.emod_eq_of_lt ha.1 ha.2]

/-- division by zero panics (`assert!(!rhs.is_zero())`), for every modulus and every dividend -/
theorem ff_div_zero (p a : Int) : FF.div p a 0 = panic := by
  simp [FF.div, FF.isZero, Res.assert]

/-- `div` panics EXACTLY at `b = 0` (prime `p ≤ 46340`, canonical operands), and never runs out of fuel -/
theorem ff_div_panic_iff (p : Nat) (hp : p.Prime) (hp32 : p ≤ 46340) (a b : Int)
    (ha : 0 ≤ a ∧ a < (p : Int)) (hb : 0 ≤ b ∧ b < (p : Int)) :
    (FF.div (p : Int) a b = panic ↔ b = 0) ∧ FF.div (p : Int) a b ≠ err := by
  by_cases h0 : b = 0
  · subst h0
    rw [ff_div_zero]
    exact ⟨⟨fun _ => rfl, fun _ => rfl⟩, fun h => (by cases h)⟩
  · obtain ⟨u, c, _, _, e, _⟩ := ff_div_spec p hp hp32 a b ha ⟨by omega, hb.2⟩
    rw [e]
    exact ⟨⟨fun h => (by cases h), fun h => absurd h h0⟩, fun h => (by cases h)⟩

/-- the bound on `p` in the `mul`/`div` theorems is about the `i32` representative, not about the proofs: for the
prime `p = 46349` (the smallest prime above √(2³¹)) the product of two canonical representatives overflows
`i32` before the reduction and the operator panics under overflow checks, while `inv` is still fine -/
theorem ff_mul_overflow_beyond_bound :
    Nat.Prime 46349 ∧ FF.mul 46349 46348 46348 = panic ∧ FF.inv 46349 46348 = ok (some 46348) := by
  refine ⟨by norm_num, by decide, by decide⟩

/-! ## bridge to the C15 model -/

/-- the Euclidean-ring model of C15 (`Model/C15.lean`, `FF.inv p a` = first `x < p` with `a·x ≡ 1`, found by
search) returns the same residue as this extended-gcd model of `ff.rs`, for every prime `p` and every canonical
`a` — the field-level theorems of `Props/C15Fields` are therefore about the value the code computes -/
theorem ff_inv_eq_c15_model (p : Nat) (hp : p.Prime) (k : Nat) (hk : k < p) :
    FF.inv (p : Int) (k : Int) = ok ((Yuiv.C15.FF.inv p k).map (fun u : Nat => (u : Int))) := by
  by_cases h0 : k = 0
  · subst h0
    have : Yuiv.C15.FF.inv p 0 = none := by simp [Yuiv.C15.FF.inv]
    rw [this]; exact ff_inv_zero _
  · obtain ⟨u, e, u0, u1, u2⟩ := ff_inv_prime p hp (k : Int) ⟨by omega, by omega⟩
    obtain ⟨w, rfl⟩ := Int.eq_ofNat_of_zero_le u0
    have hkw : (k * w) % p = 1 := by
      have : (((k * w) % p : Nat) : Int) = ((1 : Nat) : Int) := by push_cast; exact u2
      exact_mod_cast this
    rw [c15_inv_of_unique p k w h0 (by omega) hp.two_le hkw, e]
    rfl
example : Yuiv.C15.FF.inv 7 3 = some 5 ∧ FF.inv 7 3 = ok (some 5) := by decide

/-! ## the commutative-ring identities on the model's own operations, every modulus `1 ≤ p ≤ 46340` -/

/-- for canonical `a b c` and ANY modulus `1 ≤ p ≤ 46340` (prime or not) all operations return `ok` and satisfy
the commutative-ring axioms identically (sequenced with the `Res` bind, i.e. including "no panic").
`One::one()` is the raw `FF(1)`, canonical only for `p ≥ 2`, hence the hypothesis of the unit law. -/
theorem ff_ring_axioms (p a b c : Int) (hp0 : 0 < p) (hp : p ≤ 46340)
    (ha : 0 ≤ a ∧ a < p) (hb : 0 ≤ b ∧ b < p) (hc : 0 ≤ c ∧ c < p) :
    FF.add p a b = FF.add p b a ∧
    (FF.add p a b >>= fun s => FF.add p s c) = (FF.add p b c >>= fun s => FF.add p a s) ∧
    FF.add p a 0 = ok a ∧
    (FF.neg p a >>= fun n => FF.add p a n) = ok 0 ∧
    FF.sub p a b = (FF.neg p b >>= fun n => FF.add p a n) ∧
    FF.mul p a b = FF.mul p b a ∧
    (FF.mul p a b >>= fun s => FF.mul p s c) = (FF.mul p b c >>= fun s => FF.mul p a s) ∧
    (2 ≤ p → FF.mul p a 1 = ok a) ∧
    (FF.add p b c >>= fun s => FF.mul p a s) =
      (FF.mul p a b >>= fun x => FF.mul p a c >>= fun y => FF.add p x y) := by
  have er := fun x => emod_range p x hp0
  have h0 : (0 : Int) ≤ 0 ∧ (0 : Int) < p := ⟨Int.le_refl 0, hp0⟩
  refine ⟨?_, ?_, ?_, ?_, ?_, ?_, ?_, ?_, ?_⟩
  · rw [ff_add_ok hp0 hp ha hb, ff_add_ok hp0 hp hb ha, Int.add_comm]
  · rw [ff_add_ok hp0 hp ha hb, ff_add_ok hp0 hp hb hc]
    simp only [Res.bind_ok]
    rw [ff_add_ok hp0 hp (er _) hc, ff_add_ok hp0 hp ha (er _), Int.emod_add_emod, Int.add_emod_emod,
      Int.add_assoc]
  · rw [ff_add_ok hp0 hp ha h0, Int.add_zero, Int.emod_eq_of_lt ha.1 ha.2]
  · rw [ff_neg_ok hp0 hp ha]
    simp only [Res.bind_ok]
    rw [ff_add_ok hp0 hp ha (er _), Int.add_emod_emod, Int.add_right_neg, Int.zero_emod]
  · rw [ff_sub_ok hp0 hp ha hb, ff_neg_ok hp0 hp hb]
    simp only [Res.bind_ok]
    rw [ff_add_ok hp0 hp ha (er _), Int.add_emod_emod, Int.sub_eq_add_neg]
  · rw [ff_mul_ok hp0 hp ha hb, ff_mul_ok hp0 hp hb ha, Int.mul_comm]
  · rw [ff_mul_ok hp0 hp ha hb, ff_mul_ok hp0 hp hb hc]
    simp only [Res.bind_ok]
    rw [ff_mul_ok hp0 hp (er _) hc, ff_mul_ok hp0 hp ha (er _), emod_mul_emod', mul_emod_emod', Int.mul_assoc]
  · intro h2
    rw [ff_mul_ok hp0 hp ha ⟨by omega, by omega⟩, Int.mul_one, Int.emod_eq_of_lt ha.1 ha.2]
  · rw [ff_add_ok hp0 hp hb hc, ff_mul_ok hp0 hp ha hb, ff_mul_ok hp0 hp ha hc]
    simp only [Res.bind_ok]
    rw [ff_mul_ok hp0 hp ha (er _), ff_add_ok hp0 hp (er _) (er _), ← Int.add_emod,
      mul_emod_emod', Int.mul_add]
example : FF.add 46340 46339 46339 = ok 46338 ∧ FF.mul 46340 46339 46339 = ok 1 := by decide

end Yuiv.C14
