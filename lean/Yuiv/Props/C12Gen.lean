import Yuiv.Proofs.C12Gen
/-
C12 — the hand-written model of the triangular solver (`Yuiv/Model/C12.lean`: `collectDiag`, `copyInto`, `colStep`, `outer`,
`solveBuf`, `solveCols`, `solve`, `solveVec`, `invTriangular`, `solveLeft`), about which `Props/C12.lean` proves
correctness and schedule independence, IS the source text of the sequential core of
`/repo/yui-matrix/src/sparse/triang.rs`.

`Yuiv.GenTriang.*` (file `Yuiv/Gen/TriangFn.lean`) is regenerated from the Rust source by `tools/rs2lean_fn.py fn:triang`
on every `./check` run, generic over the same scalar class `[Scal α]`.  The generated code keeps the index panics of
`b[i]` / `x[i]`; the model totalises them, so the equalities are stated for matrices / vectors whose stored row indices
are in range (`RowsOk`, part of the CSC invariant of nalgebra-sparse) and buffers of the right length.  Everything else —
`assert_eq!`, `debug_assert!` (debug build), `u.inv().unwrap()`, `b[j]` of the outer loop, `assert!(i < dim)` of
`from_sorted_entries` — is compared including the panics.

Property theorems only; helpers are in `Yuiv/Proofs/C12Gen.lean`.
-/
set_option linter.unusedSimpArgs false
set_option linter.unusedSectionVars false
namespace Yuiv.C12Gen
open Yuiv Res Yuiv.Rust Yuiv.GenTriang Yuiv.C12

variable {α : Type} [Scal α]

/-! ### `TriangularType` -/

theorem gen_is_upper_eq : TriangularType.is_upper .Upper = true ∧ TriangularType.is_upper .Lower = false := ⟨rfl, rfl⟩

theorem gen_tranpose_eq (t : TriangularType) : up (TriangularType.tranpose t) = !up t := by cases t <;> rfl

/-! ### `collect_diag`, `copy_into` -/

theorem gen_collect_diag_eq (A : SpMat α) : triang.collect_diag A = (collectDiag A).toArray := by
  unfold triang.collect_diag collectDiag SM.iter
  congr 1
  rw [List.filterMap_flatMap]
  congr 1
  funext j
  rw [List.filterMap_map]
  rfl

theorem gen_copy_into_eq (v : SVec α) (x : Array α) (h : ∀ e ∈ v.ents, e.1 < x.size) :
    triang.copy_into v x = ok (copyInto x v.ents) := by
  unfold triang.copy_into SVec.iter
  exact copy_loop_eq _ _ h

/-! ### `_solve_triangular` -/

theorem gen_solve_buf_eq (t : TriangularType) (A : SpMat α) (diag b : Array α)
    (h : ∀ j, ∀ e ∈ colVec A j, e.1 < b.size) :
    triang._solve_triangular_ t A diag b =
      mapR (fun p => (p.1, (⟨A.ncols, p.2⟩ : SVec α))) (solveBuf (up t) A diag.toList b) := by
  unfold triang._solve_triangular_ solveBuf
  simp only [Csc.enumerate, enumFrom_eq, SVec.from_sorted_entries]
  have e1 : (if TriangularType.is_upper t = true then (C12.enumFrom 0 diag.toList).reverse else C12.enumFrom 0 diag.toList) =
      (if up t = true then (C12.enumFrom 0 diag.toList).reverse else C12.enumFrom 0 diag.toList) := rfl
  rw [e1, outer_eq A _ b [] h, bind_mapR]
  cases ho : outer A b [] (if up t = true then (C12.enumFrom 0 diag.toList).reverse else C12.enumFrom 0 diag.toList) with
  | ok p =>
    obtain ⟨b', es⟩ := p
    have ha : List.all b'.toList triang._solve_triangular__closure3 = b'.all isZero := by
      rw [Array.all_toList]; rfl
    simp only [bind_ok, ha]
    cases hz : b'.all isZero
    · simp [assert_false, mapR_panic]
    · simp only [assert_true, bind_ok, Bool.not_true, Bool.false_eq_true, if_false]
      have e2 : (if TriangularType.is_upper t = true then es.reverse else es) = (if up t = true then es.reverse else es) := rfl
      rw [e2]
      cases hall : (if up t = true then es.reverse else es).all fun e => decide (e.1 < A.ncols)
      · simp only [hall, Bool.false_eq_true, if_false, mapR_panic]; rfl
      · simp only [hall, if_true, bind_ok, mapR_ok]
        rfl
  | panic => rfl
  | err => rfl

/-! ### the column loop of `solve_triangular_s` (one scratch buffer handed from column to column) -/

/-- one column: `copy_into(y.col_vec(j), &mut b); _solve_triangular(t, a, &diag, &mut b)` -/
theorem gen_solve_col_eq (t : TriangularType) (A Y : SpMat α) (diag : Array α) (hA : RowsOk A)
    (hY : ∀ j, ∀ e ∈ col Y j, e.1 < A.nrows) (j : Nat) (b : Array α) (hb : b.size = A.nrows) :
    triang.solve_triangular_s_closure1 t A Y diag j b =
      mapR (fun p => (p.1, (⟨A.ncols, p.2⟩ : SVec α))) (solveBuf (up t) A diag.toList (copyInto b (colVec Y j))) := by
  have h1 : ∀ e ∈ (SM.col_vec Y j).ents, e.1 < b.size := fun e he => by
    rw [hb]; exact hY j e (List.mem_filter.mp he).1
  have h2 : ∀ j', ∀ e ∈ colVec A j', e.1 < (copyInto b (colVec Y j)).size := fun j' e he => by
    rw [copyInto_size, hb]; exact colVec_rows hA j' e he
  unfold triang.solve_triangular_s_closure1
  show (triang.copy_into (SM.col_vec Y j) b >>= _) = _
  rw [gen_copy_into_eq _ _ h1]
  simp only [bind_ok, SM.col_vec]
  rw [gen_solve_buf_eq t A diag _ h2]
  cases solveBuf (up t) A diag.toList (copyInto b (colVec Y j)) <;> rfl

theorem gen_solve_cols_eq (t : TriangularType) (A Y : SpMat α) (diag : Array α) (hA : RowsOk A)
    (hY : ∀ j, ∀ e ∈ col Y j, e.1 < A.nrows) : ∀ (c j : Nat) (b : Array α), b.size = A.nrows →
    Loop.mapGo (triang.solve_triangular_s_closure1 t A Y diag) c j b =
      mapR (fun p => (p.1, p.2.map fun es => (⟨A.ncols, es⟩ : SVec α)))
        (solveCols (up t) A diag.toList Y b (List.range' j c)) := by
  intro c
  induction c with
  | zero => intro j b _; rfl
  | succ c ih =>
    intro j b hb
    unfold Loop.mapGo
    rw [List.range'_succ]
    unfold solveCols
    rw [gen_solve_col_eq t A Y diag hA hY j b hb]
    cases hs : solveBuf (up t) A diag.toList (copyInto b (colVec Y j)) with
    | ok p =>
      obtain ⟨b2, es⟩ := p
      have hb2 : b2.size = A.nrows := by rw [solveBuf_size _ _ _ _ _ _ hs, copyInto_size, hb]
      simp only [mapR_ok, bind_ok]
      rw [ih (j + 1) b2 hb2]
      cases solveCols (up t) A diag.toList Y b2 (List.range' (j + 1) c) with
      | ok q => rfl
      | panic => rfl
      | err => rfl
    | panic => rfl
    | err => rfl

/-! ### `solve_triangular`, `inv_triangular`, `solve_triangular_left`, `solve_triangular_vec` -/

theorem gen_solve_triangular_eq (t : TriangularType) (A Y : SpMat α) (hA : RowsOk A) (hY : RowsOk Y) :
    triang.solve_triangular t A Y = solve (up t) A Y := by
  unfold triang.solve_triangular solve triang.solve_triangular_s
  by_cases hn : A.nrows = Y.nrows
  · have hne : (A.nrows != Y.nrows) = false := by simp [hn]
    have hd : decide (SM.nrows A = SM.nrows Y) = true := by simp [hn]
    simp only [hd, hne, assert_true, bind_ok, SM.is_triang, Bool.false_eq_true, if_false]
    show (Res.assert (isTriang (up t) A) >>= _) = _
    cases htr : isTriang (up t) A
    · simp [assert_false]
    · have hsq := isTriang_square htr
      simp only [assert_true, bind_ok, Bool.not_true, Bool.false_eq_true, if_false, Loop.mapRange, Nat.sub_zero,
        gen_collect_diag_eq, List.range_eq_range']
      rw [gen_solve_cols_eq t A Y _ hA (fun j e he => by rw [hn]; exact hY j e he) Y.ncols 0 _ (by simp)]
      show (mapR _ (solveCols (up t) A (collectDiag A) Y (zeroBuf A.nrows) (List.range' 0 Y.ncols)) >>= _) = _
      cases hc : solveCols (up t) A (collectDiag A) Y (zeroBuf A.nrows) (List.range' 0 Y.ncols) with
      | ok p =>
        obtain ⟨b', cs⟩ := p
        have hl := solveCols_length _ _ _ _ _ _ _ _ hc
        have hm : List.map ((fun x : SVec α => x.ents) ∘ fun es => { dim := A.ncols, ents := es }) cs = cs := by
          have : ((fun x : SVec α => x.ents) ∘ fun es => ({ dim := A.ncols, ents := es } : SVec α)) = id := rfl
          rw [this, List.map_id]
        simp [mapR_ok, SM.from_col_vecs, hsq, hl, Function.comp]
        exact hm
      | panic => rfl
      | err => rfl
  · have hne : (A.nrows != Y.nrows) = true := by simp [hn]
    simp [hn, hne, assert_false]

theorem gen_inv_triangular_eq (t : TriangularType) (A : SpMat α) (hA : RowsOk A) :
    triang.inv_triangular t A = invTriangular (up t) A := by
  unfold triang.inv_triangular invTriangular
  exact gen_solve_triangular_eq t A _ hA (idMat_rows _)

/-- no hypothesis: the row indices of a transpose are column indices, in range by construction -/
theorem gen_solve_triangular_left_eq (t : TriangularType) (A Y : SpMat α) :
    triang.solve_triangular_left t A Y = solveLeft (up t) A Y := by
  unfold triang.solve_triangular_left solveLeft
  simp only [SM.transpose]
  rw [gen_solve_triangular_eq _ _ _ (transpose_rows A) (transpose_rows Y), gen_tranpose_eq]
  cases solve (!up t) (transpose A) (transpose Y) <;> rfl

theorem gen_solve_triangular_vec_eq (t : TriangularType) (A : SpMat α) (v : SVec α) (hA : RowsOk A) :
    triang.solve_triangular_vec t A v =
      mapR (fun es => (⟨A.ncols, es⟩ : SVec α)) (solveVec (up t) A v.dim v.ents) := by
  unfold triang.solve_triangular_vec solveVec
  by_cases hn : A.nrows = v.dim
  · have hne : (A.nrows != v.dim) = false := by simp [hn]
    have hd : decide (SM.nrows A = SVec.dim v) = true := by simp [hn]
    simp only [hd, hne, assert_true, bind_ok, SM.is_triang, Bool.false_eq_true, if_false]
    show (Res.assert (isTriang (up t) A) >>= _) = _
    cases htr : isTriang (up t) A
    · simp [assert_false, mapR_panic]
    · simp only [assert_true, bind_ok, Bool.not_true, Bool.false_eq_true, if_false, gen_collect_diag_eq, SVec.to_dense]
      rw [gen_solve_buf_eq t A _ _ (fun j e he => by rw [toDense_size, ← hn]; exact colVec_rows hA j e he)]
      show (mapR _ (solveBuf (up t) A (collectDiag A) (toDense v.dim v.ents)) >>= _) = _
      cases solveBuf (up t) A (collectDiag A) (toDense v.dim v.ents) <;> rfl
  · have hne : (A.nrows != v.dim) = true := by simp [hn]
    have hd : decide (SM.nrows A = SVec.dim v) = false := by simp [hn]
    simp [hd, hne, assert_false, mapR_panic]

/-! ### the hypotheses are satisfiable -/

example : RowsOk (idMat 3 : SpMat α) := idMat_rows 3
example (M : SpMat α) : RowsOk (transpose M) := transpose_rows M

end Yuiv.C12Gen
