import Yuiv.Gen.Dispatch
/-
C20: the dispatch tables of the CLI model (`C20.eucPolyTable`, `C20.nonEucPolyTable`, the direct arms of `tryStd`)
are THE tables of `bin-ykh/src/app/utils/dispatch.rs` as they stand in /repo now (`Yuiv.Gen20.*` is regenerated from the
Rust source by tools/rs2lean.py on every run).
-/
namespace Yuiv.C20

theorem gen_eucPolyTable_eq (ct : CType) (v : PolyVars) : Yuiv.Gen20.eucPolyTable ct v = eucPolyTable ct v := by
  cases ct <;> cases v <;> rfl

theorem gen_nonEucPolyTable_eq (ct : CType) (v : PolyVars) : Yuiv.Gen20.nonEucPolyTable ct v = nonEucPolyTable ct v := by
  cases ct <;> cases v <;> rfl

/-- the base types that `try_std!` runs directly are exactly those the model runs over themselves -/
theorem gen_stdDirect_eq (f : Feat) (ct : CType) :
    (ct ∈ Yuiv.Gen20.stdDirect ↔ tryStd f ct = some (.run (.std ct)) ∧ ct ≠ .Gauss ∧ ct ≠ .Eisen) := by
  cases ct <;> simp [Yuiv.Gen20.stdDirect, tryStd, tryQint] <;> (cases f; simp) 

end Yuiv.C20
