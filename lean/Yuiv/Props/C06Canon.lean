import Yuiv.Proofs.C06Canon
import Yuiv.Props.C06
/-
C06 (extension) — the CONSTRUCTION of the canonical cycles (`Model/C06Canon.lean`).

Proved for all inputs:
 (a) `canon_expand_spec`, `canon_expand_canonical`, `coefSpec_bits`: the expansion of ⊗(X or X − h) into cube
     generators has, on every labelling mask, the coefficient ∏ over circles of (1 if label X; −h if label 1 and
     colour b; 0 if label 1 and colour a); the chain is strictly sorted by mask and zero-free (canonical form).
 (b) the BFS colouring of `colored_seifert_circles`: it terminates within the budget for every hash-set iteration
     order (`colouring_returns`); the set of circles taken out of `remain` is exactly the set reachable from the base
     circle (`colouring_reached_iff`), whatever the iteration order; if the adjacency admits a proper 2-colouring χ
     (Seifert graphs do) the result is χ on the reachable circles and A elsewhere (`colouring_spec`), hence it does
     not depend on the iteration order (`colouring_order_independent`), adjacent reached circles get opposite
     colours (`colouring_proper_on_reached`) and on a connected graph every circle is coloured
     (`colouring_total_of_connected`).  The quirk of the code that the start circle stays in `remain` and is
     re-coloured by its first neighbour is covered: it is re-coloured with the colour it had.
 (c) `mergeColours_zero` (from `colour_products`) and the LOCAL cycle lemma `canon_is_cycle_local`: merging two
     differently coloured circles of the canonical chain gives 0 on every target generator.
NOT proved: the lift to `KhRef.Cube.d (canon) = 0` (the reference cube is array code; the driver re-checks `d z = 0`
with it on every instance together with the hypothesis "every crossing joins two differently coloured Seifert
circles"), bipartiteness of Seifert graphs, and the walk `components`/`seifert_circles` (compared exactly with the
library on every instance instead).
-/
namespace Yuiv.C06Canon
open Yuiv Yuiv.KhRef Yuiv.C06

/-! ### (a) expansion -/

/-- the coefficient of every labelling mask in the expanded chain is the product formula -/
theorem canon_expand_spec (h : Int) (cs : List Colour) (m : Nat) :
    coefAt (expand h cs) m = coefSpec h cs m := by
  rw [coefAt_eq_sumAt, sumAt_expand]

/-- canonical form: strictly increasing masks (so no mask twice), no zero coefficient, masks below 2^#circles -/
theorem canon_expand_canonical (h : Int) (cs : List Colour) :
    (expand h cs).Pairwise (fun x y => x.1 < y.1) ∧ (∀ t ∈ expand h cs, t.2 ≠ 0 ∧ t.1 < 2 ^ cs.length) := by
  induction cs with
  | nil => simp [expand]
  | cons c cs ih =>
    obtain ⟨hs, hn⟩ := ih
    constructor
    · simp only [expand]
      rw [List.pairwise_flatMap]
      constructor
      · intro mk _
        rw [List.pairwise_map]
        exact (factor_sorted h c).imp (fun hxy => by simpa using hxy)
      · refine hs.imp ?_
        intro mk1 mk2 h12 x hx y hy
        simp only [List.mem_map] at hx hy
        obtain ⟨b1, hb1, rfl⟩ := hx
        obtain ⟨b2, hb2, rfl⟩ := hy
        have := (factor_nonzero h c b1 hb1).2
        simp only
        omega
    · intro t ht
      simp only [expand, List.mem_flatMap, List.mem_map] at ht
      obtain ⟨mk, hmk, bk, hbk, rfl⟩ := ht
      obtain ⟨h1, h2⟩ := hn mk hmk
      obtain ⟨h3, h4⟩ := factor_nonzero h c bk hbk
      refine ⟨Int.mul_ne_zero h3 h1, ?_⟩
      simp only [List.length_cons, Nat.pow_succ]
      omega

/-- the mask formula read on a list of labels (entry `i` = label of circle `i`, `true` = X) -/
theorem coefSpec_bits (h : Int) : ∀ (cs : List Colour) (xs : List Bool), xs.length = cs.length →
    coefSpec h cs (bitsToNat xs) = coefList h cs xs := by
  intro cs
  induction cs with
  | nil => intro xs hx; cases xs with
    | nil => simp [coefSpec, bitsToNat, coefList]
    | cons x xs => simp at hx
  | cons c cs ih =>
    intro xs hx
    cases xs with
    | nil => simp at hx
    | cons x xs =>
      have hl : xs.length = cs.length := by simpa using hx
      have e1 : bitsToNat (x :: xs) / 2 = bitsToNat xs := by
        cases x <;> simp [bitsToNat]
        omega
      have e2 : (bitsToNat (x :: xs) % 2 == 1) = x := by cases x <;> simp [bitsToNat]
      simp only [coefSpec, coefList, e1, e2, ih xs hl]

/-- shape of the result of the construction: no cycle (not a knot), or the expansions of one colour list `cols`
(reduced) resp. of `cols` and of the swapped colours (unreduced), all at the orientation preserving state — so
`canon_expand_spec`, `canon_expand_canonical` and `canon_is_cycle_local` speak about what `canonCyclesAt` returns -/
theorem canonCyclesAt_form (l : Link) (signs : List Int) (h : Int) (base : Option Nat) (zs : List Chain)
    (hz : canonCyclesAt l signs h base = .ok zs) :
    zs = [] ∨ ∃ cols : List Colour,
      zs = if base.isSome then [chainOf (oriPresState signs) h cols]
           else [chainOf (oriPresState signs) h cols, chainOf (oriPresState signs) h (cols.map Colour.other)] := by
  unfold canonCyclesAt at hz
  split at hz
  · split at hz
    · left; cases hz; rfl
    · split at hz
      · cases hz
      · split at hz
        · right
          rename_i _ cc _
          refine ⟨coloursInRefOrder cc (circles l (edgeLabels l) (oriPresState signs)).toList, ?_⟩
          split at hz <;> (cases hz; simp [chainOf, *])
        · cases hz
        · cases hz
  · cases hz
  · cases hz

/-! ### (b) the BFS colouring -/

/-- the budget of the model is enough for every iteration order -/
theorem colouring_returns (adj : Nat → Nat → Bool) (order : Nat → List Nat → List Nat) (hp : PermOrder order)
    (n i : Nat) : ∃ r, colouring adj order n i = some r := by
  unfold colouring
  apply bfs_terminates hp
  simp

/-- the circles taken out of `remain` are exactly the circles reachable from the start (for every iteration order) -/
theorem colouring_reached_iff (adj : Nat → Nat → Bool) (order : Nat → List Nat → List Nat) (hp : PermOrder order)
    (n i : Nat) (hi : i < n) (colf : Nat → Colour) (remf : List Nat)
    (hres : colouring adj order n i = some (colf, remf)) (u : Nat) (hu : u < n) :
    Reach adj n i u ↔ (u ∉ remf ∨ u = i) := by
  have inv0 : Inv adj n i [i] (List.range n) := by
    refine ⟨?_, ?_, ?_, ?_⟩
    · intro u hu hc
      rcases hc with hc | rfl
      · exact absurd (List.mem_range.mpr hu) hc
      · left; simp
    · intro u hu; simp at hu; subst hu; exact Reach.start
    · intro u hu hc; exact absurd (List.mem_range.mpr hu) hc
    · intro u hu; exact List.mem_range.mp hu
  exact reach_iff (bfs_inv hp n i _ _ _ _ colf remf hres inv0).1 hi u hu

/-- bipartite adjacency: the BFS returns χ on the reachable circles and the initial colour A elsewhere -/
theorem colouring_spec (adj : Nat → Nat → Bool) (order : Nat → List Nat → List Nat) (hp : PermOrder order)
    (n i : Nat) (hi : i < n) (χ : Nat → Colour) (hχ : ∀ u v, adj u v = true → χ v = (χ u).other) (hχi : χ i = .a)
    (colf : Nat → Colour) (remf : List Nat) (hres : colouring adj order n i = some (colf, remf)) (u : Nat) :
    (u < n → Reach adj n i u → colf u = χ u) ∧ (¬ (u < n ∧ Reach adj n i u) → colf u = .a) := by
  have hres' := hres
  unfold colouring at hres'
  obtain ⟨c1, c2, c3, _⟩ := bfs_colour hp χ hχ _ _ _ _ colf remf hres' (by intro u hu; simp at hu; subst hu; exact hχi.symm)
  constructor
  · intro hu hreach
    rcases (colouring_reached_iff adj order hp n i hi colf remf hres u hu).mp hreach with hout | rfl
    · exact c2 u (List.mem_range.mpr hu) hout
    · exact c1 u hχi.symm
  · intro hnot
    by_cases hu : u < n
    · have hr := colouring_reached_iff adj order hp n i hi colf remf hres u hu
      have hin : u ∈ remf := by
        by_cases hin : u ∈ remf
        · exact hin
        · exact absurd ⟨hu, hr.mpr (Or.inl hin)⟩ hnot
      exact c3 u (Or.inr hin)
    · exact c3 u (Or.inl (fun hc => hu (List.mem_range.mp hc)))

/-- the colouring does not depend on the hash-set iteration order -/
theorem colouring_order_independent (adj : Nat → Nat → Bool) (o1 o2 : Nat → List Nat → List Nat)
    (hp1 : PermOrder o1) (hp2 : PermOrder o2) (n i : Nat) (hi : i < n)
    (χ : Nat → Colour) (hχ : ∀ u v, adj u v = true → χ v = (χ u).other) (hχi : χ i = .a) :
    ∃ c1 r1 c2 r2, colouring adj o1 n i = some (c1, r1) ∧ colouring adj o2 n i = some (c2, r2) ∧ ∀ u, c1 u = c2 u := by
  obtain ⟨⟨c1, r1⟩, h1⟩ := colouring_returns adj o1 hp1 n i
  obtain ⟨⟨c2, r2⟩, h2⟩ := colouring_returns adj o2 hp2 n i
  refine ⟨c1, r1, c2, r2, h1, h2, fun u => ?_⟩
  have s1 := colouring_spec adj o1 hp1 n i hi χ hχ hχi c1 r1 h1 u
  have s2 := colouring_spec adj o2 hp2 n i hi χ hχ hχi c2 r2 h2 u
  by_cases hc : u < n ∧ Reach adj n i u
  · rw [s1.1 hc.1 hc.2, s2.1 hc.1 hc.2]
  · rw [s1.2 hc, s2.2 hc]

/-- soundness: a reached circle and an adjacent circle get opposite colours (all edges, not only tree edges) -/
theorem colouring_proper_on_reached (adj : Nat → Nat → Bool) (order : Nat → List Nat → List Nat) (hp : PermOrder order)
    (n i : Nat) (hi : i < n) (χ : Nat → Colour) (hχ : ∀ u v, adj u v = true → χ v = (χ u).other) (hχi : χ i = .a)
    (colf : Nat → Colour) (remf : List Nat) (hres : colouring adj order n i = some (colf, remf))
    (u v : Nat) (hu : u < n) (hv : v < n) (hr : Reach adj n i u) (huv : adj u v = true) :
    colf v = (colf u).other := by
  rw [(colouring_spec adj order hp n i hi χ hχ hχi colf remf hres v).1 hv (Reach.step hr huv hv),
    (colouring_spec adj order hp n i hi χ hχ hχi colf remf hres u).1 hu hr]
  exact hχ u v huv

/-- completeness: on a connected graph every circle is taken out of `remain` (coloured through a neighbour) and
carries χ -/
theorem colouring_total_of_connected (adj : Nat → Nat → Bool) (order : Nat → List Nat → List Nat) (hp : PermOrder order)
    (n i : Nat) (hi : i < n) (χ : Nat → Colour) (hχ : ∀ u v, adj u v = true → χ v = (χ u).other) (hχi : χ i = .a)
    (hconn : ∀ u, u < n → Reach adj n i u)
    (colf : Nat → Colour) (remf : List Nat) (hres : colouring adj order n i = some (colf, remf)) :
    (∀ u, u < n → colf u = χ u) ∧ (∀ u, u < n → u ≠ i → u ∉ remf) := by
  constructor
  · intro u hu
    exact (colouring_spec adj order hp n i hi χ hχ hχi colf remf hres u).1 hu (hconn u hu)
  · intro u hu hne
    rcases (colouring_reached_iff adj order hp n i hi colf remf hres u hu).mp (hconn u hu) with h | h
    · exact h
    · exact absurd h hne

/-- non-vacuity: the path 0 — 1 — 2 — 3 with the start in the middle; the hypotheses hold and the result is not constant -/
def pathAdj (u v : Nat) : Bool := u + 1 == v || v + 1 == u
def pathChi (u : Nat) : Colour := if u % 2 = 1 then .a else .b

example : ∀ u v, pathAdj u v = true → pathChi v = (pathChi u).other := by
  intro u v h
  simp only [pathAdj, Bool.or_eq_true, beq_iff_eq] at h
  unfold pathChi
  rcases Nat.mod_two_eq_zero_or_one u with hu | hu <;> rcases Nat.mod_two_eq_zero_or_one v with hv | hv <;>
    simp [hu, hv, Colour.other] <;> omega

example : PermOrder ascending := fun _ xs => List.Perm.refl xs
example : PermOrder (fun _ xs => xs.reverse) := fun _ xs => List.reverse_perm xs

example : (colouring pathAdj ascending 4 1).map (fun r => ([r.1 0, r.1 1, r.1 2, r.1 3], r.2)) =
    some ([.b, .a, .b, .a], []) := by decide
example : (colouring pathAdj (fun _ xs => xs.reverse) 4 1).map (fun r => ([r.1 0, r.1 1, r.1 2, r.1 3], r.2)) =
    some ([.b, .a, .b, .a], []) := by decide

/-! ### (c) the local cycle lemma -/

/-- the product of the two colour vectors vanishes (from `colour_products`: (X)(X − h) = 0 when t = 0) -/
theorem mergeColours_zero (h : Int) (c1 c2 : Colour) (hne : c1 ≠ c2) (y : Bool) : mergeColours h c1 c2 y = 0 := by
  have hp := colour_products h
  simp only at hp
  obtain ⟨hab, _, _⟩ := hp
  have hba : mul h 0 ((-h, 1) : A) X = (0, 0) := by
    simp [mul, add, smul, vecOf, prod, X]
  rw [mergeColours_eq_mul]
  cases c1 <;> cases c2
  · exact absurd rfl hne
  · simp only [colourVec, hab]; cases y <;> rfl
  · simp only [colourVec, hba]; cases y <;> rfl
  · exact absurd rfl hne

/-- LOCAL cycle lemma on labellings: let `cols` be the colours of the circles of a state and `i < j` two circles of
different colour. Merging them (the edge map of the cube at a crossing joining the two circles) sends the canonical
chain ⊗ (colour vectors) to 0: for every labelling `xs` of the other circles and every label `y` of the merged
circle, Σ_{x1,x2} z(xs[i:=x1, j:=x2]) · ⟨y | x1·x2⟩ = 0. -/
theorem canon_is_cycle_local_labels (h : Int) (cols : List Colour) (i j : Nat) (xs : List Bool) (y : Bool)
    (hij : i < j) (hj : j < cols.length) (hl : xs.length = cols.length)
    (hne : cols.getD i .a ≠ cols.getD j .a) :
    mergedCoef h cols i j xs y = 0 := by
  have hi : i < cols.length := by omega
  have key : ∀ x1 x2, coefList h cols (setAt j x2 (setAt i x1 xs)) =
      colourCoef h (cols.getD i .a) x1 * colourCoef h (cols.getD j .a) x2 *
        coefList h (dropC i (dropC j cols)) (dropAt i (dropAt j xs)) := by
    intro x1 x2
    rw [coefList_setAt h cols j _ x2 hj (by rw [length_setAt]; exact hl)]
    rw [dropAt_setAt i j x1 xs hij]
    have hlc := length_dropC j cols hj
    have hlx := length_dropAt j xs (by omega)
    rw [coefList_setAt h (dropC j cols) i _ x1 (by omega) (by omega), getD_dropC i j cols hij]
    ring
  have hm := mergeColours_zero h _ _ hne y
  simp only [mergeColours, List.foldl] at hm
  simp only [mergedCoef, List.foldl, key]
  linear_combination (coefList h (dropC i (dropC j cols)) (dropAt i (dropAt j xs))) * hm

/-- LOCAL cycle lemma on the canonical chain itself: the coefficients are read off the expanded chain
`expand h cols` (what `canonCycles` returns, up to the common state) at the masks of the labellings -/
theorem canon_is_cycle_local (h : Int) (cols : List Colour) (i j : Nat) (xs : List Bool) (y : Bool)
    (hij : i < j) (hj : j < cols.length) (hl : xs.length = cols.length)
    (hne : cols.getD i .a ≠ cols.getD j .a) :
    [true, false].foldl (fun acc x1 =>
      [true, false].foldl (fun acc x2 =>
        acc + coefAt (expand h cols) (bitsToNat (setAt j x2 (setAt i x1 xs))) * prodCoef h x1 x2 y) acc) 0 = 0 := by
  have e : ∀ x1 x2, coefAt (expand h cols) (bitsToNat (setAt j x2 (setAt i x1 xs))) =
      coefList h cols (setAt j x2 (setAt i x1 xs)) := by
    intro x1 x2
    rw [canon_expand_spec, coefSpec_bits h cols _ (by rw [length_setAt, length_setAt]; exact hl)]
  have := canon_is_cycle_local_labels h cols i j xs y hij hj hl hne
  simp only [mergedCoef] at this
  simp only [e]
  exact this

/-- non-vacuity: three circles coloured a, b, a; merging circles 0 and 1 kills the chain, and the chain is not zero -/
example : mergedCoef 2 [.a, .b, .a] 0 1 [true, true, true] true = 0 ∧ coefList 2 [.a, .b, .a] [true, false, true] = -2 := by
  decide

end Yuiv.C06Canon
