import Yuiv.Proofs.C18BridgeMain
import Yuiv.Proofs.C18BridgeCirc
import Yuiv.Proofs.C18BridgeCube
import Yuiv.Proofs.C18BridgeCube2
/-
C18Bridge — the reference `Yuiv.KhRef` (its OWN `crossingSigns`, `circles`, `mirror`, cube; used by the
C01–C06/C19 specifications) agrees with the code model `Yuiv.C18` on every valid link, so the C18 / C18Inv / C04Inv
theorems transfer to the reference.  Property theorems only; proofs in `Proofs/C18BridgeDefs, C18BridgeModel,
C18BridgeSim, C18BridgeMain, C18BridgeCirc, C18BridgeCube, C18BridgeCube2`.

`toKh : C18.Link → KhRef.Link` is the obvious translation (`⟨t, a, b, c, d⟩ ↦ ⟨t, #[a,b,c,d]⟩`);
`encSigns` encodes `Res (List Sign)` as `Option (Array Int)` (`pos ↦ 1`, `neg ↦ −1`, `panic ↦ none`);
`Valid l` is C18's validity (every label occurs in exactly two slots).

DOMAIN OF AGREEMENT.  `KhRef.crossingSigns (toKh l) = encSigns (C18.crossingSigns l)` for EVERY valid `l` (any
crossing types, including partially resolved diagrams and components that never pass under).  For invalid codes
the two differ: on a free end the code model (like the Rust code) also reads a sign at the EXIT slot of the last
crossing, the reference does not (`example` in section 1).  The reference's imperative code (nested `for`, a
`while` loop with step bound, early `return`) is proved equal, for ALL inputs, to the loop-free `signsF`
(`crossingSigns_functional`), which makes it evaluable by `decide`.
-/
namespace Yuiv.C18Bridge
open Yuiv Yuiv.KhRef
open Yuiv.C18 (Valid Orient UnderIn Determined sgnAt)

/-! ### 1. crossing signs  (belongs to props C18; used by C01/C02/C04/C06 through the degree shifts) -/

/-- the reference's imperative `partner` / `crossingSigns` equal their loop-free functional forms, for ALL inputs -/
theorem crossingSigns_functional (l : Link) :
    KhRef.crossingSigns l = signsF l ∧ ∀ i k, KhRef.partner l i k = partnerF l i k :=
  ⟨crossingSigns_eq l, fun i k => partner_eq l i k⟩

/-- THE BRIDGE (1): on every valid link the reference's `crossingSigns` returns exactly (the encoding of) what the
code model's `crossing_signs` returns; neither fails -/
theorem khref_signs_bridge (l : C18.Link) (hv : Valid l) :
    KhRef.crossingSigns (toKh l) = encSigns (C18.crossingSigns l) ∧
    ∃ s, C18.crossingSigns l = .ok s ∧ KhRef.crossingSigns (toKh l) = some (s.map encSign).toArray ∧
      nPosK (s.map encSign).toArray = s.count .pos ∧ nNegK (s.map encSign).toArray = s.count .neg := by
  obtain ⟨s, h1, h2⟩ := khSigns_eq l hv
  exact ⟨khSigns_enc l hv, s, h1, h2, nPos_enc s, nNeg_enc s⟩

/-- validity is needed: a crossing with four free ends (`X[1,2,3,4]`) — the code model reads `+` at the exit slot 3
after `−` at slot 1, the reference keeps `−` -/
example : KhRef.crossingSigns (toKh (C18.fromPD [[1,2,3,4]])) = some #[-1] ∧
    encSigns (C18.crossingSigns (C18.fromPD [[1,2,3,4]])) = some #[1] ∧ ¬ Valid (C18.fromPD [[1,2,3,4]]) := by
  rw [crossingSigns_eq]; decide +kernel

/-- the reference's signs are those of an orientation consistent with the under-strands (transfer of the
orientation theorem) -/
theorem khref_signs_orient (l : C18.Link) (hv : Valid l) (O : Nat × Nat → Bool) (hO : Orient l O) (hU : UnderIn l O) :
    ∃ O', Orient l O' ∧ UnderIn l O' ∧
      KhRef.crossingSigns (toKh l) = some ((C18.signsOf l O').map encSign).toArray := by
  obtain ⟨O', h1, h2, h3⟩ := C18.crossingSigns_orient' l hv O hO hU
  refine ⟨O', h1, h2, ?_⟩
  rw [khSigns_enc l hv, h3]; rfl

/-- crossing reordering: the reference's signs of the reordered link are the correspondingly permuted signs
(`permuteK p L`: position `k` of the new array is crossing `p[k]`), hence `n₊`, `n₋` — the degree-shift data of
`khHomology` and `jones` — are invariant -/
theorem khref_signs_permute (l : C18.Link) (hv : Valid l) (O : Nat × Nat → Bool) (hO : Orient l O)
    (hU : UnderIn l O) (hD : Determined l) (p : List Nat) (hp : p.Perm (List.range l.length)) :
    ∃ sg sg', KhRef.crossingSigns (toKh l) = some sg ∧ KhRef.crossingSigns (permuteK p (toKh l)) = some sg' ∧
      sg = (((List.range l.length).filterMap (sgnAt l O)).map encSign).toArray ∧
      sg' = ((p.filterMap (sgnAt l O)).map encSign).toArray ∧
      nPosK sg' = nPosK sg ∧ nNegK sg' = nNegK sg := by
  have h1 := C18.crossingSigns_determined' l hv O hO hU hD
  have hv' := C18.valid_permute hp hv
  have h2 := C18.crossingSigns_determined' (C18.permute p l) hv' _ (C18.orient_permute hp hv hO)
    (C18.underIn_permute hp hU) (C18.determined_permute hp hv hD)
  rw [C18.signsOf_permute hp O] at h2
  have hperm : (p.filterMap (sgnAt l O)).Perm ((List.range l.length).filterMap (sgnAt l O)) :=
    List.Perm.filterMap _ hp
  refine ⟨_, _, ?_, ?_, rfl, rfl, ?_, ?_⟩
  · rw [khSigns_enc l hv, h1]; rfl
  · rw [← toKh_permute, khSigns_enc _ hv', h2]; rfl
  · rw [nPos_enc, nPos_enc, hperm.count_eq]
  · rw [nNeg_enc, nNeg_enc, hperm.count_eq]

/-- mirror image (`KhRef.mirror`): every sign of the reference is negated, `n₊` and `n₋` are exchanged — for every
valid link, no orientation hypothesis -/
theorem khref_signs_mirror_neg (l : C18.Link) (hv : Valid l) :
    ∃ sg, KhRef.crossingSigns (toKh l) = some sg ∧
      KhRef.crossingSigns (KhRef.mirror (toKh l)) = some (sg.map (fun x => -x)) ∧
      nPosK (sg.map (fun x => -x)) = nNegK sg ∧ nNegK (sg.map (fun x => -x)) = nPosK sg := by
  obtain ⟨s, h1, h2⟩ := khSigns_eq l hv
  have hm : C18.crossingSigns (C18.mirror l) = .ok (s.map C18.Sign.flip) := by
    rw [C18.crossingSigns_mirror', h1]; rfl
  have e : ((s.map C18.Sign.flip).map encSign).toArray = (s.map encSign).toArray.map (fun x => -x) := by
    simp only [List.map_toArray, List.map_map]
    congr 2
    funext x; exact encSign_flip x
  refine ⟨_, h2, ?_, ?_, ?_⟩
  · rw [← toKh_mirror, khSigns_enc _ (valid_mirror l hv), hm]
    show some _ = some _
    rw [e]
  · rw [← e, nPos_enc, nNeg_enc, (C18.count_flip s).1]
  · rw [← e, nNeg_enc, nPos_enc, (C18.count_flip s).2]

/-- injective renumbering of the edge labels leaves the reference's signs unchanged -/
theorem khref_signs_renumber (l : C18.Link) (hv : Valid l) (f : Nat → Nat) (hf : C18.Inj f) :
    KhRef.crossingSigns (renumberK f (toKh l)) = KhRef.crossingSigns (toKh l) := by
  rw [← toKh_renumber, khSigns_enc _ (valid_renumber f hf l hv), khSigns_enc l hv, C18.crossingSigns_renumber' f hf]

/-- braid closures: the reference's signs of the (translated) closure of a word have `n₊ − n₋` = exponent sum and
`n₊ + n₋` = number of letters -/
theorem khref_writhe_closure (strands : Nat) (w : List Int) (l : C18.Link) (h : C18.closure strands w = .ok l) :
    ∃ sg, KhRef.crossingSigns (toKh l) = some sg ∧
      (nPosK sg : Int) - (nNegK sg : Int) = C18.expSum w ∧ nPosK sg + nNegK sg = w.length := by
  have hv := C18.closure_valid' strands w l h
  obtain ⟨s, h1, h2⟩ := khSigns_eq l hv
  obtain ⟨p, n, h3, h4, h5⟩ := C18.closure_signedCrossingNums' strands w l h
  have : (p, n) = (s.count .pos, s.count .neg) := by
    have := (C18.writhe_of_signs l s h1).1
    rw [h3] at this
    exact Res.ok.inj this
  cases this
  exact ⟨_, h2, by rw [nPos_enc, nNeg_enc]; exact h4, by rw [nPos_enc, nNeg_enc]; exact h5⟩

/-! ### 2. circles  (belongs to props C04 / C01: the ranks of the cube's chain groups) -/

/-- THE BRIDGE (2): for every valid link and every state `s`, the reference's circle count (`C04.circleCount`, the size
of `KhRef.circles`) equals the code model's circle count of the diagram resolved by the bits of `s`, and both equal
the number of classes of edge labels under the arc relation of the resolved crossings -/
theorem khref_circles_bridge (l : C18.Link) (hv : Valid l) (s : Nat) :
    ∃ r, C18.resolvedBy l (stateBits (C18.crossingNum l) s) = .ok r ∧
      C18.circleCount r = .ok (C04.circleCount (toKh l) s) ∧
      C04.circleCount (toKh l) s = C04Inv.classCount (C04Inv.labelSet (toKh l)) (C04Inv.statePairs (toKh l) s) ∧
      KhRef.crossingNum (toKh l) = C18.crossingNum l ∧ C04Inv.WF (toKh l) := by
  obtain ⟨r, h1, h2, h3⟩ := circleCount_bridge l hv s
  exact ⟨r, h1, h2, h3, crossingNum_toKh l, wf_toKh l⟩

/-- the same for the circle list stored at vertex `s` of the reference cube (any Frobenius parameters, reduced or not) -/
theorem khref_cube_circles_bridge (l : C18.Link) (hv : Valid l) (p : Params) (s : Nat)
    (hs : s < 2 ^ C18.crossingNum l) :
    ∃ r, C18.resolvedBy l (stateBits (C18.crossingNum l) s) = .ok r ∧
      C18.circleCount r = .ok ((mkCube (toKh l) p).circ[s]!).size :=
  cube_circ_bridge l hv p s hs

/-! ### 3. the chain groups of the reference cube  (belongs to props C01 / C04)

`chainRank L p nPos nNeg i j` = number of generators of `mkCube L p` (over all vertices) of h-degree
`−nNeg + popcount s = i` and q-degree `Cube.qDeg q0 g = j` with `q0 = nPos − 2·nNeg (+1 if reduced)` — exactly the
grouping of `KhRef.khHomology`; `chainRankH` ignores `q`.  `weightCircle L` = multiset of (state weight, circle count)
over the vertices.  ALL parameters `p` (any `h`, `t`; unreduced AND reduced theory — in the reduced theory the base
edge, the least label of the first crossing, changes under reordering/renumbering, but it always lies on exactly one
circle and the count of labellings does not depend on which one). -/

/-- the multiset of (state weight, circle count) pairs of the cube is invariant under ANY permutation of the
crossing list and under renumbering injective on the labels — every well-formed diagram -/
theorem khref_weightCircle_inv {l l' : Link} (hwf : C04Inv.WF l) :
    (l'.toList.Perm l.toList → weightCircle l' = weightCircle l) ∧
    (∀ f : Nat → Nat, Set.InjOn f (C04Inv.labelSet l) → weightCircle (C04Inv.renumber f l) = weightCircle l) :=
  ⟨fun hp => weightCircle_multiset_perm hwf hp, fun _ hf => weightCircle_multiset_renumber l hf hwf⟩

/-- the ranks of the chain groups of the reference cube, in every bidegree (and in every homological degree), are
invariant under ANY permutation of the crossing list (the degree-shift data `nPos`, `nNeg` being given) -/
theorem khref_chain_ranks_perm {l l' : Link} (hwf : C04Inv.WF l) (hperm : l'.toList.Perm l.toList)
    (p : Params) (nPos nNeg : Nat) (i j : Int) :
    chainRank l' p nPos nNeg i j = chainRank l p nPos nNeg i j ∧ chainRankH l' p nNeg i = chainRankH l p nNeg i :=
  ⟨chainRank_perm_all hwf hperm p nPos nNeg i j, chainRankH_perm_all hwf hperm p nNeg i⟩

/-- … and under every renumbering of the edge labels that is injective on the labels of the diagram -/
theorem khref_chain_ranks_renumber {f : Nat → Nat} (l : Link) (hf : Set.InjOn f (C04Inv.labelSet l))
    (hwf : C04Inv.WF l) (p : Params) (nPos nNeg : Nat) (i j : Int) :
    chainRank (C04Inv.renumber f l) p nPos nNeg i j = chainRank l p nPos nNeg i j ∧
    chainRankH (C04Inv.renumber f l) p nNeg i = chainRankH l p nNeg i :=
  ⟨chainRank_renumber_all l hf hwf p nPos nNeg i j, chainRankH_renumber_all l hf hwf p nNeg i⟩

/-- END TO END, with the reference's OWN signs: for a valid link with an orientation consistent with its
under-strands and every component passing under somewhere, the chain groups of the reference cube — graded with the
degree shifts computed from `KhRef.crossingSigns` — have the same rank in every bidegree after ANY reordering of the
crossings -/
theorem khref_chain_ranks_perm_signs (l : C18.Link) (hv : Valid l) (O : Nat × Nat → Bool) (hO : Orient l O)
    (hU : UnderIn l O) (hD : Determined l) (perm : List Nat) (hperm : perm.Perm (List.range l.length))
    (p : Params) :
    ∃ sg sg', KhRef.crossingSigns (toKh l) = some sg ∧ KhRef.crossingSigns (permuteK perm (toKh l)) = some sg' ∧
      ∀ i j, chainRank (permuteK perm (toKh l)) p (nPosK sg') (nNegK sg') i j =
        chainRank (toKh l) p (nPosK sg) (nNegK sg) i j := by
  obtain ⟨sg, sg', h1, h2, _, _, h5, h6⟩ := khref_signs_permute l hv O hO hU hD perm hperm
  refine ⟨sg, sg', h1, h2, ?_⟩
  intro i j
  rw [h5, h6]
  have hpl : (permuteK perm (toKh l)).toList.Perm (toKh l).toList := by
    rw [← toKh_permute]
    unfold toKh
    exact (C18.permute_perm hperm).map _
  exact chainRank_perm_all (wf_toKh l) hpl p _ _ i j

/-- END TO END for renumbering: signs unchanged, chain ranks unchanged (`renumberK` = `C04Inv.renumber`) -/
theorem khref_chain_ranks_renumber_signs (l : C18.Link) (hv : Valid l) (f : Nat → Nat) (hf : C18.Inj f)
    (p : Params) (nPos nNeg : Nat) (i j : Int) :
    KhRef.crossingSigns (renumberK f (toKh l)) = KhRef.crossingSigns (toKh l) ∧
    chainRank (renumberK f (toKh l)) p nPos nNeg i j = chainRank (toKh l) p nPos nNeg i j :=
  ⟨khref_signs_renumber l hv f hf,
    chainRank_renumber_all (toKh l) (fun a _ b _ h => hf a b h) (wf_toKh l) p nPos nNeg i j⟩

example : Valid (C18.fromPD [[1,4,2,5],[3,6,4,1],[5,2,6,3]]) ∧
    KhRef.crossingSigns (toKh (C18.fromPD [[1,4,2,5],[3,6,4,1],[5,2,6,3]])) = some #[-1, -1, -1] ∧
    KhRef.crossingSigns (permuteK [2, 0, 1] (toKh (C18.fromPD [[1,4,2,5],[3,6,4,1],[5,2,6,3]]))) = some #[-1, -1, -1] ∧
    KhRef.crossingSigns (KhRef.mirror (toKh (C18.fromPD [[4,1,3,2],[2,3,1,4]]))) = some #[1, 1] := by
  rw [crossingSigns_eq, crossingSigns_eq, crossingSigns_eq]; decide +kernel

end Yuiv.C18Bridge
