import Yuiv.Proofs.C10Term
import Yuiv.Proofs.C10TermHnf
import Yuiv.Proofs.C10TermHnfP
import Yuiv.Proofs.C10TermHnfT
import Yuiv.Proofs.C10TermChk
import Yuiv.Props.C10
/-
C10 — TERMINATION and TOTAL CORRECTNESS of the LLL main loop (`LLLCalc::process`) on linearly independent rows, and
of the Hermite variant (`LLLHNFCalc::process` + `result`) on arbitrary matrices (`yui-matrix/src/dense/lll.rs`).

Property theorems only (definitions and helper lemmas live in `Yuiv/Proofs/C10Term*.lean`).  All theorems are about the
literal model `Yuiv/Model/C10.lean` (`lll fuel m n A`: `setup()` followed by the fuel loop `while step < m { iterate }`;
`lllHnf fuel m n A`: the fuel loop from `LLLData::new`, normalisation of the last row, row reversal).

Notions (`Proofs/C10Term.lean`, `Proofs/C10GS.lean`):
  `RowsIndep m n B`   the rows have a Gram–Schmidt decomposition with non-zero `b*_i` (⇔ linearly independent);
  `Data.Book d`       `det`/`lambda` are the integral Gram–Schmidt data of the current rows (`gs_bookkeeping`);
  `Data.pot d`        `∏_{i<m} det[i]` = product of the Gram determinants `d_1 … d_m` (positive integers);
  `swapBound p`       least `s` with `(3/4)^s·p < 1` (floor at each step), `≤ 3·log₂ p + 2`;
  `lllMeasure d`      `2·swapBound(pot d) + (m − step)`;
  `lllBound m n A`    `lllMeasure` of the state after `setup()` = `2·swapBound(∏_k GramDet_k(A)) + (m − 1)`;
  `Data.Red d`        loop invariant on the INTEGER data: for the rows `i < step`: `2·|λ_ij| ≤ det[j]` (`j < i`) and
                      `3·det[k-1]² ≤ 4·(det[k-2]·det[k] + λ_{k,k-1}²)` (`0 < k < step`);
  `IsLLLReduced m n B α`  the spec of the verified checker `isLLLReduced` (`isLLLReduced_iff`): w.r.t. THE
                      Gram–Schmidt decomposition over ℚ, `|μ_ij| ≤ 1/2` and `|b*_k|² ≥ (α − μ_{k,k-1}²)|b*_{k-1}|²`.
Hermite mode (`Proofs/C10TermHnf*.lean`):
  `Data.BookP d`      `det`/`lambda` are the integral Gram–Schmidt data of the rows of the TRANSFORM `p`;
  `HState m n d`      shape invariant of the rows `< step` of `target` (before the final reversal): zero rows first, then
                      strictly decreasing leading columns; `|target[k][L_i]| < |pivot_i|` for `i < k`; positive pivots
                      for the rows `< step − 1`;
  `hnfM d`            `(C1, C2, C3, C4, pot)` ∈ ℕ⁵ lexicographic, see `hnfIterate_measure`.

What one iteration of LLL does (`lllIterate`, read off the code): at `k = step` it size-reduces `λ_{k,k-1}` only; if
the Lovász test passes it size-reduces `λ_{k,k-2}, …, λ_{k,0}` in this (descending) order — `reduce(i,k)` changes
`λ_{k,j}` for `j ≤ i` only, so the earlier reductions survive — and advances; otherwise it swaps rows `k-1`, `k` and
goes back by one, but never below `step = 1` (`Data.back`).  The code does guarantee full size-reduction.

Necessary hypotheses: `0 < m` — on a matrix without rows `setup()` panics (`d[0]` on an empty vector), see
`lll_no_rows_panics`; independence — e.g. `lll 100 2 2 [[1,0],[2,0]]` panics (division by `det[0] = 0` after the first
swap).  The Hermite variant needs no hypothesis at all.
-/
namespace Yuiv.C10
open Yuiv Res Finset

/-! ### 1. termination -/

/-- ONE ITERATION at `1 ≤ step < m` under the bookkeeping invariant: `iterate` returns (no panic: no zero divisor, no
index error), keeps the bookkeeping invariant and `1 ≤ step ≤ m`, and EITHER the Lovász test passed, `pot` is
unchanged and `step` advances, OR it failed, the swap makes `pot` smaller by more than the factor `3/4` and `step` goes
back by one but not below 1.  Hence the lexicographic pair `(pot, m − step)`, and with it `lllMeasure`, decreases. -/
theorem lllIterate_measure (d : Data) (hB : d.Book) (h1 : 1 ≤ d.step) (h2 : d.step < d.tr.m) :
    ∃ d', lllIterate d = ok d' ∧ d'.Book ∧ d'.tr.m = d.tr.m ∧ d'.tr.n = d.tr.n ∧ 1 ≤ d'.step ∧ d'.step ≤ d'.tr.m ∧
      ((d'.pot = d.pot ∧ d'.step = d.step + 1) ∨
       (4 * d'.pot < 3 * d.pot ∧ d'.pot < d.pot ∧ d'.step = max (d.step - 1) 1)) ∧
      lllMeasure d' < lllMeasure d := by
  obtain ⟨d', r, hB', m', n', hmeas, _⟩ := lllIterate_spec d hB h1 h2
  refine ⟨d', r, hB', m', n', ?_, ?_, ?_, lllMeasure_lt m' h2 hmeas⟩
  · rcases hmeas with ⟨_, e⟩ | ⟨_, e⟩ <;> rw [e]
    · omega
    · split <;> omega
  · rw [m']
    rcases hmeas with ⟨_, e⟩ | ⟨_, e⟩ <;> rw [e]
    · omega
    · split <;> omega
  · rcases hmeas with h | ⟨e1, e2⟩
    · exact Or.inl h
    · refine Or.inr ⟨e1, by omega, ?_⟩
      rw [e2]
      split <;> omega

/-- … and keeps the loop invariant "the rows below `step` are size-reduced and Lovász-ordered" -/
theorem lllIterate_invariant (d d' : Data) (hB : d.Book) (h1 : 1 ≤ d.step) (h2 : d.step < d.tr.m)
    (h : lllIterate d = ok d') (hR : d.Red) : d'.Red := by
  obtain ⟨d1, r, _, _, _, _, hR1⟩ := lllIterate_spec d hB h1 h2
  rw [r] at h
  injection h with h
  subst h
  exact hR1 hR

/-- the main loop returns from EVERY state satisfying the bookkeeping invariant once `fuel ≥ lllMeasure d`: no fuel
exhaustion, no panic; it ends with `step = m` -/
theorem lll_loop_terminates (d : Data) (hB : d.Book) (h1 : 1 ≤ d.step) (h2 : d.step ≤ d.tr.m) (fuel : Nat)
    (hf : lllMeasure d ≤ fuel) :
    ∃ d', loopWhile lllIterate fuel d = ok d' ∧ d'.Book ∧ d'.step = d'.tr.m ∧ (d.Red → d'.Red) := by
  obtain ⟨d', r, hB', s, _, _, hR⟩ := loopWhile_lll_ok fuel d hB h1 h2 hf
  exact ⟨d', r, hB', s, hR⟩

/-- fuel monotonicity of the fuel loop (any body): a run that did not run out of fuel is reproduced by any larger fuel -/
theorem loop_fuel_mono (it : Data → Res Data) (fuel fuel' : Nat) (d : Data) (h : loopWhile it fuel d ≠ err)
    (hle : fuel ≤ fuel') : loopWhile it fuel' d = loopWhile it fuel d := loopWhile_mono it fuel d h fuel' hle

/-- fuel monotonicity of `lll`: more fuel ⇒ same result (value or panic) -/
theorem lll_fuel_mono (m n : Nat) (A : Mat) (fuel fuel' : Nat) (h : lll fuel m n A ≠ err) (hle : fuel ≤ fuel') :
    lll fuel' m n A = lll fuel m n A := lll_mono m n A fuel fuel' h hle

/-- the explicit bound only depends on the Gram determinants `det(⟨b_i, b_j⟩)_{i,j<k}`, `k = 1 … m`, of the input -/
theorem lll_bound_explicit (m n : Nat) (A : Mat) (hm : 0 < m) (hI : RowsIndep m n (ent A)) :
    lllBound m n A
      = 2 * swapBound (∏ k ∈ range m,
          ((Matrix.of fun (i j : Fin (k + 1)) => ∑ c : Fin n, ent A i.val c.val * ent A j.val c.val).det).toNat)
        + (m - 1) := by
  rw [lllBound_eq m n A hm hI]
  rfl

/-- the bound is logarithmic in the Gram determinants (so polynomial in the bit size of the input):
`lllBound ≤ 6·⌊log₂ ∏_k GramDet_k(A)⌋ + m + 3` -/
theorem lll_bound_log (m n : Nat) (A : Mat) (hm : 0 < m) (hI : RowsIndep m n (ent A)) :
    lllBound m n A ≤ 6 * Nat.log 2 (∏ k ∈ range m,
          ((Matrix.of fun (i j : Fin (k + 1)) => ∑ c : Fin n, ent A i.val c.val * ent A j.val c.val).det).toNat)
        + m + 3 := by
  rw [lll_bound_explicit m n A hm hI]
  have := swapBound_le_log (∏ k ∈ range m,
    ((Matrix.of fun (i j : Fin (k + 1)) => ∑ c : Fin n, ent A i.val c.val * ent A j.val c.val).det).toNat)
  omega

/-- TERMINATION of `lll` on independent rows: with `fuel ≥ lllBound m n A` the model returns — never fuel exhaustion,
never a panic -/
theorem lll_terminates (m n : Nat) (A : Mat) (hm : 0 < m) (hI : RowsIndep m n (ent A)) (fuel : Nat)
    (hf : lllBound m n A ≤ fuel) : ∃ d, lll fuel m n A = ok d ∧ d.step = m := by
  obtain ⟨d, r, _, _, s, _⟩ := lll_terminates' m n A hm hI fuel hf
  exact ⟨d, r, s⟩

/-- … and the value does not depend on the fuel -/
theorem lll_result_unique (m n : Nat) (A : Mat) (hm : 0 < m) (hI : RowsIndep m n (ent A)) (f1 f2 : Nat)
    (h1 : lllBound m n A ≤ f1) (h2 : lllBound m n A ≤ f2) : lll f1 m n A = lll f2 m n A := by
  obtain ⟨d, r, _⟩ := lll_terminates m n A hm hI (lllBound m n A) (le_refl _)
  have hne : lll (lllBound m n A) m n A ≠ err := by rw [r]; exact fun h => by cases h
  rw [lll_mono m n A _ f1 hne h1, lll_mono m n A _ f2 hne h2]

/-- without rows the routine panics (`d[0]` in `orthogonalize`), whatever the fuel: `0 < m` cannot be dropped -/
theorem lll_no_rows_panics (fuel n : Nat) (A : Mat) : lll fuel 0 n A = panic := rfl

/-! ### 2. the final state is LLL-reduced -/

/-- the integer loop invariant at loop exit is the rational statement of reducedness -/
theorem red_at_exit_is_reduced (d : Data) (hB : d.Book) (hR : d.Red) (hs : d.step = d.tr.m) :
    IsLLLReduced d.tr.m d.tr.n (ent d.tr.target) (3 / 4) := hR.reduced hB hs

/-- WHATEVER `lll` returns on independent rows, with any fuel, is LLL-reduced: size-reduced (`|μ_ij| ≤ 1/2` for all
`j < i`) and Lovász with `α = 3/4` for all `k` — the spec of the verified checker `isLLLReduced … 3 4` -/
theorem lll_result_reduced (fuel m n : Nat) (A : Mat) (d : Data) (hI : RowsIndep m n (ent A))
    (h : lll fuel m n A = ok d) : IsLLLReduced m n (ent d.tr.target) (3 / 4) := by
  have hm : 0 < m := by
    rcases Nat.eq_zero_or_pos m with h0 | h0
    · subst h0; rw [lll_no_rows_panics] at h; cases h
    · exact h0
  -- the run with enough fuel is the same run
  have hne : lll fuel m n A ≠ err := by rw [h]; exact fun h => by cases h
  obtain ⟨d', r, hB, hR, s, hm', hn'⟩ :=
    lll_terminates' m n A hm hI (max fuel (lllBound m n A)) (le_max_right _ _)
  rw [lll_mono m n A fuel _ hne (le_max_left _ _), h] at r
  injection r with r
  subst r
  have := hR.reduced hB (s.trans hm'.symm)
  rw [hm', hn'] at this
  exact this

/-- the checker `isLLLReduced` is COMPLETE (the untrusted `gramSchmidt` of the model does compute the Gram–Schmidt
decomposition of independent rows), so together with `isLLLReduced_sound` it DECIDES its spec -/
theorem isLLLReduced_iff (m n : Nat) (B : Mat) (p q : Int) :
    isLLLReduced m n B p q = true ↔ IsLLLReduced m n (ent B) ((p : ℚ) / (q : ℚ)) :=
  ⟨isLLLReduced_sound m n B p q, isLLLReduced_complete m n B p q⟩

/-- … hence the verified checker, as the driver applies it (`isLLLReduced m n B 3 4`), ACCEPTS whatever `lll`
returns on independent rows -/
theorem lll_result_accepted (fuel m n : Nat) (A : Mat) (d : Data) (hI : RowsIndep m n (ent A))
    (h : lll fuel m n A = ok d) : isLLLReduced m n d.tr.target 3 4 = true := by
  apply isLLLReduced_complete
  have := lll_result_reduced fuel m n A d hI h
  have e : (((3 : Int) : ℚ) / ((4 : Int) : ℚ)) = 3 / 4 := by norm_num
  rw [e]
  exact this

/-! ### 3. total correctness -/

/-- TOTAL CORRECTNESS of `lll` (model) on `m ≥ 1` independent rows: for every `fuel ≥ lllBound m n A` the routine
returns `(B, P)` with `B = P·A`, `P` unimodular (inverse tracked), and `B` LLL-reduced (`α = 3/4`): both the spec
and the executable checker -/
theorem lll_total_correct (m n : Nat) (A : Mat) (hm : 0 < m) (hI : RowsIndep m n (ent A)) :
    ∃ N, ∀ fuel ≥ N, ∃ d, lll fuel m n A = ok d ∧
      toMatrix m m d.tr.p * toMatrix m n A = toMatrix m n d.tr.target ∧
      toMatrix m m d.tr.p * toMatrix m m d.tr.pinv = 1 ∧ IsUnit (toMatrix m m d.tr.p).det ∧
      IsLLLReduced m n (ent d.tr.target) (3 / 4) ∧ isLLLReduced m n d.tr.target 3 4 = true := by
  refine ⟨lllBound m n A, fun fuel hf => ?_⟩
  obtain ⟨d, r, _⟩ := lll_terminates m n A hm hI fuel hf
  obtain ⟨t1, t2, t3⟩ := lll_model_transform fuel m n A d r
  exact ⟨d, r, t1, t2, t3, lll_result_reduced fuel m n A d hI r, lll_result_accepted fuel m n A d hI r⟩

/-! ### 4. the Hermite variant `lll_hnf`: partial correctness, panic-freedom, termination (no explicit bound) -/

/-- one iteration of `LLLHNFCalc::iterate` that returns keeps the shape invariant `HState` (rows `< step`, orientation
before the final row reversal: zero rows first, then strictly decreasing leading columns; entries below a pivot — above
it after the reversal — of smaller absolute value; pivots of the rows `< step-1` positive).  No hypothesis on the rows. -/
theorem hnfIterate_invariant (m n : Nat) (d d' : Data) (h : hnfIterate d = ok d') (hlt : d.step < d.tr.m)
    (hS : HState m n d) : HState m n d' := hnfIterate_inv m n d d' h hlt hS

/-- PARTIAL CORRECTNESS of `lll_hnf` (model), for EVERY input (dependent rows, zero rows, any shape) and every fuel: if
the routine returns, then the returned `H` is in Hermite normal form (verified checker `isHnf`: zero rows last,
strictly increasing leading columns, positive pivots, zeros below and entries of smaller absolute value above each
pivot), `H = P·A`, `P·P⁻¹ = I` and `P` is unimodular.  (Termination: `lllHnf_terminates`.) -/
theorem lllHnf_partial (fuel m n : Nat) (A : Mat) (t : Tr) (h : lllHnf fuel m n A = ok t) :
    isHnf m n t.target = true ∧
    toMatrix m m t.p * toMatrix m n A = toMatrix m n t.target ∧
    toMatrix m m t.p * toMatrix m m t.pinv = 1 ∧ IsUnit (toMatrix m m t.p).det := by
  obtain ⟨t1, t2, t3⟩ := lllHnf_model_transform fuel m n A t h
  exact ⟨(lllHnf_isHnf fuel m n A t h).2.2, t1, t2, t3⟩

/-- Hermite mode bookkeeping (`Data.BookP`): `det`/`lambda` are the integral Gram–Schmidt data of the rows of the
TRANSFORM `P` (Havas–Majewski–Matthews), from the initial state `(A, I, I)`, `det = [1,…,1]`, `lambda = 0` on; in
particular `det[i] > 0` throughout, whatever the rank of `A` (`det` never vanishes in this mode). -/
theorem hnf_bookkeeping (fuel m n : Nat) (A : Mat) (d : Data)
    (h : loopWhile hnfIterate fuel (Data.new m n A) = ok d) :
    d.BookP ∧ ∀ i < d.tr.m, 0 < d.det.getD i 0 := by
  have hB := loopWhile_hnf_bookP fuel m n A d h
  exact ⟨hB, fun i hi => hB.dv_pos hi⟩

/-- one iteration of the Hermite loop at `1 ≤ step < m` under `BookP` returns: no zero divisor in `reduce`/`swap`, no
index error, no failed unit assertion; and it keeps `BookP` -/
theorem hnfIterate_never_panics (d : Data) (hB : d.BookP) (h1 : 1 ≤ d.step) (h2 : d.step < d.tr.m) :
    ∃ d', hnfIterate d = ok d' ∧ d'.BookP ∧ d'.tr.m = d.tr.m ∧ 1 ≤ d'.step := hnfIterate_ok d hB h1 h2

/-- `lll_hnf` (model) NEVER PANICS, for any input and any fuel: the only failure mode left is fuel exhaustion -/
theorem lllHnf_never_panics (fuel m n : Nat) (A : Mat) : lllHnf fuel m n A ≠ panic := lllHnf_no_panic fuel m n A

/-- fuel monotonicity of `lll_hnf` -/
theorem lllHnf_fuel_mono (m n : Nat) (A : Mat) (fuel fuel' : Nat) (h : lllHnf fuel m n A ≠ err) (hle : fuel ≤ fuel') :
    lllHnf fuel' m n A = lllHnf fuel m n A := lllHnf_mono m n A fuel fuel' h hle

/-- for every input and EVERY fuel, `lll_hnf` either returns a Hermite normal form with a unimodular transform or
runs out of fuel -/
theorem lllHnf_hnf_or_out_of_fuel (fuel m n : Nat) (A : Mat) :
    (∃ t, lllHnf fuel m n A = ok t ∧ isHnf m n t.target = true ∧
      toMatrix m m t.p * toMatrix m n A = toMatrix m n t.target ∧ IsUnit (toMatrix m m t.p).det) ∨
    lllHnf fuel m n A = err := by
  cases h : lllHnf fuel m n A with
  | ok t =>
    obtain ⟨h1, h2, _, h4⟩ := lllHnf_partial fuel m n A t h
    exact Or.inl ⟨t, rfl, h1, h2, h4⟩
  | panic => exact absurd h (lllHnf_never_panics fuel m n A)
  | err => exact Or.inr rfl

/-- ONE ITERATION of `LLLHNFCalc::iterate` (at `step < m`, under the two invariants) strictly decreases the lexicographic
measure `(C1, C2, C3, C4, pot, m − step)` ∈ ℕ⁶ (`hnfM`, see `Proofs/C10TermHnfT.lean`):
`C1 = Σ_i (n − L_i)`, `C2 = Σ_i V_i`, `C3 = Σ_i i·L_i`, `C4 = Σ_i (m − i)·V_i` with `L_i` the leading column and `V_i` the
absolute value of the pivot of row `i` of `target`, `pot = ∏ det[i]` (Gram determinants of the rows of `P`):
`reduce` moves a leading column to the right or shrinks a pivot or changes none of them; a swap is done because
`L_{k-1} < L_k` (`C3` ↓), or `L_{k-1} = L_k` and the Euclidean step made `V_k < V_{k-1}` (`C4` ↓), or both rows are zero
and the Lovász test on `P` failed (`pot` ↓); otherwise `step` advances. -/
theorem hnfIterate_measure (m n : Nat) (d : Data) (hB : d.BookP) (hS : HState m n d) (hlt : d.step < d.tr.m) :
    ∃ d', hnfIterate d = ok d' ∧ d'.BookP ∧ HState m n d' ∧
      (toLex (hnfM d', m - d'.step) : HM ×ₗ ℕ) < toLex (hnfM d, m - d.step) := by
  obtain ⟨d', r, hB', _, _⟩ := hnfIterate_ok d hB hS.step_pos hlt
  exact ⟨d', r, hB', hnfIterate_inv m n d d' r hlt hS, hnfIterate_decreases m n d d' r hB hS hlt⟩

/-- TERMINATION of `lll_hnf` (model) for EVERY input matrix (any shape, any rank, zero rows): there is a fuel `N`
from which on the routine returns, always the same value.  (By well-founded induction on the measure above; NO explicit
bound `N(A)` is given — `pot` may grow at the swaps of the first two kinds.) -/
theorem lllHnf_terminates (m n : Nat) (A : Mat) : ∃ N t, ∀ fuel ≥ N, lllHnf fuel m n A = ok t :=
  lllHnf_terminates' m n A

/-- TOTAL CORRECTNESS of `lll_hnf` (model) for every input: for all sufficiently large fuel it returns `(H, P, P⁻¹)`
with `H` in Hermite normal form (verified checker `isHnf`), `H = P·A`, `P·P⁻¹ = I`, `P` unimodular -/
theorem lllHnf_total_correct (m n : Nat) (A : Mat) :
    ∃ N t, (∀ fuel ≥ N, lllHnf fuel m n A = ok t) ∧ isHnf m n t.target = true ∧
      toMatrix m m t.p * toMatrix m n A = toMatrix m n t.target ∧
      toMatrix m m t.p * toMatrix m m t.pinv = 1 ∧ IsUnit (toMatrix m m t.p).det := by
  obtain ⟨N, t, h⟩ := lllHnf_terminates m n A
  exact ⟨N, t, h, lllHnf_partial N m n A t (h N (le_refl N))⟩

/-- … in terms of the spec of the checker -/
theorem lllHnf_partial_spec (fuel m n : Nat) (A : Mat) (t : Tr) (h : lllHnf fuel m n A = ok t) :
    IsHnf m n (ent t.target) (leadCol n t.target) :=
  isHnf_sound m n t.target (lllHnf_partial fuel m n A t h).1

/-! ### the hypotheses are satisfiable by non-trivial values -/

/-- `lll_hnf` returns on the test matrix of the repository (`tests::hnf`, rank 3, 4 rows; 18 iterations) … -/
example : (lllHnf 18 4 3 #[#[8, 44, 43], #[4, 10, 43], #[56, -550, -328], #[76, 10, 42]]).bind (fun t => ok t.target)
    = ok #[#[4, -2, 2], #[0, 6, -2], #[0, 0, 5], #[0, 0, 0]] := by decide +kernel
example : (lllHnf 17 4 3 #[#[8, 44, 43], #[4, 10, 43], #[56, -550, -328], #[76, 10, 42]]).bind (fun _ => ok ())
    = err := by decide +kernel

/-- … and on a matrix with dependent and zero rows -/
example : (lllHnf 6 3 3 #[#[1, 2, 3], #[2, 4, 6], #[0, 0, 0]]).bind (fun t => ok t.target)
    = ok #[#[1, 2, 3], #[0, 0, 0], #[0, 0, 0]] := by decide +kernel

/-- the initial state of Hermite mode satisfies the hypotheses of `hnfIterate_measure` / `hnfIterate_never_panics` -/
example : (Data.new 4 3 #[#[8, 44, 43], #[4, 10, 43], #[56, -550, -328], #[76, 10, 42]]).BookP ∧
    HState 4 3 (Data.new 4 3 #[#[8, 44, 43], #[4, 10, 43], #[56, -550, -328], #[76, 10, 42]]) ∧
    (Data.new 4 3 #[#[8, 44, 43], #[4, 10, 43], #[56, -550, -328], #[76, 10, 42]]).step <
      (Data.new 4 3 #[#[8, 44, 43], #[4, 10, 43], #[56, -550, -328], #[76, 10, 42]]).tr.m :=
  ⟨Data.new_bookP _ _ _, ⟨rfl, rfl, le_refl 1, by decide, HInv.of_le_one _ _ _ (le_refl 1)⟩, by decide⟩

/-- `lll` needs independent rows: on `[[1,0],[2,0]]` the model (like the code: division by zero) panics -/
example : (lll 100 2 2 #[#[1, 0], #[2, 0]]).bind (fun _ => ok ()) = panic := by decide +kernel

/-- the test matrix of the repository (`tests::lll`): independent, NOT reduced -/
example : RowsIndep 3 3 (ent #[#[1, -1, 3], #[1, 0, 5], #[1, 2, 6]]) :=
  rowsIndep_of_gsOk 3 3 _ (by decide +kernel)
example : isLLLReduced 3 3 #[#[1, -1, 3], #[1, 0, 5], #[1, 2, 6]] 3 4 = false := by decide +kernel

/-- its bound (`det = [11, 30, 9]`, `pot = 2970`, `swapBound 2970 = 26`); the run takes 8 iterations, 3 of them swaps -/
example : lllBound 3 3 #[#[1, -1, 3], #[1, 0, 5], #[1, 2, 6]] = 54 := by decide +kernel

/-- … and with that fuel the model returns the expected reduced basis, accepted by the verified checker -/
example : (lll 54 3 3 #[#[1, -1, 3], #[1, 0, 5], #[1, 2, 6]]).bind (fun d => ok d.tr.target)
    = ok #[#[0, 1, -1], #[1, 0, -1], #[1, 1, 1]] := by decide +kernel
example : isLLLReduced 3 3 #[#[0, 1, -1], #[1, 0, -1], #[1, 1, 1]] 3 4 = true := by decide +kernel

/-- a state in the middle of that run (after `setup`) satisfies the hypotheses of `lllIterate_measure` -/
example : ∃ d, (Data.new 3 3 #[#[1, -1, 3], #[1, 0, 5], #[1, 2, 6]]).setup = ok d ∧ d.Book ∧ 1 ≤ d.step ∧
    d.step < d.tr.m := by
  obtain ⟨d, h, ht, hs, hB⟩ := Data.setup_book (Data.new 3 3 #[#[1, -1, 3], #[1, 0, 5], #[1, 2, 6]]) (by decide)
    (RowsIndep.init (rowsIndep_of_gsOk 3 3 _ (by decide +kernel)))
  refine ⟨d, h, hB, ?_, ?_⟩
  · rw [hs]; decide
  · rw [hs, ht]; decide

end Yuiv.C10
