import Yuiv.Proofs.C14Q
/-
C14 — scalar types are exact commutative rings with canonical representatives.

Property theorems only (spec definitions and helper lemmas live in `Yuiv/Proofs/C14.lean`).

* `Ratio` (model of `Ratio<T>` over unbounded integers, `gcd`/`lcm` = `Int.gcd`/`Int.lcm`):
  `Canon r := 0 < r.den ∧ gcd r.num r.den = 1` is established by `new` and preserved by every
  branch of `+= -= *= /= neg inv`; the value of each result is the rational result (stated as a
  cross-multiplication identity over ℤ, no division involved); canonical values are structurally
  equal iff they denote the same rational; the Euclid-style `Ord::cmp` loop terminates within
  `|den| + 1` rounds and is `compare (a.num * b.den) (b.num * a.den)`, a total order consistent with `=`.
* `FF<p>`: representatives in `[0, p)`, operations are arithmetic mod `p`, no `i32` overflow for `p ≤ 46340`.
* `FF2`: ring homomorphism from ℤ (parity).
* `QuadInt<I, D>`: the product (all three branches) is the product of ℤ[ω]/(ω² = e + fω); the pair
  arithmetic satisfies the commutative-ring identities; the norm is multiplicative; `conj` is an involution.
-/
namespace Yuiv.C14
open Yuiv Res

/-! ## Ratio: canonical form is established and preserved; values are exact -/

/-- `Ratio::new(n, d)` for `d ≠ 0` returns the canonical representative of `n/d` -/
theorem ratio_new_spec (n d : Int) (hd : d ≠ 0) :
    ∃ c, Ratio.new n d = ok c ∧ Canon c ∧ c.num * d = n * c.den := new_spec n d hd
example : d = (-8 : Int) → d ≠ 0 := by intro h; omega

/-- `Ratio::new(n, 0)` panics (`assert!(!denom.is_zero())`) -/
theorem ratio_new_reject (n : Int) : Ratio.new n 0 = panic := new_zero_den n

/-- `Ratio::from(a)`, `zero()`, `one()` are canonical -/
theorem ratio_fromInt_canon (a : Int) : Canon (Ratio.fromInt a) := by
  simp [Canon, Ratio.fromInt]

/-- `a += b` (all four branches): canonical, and `= a + b` in ℚ -/
theorem ratio_add_spec (a b : Ratio) (ha : Canon a) (hb : Canon b) :
    ∃ c, Ratio.add a b = ok c ∧ Canon c ∧
      c.num * (a.den * b.den) = (a.num * b.den + b.num * a.den) * c.den := by
  simpa [Ratio.add, Ratio.pm] using addSub_spec false a b ha hb
example : Canon ⟨-3, 4⟩ ∧ Canon ⟨5, 6⟩ := by unfold Canon; decide

/-- `a -= b` (all four branches): canonical, and `= a − b` in ℚ -/
theorem ratio_sub_spec (a b : Ratio) (ha : Canon a) (hb : Canon b) :
    ∃ c, Ratio.sub a b = ok c ∧ Canon c ∧
      c.num * (a.den * b.den) = (a.num * b.den - b.num * a.den) * c.den := by
  simpa [Ratio.sub, Ratio.pm] using addSub_spec true a b ha hb

/-- `-a`: canonical, and `= −a` in ℚ -/
theorem ratio_neg_spec (a : Ratio) (ha : Canon a) :
    ∃ c, Ratio.neg a = ok c ∧ Canon c ∧ c.num * a.den = -a.num * c.den := neg_spec a ha

/-- `a *= b` (all five branches): canonical, and `= a · b` in ℚ -/
theorem ratio_mul_spec (a b : Ratio) (ha : Canon a) (hb : Canon b) :
    ∃ c, Ratio.mul a b = ok c ∧ Canon c ∧ c.num * (a.den * b.den) = (a.num * b.num) * c.den :=
  mul_spec a b ha hb

/-- `a.inv()` for `a ≠ 0`: canonical, and `= 1/a` in ℚ (needs no hypothesis on the form of `a`) -/
theorem ratio_inv_spec (a : Ratio) (hn : a.num ≠ 0) :
    ∃ c, Ratio.inv a = ok (some c) ∧ Canon c ∧ c.num * a.num = a.den * c.den := inv_spec a hn
example : (⟨-3, 4⟩ : Ratio).num ≠ 0 := by decide

theorem ratio_inv_zero (a : Ratio) (hn : a.num = 0) : Ratio.inv a = ok none := inv_zero a hn

/-- `a /= b` for `b ≠ 0`: canonical, and `= a / b` in ℚ -/
theorem ratio_div_spec (a b : Ratio) (ha : Canon a) (hn : b.num ≠ 0) :
    ∃ c, Ratio.div a b = ok c ∧ Canon c ∧ c.num * (a.den * b.num) = (a.num * b.den) * c.den :=
  div_spec a b ha hn

/-- `a /= 0` panics -/
theorem ratio_div_reject (a b : Ratio) (hn : b.num = 0) : Ratio.div a b = panic := div_zero a b hn

/-- derived structural `==` on canonical values is equality in ℚ -/
theorem ratio_eq_iff_same_value (a b : Ratio) (ha : Canon a) (hb : Canon b) :
    a = b ↔ a.num * b.den = b.num * a.den := canon_eq_iff a b ha hb

/-- `is_zero` (`numer == 0`) and `is_one` (`numer == denom`) are right on canonical values -/
theorem ratio_isZero_iff (a : Ratio) (ha : Canon a) : a.isZero = true ↔ a = Ratio.zero := by
  show a.isZero = true ↔ a = Ratio.fromInt 0
  rw [canon_eq_iff a _ ha (ratio_fromInt_canon 0)]
  simp [Ratio.isZero, Ratio.fromInt]
theorem ratio_isOne_iff (a : Ratio) (ha : Canon a) : a.isOne = true ↔ a = Ratio.one := by
  show a.isOne = true ↔ a = Ratio.fromInt 1
  rw [canon_eq_iff a _ ha (ratio_fromInt_canon 1)]
  simp [Ratio.isOne, Ratio.fromInt]

/-! ## Ratio: `Ord::cmp` -/

/-- the loop of `Ord::cmp` terminates (fuel `|b.den| + 1` is never exhausted) and returns the comparison of
the cross products, i.e. the order of ℚ, for ALL values with positive denominators -/
theorem ratio_cmp_spec (a b : Ratio) (ha : 0 < a.den) (hb : 0 < b.den) :
    Ratio.cmp a b = ok (compare (a.num * b.den) (b.num * a.den)) := by
  unfold Ratio.cmp
  rw [cmpLoop_spec _ _ _ _ _ _ ha hb (by omega)]
  rfl

/-- more fuel never changes the answer: the loop needs at most `den` rounds -/
theorem ratio_cmpLoop_fuel_irrelevant (fuel : Nat) (a b : Ratio) (ha : 0 < a.den) (hb : 0 < b.den)
    (hf : a.den.toNat < fuel) :
    Ratio.cmpLoop fuel a.num a.den b.num b.den false = Ratio.cmp a b := by
  rw [ratio_cmp_spec a b ha hb, cmpLoop_spec _ _ _ _ _ _ ha hb hf]
  rfl

/-- `cmp == Equal` exactly when `==` -/
theorem ratio_cmp_eq_iff_eq (a b : Ratio) (ha : Canon a) (hb : Canon b) :
    Ratio.cmp a b = ok .eq ↔ a = b := by
  rw [ratio_cmp_spec a b ha.1 hb.1, canon_eq_iff a b ha hb]
  simp

/-- `cmp b a` is the reverse of `cmp a b` -/
theorem ratio_cmp_antisymm (a b : Ratio) (ha : 0 < a.den) (hb : 0 < b.den) :
    ∃ o, Ratio.cmp a b = ok o ∧ Ratio.cmp b a = ok o.swap := by
  refine ⟨_, ratio_cmp_spec a b ha hb, ?_⟩
  rw [ratio_cmp_spec b a hb ha, ← icmp_eq_compare, ← icmp_eq_compare, icmp_swap]

/-- `<` is transitive -/
theorem ratio_cmp_lt_trans (a b c : Ratio) (ha : 0 < a.den) (hb : 0 < b.den) (hc : 0 < c.den)
    (h1 : Ratio.cmp a b = ok .lt) (h2 : Ratio.cmp b c = ok .lt) : Ratio.cmp a c = ok .lt := by
  rw [ratio_cmp_spec _ _ ha hb] at h1
  rw [ratio_cmp_spec _ _ hb hc] at h2
  rw [ratio_cmp_spec _ _ ha hc]
  simp only [ok.injEq, Int.compare_eq_lt] at h1 h2 ⊢
  have e1 : a.num * b.den * c.den < b.num * a.den * c.den := Int.mul_lt_mul_of_pos_right h1 hc
  have e2 : b.num * c.den * a.den < c.num * b.den * a.den := Int.mul_lt_mul_of_pos_right h2 ha
  have e3 : (a.num * c.den) * b.den < (c.num * a.den) * b.den := by nlinarith
  exact Int.lt_of_mul_lt_mul_right e3 hb.le
example : Ratio.cmp ⟨1, 3⟩ ⟨1, 2⟩ = ok .lt ∧ Ratio.cmp ⟨1, 2⟩ ⟨9007199254740993, 9007199254740992⟩ = ok .lt := by
  decide

/-- the order is total and decided by `cmp`: exactly one of `<`, `=`, `>` -/
theorem ratio_cmp_total (a b : Ratio) (ha : Canon a) (hb : Canon b) :
    (Ratio.cmp a b = ok .lt ∧ a ≠ b) ∨ (Ratio.cmp a b = ok .eq ∧ a = b) ∨ (Ratio.cmp a b = ok .gt ∧ a ≠ b) := by
  have he := ratio_cmp_eq_iff_eq a b ha hb
  rw [ratio_cmp_spec a b ha.1 hb.1] at he ⊢
  cases h : compare (a.num * b.den) (b.num * a.den) with
  | lt => left; exact ⟨rfl, fun e => by have := he.2 e; rw [h] at this; cases this⟩
  | eq => right; left; exact ⟨rfl, he.1 (by rw [h])⟩
  | gt => right; right; exact ⟨rfl, fun e => by have := he.2 e; rw [h] at this; cases this⟩

/-- the defect fixed by F3 (comparison through `f64`) is absent: beyond 2^53 the order is still exact -/
theorem ratio_cmp_beyond_f64 :
    Ratio.cmp ⟨9007199254740993, 1⟩ ⟨9007199254740992, 1⟩ = ok .gt := by decide

/-! ## Ratio: the same statements in Mathlib's ℚ (`toRat r = r.num / r.den`) -/

/-- `toRat` is injective on canonical values: `==` (structural) iff same rational number -/
theorem ratio_eq_iff_toRat (a b : Ratio) (ha : Canon a) (hb : Canon b) : a = b ↔ toRat a = toRat b := by
  rw [canon_eq_iff a b ha hb, toRat_eq_iff a b ha.1 hb.1]

theorem ratio_new_toRat (n d : Int) (hd : d ≠ 0) :
    ∃ c, Ratio.new n d = ok c ∧ Canon c ∧ toRat c = (n : ℚ) / (d : ℚ) := by
  obtain ⟨c, h1, h2, h3⟩ := new_spec n d hd
  exact ⟨c, h1, h2, toRat_eq_of_cross h2.1.ne' hd h3⟩

theorem ratio_fromInt_toRat (a : Int) : toRat (Ratio.fromInt a) = (a : ℚ) := by
  simp [toRat, Ratio.fromInt]

theorem ratio_add_toRat (a b : Ratio) (ha : Canon a) (hb : Canon b) :
    ∃ c, Ratio.add a b = ok c ∧ Canon c ∧ toRat c = toRat a + toRat b := add_q a b ha hb

theorem ratio_sub_toRat (a b : Ratio) (ha : Canon a) (hb : Canon b) :
    ∃ c, Ratio.sub a b = ok c ∧ Canon c ∧ toRat c = toRat a - toRat b := sub_q a b ha hb

theorem ratio_mul_toRat (a b : Ratio) (ha : Canon a) (hb : Canon b) :
    ∃ c, Ratio.mul a b = ok c ∧ Canon c ∧ toRat c = toRat a * toRat b := mul_q a b ha hb

theorem ratio_neg_toRat (a : Ratio) (ha : Canon a) :
    ∃ c, Ratio.neg a = ok c ∧ Canon c ∧ toRat c = -toRat a := neg_q a ha

theorem ratio_inv_toRat (a : Ratio) (hn : a.num ≠ 0) :
    ∃ c, Ratio.inv a = ok (some c) ∧ Canon c ∧ toRat c = (toRat a)⁻¹ := inv_q a hn

theorem ratio_div_toRat (a b : Ratio) (ha : Canon a) (hn : b.num ≠ 0) :
    ∃ c, Ratio.div a b = ok c ∧ Canon c ∧ toRat c = toRat a / toRat b := div_q a b ha hn

/-- `Ord::cmp` is the order of ℚ -/
theorem ratio_cmp_toRat (a b : Ratio) (ha : 0 < a.den) (hb : 0 < b.den) :
    Ratio.cmp a b = ok (compare (toRat a) (toRat b)) := by
  rw [ratio_cmp_spec a b ha hb, compare_toRat a b ha hb]

/-- every value reachable from canonical inputs by a finite sequence of `+ − · / neg inv` steps is canonical and
denotes the rational number obtained by evaluating the same steps in ℚ (induction over the history) -/
theorem ratio_history (steps : List HStep) (a : Ratio) (ha : Canon a) (c : Ratio)
    (h : runHistory a steps = ok c) : Canon c ∧ toRat c = evalHistory (toRat a) steps := by
  induction steps generalizing a with
  | nil => simp only [runHistory, ok.injEq] at h; subst h; exact ⟨ha, rfl⟩
  | cons s ss ih =>
    rw [runHistory] at h
    cases hs : runStep a s with
    | ok b =>
      rw [hs] at h
      obtain ⟨hb2, hb3⟩ := step_spec s a b ha hs
      obtain ⟨k1, k2⟩ := ih b hb2 h
      exact ⟨k1, by rw [k2, evalHistory, hb3]⟩
    | panic => rw [hs] at h; cases h
    | err => rw [hs] at h; cases h
example : runHistory ⟨1, 2⟩ [.add ⟨3, 5⟩ (by unfold Canon; decide), .neg, .inv, .rdiv ⟨5, 1⟩ (by unfold Canon; decide)]
    = ok ⟨-11, 2⟩ := by decide

/-- consequently two histories end in `==` values exactly when they evaluate to the same rational number -/
theorem ratio_history_eq_iff (s1 s2 : List HStep) (a1 a2 c1 c2 : Ratio) (h1 : Canon a1) (h2 : Canon a2)
    (r1 : runHistory a1 s1 = ok c1) (r2 : runHistory a2 s2 = ok c2) :
    c1 = c2 ↔ evalHistory (toRat a1) s1 = evalHistory (toRat a2) s2 := by
  obtain ⟨k1, e1⟩ := ratio_history s1 a1 h1 c1 r1
  obtain ⟨k2, e2⟩ := ratio_history s2 a2 h2 c2 r2
  rw [← e1, ← e2, canon_eq_iff c1 c2 k1 k2, toRat_eq_iff c1 c2 k1.1 k2.1]

/-! ## FF<p> -/

/-- `FF::new` stores `a mod p`, always in `[0, p)` -/
theorem ff_new_spec (p a : Int) (hp : 0 < p) :
    FF.new p a = ok (a % p) ∧ 0 ≤ a % p ∧ a % p < p :=
  ⟨ff_new_ok p a hp, (emod_range p a hp).1, (emod_range p a hp).2⟩

/-- `+ − · neg` on representatives are arithmetic mod `p`: `ℤ → FF<p>` is a ring homomorphism, and no
`i32` overflow occurs for `p ≤ 46340` -/
theorem ff_add_hom (p x y : Int) (hp0 : 0 < p) (hp : p ≤ 46340) :
    FF.add p (x % p) (y % p) = ok ((x + y) % p) := by
  rw [ff_add_ok hp0 hp (emod_range p x hp0) (emod_range p y hp0), Int.add_emod x y p]
example : (0 : Int) < 7 ∧ (7 : Int) ≤ 46340 := by decide
theorem ff_sub_hom (p x y : Int) (hp0 : 0 < p) (hp : p ≤ 46340) :
    FF.sub p (x % p) (y % p) = ok ((x - y) % p) := by
  rw [ff_sub_ok hp0 hp (emod_range p x hp0) (emod_range p y hp0), Int.sub_emod x y p]
theorem ff_mul_hom (p x y : Int) (hp0 : 0 < p) (hp : p ≤ 46340) :
    FF.mul p (x % p) (y % p) = ok ((x * y) % p) := by
  rw [ff_mul_ok hp0 hp (emod_range p x hp0) (emod_range p y hp0), Int.mul_emod x y p]
theorem ff_neg_hom (p x : Int) (hp0 : 0 < p) (hp : p ≤ 46340) :
    FF.neg p (x % p) = ok ((-x) % p) := by
  rw [ff_neg_ok hp0 hp (emod_range p x hp0)]
  have h := Int.sub_emod 0 x p
  simp only [Int.zero_emod, Int.zero_sub] at h
  rw [h]

/-- the results stay in `[0, p)` (closure of the representation invariant) -/
theorem ff_ops_range (p a b : Int) (hp0 : 0 < p) (hp : p ≤ 46340) (ha : 0 ≤ a ∧ a < p) (hb : 0 ≤ b ∧ b < p) :
    (∃ c, FF.add p a b = ok c ∧ 0 ≤ c ∧ c < p) ∧ (∃ c, FF.sub p a b = ok c ∧ 0 ≤ c ∧ c < p) ∧
    (∃ c, FF.mul p a b = ok c ∧ 0 ≤ c ∧ c < p) ∧ (∃ c, FF.neg p a = ok c ∧ 0 ≤ c ∧ c < p) :=
  ⟨⟨_, ff_add_ok hp0 hp ha hb, emod_range p _ hp0⟩, ⟨_, ff_sub_ok hp0 hp ha hb, emod_range p _ hp0⟩,
   ⟨_, ff_mul_ok hp0 hp ha hb, emod_range p _ hp0⟩, ⟨_, ff_neg_ok hp0 hp ha, emod_range p _ hp0⟩⟩

/-- derived `==` on representatives is congruence mod `p` -/
theorem ff_eq_iff_congr (p x y : Int) : x % p = y % p ↔ p ∣ (x - y) := by
  rw [Int.emod_eq_emod_iff_emod_sub_eq_zero]
  exact ⟨Int.dvd_of_emod_eq_zero, Int.emod_eq_zero_of_dvd⟩

/-- whatever `inv` returns is the inverse mod `p`, in range (Bezout invariant of num-integer's `extended_gcd`) -/
theorem ff_inv_sound (p a x : Int) (h : FF.inv p a = ok (some x)) :
    0 ≤ x ∧ x < p ∧ (a * x) % p = 1 % p := ff_inv_spec p a x h
example : FF.inv 7 3 = ok (some 5) := by decide

/-- for the field sizes the repository instantiates in its tests every non-zero representative is inverted -/
theorem ff_inv_total_small : ∀ p ∈ [2, 3, 5, 7], ∀ a ∈ List.range (p - 1),
    invDefined (p : Nat) ((a : Nat) + 1) = true := by decide

/-! ## FF2 -/

theorem ff2_add_hom (a b : Int) : FF2.ofInt (a + b) = FF2.add (FF2.ofInt a) (FF2.ofInt b) := ff2_ofInt_add a b
theorem ff2_sub_hom (a b : Int) : FF2.ofInt (a - b) = FF2.sub (FF2.ofInt a) (FF2.ofInt b) := ff2_ofInt_sub a b
theorem ff2_mul_hom (a b : Int) : FF2.ofInt (a * b) = FF2.mul (FF2.ofInt a) (FF2.ofInt b) := ff2_ofInt_mul a b
theorem ff2_neg_hom (a : Int) : FF2.ofInt (-a) = FF2.neg (FF2.ofInt a) := ff2_ofInt_neg a
theorem ff2_eq_iff_congr (a b : Int) : FF2.ofInt a = FF2.ofInt b ↔ a % 2 = b % 2 := ff2_ofInt_eq_iff a b
theorem ff2_zero_one : FF2.isZero (FF2.ofInt 0) = true ∧ FF2.isOne (FF2.ofInt 1) = true := by decide
/-- the commutative-ring identities on the representation itself -/
theorem ff2_ring_axioms : ∀ a b c : Bool,
    FF2.add a b = FF2.add b a ∧ FF2.mul a b = FF2.mul b a ∧
    FF2.add (FF2.add a b) c = FF2.add a (FF2.add b c) ∧ FF2.mul (FF2.mul a b) c = FF2.mul a (FF2.mul b c) ∧
    FF2.mul a (FF2.add b c) = FF2.add (FF2.mul a b) (FF2.mul a c) ∧
    FF2.add a (FF2.neg a) = false ∧ FF2.mul a true = a ∧ FF2.add a false = a ∧ FF2.sub a b = FF2.add a (FF2.neg b) := by
  decide

/-! ## QuadInt -/

/-- `GaussInt` product (incl. both shortcut branches) is the product of ℤ[i], `i² = −1` -/
theorem quad_mul_gauss (x y : QI) : QI.mul (-1) x y = ok (mulF (-1) 0 x y) := qi_mul_gauss x y
/-- `EisenInt` product (incl. both shortcut branches) is the product of ℤ[ω], `ω² = −1 + ω` -/
theorem quad_mul_eisen (x y : QI) : QI.mul (-3) x y = ok (mulF (-1) 1 x y) := qi_mul_eisen x y
/-- general `D = 4k + 1`: `ω² = k + ω` -/
theorem quad_mul_D1 (k : Int) (x y : QI) : QI.mul (4 * k + 1) x y = ok (mulF k 1 x y) := qi_mul_D1 k x y
/-- general `D ≡ 2, 3 (mod 4)`: `ω² = D` -/
theorem quad_mul_D23 (D : Int) (hD : D % 4 = 2 ∨ D % 4 = 3) (x y : QI) :
    QI.mul D x y = ok (mulF D 0 x y) := qi_mul_D23 D hD x y
example : (-1 : Int) % 4 = 2 ∨ (-1 : Int) % 4 = 3 := by decide
/-- `D ≡ 0 (mod 4)` cannot be constructed; any other `D` stores the pair as given -/
theorem quad_new_spec (D a b : Int) :
    (D % 4 = 0 → QI.new D a b = panic) ∧ (D % 4 ≠ 0 → QI.new D a b = ok ⟨a, b⟩) :=
  ⟨qi_new_reject D a b, qi_new_ok D a b⟩

/-- norm and conjugate of the code are those of ℤ[ω] -/
theorem quad_norm_conj_gauss (x : QI) :
    QI.norm (-1) x = ok (normF (-1) 0 x) ∧ QI.conj (-1) x = ok (conjF 0 x) :=
  ⟨qi_norm_D23 (-1) (Or.inr (by decide)) x, qi_conj_D23 (-1) (Or.inr (by decide)) x⟩
theorem quad_norm_conj_eisen (x : QI) :
    QI.norm (-3) x = ok (normF (-1) 1 x) ∧ QI.conj (-3) x = ok (conjF 1 x) := by
  have h1 := qi_norm_D1 (-1) x
  have h2 := qi_conj_D1 (-1) x
  exact ⟨by simpa using h1, by simpa using h2⟩
theorem quad_norm_conj_D1 (k : Int) (x : QI) :
    QI.norm (4 * k + 1) x = ok (normF k 1 x) ∧ QI.conj (4 * k + 1) x = ok (conjF 1 x) :=
  ⟨qi_norm_D1 k x, qi_conj_D1 k x⟩
theorem quad_norm_conj_D23 (D : Int) (hD : D % 4 = 2 ∨ D % 4 = 3) (x : QI) :
    QI.norm D x = ok (normF D 0 x) ∧ QI.conj D x = ok (conjF 0 x) :=
  ⟨qi_norm_D23 D hD x, qi_conj_D23 D hD x⟩

/-- the pair arithmetic is a commutative ring for every `ω² = e + fω` -/
theorem quad_ring_axioms (e f : Int) (x y z : QI) :
    QI.add x y = QI.add y x ∧ QI.add (QI.add x y) z = QI.add x (QI.add y z) ∧
    QI.add x QI.zero = x ∧ QI.add x (QI.neg x) = QI.zero ∧ QI.sub x y = QI.add x (QI.neg y) ∧
    mulF e f x y = mulF e f y x ∧ mulF e f (mulF e f x y) z = mulF e f x (mulF e f y z) ∧
    mulF e f x QI.one = x ∧ mulF e f x QI.zero = QI.zero ∧
    mulF e f x (QI.add y z) = QI.add (mulF e f x y) (mulF e f x z) ∧
    mulF e f (QI.add x y) z = QI.add (mulF e f x z) (mulF e f y z) ∧
    mulF e f QI.omega QI.omega = ⟨e, f⟩ :=
  ⟨qi_add_comm x y, qi_add_assoc x y z, qi_add_zero x, qi_add_neg x, qi_sub_eq x y, qi_mul_comm e f x y,
   qi_mul_assoc e f x y z, qi_mul_one e f x, qi_mul_zero e f x, qi_left_distrib e f x y z,
   qi_right_distrib e f x y z, qi_omega_sq e f⟩

/-- the norm is multiplicative; `conj` is a ring involution with `x · conj x = norm x` -/
theorem quad_norm_mul (e f : Int) (x y : QI) : normF e f (mulF e f x y) = normF e f x * normF e f y :=
  qi_norm_mul e f x y
theorem quad_conj_involutive (f : Int) (x : QI) : conjF f (conjF f x) = x := qi_conj_conj f x
theorem quad_mul_conj (e f : Int) (x : QI) : mulF e f x (conjF f x) = ⟨normF e f x, 0⟩ := qi_mul_conj e f x
theorem quad_conj_mul (e f : Int) (x y : QI) :
    conjF f (mulF e f x y) = mulF e f (conjF f x) (conjF f y) := qi_conj_mul e f x y

/-- zero / one tests and `==` are exact on pairs (the representation is unique) -/
theorem quad_zero_one_tests (x : QI) :
    (x.isZero = true ↔ x = QI.zero) ∧ (x.isOne = true ↔ x = QI.one) := by
  obtain ⟨a, b⟩ := x
  simp [QI.isZero, QI.isOne, QI.zero, QI.one]

end Yuiv.C14
