import Yuiv.Proofs.C16Gen
/-
C16 — the hand-written code model `Yuiv/Model/C16.lean` IS the source text of `/repo/yui/src/types/lc/lc.rs` and
`/repo/yui/src/types/poly/{poly,var,var2,h_poly,mdeg,mvar}.rs`.

`Yuiv.GenPoly.*` (file `Yuiv/Gen/PolyFn.lean`) is regenerated from the seven Rust sources by
`tools/rs2lean_fn.py fn:poly` (renderer `tools/rs2lean_poly.py`) on every `./check` run; the meaning of the hash-map
and iterator primitives is `Yuiv/Model/RustMap.lean`.  Each theorem states, for ALL arguments and every coefficient
type `R` (any type with `0 1 + - * neg` and decidable equality), every generator / monomial type `X` and every
exponent type `I`, that a generated definition equals the model's function:

* `Lc<X, R>` is the generated structure `LcS X R` (`data : AMap X R`, `r_zero : R`); the model works on `data`; the
  results keep `r_zero` (`Lc::new` sets it to `0`); `coeff` / `const_term` need `r_zero = 0` (hypothesis);
* the functions that go through `add_pair` are `Res`-valued in the generated code (`get_mut(..).unwrap()`); the
  theorems show that they never panic: the result is `.ok` of the model's value;
* `PolyBase<X, R>` is `PolyBaseS X R` (`data : LcS X R`, `zero : X × R`), compared through `polyData`;
* `MultiDeg<I>` is `MultiDegS I` (`data : BMap Nat I`, the `BTreeMap` as its key-sorted entry list; `_zero_ : I`): `+=`
  needs the `BTreeMap` invariant `keysSorted` of the left operand, `Index` / `cmp_lex` / `cmp_grlex` need `_zero = 0`;
  `MultiVar` through `toMVar`;
* `Var`, `Var2`, `HPoly` through `toVar`, `toVar2`, `toH`; `HPoly::sub_assign` uses `R`'s subtraction, the model `+ (-·)`:
  the theorem assumes `a - b = a + -b`.

Property theorems only; helpers are in `Yuiv/Proofs/C16Gen.lean`.
-/
set_option linter.unusedSectionVars false
set_option linter.unusedSimpArgs false
namespace Yuiv.GenP
open Yuiv Res Yuiv.Rust Yuiv.GenPoly

section Lc
variable {X Y R S : Type} [DecidableEq X] [DecidableEq Y] [DecidableEq R] [Zero R] [One R] [Add R] [Sub R] [Neg R] [Mul R]
  [DecidableEq S] [Zero S] [One S] [Add S] [Sub S] [Neg S] [Mul S]

/-! ### `Lc<X, R>` (lc.rs) -/

theorem gen_lc_new_eq : (Lc.new : LcS X R) = ⟨[], 0⟩ := rfl
theorem gen_lc_zero_eq : (Lc.Zero.zero : LcS X R) = ⟨[], 0⟩ := rfl
theorem gen_lc_is_zero_eq (s : LcS X R) : Lc.Zero.is_zero s = C16.isZero s.data := rfl
theorem gen_lc_nterms_eq (s : LcS X R) : Lc.nterms s = C16.nterms s.data := rfl
theorem gen_lc_clean_eq (s : LcS X R) : Lc.clean s = ⟨C16.clean s.data, s.r_zero⟩ := rfl

theorem gen_lc_coeff_eq (s : LcS X R) (x : X) (h : s.r_zero = 0) : Lc.coeff s x = C16.coeff s.data x := by
  unfold Lc.coeff; rw [h]; exact getD_eq_coeff s.data x

theorem gen_lc_is_gen_eq (s : LcS X R) : Lc.is_gen s = .ok (C16.isGen s.data) := by
  obtain ⟨l, z⟩ := s
  match l with
  | [] => rfl
  | [p] => rfl
  | p :: q :: t => simp [Lc.is_gen, Lc.nterms, AMap.len, C16.isGen, Res.bind]

theorem gen_lc_add_pair_eq (s : LcS X R) (p : X × R) : Lc.add_pair s p = .ok ⟨C16.addPair s.data p, s.r_zero⟩ := by
  unfold Lc.add_pair C16.addPair
  by_cases h0 : p.2 = 0
  · simp [h0]
  · simp only [h0, decide_false, if_false, Bool.false_eq_true]
    by_cases hc : AMap.contains_key s.data p.1 = true
    · obtain ⟨v, hv, hs⟩ := upd_present s.data p.1 p.2 hc
      simp only [hc, if_true, hv, Opt.unwrap, Res.bind, hs]
    · have hc' : AMap.contains_key s.data p.1 = false := by simpa using hc
      simp only [hc', Bool.false_eq_true, if_false, AMap.insert, upd_absent s.data p.1 p.2 hc']

theorem gen_lc_add_pair_ref_eq (s : LcS X R) (p : X × R) :
    Lc.add_pair_ref s p = .ok ⟨C16.addPair s.data p, s.r_zero⟩ := gen_lc_add_pair_eq s p

theorem gen_lc_from_iter_eq (it : List (X × R)) :
    Lc.FromIterator_X_R.from_iter it = .ok ⟨C16.fromIter it, 0⟩ := by
  unfold Lc.FromIterator_X_R.from_iter
  dsimp only
  rw [forM_ok _ (fun (s : LcS X R) e => (⟨C16.addPair s.data e, s.r_zero⟩ : LcS X R))
        (fun s e => by simp only [gen_lc_add_pair_eq, Res.bind]), foldl_data]
  rfl

theorem gen_lc_from_pair_eq (v : X × R) : Lc.From_X_R.from_ v = .ok ⟨C16.fromIter [v], 0⟩ := gen_lc_from_iter_eq [v]

theorem gen_lc_from_gen_eq (x : X) : (Lc.From_X.from_ x : Res (LcS X R)) = .ok ⟨C16.fromIter [(x, 1)], 0⟩ :=
  gen_lc_from_iter_eq [(x, 1)]

theorem gen_lc_add_assign_eq (a b : LcS X R) :
    Lc.AddAssign_Lc_X_R.add_assign a b = .ok ⟨C16.addAssign a.data b.data, a.r_zero⟩ := by
  unfold Lc.AddAssign_Lc_X_R.add_assign
  dsimp only
  rw [forM_ok _ (fun (s : LcS X R) e => (⟨C16.addPair s.data e, s.r_zero⟩ : LcS X R))
        (fun s e => by simp only [gen_lc_add_pair_ref_eq, Res.bind]), foldl_data]
  rfl

theorem gen_lc_sub_assign_eq (a b : LcS X R) :
    Lc.SubAssign_Lc_X_R.sub_assign a b = .ok ⟨C16.subAssign a.data b.data, a.r_zero⟩ := by
  unfold Lc.SubAssign_Lc_X_R.sub_assign
  dsimp only
  rw [forM_ok _ (fun (s : LcS X R) (e : X × R) => (⟨C16.addPair s.data (e.1, -e.2), s.r_zero⟩ : LcS X R))
        (fun s e => by simp only [gen_lc_add_pair_ref_eq, Res.bind]),
      foldl_data (fun l (e : X × R) => C16.addPair l (e.1, -e.2))]
  rfl

theorem gen_lc_mul_assign_scalar_eq (a : LcS X R) (r : R) :
    Lc.MulAssign_R.mul_assign a r = ⟨C16.smul a.data r, a.r_zero⟩ := by
  unfold Lc.MulAssign_R.mul_assign C16.smul
  by_cases h : r = 1
  · simp [h]
  · simp only [h, decide_false, if_false, Bool.false_eq_true]; rfl

theorem gen_lc_map_eq (a : LcS X R) (f : X → R → Y × S) :
    Lc.map a f = .ok ⟨C16.fromIter (a.data.map (fun p => f p.1 p.2)), 0⟩ := gen_lc_from_iter_eq _

theorem gen_lc_into_map_eq (a : LcS X R) (f : X → R → Y × S) :
    Lc.into_map a f = .ok ⟨C16.fromIter (a.data.map (fun p => f p.1 p.2)), 0⟩ := gen_lc_from_iter_eq _

theorem gen_lc_map_coeffs_eq (a : LcS X R) (f : R → S) : Lc.map_coeffs a f = .ok ⟨C16.mapCoeffs f a.data, 0⟩ :=
  gen_lc_from_iter_eq _

theorem gen_lc_map_gens_eq (a : LcS X R) (f : X → Y) : Lc.map_gens a f = .ok ⟨C16.mapGens f a.data, 0⟩ :=
  gen_lc_from_iter_eq _

theorem gen_lc_filter_gens_eq (a : LcS X R) (f : X → Bool) :
    Lc.filter_gens a f = .ok ⟨C16.filterGens f a.data, 0⟩ := by
  unfold Lc.filter_gens C16.filterGens
  rw [gen_lc_from_iter_eq]
  have h : (fun p : X × R => if f p.1 then some (p.1, p.2) else none) = (fun p => if f p.1 = true then some p else none) := rfl
  simp only [Lc.iter, AMap.iter]
  rw [h, filterMap_ite (fun p : X × R => f p.1)]

theorem gen_lc_neg_eq (a : LcS X R) : Lc.Neg.neg a = .ok ⟨C16.neg a.data, 0⟩ := gen_lc_from_iter_eq _
theorem gen_lc_neg_ref_eq (a : LcS X R) : Lc.Neg_ref.neg a = .ok ⟨C16.neg a.data, 0⟩ := gen_lc_from_iter_eq _

theorem gen_lc_apply_eq (a : LcS X R) (f : X → LcS X R) :
    Lc.apply a f = .ok ⟨C16.apply (fun x => (f x).data) a.data, 0⟩ := gen_lc_from_iter_eq _

theorem gen_lc_combine_eq (a b : LcS X R) (f : X → X → X) :
    Lc.combine a b f = .ok ⟨C16.combine f a.data b.data, 0⟩ := by
  unfold Lc.combine
  dsimp only
  have inner : ∀ (s : LcS X R) (p : X × R),
      Poly.forM (Lc.iter b) s (fun res x2_ =>
        Res.bind (Lc.add_pair res (f p.1 x2_.1, p.2 * x2_.2)) (fun r3_ => Res.ok r3_))
      = .ok ⟨b.data.foldl (fun acc q => C16.addPair acc (f p.1 q.1, p.2 * q.2)) s.data, s.r_zero⟩ := by
    intro s p
    rw [forM_ok _ (fun (s : LcS X R) (q : X × R) => (⟨C16.addPair s.data (f p.1 q.1, p.2 * q.2), s.r_zero⟩ : LcS X R))
          (fun s e => by simp only [gen_lc_add_pair_eq, Res.bind]),
        foldl_data (fun l (q : X × R) => C16.addPair l (f p.1 q.1, p.2 * q.2))]
    rfl
  rw [forM_ok _ (fun (s : LcS X R) (p : X × R) =>
        (⟨b.data.foldl (fun acc q => C16.addPair acc (f p.1 q.1, p.2 * q.2)) s.data, s.r_zero⟩ : LcS X R))
        (fun s p => inner s p),
      foldl_data (fun l (p : X × R) => b.data.foldl (fun acc q => C16.addPair acc (f p.1 q.1, p.2 * q.2)) l)]
  simp only [Res.bind, Lc.iter, AMap.iter, gen_lc_zero_eq, foldl_pairs, gen_lc_clean_eq]
  rfl

theorem gen_lc_mul_eq [Mul X] (a b : LcS X R) : Lc.Mul_ref.mul a b = .ok ⟨C16.mul a.data b.data, 0⟩ :=
  gen_lc_combine_eq a b _

end Lc

section Poly
variable {X R : Type} [DecidableEq X] [Mul X] [One X] [MonoOrd X] [DecidableEq R] [Zero R] [One R] [Add R] [Sub R] [Neg R] [Mul R]

/-! ### `PolyBase<X, R>` (poly.rs) -/

theorem gen_poly_new_eq (d : LcS X R) : PolyBase.new d = ⟨d, (1, 0)⟩ := rfl
theorem gen_poly_from_lc_eq (d : LcS X R) : PolyBase.From_Lc_X_R.from_ d = ⟨d, (1, 0)⟩ := rfl
theorem gen_poly_zero_eq : (PolyBase.Zero.zero : PolyBaseS X R) = ⟨⟨[], 0⟩, (1, 0)⟩ := rfl
theorem gen_poly_is_zero_eq (p : PolyBaseS X R) : PolyBase.Zero.is_zero p = C16.isZero (polyData p) := rfl

theorem gen_poly_from_pair_eq (v : X × R) :
    PolyBase.From_X_R.from_ v = .ok ⟨⟨C16.fromIter [v], 0⟩, (1, 0)⟩ := by
  simp only [PolyBase.From_X_R.from_, gen_lc_from_pair_eq, Res.bind]; rfl

theorem gen_poly_from_iter_eq (it : List (X × R)) :
    PolyBase.FromIterator_X_R.from_iter it = .ok ⟨⟨C16.fromIter it, 0⟩, (1, 0)⟩ := by
  simp only [PolyBase.FromIterator_X_R.from_iter, gen_lc_from_iter_eq, Res.bind]; rfl

theorem gen_poly_from_const_eq (r : R) :
    (PolyBase.from_const r : Res (PolyBaseS X R)) = .ok ⟨⟨C16.fromConst r, 0⟩, (1, 0)⟩ := gen_poly_from_pair_eq _

theorem gen_poly_one_eq : (PolyBase.One.one : Res (PolyBaseS X R)) = .ok ⟨⟨C16.fromConst 1, 0⟩, (1, 0)⟩ :=
  gen_poly_from_pair_eq _

theorem gen_poly_is_const_eq (p : PolyBaseS X R) : PolyBase.is_const p = C16.isConst (polyData p) := rfl

theorem gen_poly_const_term_eq (p : PolyBaseS X R) (h : p.data.r_zero = 0) :
    PolyBase.const_term p = C16.constTerm (polyData p) := gen_lc_coeff_eq p.data 1 h

theorem gen_poly_is_one_eq (p : PolyBaseS X R) (h : p.data.r_zero = 0) :
    PolyBase.One.is_one p = C16.isOne (polyData p) := by
  simp only [PolyBase.One.is_one, C16.isOne, gen_poly_is_const_eq, gen_poly_const_term_eq p h]

/-- `lead_term`: the last `cmp_grlex`-maximal term, `self.zero` for the zero polynomial -/
theorem gen_poly_lead_term_eq (p : PolyBaseS X R) :
    PolyBase.lead_term p = (C16.maxBy MonoOrd.cmp_grlex (polyData p)).getD p.zero := by
  unfold PolyBase.lead_term
  rw [show (Lc.iter p.data) = polyData p from rfl, max_by_eq]

theorem gen_poly_lead_term_model (p : PolyBaseS X R) (h : p.zero = (1, 0)) :
    PolyBase.lead_term p = C16.leadTerm MonoOrd.cmp_grlex (polyData p) := by
  rw [gen_poly_lead_term_eq, h]; rfl

theorem gen_poly_neg_eq (p : PolyBaseS X R) :
    PolyBase.Neg.neg p = .ok ⟨⟨C16.neg (polyData p), 0⟩, (1, 0)⟩ := by
  simp only [PolyBase.Neg.neg, gen_lc_neg_eq, Res.bind]; rfl

theorem gen_poly_neg_ref_eq (p : PolyBaseS X R) :
    PolyBase.Neg_ref.neg p = .ok ⟨⟨C16.neg (polyData p), 0⟩, (1, 0)⟩ := by
  simp only [PolyBase.Neg_ref.neg, gen_lc_neg_ref_eq, Res.bind]; rfl

theorem gen_poly_add_assign_eq (a b : PolyBaseS X R) :
    PolyBase.AddAssign_PolyBase_X_R.add_assign a b
      = .ok ⟨⟨C16.addAssign (polyData a) (polyData b), a.data.r_zero⟩, a.zero⟩ := by
  simp only [PolyBase.AddAssign_PolyBase_X_R.add_assign, gen_lc_add_assign_eq, Res.bind]; rfl

theorem gen_poly_sub_assign_eq (a b : PolyBaseS X R) :
    PolyBase.SubAssign_PolyBase_X_R.sub_assign a b
      = .ok ⟨⟨C16.subAssign (polyData a) (polyData b), a.data.r_zero⟩, a.zero⟩ := by
  simp only [PolyBase.SubAssign_PolyBase_X_R.sub_assign, gen_lc_sub_assign_eq, Res.bind]; rfl

theorem gen_poly_mul_assign_scalar_eq (a : PolyBaseS X R) (r : R) :
    PolyBase.MulAssign_R.mul_assign a r = ⟨⟨C16.smul (polyData a) r, a.data.r_zero⟩, a.zero⟩ := by
  simp only [PolyBase.MulAssign_R.mul_assign, gen_lc_mul_assign_scalar_eq]; rfl

/-- `*=` between polynomials with its three fast paths (`rhs = 1`, `rhs` constant, `self` constant) -/
theorem gen_poly_mul_assign_eq (a b : PolyBaseS X R) (ha : a.data.r_zero = 0) (hb : b.data.r_zero = 0) :
    mapR polyData (PolyBase.MulAssign_PolyBase_X_R.mul_assign a b) = .ok (C16.mulAssign (polyData a) (polyData b)) := by
  unfold PolyBase.MulAssign_PolyBase_X_R.mul_assign C16.mulAssign
  rw [gen_poly_is_one_eq b hb, gen_poly_is_const_eq b, gen_poly_is_const_eq a, gen_poly_const_term_eq b hb,
      gen_poly_const_term_eq a ha]
  split
  · rfl
  · split
    · simp only [gen_poly_mul_assign_scalar_eq, mapR_ok]; rfl
    · split
      · simp only [gen_poly_mul_assign_scalar_eq, mapR_ok]; rfl
      · simp only [gen_lc_mul_eq, Res.bind, mapR_ok]; rfl

/-- the `r_zero` field is kept by `*=` -/
theorem gen_poly_mul_assign_rzero (a b : PolyBaseS X R) (ha : a.data.r_zero = 0) (hb : b.data.r_zero = 0) :
    mapR (fun p => p.data.r_zero) (PolyBase.MulAssign_PolyBase_X_R.mul_assign a b) = .ok 0 := by
  unfold PolyBase.MulAssign_PolyBase_X_R.mul_assign
  split
  · simpa using ha
  · split
    · simp only [gen_poly_mul_assign_scalar_eq, mapR_ok, ha]
    · split
      · simp only [gen_poly_mul_assign_scalar_eq, mapR_ok, hb]
      · simp only [gen_lc_mul_eq, Res.bind, mapR_ok]

end Poly

section Mono
variable {I : Type} [DecidableEq I] [Zero I] [Add I] [LT I] [DecidableLT I]

/-! ### `Var<X, I>`, `Var2<X, Y, I>` (var.rs, var2.rs) -/

theorem gen_var_mul_assign_eq (a b : VarS I) : toVar (Var.MulAssign_Var_X_I.mul_assign a b) = toVar a * toVar b := rfl
theorem gen_var_one_eq : toVar (Var.One.one : VarS I) = 1 := rfl
theorem gen_var_cmp_lex_eq (a b : VarS I) : Var.MonoOrd.cmp_lex a b = C16.Var.cmpLex (toVar a) (toVar b) := rfl
theorem gen_var_cmp_grlex_eq (a b : VarS I) : Var.MonoOrd.cmp_grlex a b = C16.Var.cmpGrlex (toVar a) (toVar b) := rfl

theorem gen_var2_total_deg_eq (a : Var2S I) : Var2.total_deg a = (toVar2 a).total := rfl
theorem gen_var2_mul_assign_eq (a b : Var2S I) :
    toVar2 (Var2.MulAssign_Var2_X_Y_I.mul_assign a b) = toVar2 a * toVar2 b := rfl
theorem gen_var2_one_eq : toVar2 (Var2.One.one : Var2S I) = 1 := rfl
theorem gen_var2_from_eq (d : I × I) : toVar2 (Var2.From_I_I.from_ d) = ⟨d.1, d.2⟩ := rfl
theorem gen_var2_cmp_lex_eq (a b : Var2S I) : Var2.MonoOrd.cmp_lex a b = C16.Var2.cmpLex (toVar2 a) (toVar2 b) := rfl
theorem gen_var2_cmp_grlex_eq (a b : Var2S I) :
    Var2.MonoOrd.cmp_grlex a b = C16.Var2.cmpGrlex (toVar2 a) (toVar2 b) := rfl

end Mono

section HPoly
variable {R : Type} [DecidableEq R] [Zero R] [One R] [Add R] [Sub R] [Neg R] [Mul R]

/-! ### `HPoly<X, R>` (h_poly.rs) -/

theorem gen_hpoly_new_eq (d : Nat) (c : R) : toH (HPoly.new d c) = ⟨d, c⟩ := rfl
theorem gen_hpoly_zero_eq : toH (HPoly.Zero.zero : HPolyS R) = ⟨0, 0⟩ := rfl
theorem gen_hpoly_one_eq : toH (HPoly.One.one : HPolyS R) = ⟨0, 1⟩ := rfl
theorem gen_hpoly_is_zero_eq (a : HPolyS R) : HPoly.Zero.is_zero a = (toH a).isZero := rfl
theorem gen_hpoly_is_one_eq (a : HPolyS R) : HPoly.One.is_one a = (toH a).isOne := by
  by_cases h : a.deg = 0 <;> simp [HPoly.One.is_one, C16.HPoly.isOne, toH, h]

theorem gen_hpoly_eq_eq (a b : HPolyS R) : HPoly.PartialEq.eq a b = (toH a).eqv (toH b) := by
  unfold HPoly.PartialEq.eq C16.HPoly.eqv toH
  by_cases h1 : a.coeff = 0 <;> by_cases h2 : b.coeff = 0 <;> simp [h1, h2, nat_beq]

theorem gen_hpoly_neg_eq (a : HPolyS R) : toH (HPoly.Neg.neg a) = (toH a).neg := rfl
theorem gen_hpoly_neg_ref_eq (a : HPolyS R) : toH (HPoly.Neg_ref.neg a) = (toH a).neg := rfl

theorem gen_hpoly_add_assign_eq (a b : HPolyS R) :
    mapR toH (HPoly.AddAssign_HPoly_X_R.add_assign a b) = (toH a).add (toH b) := by
  unfold HPoly.AddAssign_HPoly_X_R.add_assign C16.HPoly.add
  rw [gen_hpoly_is_zero_eq, gen_hpoly_is_zero_eq]
  split
  · rfl
  · split
    · rfl
    · by_cases h : a.deg = b.deg <;> simp [h, toH, mapR]

/-- `-=`: the code subtracts in `R`, the model adds the negative -/
theorem gen_hpoly_sub_assign_eq (hsub : ∀ x y : R, x - y = x + -y) (a b : HPolyS R) :
    mapR toH (HPoly.SubAssign_HPoly_X_R.sub_assign a b) = (toH a).sub (toH b) := by
  unfold HPoly.SubAssign_HPoly_X_R.sub_assign C16.HPoly.sub
  rw [gen_hpoly_is_zero_eq, gen_hpoly_is_zero_eq]
  split
  · rfl
  · split
    · rfl
    · by_cases h : a.deg = b.deg <;> simp [h, toH, mapR, hsub]

theorem gen_hpoly_mul_assign_scalar_eq (a : HPolyS R) (r : R) :
    toH (HPoly.MulAssign_R.mul_assign a r) = (toH a).smul r := by
  unfold HPoly.MulAssign_R.mul_assign C16.HPoly.smul
  by_cases h : r = 1 <;> simp [h, toH]

theorem gen_hpoly_mul_assign_eq (a b : HPolyS R) :
    toH (HPoly.MulAssign_HPoly_X_R.mul_assign a b) = (toH a).mul (toH b) := by
  unfold HPoly.MulAssign_HPoly_X_R.mul_assign C16.HPoly.mul
  rw [gen_hpoly_is_one_eq]
  split <;> rfl

end HPoly

section MDeg
variable {I : Type} [DecidableEq I] [Zero I] [Add I] [LT I] [DecidableLT I]

/-! ### `MultiDeg<I>` (mdeg.rs); `BTreeMap` = key-sorted entry list (`keysSorted`, the invariant of a `BTreeMap`) -/

theorem gen_mdeg_new_reduced_eq (d : BMap Nat I) : MultiDeg.new_reduced d = ⟨d, 0⟩ := rfl
theorem gen_mdeg_empty_eq : (MultiDeg.empty : MultiDegS I) = ⟨[], 0⟩ := rfl
theorem gen_mdeg_zero_eq : (MultiDeg.Zero.zero : MultiDegS I) = ⟨[], 0⟩ := rfl
theorem gen_mdeg_is_zero_eq (s : MultiDegS I) : MultiDeg.Zero.is_zero s = s.data.isEmpty := rfl
theorem gen_mdeg_reduce_eq (s : MultiDegS I) : MultiDeg.reduce s = ⟨C16.mdReduce s.data, s._zero_⟩ := rfl

theorem gen_mdeg_index_eq (s : MultiDegS I) (i : Nat) (h : s._zero_ = 0) :
    MultiDeg.Index_usize.index s i = C16.mdGet s.data i := by
  unfold MultiDeg.Index_usize.index; rw [h]; exact bget_eq_mdGet s.data i

theorem gen_mdeg_total_eq (s : MultiDegS I) : MultiDeg.total s = C16.mdTotal s.data := by
  simp only [MultiDeg.total, C16.mdTotal, BMap.iter, List.foldl_map]

theorem gen_mdeg_min_index_eq (s : MultiDegS I) : MultiDeg.min_index s = C16.mdMinIndex s.data := pmin_eq s.data
theorem gen_mdeg_max_index_eq (s : MultiDegS I) : MultiDeg.max_index s = C16.mdMaxIndex s.data := pmax_eq s.data

/-- `+=` of multidegrees (the product of `MultiVar` monomials): one `mdUpd` walk per entry of `rhs`, then `reduce`;
never panics -/
theorem gen_mdeg_add_assign_eq (a b : MultiDegS I) (hs : keysSorted a.data) :
    MultiDeg.AddAssign_MultiDeg_I.add_assign a b = .ok ⟨C16.mdAdd a.data b.data, a._zero_⟩ := by
  unfold MultiDeg.AddAssign_MultiDeg_I.add_assign
  dsimp only
  have body : ∀ (s : MultiDegS I) (x : Nat × I), keysSorted s.data →
      (if (!BMap.contains_key s.data x.1) = true then
        Res.bind (Opt.unwrap (BMap.get (BMap.insert s.data x.1 (0 : I)) x.1)) (fun d_i =>
          Res.ok ({ ({ s with data := BMap.insert s.data x.1 (0 : I) } : MultiDegS I) with
            data := BMap.set (BMap.insert s.data x.1 (0 : I)) x.1 (d_i + x.2) } : MultiDegS I))
      else
        Res.bind (Opt.unwrap (BMap.get s.data x.1)) (fun d_i =>
          Res.ok ({ s with data := BMap.set s.data x.1 (d_i + x.2) } : MultiDegS I)))
      = .ok (⟨C16.mdUpd (· + ·) s.data x.1 x.2, s._zero_⟩ : MultiDegS I) ∧
        keysSorted (C16.mdUpd (· + ·) s.data x.1 x.2) := by
    intro s x hsd
    refine ⟨?_, keysSorted_mdUpd _ _ hsd _ _⟩
    obtain ⟨v, hv, hset⟩ := upd_step (· + ·) s.data hsd x.1 x.2
    by_cases hc : BMap.contains_key s.data x.1 = true
    · simp only [hc, if_true] at hv hset
      simp only [hc, Bool.not_true, Bool.false_eq_true, if_false, hv, Opt.unwrap, Res.bind, hset]
    · have hc' : BMap.contains_key s.data x.1 = false := by simpa using hc
      simp only [hc', Bool.false_eq_true, if_false] at hv hset
      simp only [hc', Bool.not_false, if_true, hv, Opt.unwrap, Res.bind, hset]
  have := forM_ok_inv (fun s : MultiDegS I => keysSorted s.data) _
    (fun (s : MultiDegS I) (x : Nat × I) => (⟨C16.mdUpd (· + ·) s.data x.1 x.2, s._zero_⟩ : MultiDegS I))
    (fun s x hsd => body s x hsd) (BMap.iter b.data) a hs
  rw [this.1, foldl_mdata (fun l (x : Nat × I) => C16.mdUpd (· + ·) l x.1 x.2)]
  rfl

theorem gen_mdeg_cmp_lex_eq (a b : MultiDegS I) (ha : a._zero_ = 0) (hb : b._zero_ = 0) :
    MultiDeg.MonoOrd.cmp_lex a b = C16.mdCmpLex a.data b.data := by
  unfold MultiDeg.MonoOrd.cmp_lex C16.mdCmpLex
  simp only [gen_mdeg_min_index_eq, gen_mdeg_max_index_eq, gen_mdeg_index_eq a _ ha, gen_mdeg_index_eq b _ hb, Poly.range_incl]
  rfl

theorem gen_mdeg_cmp_grlex_eq (a b : MultiDegS I) (ha : a._zero_ = 0) (hb : b._zero_ = 0) :
    MultiDeg.MonoOrd.cmp_grlex a b = C16.mdCmpGrlex a.data b.data := by
  simp only [MultiDeg.MonoOrd.cmp_grlex, C16.mdCmpGrlex, gen_mdeg_total_eq, gen_mdeg_cmp_lex_eq a b ha hb]
  rfl

end MDeg

section MVar
variable {I : Type} [DecidableEq I] [Zero I] [Add I] [LT I] [DecidableLT I]

/-! ### `MultiVar<X, I>` (mvar.rs) -/

theorem gen_mvar_from_eq (d : MultiDegS I) : toMVar (MultiVar.From_MultiDeg_I.from_ d) = ⟨d.data⟩ := rfl
theorem gen_mvar_one_eq : toMVar (MultiVar.One.one : MultiVarS I) = 1 := rfl

theorem gen_mvar_mul_assign_eq (a b : MultiVarS I) (hs : keysSorted a.f0.data) :
    mapR toMVar (MultiVar.MulAssign_MultiVar_X_I.mul_assign a b) = .ok (toMVar a * toMVar b) := by
  simp only [MultiVar.MulAssign_MultiVar_X_I.mul_assign, gen_mdeg_add_assign_eq a.f0 b.f0 hs, Res.bind, mapR_ok]
  rfl

theorem gen_mvar_deg_for_eq (a : MultiVarS I) (i : Nat) (h : a.f0._zero_ = 0) :
    MultiVar.deg_for a i = C16.mdGet (toMVar a).d i := gen_mdeg_index_eq a.f0 i h

theorem gen_mvar_total_deg_eq (a : MultiVarS I) : MultiVar.total_deg a = C16.mdTotal (toMVar a).d := gen_mdeg_total_eq a.f0

theorem gen_mvar_cmp_lex_eq (a b : MultiVarS I) (ha : a.f0._zero_ = 0) (hb : b.f0._zero_ = 0) :
    MultiVar.MonoOrd.cmp_lex a b = C16.MVar.cmpLex (toMVar a) (toMVar b) := gen_mdeg_cmp_lex_eq a.f0 b.f0 ha hb

theorem gen_mvar_cmp_grlex_eq (a b : MultiVarS I) (ha : a.f0._zero_ = 0) (hb : b.f0._zero_ = 0) :
    MultiVar.MonoOrd.cmp_grlex a b = C16.MVar.cmpGrlex (toMVar a) (toMVar b) := gen_mdeg_cmp_grlex_eq a.f0 b.f0 ha hb

end MVar

/-! ### non-vacuity: the hypotheses `r_zero = 0` hold for everything the constructors return -/
example : (Lc.new : LcS Nat Int).r_zero = 0 := rfl
example : Lc.FromIterator_X_R.from_iter [((1 : Nat), (2 : Int)), (1, -2), (3, 5)] = .ok ⟨[(3, 5)], 0⟩ := by
  rw [gen_lc_from_iter_eq]; rfl
example : keysSorted [((0 : Nat), (2 : Int)), (3, -1)] := by simp [keysSorted]
example : MultiDeg.AddAssign_MultiDeg_I.add_assign ⟨[((0 : Nat), (2 : Int)), (3, -1)], 0⟩ ⟨[(1, 4), (3, 1)], 0⟩
    = .ok ⟨[(0, 2), (1, 4)], 0⟩ := by
  rw [gen_mdeg_add_assign_eq _ _ (by simp [keysSorted])]; rfl

end Yuiv.GenP
