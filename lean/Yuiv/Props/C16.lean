import Yuiv.Proofs.C16
import Yuiv.Proofs.C16Ord
import Yuiv.Proofs.C16MDeg
import Yuiv.Proofs.C16Rings
/-
Property theorems for C16 — "polynomial and linear-combination types form the free algebra they denote".

Conventions.  `R` is an arbitrary commutative ring with decidable equality (ℤ, ℚ, F_p, ℤ[i] …; `Yuiv.Proofs.C16Rings`
shows that the driver's `F3` and `GInt` are such rings), `X` an arbitrary generator type with decidable
equality, `M` a monomial type forming a commutative monoid (`Var`, `Var2`, `Var3`, and the well-formed `MultiVar`s
`WMVar`; instances in `Yuiv.Proofs.C16Ord/C16MDeg`), `I` an exponent type that is a linearly ordered cancellative
commutative monoid (`ℕ` = `usize`, `ℤ` = `isize`).

A value of `Lc<X,R>` is modelled by the list of its hash-map entries in *some* iteration order.
`WF l` = keys pairwise distinct ∧ no zero coefficient.  `coeff l x` is the model of `Lc::coeff`.
Statements "up to `List.Perm`" say that results do not depend on the iteration order of the hash map; the
harness compares sorted term lists, which `perm_of_same_coeff` justifies.
-/
set_option linter.unusedSectionVars false
set_option linter.unusedVariables false

namespace Yuiv.C16.Props
open Yuiv.C16

/-! ## 1. the invariant is established by constructors and preserved by every mutating operation -/
section Invariant
variable {X Y R S : Type} [DecidableEq X] [DecidableEq Y] [DecidableEq R] [CommRing R]
  [DecidableEq S] [CommRing S]

/-- `from_iter` (hence `From<(X,R)>`, `From<X>`, `from_const`, `one`, `variable`, `zero`) yields distinct keys and
no zero coefficient, whatever the input (repeated generators, zero coefficients, cancelling terms). -/
theorem fromIter_wf (it : List (X × R)) : WF (fromIter it) := wf_fromIter it

/-- `+=` (all `+` forms) preserves the invariant; only distinctness of the keys of `self` is needed. -/
theorem addAssign_wf {a : List (X × R)} (ha : WF a) (b : List (X × R)) : WF (addAssign a b) :=
  wf_addAssign ha.1 b

/-- `-=` preserves the invariant. -/
theorem subAssign_wf {a : List (X × R)} (ha : WF a) (b : List (X × R)) : WF (subAssign a b) :=
  wf_subAssign ha.1 b

/-- `*= r` preserves the invariant (zero divisors and `r = 0` included: products that vanish are removed). -/
theorem smul_wf {a : List (X × R)} (ha : WF a) (r : R) : WF (smul a r) := wf_smul ha r

/-- unary minus -/
theorem neg_wf (a : List (X × R)) : WF (neg a) := wf_neg a

/-- `combine` (hence `Lc * Lc`, the general polynomial product), `map_gens`, `map_coeffs`, `filter_gens`, `apply` -/
theorem combine_wf (f : X → X → X) (a b : List (X × R)) : WF (combine f a b) := wf_combine f a b
theorem mapGens_wf (f : X → Y) (a : List (X × R)) : WF (mapGens f a) := wf_fromIter _
theorem mapCoeffs_wf (f : R → S) (a : List (X × R)) : WF (mapCoeffs f a) := wf_fromIter _
theorem filterGens_wf (f : X → Bool) (a : List (X × R)) : WF (filterGens f a) := wf_fromIter _
theorem apply_wf (f : X → List (X × R)) (a : List (X × R)) : WF (apply f a) := wf_fromIter _

example : WF ([(1, 2), (3, -1)] : List (Int × Int)) := by unfold WF; decide
example : fromIter ([(1, 2), (3, 0), (1, -2), (2, 5)] : List (Int × Int)) = [(2, 5)] := by decide

end Invariant

/-! ## 2. what the operations do to coefficients -/
section Coeff
variable {X R : Type} [DecidableEq X] [DecidableEq R] [CommRing R]

/-- `from_iter` sums the coefficients of repeated generators -/
theorem coeff_fromIter_eq (it : List (X × R)) (y : X) :
    coeff (fromIter it) y = lsum (fun x r => if x = y then r else 0) it := coeff_fromIter it y

theorem coeff_add {a b : List (X × R)} (ha : WF a) (hb : WF b) (y : X) :
    coeff (addAssign a b) y = coeff a y + coeff b y := coeff_addAssign ha.1 hb.1 y

theorem coeff_sub {a b : List (X × R)} (ha : WF a) (hb : WF b) (y : X) :
    coeff (subAssign a b) y = coeff a y - coeff b y := coeff_subAssign ha.1 hb.1 y

theorem coeff_neg_eq {a : List (X × R)} (ha : WF a) (y : X) : coeff (neg a) y = - coeff a y :=
  coeff_neg ha.1 y

theorem coeff_smul_eq {a : List (X × R)} (ha : WF a) (c : R) (y : X) : coeff (smul a c) y = coeff a y * c :=
  coeff_smul ha c y

/-- the coefficient of `x_map`-combined linear combinations is the convolution sum (`Lc::combine`, `Lc * Lc`) -/
theorem coeff_combine (f : X → X → X) (a b : List (X × R)) (z : X) :
    coeff (combine f a b) z =
      lsum (fun x r => lsum (fun y s => if f x y = z then r * s else 0) b) a := by
  rw [coeff_eq_lsum (wf_combine f a b).1, lsum_combine (delta_additive z)]; rfl

/-- Two well-formed values with the same coefficient function hold the same terms, in possibly different order:
results do not depend on the iteration order of the hash map, and comparing sorted term lists is complete. -/
theorem perm_of_same_coeff {a b : List (X × R)} (ha : WF a) (hb : WF b)
    (h : ∀ x, coeff a x = coeff b x) : a.Perm b := perm_of_coeff_eq ha hb h

/-- conversely the coefficient function does not depend on the iteration order -/
theorem coeff_order_independent {a b : List (X × R)} (ha : WF a) (h : a.Perm b) (x : X) :
    coeff a x = coeff b x := coeff_perm ha.1 h x

/-- `==`, `is_zero`, `nterms` are those of the denoted element -/
theorem eqv_iff_same_coeff {a b : List (X × R)} (ha : WF a) (hb : WF b) :
    eqv a b = true ↔ ∀ x, coeff a x = coeff b x := eqv_iff ha hb

theorem isZero_iff_coeff_zero {a : List (X × R)} (ha : WF a) : isZero a = true ↔ ∀ x, coeff a x = 0 :=
  isZero_iff ha

/-- `nterms` counts the support: the keys enumerate, without repetition, exactly the `x` with non-zero coefficient -/
theorem nterms_is_support_size {a : List (X × R)} (ha : WF a) :
    nterms a = (keys a).length ∧ (keys a).Nodup ∧ ∀ x, x ∈ keys a ↔ coeff a x ≠ 0 :=
  ⟨nterms_eq a, ha.1, mem_keys_iff ha⟩

example : eqv ([(1, 2), (3, -1)] : List (Int × Int)) [(3, -1), (1, 2)] = true := by decide

end Coeff

/-! ## 3. polynomial multiplication, the special cases of `*=`, ring axioms, evaluation -/
section Ring
variable {M R : Type} [DecidableEq M] [CommMonoid M] [DecidableEq R] [CommRing R]

theorem coeff_mul (a b : List (M × R)) (z : M) :
    coeff (mul a b) z = lsum (fun x r => lsum (fun y s => if x * y = z then r * s else 0) b) a :=
  coeff_combine _ a b z

theorem mulAssign_wf {a b : List (M × R)} (ha : WF a) (hb : WF b) : WF (mulAssign a b) := wf_mulAssign ha hb

/-- The three special cases of `*=` (rhs one / rhs constant, zero included / self constant) agree with the general
product: same coefficients … -/
theorem mulAssign_coeff {a b : List (M × R)} (ha : WF a) (hb : WF b) (z : M) :
    coeff (mulAssign a b) z = coeff (mul a b) z := by
  rw [coeff_eq_lsum (wf_mulAssign ha hb).1, coeff_eq_lsum (wf_mul a b).1, lsum_mulAssign (delta_additive z) ha hb]

/-- … hence the same stored terms up to the iteration order. -/
theorem mulAssign_perm_mul {a b : List (M × R)} (ha : WF a) (hb : WF b) : (mulAssign a b).Perm (mul a b) :=
  perm_of_coeff_eq (wf_mulAssign ha hb) (wf_mul a b) (mulAssign_coeff ha hb)

/-! ring axioms, for the operations as implemented (`*` = `mulAssign`), up to the iteration order -/

theorem add_comm_perm {a b : List (M × R)} (ha : WF a) (hb : WF b) : (addAssign a b).Perm (addAssign b a) :=
  perm_of_lsum_eq (wf_addAssign ha.1 b) (wf_addAssign hb.1 a) (fun y => by
    rw [lsum_addAssign (delta_additive y), lsum_addAssign (delta_additive y), add_comm])

theorem add_assoc_perm {a b c : List (M × R)} (ha : WF a) (hb : WF b) (hc : WF c) :
    (addAssign (addAssign a b) c).Perm (addAssign a (addAssign b c)) :=
  perm_of_lsum_eq (wf_addAssign (wf_addAssign ha.1 b).1 c) (wf_addAssign ha.1 _) (fun y => by
    simp only [lsum_addAssign (delta_additive y), add_assoc])

theorem add_zero_eq {a : List (M × R)} (ha : WF a) : (addAssign a []).Perm a :=
  perm_of_lsum_eq (wf_addAssign ha.1 []) ha (fun y => by simp [lsum_addAssign (delta_additive y)])

theorem add_neg_cancel_eq {a : List (M × R)} (ha : WF a) : addAssign a (neg a) = [] := by
  have h : (addAssign a (neg a)).Perm [] :=
    perm_of_lsum_eq (wf_addAssign ha.1 _) wf_nil (fun y => by
      rw [lsum_addAssign (delta_additive y), lsum_neg (delta_additive y), lsum_delta_neg]; simp)
  exact List.Perm.eq_nil h

theorem sub_self_eq {a : List (M × R)} (ha : WF a) : subAssign a a = [] := by
  have h : (subAssign a a).Perm [] :=
    perm_of_lsum_eq (wf_subAssign ha.1 _) wf_nil (fun y => by
      rw [lsum_subAssign (delta_additive y), lsum_delta_neg]; simp)
  exact List.Perm.eq_nil h

theorem sub_eq_add_neg_perm {a b : List (M × R)} (ha : WF a) (hb : WF b) :
    (subAssign a b).Perm (addAssign a (neg b)) :=
  perm_of_lsum_eq (wf_subAssign ha.1 b) (wf_addAssign ha.1 _) (fun y => by
    rw [lsum_subAssign (delta_additive y), lsum_addAssign (delta_additive y), lsum_neg (delta_additive y)])

theorem mul_comm_perm {a b : List (M × R)} (ha : WF a) (hb : WF b) : (mulAssign a b).Perm (mulAssign b a) :=
  perm_of_lsum_eq (wf_mulAssign ha hb) (wf_mulAssign hb ha) (fun y => by
    rw [lsum_mulAssign (delta_additive y) ha hb, lsum_mulAssign (delta_additive y) hb ha, lsum_mul_comm (delta_additive y)])

theorem mul_assoc_perm {a b c : List (M × R)} (ha : WF a) (hb : WF b) (hc : WF c) :
    (mulAssign (mulAssign a b) c).Perm (mulAssign a (mulAssign b c)) := by
  have hab := wf_mulAssign ha hb
  have hbc := wf_mulAssign hb hc
  refine perm_of_lsum_eq (wf_mulAssign hab hc) (wf_mulAssign ha hbc) (fun y => ?_)
  have hd := delta_additive (R := R) y
  rw [lsum_mulAssign hd hab hc, lsum_mulAssign hd ha hbc]
  -- replace the inner `mulAssign`s by `mul` below linear functionals
  rw [lsum_mul hd, lsum_mulAssign (additive_inner hd (fun x y => x * y) c) ha hb, ← lsum_mul hd,
    lsum_mul_assoc hd, lsum_mul hd, lsum_mul hd]
  apply lsum_congr; intro p _
  rw [lsum_mulAssign (additive_left hd (fun z => p.1 * z) p.2) hb hc]

theorem fromConst_wf (c : R) : WF (fromConst c : List (M × R)) := wf_fromIter _

theorem mul_one_perm {a : List (M × R)} (ha : WF a) : (mulAssign a (fromConst 1)).Perm a :=
  perm_of_lsum_eq (wf_mulAssign ha (fromConst_wf 1)) ha (fun y => by
    rw [lsum_mulAssign (delta_additive y) ha (fromConst_wf 1), lsum_mul_one (delta_additive y)])

theorem mul_zero_eq {a : List (M × R)} (ha : WF a) : mulAssign a [] = [] := by
  have h : (mulAssign a []).Perm [] :=
    perm_of_lsum_eq (wf_mulAssign ha wf_nil) wf_nil (fun y => by
      rw [lsum_mulAssign (delta_additive y) ha wf_nil, lsum_mul (delta_additive y)]
      simp [lsum_zero_fun])
  exact List.Perm.eq_nil h

theorem mul_add_perm {a b c : List (M × R)} (ha : WF a) (hb : WF b) (hc : WF c) :
    (mulAssign a (addAssign b c)).Perm (addAssign (mulAssign a b) (mulAssign a c)) := by
  have hbc := wf_addAssign hb.1 c
  refine perm_of_lsum_eq (wf_mulAssign ha hbc) (wf_addAssign (wf_mulAssign ha hb).1 _) (fun y => ?_)
  have hd := delta_additive (R := R) y
  rw [lsum_mulAssign hd ha hbc, lsum_addAssign hd, lsum_mulAssign hd ha hb, lsum_mulAssign hd ha hc, lsum_mul_add hd]

/-- `p * r` for a scalar `r` is the product with the constant polynomial -/
theorem smul_perm_mul_const {a : List (M × R)} (ha : WF a) (c : R) :
    (smul a c).Perm (mulAssign a (fromConst c)) :=
  perm_of_lsum_eq (wf_smul ha c) (wf_mulAssign ha (fromConst_wf c)) (fun y => by
    rw [lsum_mulAssign (delta_additive y) ha (fromConst_wf c), lsum_smul_const (delta_additive y)])

/-! evaluation: `me` is the value of the monomials at the point (a monoid homomorphism `M → R`) -/

theorem eval_add (me : M → R) (a b : List (M × R)) :
    evalWith me (addAssign a b) = evalWith me a + evalWith me b := by
  simp only [evalWith_eq_lsum, lsum_addAssign (evalFun_additive me)]

theorem eval_sub (me : M → R) (a b : List (M × R)) :
    evalWith me (subAssign a b) = evalWith me a - evalWith me b := by
  simp only [evalWith_eq_lsum, lsum_subAssign (evalFun_additive me)]
  have : lsum (fun x r => -r * me x) b = - lsum (fun x r => r * me x) b := by
    induction b with
    | nil => simp
    | cons p t ih => simp only [lsum_cons, ih]; ring
  rw [this]; ring

theorem eval_mul (me : M → R) (hme : ∀ x y, me (x * y) = me x * me y) {a b : List (M × R)}
    (ha : WF a) (hb : WF b) : evalWith me (mulAssign a b) = evalWith me a * evalWith me b := by
  rw [evalWith_eq_lsum, lsum_mulAssign (evalFun_additive me) ha hb, ← evalWith_eq_lsum, evalWith_mul me hme]

theorem eval_one (me : M → R) (h1 : me 1 = 1) : evalWith me (fromConst (1 : R) : List (M × R)) = 1 := by
  rw [evalWith_eq_lsum, fromConst, lsum_fromIter (evalFun_additive me)]; simp [h1]

/-- `pow(n)` (repeated `*=` from `one`) keeps the invariant and evaluates to the `n`-th power -/
theorem powP_wf {a : List (M × R)} (ha : WF a) (n : Nat) : WF (powP a n) := by
  induction n with
  | zero => exact fromConst_wf 1
  | succ k ih => exact wf_mulAssign ih ha

theorem eval_pow (me : M → R) (h1 : me 1 = 1) (hme : ∀ x y, me (x * y) = me x * me y)
    {a : List (M × R)} (ha : WF a) (n : Nat) : evalWith me (powP a n) = powNat (evalWith me a) n := by
  induction n with
  | zero => exact eval_one me h1
  | succ k ih => simp only [powP, powNat]; rw [eval_mul me hme (powP_wf ha k) ha, ih]

theorem eval_order_independent (me : M → R) {a b : List (M × R)} (h : a.Perm b) :
    evalWith me a = evalWith me b := by
  rw [evalWith_eq_lsum, evalWith_eq_lsum, lsum_perm _ h]

end Ring

/-! the monomial evaluations used by `eval` are monoid homomorphisms (`usize` exponents) -/
section EvalMono
variable {R : Type} [DecidableEq R] [CommRing R]

theorem evalVar_hom (x : R) (a b : Var Nat) :
    powNat x (a * b).e = powNat x a.e * powNat x b.e := powNat_add x _ _

theorem evalVar2_hom (x y : R) (a b : Var2 Nat) :
    powNat x (a * b).e0 * powNat y (a * b).e1 = (powNat x a.e0 * powNat y a.e1) * (powNat x b.e0 * powNat y b.e1) := by
  show powNat x (a.e0 + b.e0) * powNat y (a.e1 + b.e1) = _
  rw [powNat_add, powNat_add]; ring

theorem evalVar3_hom (x y z : R) (a b : Var3 Nat) :
    powNat x (a * b).e0 * powNat y (a * b).e1 * powNat z (a * b).e2 =
      (powNat x a.e0 * powNat y a.e1 * powNat z a.e2) * (powNat x b.e0 * powNat y b.e1 * powNat z b.e2) := by
  show powNat x (a.e0 + b.e0) * powNat y (a.e1 + b.e1) * powNat z (a.e2 + b.e2) = _
  rw [powNat_add, powNat_add, powNat_add]; ring

end EvalMono

/-! ## 4. leading term -/
section LeadTerm
variable {M R : Type} [DecidableEq M] [One M] [DecidableEq R] [CommRing R]

/-- for a total order `cmp` on the monomials satisfying `P`: the lead term of a non-zero polynomial is the stored
term with the largest monomial, and its coefficient is the (non-zero) coefficient at that monomial -/
theorem leadTerm_is_max {P : M → Prop} {cmp : M → M → Ordering} (h : OrdLaws P cmp)
    {a : List (M × R)} (ha : WF a) (hP : ∀ q ∈ a, P q.1) (hne : a ≠ []) :
    coeff a (leadTerm cmp a).1 = (leadTerm cmp a).2 ∧ (leadTerm cmp a).2 ≠ 0 ∧
      ∀ y, coeff a y ≠ 0 → cmp y (leadTerm cmp a).1 ≠ .gt := by
  obtain ⟨hm, hx⟩ := leadTerm_spec h hP hne
  refine ⟨coeff_of_mem ha.1 hm, ha.2 _ hm, fun y hy => hx (y, coeff a y) (mem_of_coeff_ne_zero hy)⟩

/-- the lead term does not depend on the iteration order of the hash map -/
theorem leadTerm_order_independent {P : M → Prop} {cmp : M → M → Ordering} (h : OrdLaws P cmp)
    {a b : List (M × R)} (ha : WF a) (hP : ∀ q ∈ a, P q.1) (hab : a.Perm b) :
    leadTerm cmp a = leadTerm cmp b := leadTerm_perm h ha hP hab

/-- the zero polynomial has lead term `(1, 0)` -/
theorem leadTerm_zero (cmp : M → M → Ordering) : leadTerm cmp ([] : List (M × R)) = (1, 0) := rfl

end LeadTerm

/-! ## 5. monomial orders are total orders compatible with multiplication -/
section Orders
variable {I : Type} [AddCommMonoid I] [LinearOrder I] [IsOrderedCancelAddMonoid I]

/-- `OrdLaws P cmp`: `cmp x y = eq ↔ x = y`, `cmp y x = (cmp x y).swap` (totality + antisymmetry),
`≤` transitive — on all monomials (`Var*`) resp. on the multi-degrees satisfying the invariant. -/
theorem var_lex_total : OrdLaws (fun _ => True) (Var.cmpLex (I := I)) := var_ordLaws_lex
theorem var_grlex_total : OrdLaws (fun _ => True) (Var.cmpGrlex (I := I)) := var_ordLaws_grlex
theorem var2_lex_total : OrdLaws (fun _ => True) (Var2.cmpLex (I := I)) := var2_ordLaws_lex
theorem var2_grlex_total : OrdLaws (fun _ => True) (Var2.cmpGrlex (I := I)) := var2_ordLaws_grlex
theorem var3_lex_total : OrdLaws (fun _ => True) (Var3.cmpLex (I := I)) := var3_ordLaws_lex
theorem var3_grlex_total : OrdLaws (fun _ => True) (Var3.cmpGrlex (I := I)) := var3_ordLaws_grlex
theorem mdeg_lex_total : OrdLaws (MDWF (I := I)) mdCmpLex := md_ordLaws_lex
theorem mdeg_grlex_total : OrdLaws (MDWF (I := I)) mdCmpGrlex := md_ordLaws_grlex

theorem var_lex_mul (a b c : Var I) : Var.cmpLex (a * c) (b * c) = Var.cmpLex a b := var_cmp_mul a b c
theorem var_grlex_mul (a b c : Var I) : Var.cmpGrlex (a * c) (b * c) = Var.cmpGrlex a b := var_cmp_mul a b c
theorem var2_lex_mul (a b c : Var2 I) : Var2.cmpLex (a * c) (b * c) = Var2.cmpLex a b := var2_cmpLex_mul a b c
theorem var2_grlex_mul (a b c : Var2 I) : Var2.cmpGrlex (a * c) (b * c) = Var2.cmpGrlex a b :=
  var2_cmpGrlex_mul a b c
theorem var3_lex_mul (a b c : Var3 I) : Var3.cmpLex (a * c) (b * c) = Var3.cmpLex a b := var3_cmpLex_mul a b c
theorem var3_grlex_mul (a b c : Var3 I) : Var3.cmpGrlex (a * c) (b * c) = Var3.cmpGrlex a b :=
  var3_cmpGrlex_mul a b c
theorem mdeg_lex_mul {a b c : List (Nat × I)} (ha : MDWF a) (hb : MDWF b) (hc : MDWF c) :
    mdCmpLex (mdAdd a c) (mdAdd b c) = mdCmpLex a b := mdCmpLex_mdAdd ha.1 hb.1 hc.1
theorem mdeg_grlex_mul {a b c : List (Nat × I)} (ha : MDWF a) (hb : MDWF b) (hc : MDWF c) :
    mdCmpGrlex (mdAdd a c) (mdAdd b c) = mdCmpGrlex a b := mdCmpGrlex_mdAdd ha.1 hb.1 hc.1

/-- `cmp_lex` on multi-degrees is the lexicographic comparison of the exponent functions, variable 0 first -/
theorem mdeg_lex_characterisation (a b : List (Nat × I)) :
    (mdCmpLex a b = .lt ↔ ∃ i, (∀ j, j < i → mdGet a j = mdGet b j) ∧ mdGet a i < mdGet b i) ∧
    (mdCmpLex a b = .eq ↔ ∀ i, mdGet a i = mdGet b i) := by
  rw [mdCmpLex_eq, cmpK_lt, cmpK_eq]
  refine ⟨Iff.rfl, ?_⟩
  constructor
  · intro h i; exact congrFun (toLex.injective h) i
  · intro h; congr 1; funext i; exact h i

example : MDWF ([(0, 2), (3, -1)] : List (Nat × Int)) := by
  refine ⟨by simp [MDSorted, mdKeys], by simp⟩
example : mdCmpGrlex ([(0, 1), (1, -2), (2, 3)] : List (Nat × Int)) [(0, 2), (1, 2), (2, -2)] = .lt := by decide

end Orders

/-! ## 6. `MultiDeg`: no zero exponent is ever stored; arithmetic is that of exponent vectors -/
section MultiDeg
variable {I : Type} [AddCommMonoid I] [LinearOrder I] [IsOrderedCancelAddMonoid I]

/-- `MultiDeg::from_iter`, `From<[I;N]>`, `From<(usize,I)>`, `MultiVar::from_iter`: sorted keys, no zero exponent,
whatever the input (zero exponents, repeated indices) -/
theorem mdFromIter_wf (it : List (Nat × I)) : MDWF (mdFromIter it) := mdWF_fromIter it
theorem mdFromArray_wf (ds : List I) : MDWF (mdFromArray ds) := mdWF_fromIter _

/-- `+=` (the product of monomials) re-establishes the invariant and adds exponents -/
theorem mdAdd_wf {a : List (Nat × I)} (ha : MDWF a) (b : List (Nat × I)) : MDWF (mdAdd a b) := mdWF_mdAdd ha.1 b
theorem mdAdd_get {a b : List (Nat × I)} (ha : MDWF a) (hb : MDWF b) (i : Nat) :
    mdGet (mdAdd a b) i = mdGet a i + mdGet b i := mdGet_mdAdd ha.1 hb.1 i
theorem mdAdd_total (a b : List (Nat × I)) : mdTotal (mdAdd a b) = mdTotal a + mdTotal b := mdTotal_mdAdd a b

/-- under the invariant a multi-degree is determined by its exponent function, so the derived `==`/`Hash` used
for the hash-map keys identify exactly the equal monomials -/
theorem mdeg_eq_iff {a b : List (Nat × I)} (ha : MDWF a) (hb : MDWF b) :
    a = b ↔ ∀ i, mdGet a i = mdGet b i := ⟨fun e i => by rw [e], md_ext ha hb⟩

/-- `isize`: negation and subtraction -/
theorem mdNeg_wf {a : List (Nat × Int)} (ha : MDWF a) : MDWF (mdNeg a) := mdWF_mdNeg ha
theorem mdNeg_get (a : List (Nat × Int)) (i : Nat) : mdGet (mdNeg a) i = - mdGet a i := mdGet_mdNeg a i
theorem mdSubInt_wf {a : List (Nat × Int)} (ha : MDWF a) (b : List (Nat × Int)) : MDWF (mdSubInt a b) :=
  mdWF_mdSubInt ha.1 b
theorem mdSubInt_get {a b : List (Nat × Int)} (ha : MDWF a) (hb : MDWF b) (i : Nat) :
    mdGet (mdSubInt a b) i = mdGet a i - mdGet b i := mdGet_mdSubInt ha.1 hb.1 i

/-- `usize`: subtraction succeeds iff no exponent underflows (otherwise the overflow check panics); the result
satisfies the invariant and subtracts exponents -/
theorem mdSubNat_ok_spec {a b : List (Nat × Nat)} (ha : MDWF a) (hb : MDWF b)
    (hle : ∀ j, mdGet b j ≤ mdGet a j) :
    ∃ c, mdSubNat a b = Res.ok c ∧ MDWF c ∧ ∀ j, mdGet c j = mdGet a j - mdGet b j :=
  mdSubNat_ok ha.1 hb.1 hle

theorem mdSubNat_panic_spec {a b : List (Nat × Nat)} (ha : MDWF a) (hb : MDWF b)
    (hlt : ∃ j, mdGet a j < mdGet b j) : mdSubNat a b = Res.panic := mdSubNat_panic ha.1 hb.1 hlt

example : mdSubNat [(0, 1), (1, 2), (2, 3)] [(1, 2), (2, 1)] = Res.ok [(0, 1), (2, 2)] := by decide
example : mdSubNat [(0, 1), (1, 2), (2, 3)] [(1, 3), (2, 1)] = Res.panic := by decide

/-- The operations on polynomials over raw `MultiVar`s whose monomials satisfy the invariant are the images of
the operations over the commutative monoid `WMVar` of well-formed monomials (to which section 3 applies). -/
theorem mvar_mulAssign_transport {R : Type} [DecidableEq R] [CommRing R] (a b : List (WMVar I × R)) :
    mulAssign (mapK WMVar.val a) (mapK WMVar.val b) = mapK WMVar.val (mulAssign a b) :=
  mulAssign_mapK WMVar.val_injective WMVar.val_one WMVar.val_mul a b

theorem mvar_addAssign_transport {R : Type} [DecidableEq R] [CommRing R] (a b : List (WMVar I × R)) :
    addAssign (mapK WMVar.val a) (mapK WMVar.val b) = mapK WMVar.val (addAssign a b) :=
  addAssign_mapK WMVar.val_injective a b

theorem mvar_subAssign_transport {R : Type} [DecidableEq R] [CommRing R] (a b : List (WMVar I × R)) :
    subAssign (mapK WMVar.val a) (mapK WMVar.val b) = mapK WMVar.val (subAssign a b) :=
  subAssign_mapK WMVar.val_injective a b

theorem mvar_fromIter_transport {R : Type} [DecidableEq R] [CommRing R] (it : List (WMVar I × R)) :
    fromIter (mapK WMVar.val it) = mapK WMVar.val (fromIter it) :=
  fromIter_mapK WMVar.val_injective it

end MultiDeg

/-! ## 7. `HPoly` -/
section HP
variable {R : Type} [DecidableEq R] [CommRing R]

/-- `*` on homogeneous polynomials: degrees add and coefficients multiply (as values, i.e. up to the `==` that
identifies all zero polynomials) -/
theorem hpoly_mul_spec (a b : HPoly R) :
    (a.mul b).eqv ⟨a.deg + b.deg, a.coeff * b.coeff⟩ = true := by
  unfold HPoly.mul HPoly.isOne
  by_cases h : (b.deg == 0 && decide (b.coeff = 1)) = true
  · simp only [h, if_true]
    simp only [Bool.and_eq_true, beq_iff_eq, decide_eq_true_eq] at h
    simp [HPoly.eqv, h.1, h.2]
  · simp [h, HPoly.eqv]

/-- `==` on homogeneous polynomials is equality of the denoted polynomials (all zero values are equal) -/
theorem hpoly_eqv_iff (a b : HPoly R) : a.eqv b = true ↔ ∀ n, hval a n = hval b n := hpoly_eqv_iff_val a b

/-- `+`: when it does not panic, the result denotes the sum; it panics exactly for two non-zero summands of
different degrees -/
theorem hpoly_add_spec {a b c : HPoly R} (h : a.add b = Res.ok c) (n : Nat) :
    hval c n = hval a n + hval b n := hpoly_add_val h n
theorem hpoly_add_panics_iff (a b : HPoly R) :
    a.add b = Res.panic ↔ a.coeff ≠ 0 ∧ b.coeff ≠ 0 ∧ a.deg ≠ b.deg := hpoly_add_panic_iff a b

example : (HPoly.add (⟨2, 3⟩ : HPoly Int) ⟨2, -3⟩) = Res.ok ⟨2, 0⟩ := by simp [HPoly.add, HPoly.isZero]
example : (HPoly.add (⟨2, 3⟩ : HPoly Int) ⟨1, 1⟩) = Res.panic := by simp [HPoly.add, HPoly.isZero]

theorem hpoly_mul_comm (a b : HPoly R) : (a.mul b).eqv (b.mul a) = true := by
  have h1 := hpoly_mul_spec a b
  have h2 := hpoly_mul_spec b a
  unfold HPoly.eqv at *
  simp only [Nat.add_comm b.deg, mul_comm b.coeff] at h2
  split at h1 <;> split at h2 <;> split <;> simp_all

end HP

/-! ## 8. the generic theorems specialise to the instances the driver runs -/
section Instances
attribute [local instance] F3.commRing GInt.commRing

example (a b : List (Var2 Int × Int)) (ha : WF a) (hb : WF b) : (mulAssign a b).Perm (mulAssign b a) :=
  mul_comm_perm ha hb

example (a b c : List (Var3 Nat × Rat)) (ha : WF a) (hb : WF b) (hc : WF c) :
    (mulAssign (mulAssign a b) c).Perm (mulAssign a (mulAssign b c)) := mul_assoc_perm ha hb hc

example (a b : List (Var Nat × F3)) (ha : WF a) (hb : WF b) : (mulAssign a b).Perm (mul a b) :=
  mulAssign_perm_mul ha hb

example (a b c : List (WMVar Int × GInt)) (ha : WF a) (hb : WF b) (hc : WF c) :
    (mulAssign a (addAssign b c)).Perm (addAssign (mulAssign a b) (mulAssign a c)) := mul_add_perm ha hb hc

/-- the model's `*` on the concrete monomial and coefficient types is what the instances above use -/
example (a b : Var2 Int) : a * b = ⟨a.e0 + b.e0, a.e1 + b.e1⟩ := rfl
example (a b : GInt) : a * b = ⟨a.re * b.re - a.im * b.im, a.re * b.im + a.im * b.re⟩ := rfl

end Instances

end Yuiv.C16.Props
