import Yuiv.Proofs.C16
/-
Property theorems for C16.  `R` is an arbitrary commutative ring with decidable equality (ℤ, ℚ, F_p, ℤ[i] …),
`X` an arbitrary generator type with decidable equality.
-/
namespace Yuiv.C16.Props
open Yuiv.C16

section LcP
variable {X R A : Type} [DecidableEq X] [DecidableEq R] [CommRing R] [AddCommMonoid A]

/-- `from_iter` sums the coefficients of repeated generators: every linear functional sees the plain sum. -/
theorem fromIter_lsum {g : X → R → A} (hg : Additive g) (it : List (X × R)) :
    lsum g (fromIter it) = lsum g it := lsum_fromIter hg it

end LcP
end Yuiv.C16.Props
