import Yuiv.Proofs.C19CommEx
import Yuiv.Props.C19Inv
/-
C19 (extension) — τ IS A CHAIN MAP of the reference cube complex over 𝔽₂, hence the cone of `1 + τ` is a complex.

Setting: `ic : ICube` is the reference involutive cube (`Model/C19.mkICube`: the cube `ic.cube`, τ on states `ic.tst`, the
circle correspondences `ic.tlab`), `ic.tau` is τ on generators, `Cube.d` the reference differential (any parameters
`p = ⟨h, t, reduced⟩`; everything is read mod 2, so the signs of the cube edges play no role), and — exactly as in
`khiHomology` —
    `dK c p g`   = the targets of the terms of `c.d p g` with odd coefficient (a list; repeated targets cancel in pairs),
    `dI ic p x`  = the cone differential  `D(Bg) = B dg + Qg + Qτg`,  `D(Qg) = Q dg`   (`(false, g) = Bg`, `(true, g) = Qg`).

Hypothesis: the decidable per-instance check `icubeWf' F ic = true` (`Proofs/C19CommDefs.lean`: imports the models and core
Lean only, no Mathlib, so a driver can import and evaluate it; proofs in `Proofs/C19CommBits, Edge, Cube, Main, Cone, Mat,
State, Ex`).  It is `icubeWf ic` of `Props/C19Inv` PLUS, for every state `s` (`t = τ s`):
  (1) at most 64 circles (`setBit … false` of `KhRef` truncates the labelling to 64 bits);
  (2) the circles of `s` are pairwise different arrays;
  (3) CONTENT: circle `tlab[s][i]` of `t` equals `F (circle i of s)` for one fixed function `F` on circles — for an
      involutive link `l`: `F = circImg l.invE`, the sorted image under the label involution;
  (4) EDGES: for every `0`-bit `k` of `s` there is a `0`-bit `k'` of `t` with `τ(s + e_k) = τ s + e_k'`.
`icubeWf` alone is NOT enough: it only says that `tlab[s]` is a bijection of circle INDICES (with the inverse at `τ s`)
and that τ on states is a weight preserving involution — neither what the circles are nor that τ respects cube edges.
(3) is what makes "common / disappearing / new circle" along an edge a τ-invariant notion (`Cube.d` compares circles
of neighbouring states by their content), (4) re-indexes the sum over the edges.

Proved here (all for EVERY generator `g` with `g.s < 2^n`, every `p`, unreduced and reduced):
  * `tau_edge_map_comm`     one edge: the edge map along `k'` at `τ g` is the τ-image of the edge map along `k` at `g`;
  * `tau_chain_map`         `τ (d g) = d (τ g)` as lists of targets up to order; `tau_chain_map_count` coefficientwise;
  * `tau_d_defined_together`  `Cube.d` is undefined at `g` iff it is at `τ g`;
  * `icube_cone_is_complex` `D∘D = 0 (mod 2)` at `Bg`, `Qg` from `d∘d = 0 (mod 2)` at `g` (count form = the driver's
                            `reduce2 (… flatMap …) = ∅`);
  * `icube_cone_matrix_sq_zero`  the same through `Props/C19.cone_d_sq` for the matrices of `d` and `τ`;
  * `tstate_bit_map`, `tstate_involution_weight_edges`  τ on states (`tState`) as a bit permutation;
  * `mkicube_tst_is_tstate`, `mkicube_states_of_pi_involution`  for `ic = mkICube l p`: `ic.tst` IS `tState`, and one check
                            on the link (`piInvolB`) yields the states part of `icubeWf` and clause (4) of `icubeWf'`.
NOT proved: that `icubeWf'` holds for every accepted diagram (it is a per-instance check, like `icubeWf`), and `d∘d = 0`
of the Khovanov cube itself (hypothesis of `icube_cone_is_complex`; `khiHomology` re-checks it as the `Q`-part of `D∘D`).
-/
namespace Yuiv.C19Comm
open Yuiv Yuiv.KhRef Yuiv.C19 Yuiv.C06Cycle Yuiv.C19Inv Matrix

/-! ### τ on states -/

/-- `tState` is the bit map `t_k = s_{π k}` (`k < n`), whenever every unresolved crossing has an image position `π k`
(otherwise `tState`, and with it `mkICube`, is undefined) -/
theorem tstate_bit_map (l : InvLink) (π : Nat → Nat) (hπ : ∀ k < (realIdx l.link).size, piOf l k = some (π k))
    (s : Nat) :
    ∃ t, tState l s = some t ∧ t < 2 ^ (realIdx l.link).size ∧
      ∀ j, t.testBit j = (decide (j < (realIdx l.link).size) && s.testBit (π j)) :=
  tState_bits l π hπ s

/-- if `π` is an involution of the positions: `tState` is an involution of the states below `2^n`, preserves the weight,
and maps the cube edge `s → s + e_k` to the edge `τ s → τ s + e_{π k}` (clause (4) of `icubeWf'`) -/
theorem tstate_involution_weight_edges (l : InvLink) (π : Nat → Nat)
    (hπ : ∀ k < (realIdx l.link).size, piOf l k = some (π k))
    (hinv : ∀ k < (realIdx l.link).size, π k < (realIdx l.link).size ∧ π (π k) = k)
    (s : Nat) (hs : s < 2 ^ (realIdx l.link).size) :
    ∃ t, tState l s = some t ∧ t < 2 ^ (realIdx l.link).size ∧ tState l t = some s ∧
      popcount t (realIdx l.link).size = popcount s (realIdx l.link).size ∧
      ∀ k < (realIdx l.link).size, s.testBit k = false →
        t.testBit (π k) = false ∧ tState l (s ||| 1 <<< k) = some (t ||| 1 <<< π k) :=
  tState_props l π hπ hinv s hs

/-- `mkICube` stores `tState`: its cube is the cube of the link (based at the on-axis base point in the reduced theory), of
dimension `n` = number of unresolved crossings, and `ic.tst[s] = tState l s` for every state `s < 2^n` -/
theorem mkicube_tst_is_tstate (l : InvLink) (p : Params) (ic : ICube) (h : mkICube l p = some ic) :
    ic.cube = ⟨(mkCube l.link p).n, (mkCube l.link p).circ, if p.reduced then l.base else none⟩ ∧
    ic.cube.n = (realIdx l.link).size ∧ (realIdx l.link).size = crossingNum l.link ∧
    ic.tst.size = 2 ^ ic.cube.n ∧ ∀ s < 2 ^ ic.cube.n, tState l s = some ic.tst[s]! := by
  obtain ⟨h1, h2, h3, h4⟩ := mkICube_tst l p ic h
  exact ⟨h1, h2, realIdx_size l.link, h3, h4⟩

/-- for the cube built by `mkICube`, ONE decidable check on the link (`piInvolB l`: the positions of the image crossings
form an involution) gives everything `icubeWf` / `icubeWf'` say about τ on STATES: an involution of the states below
`2^n`, weight preserving, and clause (4): the edge along `k` goes to the edge along `π k` -/
theorem mkicube_states_of_pi_involution (l : InvLink) (p : Params) (ic : ICube) (h : mkICube l p = some ic)
    (hpi : piInvolB l = true) (s : Nat) (hs : s < 2 ^ ic.cube.n) :
    ic.tst[s]! < 2 ^ ic.cube.n ∧ ic.tst[ic.tst[s]!]! = s ∧ popcount (ic.tst[s]!) ic.cube.n = popcount s ic.cube.n ∧
    ∀ k < ic.cube.n, s.testBit k = false →
      (ic.tst[s]!).testBit ((piOf l k).getD 0) = false ∧ (piOf l k).getD 0 < ic.cube.n ∧
      ic.tst[s ||| 1 <<< k]! = ic.tst[s]! ||| 1 <<< ((piOf l k).getD 0) :=
  mkICube_states l p ic h hpi s hs

/-- the trefoil: `π` exchanges the first two crossings; without the involution hypothesis the statement fails
(`π = const 0` is a bit map that is no permutation) -/
example : (∀ k < (realIdx tref.link).size, piOf tref k = some (#[1, 0, 2][k]!)) ∧
    (∀ k < (realIdx tref.link).size, #[1, 0, 2][k]! < (realIdx tref.link).size ∧ #[1, 0, 2][#[1, 0, 2][k]!]! = k) ∧
    tState tref 5 = some 6 ∧ piInvolB tref = true := by
  refine ⟨by decide +kernel, by decide +kernel, by decide +kernel, by decide +kernel⟩

/-! ### the strengthened check -/

/-- the strengthened check contains `icubeWf`, so the theorems of `Props/C19Inv` (τ an involution on generators,
preserving both degrees and the reduced sub-complex) hold under it -/
theorem icubeWf'_implies_wf (F : Array Nat → Array Nat) (ic : ICube) (h : icubeWf' F ic = true) : icubeWf ic = true :=
  wf'_wf F ic h

/-- what the four extra clauses say -/
theorem icubeWf'_meaning (F : Array Nat → Array Nat) (ic : ICube) (h : icubeWf' F ic = true) (s : Nat)
    (hs : s < 2 ^ ic.cube.n) :
    (ic.cube.circ[s]!).size ≤ 64 ∧
    (∀ i j, i < (ic.cube.circ[s]!).size → j < (ic.cube.circ[s]!).size →
      (ic.cube.circ[s]!)[i]! = (ic.cube.circ[s]!)[j]! → i = j) ∧
    (∀ i < (ic.cube.circ[s]!).size, (ic.cube.circ[ic.tst[s]!]!)[(ic.tlab[s]!)[i]!]! = F (ic.cube.circ[s]!)[i]!) ∧
    (∀ k < ic.cube.n, s.testBit k = false → ∃ k', k' < ic.cube.n ∧ (ic.tst[s]!).testBit k' = false ∧
      ic.tst[s ||| 1 <<< k]! = ic.tst[s]! ||| 1 <<< k') :=
  ⟨(wf'_spec F ic h s hs).le64, (wf'_spec F ic h s hs).inj, (wf'_spec F ic h s hs).img, (wf'_spec F ic h s hs).edge⟩

/-! ### one edge -/

/-- ONE EDGE: if τ maps the cube edge `s → s + e_k` to `τ s → τ s + e_k'`, then the edge map along `k'` applied to `τ g`
is the τ-image of the edge map along `k` applied to `g` — merge ↦ merge of the image circles, split ↦ split, and both
are undefined together.  (`edgeTerms` = the loop-free form of one pass of the loop of `Cube.d`, `Proofs/C06CycleDefs`;
`oddSupp` = targets of the terms with odd coefficient; `Perm`: the two new circles of a split may come in the other order) -/
theorem tau_edge_map_comm (F : Array Nat → Array Nat) (ic : ICube) (h : icubeWf' F ic = true) (p : Params) (g : Gen)
    (hs : g.s < 2 ^ ic.cube.n) (k : Nat) (hk : k < ic.cube.n) (k' : Nat)
    (hrel : ic.tst[g.s ||| 1 <<< k]! = ic.tst[g.s]! ||| 1 <<< k') :
    match edgeTerms ic.cube p g k with
    | none => edgeTerms ic.cube p (ic.tau g) k' = none
    | some ts => ∃ ts', edgeTerms ic.cube p (ic.tau g) k' = some ts' ∧ ((oddSupp ts).map ic.tau).Perm (oddSupp ts') :=
  edge_comm F ic h p g hs k hk k' hrel

/-- the image edge exists (clause (4)) -/
theorem tau_edge_exists (F : Array Nat → Array Nat) (ic : ICube) (h : icubeWf' F ic = true) (g : Gen)
    (hs : g.s < 2 ^ ic.cube.n) (k : Nat) (hk : k < ic.cube.n) (hb : g.s.testBit k = false) :
    ∃ k', k' < ic.cube.n ∧ (ic.tau g).s.testBit k' = false ∧ ic.tst[g.s ||| 1 <<< k]! = ic.tst[g.s]! ||| 1 <<< k' :=
  (wf'_spec F ic h g.s hs).edge k hk hb

/-! ### τ is a chain map -/

/-- `Cube.d` is undefined at `g` (some edge is neither a merge nor a split) iff it is undefined at `τ g` -/
theorem tau_d_defined_together (F : Array Nat → Array Nat) (ic : ICube) (h : icubeWf' F ic = true) (p : Params)
    (g : Gen) (hs : g.s < 2 ^ ic.cube.n) : ic.cube.d p g = none ↔ ic.cube.d p (ic.tau g) = none := by
  have := dList_comm F ic h p g hs
  rw [cube_d_list, cube_d_list]
  cases hd : dList ic.cube p g with
  | none =>
    rw [hd] at this
    simp only at this
    rw [this]
  | some ts =>
    rw [hd] at this
    obtain ⟨ts', e, _⟩ := this
    rw [e]
    simp

/-- τ IS A CHAIN MAP over 𝔽₂: the list of targets of `d (τ g)` is the τ-image of the list of targets of `d g`, up to the
order of the terms -/
theorem tau_chain_map (F : Array Nat → Array Nat) (ic : ICube) (h : icubeWf' F ic = true) (p : Params) (g : Gen)
    (hs : g.s < 2 ^ ic.cube.n) : ((dK ic.cube p g).map ic.tau).Perm (dK ic.cube p (ic.tau g)) :=
  dK_comm F ic h p g hs

/-- the same, coefficient by coefficient: every generator `y` occurs in `τ (d g)` as often as in `d (τ g)` -/
theorem tau_chain_map_count (F : Array Nat → Array Nat) (ic : ICube) (h : icubeWf' F ic = true) (p : Params) (g : Gen)
    (hs : g.s < 2 ^ ic.cube.n) (y : Gen) :
    ((dK ic.cube p g).map ic.tau).count y = (dK ic.cube p (ic.tau g)).count y :=
  (dK_comm F ic h p g hs).count_eq y

/-! ### the cone is a complex -/

/-- `D∘D = 0 (mod 2)` for the cone of `1 + τ` in the representation of `khiHomology`: if `d∘d = 0 (mod 2)` at `g`
(every generator occurs an even number of times in `d (d g)`), every cone generator `z` occurs an even number of times in
`D (D (Bg))` and in `D (D (Qg))`.  The driver's re-check `reduce2 ((reduce2 (dI x)).flatMap (reduce2 ∘ dI)) = ∅` says
exactly this (`reduce2` keeps the generators of odd multiplicity). -/
theorem icube_cone_is_complex (F : Array Nat → Array Nat) (ic : ICube) (h : icubeWf' F ic = true) (p : Params)
    (g : Gen) (hs : g.s < 2 ^ ic.cube.n)
    (hd : ∀ z, ((dK ic.cube p g).flatMap (dK ic.cube p)).count z % 2 = 0) (b : Bool) (z : IGen) :
    ((dI ic p (b, g)).flatMap (dI ic p)).count z % 2 = 0 :=
  cone_sq_even ic p g hd (dK_comm F ic h p g hs) b z

/-- without the chain-map property the cone is no complex: `D (D (Bg))` contains `Q y` exactly
`2·#(y in d g) + #(y in τ (d g)) + #(y in d (τ g))` times, whatever τ is -/
theorem cone_sq_Q_coefficient (ic : ICube) (p : Params) (g y : Gen) :
    ((dI ic p (false, g)).flatMap (dI ic p)).count (true, y) =
      2 * (dK ic.cube p g).count y + ((dK ic.cube p g).map ic.tau).count y + (dK ic.cube p (ic.tau g)).count y := by
  simp only [dI, List.flatMap_append, List.count_append, count_B_part, List.flatMap_cons, List.flatMap_nil,
    List.append_nil, count_map_pair]
  simp only [Bool.true_eq_false, if_false, if_true]
  omega

/-- THE SAME THROUGH `cone_d_sq`: for a duplicate-free list `gens` of generators closed under `d` and `τ`, over any
commutative ring of characteristic 2 (e.g. `ZMod 2`) the matrices `dMat`, `tauMat` of `d` and `τ` satisfy
`τ·d = d·τ`, and if `d·d = 0 (mod 2)` the cone matrix `[[d, 0], [1 + τ, d]]` squares to zero -/
theorem icube_cone_matrix_sq_zero {R : Type} [CommRing R] [CharP R 2] (F : Array Nat → Array Nat) (ic : ICube)
    (h : icubeWf' F ic = true) (p : Params) (gens : List Gen) (hnd : gens.Nodup)
    (hN : ∀ g ∈ gens, g.s < 2 ^ ic.cube.n)
    (hcl : ∀ g ∈ gens, ∀ y ∈ dK ic.cube p g, y ∈ gens) (htau : ∀ g ∈ gens, ic.tau g ∈ gens)
    (hd : ∀ g ∈ gens, ∀ z, ((dK ic.cube p g).flatMap (dK ic.cube p)).count z % 2 = 0) :
    tauMat R ic gens * dMat R ic.cube p gens = dMat R ic.cube p gens * tauMat R ic gens ∧
    (fromBlocks (dMat R ic.cube p gens) 0 (1 + tauMat R ic gens) (dMat R ic.cube p gens)) *
      (fromBlocks (dMat R ic.cube p gens) 0 (1 + tauMat R ic gens) (dMat R ic.cube p gens)) = 0 := by
  have hcomm : tauMat R ic gens * dMat R ic.cube p gens = dMat R ic.cube p gens * tauMat R ic gens := by
    ext i j
    rw [tauMat_mul_dMat ic p gens hnd hcl, dMat_mul_tauMat ic p gens hnd htau,
      (dK_comm F ic h p (gens.get j) (hN _ (List.get_mem _ _))).count_eq]
  have hdd : dMat R ic.cube p gens * dMat R ic.cube p gens = 0 := by
    ext i j
    rw [dMat_mul_dMat ic.cube p gens hnd hcl, Matrix.zero_apply, CharP.cast_eq_zero_iff R 2]
    exact Nat.dvd_of_mod_eq_zero (hd _ (List.get_mem _ _) _)
  exact ⟨hcomm, (Yuiv.C19.cone_d_sq _ _ hdd).2 hcomm⟩

/-! ### non-vacuity: the strongly invertible trefoil `3_1`, and a cube where `icubeWf` alone is not enough -/

set_option maxRecDepth 4000

/-- the reference cube of the trefoil (`tref` = PD `[[1,5,2,4],[3,1,4,6],[5,3,6,2]]` with `sinvEMap 6`, base point `1`) as
`mkICube` computes it, for all `h`, `t`, unreduced and reduced, passes the strengthened check with `F` = sorted image
under the label involution -/
example (h t : Int) (red : Bool) :
    mkICube tref ⟨h, t, red⟩ = some (trefIC red) ∧ icubeWf' (circImg tref.invE) (trefIC red) = true :=
  ⟨tref_icube h t red, by cases red <;> decide +kernel⟩

/-- both sides of `tau_chain_map` on the generator `1` at the state `001` (`h = t = 1`, unreduced): τ exchanges the states
`101` and `110`; four terms each -/
example :
    let ic := trefIC false
    let p : Params := ⟨1, 1, false⟩
    ic.tau ⟨1, 1⟩ = ⟨2, 1⟩ ∧
    (dK ic.cube p ⟨1, 1⟩).map ic.tau = [⟨3, 3⟩, ⟨3, 0⟩, ⟨6, 3⟩, ⟨6, 0⟩] ∧
    dK ic.cube p (ic.tau ⟨1, 1⟩) = [⟨3, 3⟩, ⟨3, 0⟩, ⟨6, 3⟩, ⟨6, 0⟩] := by
  decide +kernel

/-- reduced theory, `h = t = 0`, a split edge into the state `111` where τ exchanges the circles `{2,5}` and `{3,6}` -/
example :
    let ic := trefIC true
    let p : Params := ⟨0, 0, true⟩
    ic.tau ⟨5, 1⟩ = ⟨6, 1⟩ ∧
    dK ic.cube p ⟨5, 1⟩ = [⟨7, 5⟩] ∧ (dK ic.cube p ⟨5, 1⟩).map ic.tau = [⟨7, 3⟩] ∧
    dK ic.cube p (ic.tau ⟨5, 1⟩) = [⟨7, 3⟩] := by
  decide +kernel

/-- `icube_cone_is_complex` at a generator of the trefoil cube: its hypothesis `d∘d = 0 (mod 2)` holds there -/
example (b : Bool) (z : IGen) :
    ((dI (trefIC false) ⟨1, 1, false⟩ (b, ⟨0, 1⟩)).flatMap (dI (trefIC false) ⟨1, 1, false⟩)).count z % 2 = 0 := by
  apply icube_cone_is_complex (circImg tref.invE) (trefIC false) (by decide +kernel) ⟨1, 1, false⟩ ⟨0, 1⟩ (by decide)
  intro z
  by_cases hz : z ∈ (dK (trefIC false).cube ⟨1, 1, false⟩ ⟨0, 1⟩).flatMap (dK (trefIC false).cube ⟨1, 1, false⟩)
  · revert z
    decide +kernel
  · rw [List.count_eq_zero.2 hz]

/-- the hypotheses of `icube_cone_matrix_sq_zero` hold for the list of all 30 generators of the trefoil cube (`h = t = 1`),
so the cone matrix over any commutative ring of characteristic 2 squares to zero -/
example {R : Type} [CommRing R] [CharP R 2] :
    let ic := trefIC false
    let p : Params := ⟨1, 1, false⟩
    let gens := allGens ic.cube
    gens.length = 30 ∧
    (fromBlocks (dMat R ic.cube p gens) 0 (1 + tauMat R ic gens) (dMat R ic.cube p gens)) *
      (fromBlocks (dMat R ic.cube p gens) 0 (1 + tauMat R ic gens) (dMat R ic.cube p gens)) = 0 := by
  intro ic p gens
  refine ⟨by decide +kernel, ?_⟩
  refine (icube_cone_matrix_sq_zero (circImg tref.invE) ic (by decide +kernel) p gens (by decide +kernel)
    (by decide +kernel) (by decide +kernel) (by decide +kernel) ?_).2
  intro g hg z
  by_cases hz : z ∈ (dK ic.cube p g).flatMap (dK ic.cube p)
  · have hcl : ∀ g ∈ gens, ∀ y ∈ dK ic.cube p g, y ∈ gens := by decide +kernel
    have hzg : z ∈ gens := by
      obtain ⟨y, hy, hz'⟩ := List.mem_flatMap.1 hz
      exact hcl y (hcl g hg y hy) z hz'
    have hall : ∀ g ∈ gens, ∀ z ∈ gens, ((dK ic.cube p g).flatMap (dK ic.cube p)).count z % 2 = 0 := by
      decide +kernel
    exact hall g hg z hzg
  · rw [List.count_eq_zero.2 hz]

/-- `icubeWf` ALONE IS NOT ENOUGH: on `badIC` (one crossing; state `0` has the circles `{1},{2},{3}`, state `1` the circles
`{1,2},{3}`; τ fixes both states but exchanges the circles `{2}` and `{3}` of the state `0`) `icubeWf` holds, no `F` passes
`icubeWf'`, τ is NOT a chain map (`τ (d g) = [⟨1,1⟩]`, `d (τ g) = [⟨1,2⟩]` for `g = 1⊗X⊗1`), and the cone is no complex
(`Q⟨1,1⟩` occurs three times in `D (D (Bg))`) -/
example :
    icubeWf badIC = true ∧ (∀ F, icubeWf' F badIC = false) ∧
    (dK badIC.cube ⟨0, 0, false⟩ ⟨0, 2⟩).map badIC.tau = [⟨1, 1⟩] ∧
    dK badIC.cube ⟨0, 0, false⟩ (badIC.tau ⟨0, 2⟩) = [⟨1, 2⟩] ∧
    ((dI badIC ⟨0, 0, false⟩ (false, ⟨0, 2⟩)).flatMap (dI badIC ⟨0, 0, false⟩)).count (true, ⟨1, 1⟩) = 3 := by
  refine ⟨by decide +kernel, ?_, by decide +kernel, by decide +kernel, by decide +kernel⟩
  intro F
  cases hF : icubeWf' F badIC with
  | false => rfl
  | true =>
    have h0 := (wf'_spec F badIC hF 0 (by decide)).img 2 (by decide)
    have h1 := (wf'_spec F badIC hF 1 (by decide)).img 1 (by decide)
    have e0 : (badIC.cube.circ[badIC.tst[0]!]!)[(badIC.tlab[0]!)[2]!]! = #[2] := by decide +kernel
    have e1 : (badIC.cube.circ[badIC.tst[1]!]!)[(badIC.tlab[1]!)[1]!]! = #[3] := by decide +kernel
    have a0 : (badIC.cube.circ[0]!)[2]! = #[3] := by decide +kernel
    have a1 : (badIC.cube.circ[1]!)[1]! = #[3] := by decide +kernel
    rw [e0, a0] at h0
    rw [e1, a1, ← h0] at h1
    exact absurd h1 (by decide)

end Yuiv.C19Comm
