import Yuiv.Proofs.C15Gen
/-
C15 — the hand-written model of the integer side of the Euclidean-domain code (`Yuiv/Model/C15.lean`: `zDivRound`,
`zIsUnit`, `zInv`, `zNormUnit` and the generic `EucOps.{divides, gcd, gcdx, lcm}` at `intOps`) IS the source text of
`/repo/yui/src/misc/int_ext.rs` and of the default methods of `trait EucRing` in `/repo/yui/src/abst/euc_ring.rs`, read
with `Self := Int`.

`Yuiv.GenIntExt.*` (file `Yuiv/Gen/IntExtFn.lean`) is regenerated from the two Rust sources by
`tools/rs2lean_fn.py fn:intext` on every `./check` run.  Each theorem states, for ALL arguments, that a generated
definition equals the model's function, including panics (zero divisor, `lcm(0, 0)`) and fuel exhaustion (`err`).
The generated `while` loops take their fuel as an argument and spend one unit on the final `!y.is_zero()` test, the
model's loops do not: `fuel = norm y + 2` on the generated side corresponds to the model's `norm y + 1`.
The theorems `gen_int_*` also show that the integer impls of `impl_integer!` (for i32, i64, i128, BigInt) are the
functions `RInt.is_unit / inv / normalizing_unit` that `Yuiv/Model/RustRing.lean` ASSUMES for the type parameter of
`Ratio<T>` (C14Gen) — that part of the prelude is thereby derived from source text, not trusted.

Property theorems only; helpers are in `Yuiv/Proofs/C15Gen.lean`.
-/
set_option linter.unusedSimpArgs false
namespace Yuiv.C15Gen
open Yuiv Res Yuiv.Rust Yuiv.GenIntExt

/-! ### `impl_integer!` (int_ext.rs), all four instances -/

theorem gen_int_is_unit_eq (a : Int) :
    i32.Ring.is_unit a = C15.zIsUnit a ∧ i64.Ring.is_unit a = C15.zIsUnit a ∧ i128.Ring.is_unit a = C15.zIsUnit a ∧
    BigInt.Ring.is_unit a = C15.zIsUnit a ∧ RInt.is_unit a = C15.zIsUnit a := ⟨rfl, rfl, rfl, rfl, rfl⟩

theorem gen_int_inv_eq (a : Int) :
    i32.Ring.inv a = C15.zInv a ∧ i64.Ring.inv a = C15.zInv a ∧ i128.Ring.inv a = C15.zInv a ∧
    BigInt.Ring.inv a = C15.zInv a ∧ RInt.inv a = C15.zInv a := ⟨rfl, rfl, rfl, rfl, rfl⟩

theorem gen_int_normalizing_unit_eq (a : Int) :
    i32.Ring.normalizing_unit a = C15.zNormUnit a ∧ i64.Ring.normalizing_unit a = C15.zNormUnit a ∧
    i128.Ring.normalizing_unit a = C15.zNormUnit a ∧ BigInt.Ring.normalizing_unit a = C15.zNormUnit a ∧
    RInt.normalizing_unit a = C15.zNormUnit a := ⟨rfl, rfl, rfl, rfl, rfl⟩

/-! ### `DivRound for T: Integer` (int_ext.rs) -/

theorem gen_div_round_eq (a b : Int) : DivRound.div_round a b = C15.zDivRound a b := by
  unfold DivRound.div_round C15.zDivRound C15.zDivRoundT
  by_cases h : b = 0
  · simp [h, div_zero]
  · simp only [h, div_ne a b h, rem_ne a b h, bind_ok, if_false]
    simp [C15.nabs, RInt.is_positive, RInt.is_negative]

/-! ### default methods of `trait EucRing` (euc_ring.rs) at `Self := Int` -/

theorem gen_divides_eq (x y : Int) : EucRing.divides x y = ok (C15.intOps.divides x y) := divides_eq x y

theorem gen_gcd_eq (x y : Int) : EucRing.gcd (C15.intOps.norm y + 2) x y = C15.intOps.gcd x y := by
  unfold EucRing.gcd C15.EucOps.gcd
  simp only [divides_eq, bind_ok, gcd_loop_eq, normalized_eq]
  by_cases h0 : x = 0 ∧ y = 0
  · simp [h0, RInt.is_zero, C15.intOps]
  · have h0' : ¬ (C15.intOps.isZero x = true ∧ C15.intOps.isZero y = true) := by simpa [C15.intOps] using h0
    have h0'' : ¬ (x = 0 ∧ y = 0) := h0
    simp only [RInt.is_zero, Bool.and_eq_true, decide_eq_true_eq, h0'', h0', if_false]
    cases C15.intOps.divides x y
    · cases C15.intOps.divides y x
      · cases hl : C15.intOps.gcdLoop (C15.intOps.norm y + 1) x y <;> simp [hl, ofOpt]
      · simp
    · simp

theorem gen_gcdx_eq (x y : Int) : EucRing.gcdx (C15.intOps.norm y + 2) x y = C15.intOps.gcdx x y := by
  unfold EucRing.gcdx C15.EucOps.gcdx
  simp only [divides_eq, bind_ok]
  by_cases h0 : x = 0 ∧ y = 0
  · simp [h0, RInt.is_zero, C15.intOps]
  · have h0' : ¬ (C15.intOps.isZero x = true ∧ C15.intOps.isZero y = true) := by simpa [C15.intOps] using h0
    have h0'' : ¬ (x = 0 ∧ y = 0) := h0
    simp only [RInt.is_zero, Bool.and_eq_true, decide_eq_true_eq, h0'', h0', if_false]
    cases C15.intOps.divides x y
    · cases C15.intOps.divides y x
      · have hl := gcdx_loop_eq (C15.intOps.norm y + 1) x y 1 0 0 1
        have e1 : C15.intOps.one = 1 := rfl
        have e0 : C15.intOps.zero = 0 := rfl
        rw [e1, e0]
        cases hg : EucRing.gcdx_loop1 (C15.intOps.norm y + 1 + 1) x y 1 0 0 1 with
        | ok r =>
          obtain ⟨a, b, c, d, e, f⟩ := r
          rw [hg] at hl
          cases hm : C15.intOps.gcdxLoop (C15.intOps.norm y + 1) x y 1 0 0 1 with
          | none => rw [hm] at hl; simp [ofOpt] at hl
          | some t =>
            obtain ⟨d', s', t'⟩ := t
            rw [hm] at hl
            simp [ofOpt] at hl
            obtain ⟨rfl, rfl, rfl⟩ := hl
            have hh : C15.intOps.norm y + 2 = C15.intOps.norm y + 1 + 1 := rfl
            simp [hh, hg, C15.intOps, RInt.normalizing_unit, RInt.is_one, RInt.is_negative, C15.zNormUnit] <;>
              (split <;> rfl)
        | panic =>
          rw [hg] at hl
          cases hm : C15.intOps.gcdxLoop (C15.intOps.norm y + 1) x y 1 0 0 1 <;> rw [hm] at hl <;> simp [ofOpt] at hl
        | err =>
          rw [hg] at hl
          cases hm : C15.intOps.gcdxLoop (C15.intOps.norm y + 1) x y 1 0 0 1 with
          | none =>
            have hh : C15.intOps.norm y + 2 = C15.intOps.norm y + 1 + 1 := rfl
            simp [hh, hg]
          | some t => rw [hm] at hl; simp [ofOpt] at hl
      · simp [C15.intOps, RInt.normalizing_unit, RInt.is_negative, C15.zNormUnit]
    · simp [C15.intOps, RInt.normalizing_unit, RInt.is_negative, C15.zNormUnit]

theorem gen_lcm_eq (x y : Int) : EucRing.lcm (C15.intOps.norm y + 2) x y = C15.intOps.lcm x y := by
  unfold EucRing.lcm C15.EucOps.lcm
  rw [gen_gcd_eq]
  cases hg : C15.intOps.gcd x y with
  | ok g =>
    by_cases h : g = 0
    · simp [h, div_zero, C15.intOps]
    · have h' : (g == 0) = false := by simpa using h
      simp [h, h', div_ne y g h, normalized_eq, C15.intOps]
  | panic => rfl
  | err => rfl

/-! ### the statements are not vacuous -/

example : DivRound.div_round 13 5 = ok 3 := by rw [gen_div_round_eq]; decide
example : DivRound.div_round (-5) 2 = ok (-3) := by rw [gen_div_round_eq]; decide
example : DivRound.div_round 1 0 = .panic := by rw [gen_div_round_eq]; decide
example : EucRing.gcd (C15.intOps.norm 46 + 2) 240 46 = ok 2 := by rw [gen_gcd_eq]; decide
example : EucRing.lcm (C15.intOps.norm 0 + 2) 0 0 = .panic := by rw [gen_lcm_eq]; decide

end Yuiv.C15Gen
