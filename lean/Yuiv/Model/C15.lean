import Yuiv.Model.Res
/-
C15 — code model of the Euclidean-domain operations of `yui`
(`abst/euc_ring.rs`, `abst/ring.rs`, `misc/int_ext.rs`, `types/qint.rs`, `types/ratio.rs`, `types/ff.rs`,
`types/poly/poly.rs`, `types/poly/h_poly.rs`).

Import-free.  Integers are unbounded (`Int`): the model describes `BigInt` exactly and the machine types
`i32/i64/i128` on every input whose intermediates are representable (the harness keeps to those, and
reports separately where the real code panics although the result is representable).

Division by zero panics in every ring of the library (`/`, `%` on integers panic, the field types
`assert!(!rhs.is_zero())`, the quadratic rings divide integers by the norm `0`, `Poly::div_rem` divides
the leading coefficients).  The *total* functions `…T` below are the bodies for a non-zero divisor; the
Rust-level operators are `EucOps.divR/remR` which panic first.  The generic `EucRing` functions call `/`
and `%` only behind an `!is_zero()` test (in `divides`, and in the `while !y.is_zero()` loops), so they are
written with the total bodies.
-/
namespace Yuiv.C15
open Yuiv

/-! ## integers (`int_ext.rs`) -/

/-- `Signed::abs` -/
def iabs (a : Int) : Int := if a < 0 then -a else a

/-- Rust `a / b` on integers truncates towards zero (= `Int.tdiv`), `a % b` has the sign of `a` (= `Int.tmod`). -/
def zDivT (a b : Int) : Int := a.tdiv b
def zRemT (a b : Int) : Int := a.tmod b

/-- negated magnitude `-|x|`: `if x.is_positive() { -x } else { x }` (never overflows on machine integers) -/
def nabs (x : Int) : Int := if x > 0 then -x else x

/-- `DivRound::div_round` (exact version, after fix F2):
```
let quo = a / b; let rem = a % b;
let nr = if rem.is_positive() { -rem } else { rem };
let nb = if b.is_positive() { -b } else { b.clone() };
if nr <= &nb - &nr { if a.is_negative() == b.is_negative() { quo + 1 } else { quo - 1 } } else { quo }
``` -/
def zDivRoundT (a b : Int) : Int :=
  let quo := zDivT a b
  let rem := zRemT a b
  let nr := nabs rem
  let nb := nabs b
  if nr ≤ nb - nr then
    if (decide (a < 0)) == (decide (b < 0)) then quo + 1 else quo - 1
  else quo

def zDiv (a b : Int) : Res Int := if b = 0 then .panic else .ok (zDivT a b)
def zRem (a b : Int) : Res Int := if b = 0 then .panic else .ok (zRemT a b)
def zDivRound (a b : Int) : Res Int := if b = 0 then .panic else .ok (zDivRoundT a b)

/-- `is_unit`: `self.is_one() || (-self).is_one()` -/
def zIsUnit (a : Int) : Bool := a == 1 || -a == 1
/-- `inv`: `if self.is_unit() { Some(self.clone()) } else { None }` -/
def zInv (a : Int) : Option Int := if zIsUnit a then some a else none
/-- `normalizing_unit`: `if !self.is_negative() { 1 } else { -1 }` -/
def zNormUnit (a : Int) : Int := if !(decide (a < 0)) then 1 else -1

/-- integers use `num_integer` for `gcd`/`lcm` (trusted; compared with `Int.gcd`/`Int.lcm` by the run) -/
def zGcd (a b : Int) : Int := (Int.gcd a b : Nat)
def zLcm (a b : Int) : Int := (Int.lcm a b : Nat)

/-! ## generic Euclidean ring (`ring.rs`, `euc_ring.rs`) -/

/-- the operations of a Rust type implementing `EucRing` that the generic code uses.
`div`/`rem` are the bodies of `/`, `%` for a non-zero divisor; `norm` is a Euclidean size that the model
uses only as fuel for the `while` loops. -/
structure EucOps (α : Type) where
  zero : α
  one : α
  isZero : α → Bool
  isOne : α → Bool
  add : α → α → α
  sub : α → α → α
  mul : α → α → α
  div : α → α → α
  rem : α → α → α
  normUnit : α → α
  isUnit : α → Bool
  inv : α → Option α
  norm : α → Nat

namespace EucOps
variable {α : Type} (E : EucOps α)

/-- Rust-level `/` and `%` -/
def divR (a b : α) : Res α := if E.isZero b then .panic else .ok (E.div a b)
def remR (a b : α) : Res α := if E.isZero b then .panic else .ok (E.rem a b)

/-- `Ring::into_normalized`: `let u = self.normalizing_unit(); if u.is_one() { self } else { self * u }` -/
def normalized (x : α) : α :=
  let u := E.normUnit x
  if E.isOne u then x else E.mul x u

/-- `EucRing::divides`: `!self.is_zero() && (y % self).is_zero()` -/
def divides (x y : α) : Bool := !E.isZero x && E.isZero (E.rem y x)

/-- `while !y.is_zero() { let r = &x % &y; (x, y) = (y, r); }`, returns the final `x` -/
def gcdLoop : Nat → α → α → Option α
  | fuel, x, y =>
    if E.isZero y then some x else
      match fuel with
      | 0 => none
      | f + 1 => gcdLoop f y (E.rem x y)

/-- `EucRing::gcd` (default body) -/
def gcd (x y : α) : Res α :=
  if E.isZero x && E.isZero y then .ok E.zero
  else if E.divides x y then .ok (E.normalized x)
  else if E.divides y x then .ok (E.normalized y)
  else match E.gcdLoop (E.norm y + 1) x y with
    | some d => .ok (E.normalized d)
    | none => .err

/-- the loop of `gcdx`; state `(x, y, s0, s1, t0, t1)`, returns the final `(x, s0, t0)` -/
def gcdxLoop : Nat → α → α → α → α → α → α → Option (α × α × α)
  | fuel, x, y, s0, s1, t0, t1 =>
    if E.isZero y then some (x, s0, t0) else
      match fuel with
      | 0 => none
      | f + 1 =>
        let q := E.div x y
        let r := E.rem x y
        gcdxLoop f y r s1 (E.sub s0 (E.mul q s1)) t1 (E.sub t0 (E.mul q t1))

/-- `EucRing::gcdx` (default body) -/
def gcdx (x y : α) : Res (α × α × α) :=
  if E.isZero x && E.isZero y then .ok (E.zero, E.zero, E.zero)
  else if E.divides x y then
    let u := E.normUnit x
    .ok (E.mul x u, u, E.zero)
  else if E.divides y x then
    let u := E.normUnit y
    .ok (E.mul y u, E.zero, u)
  else match E.gcdxLoop (E.norm y + 1) x y E.one E.zero E.zero E.one with
    | some (d, s, t) =>
      let u := E.normUnit d
      if E.isOne u then .ok (d, s, t) else .ok (E.mul d u, E.mul s u, E.mul t u)
    | none => .err

/-- `EucRing::lcm` (default body): `let g = gcd(x, y); (x * (y / g)).into_normalized()`;
`g = 0` (only for `x = y = 0`) makes the division panic -/
def lcm (x y : α) : Res α :=
  match E.gcd x y with
  | .ok g => if E.isZero g then .panic else .ok (E.normalized (E.mul x (E.div y g)))
  | .panic => .panic
  | .err => .err

end EucOps

/-! ## quadratic integers (`qint.rs`), `D = -1` (Gauss) and `D = -3` (Eisenstein, `ω = (1+√-3)/2`) -/

structure QInt where
  a : Int
  b : Int
deriving DecidableEq, Repr, Inhabited

namespace QInt

def zero : QInt := ⟨0, 0⟩
def one : QInt := ⟨1, 0⟩
/-- `QuadInt::omega()` -/
def omega : QInt := ⟨0, 1⟩
def isZero (x : QInt) : Bool := x.a == 0 && x.b == 0
def isOne (x : QInt) : Bool := x.a == 1 && x.b == 0
def add (x y : QInt) : QInt := ⟨x.a + y.a, x.b + y.b⟩
def sub (x y : QInt) : QInt := ⟨x.a - y.a, x.b - y.b⟩
def neg (x : QInt) : QInt := ⟨-x.a, -x.b⟩

/-! ### Gaussian integers -/

/-- `(a + bi)(c + di) = (ac + bd·D) + (ad + bc) i`, `D = -1` -/
def gMul (x y : QInt) : QInt := ⟨x.a * y.a + x.b * y.b * (-1), x.a * y.b + x.b * y.a⟩
/-- `conj`, `D ≡ 3 (mod 4)`: `(a, -b)` -/
def gConj (x : QInt) : QInt := ⟨x.a, -x.b⟩
/-- `norm`, `D = -1`: `a*a - b*b*D` -/
def gNorm (x : QInt) : Int := x.a * x.a - x.b * x.b * (-1)

/-- `DivRound for GaussInt`: `w = self * conj(rhs)`, coordinates `div_round`ed by `norm(rhs)` -/
def gDivRound (x y : QInt) : QInt :=
  let norm := gNorm y
  let w := gMul x (gConj y)
  ⟨zDivRoundT w.a norm, zDivRoundT w.b norm⟩
/-- `Div`: `self.div_round(rhs)` -/
def gDiv (x y : QInt) : QInt := gDivRound x y
/-- `Rem`: `let q = self / rhs; self - rhs * q` -/
def gRem (x y : QInt) : QInt := sub x (gMul y (gDiv x y))

/-- `is_unit`: `self.norm().is_unit()` -/
def gIsUnit (x : QInt) : Bool := zIsUnit (gNorm x)
/-- `inv`: `norm().inv().map(|u| Self::from(u) * self.conj())` -/
def gInv (x : QInt) : Option QInt :=
  match zInv (gNorm x) with
  | some u => some (gMul ⟨u, 0⟩ (gConj x))
  | none => none

/-- `normalizing_unit`, `D = -1` (quadrant table) -/
def gNormUnit (x : QInt) : QInt :=
  let a := x.a; let b := x.b
  if a > 0 && !(b < 0) then one
  else if !(a > 0) && b > 0 then neg omega
  else if a < 0 && !(b > 0) then neg one
  else if !(a < 0) && b < 0 then omega
  else one

/-! ### Eisenstein integers -/

/-- `D = -3`: `e = (D-1)/4 = -1`; `(ac + bd·e) + (ad + bc + bd) ω` -/
def eMul (x y : QInt) : QInt :=
  ⟨x.a * y.a + x.b * y.b * (-1), x.a * y.b + x.b * y.a + x.b * y.b⟩
/-- `conj`, `D ≡ 1 (mod 4)`: `(a + b, -b)` -/
def eConj (x : QInt) : QInt := ⟨x.a + x.b, -x.b⟩
/-- `norm`, `D = -3`: `a*a + a*b + b*b*((1-D)/4)` -/
def eNorm (x : QInt) : Int := x.a * x.a + x.a * x.b + x.b * x.b * 1

/-- `DivRound for EisenInt`: `(m, n) = ((x+y).div_round(N), y.div_round(N))`, result `(m - n) + n ω` -/
def eDivRound (x y : QInt) : QInt :=
  let norm := eNorm y
  let w := eMul x (eConj y)
  let m := zDivRoundT (w.a + w.b) norm
  let n := zDivRoundT w.b norm
  ⟨m - n, n⟩
def eDiv (x y : QInt) : QInt := eDivRound x y
def eRem (x y : QInt) : QInt := sub x (eMul y (eDiv x y))

def eIsUnit (x : QInt) : Bool := zIsUnit (eNorm x)
def eInv (x : QInt) : Option QInt :=
  match zInv (eNorm x) with
  | some u => some (eMul ⟨u, 0⟩ (eConj x))
  | none => none

/-- `normalizing_unit`, `D = -3` (sextant table) -/
def eNormUnit (x : QInt) : QInt :=
  let a := x.a; let b := x.b
  let c := a + b
  if a > 0 && !(b < 0) then one
  else if !(a > 0) && c > 0 then ⟨1, -1⟩
  else if !(c > 0) && b > 0 then neg omega
  else if a < 0 && !(b > 0) then neg one
  else if !(a < 0) && c < 0 then ⟨-1, 1⟩
  else if !(c < 0) && b < 0 then omega
  else one

end QInt

open QInt in
def gaussOps : EucOps QInt where
  zero := zero
  one := one
  isZero := isZero
  isOne := isOne
  add := add
  sub := sub
  mul := gMul
  div := gDiv
  rem := gRem
  normUnit := gNormUnit
  isUnit := gIsUnit
  inv := gInv
  norm := fun x => (gNorm x).toNat

open QInt in
def eisenOps : EucOps QInt where
  zero := zero
  one := one
  isZero := isZero
  isOne := isOne
  add := add
  sub := sub
  mul := eMul
  div := eDiv
  rem := eRem
  normUnit := eNormUnit
  isUnit := eIsUnit
  inv := eInv
  norm := fun x => (eNorm x).toNat

/-- `Z` as an `EucOps` (for `divides`, `normalized`; `gcd/gcdx/lcm` of the integer types are overridden
with `num_integer`'s) -/
def intOps : EucOps Int where
  zero := 0
  one := 1
  isZero := fun a => a == 0
  isOne := fun a => a == 1
  add := (· + ·)
  sub := (· - ·)
  mul := (· * ·)
  div := zDivT
  rem := zRemT
  normUnit := zNormUnit
  isUnit := zIsUnit
  inv := zInv
  norm := Int.natAbs

/-! ## fields -/

/-- `Ratio<T>` over an integer type in canonical form: `den > 0`, `gcd(num, den) = 1`, zero is `0/1`
(the form `Ratio::new → reduce` produces).  Only the field-level behaviour is modelled here (the
branch structure of `Ratio`'s arithmetic belongs to C14). -/
structure Q where
  num : Int
  den : Int
deriving DecidableEq, Repr, Inhabited

namespace Q
/-- `Ratio::new(n, d)` (`d ≠ 0`) -/
def make (n d : Int) : Q :=
  if n == 0 then ⟨0, 1⟩ else
    let s : Int := if d < 0 then -1 else 1
    let g : Int := (Int.gcd n d : Nat)
    ⟨(n * s).tdiv g, (d * s).tdiv g⟩
def zero : Q := ⟨0, 1⟩
def one : Q := ⟨1, 1⟩
def isZero (x : Q) : Bool := x.num == 0
/-- `is_one`: `numer == denom` -/
def isOne (x : Q) : Bool := x.num == x.den
def add (x y : Q) : Q := make (x.num * y.den + y.num * x.den) (x.den * y.den)
def sub (x y : Q) : Q := make (x.num * y.den - y.num * x.den) (x.den * y.den)
def mul (x y : Q) : Q := make (x.num * y.num) (x.den * y.den)
/-- `inv`: `None` for zero, else `Ratio::new(denom, numer)` -/
def inv (x : Q) : Option Q := if isZero x then none else some (make x.den x.num)
/-- `div_assign`: `*self *= rhs.inv().unwrap()` (non-zero divisor) -/
def div (x y : Q) : Q := match inv y with | some i => mul x i | none => zero
/-- `Rem`: always zero -/
def rem (_x _y : Q) : Q := zero
def isUnit (x : Q) : Bool := !isZero x
/-- `normalizing_unit`: `1` for zero, else the inverse -/
def normUnit (x : Q) : Q := match inv x with | some i => i | none => one
end Q

def ratOps : EucOps Q where
  zero := Q.zero
  one := Q.one
  isZero := Q.isZero
  isOne := Q.isOne
  add := Q.add
  sub := Q.sub
  mul := Q.mul
  div := Q.div
  rem := Q.rem
  normUnit := Q.normUnit
  isUnit := Q.isUnit
  inv := Q.inv
  norm := fun x => if Q.isZero x then 0 else 1

/-! `FF<p>`: representative in `0..p` (`rem_euclid`) -/
namespace FF
def mk (p : Nat) (a : Int) : Nat := (a.emod (p : Int)).toNat
def add (p a b : Nat) : Nat := (a + b) % p
def sub (p a b : Nat) : Nat := mk p ((a : Int) - (b : Int))
def mul (p a b : Nat) : Nat := (a * b) % p
/-- `inv`: `None` for zero; else `x` with `a x + p y = 1` from the integers' `gcdx`, reduced mod `p`
(unique; found here by search).  `assert!(d.is_one())` cannot fail for prime `p`; for a non-unit the model
gives `none` as well. -/
def inv (p a : Nat) : Option Nat :=
  if a == 0 then none else (List.range p).find? (fun x => (a * x) % p == 1 % p)
def div (p a b : Nat) : Nat := match inv p b with | some i => mul p a i | none => 0
def normUnit (p a : Nat) : Nat := match inv p a with | some i => i | none => 1 % p
end FF

def ffOps (p : Nat) : EucOps Nat where
  zero := 0
  one := 1 % p
  isZero := fun a => a == 0
  isOne := fun a => a == 1
  add := FF.add p
  sub := FF.sub p
  mul := FF.mul p
  div := FF.div p
  rem := fun _ _ => 0
  normUnit := FF.normUnit p
  isUnit := fun a => !(a == 0)
  inv := FF.inv p
  norm := fun a => if a == 0 then 0 else 1

/-! ## univariate polynomials over a field (`poly.rs`) — coefficient lists, little endian, no trailing zero -/

namespace Poly
variable {F : Type} (E : EucOps F)

def trim (f : List F) : List F :=
  (f.reverse.dropWhile E.isZero).reverse

/-- `lead_deg` (`0` for the zero polynomial) -/
def deg (f : List F) : Nat := f.length - 1
/-- `lead_coeff` (`0` for the zero polynomial) -/
def lead (f : List F) : F := f.getLast?.getD E.zero

def zipLong (op : F → F → F) : List F → List F → List F
  | [], g => g.map (fun y => op E.zero y)
  | f, [] => f.map (fun x => op x E.zero)
  | x :: f, y :: g => op x y :: zipLong op f g

def add (f g : List F) : List F := trim E (zipLong E E.add f g)
def sub (f g : List F) : List F := trim E (zipLong E E.sub f g)
def scale (c : F) (f : List F) : List F := trim E (f.map (fun x => E.mul c x))
def mul : List F → List F → List F
  | [], _ => []
  | x :: f, g => add E (scale E x g) (match mul f g with | [] => [] | h => E.zero :: h)
/-- `Poly::from((x^k, c))` -/
def mono (k : Nat) (c : F) : List F := if E.isZero c then [] else List.replicate k E.zero ++ [c]

/-- the closure `iter` inside `Poly::div_rem` (for `g ≠ 0`) -/
def divIter (f g : List F) : List F × List F :=
  if deg f < deg g then ([], f) else
    let k := deg f - deg g
    let c := E.div (lead E f) (lead E g)
    let q := mono E k c
    (q, sub E f (mul E q g))

/-- `for _ in j ..= i { let (q1, r1) = iter(r, rhs); q += q1; r = r1 }` -/
def divLoop (g : List F) : Nat → List F → List F → List F × List F
  | 0, q, r => (q, r)
  | n + 1, q, r =>
    let (q1, r1) := divIter E r g
    divLoop g n (add E q q1) r1

/-- `Poly::div_rem` for `g ≠ 0` -/
def divRem (f g : List F) : List F × List F :=
  let i := deg f
  let j := deg g
  divLoop E g (if j ≤ i then i - j + 1 else 0) [] f

def isOne (f : List F) : Bool := match f with | [c] => E.isOne c | _ => false
/-- number of terms -/
def nterms (f : List F) : Nat := (f.filter (fun x => !E.isZero x)).length
/-- `is_unit`: one term `a x^i` with `i = 0` and `a` a unit -/
def isUnit (f : List F) : Bool := match f with | [c] => !E.isZero c && E.isUnit c | _ => false
/-- `inv`: `None` unless one term; `x.inv()?`; `a.inv()?` -/
def inv (f : List F) : Option (List F) :=
  match f with
  | [c] => if E.isZero c then none else match E.inv c with | some i => some (trim E [i]) | none => none
  | _ => none
/-- `normalizing_unit`: `from_const(lead_coeff().normalizing_unit())` -/
def normUnit (f : List F) : List F := trim E [E.normUnit (lead E f)]
end Poly

def polyOps {F : Type} (E : EucOps F) : EucOps (List F) where
  zero := []
  one := Poly.trim E [E.one]
  isZero := fun f => f.isEmpty
  isOne := Poly.isOne E
  add := Poly.add E
  sub := Poly.sub E
  mul := Poly.mul E
  div := fun f g => (Poly.divRem E f g).1
  rem := fun f g => (Poly.divRem E f g).2
  normUnit := Poly.normUnit E
  isUnit := Poly.isUnit E
  inv := Poly.inv E
  norm := List.length

/-! ## homogeneous polynomials `c·x^d` (`h_poly.rs`) -/

structure HP (F : Type) where
  deg : Nat
  coeff : F
deriving Repr

namespace HP
variable {F : Type} (E : EucOps F)

def isZero (x : HP F) : Bool := E.isZero x.coeff
def isOne (x : HP F) : Bool := x.deg == 0 && E.isOne x.coeff
/-- `mul_assign`: `if rhs.is_one() { return }; self.deg += rhs.deg; self.coeff *= rhs.coeff` -/
def mul (x y : HP F) : HP F := if isOne E y then x else ⟨x.deg + y.deg, E.mul x.coeff y.coeff⟩
/-- `add_assign`/`sub_assign`: the `assert_eq!(self.deg, rhs.deg)` branch is unreachable from the Euclidean
operations exposed here (for non-zero `x, y` one always divides the other, so the loops never start);
it is modelled as keeping `self.deg`. -/
def add (x y : HP F) : HP F :=
  if isZero E x then y else if isZero E y then x else ⟨x.deg, E.add x.coeff y.coeff⟩
def sub (x y : HP F) : HP F :=
  if isZero E x then ⟨y.deg, E.sub E.zero y.coeff⟩ else if isZero E y then x else ⟨x.deg, E.sub x.coeff y.coeff⟩
/-- `div_rem` (rhs ≠ 0): `if self.deg < rhs.deg { (0, self) } else { ((a/b) x^(i-j), 0) }` -/
def divRem (x y : HP F) : HP F × HP F :=
  if x.deg < y.deg then (⟨0, E.zero⟩, x)
  else (⟨x.deg - y.deg, E.div x.coeff y.coeff⟩, ⟨0, E.zero⟩)
def isUnit (x : HP F) : Bool := x.deg == 0 && E.isUnit x.coeff
def inv (x : HP F) : Option (HP F) :=
  if x.deg > 0 then none else match E.inv x.coeff with | some a => some ⟨0, a⟩ | none => none
def normUnit (x : HP F) : HP F := ⟨0, E.normUnit x.coeff⟩
end HP

def hpolyOps {F : Type} (E : EucOps F) : EucOps (HP F) where
  zero := ⟨0, E.zero⟩
  one := ⟨0, E.one⟩
  isZero := HP.isZero E
  isOne := HP.isOne E
  add := HP.add E
  sub := HP.sub E
  mul := HP.mul E
  div := fun x y => (HP.divRem E x y).1
  rem := fun x y => (HP.divRem E x y).2
  normUnit := HP.normUnit E
  isUnit := HP.isUnit E
  inv := HP.inv E
  norm := fun x => if HP.isZero E x then 0 else x.deg + 1

end Yuiv.C15
