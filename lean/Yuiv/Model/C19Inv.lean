import Yuiv.Model.C19
import Yuiv.Model.Res
/-
Code model for the involution data of `yui-link/src/inv_link.rs`:

  `InvLink::new(link, e_map, base_pt)`      — `new`
  `InvLink::sinv_knot_from_code(pd_code)`   — `sinvFromCode`
  `inv_e`, `inv_x`, `mirror`                — `InvData.invE`, `InvData.invX`, `InvData.mirror`

Modelling decisions (branch by branch):
* `HashSet<Edge>` (`Link::edges`) is the duplicate-free list of labels `dedup (edgesOf data)`;
  `HashMap<Edge,Edge>` is the association list `edge ↦ f edge` over that list (`e_map.get(&e).unwrap()` and
  `e_map[&p]` panic when the key is missing — `emGet … = none ⇒ Res.panic`).
* `HashMap<Crossing,Crossing>` is an association list keyed by the crossing VALUE (type + the four labels in order, the
  derived `Eq`/`Hash` of `Crossing`): `insert` on a present key overwrites (`amInsert`), `len` is the number of distinct keys.
  Two crossings that are equal as values are therefore one key.
* the three assertions of `new` (`find.is_some()`, `x_map.len() == n`, base point fixed — the last one preceded by the
  `e_map[&p]` index panic when `p` is no edge) and the three of `sinv_knot_from_code` are `Res.panic`.
* `find_position(..)` followed by `link.data()[j]` is `List.find?` (first crossing whose label array contains all images).
* `usize` arithmetic of the closure `|e| (n + 1 - e) % n + 1`: it is only ever called on edges, after the asserts
  `min = 1`, `max = n`, so `n + 1 - e` does not underflow and `n ≥ 1` (`sinvEMap` on `Nat` agrees).
* iteration order of a `HashMap` (only used in `mirror`'s `collect`) is the list order; the keys are pairwise distinct and
  `Crossing::mirror` is injective, so the collected map does not depend on it.
-/
namespace Yuiv.C19Inv
open Yuiv Yuiv.KhRef Yuiv.C19

deriving instance DecidableEq for Yuiv.KhRef.Crossing

/-- all labels of all crossings, with repetition, in order -/
def edgesOf (xs : List Crossing) : List Nat := xs.flatMap (fun c => c.e.toList)

/-- duplicate-free list with the same members (`collect::<HashSet<_>>`) -/
def dedup : List Nat → List Nat
  | [] => []
  | a :: r => if a ∈ r then dedup r else a :: dedup r

abbrev EMap := List (Nat × Nat)
abbrev XMap := List (Crossing × Crossing)

/-- `HashMap<Edge,Edge>::get` -/
def emGet : EMap → Nat → Option Nat
  | [], _ => none
  | (k, v) :: r, e => if k = e then some v else emGet r e

/-- `HashMap<Crossing,Crossing>::insert` (overwrites the value of a present key) -/
def amInsert : XMap → Crossing → Crossing → XMap
  | [], k, v => [(k, v)]
  | (k', v') :: r, k, v => if k' = k then (k, v) :: r else (k', v') :: amInsert r k v

/-- `HashMap<Crossing,Crossing>::get` -/
def amGet : XMap → Crossing → Option Crossing
  | [], _ => none
  | (k', v') :: r, k => if k' = k then some v' else amGet r k

/-- `x.edges().map(|e| e_map.get(&e).unwrap())` -/
def imgOf (emap : EMap) : List Nat → Res (List Nat)
  | [] => .ok []
  | e :: r =>
    match emGet emap e with
    | none => .panic
    | some v =>
      match imgOf emap r with
      | .ok vs => .ok (v :: vs)
      | .panic => .panic
      | .err => .err

/-- `edges.iter().all(|e| y.edges().contains(e))` -/
def covers (img : List Nat) (y : Crossing) : Bool := img.all (fun e => y.e.contains e)

/-- the `for x in link.data()` loop of `InvLink::new` -/
def newLoop (emap : EMap) (all : List Crossing) : List Crossing → XMap → Res XMap
  | [], m => .ok m
  | x :: r, m =>
    match imgOf emap x.e.toList with
    | .ok img =>
      match all.find? (covers img) with
      | none => .panic                                        -- assert!(find.is_some())
      | some y =>
        let m1 := amInsert m x y
        let m2 := if x ≠ y then amInsert m1 y x else m1
        newLoop emap all r m2
    | .panic => .panic
    | .err => .err

structure InvData where
  link : Link
  base : Option Nat
  emap : EMap
  xmap : XMap

/-- `InvLink::new` -/
def new (link : Link) (f : Nat → Nat) (base : Option Nat) : Res InvData :=
  let xs := link.toList
  let emap : EMap := (dedup (edgesOf xs)).map (fun e => (e, f e))
  match newLoop emap xs xs [] with
  | .ok xmap =>
    if xmap.length ≠ xs.length then .panic                    -- assert_eq!(x_map.len(), link.data().len())
    else
      match base with
      | none => .ok ⟨link, base, emap, xmap⟩
      | some p =>
        match emGet emap p with
        | none => .panic                                      -- e_map[&p]
        | some q => if p ≠ q then .panic else .ok ⟨link, base, emap, xmap⟩   -- assert_eq!(p, e_map[&p])
  | .panic => .panic
  | .err => .err

def listMin : List Nat → Option Nat
  | [] => none
  | a :: r => some (r.foldl min a)

def listMax : List Nat → Option Nat
  | [] => none
  | a :: r => some (r.foldl max a)

/-- `Link::from_pd_code` -/
def linkOfCode (code : List (Array Nat)) : Link := (code.map (fun e => (⟨.X, e⟩ : Crossing))).toArray

/-- `InvLink::sinv_knot_from_code` -/
def sinvFromCode (code : List (Array Nat)) : Res InvData :=
  let l := linkOfCode code
  let es := dedup (edgesOf l.toList)
  let n := es.length
  if n % 2 ≠ 0 then .panic                                    -- assert!(n.is_even())
  else if listMin es ≠ some 1 then .panic                     -- assert_eq!(min, Some(&1))
  else if listMax es ≠ some n then .panic                     -- assert_eq!(max, Some(&n))
  else new l (sinvEMap n) (some 1)

/-- `inv_e` -/
def InvData.invE (d : InvData) (e : Nat) : Res Nat :=
  match emGet d.emap e with
  | some v => .ok v
  | none => .panic

/-- `inv_x` -/
def InvData.invX (d : InvData) (x : Crossing) : Res Crossing :=
  match amGet d.xmap x with
  | some y => .ok y
  | none => .panic

def xMirror (c : Crossing) : Crossing := ⟨c.ct.mirror, c.e⟩

/-- `InvLink::mirror` -/
def InvData.mirror (d : InvData) : InvData :=
  { link := KhRef.mirror d.link, base := d.base, emap := d.emap,
    xmap := d.xmap.foldl (fun m p => amInsert m (xMirror p.1) (xMirror p.2)) [] }

/-- the data the reference cone model (`Model/C19.lean`) works with -/
def InvData.toInvLink (d : InvData) : InvLink := ⟨d.link, d.emap.toArray, d.base⟩

/-- position of a crossing value in the data (first one) -/
def xIndex (l : Link) (x : Crossing) : Option Nat := l.toList.findIdx? (fun y => y = x)

/-! ### decidable forms of the hypotheses of the `inv_x` theorems (evaluated per instance by the driver) -/

/-- the map is an involution on the labels -/
def involB (f : Nat → Nat) (es : List Nat) : Bool := es.all (fun e => f (f e) == e)

/-- all crossings have the same number of distinct labels -/
def sameCardB (xs : List Crossing) : Bool :=
  xs.all (fun x => xs.all (fun y => (dedup x.e.toList).length == (dedup y.e.toList).length))

/-- crossings with the same label set are equal -/
def distinctSetsB (xs : List Crossing) : Bool :=
  xs.all (fun x => xs.all (fun y =>
    !(x.e.toList.all (fun e => y.e.toList.contains e) && y.e.toList.all (fun e => x.e.toList.contains e)) || decide (x = y)))

/-- `r` is `ok d` with `p d` -/
def okAnd {α : Type} (r : Res α) (p : α → Bool) : Bool :=
  match r with
  | .ok a => p a
  | _ => false

/-! ### per-instance well-formedness of the reference involutive cube (`mkICube`) -/

def allBelow (n : Nat) (p : Nat → Bool) : Bool := (List.range n).all p

/-- τ on states is an involution of `0..2^n` preserving the weight, the circle maps are mutually inverse bijections
`circles(s) → circles(τ s)`, and (reduced theory) the base circle goes to the base circle -/
def icubeWf (ic : ICube) : Bool :=
  let c := ic.cube
  let N := 2 ^ c.n
  ic.tst.size == N && ic.tlab.size == N && c.circ.size == N &&
  allBelow N (fun s =>
    let t := ic.tst[s]!
    let r := (c.circ[s]!).size
    decide (t < N) && ic.tst[t]! == s && popcount t c.n == popcount s c.n &&
    (c.circ[t]!).size == r && (ic.tlab[s]!).size == r &&
    allBelow r (fun i => decide ((ic.tlab[s]!)[i]! < r) && (ic.tlab[t]!)[(ic.tlab[s]!)[i]!]! == i) &&
    (match c.baseCircle s with
     | some b => decide (b < r) && c.baseCircle t == some ((ic.tlab[s]!)[b]!)
     | none => (c.baseCircle t).isNone))

end Yuiv.C19Inv
