import Yuiv.Model.Res
/-
The ring of integers as seen by the generic code of `yui` (`T: EucRing` / `T: Integer`), as used by the definitions
that `tools/rs2lean_fn.py` generates with the option scalar = "Z" (hand-written, import-free, TRUSTED: this file is
the meaning the translator gives to the operators and trait methods of the type parameter).

Reading: the type parameter is instantiated by the UNBOUNDED integers (`Int`) — the `BigInt` reading.  For the
fixed-width instances (`i32`, `i64`, `i128`) the same functions describe the result whenever no intermediate value
overflows; with overflow checks on, an overflow is a panic that this reading does not model (C14 explores it with the
differential run only).

* `a + b`, `a - b`, `a * b`, `-a`      the ring operations of `Int` (emitted directly);
* `a / b`, `a % b`                     truncating division `Int.tdiv` / `Int.tmod`; panic when `b = 0` (`RInt.div/rem`);
* `==, !=, <, <=, >, >=`, `a.cmp(&b)`  the order of `Int` (`decide`, `compare`);
* `T::zero()`, `T::one()`, `T::default()`  `0`, `1`, `0`;  `x.set_zero()`, `x.set_one()` assign them;
* `is_zero`, `is_one`, `is_negative`, `is_positive`   the obvious tests;
* `is_unit`, `inv`, `normalizing_unit` the impls of `impl_integer!` in yui/src/misc/int_ext.rs:
                                       `is_one() || (-self).is_one()`,  `if is_unit { Some(self) } else { None }`,
                                       `if !is_negative { 1 } else { -1 }`;
* `normalized`, `into_normalized`      `self * self.normalizing_unit()` (default methods of `Ring`, yui/src/abst/ring.rs);
* `EucRing::gcd`, `EucRing::lcm`       for the integer types these forward to `num_integer::Integer::{gcd, lcm}`,
                                       ASSUMED to be the non-negative gcd / lcm (`Int.gcd`, `Int.lcm`; `lcm 0 0 = 0`);
* `abs`, `signum`                      `|a|`, `Int.sign`;
* `I::neg(a)`, `I::add(a, b)`, …       the operator traits called as functions: `-a`, `a + b`, `a - b`, `a * b`;
* `a.rem_euclid(b)`                    the non-negative remainder `Int.emod`; panics when `b = 0`;
* `a.to_i64()`, `a.is_odd()`           `Some(a)`; `a mod 2 = 1` (num-integer);
* `I::from_i32(a)`                     `Some(a)` (`FromPrimitive`; never fails for i32/i64/i128/BigInt); a const generic
                                       `const D: i32` is read as an unbounded `Int` as well (its i32 overflow is not modelled);
* `a.div_round(&b)`                    the blanket impl `DivRound for T: Integer` of yui/src/misc/int_ext.rs, copied here
                                       (`Yuiv/Props/C15GenQ.lean` proves it equal to the definition generated from that source);
* `opt.unwrap()`                       panics on `None` (`Opt.unwrap`).
References and `clone()` are erased.
-/
namespace Yuiv.Rust
open Yuiv Res

namespace RInt

def is_zero (a : Int) : Bool := decide (a = 0)
def is_one (a : Int) : Bool := decide (a = 1)
def is_negative (a : Int) : Bool := decide (a < 0)
def is_positive (a : Int) : Bool := decide (0 < a)
/-- `Ring::is_unit` of the integer types -/
def is_unit (a : Int) : Bool := is_one a || is_one (-a)
/-- `Ring::inv` of the integer types -/
def inv (a : Int) : Option Int := if is_unit a then some a else none
/-- `Ring::normalizing_unit` of the integer types -/
def normalizing_unit (a : Int) : Int := if !is_negative a then 1 else -1
/-- `Ring::normalized` / `into_normalized` -/
def normalized (a : Int) : Int := a * normalizing_unit a
/-- `EucRing::gcd` of the integer types (assumed: the non-negative gcd) -/
def gcd (a b : Int) : Int := ((Int.gcd a b : Nat) : Int)
/-- `EucRing::lcm` of the integer types (assumed: the non-negative lcm) -/
def lcm (a b : Int) : Int := ((Int.lcm a b : Nat) : Int)
/-- `a / b` -/
def div (a b : Int) : Res Int := if b = 0 then panic else ok (a.tdiv b)
/-- `a % b` -/
def rem (a b : Int) : Res Int := if b = 0 then panic else ok (a.tmod b)
def abs (a : Int) : Int := ((a.natAbs : Nat) : Int)
def signum (a : Int) : Int := a.sign
def neg (a : Int) : Int := -a
def add (a b : Int) : Int := a + b
def sub (a b : Int) : Int := a - b
def mul (a b : Int) : Int := a * b
/-- `a.rem_euclid(b)` -/
def rem_euclid (a b : Int) : Res Int := if b = 0 then panic else ok (a % b)
/-- `ToPrimitive::to_i64` (never fails for the values the library converts; an out-of-range BigInt is not modelled) -/
def to_i64 (a : Int) : Option Int := some a
/-- `num_integer::Integer::is_odd` / `is_even` -/
def is_odd (a : Int) : Bool := a % 2 == 1
def is_even (a : Int) : Bool := a % 2 == 0
/-- `FromPrimitive::from_i32` -/
def from_i32 (a : Int) : Option Int := some a
/-- `DivRound::div_round` of the integer types: nearest integer to `a / b`, ties away from zero -/
def div_round (a b : Int) : Res Int := do
  let quo ← div a b
  let rem ← rem a b
  let nr := if is_positive rem then -rem else rem
  let nb := if is_positive b then -b else b
  ok (if nr ≤ nb - nr then (if is_negative a = is_negative b then quo + 1 else quo - 1) else quo)

end RInt

namespace Opt
/-- `Option::unwrap` -/
def unwrap {α : Type} : Option α → Res α
  | some a => ok a
  | none => panic
end Opt

end Yuiv.Rust
