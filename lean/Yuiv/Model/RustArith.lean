import Yuiv.Model.Res
/-
Checked 64-bit unsigned arithmetic of Rust, as used by the definitions that `tools/rs2lean_fn.py` generates from
Rust source text (hand-written, import-free, TRUSTED: this file is the meaning the translator gives to Rust's
primitive operators).

Representation: a `u64` / `usize` value (the translator assumes a 64-bit target, `usize` = `u64`) is a `Nat` below
`2^64`.  Every operation below maps in-range arguments to an in-range result or to `Res.panic`.

Semantics (crates are built with overflow checks and debug assertions ON, as the harness and the repository's own
release profile do):

* `a + b`, `a - b`, `a * b`   panic when the mathematical result is outside `0 .. 2^64-1`, otherwise return it;
* `a / b`, `a % b`            panic when `b = 0`;
* `a << n`, `a >> n`          panic when `n ≥ 64` (rustc checks only the shift AMOUNT); otherwise `<<` drops the bits
                              shifted out of the 64-bit word (`(a · 2^n) mod 2^64`) and `>>` is `⌊a / 2^n⌋`;
* `!a`                        is the 64-bit complement `2^64 - 1 - a`;
* `a & b`, `a | b`, `a ^ b`   are emitted directly as `&&&`, `|||`, `^^^` on `Nat` (they preserve the range);
* `==, !=, <, <=, >, >=`      are emitted as `decide` of the `Nat` relation;
* `x as u64`, `x as usize`    between the two 64-bit types are the identity;
* `u64::MAX`, `usize::MAX`    are `2^64 - 1`;
* `v.reverse_bits()`          is `reverse_bits v` below: bit `i` goes to bit `63 - i`;
* `while` loops run on `loopFuel = 2^64` units of fuel and yield `Res.err` when it runs out.

`Yuiv/Proofs/C17Gen.lean` proves that on in-range arguments these agree with Lean core's `UInt64` operations
(`u64_*_sound`), so the trusted statement is "Rust's checked u64 operators = Lean's `UInt64` operators + panic on
overflow / over-long shift".
-/
namespace Yuiv.Rust
open Yuiv Res

namespace U64

def MAX : Nat := 2 ^ 64 - 1

/-- checked `a + b` -/
def add (a b : Nat) : Res Nat := if a + b ≤ MAX then ok (a + b) else panic
/-- checked `a - b` -/
def sub (a b : Nat) : Res Nat := if b ≤ a then ok (a - b) else panic
/-- checked `a * b` -/
def mul (a b : Nat) : Res Nat := if a * b ≤ MAX then ok (a * b) else panic
/-- `a / b` (panics on division by zero) -/
def div (a b : Nat) : Res Nat := if b = 0 then panic else ok (a / b)
/-- `a % b` (panics on division by zero) -/
def rem (a b : Nat) : Res Nat := if b = 0 then panic else ok (a % b)
/-- `a << n`: panics when `n ≥ 64`, drops the bits shifted out -/
def shl (a n : Nat) : Res Nat := if n < 64 then ok ((a <<< n) % 2 ^ 64) else panic
/-- `a >> n`: panics when `n ≥ 64` -/
def shr (a n : Nat) : Res Nat := if n < 64 then ok (a >>> n) else panic
/-- `!a` -/
def not (a : Nat) : Nat := MAX - a

/-- reversal of the lowest `n` bits: bit `i` goes to bit `n-1-i` -/
def revBits : Nat → Nat → Nat
  | 0, _ => 0
  | n+1, v => (v % 2) * 2 ^ n + revBits n (v / 2)

/-- `u64::reverse_bits` -/
def reverse_bits (v : Nat) : Nat := revBits 64 v

end U64

/-- fuel handed to every translated `while` loop -/
def loopFuel : Nat := 2 ^ 64

end Yuiv.Rust
