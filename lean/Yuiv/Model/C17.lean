import Yuiv.Model.Res
/-
Code model of `yui/src/misc/bitseq.rs` (`BitSeq`), branch by branch.

`val : u64` is a `Nat` below `2^64`; every shift whose amount could reach 64 is guarded exactly
like Rust's overflow checks (the harness builds the crates with overflow checks on, as the
repository's own release profile does), every `assert!` is a `panic` result.
-/
namespace Yuiv.C17
open Yuiv Res

structure BS where
  val : Nat
  len : Nat
deriving DecidableEq, Repr, Inhabited

def maxLen : Nat := 64
def u64Max : Nat := 2 ^ 64 - 1

/-- `x << n` on `u64`: panics when `n ≥ 64`, drops the bits shifted out. -/
def shl (x n : Nat) : Res Nat := if n < 64 then ok ((x <<< n) % 2 ^ 64) else panic
/-- `x >> n` on `u64`: panics when `n ≥ 64`. -/
def shr (x n : Nat) : Res Nat := if n < 64 then ok (x >>> n) else panic
/-- `!x` on `u64`. -/
def not64 (x : Nat) : Nat := u64Max - x
/-- checked `a - b` on unsigned integers. -/
def usub (a b : Nat) : Res Nat := if b ≤ a then ok (a - b) else panic

/-- `BitSeq::mask` -/
def mask (len : Nat) : Res Nat :=
  if len ≥ maxLen then ok u64Max else do
    let s ← shl 1 len
    usub s 1

/-- `BitSeq::new` -/
def new (val len : Nat) : Res BS := do
  assert (len ≤ maxLen)
  let m ← mask len
  assert (val ≤ m)
  ok ⟨val, len⟩

/-- `u64::reverse_bits` restricted to `n` bits: bit `i` goes to bit `n-1-i`. -/
def revBits : Nat → Nat → Nat
  | 0, _ => 0
  | n+1, v => (v % 2) * 2 ^ n + revBits n (v / 2)

/-- `BitSeq::new_rev` -/
def newRev (val len : Nat) : Res BS := do
  assert (len ≤ maxLen)
  let v ← if len = 0 then ok 0 else do
    let k ← usub 64 len
    shr (revBits 64 val) k
  new v len

def empty : Res BS := new 0 0
def zeros (len : Nat) : Res BS := new 0 len
def ones (len : Nat) : Res BS := do
  let m ← mask len
  new m len

/-- the Kernighan loop of `BitSeq::weight`; fuel = number of iterations allowed. -/
def weightLoop : Nat → Nat → Nat → Nat
  | 0, _, c => c
  | fuel+1, v, c => if v > 0 then weightLoop fuel (v &&& (v - 1)) (c + 1) else c

def weight (b : BS) : Nat := weightLoop 64 b.val 0

/-- `BitSeq::iter` : `len` times `(val & 1, val >>= 1)`. -/
def iterLoop : Nat → Nat → List Bool
  | 0, _ => []
  | n+1, v => (v &&& 1 == 1) :: iterLoop n (v >>> 1)

def iter (b : BS) : List Bool := iterLoop b.len b.val

/-- `BitSeq::set` -/
def set (b : BS) (i : Nat) (x : Bool) : Res BS := do
  assert (i < b.len)
  let s ← shl 1 i
  if x then ok ⟨b.val ||| s, b.len⟩ else ok ⟨b.val &&& not64 s, b.len⟩

/-- `BitSeq::push` -/
def push (b : BS) (x : Bool) : Res BS := do
  assert (b.len < maxLen)
  let v ← if x then do
      let s ← shl 1 b.len
      ok (b.val ||| s)
    else ok b.val
  ok ⟨v, b.len + 1⟩

/-- `BitSeq::append` -/
def append (a b : BS) : Res BS := do
  assert (a.len + b.len ≤ maxLen)
  let v ← if b.len > 0 then do
      let s ← shl b.val a.len
      ok (a.val ||| s)
    else ok a.val
  ok ⟨v, a.len + b.len⟩

/-- `BitSeq::remove` -/
def remove (b : BS) (i : Nat) : Res BS := do
  assert (i < b.len)
  let m1 ← mask (i + 1)
  let m0 ← mask i
  let a := b.val &&& not64 m1
  let c := b.val &&& m0
  let a1 ← shr a 1
  let l ← usub b.len 1
  ok ⟨a1 ||| c, l⟩

/-- `BitSeq::insert` (the mask here is the original unguarded `(1 << i) - 1`). -/
def insert (b : BS) (i : Nat) (x : Bool) : Res BS := do
  assert (i ≤ b.len)
  assert (b.len < maxLen)
  let s ← shl 1 i
  let m ← usub s 1
  let a := b.val &&& not64 m
  let bb ← shl (if x then 1 else 0) i
  let c := b.val &&& m
  let a1 ← shl a 1
  ok ⟨a1 ||| bb ||| c, b.len + 1⟩

/-- `BitSeq::sub` -/
def sub (b : BS) (l : Nat) : Res BS := do
  assert (l ≤ b.len)
  let m ← mask l
  new (b.val &&& m) l

/-- `BitSeq::is_sub` (`&&` short-circuits, so the mask is only computed when `a.len ≤ b.len`). -/
def isSub (a b : BS) : Res Bool :=
  if a.len ≤ b.len then do
    let m ← mask a.len
    ok (a.val == (b.val &&& m))
  else ok false

/-- `Index<usize>` -/
def index (b : BS) (i : Nat) : Res Bool := do
  assert (i < b.len)
  let s ← shr b.val i
  ok (s &&& 1 == 1)

/-- `BitSeq::generate` : `(0 ..= mask len).map(new)`; element `k` of the iterator. -/
def generateNth (len k : Nat) : Res BS := do
  assert (len ≤ maxLen)
  let m ← mask len
  if k ≤ m then new k len else err

/-- number of items `generate len` yields -/
def generateCount (len : Nat) : Res Nat := do
  assert (len ≤ maxLen)
  let m ← mask len
  ok (m + 1)

/-- loop body of `FromIterator::from_iter` -/
def fromIterLoop : List Bool → Nat → Nat → Res (Nat × Nat)
  | [], v, l => ok (v, l)
  | x :: xs, v, l => do
    let v' ← if x then do
        let s ← shl 1 l
        ok (v ||| s)
      else ok v
    fromIterLoop xs v' (l + 1)

/-- `FromIterator::from_iter` -/
def fromIter (bits : List Bool) : Res BS := do
  let (v, l) ← fromIterLoop bits 0 0
  new v l

/-- `FromStr::from_str`: the `Result`-collecting adapter feeds `from_iter` with the bits up to the
first invalid character, lets it finish (including the final `new`), then reports `Err`. -/
def fromStrLoop : List Char → Nat → Nat → Res (Nat × Nat × Bool)
  | [], v, l => ok (v, l, true)
  | c :: cs, v, l =>
    if c = '0' then fromStrLoop cs v (l + 1)
    else if c = '1' then do
      let s ← shl 1 l
      fromStrLoop cs (v ||| s) (l + 1)
    else ok (v, l, false)

def fromStr (s : List Char) : Res BS := do
  let (v, l, good) ← fromStrLoop s 0 0
  let b ← new v l
  if good then ok b else err

/-- `Display` -/
def toStr (b : BS) : List Char := (iter b).map (fun x => if x then '1' else '0')

/-- `Ord::cmp` -/
def cmp (a b : BS) : Ordering :=
  (compare a.len b.len).then ((compare (weight a) (weight b)).then (compare a.val b.val))

end Yuiv.C17
