import Yuiv.Model.C05
/-
C05 (engine kernel) — code model of delooping and Gaussian elimination in
`yui-khovanov/src/kh/internal/v2/tng_complex.rs` (`deloop` l.485-513, `deloop_with` l.515-536,
`eliminate` l.548-587) and of the pieces of `cob.rs` they use (`Dot` l.18, `CobComp::add_dot` l.307,
`Cob::cap_off` l.597-611, `CobComp::deg` l.257, `LcCob::inv` l.909).  Import-free (core Lean + `Model/C05`).

Delooping of ONE circle component `c` of the tangle at vertex `k`:

    based (c contains the base point):  k ↦ k·X                      deloop_with(k·X, birth = X,    death = None)
    otherwise:                          k ↦ k·X  and a duplicate k·1 deloop_with(k·X, birth = X,    death = None)
                                                                     deloop_with(k·1, birth = None, death = Y)

`deloop_with(k', birth, death)` removes the circle from the tangle of `k'`, replaces every incoming edge `f`
by `f.cap_off(Tgt, c, death).part_eval(h, t)` (a cap = "death" carrying the dot `death` is glued on the
circle in the target of `f`) and every outgoing edge `f` by `f.cap_off(Src, c, birth).part_eval(h, t)`
(a cup = "birth" carrying the dot `birth` is glued under the circle in the source of `f`).
`cap_off` on the component that contains the circle: drop the circle from that bottom, `add_dot`, and if the
component became a sphere with exactly one dot (`is_unit_cob`, value 1) drop the component.

A dotted cap / cup is represented by its dot pair `(x, y)` as in `Key.comp x y`.
-/
namespace Yuiv.C05.Deloop
open Yuiv Yuiv.C05

/-! ### dots and labels -/

/-- `cob.rs` `enum Dot { None, X, Y }` -/
inductive Dot where
  | none | X | Y
deriving DecidableEq, Repr

/-- `CobComp::add_dot` on the dot pair `(#X, #Y)` -/
def addDot : Dot → Nat × Nat → Nat × Nat
  | .X, (x, y) => (x + 1, y)
  | .Y, (x, y) => (x, y + 1)
  | .none, d => d

/-- `KhAlgGen { I, X }` -/
inductive AlgGen where
  | I | X
deriving DecidableEq, Repr

/-- `KhAlgGen::deg` -/
def AlgGen.deg : AlgGen → Int
  | .I => 0
  | .X => -2

/-- what one label entry adds to `KhGen::q_deg = q0 + Σ deg(label) + len(label) + weight(state)`:
`deg + 1`, i.e. `+1` for the copy labelled `1` and `−1` for the copy labelled `X` -/
def AlgGen.qShift (g : AlgGen) : Int := g.deg + 1

/-- one copy produced by `deloop`: the label appended to the key and the two `Dot` arguments of its
`deloop_with` call -/
structure Copy where
  label : AlgGen
  birthDot : Dot
  deathDot : Dot
deriving DecidableEq, Repr

/-- the `X` copy: `deloop_with(&k_X, r, Dot::X, Dot::None)` -/
def copyX : Copy := ⟨.X, .X, .none⟩
/-- the `1` copy: `deloop_with(&k_1, r, Dot::None, Dot::Y)` -/
def copyI : Copy := ⟨.I, .none, .Y⟩

/-- `TngComplex::deloop`: the copies in the order of the returned `updated_keys` -/
def deloopCopies (based : Bool) : List Copy :=
  if based then [copyX] else [copyX, copyI]

/-! ### the four elementary maps and their composites -/

/-- dot pair of the cap ("death") glued on incoming edges of a copy -/
def capDots (c : Copy) : Nat × Nat := addDot c.deathDot (0, 0)
/-- dot pair of the cup ("birth") glued under outgoing edges of a copy -/
def cupDots (c : Copy) : Nat × Nat := addDot c.birthDot (0, 0)

/-- `CobComp::deg` of a disc bounding one circle (`cap`/`cup`: one boundary circle, no end points, genus 0)
with the given dot: `1 − 2·#dots` -/
def discDeg (d : Dot) : Int := C05.deg 1 0 0 (addDot d (0, 0)).1 (addDot d (0, 0)).2

/-- `Cob::cap_off(b, c, dot)` on the component `(closedAfter, g, (x, y))` that contains the circle, followed by
`part_eval(h, t)`: the dot is added; a one-dotted sphere is removed from the cobordism (the cobordism keeps its
other components, this factor is `1` = the empty cobordism); otherwise the component is partially evaluated.
`closedAfter` = the component has no other boundary than the circle that is capped. -/
def capOffEval {R : Type} [Coef R] (h t : R) (closedAfter : Bool) (g : Nat) (dots : Nat × Nat) (d : Dot) : Lc Key R :=
  let p := addDot d dots
  if isUnitCob closedAfter g p.1 p.2 then single .empty else partEval h t closedAfter g p.1 p.2

/-- the scalar an edge `copy i → (circle) → copy j` gets: the cup of `i` (birth) followed by the cap of `j`
(death) is a sphere carrying both dots, evaluated by `CobComp::eval` -/
def pairing {R : Type} [Coef R] (h t : R) (ci cj : Copy) : Res R :=
  let p := addDot cj.deathDot (cupDots ci)
  evalClosed h t true 0 p.1 p.2

/-- the coefficient with which a closed-off component `(g, x, y)` (a cup with handles and dots: the general
form of a connected cobordism whose only boundary is the circle) enters copy `c`: cap it with `c.deathDot` -/
def coord {R : Type} [Coef R] (h t : R) (c : Copy) (g x y : Nat) : Res R :=
  let p := addDot c.deathDot (x, y)
  evalClosed h t true g p.1 p.2

/-! ### Gaussian elimination (`TngComplex::eliminate`)

        a
   k0 ------> k1          edges are stored only when non-zero (`add_edge` asserts `!f.is_zero()`), so an edge is
      \    / b            an `Option`.  For every pair `(l0, l1)` with `l0 ∈ in(k1) ∖ {k0}`, `l1 ∈ out(k0) ∖ {k1}`:
        \/                    cab = c * ainv * b          (`Mul for Cob`: `c * ainv * b` = first b, then ainv, then c)
        /\                    s   = d - cab   if the edge l0 → l1 exists,   -cab   otherwise
      /    \ c            the old edge l0 → l1 is removed and `s` is inserted unless it is zero.  Pairs with no
   l0 ------> l1          edge l0 → k1 or no edge k0 → l1 are not visited (their entry stays).  Then k0 and k1 are
        d                 removed with all incident edges (the whole row and column of the pivot).
-/

/-- the new entry `l0 → l1`; `b : l0 → k1`, `c : k0 → l1`, `d : l0 → l1` -/
def elimEntry {R : Type} [Mul R] [Sub R] [Neg R] (isZero : R → Bool) (ainv : R) (b c d : Option R) : Option R :=
  match b, c with
  | some b, some c =>
    let cab := c * ainv * b
    let s := match d with
      | some d => d - cab
      | none => -cab
    if isZero s then none else some s
  | _, _ => d

/-- all new entries at once: `b j : l0ⱼ → k1`, `c i : k0 → l1ᵢ`, `d i j : l0ⱼ → l1ᵢ` -/
def elimFn {R I J : Type} [Mul R] [Sub R] [Neg R] (isZero : R → Bool) (ainv : R)
    (b : J → Option R) (c : I → Option R) (d : I → J → Option R) : I → J → Option R :=
  fun i j => elimEntry isZero ainv (b j) (c i) (d i j)

/-- three consecutive differentials around the pivot, every block 1×1:
`u --[x; y]--> k0 ⊕ l0 --[[a, b], [c, d]]--> k1 ⊕ l1 --[z w]--> u'` -/
structure Blk (R : Type) where
  x : Option R
  y : Option R
  a : Option R
  b : Option R
  c : Option R
  d : Option R
  z : Option R
  w : Option R
deriving DecidableEq, Repr

/-- what is left: `u --in'--> l0 --d'--> l1 --out'--> u'` -/
structure Red (R : Type) where
  in' : Option R
  d' : Option R
  out' : Option R
deriving DecidableEq, Repr

/-- `TngComplex::eliminate(k0, k1)`: `self.edge(k0, k1)` panics when there is no such edge, `a.inv()` must
succeed, the entry `l0 → l1` is updated, `remove_vertex(k0)` drops `x`, `a`, `c`, `remove_vertex(k1)` drops
`b`, `z`; `y` and `w` are not touched. -/
def eliminate {R : Type} [Mul R] [Sub R] [Neg R] (isZero : R → Bool) (inv : R → Option R) (m : Blk R) : Res (Red R) :=
  match m.a with
  | none => .panic
  | some a =>
    match inv a with
    | none => .panic
    | some ainv => .ok ⟨m.y, elimEntry isZero ainv m.b m.c m.d, m.w⟩

end Yuiv.C05.Deloop
