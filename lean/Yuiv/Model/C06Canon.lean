import Yuiv.Model.KhRef
import Yuiv.Model.Res
/-
Code model for the CONSTRUCTION of the canonical (Lee) cycles (extension of C06):

  * `Link::ori_pres_state`, `Link::components`, `Link::seifert_circles`   (yui-link/src/link/link.rs)
  * `Path::is_adj`                                                         (yui-link/src/link/path.rs)
  * `LinkExt::colored_seifert_circles` — BFS 2-colouring                   (yui-khovanov/src/ext/link.rs)
  * `TngComplexBuilder::make_canon_cycles` / v1 `make_canon_cycle`: at the orientation preserving state
    every Seifert circle carries `X` (colour a) or `Y = X − h` (colour b); the second cycle swaps the
    colours, the reduced theory keeps the first only.

The BFS iterates over a `HashSet` (`remain.iter()`); the iteration order is NOT determined by the program
text, so the model takes it as a parameter `order : Nat → List Nat → List Nat` (step-indexed: at every
step some permutation of the current content).  `Props/C06Canon.lean` proves that for a bipartite
adjacency the resulting colouring does not depend on it; the executable instance uses ascending order.

A chain is a list of `(KhRef.Gen, Int)` sorted strictly by label mask, without zero coefficients
(canonical form).  Circle positions in a mask follow `KhRef.circles` (circles sorted by least label).
-/
namespace Yuiv.C06Canon
open Yuiv Yuiv.KhRef

inductive Colour where | a | b
deriving DecidableEq, Repr, Inhabited

/-- `Color::other` -/
def Colour.other : Colour → Colour
  | .a => .b
  | .b => .a

/-! ### `ori_pres_state`, `components`, `seifert_circles` -/

/-- `Link::ori_pres_state`: bit `k` is `0` for a positive, `1` for a negative crossing
(bit `k` ↔ `k`-th unresolved crossing, as in `KhRef.resolvedTypes`). -/
def oriPresBits (signs : List Int) : List Bool := signs.map (fun s => !(s > 0))

def bitsToNat : List Bool → Nat
  | [] => 0
  | b :: bs => (if b then 1 else 0) + 2 * bitsToNat bs

def oriPresState (signs : List Int) : Nat := bitsToNat (oriPresBits signs)

/-- a `Path`: edges in traversal order, closed flag -/
structure Path where
  edges : List Nat
  closed : Bool
deriving Repr, BEq, Inhabited

/-- `Link::traverse_edges` with crossing types `ts` (resolved or not), collecting `edge(i,j)` at every call of
the callback; `fuel` = `4·n` iterations, one more is the `assert!(steps < max_steps)` panic.
The accumulator is reversed. -/
def walk (l : Link) (ts : Array CT) (start : Nat × Nat) : Nat → Nat → Nat → List Nat → Res (List Nat)
  | 0, _, _, _ => .panic
  | fuel + 1, i, j, acc =>
    let acc := l[i]!.e[j]! :: acc                 -- f(i, j)
    let k := ts[i]!.pass j
    match partner l i k with
    | none => .ok (l[i]!.e[k]! :: acc)             -- reached an end: f(i, k)
    | some nxt =>
      if nxt == start then .ok (l[start.1]!.e[start.2]! :: acc)   -- returned to start: f(start)
      else walk l ts start fuel nxt.1 nxt.2 acc

/-- inner loop of `Link::components`: `for i0 in 0..n` with start slot `j0` -/
def componentsPass (l : Link) (ts : Array CT) (j0 : Nat) :
    List Nat → (List Path × List Nat) → Res (List Path × List Nat)
  | [], st => .ok st
  | i0 :: rest, (comps, passed) =>
    if passed.contains (l[i0]!.e[j0]!) then componentsPass l ts j0 rest (comps, passed)
    else
      match walk l ts (i0, j0) (4 * l.size) i0 j0 [] with
      | .ok racc =>
        let edges := racc.reverse
        let passed := passed ++ edges
        let c : Path :=
          if edges.length > 1 && edges.head? == edges.getLast? then ⟨edges.dropLast, true⟩ else ⟨edges, false⟩
        componentsPass l ts j0 rest (comps ++ [c], passed)
      | .panic => .panic
      | .err => .err

/-- `Link::components` for the link `l` whose crossings have the types `ts` -/
def componentsOf (l : Link) (ts : Array CT) : Res (List Path) :=
  let is := List.range l.size
  match componentsPass l ts 0 is ([], []) with
  | .ok st0 =>
    match componentsPass l ts 1 is st0 with
    | .ok st1 =>
      match componentsPass l ts 2 is st1 with
      | .ok st2 => .ok st2.1
      | .panic => .panic
      | .err => .err
    | .panic => .panic
    | .err => .err
  | .panic => .panic
  | .err => .err

def components (l : Link) : Res (List Path) := componentsOf l (l.map (·.ct))

/-- `Link::seifert_circles` = `resolved_by(ori_pres_state).components()` -/
def seifertCircles (l : Link) (signs : List Int) : Res (List Path) :=
  componentsOf l (resolvedTypes l (oriPresState signs))

/-- `Link::first_edge` -/
def firstEdge (l : Link) : Option Nat :=
  if h : 0 < l.size then some ((l[0]).e.foldl min (l[0]).e[0]!) else none

/-! ### adjacency and the BFS colouring -/

/-- `Path::is_adj` -/
def isAdj (l : Link) (c1 c2 : List Nat) : Bool :=
  l.any (fun x =>
    x.e.any (fun e => c1.contains e) &&
    (match x.e.find? (fun e => !c1.contains e) with
     | some e => c2.contains e
     | none => false))

/-- the `for i2 in adjs` loop: `colors[i2] = colors[i1].other()` (reads `colors[i1]` in every round) -/
def recolour (i1 : Nat) : List Nat → (Nat → Colour) → (Nat → Colour)
  | [], col => col
  | i2 :: rest, col => recolour i1 rest (fun v => if v = i2 then (col i1).other else col v)

/-- the `while !queue.is_empty()` loop. `order k xs` = the order in which `remain.iter()` yields the current
content `xs` at the step with `k` rounds of budget left. Returns the colours and the final `remain`;
`none` = budget exhausted (impossible for a budget `2·|remain| + |queue| + 1`, see `bfs_terminates`). -/
def bfs (adj : Nat → Nat → Bool) (order : Nat → List Nat → List Nat) :
    Nat → List Nat → List Nat → (Nat → Colour) → Option ((Nat → Colour) × List Nat)
  | 0, _, _, _ => none
  | _ + 1, [], remain, col => some (col, remain)
  | fuel + 1, i1 :: queue, remain, col =>
    let adjs := (order fuel remain).filter (fun i2 => adj i1 i2)
    let remain' := remain.filter (fun x => !adjs.contains x)       -- remain.remove(&i2) for every i2
    bfs adj order fuel (queue ++ adjs) remain' (recolour i1 adjs col)

def ascending : Nat → List Nat → List Nat := fun _ xs => xs

/-- `colored_seifert_circles` on abstract data: `n` circles, start index `i`.
`colors = [A; n]`, `remain = {0..n}` (the start circle is NOT taken out), `queue = [i]`. -/
def colouring (adj : Nat → Nat → Bool) (order : Nat → List Nat → List Nat) (n i : Nat) :
    Option ((Nat → Colour) × List Nat) :=
  bfs adj order (2 * n + 2) [i] (List.range n) (fun _ => .a)

/-- `LinkExt::colored_seifert_circles(base)`: the Seifert circles with their colours.
`panic`: not a knot (`assert_eq!(components().len(), 1)`) or no circle through `base` (`unwrap`). -/
def coloredSeifertCircles (l : Link) (signs : List Int) (base : Nat) : Res (List (Path × Colour)) :=
  match components l with
  | .ok comps =>
    if comps.length != 1 then .panic else
    match seifertCircles l signs with
    | .ok circles =>
      match circles.findIdx? (fun c => c.edges.contains base) with
      | none => .panic
      | some i =>
        let adj : Nat → Nat → Bool := fun i1 i2 => isAdj l (circles[i1]!).edges (circles[i2]!).edges
        match colouring adj ascending circles.length i with
        | some (col, _) => .ok ((List.range circles.length).map (fun k => (circles[k]!, col k)))
        | none => .err
    | .panic => .panic
    | .err => .err
  | .panic => .panic
  | .err => .err

/-! ### expansion of ⊗ (X or X − h) into cube generators -/

/-- basis expansion of one factor: colour a ↦ `X`, colour b ↦ `X − h`; as (label bit (1 = X), coefficient),
sorted by bit, zero-free -/
def factor (h : Int) : Colour → List (Nat × Int)
  | .a => [(1, 1)]
  | .b => if h = 0 then [(1, 1)] else [(0, -h), (1, 1)]

/-- expansion of the tensor product; the first colour belongs to mask bit 0 -/
def expand (h : Int) : List Colour → List (Nat × Int)
  | [] => [(0, 1)]
  | c :: cs => (expand h cs).flatMap (fun mk => (factor h c).map (fun bk => (2 * mk.1 + bk.1, bk.2 * mk.2)))

abbrev Chain := List (Gen × Int)

/-- colours of the circles of the orientation preserving state in `KhRef.circles` order:
circle `cs` gets the colour of the Seifert circle through its least edge -/
def coloursInRefOrder (cc : List (Path × Colour)) (refCircles : List (Array Nat)) : List Colour :=
  refCircles.map (fun cs =>
    match cc.find? (fun pc => pc.1.edges.contains (cs[0]!)) with
    | some pc => pc.2
    | none => .a)

/-- `TngComplexBuilder::new(l, h, 0, base_pt)` followed by no elimination: the canonical cycles as chains of
cube generators. `base = none` is the unreduced theory (two cycles, BFS started at `first_edge`);
`base = some e` the reduced theory based at `e` (one cycle).  Links that are not knots get no cycles. -/
def canonCyclesAt (l : Link) (signs : List Int) (h : Int) (base : Option Nat) : Res (List Chain) :=
  match components l with
  | .ok comps =>
    if comps.length != 1 then .ok [] else       -- `if t.is_zero() && l.is_knot()`
    match (match base with | some e => some e | none => firstEdge l) with
    | none => .panic                             -- `.unwrap()`
    | some start =>
      match coloredSeifertCircles l signs start with
      | .ok cc =>
        let s := oriPresState signs
        let cols := coloursInRefOrder cc (circles l (edgeLabels l) s).toList
        let mk (cs : List Colour) : Chain := (expand h cs).map (fun mk => (⟨s, mk.1⟩, mk.2))
        if base.isSome then .ok [mk cols] else .ok [mk cols, mk (cols.map Colour.other)]
      | .panic => .panic
      | .err => .err
  | .panic => .panic
  | .err => .err

/-- the library's choice: the reduced theory is based at `first_edge` -/
def canonCycles (l : Link) (signs : List Int) (h : Int) (reduced : Bool) : Res (List Chain) :=
  canonCyclesAt l signs h (if reduced then firstEdge l else none)

/-! ### local algebra used by the cycle lemma -/

/-- coefficient of the basis label `x` (true = X) in the colour vector: a = X, b = X − h -/
def colourCoef (h : Int) (c : Colour) (x : Bool) : Int :=
  if x then 1 else (match c with | .a => 0 | .b => -h)

/-- product formula for the coefficient of a labelling mask (bit `i` ↔ `i`-th colour); `0` if the mask has bits
beyond the circles -/
def coefSpec (h : Int) : List Colour → Nat → Int
  | [], m => if m = 0 then 1 else 0
  | c :: cs, m => colourCoef h c (m % 2 == 1) * coefSpec h cs (m / 2)

/-- coefficient of mask `m` in a list of (mask, coefficient) terms -/
def coefAt (ts : List (Nat × Int)) (m : Nat) : Int :=
  (ts.filter (fun t => t.1 == m)).foldl (fun acc t => acc + t.2) 0

/-- coefficient of the label `y` in the product of basis labels `x1·x2` (from `KhRef.prod`, t = 0) -/
def prodCoef (h : Int) (x1 x2 y : Bool) : Int :=
  ((prod h 0 x1 x2).filter (fun r => r.1 == y)).foldl (fun acc r => acc + r.2) 0

/-- coefficient of `y` in the product of the colour vectors `c1 · c2` -/
def mergeColours (h : Int) (c1 c2 : Colour) (y : Bool) : Int :=
  [true, false].foldl (fun acc x1 =>
    [true, false].foldl (fun acc x2 => acc + colourCoef h c1 x1 * colourCoef h c2 x2 * prodCoef h x1 x2 y) acc) 0

/-- remove position `i` from a labelling (list of labels) -/
def dropAt : Nat → List Bool → List Bool
  | _, [] => []
  | 0, _ :: xs => xs
  | i + 1, x :: xs => x :: dropAt i xs

def setAt : Nat → Bool → List Bool → List Bool
  | _, _, [] => []
  | 0, b, _ :: xs => b :: xs
  | i + 1, b, x :: xs => x :: setAt i b xs

/-- product-form coefficient of a labelling given as a list -/
def coefList (h : Int) : List Colour → List Bool → Int
  | c :: cs, x :: xs => colourCoef h c x * coefList h cs xs
  | [], [] => 1
  | _, _ => 0

/-- the merge edge map applied to the canonical chain, as a coefficient function: circles `i` and `j` of a
labelling `xs` (entries at `i`, `j` are ignored) are merged into one circle labelled `y`, the other labels are
kept; the coefficient of the result is Σ_{x1,x2} z(xs[i:=x1, j:=x2]) · ⟨y | x1·x2⟩ -/
def mergedCoef (h : Int) (cols : List Colour) (i j : Nat) (xs : List Bool) (y : Bool) : Int :=
  [true, false].foldl (fun acc x1 =>
    [true, false].foldl (fun acc x2 =>
      acc + coefList h cols (setAt j x2 (setAt i x1 xs)) * prodCoef h x1 x2 y) acc) 0

end Yuiv.C06Canon
