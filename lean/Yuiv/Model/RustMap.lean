import Yuiv.Model.Res
import Yuiv.Model.RustRing
/-
Meaning of the hash-map / iterator primitives used by the definitions that `tools/rs2lean_fn.py` (renderer
tools/rs2lean_poly.py, target `fn:poly`) generates from `yui/src/types/lc/lc.rs` and `yui/src/types/poly/*.rs`
(hand-written, import-free, TRUSTED).

* `AHashMap<K, V>` is the association list `AMap K V`.  The ORDER of the list stands for the (unspecified) iteration
  order of the hash map: `iter`, `into_iter`, `keys`, `retain`, `iter_mut` walk it front to back; `insert` of a key
  that is absent appends the binding, `insert` of a present key replaces its value in place; keys are kept distinct
  by every operation when they were distinct before.  The hand model `Yuiv/Model/C16.lean` uses the same convention
  and `Props.C16.perm_of_same_coeff` shows that the order is immaterial for every compared result.
* `m.get(k)` is the value of the first binding of `k`; `let v = m.get_mut(k).unwrap()` is `Opt.unwrap (get m k)`
  (panic when absent) and a mutation of `*v` is written back with `set m k v` (replaces the value of the first
  binding of `k`, nothing when absent).
* `m.iter_mut().for_each(|(k, v)| …)` is `map_values` (the new value as a function of key and old value).
* `let e = m.entry(k).or_insert_with(|| d)` is `or_insert m k d` followed by the `get_mut` reading above.
* `a - b` on `usize` is `Poly.usub` (panics on underflow), `v[i]` is `Poly.index` (panics out of range).
* `BTreeMap<K, V>` is `BMap K V`, the list of its entries in key order: `insert` puts a new key at its place and
  overwrites an existing one (as `mdInsert` of the hand model); `get / contains_key / set / retain / keys / iter` as for
  `AMap`; iteration is in key order.  `lo..=hi` is `Poly.range_incl`, `Iterator::min / max` on `usize` items `Poly.min / max`.
* `for x in xs { … }` whose body may panic is the fold `Poly.forM`; `lo..hi` is `Poly.range lo hi`;
  `Iterator::max_by(cmp)` returns the LAST maximal element (std: `fold` keeping `y` unless `cmp(x, y) == Greater`).
* `I::cmp` of the exponent types is `Poly.cmpI`; `MonoOrd` is the trait of `yui/src/types/poly/mono.rs`.
-/
namespace Yuiv.Rust
open Yuiv Res

/-- `AHashMap<K, V>` -/
abbrev AMap (K V : Type) := List (K × V)

namespace AMap
variable {K V : Type}

def new : AMap K V := []
def len (m : AMap K V) : Nat := List.length m
def is_empty (m : AMap K V) : Bool := List.isEmpty m
def iter (m : AMap K V) : List (K × V) := m
def keys (m : AMap K V) : List K := List.map (fun e => e.1) m
/-- `m.retain(|k, v| p)` -/
def retain (m : AMap K V) (p : K → V → Bool) : AMap K V := List.filter (fun e => p e.1 e.2) m
/-- `m.iter_mut().for_each(|(k, v)| *v = f k v)` -/
def map_values (m : AMap K V) (f : K → V → V) : AMap K V := List.map (fun e => (e.1, f e.1 e.2)) m

variable [DecidableEq K]

def get : AMap K V → K → Option V
  | [], _ => none
  | (y, v) :: t, x => if y = x then some v else get t x

def contains_key (m : AMap K V) (k : K) : Bool := (get m k).isSome

/-- write-back through the reference returned by `get_mut(k)` -/
def set : AMap K V → K → V → AMap K V
  | [], _, _ => []
  | (y, v) :: t, x, w => if y = x then (y, w) :: t else (y, v) :: set t x w

/-- `m.insert(k, v)` -/
def insert (m : AMap K V) (k : K) (v : V) : AMap K V :=
  if contains_key m k then set m k v else m ++ [(k, v)]

/-- `m.entry(k).or_insert_with(|| d)`: the binding of `k` is created (appended) when absent -/
def or_insert (m : AMap K V) (k : K) (d : V) : AMap K V :=
  if contains_key m k then m else m ++ [(k, d)]

end AMap

/-- `BTreeMap<K, V>`: the list of its entries in key order (strictly increasing keys; `insert` keeps them so) -/
abbrev BMap (K V : Type) := List (K × V)

namespace BMap
variable {K V : Type}

def new : BMap K V := []
def len (m : BMap K V) : Nat := List.length m
def is_empty (m : BMap K V) : Bool := List.isEmpty m
def iter (m : BMap K V) : List (K × V) := m
def keys (m : BMap K V) : List K := List.map (fun e => e.1) m
def retain (m : BMap K V) (p : K → V → Bool) : BMap K V := List.filter (fun e => p e.1 e.2) m
def map_values (m : BMap K V) (f : K → V → V) : BMap K V := List.map (fun e => (e.1, f e.1 e.2)) m

variable [DecidableEq K] [LT K] [DecidableLT K]

def get : BMap K V → K → Option V
  | [], _ => none
  | (y, v) :: t, x => if y = x then some v else get t x

def contains_key (m : BMap K V) (k : K) : Bool := (get m k).isSome

/-- write-back through the reference returned by `get_mut(k)` -/
def set : BMap K V → K → V → BMap K V
  | [], _, _ => []
  | (y, v) :: t, x, w => if y = x then (y, w) :: t else (y, v) :: set t x w

/-- `m.insert(k, v)`: at its place in the key order; an existing binding is overwritten -/
def insert : BMap K V → K → V → BMap K V
  | [], k, v => [(k, v)]
  | (y, w) :: t, k, v =>
    if k < y then (k, v) :: (y, w) :: t
    else if k = y then (y, v) :: t
    else (y, w) :: insert t k v

end BMap

/-- `trait MonoOrd` (yui/src/types/poly/mono.rs) -/
class MonoOrd (X : Type) where
  cmp_lex : X → X → Ordering
  cmp_grlex : X → X → Ordering

namespace Poly

/-- `for x in xs { s = f(s, x)? }` -/
def forM {β σ : Type} (xs : List β) (s : σ) (f : σ → β → Res σ) : Res σ :=
  match xs with
  | [] => ok s
  | x :: xs => Res.bind (f s x) (fun s' => forM xs s' f)

/-- `lo..hi` -/
def range (lo hi : Nat) : List Nat := List.range' lo (hi - lo)

/-- `a - b` on `usize` (overflow checks ON: underflow panics) -/
def usub (a b : Nat) : Res Nat := if b ≤ a then ok (a - b) else panic

/-- `v[i]` on a slice / `Vec` (out of range panics) -/
def index {α : Type} (l : List α) (i : Nat) : Res α := Opt.unwrap l[i]?

/-- `lo..=hi` -/
def range_incl (lo hi : Nat) : List Nat := List.range' lo (hi + 1 - lo)

/-- `Iterator::min` / `max` on `usize` items -/
def min : List Nat → Option Nat
  | [] => none
  | x :: t => some (t.foldl Nat.min x)
def max : List Nat → Option Nat
  | [] => none
  | x :: t => some (t.foldl Nat.max x)

/-- `Ord::cmp` of the exponent types -/
def cmpI {I : Type} [LT I] [DecidableLT I] [DecidableEq I] (a b : I) : Ordering :=
  if a < b then .lt else if a = b then .eq else .gt

/-- `Iterator::max_by` -/
def max_by {α : Type} (cmp : α → α → Ordering) : List α → Option α
  | [] => none
  | p :: t => some (t.foldl (fun acc q => if cmp acc q = .gt then acc else q) p)

end Poly

end Yuiv.Rust
