import Yuiv.Model.Res
/-
C10 — model of `yui-matrix/src/dense/lll.rs` over ℤ (core Lean only).

Part 1: executable CHECKERS (`transformOk`, `isHnf`, `isLLLReduced`) whose soundness is proved in
        `Yuiv.Props.C10`; they are applied by the driver to the outputs of the real Rust code.
Part 2: the row primitives of `LLLData` on the triple `(target, p, pinv)` (`Tr.swapRows`, `Tr.mulRow`,
        `Tr.addRowTo`), with Rust's `assert!`s / index checks as `Res.panic`.
Part 3: the literal model of `LLLData` (`det`, `lambda`, `step`), `LLLCalc` and `LLLHNFCalc` over ℤ with the
        exact update formulas; loops take fuel.

Simplifications (all recorded in props/C10.json):
  * scalars are unbounded `Int` (the i64/i128 overflow panics of the Rust build are out of scope);
  * `p`/`pinv` are always tracked; the flags only select what is returned (in Rust an untracked transform is
    `None` and never read, so `target/det/lambda/step` do not depend on the flags);
  * matrices are rebuilt entry by entry by `mkMat` instead of being updated in place.
-/
namespace Yuiv.C10
open Yuiv

/-! ## matrices -/

abbrev Mat := Array (Array Int)

/-- entry (0 outside the stored range) -/
@[inline] def ent (A : Mat) (i j : Nat) : Int := (A.getD i #[]).getD j 0

def mkMat (m n : Nat) (f : Nat → Nat → Int) : Mat :=
  Array.ofFn (n := m) fun i => Array.ofFn (n := n) fun j => f i.val j.val

def wfMat (A : Mat) (m n : Nat) : Bool := A.size == m && A.all (fun r => r.size == n)

def allLt (n : Nat) (p : Nat → Bool) : Bool := (List.range n).all p
def sumLt (n : Nat) (f : Nat → Int) : Int := ((List.range n).map f).foldr (· + ·) 0

def idMat (m : Nat) : Mat := mkMat m m fun i j => if i = j then 1 else 0
def zeroMat (m n : Nat) : Mat := mkMat m n fun _ _ => 0

/-! ## Part 1: checkers -/

/-- `(P·A)[i,j]` with inner dimension `l` -/
def mulEnt (l : Nat) (P A : Mat) (i j : Nat) : Int := sumLt l fun k => ent P i k * ent A k j

/-- `P·A == B` for `P : m×l`, `A : l×n` -/
def mulEq (m l n : Nat) (P A B : Mat) : Bool :=
  allLt m fun i => allLt n fun j => mulEnt l P A i j == ent B i j

/-- `P·A == B && P·Pinv == I` (`A B : m×n`, `P Pinv : m×m`) -/
def transformOk (m n : Nat) (A B P Pinv : Mat) : Bool :=
  mulEq m m n P A B && mulEq m m m P Pinv (idMat m)

/-- first non-zero column of row `i` (`n` for a zero row) -/
def leadCol (n : Nat) (H : Mat) (i : Nat) : Nat :=
  ((List.range n).find? fun j => ent H i j != 0).getD n

/-- Row echelon form as produced by `lll_hnf` (after its final row reversal): leading columns strictly
increasing over the non-zero rows, zero rows last, positive pivots, zeros below a pivot,
`N(x) < N(pivot)` for every entry `x` above a pivot. -/
def isHnf (m n : Nat) (H : Mat) : Bool :=
  let lead := leadCol n H
  allLt m fun i =>
    decide (lead i ≤ n)
    && (allLt n fun j => !(decide (j < lead i)) || ent H i j == 0)
    && (!(decide (lead i < n)) ||
          (decide (0 < ent H i (lead i))
           && allLt m fun i' =>
                if i < i' then decide (lead i < lead i') && ent H i' (lead i) == 0
                else if i' < i then decide (ent H i' (lead i) * ent H i' (lead i) < ent H i (lead i) * ent H i (lead i))
                else true))
    && (!(lead i == n) || allLt m fun i' => !(decide (i < i')) || lead i' == n)

abbrev QMat := Array (Array Rat)
@[inline] def entQ (A : QMat) (i j : Nat) : Rat := (A.getD i #[]).getD j 0
def sumLtQ (n : Nat) (f : Nat → Rat) : Rat := ((List.range n).map f).foldr (· + ·) 0

/-- Gram–Schmidt over ℚ: returns `(b*, μ)`. This computation is NOT trusted: `isLLLReduced` re-checks the
defining equations of the result. -/
def gramSchmidt (m n : Nat) (B : Mat) : QMat × QMat :=
  (List.range m).foldl (init := (#[], #[])) fun (bs, mu) i =>
    let mui : Array Rat := Array.ofFn (n := i) fun j =>
      (sumLtQ n fun c => (ent B i c : Rat) * entQ bs j c) / (sumLtQ n fun c => entQ bs j c * entQ bs j c)
    let bsi : Array Rat := Array.ofFn (n := n) fun c =>
      (ent B i c : Rat) - sumLtQ i fun j => mui.getD j 0 * entQ bs j c
    (bs.push bsi, mu.push mui)

/-- the checks on a claimed Gram–Schmidt decomposition `(bs, mu)` of `B` plus size-reducedness and the Lovász
condition with constant `p/q` -/
def reducedWith (m n : Nat) (B : Mat) (p q : Int) (bs mu : QMat) : Bool :=
  let nrm : Nat → Rat := fun i => sumLtQ n fun c => entQ bs i c * entQ bs i c
  (allLt m fun i => allLt n fun c =>
      (ent B i c : Rat) == entQ bs i c + sumLtQ i fun j => entQ mu i j * entQ bs j c)
  && (allLt m fun i => allLt i fun j => (sumLtQ n fun c => entQ bs i c * entQ bs j c) == 0)
  && (allLt m fun i => decide (0 < nrm i))
  && (allLt m fun i => allLt i fun j => decide (-(1/2 : Rat) ≤ entQ mu i j) && decide (entQ mu i j ≤ 1/2))
  && (allLt m fun k => k == 0 ||
      decide (((p : Rat) / (q : Rat) - entQ mu k (k-1) * entQ mu k (k-1)) * nrm (k-1) ≤ nrm k))

def isLLLReduced (m n : Nat) (B : Mat) (p q : Int) : Bool :=
  let g := gramSchmidt m n B
  reducedWith m n B p q g.1 g.2

/-- the constant `alpha()` of `impl_for_int!` -/
def alphaZ : Int × Int := (3, 4)

/-! ## Part 2: row primitives on `(target, p, pinv)` -/

def mSwapRows (m n : Nat) (A : Mat) (i j : Nat) : Mat :=
  mkMat m n fun r c => ent A (if r = i then j else if r = j then i else r) c
def mSwapCols (m n : Nat) (A : Mat) (i j : Nat) : Mat :=
  mkMat m n fun r c => ent A r (if c = i then j else if c = j then i else c)
/-- `row_mut(i) *= u` -/
def mMulRow (m n : Nat) (A : Mat) (i : Nat) (u : Int) : Mat :=
  mkMat m n fun r c => if r = i then ent A r c * u else ent A r c
def mMulCol (m n : Nat) (A : Mat) (j : Nat) (u : Int) : Mat :=
  mkMat m n fun r c => if c = j then ent A r c * u else ent A r c
/-- `Mat::add_row_to(i, j, r)`: row `j` += row `i` · `r` -/
def mAddRowTo (m n : Nat) (A : Mat) (i j : Nat) (r : Int) : Mat :=
  mkMat m n fun r' c => if r' = j then ent A r' c + ent A i c * r else ent A r' c
/-- `Mat::add_col_to(i, j, r)`: column `j` += column `i` · `r` -/
def mAddColTo (m n : Nat) (A : Mat) (i j : Nat) (r : Int) : Mat :=
  mkMat m n fun r' c => if c = j then ent A r' c + ent A r' i * r else ent A r' c

/-- the transform-carrying part of `LLLData` -/
structure Tr where
  m : Nat
  n : Nat
  target : Mat
  p : Mat
  pinv : Mat

def Tr.init (m n : Nat) (A : Mat) : Tr :=
  { m, n, target := mkMat m n (ent A), p := idMat m, pinv := idMat m }

/-- `target.swap_rows(i,j); p.swap_rows(i,j); pinv.swap_cols(i,j)` (nalgebra panics on a bad index) -/
def Tr.swapRows (t : Tr) (i j : Nat) : Res Tr := do
  Res.assert (decide (i < t.m) && decide (j < t.m))
  pure { t with target := mSwapRows t.m t.n t.target i j,
                p := mSwapRows t.m t.m t.p i j,
                pinv := mSwapCols t.m t.m t.pinv i j }

def isUnitZ (r : Int) : Bool := r == 1 || -r == 1

/-- `LLLData::mul_row` on the transform part: `assert!(r.is_unit())`, `rinv = r.inv().unwrap() = r` -/
def Tr.mulRow (t : Tr) (i : Nat) (r : Int) : Res Tr := do
  Res.assert (isUnitZ r)
  Res.assert (decide (i < t.m))
  pure { t with target := mMulRow t.m t.n t.target i r,
                p := mMulRow t.m t.m t.p i r,
                pinv := mMulCol t.m t.m t.pinv i r }

/-- `LLLData::add_row_to(i, k, r)` on the transform part: `assert!(i < k)`; row k += r·row i;
`pinv.add_col_to(k, i, -r)` -/
def Tr.addRowTo (t : Tr) (i k : Nat) (r : Int) : Res Tr := do
  Res.assert (decide (i < k))
  Res.assert (decide (k < t.m))
  pure { t with target := mAddRowTo t.m t.n t.target i k r,
                p := mAddRowTo t.m t.m t.p i k r,
                pinv := mAddColTo t.m t.m t.pinv k i (-r) }

inductive Prim where
  | swap (i j : Nat)
  | mul (i : Nat) (u : Int)
  | add (i k : Nat) (r : Int)
deriving Repr

def Tr.apply (t : Tr) : Prim → Res Tr
  | .swap i j => t.swapRows i j
  | .mul i u => t.mulRow i u
  | .add i k r => t.addRowTo i k r

def Tr.run (t : Tr) : List Prim → Res Tr
  | [] => pure t
  | op :: ops => do let t' ← t.apply op; t'.run ops

/-! ## Part 3: literal model of `LLLData`, `LLLCalc`, `LLLHNFCalc` over ℤ -/

structure Data where
  tr : Tr
  det : Array Int
  lam : Mat
  step : Nat

/-- `&d[i]` (index panic outside) -/
def detAt (d : Data) (i : Nat) : Res Int :=
  if i < d.det.size then pure (d.det.getD i 0) else Res.panic

/-- `if k >= 2 { &d[k - 2] } else { &one }` -/
def detPrev (d : Data) (k : Nat) : Res Int := if k ≥ 2 then detAt d (k - 2) else pure 1

/-- Rust's `/` on integers (`panic` on a zero divisor) -/
def idiv (a b : Int) : Res Int := if b = 0 then Res.panic else pure (a.tdiv b)

/-- `DivRound::div_round` of `yui/src/misc/int_ext.rs` (exact; ties away from zero; magnitudes are compared
negated as in the code) -/
def divRound (a b : Int) : Res Int :=
  if b = 0 then Res.panic else
    let quo := a.tdiv b
    let rem := a.tmod b
    let nr := if 0 < rem then -rem else rem
    let nb := if 0 < b then -b else b
    if nr ≤ nb - nr then
      if decide (a < 0) == decide (b < 0) then pure (quo + 1) else pure (quo - 1)
    else pure quo

def Data.new (m n : Nat) (A : Mat) : Data :=
  { tr := Tr.init m n A, det := Array.replicate m 1, lam := zeroMat m m, step := 1 }

def dotRow (n : Nat) (x y : Nat → Int) : Int := sumLt n fun c => x c * y c

/-- `orthogonalize`: integral Gram–Schmidt data `(l, d)` of the rows of `b` (the matrix `c` is internal) -/
def orthogonalize (m n : Nat) (b : Mat) : Res (Mat × Array Int) := do
  Res.assert (m != 0)   -- `d[0]` on an empty vector
  let d0 : Array Int := (Array.replicate m 1).set! 0 (dotRow n (ent b 0) (ent b 0))
  let init : Res (Mat × Mat × Array Int) := pure (mkMat m n (ent b), zeroMat m m, d0)
  let r ← (List.range (m - 1)).foldl (init := init) fun acc i' => do
    let (c, l, d) ← acc
    let i := i' + 1
    let inner : Res (Mat × Mat) := (List.range i).foldl (init := pure (c, l)) fun acc2 j => do
      let (c, l) ← acc2
      let l0 := dotRow n (ent b i) (ent c j)
      let dd0 := if j > 0 then d.getD (j - 1) 0 else 1
      let dd1 := d.getD j 0
      Res.assert (dd0 != 0)   -- division by zero below
      let c' := mkMat m n fun r col =>
        if r = i then (ent c i col * dd1 - ent c j col * l0).tdiv dd0 else ent c r col
      let l' := mkMat m m fun r col => if r = i ∧ col = j then l0 else ent l r col
      pure (c', l')
    let (c, l) ← inner
    let di ← idiv (dotRow n (ent c i) (ent c i)) (d.getD (i - 1) 0)
    pure (c, l, d.set! i di)
  pure (r.2.1, r.2.2)

/-- `LLLData::setup` -/
def Data.setup (d : Data) : Res Data := do
  let (l, dd) ← orthogonalize d.tr.m d.tr.n d.tr.target
  pure { d with lam := l, det := dd }

/-- `LLLData::lovasz_ok` with `alpha = (p, q)` -/
def Data.lovaszOk (d : Data) (k : Nat) : Res Bool := do
  Res.assert (decide (0 < k))
  let (p, q) := alphaZ
  let d0 ← detPrev d k
  let d1 ← detAt d (k - 1)
  let d2 ← detAt d k
  let l0 := ent d.lam k (k - 1)
  let lhs := q * (d0 * d2 + l0 * l0)
  let rhs := p * (d1 * d1)
  pure (decide (rhs ≤ lhs))

/-- `LLLData::add_row_to` -/
def Data.addRowTo (d : Data) (i k : Nat) (r : Int) : Res Data := do
  let tr ← d.tr.addRowTo i k r
  let di ← detAt d i
  let m := d.tr.m
  let lam := mkMat m m fun a b =>
    if a = k then
      if b = i then ent d.lam k i + r * di
      else if b < i then ent d.lam k b + r * ent d.lam i b
      else ent d.lam a b
    else ent d.lam a b
  pure { d with tr := tr, lam := lam }

/-- `LLLData::reduce` -/
def Data.reduce (d : Data) (i k : Nat) : Res Data := do
  Res.assert (decide (i < k))
  Res.assert (decide (k < d.tr.m))
  let di ← detAt d i
  let q ← divRound (ent d.lam k i) di
  if q ≠ 0 then d.addRowTo i k (-q) else pure d

/-- `LLLData::swap` -/
def Data.swap (d : Data) (k : Nat) : Res Data := do
  Res.assert (decide (0 < k))
  let tr ← d.tr.swapRows (k - 1) k
  let m := d.tr.m
  -- λ[k-1, ..] <--> λ[k, ..] on the columns 0..k-1
  let lam1 := mkMat m m fun a b =>
    if b < k - 1 then ent d.lam (if a = k - 1 then k else if a = k then k - 1 else a) b else ent d.lam a b
  let d0 ← detPrev d k
  let d1 ← detAt d (k - 1)
  let d2 ← detAt d k
  Res.assert (d1 != 0)   -- division by zero below
  let l0 := ent lam1 k (k - 1)
  -- rows i > k: each iteration of the Rust loop reads row i and λ[k,k-1] only
  let lam2 := mkMat m m fun a b =>
    if k < a then
      let l1 := ent lam1 a (k - 1)
      let l2 := ent lam1 a k
      if b = k - 1 then (l0 * l1 + l2 * d0).tdiv d1
      else if b = k then (l1 * d2 - l2 * l0).tdiv d1
      else ent lam1 a b
    else ent lam1 a b
  let det := d.det.set! (k - 1) ((d0 * d2 + l0 * l0).tdiv d1)
  -- λ[k,k-1] = conj(l0) = l0
  pure { d with tr := tr, lam := lam2, det := det }

/-- `LLLData::mul_row` -/
def Data.mulRow (d : Data) (i : Nat) (r : Int) : Res Data := do
  let tr ← d.tr.mulRow i r
  let m := d.tr.m
  pure { d with tr := tr, lam := mMulCol m m (mMulRow m m d.lam i r) i r }

/-- `if !u.is_one() { self.data.mul_row(i, &u) }` -/
def Data.mulRowIf (d : Data) (i : Nat) (u : Int) : Res Data := if u ≠ 1 then d.mulRow i u else pure d

/-- `LLLData::nz_col_in` -/
def Data.nzColIn (d : Data) (i : Nat) : Option Nat :=
  (List.range d.tr.n).find? fun j => ent d.tr.target i j != 0

def Data.next (d : Data) : Data := { d with step := d.step + 1 }
def Data.back (d : Data) : Data := if d.step > 1 then { d with step := d.step - 1 } else d

/-- `for i in (0..k-1).rev() { f(i, k) }` -/
def revLoop (f : Data → Nat → Res Data) (d : Data) : Nat → Res Data
  | 0 => pure d
  | i + 1 => do let d' ← f d i; revLoop f d' i

/-- `LLLCalc::iterate` -/
def lllIterate (d : Data) : Res Data := do
  let k := d.step
  let d ← d.reduce (k - 1) k
  if ← d.lovaszOk k then
    let d ← revLoop (fun d i => d.reduce i k) d (k - 1)
    pure d.next
  else
    let d ← d.swap k
    pure d.back

/-- `while step < m { iterate }` with fuel (`err` = fuel exhausted) -/
def loopWhile (it : Data → Res Data) : Nat → Data → Res Data
  | 0, d => if d.step < d.tr.m then Res.err else pure d
  | fuel + 1, d => if d.step < d.tr.m then do let d' ← it d; loopWhile it fuel d' else pure d

/-- `lll_in_place`: `(B, P)` (the caller drops `P` when `with_trans` is false) -/
def lll (fuel m n : Nat) (A : Mat) : Res Data := do
  let d ← (Data.new m n A).setup
  loopWhile lllIterate fuel d

/-- `LLLHNFCalc::reduce` -/
def hnfReduce (d : Data) (i k : Nat) : Res Data := do
  Res.assert (decide (i < k))
  Res.assert (decide (k < d.tr.m))
  match d.nzColIn i with
  | some j =>
    let a := ent d.tr.target i j
    let u : Int := if a < 0 then -1 else 1
    let d ← d.mulRowIf i u
    let a0 := ent d.tr.target i j
    let a1 := ent d.tr.target k j
    let q ← divRound a1 a0
    if q ≠ 0 then d.addRowTo i k (-q) else pure d
  | none => d.reduce i k

/-- `LLLHNFCalc::is_ok` -/
def hnfIsOk (d : Data) (k : Nat) : Res Bool := do
  Res.assert (decide (0 < k))
  match d.nzColIn (k - 1), d.nzColIn k with
  | some j, some l => pure (decide (l < j))
  | some _, none => pure false
  | none, some _ => pure true
  | none, none => d.lovaszOk k

/-- `LLLHNFCalc::iterate` -/
def hnfIterate (d : Data) : Res Data := do
  let k := d.step
  let d ← hnfReduce d (k - 1) k
  if ← hnfIsOk d k then
    let d ← revLoop (fun d i => hnfReduce d i k) d (k - 1)
    pure d.next
  else
    let d ← d.swap k
    pure d.back

/-- tail of `LLLHNFCalc::process`: `reduce(i, k)` normalises the pivot of row `i < k` only, so the last row
(the first row of the result) is normalised after the loop -/
def hnfNormalizeLast (d : Data) : Res Data :=
  if 0 < d.tr.m then
    let i := d.tr.m - 1
    match d.nzColIn i with
    | some j =>
      let a := ent d.tr.target i j
      let u : Int := if a < 0 then -1 else 1
      d.mulRowIf i u
    | none => pure d
  else pure d

/-- the final row reversal of `LLLHNFCalc::result` -/
def reverseRows (t : Tr) : Nat → Nat → Res Tr
  | 0, _ => pure t
  | cnt + 1, i =>
    let j := t.m - i - 1
    if i = j then pure t else do
      let t' ← t.swapRows i j
      reverseRows t' cnt (i + 1)

/-- `lll_hnf_in_place`: `(H, P, P⁻¹)` -/
def lllHnf (fuel m n : Nat) (A : Mat) : Res Tr := do
  let d ← loopWhile hnfIterate fuel (Data.new m n A)
  let d ← hnfNormalizeLast d
  reverseRows d.tr (d.tr.m / 2) 0

/-! ## bookkeeping probe (explored, not proved): `det`/`lambda` against a recomputation from scratch -/

/-- do `det`, `lambda` (strictly lower triangle) equal `orthogonalize` of the rows of `rows`? -/
def bookOk (d : Data) (rows : Mat) (n : Nat) : Bool :=
  match orthogonalize d.tr.m n rows with
  | .ok (l, dd) =>
    (allLt d.tr.m fun i => d.det.getD i 0 == dd.getD i 0)
    && (allLt d.tr.m fun i => allLt i fun j => ent d.lam i j == ent l i j)
  | _ => false

/-- `loopWhile` that checks `bookOk` before every iteration and at the end; returns the number of iterations -/
def loopBook (it : Data → Res Data) (rowsOf : Data → Mat × Nat) : Nat → Nat → Data → Res (Option Nat)
  | 0, _, _ => Res.err
  | fuel + 1, cnt, d =>
    let (rows, n) := rowsOf d
    if !(bookOk d rows n) then pure none
    else if d.step < d.tr.m then do let d' ← it d; loopBook it rowsOf fuel (cnt + 1) d'
    else pure (some cnt)

/-- LLL mode: `det/lambda` are the integral Gram–Schmidt data of the rows of `target` -/
def bookLll (fuel m n : Nat) (A : Mat) : Res (Option Nat) := do
  let d ← (Data.new m n A).setup
  loopBook lllIterate (fun d => (d.tr.target, d.tr.n)) fuel 0 d

/-- Hermite mode (Havas–Majewski–Matthews): `det/lambda` are the integral Gram–Schmidt data of the rows of `P` -/
def bookHnf (fuel m n : Nat) (A : Mat) : Res (Option Nat) :=
  if m = 0 then pure (some 0) else
  loopBook hnfIterate (fun d => (d.tr.p, d.tr.m)) fuel 0 (Data.new m n A)

end Yuiv.C10
