/-
Result type shared by all code models: a Rust call either returns a value, panics
(`assert!`, overflow check, `unwrap` on `None`, index out of range …) or — for the few
APIs that return `Result` — reports an ordinary error.  Panics are never totalised away.
-/
namespace Yuiv

inductive Res (α : Type) where
  | ok (a : α)
  | panic
  | err
deriving Repr, DecidableEq, Inhabited

namespace Res

@[inline] def bind {α β} (x : Res α) (f : α → Res β) : Res β :=
  match x with
  | ok a => f a
  | panic => panic
  | err => err

instance : Monad Res where
  pure := ok
  bind := bind

@[simp] theorem bind_ok {α β} (a : α) (f : α → Res β) : (ok a >>= f) = f a := rfl
@[simp] theorem bind_panic {α β} (f : α → Res β) : ((panic : Res α) >>= f) = panic := rfl
@[simp] theorem bind_err {α β} (f : α → Res β) : ((err : Res α) >>= f) = err := rfl
@[simp] theorem pure_eq {α} (a : α) : (pure a : Res α) = ok a := rfl

def isOk {α} : Res α → Bool
  | ok _ => true
  | _ => false

/-- `assert!(c)` -/
@[inline] def assert (c : Bool) : Res Unit := if c then ok () else panic

end Res
end Yuiv
