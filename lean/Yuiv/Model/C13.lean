import Yuiv.Model.Res
/-
Code model of `yui-matrix/src/sparse/{sp_mat.rs, sp_vec.rs, trans.rs, util.rs}` and
`yui-matrix/src/dense/mat.rs`.

* A sparse matrix (`SpMat`, a `nalgebra_sparse::CscMatrix`) is its shape plus its columns, each
  column being the stored `(row, value)` pairs (rows strictly increasing, zeros may be stored).
  The raw CSC arrays (`disassemble` / `try_from_csc_data`) are derived from / validated into this
  form; the two raw-offset routines (`from_col_vecs`, `extend_cols`) and `SpVec::stack_vecs`,
  `from_sorted_entries` are modelled on the raw arrays, exactly like the Rust code.
* nalgebra's kernels (COO→CSC with duplicate summation, `+ − · neg transpose`, dense↔sparse) are
  trusted dependencies: they are modelled by their mathematical definition (`cooToCsc` of a
  triplet list) and compared entrywise with the real code in the differential run.
* Every `assert!`, `unwrap`, index and bounds check of yui's own code (and of the dependency
  calls it makes: `CooMatrix::push`, `PermView::at`, `PermOwned::new`, `try_from_csc_data`,
  shape checks of `+ − ·`, row/column access of `DMatrix`) is an explicit `Res.panic`.
* Scalars: any type with `0 1 + * neg −` and decidable equality (`is_zero` is `a = 0`).

Import-free (core Lean only).
-/
namespace Yuiv.C13
open Yuiv Res

abbrev Trip (R : Type) := Nat × Nat × R

/-! ### sparse matrix container -/

structure SpMat (R : Type) where
  nrows : Nat
  ncols : Nat
  cols : List (List (Nat × R))
deriving Repr, Inhabited

structure SpVec (R : Type) where
  dim : Nat
  ents : List (Nat × R)
deriving Repr, Inhabited

/-- `sprs` permutation: `Identity` (`map = none`) or `FinitePerm` -/
structure Perm where
  dim : Nat
  map : Option (List Nat)
deriving Repr, Inhabited, DecidableEq

section basic
variable {R : Type}

/-- `triplet_iter`: column by column -/
def tripsFrom (j : Nat) : List (List (Nat × R)) → List (Trip R)
  | [] => []
  | c :: cs => c.map (fun p => (p.1, j, p.2)) ++ tripsFrom (j + 1) cs

def SpMat.triplets (A : SpMat R) : List (Trip R) := tripsFrom 0 A.cols

def SpMat.zero (m n : Nat) : SpMat R := ⟨m, n, List.replicate n []⟩

def SpVec.toMat (v : SpVec R) : SpMat R := ⟨v.dim, 1, [v.ents]⟩

/-- `SpVec::new` / `into_spvec`: `assert_eq!(inner.ncols(), 1)` -/
def SpMat.intoSpVec (A : SpMat R) : Res (SpVec R) :=
  if A.ncols = 1 then ok ⟨A.nrows, A.cols.getD 0 []⟩ else panic

/-- column offsets of a CSC matrix, starting at `s` -/
def offsetsFrom (s : Nat) : List (List (Nat × R)) → List Nat
  | [] => [s]
  | c :: cs => s :: offsetsFrom (s + c.length) cs

/-- `CscMatrix::disassemble` -/
def SpMat.disassemble (A : SpMat R) : List Nat × List Nat × List R :=
  (offsetsFrom 0 A.cols, A.cols.flatten.map (·.1), A.cols.flatten.map (·.2))

/-- cut a flat array into lanes along consecutive offsets -/
def splitLanes {α : Type} (xs : List α) : List Nat → List (List α)
  | a :: b :: rest => ((xs.drop a).take (b - a)) :: splitLanes xs (b :: rest)
  | _ => []

def strictInc : List Nat → Bool
  | a :: b :: rest => a < b && strictInc (b :: rest)
  | _ => true

def monotone : List Nat → Bool
  | a :: b :: rest => a ≤ b && monotone (b :: rest)
  | _ => true

/-- `CscMatrix::try_from_csc_data(..).unwrap()`: offsets array of length `n+1`, first `0`, last `nnz`,
monotone; in every lane the row indices are in bounds and strictly increasing; one value per index. -/
def tryFromCsc (m n : Nat) (offs rows : List Nat) (vals : List R) : Res (SpMat R) :=
  if offs.length = n + 1 ∧ offs.head? = some 0 ∧ offs.getLast? = some rows.length
      ∧ monotone offs = true ∧ vals.length = rows.length
      ∧ (splitLanes rows offs).all (fun l => l.all (· < m) && strictInc l) = true then
    ok ⟨m, n, splitLanes (rows.zip vals) offs⟩
  else panic

end basic

/-! ### permutations (`sprs::Permutation`) and `util::perm_for_indices` -/

/-- `sprs::perm_is_valid` -/
def permIsValidGo (n : Nat) : List Nat → List Nat → Bool
  | _, [] => true
  | seen, i :: rest => if i ≥ n || seen.contains i then false else permIsValidGo n (i :: seen) rest

def permIsValid (l : List Nat) : Bool := permIsValidGo l.length [] l

/-- `PermOwned::new`: `assert!(perm_is_valid(&perm))` -/
def Perm.new (l : List Nat) : Res Perm := if permIsValid l then ok ⟨l.length, some l⟩ else panic

def Perm.identity (n : Nat) : Perm := ⟨n, none⟩

/-- `Permutation::at`: `assert!(index < self.dim)`, then the index itself or `perm[index]` -/
def Perm.at (p : Perm) (i : Nat) : Res Nat :=
  if i < p.dim then
    match p.map with
    | none => ok i
    | some l => match l[i]? with
      | some x => ok x
      | none => panic
  else panic

/-- `inv[j] = i` (indexing panics out of range) -/
def setIdx (inv : List Nat) (j i : Nat) : Res (List Nat) :=
  if j < inv.length then ok (inv.set j i) else panic

def fillInv : List Nat → Nat → List Nat → Res (List Nat)
  | inv, _, [] => ok inv
  | inv, i, j :: rest => do
    let inv' ← setIdx inv j i
    fillInv inv' (i + 1) rest

/-- `util::perm_for_indices(n, indices)` -/
def permForIndices (n : Nat) (indices : List Nat) : Res Perm := do
  -- for &i in indices { assert!(i < n); vec.push(i); set.remove(&i) }
  assert (indices.all (· < n))
  let rest := (List.range n).filter (fun i => !indices.contains i)   -- remaining BTreeSet, ascending
  let vec := indices ++ rest
  let inv ← fillInv (List.replicate n 0) 0 vec
  Perm.new inv

section ring
variable {R : Type} [Zero R] [Add R] [DecidableEq R]

/-! ### entries -/

/-- sum of the values stored at row `i` in one column -/
def sumAt (c : List (Nat × R)) (i : Nat) : R := ((c.filter (fun p => p.1 == i)).map (·.2)).sum

/-- entry `(i, j)` of a triplet list: duplicates are summed -/
def entryT (ts : List (Trip R)) (i j : Nat) : R :=
  ((ts.filter (fun t => t.1 == i && t.2.1 == j)).map (·.2.2)).sum

/-- the matrix entry (what `into_dense` reads) -/
def SpMat.entry (A : SpMat R) (i j : Nat) : R := sumAt (A.cols.getD j []) i

def SpVec.entry (v : SpVec R) (i : Nat) : R := sumAt v.ents i

/-! ### trusted nalgebra kernel: COO → CSC (duplicates summed, every pushed position stored) -/

def colEntries (es : List (Trip R)) (j : Nat) : List (Nat × R) :=
  (es.filter (fun t => t.2.1 == j)).map (fun t => (t.1, t.2.2))

def compressCol (m : Nat) (c : List (Nat × R)) : List (Nat × R) :=
  ((List.range m).filter (fun i => c.any (fun p => p.1 == i))).map (fun i => (i, sumAt c i))

def cooToCsc (m n : Nat) (es : List (Trip R)) : SpMat R :=
  ⟨m, n, (List.range n).map (fun j => compressCol m (colEntries es j))⟩

/-- a `CooMatrix` filled by `push` (`assert!(i < nrows); assert!(j < ncols)`), then converted -/
def cooFrom (m n : Nat) (es : List (Trip R)) : Res (SpMat R) :=
  if es.all (fun t => t.1 < m && t.2.1 < n) then ok (cooToCsc m n es) else panic

/-- `SpMat::from_entries`: zero values are skipped *before* the push -/
def fromEntries (m n : Nat) (es : List (Trip R)) : Res (SpMat R) :=
  cooFrom m n (es.filter (fun t => t.2.2 ≠ 0))

/-- `SpMat::from_dense_data` (row-major data, `k ↦ (k / n, k % n)`) -/
def fromDenseData (m n : Nat) (data : List R) : Res (SpMat R) :=
  fromEntries m n (data.zipIdx.map (fun (a, k) => (k / n, k % n, a)))

/-- `SpMat::is_zero`: all stored values are zero -/
def SpMat.isZero (A : SpMat R) : Bool := A.cols.all (fun c => c.all (fun p => p.2 = 0))

/-- `SpVec::from_entries` -/
def SpVec.fromEntries (d : Nat) (es : List (Nat × R)) : Res (SpVec R) := do
  let A ← Yuiv.C13.fromEntries d 1 (es.map (fun p => (p.1, 0, p.2)))
  A.intoSpVec

/-- `SpVec::from(Vec<R>)` -/
def SpVec.ofDense (l : List R) : Res (SpVec R) :=
  SpVec.fromEntries l.length (l.zipIdx.map (fun (a, i) => (i, a)))

/-- `SpVec::from_raw_data` -/
def SpVec.fromRawData (d : Nat) (rows : List Nat) (vals : List R) : Res (SpVec R) := do
  let A ← tryFromCsc d 1 [0, rows.length] rows vals
  A.intoSpVec

/-- `SpVec::from_sorted_entries`: `assert!(i < dim)` for every entry, then the raw constructor -/
def SpVec.fromSortedEntries (d : Nat) (es : List (Nat × R)) : Res (SpVec R) := do
  assert (es.all (fun p => p.1 < d))
  SpVec.fromRawData d (es.map (·.1)) (es.map (·.2))

/-- `SpVec::stack_vecs`: row indices shifted by the running dimension, raw constructor -/
def SpVec.stackVecs (vs : List (SpVec R)) : Res (SpVec R) :=
  let (d, rows, vals) := vs.foldl (fun (acc : Nat × List Nat × List R) v =>
    let n1 := acc.1
    (n1 + v.dim, acc.2.1 ++ v.ents.map (fun p => p.1 + n1), acc.2.2 ++ v.ents.map (·.2))) (0, [], [])
  SpVec.fromRawData d rows vals

/-- `SpMat::col_vec`: `inner.col(j)` panics out of range -/
def SpMat.colVec (A : SpMat R) (j : Nat) : Res (SpVec R) :=
  if j < A.ncols then SpVec.fromEntries A.nrows (A.cols.getD j []) else panic

/-- `SpMat::from_col_vecs` -/
def fromColVecs (nrows : Nat) (vecs : List (SpVec R)) : Res (SpMat R) := do
  assert (vecs.all (fun v => nrows = v.dim))
  let (offs, rows, vals) := vecs.foldl (fun (acc : List Nat × List Nat × List R) v =>
    let rows := acc.2.1 ++ v.ents.map (·.1)
    (acc.1 ++ [rows.length], rows, acc.2.2 ++ v.ents.map (·.2))) ([0], [], [])
  let ncols := offs.length - 1
  tryFromCsc nrows ncols offs rows vals

/-- `SpMat::extend_cols` -/
def SpMat.extendCols (A B : SpMat R) : Res (SpMat R) := do
  assert (A.nrows = B.nrows)
  if B.ncols = 0 then ok A else
  let (offs, rows, vals) := A.disassemble
  let (c, r, v) := B.disassemble
  match offs.getLast? with
  | none => panic                                        -- `col_offsets.pop().unwrap()`
  | some offset =>
    let offs' := offs.dropLast ++ c.map (fun i => offset + i)
    tryFromCsc A.nrows (A.ncols + B.ncols) offs' (rows ++ r) (vals ++ v)

/-! ### `extract` and its clients -/

/-- the `filter_map` of `extract`; the closure may panic (`PermView::at`) -/
def mapTrips (f : Nat → Nat → Res (Option (Nat × Nat))) : List (Trip R) → Res (List (Trip R))
  | [] => ok []
  | (i, j, a) :: ts => do
    let r ← f i j
    let rest ← mapTrips f ts
    ok (match r with
      | some (i', j') => (i', j', a) :: rest
      | none => rest)

/-- `SpMat::extract` -/
def SpMat.extract (A : SpMat R) (m n : Nat) (f : Nat → Nat → Res (Option (Nat × Nat))) : Res (SpMat R) := do
  let es ← mapTrips f A.triplets
  fromEntries m n es

/-- `SpMat::permute` -/
def SpMat.permute (A : SpMat R) (p q : Perm) : Res (SpMat R) :=
  A.extract A.nrows A.ncols (fun i j => do
    let i' ← p.at i
    let j' ← q.at j
    ok (some (i', j')))

def SpMat.permuteRows (A : SpMat R) (p : Perm) : Res (SpMat R) := A.permute p (Perm.identity A.ncols)
def SpMat.permuteCols (A : SpMat R) (q : Perm) : Res (SpMat R) := A.permute (Perm.identity A.nrows) q

/-- `SpMat::submat(i0..i1, j0..j1)` -/
def SpMat.submat (A : SpMat R) (i0 i1 j0 j1 : Nat) : Res (SpMat R) := do
  assert (i0 ≤ i1 && i1 ≤ A.nrows)
  assert (j0 ≤ j1 && j1 ≤ A.ncols)
  A.extract (i1 - i0) (j1 - j0) (fun i j =>
    ok (if (i0 ≤ i && i < i1) && (j0 ≤ j && j < j1) then some (i - i0, j - j0) else none))

def SpMat.submatRows (A : SpMat R) (i0 i1 : Nat) : Res (SpMat R) := A.submat i0 i1 0 A.ncols
def SpMat.submatCols (A : SpMat R) (j0 j1 : Nat) : Res (SpMat R) := A.submat 0 A.nrows j0 j1

/-- `SpMat::divide4` -/
def SpMat.divide4 (A : SpMat R) (k l : Nat) : Res (SpMat R × SpMat R × SpMat R × SpMat R) := do
  let (m, n) := (A.nrows, A.ncols)
  assert (k ≤ m)
  assert (l ≤ n)
  let ts := A.triplets.filter (fun t => t.2.2 ≠ 0)          -- `if r.is_zero() { continue }`
  let a ← cooFrom k l (ts.filter (fun t => t.1 < k && t.2.1 < l))
  let b ← cooFrom k (n - l) ((ts.filter (fun t => t.1 < k && !(t.2.1 < l))).map (fun t => (t.1, t.2.1 - l, t.2.2)))
  let c ← cooFrom (m - k) l ((ts.filter (fun t => !(t.1 < k) && t.2.1 < l)).map (fun t => (t.1 - k, t.2.1, t.2.2)))
  let d ← cooFrom (m - k) (n - l)
    ((ts.filter (fun t => !(t.1 < k) && !(t.2.1 < l))).map (fun t => (t.1 - k, t.2.1 - l, t.2.2)))
  ok (a, b, c, d)

def shiftTrips (di dj : Nat) (ts : List (Trip R)) : List (Trip R) := ts.map (fun t => (t.1 + di, t.2.1 + dj, t.2.2))

/-- `SpMat::combine_blocks` -/
def combineBlocks (a b c d : SpMat R) : Res (SpMat R) := do
  assert (a.nrows = b.nrows)
  assert (c.nrows = d.nrows)
  assert (a.ncols = c.ncols)
  assert (b.ncols = d.ncols)
  let (m, n) := (a.nrows + c.nrows, a.ncols + b.ncols)
  let (k, l) := (a.nrows, a.ncols)
  fromEntries m n (shiftTrips 0 0 a.triplets ++ shiftTrips 0 l b.triplets
    ++ shiftTrips k 0 c.triplets ++ shiftTrips k l d.triplets)

/-- `SpMat::concat` -/
def SpMat.concat (A B : SpMat R) : Res (SpMat R) :=
  combineBlocks A B (SpMat.zero 0 A.ncols) (SpMat.zero 0 B.ncols)

/-- `SpMat::stack` -/
def SpMat.stack (A B : SpMat R) : Res (SpMat R) :=
  combineBlocks A (SpMat.zero A.nrows 0) B (SpMat.zero B.nrows 0)

/-! ### trusted nalgebra kernels `+`, transpose (by definition) -/

def SpMat.add (A B : SpMat R) : Res (SpMat R) := do
  assert (A.nrows = B.nrows && A.ncols = B.ncols)
  ok (cooToCsc A.nrows A.ncols (A.triplets ++ B.triplets))

def SpMat.transpose (A : SpMat R) : SpMat R :=
  cooToCsc A.ncols A.nrows (A.triplets.map (fun t => (t.2.1, t.1, t.2.2)))

/-! ### `SpVec` -/

def SpVec.zero (d : Nat) : SpVec R := ⟨d, []⟩

def SpVec.isZero (v : SpVec R) : Bool := v.ents.all (fun p => p.2 = 0)

def mapEnts (f : Nat → Res (Option Nat)) : List (Nat × R) → Res (List (Nat × R))
  | [] => ok []
  | (i, a) :: ts => do
    let r ← f i
    let rest ← mapEnts f ts
    ok (match r with
      | some i' => (i', a) :: rest
      | none => rest)

/-- `SpVec::extract` -/
def SpVec.extract (v : SpVec R) (d : Nat) (f : Nat → Res (Option Nat)) : Res (SpVec R) := do
  let es ← mapEnts f v.ents
  SpVec.fromEntries d es

/-- `SpVec::permute` -/
def SpVec.permute (v : SpVec R) (p : Perm) : Res (SpVec R) :=
  v.extract v.dim (fun i => do let i' ← p.at i; ok (some i'))

/-- `SpVec::subvec(a..b)`: `range.end - range.start` is an overflow-checked subtraction -/
def SpVec.subvec (v : SpVec R) (a b : Nat) : Res (SpVec R) := do
  assert (a ≤ b)
  v.extract (b - a) (fun i => ok (if a ≤ i && i < b then some (i - a) else none))

/-- `SpVec::stack` (uses `iter_nz`) -/
def SpVec.stack (v w : SpVec R) : Res (SpVec R) :=
  SpVec.fromEntries (v.dim + w.dim)
    (v.ents.filter (fun p => p.2 ≠ 0) ++ (w.ents.filter (fun p => p.2 ≠ 0)).map (fun p => (v.dim + p.1, p.2)))

/-- `SpVec::split` -/
def SpVec.split (v : SpVec R) (k : Nat) : Res (SpVec R × SpVec R) := do
  assert (k ≤ v.dim)
  let e1 := v.ents.filter (fun p => p.1 < k)
  let e2 := (v.ents.filter (fun p => !(p.1 < k))).map (fun p => (p.1 - k, p.2))
  let a ← SpVec.fromEntries k e1
  let b ← SpVec.fromEntries (v.dim - k) e2
  ok (a, b)

/-- `SpVec::to_dense` / `into_vec`: `res[i] = a` for every stored non-zero entry -/
def SpVec.toDense (v : SpVec R) : Res (List R) :=
  v.ents.foldl (fun acc p => do
    let l ← acc
    if p.2 = 0 then ok l else if p.1 < l.length then ok (l.set p.1 p.2) else panic)
    (ok (List.replicate v.dim 0))

def SpVec.add (v w : SpVec R) : Res (SpVec R) := do
  let A ← v.toMat.add w.toMat
  A.intoSpVec

end ring

section ring1
variable {R : Type} [Zero R] [One R] [Add R] [Mul R] [Neg R] [DecidableEq R]

/-- `SpMat::id` -/
def SpMat.id (n : Nat) : SpMat R := ⟨n, n, (List.range n).map (fun i => [(i, 1)])⟩

/-- `SpVec::unit(n, i)`: `try_from_csc_data(n, 1, [0,1], [i], [1]).unwrap()` -/
def SpVec.unit (n i : Nat) : Res (SpVec R) := do
  let A ← tryFromCsc n 1 [0, 1] [i] [(1 : R)]
  A.intoSpVec

def enumFrom' {α : Type} : Nat → List α → List (Nat × α)
  | _, [] => []
  | k, a :: as => (k, a) :: enumFrom' (k + 1) as

/-- `(0..n).map(|i| f(p.at(i)))` collected (any panic propagates) -/
def permImages (p : Perm) : List Nat → Res (List Nat)
  | [] => ok []
  | i :: is => do
    let x ← p.at i
    let xs ← permImages p is
    ok (x :: xs)

/-- `SpMat::from_row_perm`: entries `(p.at(i), i, 1)` -/
def fromRowPerm (p : Perm) : Res (SpMat R) := do
  let n := p.dim
  let im ← permImages p (List.range n)
  fromEntries n n ((enumFrom' 0 im).map (fun (i, pi) => (pi, i, (1 : R))))

/-- `SpMat::from_col_perm`: entries `(i, p.at(i), 1)` -/
def fromColPerm (p : Perm) : Res (SpMat R) := do
  let n := p.dim
  let im ← permImages p (List.range n)
  fromEntries n n ((enumFrom' 0 im).map (fun (i, pi) => (i, pi, (1 : R))))

/-! ### trusted nalgebra kernels `neg`, `−`, `·` (by definition) -/

def SpMat.neg (A : SpMat R) : SpMat R := ⟨A.nrows, A.ncols, A.cols.map (fun c => c.map (fun p => (p.1, -p.2)))⟩

def SpMat.sub (A B : SpMat R) : Res (SpMat R) := do
  assert (A.nrows = B.nrows && A.ncols = B.ncols)
  ok (cooToCsc A.nrows A.ncols (A.triplets ++ B.neg.triplets))

/-- all products `a_ik * b_kj` of stored entries -/
def prodTrips (A B : SpMat R) : List (Trip R) :=
  B.triplets.flatMap (fun t => (A.cols.getD t.1 []).map (fun p => (p.1, t.2.1, p.2 * t.2.2)))

def SpMat.mul (A B : SpMat R) : Res (SpMat R) := do
  assert (A.ncols = B.nrows)
  ok (cooToCsc A.nrows B.ncols (prodTrips A B))

def SpVec.neg (v : SpVec R) : SpVec R := ⟨v.dim, v.ents.map (fun p => (p.1, -p.2))⟩

def SpVec.sub (v w : SpVec R) : Res (SpVec R) := do
  let A ← v.toMat.sub w.toMat
  A.intoSpVec

/-- `&SpMat * &SpVec` -/
def SpMat.mulVec (A : SpMat R) (v : SpVec R) : Res (SpVec R) := do
  let C ← A.mul v.toMat
  C.intoSpVec

/-! ### `Trans` -/

structure Trans (R : Type) where
  srcDim : Nat
  tgtDim : Nat
  fMats : List (SpMat R)
  bMats : List (SpMat R)
deriving Inhabited

def Trans.id (n : Nat) : Trans R := ⟨n, n, [], []⟩

/-- `Trans::append` -/
def Trans.append (t : Trans R) (f b : SpMat R) : Res (Trans R) := do
  assert (f.ncols = b.nrows)
  assert (f.nrows = b.ncols)
  assert (f.ncols = t.tgtDim)
  ok { t with tgtDim := f.nrows, fMats := t.fMats ++ [f], bMats := t.bMats ++ [b] }

/-- `Trans::new` -/
def Trans.new (f b : SpMat R) : Res (Trans R) := (Trans.id f.ncols).append f b

def Trans.isId (t : Trans R) : Bool := t.fMats.isEmpty

/-- `Trans::forward`: `f_mats.iter().fold(v, |v, f| f * v)` -/
def Trans.forward (t : Trans R) (v : SpVec R) : Res (SpVec R) := do
  assert (v.dim = t.srcDim)
  t.fMats.foldlM (fun v f => f.mulVec v) v

/-- `Trans::backward`: `b_mats.iter().rev().fold(v, |v, b| b * v)` -/
def Trans.backward (t : Trans R) (v : SpVec R) : Res (SpVec R) := do
  assert (v.dim = t.tgtDim)
  t.bMats.reverse.foldlM (fun v b => b.mulVec v) v

/-- `Trans::append_perm` -/
def Trans.appendPerm (t : Trans R) (p : Perm) : Res (Trans R) := do
  assert (p.dim = t.tgtDim)
  let f ← fromRowPerm p
  let b ← fromColPerm p
  t.append f b

/-- `Trans::merge` -/
def Trans.merge (t o : Trans R) : Res (Trans R) := do
  assert (t.tgtDim = o.srcDim)
  ok { t with tgtDim := o.tgtDim, fMats := t.fMats ++ o.fMats, bMats := t.bMats ++ o.bMats }

/-- `Trans::forward_mat`: `f = fn * ... * f1 * f0` -/
def Trans.forwardMat (t : Trans R) : Res (SpMat R) :=
  match t.fMats with
  | [f] => ok f
  | fs => fs.reverse.foldlM (fun res f => res.mul f) (SpMat.id t.tgtDim)

/-- `Trans::backward_mat`: `b = b0 * b1 * ... * bn` -/
def Trans.backwardMat (t : Trans R) : Res (SpMat R) :=
  match t.bMats with
  | [b] => ok b
  | bs => bs.reverse.foldlM (fun res b => b.mul res) (SpMat.id t.tgtDim)

/-- first half of `Trans::reduce`: `if self.f_mats.len() > 1 { self.f_mats = vec![self.forward_mat()] }` -/
def Trans.reduceF (t : Trans R) : Res (Trans R) :=
  if t.fMats.length > 1 then do
    let f ← t.forwardMat
    ok { t with fMats := [f] }
  else ok t

/-- second half: `if self.b_mats.len() > 1 { self.b_mats = vec![self.backward_mat()] }` -/
def Trans.reduceB (t : Trans R) : Res (Trans R) :=
  if t.bMats.length > 1 then do
    let b ← t.backwardMat
    ok { t with bMats := [b] }
  else ok t

/-- `Trans::reduce` -/
def Trans.reduce (t : Trans R) : Res (Trans R) := do
  let t1 ← t.reduceF
  t1.reduceB

/-- `Trans::sub(indices)` -/
def Trans.sub (t : Trans R) (indices : List Nat) : Res (Trans R) := do
  let n := t.tgtDim
  let p := indices.length
  let f ← fromEntries p n ((enumFrom' 0 indices).map (fun (i, j) => (i, j, (1 : R))))
  let b ← fromEntries n p ((enumFrom' 0 indices).map (fun (i, j) => (j, i, (1 : R))))
  t.append f b

end ring1

/-! ### dense matrices (`Mat`, a `nalgebra::DMatrix`) -/

structure DMat (R : Type) where
  nrows : Nat
  ncols : Nat
  data : Array R          -- row-major, `nrows * ncols` values
deriving Repr, Inhabited

section dense
variable {R : Type} [Zero R]

def DMat.get (A : DMat R) (i j : Nat) : R := A.data.getD (i * A.ncols + j) 0

def DMat.ofFn (m n : Nat) (f : Nat → Nat → R) : DMat R :=
  ⟨m, n, Array.ofFn (n := m * n) (fun k => f (k.val / n) (k.val % n))⟩

/-- `Mat::from_data` (row-major); the harness always passes exactly `m * n` values -/
def DMat.fromData (m n : Nat) (data : List R) : Res (DMat R) :=
  if data.length = m * n then ok ⟨m, n, data.toArray⟩ else panic

def DMat.zero (m n : Nat) : DMat R := DMat.ofFn m n (fun _ _ => 0)

/-- `Mat::submat` -/
def DMat.submat (A : DMat R) (i0 i1 j0 j1 : Nat) : Res (DMat R) := do
  assert (i0 ≤ i1 && i1 ≤ A.nrows)
  assert (j0 ≤ j1 && j1 ≤ A.ncols)
  ok (DMat.ofFn (i1 - i0) (j1 - j0) (fun i j => A.get (i0 + i) (j0 + j)))

def DMat.submatRows (A : DMat R) (i0 i1 : Nat) : Res (DMat R) := A.submat i0 i1 0 A.ncols
def DMat.submatCols (A : DMat R) (j0 j1 : Nat) : Res (DMat R) := A.submat 0 A.nrows j0 j1

/-- `swap_rows` (`assert!(irow1 < nrows && irow2 < nrows)`) -/
def DMat.swapRows (A : DMat R) (i j : Nat) : Res (DMat R) := do
  assert (i < A.nrows && j < A.nrows)
  ok (DMat.ofFn A.nrows A.ncols (fun r c => if r = i then A.get j c else if r = j then A.get i c else A.get r c))

def DMat.swapCols (A : DMat R) (i j : Nat) : Res (DMat R) := do
  assert (i < A.ncols && j < A.ncols)
  ok (DMat.ofFn A.nrows A.ncols (fun r c => if c = i then A.get r j else if c = j then A.get r i else A.get r c))

/-- `set_row(i, s)` -/
def DMat.setRow (A : DMat R) (i : Nat) (s : Nat → R) : Res (DMat R) := do
  assert (i < A.nrows)
  ok (DMat.ofFn A.nrows A.ncols (fun r c => if r = i then s c else A.get r c))

def DMat.setCol (A : DMat R) (j : Nat) (s : Nat → R) : Res (DMat R) := do
  assert (j < A.ncols)
  ok (DMat.ofFn A.nrows A.ncols (fun r c => if c = j then s r else A.get r c))

/-- `Mat::is_zero` -/
def DMat.isZero [DecidableEq R] (A : DMat R) : Bool :=
  (List.range A.nrows).all (fun i => (List.range A.ncols).all (fun j => A.get i j = 0))

/-- `Mat::is_diag` -/
def DMat.isDiag [DecidableEq R] (A : DMat R) : Bool :=
  (List.range A.nrows).all (fun i => (List.range A.ncols).all (fun j => i = j || A.get i j = 0))

variable [One R] [Add R] [Mul R] [Neg R] [Sub R]

def DMat.id (n : Nat) : DMat R := DMat.ofFn n n (fun i j => if i = j then 1 else 0)

/-- `Mat::is_id` -/
def DMat.isId [DecidableEq R] (A : DMat R) : Bool :=
  A.nrows = A.ncols && (List.range A.nrows).all (fun i => (List.range A.ncols).all (fun j =>
    (i = j && A.get i j = 1) || (i ≠ j && A.get i j = 0)))

/-- `Mat::diag`: `mat[(i, i)] = a` for the `i`-th entry (index panics out of range) -/
def DMat.diag (m n : Nat) (es : List R) : Res (DMat R) :=
  if es.length ≤ m ∧ es.length ≤ n then
    ok (DMat.ofFn m n (fun i j => if i = j then es.getD i 0 else 0))
  else panic

def DMat.neg (A : DMat R) : DMat R := DMat.ofFn A.nrows A.ncols (fun i j => - A.get i j)

def DMat.add (A B : DMat R) : Res (DMat R) := do
  assert (A.nrows = B.nrows && A.ncols = B.ncols)
  ok (DMat.ofFn A.nrows A.ncols (fun i j => A.get i j + B.get i j))

def DMat.sub (A B : DMat R) : Res (DMat R) := do
  assert (A.nrows = B.nrows && A.ncols = B.ncols)
  ok (DMat.ofFn A.nrows A.ncols (fun i j => A.get i j - B.get i j))

/-- nalgebra's `gemm` checks the inner dimensions once per column of the result (in `gemv`): a product with a
`B` without columns is never rejected -/
def DMat.mul (A B : DMat R) : Res (DMat R) := do
  assert (A.ncols = B.nrows || B.ncols = 0)
  ok (DMat.ofFn A.nrows B.ncols (fun i j => ((List.range A.ncols).map (fun k => A.get i k * B.get k j)).sum))

/-- `Mat::mul_row` -/
def DMat.mulRow (A : DMat R) (i : Nat) (r : R) : Res (DMat R) := A.setRow i (fun c => A.get i c * r)
/-- `Mat::mul_col` -/
def DMat.mulCol (A : DMat R) (j : Nat) (r : R) : Res (DMat R) := A.setCol j (fun c => A.get c j * r)

/-- `Mat::add_row_to(i, j, r)`: row `j` += row `i` * r -/
def DMat.addRowTo (A : DMat R) (i j : Nat) (r : R) : Res (DMat R) := do
  assert (i < A.nrows)
  A.setRow j (fun c => A.get j c + A.get i c * r)

/-- `Mat::add_col_to(i, j, r)`: column `j` += column `i` * r -/
def DMat.addColTo (A : DMat R) (i j : Nat) (r : R) : Res (DMat R) := do
  assert (i < A.ncols)
  A.setCol j (fun c => A.get c j + A.get c i * r)

/-- `Mat::left_elementary([a,b,c,d], i, j)`: rows `s_i = r_i a + r_j b`, `s_j = r_i c + r_j d`
computed from the old rows, then `set_row(i, s_i); set_row(j, s_j)` in this order -/
def DMat.leftElementary (A : DMat R) (a b c d : R) (i j : Nat) : Res (DMat R) := do
  assert (i < A.nrows)
  assert (j < A.nrows)
  let si := fun k => A.get i k * a + A.get j k * b
  let sj := fun k => A.get i k * c + A.get j k * d
  let A1 ← A.setRow i si
  A1.setRow j sj

/-- `Mat::right_elementary` -/
def DMat.rightElementary (A : DMat R) (a b c d : R) (i j : Nat) : Res (DMat R) := do
  assert (i < A.ncols)
  assert (j < A.ncols)
  let si := fun k => A.get k i * a + A.get k j * b
  let sj := fun k => A.get k i * c + A.get k j * d
  let A1 ← A.setCol i si
  A1.setCol j sj

variable [DecidableEq R]

/-- `Mat::from(SpMat)` (`convert_csc_dense`: `output[(i,j)] += v` over the stored triplets) -/
def SpMat.toDense (A : SpMat R) : DMat R := DMat.ofFn A.nrows A.ncols (fun i j => A.entry i j)

/-- `SpMat::from(Mat)` (`convert_dense_csc`: the non-zero entries, column by column) -/
def DMat.toSparse (A : DMat R) : SpMat R :=
  ⟨A.nrows, A.ncols, (List.range A.ncols).map (fun j =>
    ((List.range A.nrows).filter (fun i => A.get i j ≠ 0)).map (fun i => (i, A.get i j)))⟩

end dense

end Yuiv.C13
