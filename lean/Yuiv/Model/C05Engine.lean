import Yuiv.Model.C05
import Yuiv.Model.C05Tng
import Yuiv.Model.C05Deloop
import Yuiv.Model.KhRef
/-
C05 (the whole v2 engine) — executable code model of `yui-khovanov/src/kh/internal/v2/tng_complex.rs`
(`TngKey`, `TngVertex`, `TngComplex::{init, make_x, append, connect, connect_init, connect_vertices, connect_edges,
collect_keys, deloop, deloop_with, rename_vertex_key, duplicate_vertex, add_vertex, remove_vertex, add_edge,
remove_edge, modify_edge, eliminate, is_completely_delooped, into_raw_complex}`) on top of the structural model
`Model/C05Tng` (tangles, cobordisms) and the evaluation kernel `Model/C05` (`part_eval`), plus the pieces of `cob.rs`
that work on whole cobordisms and on linear combinations (`Cob::{part_eval, should_part_eval, eval}`, the trait
`LcCobTrait`: `connected`, `cap_off`, `modify`, `part_eval`, `eval`, `is_invertible`, `inv`; `Mul for Cob` = stacking;
`Lc::{from_iter, add_pair, clean, combine, neg, sub_assign, mul_assign}`) and `Tng::from_resolved`,
`CobComp::sdl_from`, `Crossing::{arcs, resolved}`.  Import-free (core Lean + the other import-free models).

Two layers:

 * the GRAPH layer `Cx E` is generic in the type `E` of edge labels and in a record `EdgeOps E` of the operations
   the engine performs on edge labels.  Vertices `(key, tangle)` and edges `((src, tgt), label)` are kept in flat
   association lists (Rust: `AHashMap<TngKey, TngVertex>` with `out_edges : AHashMap<TngKey, LcCob>` and the
   redundant `in_edges : AHashSet<TngKey>`).  The driver prints them sorted, so replies do not depend on any order.
 * the instance `lcOps h t : EdgeOps (LcCob R)`: linear combinations of cobordisms as association lists whose keys
   are compared with the Rust equality of `Cob` (`cobEq`, i.e. `TngComp`s up to `unori_eq`), without zero
   coefficients.

Panics (`assert!`, `debug_assert!`, indexing a `HashMap`/`Vec` with a missing key, `unwrap`) are `Res.panic`.

Simplifications (documented, not hidden):
 * `in_edges` is not stored: the set of keys with an edge into `k` is computed from the edges.  (The harness checks
   on the Rust side that `in_edges` is consistent with `out_edges` after every step and reports it in the reply.)
 * hash-map iteration order: every operation of the model is a function of the map CONTENT.  The only place where
   the Rust result depends on the order is `LcCob::inv` on a combination with ≥ 2 terms (it looks at the "first"
   term); the model answers `Res.err` there and the correspondence run never asks for it (the builder only
   eliminates edges with `is_invertible()`, i.e. one term).
 * `connect_edges` runs its pairs in parallel under a lock; the model runs them sequentially.
 * `crossings : Vec<Crossing>` is only read through `dim()` (number of unresolved crossings): the model stores `dim`.
 * `ht` of a complex lives in the `EdgeOps` record; `connect_init`'s `assert_eq!(self.ht(), other.ht())` is therefore
   not modelled (the run always connects complexes with the same parameters).
 * coefficient rings: `Int` (`i64`/`BigInt`), core `Rat` (`Ratio<i64>`), `F2` (`FF2`), `F3` (`FF<3>`) as `CoefU` instances.
 * machine-integer overflow (`i64` coefficients, `isize` degrees, `BitSeq` length 64) is not modelled.
-/
namespace Yuiv.C05.Engine
open Yuiv Yuiv.C05 Yuiv.C05.Tng
open Yuiv.C05.Deloop (AlgGen)

/-! ### coefficients with units -/

/-- `Ring::{is_unit, inv}` on top of the operations of `Coef` -/
class CoefU (R : Type) extends Coef R where
  inv? : R → Option R

/-- `i64` / `BigInt`: the units are `±1`, each its own inverse -/
instance : CoefU Int where
  inv? a := if a == 1 || a == -1 then some a else none

/-- `Ratio<i64>`: core `Rat` (always reduced, positive denominator — what `Ratio::new` / `reduce` produce);
every non-zero element is a unit -/
instance : CoefU Rat where
  zero := 0
  one := 1
  add a b := a + b
  mul a b := a * b
  neg a := -a
  isZero a := a == 0
  isOne a := a == 1
  inv? a := if a == 0 then none else some a⁻¹

/-- `FF2(bool)` -/
structure F2 where
  v : Bool
deriving DecidableEq, Repr, Inhabited

instance : CoefU F2 where
  zero := ⟨false⟩
  one := ⟨true⟩
  add a b := ⟨a.v != b.v⟩
  mul a b := ⟨a.v && b.v⟩
  neg a := a
  isZero a := !a.v
  isOne a := a.v
  inv? a := if a.v then some a else none

/-- `FF<3>`: the representative in `0..3` -/
structure F3 where
  v : Nat
deriving DecidableEq, Repr, Inhabited

instance : CoefU F3 where
  zero := ⟨0⟩
  one := ⟨1⟩
  add a b := ⟨(a.v + b.v) % 3⟩
  mul a b := ⟨(a.v * b.v) % 3⟩
  neg a := ⟨(3 - a.v % 3) % 3⟩
  isZero a := a.v % 3 == 0
  isOne a := a.v % 3 == 1
  -- 1·1 = 1, 2·2 = 4 = 1
  inv? a := if a.v % 3 == 0 then none else some ⟨a.v % 3⟩

/-! ### `LcCob<R>` = `Lc<Cob, R>` -/

abbrev LcCob (R : Type) := List (Cob × R)

section lc
variable {R : Type} [CoefU R]

/-- the hash-map update of `Lc::add_pair` (keys compared with the Rust `Eq` of `Cob`) -/
def lcInsert : LcCob R → Cob → R → LcCob R
  | [], k, r => [(k, r)]
  | (k', r') :: l, k, r => if cobEq k' k then (k', Coef.add r' r) :: l else (k', r') :: lcInsert l k r

/-- `Lc::add_pair`: zero coefficients are skipped -/
def lcAddPair (l : LcCob R) (k : Cob) (r : R) : LcCob R := if Coef.isZero r then l else lcInsert l k r

/-- `Lc::clean` -/
def lcClean (l : LcCob R) : LcCob R := l.filter (fun p => !Coef.isZero p.2)

/-- `FromIterator<(X, R)>` (`collect()`): `add_pair` for every item, then `clean` -/
def lcCollect (ps : List (Cob × R)) : LcCob R := lcClean (ps.foldl (fun acc p => lcAddPair acc p.1 p.2) [])

/-- `Lc::from((x, r))` -/
def lcFromPair (k : Cob) (r : R) : LcCob R := lcCollect [(k, r)]

/-- `Lc::from(x)` -/
def lcSingle (k : Cob) : LcCob R := lcFromPair k Coef.one

/-- `lhs += &rhs` -/
def lcAdd (a b : LcCob R) : LcCob R := lcClean (b.foldl (fun acc p => lcAddPair acc p.1 p.2) a)

/-- `lhs -= &rhs` (`add_pair_ref((x, &-r))`, then `clean`) -/
def lcSub (a b : LcCob R) : LcCob R := lcClean (b.foldl (fun acc p => lcAddPair acc p.1 (Coef.neg p.2)) a)

/-- `-lc` (`into_map_coeffs(|r| -r)` = `collect()` of the negated terms) -/
def lcNeg (a : LcCob R) : LcCob R := lcCollect (a.map (fun p => (p.1, Coef.neg p.2)))

/-- `lc *= &r` -/
def lcSmul (a : LcCob R) (r : R) : LcCob R :=
  if Coef.isOne r then a else lcClean (a.map (fun p => (p.1, Coef.mul p.2 r)))

/-- `Lc::sum` -/
def lcSum (ls : List (LcCob R)) : LcCob R := ls.foldl lcAdd []

/-- `Lc::combine(other, x_map)`: all pairs, `add_pair((x_map(x, y), r * s))`, then `clean` -/
def lcCombine (f : Cob → Cob → Res Cob) (a b : LcCob R) : Res (LcCob R) :=
  let pairs := a.flatMap (fun x => b.map (fun y => (x, y)))
  match mapMRes (fun (xy : (Cob × R) × (Cob × R)) =>
      match f xy.1.1 xy.2.1 with
      | .ok k => .ok (k, Coef.mul xy.1.2 xy.2.2)
      | .panic => .panic
      | .err => .err) pairs with
  | .ok ps => .ok (lcCollect ps)
  | .panic => .panic
  | .err => .err

/-- `Lc::map` / `into_map` with a fallible map on the generators, followed by `collect()`;
`zeroOut` = the `if cob.is_zero_cob() { (cob, R::zero()) }` of `LcCobTrait::modify` -/
def lcMapGens (zeroOut : Bool) (f : Cob → Res Cob) (a : LcCob R) : Res (LcCob R) :=
  match mapMRes (fun (p : Cob × R) =>
      match f p.1 with
      | .ok k => .ok (k, if zeroOut && Cob.isZeroCob k then Coef.zero else p.2)
      | .panic => .panic
      | .err => .err) a with
  | .ok ps => .ok (lcCollect ps)
  | .panic => .panic
  | .err => .err

/-! ### evaluation of whole cobordisms -/

/-- `CobComp::should_part_eval` -/
def CobComp.shouldPartEval (c : CobComp) : Bool := C05.shouldPartEval c.isClosed c.genus c.dots.1 c.dots.2

/-- `Cob::should_part_eval` -/
def Cob.shouldPartEval (k : Cob) : Bool := k.any CobComp.shouldPartEval

/-- `CobComp::part_eval` as an `LcCob`: the kernel `C05.partEval` with its abstract keys turned into cobordisms
(`Key.empty` ↦ `Cob::empty()`, `Key.comp x y` ↦ the same boundary with genus 0 and dots `(x, y)`) -/
def CobComp.partEvalLc (h t : R) (c : CobComp) : LcCob R :=
  (C05.partEval h t c.isClosed c.genus c.dots.1 c.dots.2).map (fun p =>
    match p.1 with
    | .empty => (([] : Cob), p.2)
    | .comp x y => ([{ c with genus := 0, dots := (x, y) }], p.2))

/-- the `fold` of `Cob::part_eval`: `res.combine(&c.part_eval(h, t), |c1, c2| c1.connected(c2))` -/
def partEvalFold (h t : R) : List CobComp → LcCob R → Res (LcCob R)
  | [], acc => .ok acc
  | c :: cs, acc =>
    match lcCombine Cob.connect acc (CobComp.partEvalLc h t c) with
    | .ok acc' => partEvalFold h t cs acc'
    | .panic => .panic
    | .err => .err

/-- `Cob::part_eval` -/
def Cob.partEval (h t : R) (k : Cob) : Res (LcCob R) :=
  if Cob.isZeroCob k then .ok []
  else if !Cob.shouldPartEval k then .ok (lcSingle k)
  else partEvalFold h t k (lcSingle [])

/-- `LcCobTrait::part_eval`: `LcCob::sum(terms.map(|(cob, r)| cob.part_eval(h, t) * r))` when some generator asks for it -/
def lcPartEval (h t : R) (a : LcCob R) : Res (LcCob R) :=
  if a.any (fun p => Cob.shouldPartEval p.1) then
    match mapMRes (fun (p : Cob × R) =>
        match Cob.partEval h t p.1 with
        | .ok e => .ok (lcSmul e p.2)
        | .panic => .panic
        | .err => .err) a with
    | .ok ls => .ok (lcSum ls)
    | .panic => .panic
    | .err => .err
  else .ok a

/-- product of the components' `CobComp::eval` (`Cob::eval`) -/
def Cob.evalProd (h t : R) : List CobComp → Res R
  | [] => .ok Coef.one
  | c :: cs =>
    match C05.evalClosed h t c.isClosed c.genus c.dots.1 c.dots.2, Cob.evalProd h t cs with
    | .ok a, .ok b => .ok (Coef.mul a b)
    | .err, _ => .err
    | _, .err => .err
    | _, _ => .panic

/-- `LcCobTrait::eval`: `R::sum(a * c.eval(h, t))` -/
def lcEval (h t : R) : LcCob R → Res R
  | [] => .ok Coef.zero
  | p :: ps =>
    match Cob.evalProd h t p.1, lcEval h t ps with
    | .ok v, .ok s => .ok (Coef.add (Coef.mul p.2 v) s)
    | .err, _ => .err
    | _, .err => .err
    | _, _ => .panic

/-! ### the operations of `LcCobTrait` the engine uses -/

/-- `&a * &b` for `LcCob` (`Mul for Cob`: `x * y = { y.stack(x); y }`, i.e. first `y`, then `x`) -/
def lcMul (a b : LcCob R) : Res (LcCob R) := lcCombine (fun x y => Cob.stack y x) a b

/-- `LcCobTrait::connected(&c)`: `map(|cob, r| (cob.connected(c), r))` (no zero-cobordism test) -/
def lcConnected (a : LcCob R) (c : Cob) : Res (LcCob R) := lcMapGens false (fun k => Cob.connect k c) a

/-- `LcCobTrait::cap_off(b, c, dot)`: `modify(|cob| cob.cap_off(b, c, dot))` -/
def lcCapOff (b : Bottom) (c : Path) (dot : Dot) (a : LcCob R) : Res (LcCob R) :=
  lcMapGens true (fun k => Cob.capOff k b c dot) a

/-- `LcCobTrait::is_invertible`: one term, an invertible cobordism with a unit coefficient -/
def lcIsInvertible (a : LcCob R) : Bool :=
  match a with
  | [(c, r)] => Cob.isInvertible c && (CoefU.inv? r).isSome
  | _ => false

/-- `LcCobTrait::inv` as used by `eliminate` (`None` ⇒ `panic!("… is not invertible")`).
With two or more terms the Rust answer depends on the iteration order of the hash map: `Res.err`. -/
def lcInv (a : LcCob R) : Res (LcCob R) :=
  match a with
  | [] => .panic
  | [(c, r)] =>
    match Cob.inv c with
    | .ok (some ci) =>
      match CoefU.inv? r with
      | some ri => .ok (lcFromPair ci ri)
      | none => .panic
    | .ok none => .panic
    | .panic => .panic
    | .err => .err
  | _ :: _ :: _ => .err

end lc

/-! ### keys -/

/-- `TngKey { state: State, label: KhLabel }` (bit sequences as lists, oldest bit first) -/
structure TKey where
  state : List Bool
  label : List AlgGen
deriving DecidableEq, Repr, Inhabited

/-- `TngKey::init` -/
def TKey.init : TKey := ⟨[], []⟩
/-- `TngKey::weight` -/
def TKey.weight (k : TKey) : Nat := (k.state.filter (fun b => b)).length
/-- `&k + &l` (`TngKey::append`) -/
def TKey.append (k l : TKey) : TKey := ⟨k.state ++ l.state, k.label ++ l.label⟩
/-- `&k + KhAlgGen` (`label.push`) -/
def TKey.push (k : TKey) (g : AlgGen) : TKey := ⟨k.state, k.label ++ [g]⟩

/-- `KhGen::q_deg` without the shift: `Σ deg(label) + len(label) + weight(state)` -/
def TKey.qRel (k : TKey) : Int :=
  (k.label.map AlgGen.deg).foldl (· + ·) 0 + (k.label.length : Int) + (k.weight : Int)

/-! ### the graph layer -/

/-- what the engine does with edge labels; the instance for the real engine is `lcOps` -/
structure EdgeOps (E : Type) where
  /-- `LcCob::is_zero` -/
  isZero : E → Bool
  /-- `a.inv()` inside `eliminate` (`panic!` when `None`) -/
  inv : E → Res E
  /-- `(c * &ainv * b).part_eval(h, t)` -/
  cab : E → E → E → Res E
  /-- `d - cab` -/
  sub : E → E → E
  /-- `-cab` -/
  neg : E → E
  /-- `f.cap_off(bottom, &circ, dot).part_eval(&h, &t)` -/
  capOff : Bottom → Path → Dot → E → Res E
  /-- `f.connected(&Cob::id(w.tng())).part_eval(&h, &t)` — `D(f, 1)` -/
  hcompL : E → Tng → Res E
  /-- `(f.connected(&Cob::id(v.tng())) * e).part_eval(&h, &t)` with `e = -1` iff the flag is set — `±D(1, f)` -/
  hcompR : Bool → E → Tng → Res E

structure Cx (E : Type) where
  /-- `deg_shift` -/
  dh : Int
  dq : Int
  /-- `base_pt` -/
  base : Option Nat
  /-- `dim()`: number of unresolved crossings in `crossings` -/
  dim : Nat
  /-- `vertices`: key ↦ tangle -/
  verts : List (TKey × Tng)
  /-- all `out_edges`: (source key, target key) ↦ label -/
  edges : List ((TKey × TKey) × E)
deriving Inhabited

section graph
variable {E : Type}

def Cx.tng? (cx : Cx E) (k : TKey) : Option Tng := cx.verts.lookup k
/-- `contains_key` -/
def Cx.hasKey (cx : Cx E) (k : TKey) : Bool := (cx.tng? k).isSome
def Cx.edge? (cx : Cx E) (k l : TKey) : Option E := cx.edges.lookup (k, l)
/-- `keys_into(k)` (from the edges; Rust: the `in_edges` set of the vertex) -/
def Cx.keysInto (cx : Cx E) (k : TKey) : List TKey :=
  cx.edges.filterMap (fun e => if e.1.2 = k then some e.1.1 else none)
/-- `keys_out_from(k)` -/
def Cx.keysOutFrom (cx : Cx E) (k : TKey) : List TKey :=
  cx.edges.filterMap (fun e => if e.1.1 = k then some e.1.2 else none)

/-- `TngComplex::init`: the single vertex `(TngKey::init(), Tng::empty())` -/
def Cx.init (dh dq : Int) (base : Option Nat) : Cx E := ⟨dh, dq, base, 0, [(TKey.init, [])], []⟩

/-- `TngComplex::edge(k, l)`: `&self.vertices[k].out_edges[l]` panics when the vertex or the edge is missing -/
def Cx.edgeR (cx : Cx E) (k l : TKey) : Res E :=
  match cx.edge? k l with
  | some f => .ok f
  | none => .panic

/-- `add_vertex`: `assert!(!self.contains_key(&v.key))` -/
def Cx.addVertex (cx : Cx E) (k : TKey) (t : Tng) : Res (Cx E) :=
  if cx.hasKey k then .panic else .ok { cx with verts := cx.verts ++ [(k, t)] }

/-- `add_edge`: `has_edge` indexes both vertices, `assert!(!has_edge)`, `assert!(!f.is_zero())` -/
def Cx.addEdge (ops : EdgeOps E) (cx : Cx E) (k l : TKey) (f : E) : Res (Cx E) :=
  if !cx.hasKey k || !cx.hasKey l then .panic
  else if (cx.edge? k l).isSome then .panic
  else if ops.isZero f then .panic
  else .ok { cx with edges := cx.edges ++ [((k, l), f)] }

/-- the update loop of `eliminate` for one pair: `if has_edge { remove_edge }; if !s.is_zero() { add_edge }` -/
def setEdge (ops : EdgeOps E) (es : List ((TKey × TKey) × E)) (p : TKey × TKey) (s : E) : List ((TKey × TKey) × E) :=
  let es' := es.filter (fun e => !(e.1 = p))
  if ops.isZero s then es' else es' ++ [(p, s)]

/-! #### `eliminate` -/

/-- the new label of `l0 → l1`: `b = edge(l0, k1)`, `c = edge(k0, l1)`, `cab = (c·a⁻¹·b).part_eval`,
`s = d − cab` if the edge `l0 → l1` exists, `−cab` otherwise -/
def elimValue (ops : EdgeOps E) (cx : Cx E) (k0 k1 : TKey) (ainv : E) (p : TKey × TKey) : Res ((TKey × TKey) × E) :=
  match cx.edge? p.1 k1, cx.edge? k0 p.2 with
  | some b, some c =>
    match ops.cab c ainv b with
    | .ok cab =>
      match cx.edge? p.1 p.2 with
      | some d => .ok (p, ops.sub d cab)
      | none => .ok (p, ops.neg cab)
    | .panic => .panic
    | .err => .err
  | _, _ => .panic

/-- `cartesian!(keys_into(k1).filter(≠ k0), keys_out_from(k0).filter(≠ k1))` -/
def elimPairs (cx : Cx E) (k0 k1 : TKey) : List (TKey × TKey) :=
  let ins := (cx.keysInto k1).filter (fun l0 => !(l0 = k0))
  let outs := (cx.keysOutFrom k0).filter (fun l1 => !(l1 = k1))
  ins.flatMap (fun l0 => outs.map (fun l1 => (l0, l1)))

/-- is the key one of the two pivots? -/
def isPivot (k0 k1 k : TKey) : Bool := k = k0 || k = k1

/-- `remove_vertex(k0); remove_vertex(k1)`: the two vertices and every incident edge go -/
def removePivots (cx : Cx E) (k0 k1 : TKey) (es : List ((TKey × TKey) × E)) : Cx E :=
  { cx with
    verts := cx.verts.filter (fun v => !isPivot k0 k1 v.1),
    edges := es.filter (fun e => !isPivot k0 k1 e.1.1 && !isPivot k0 k1 e.1.2) }

/-- `TngComplex::eliminate(k0, k1)` -/
def Cx.eliminate (ops : EdgeOps E) (cx : Cx E) (k0 k1 : TKey) : Res (Cx E) :=
  match cx.edgeR k0 k1 with
  | .ok a =>
    match ops.inv a with
    | .ok ainv =>
      match mapMRes (elimValue ops cx k0 k1 ainv) (elimPairs cx k0 k1) with
      | .ok vals => .ok (removePivots cx k0 k1 (vals.foldl (fun es v => setEdge ops es v.1 v.2) cx.edges))
      | .panic => .panic
      | .err => .err
    | .panic => .panic
    | .err => .err
  | .panic => .panic
  | .err => .err

/-! #### `deloop` -/

/-- the key substitution of `rename_vertex_key` -/
def renameFn (kOld kNew k : TKey) : TKey := if k = kOld then kNew else k

/-- `rename_vertex_key(k_old, k_new)`: the vertex and all its edges move to the new key
(`assert_ne!`; `add_vertex` asserts that the new key is free) -/
def Cx.renameKey (cx : Cx E) (kOld kNew : TKey) : Res (Cx E) :=
  if kOld = kNew then .panic
  else if !cx.hasKey kOld then .panic
  else if cx.hasKey kNew then .panic
  else
    .ok { cx with
      verts := cx.verts.map (fun v => (renameFn kOld kNew v.1, v.2)),
      edges := cx.edges.map (fun e => ((renameFn kOld kNew e.1.1, renameFn kOld kNew e.1.2), e.2)) }

/-- `duplicate_vertex(k, k_new)`: a copy of the vertex with copies of all its edges -/
def Cx.duplicateKey (cx : Cx E) (k kNew : TKey) : Res (Cx E) :=
  if k = kNew then .panic
  else
    match cx.tng? k with
    | none => .panic
    | some t =>
      if cx.hasKey kNew then .panic
      else
        let ins := cx.edges.filterMap (fun e => if e.1.2 = k then some ((e.1.1, kNew), e.2) else none)
        let outs := cx.edges.filterMap (fun e => if e.1.1 = k then some ((kNew, e.1.2), e.2) else none)
        .ok { cx with verts := cx.verts ++ [(kNew, t)], edges := cx.edges ++ ins ++ outs }

/-- `modify_edge` for every edge at `k`: incoming edges get the death cap on the target side, outgoing edges the
birth cup on the source side; a label that becomes zero is dropped -/
def deloopEdge (ops : EdgeOps E) (k : TKey) (circ : Path) (birth death : Dot) (e : (TKey × TKey) × E) :
    Res (Option ((TKey × TKey) × E)) :=
  if e.1.2 = k then
    match ops.capOff .tgt circ death e.2 with
    | .ok f => .ok (if ops.isZero f then none else some (e.1, f))
    | .panic => .panic
    | .err => .err
  else if e.1.1 = k then
    match ops.capOff .src circ birth e.2 with
    | .ok f => .ok (if ops.isZero f then none else some (e.1, f))
    | .panic => .panic
    | .err => .err
  else .ok (some e)

/-- `deloop_with(k, r, birth_dot, death_dot)` -/
def Cx.deloopWith (ops : EdgeOps E) (cx : Cx E) (k : TKey) (r : Nat) (birth death : Dot) : Res (Cx E) :=
  match cx.tng? k with
  | none => .panic
  | some t =>
    match Tng.removeAt t r with
    | .ok (circ, t') =>
      match mapMRes (deloopEdge ops k circ birth death) cx.edges with
      | .ok es =>
        .ok { cx with
          verts := cx.verts.map (fun v => if v.1 = k then (v.1, t') else v),
          edges := es.filterMap (fun x => x) }
      | .panic => .panic
      | .err => .err
    | .panic => .panic
    | .err => .err

/-- `contains_base_pt` -/
def Cx.containsBase (cx : Cx E) (c : Path) : Bool :=
  match cx.base with
  | some e => c.contains e
  | none => false

/-- `TngComplex::deloop(k, r)`: the updated keys and the new complex -/
def Cx.deloop (ops : EdgeOps E) (cx : Cx E) (k : TKey) (r : Nat) : Res (List TKey × Cx E) :=
  match cx.tng? k with
  | none => .panic                       -- `self.vertex(k)` indexes the map
  | some t =>
    match t[r]? with
    | none => .panic                     -- `tng.comp(r)` indexes the vector
    | some c =>
      if !c.closed then .panic           -- `assert!(c.is_circle())`
      else
        let kX := k.push .X
        let kI := k.push .I
        if cx.containsBase c then
          match cx.renameKey k kX with
          | .ok c1 =>
            match c1.deloopWith ops kX r .X .none with
            | .ok c2 => .ok ([kX], c2)
            | .panic => .panic
            | .err => .err
          | .panic => .panic
          | .err => .err
        else
          match cx.renameKey k kX with
          | .ok c1 =>
            match c1.duplicateKey kX kI with
            | .ok c2 =>
              match c2.deloopWith ops kX r .X .none with
              | .ok c3 =>
                match c3.deloopWith ops kI r .none .Y with
                | .ok c4 => .ok ([kX, kI], c4)
                | .panic => .panic
                | .err => .err
              | .panic => .panic
              | .err => .err
            | .panic => .panic
            | .err => .err
          | .panic => .panic
          | .err => .err

/-! #### `connect` -/

/-- `keys_of(i)`: `weight + deg_shift.0 == i` -/
def Cx.keysOf (cx : Cx E) (i : Int) : List TKey :=
  (cx.verts.filter (fun v => (v.1.weight : Int) + cx.dh == i)).map (·.1)

/-- `h_range()` as a list: `deg_shift.0 ..= deg_shift.0 + dim` -/
def Cx.hRange (cx : Cx E) : List Int := (List.range (cx.dim + 1)).map (fun (j : Nat) => cx.dh + (j : Int))

/-- `collect_keys(left, right, i, false)` -/
def collectKeys (left right : Cx E) (i : Int) : List (TKey × TKey) :=
  left.hRange.flatMap (fun i1 => (left.keysOf i1).flatMap (fun k => (right.keysOf (i - i1)).map (fun l => (k, l))))

/-- sequential loop over a list that stops at the first panic -/
def foldRes {α β : Type} (f : β → α → Res β) : List α → β → Res β
  | [], b => .ok b
  | a :: l, b =>
    match f b a with
    | .ok b' => foldRes f l b'
    | .panic => .panic
    | .err => .err

/-- body of `connect_vertices`: the product vertex `k + l` with the tangle `D(v, w)` -/
def connectVertexStep (left right : Cx E) (cx : Cx E) (kl : TKey × TKey) : Res (Cx E) :=
  match left.tng? kl.1, right.tng? kl.2 with
  | some v, some w =>
    match Tng.connect v w with
    | .ok vw => cx.addVertex (kl.1.append kl.2) vw
    | .panic => .panic
    | .err => .err
  | _, _ => .panic

/-- `connect_vertices(left, right, i)` -/
def connectVertices (left right : Cx E) (i : Int) (new : Cx E) : Res (Cx E) :=
  foldRes (connectVertexStep left right) (collectKeys left right i) new

/-- the edges leaving the product vertex `(k0, l0)`: `D(f, 1)` for the edges `f` of `left` out of `k0`, and
`(−1)^{i0} D(1, f)` for the edges of `right` out of `l0`, with `i0 = weight(k0) − left.deg_shift.0` -/
def productEdges (ops : EdgeOps E) (left right : Cx E) (k0 l0 : TKey) (v0 w0 : Tng) : Res (List ((TKey × TKey) × E)) :=
  let neg : Bool := ((k0.weight : Int) - left.dh) % 2 != 0
  match mapMRes (fun (e : (TKey × TKey) × E) =>
      match ops.hcompL e.2 w0 with
      | .ok g => .ok ((k0.append l0, e.1.2.append l0), g)
      | .panic => .panic
      | .err => .err) (left.edges.filter (fun e => e.1.1 = k0)),
    mapMRes (fun (e : (TKey × TKey) × E) =>
      match ops.hcompR neg e.2 v0 with
      | .ok g => .ok ((k0.append l0, k0.append e.1.2), g)
      | .panic => .panic
      | .err => .err) (right.edges.filter (fun e => e.1.1 = l0)) with
  | .ok e1, .ok e2 => .ok (e1 ++ e2)
  | .err, _ => .err
  | _, .err => .err
  | _, _ => .panic

/-- `if this.contains_key(&l) && !f.is_zero() { this.add_edge(&k, &l, f) }` -/
def addProductEdge (ops : EdgeOps E) (cx : Cx E) (e : (TKey × TKey) × E) : Res (Cx E) :=
  if cx.hasKey e.1.2 && !ops.isZero e.2 then cx.addEdge ops e.1.1 e.1.2 e.2 else .ok cx

/-- body of `connect_edges` for one pair `(k0, l0)` -/
def connectEdgeStep (ops : EdgeOps E) (left right : Cx E) (cx : Cx E) (kl : TKey × TKey) : Res (Cx E) :=
  match left.tng? kl.1, right.tng? kl.2 with
  | some v0, some w0 =>
    match productEdges ops left right kl.1 kl.2 v0 w0 with
    | .ok es => foldRes (addProductEdge ops) es cx
    | .panic => .panic
    | .err => .err
  | _, _ => .panic

/-- `connect_edges(left, right, i)`: pairs whose product vertex exists; an edge is added when its target exists
and its label is not zero (`add_edge` asserts that it is new) -/
def connectEdges (ops : EdgeOps E) (left right : Cx E) (i : Int) (new : Cx E) : Res (Cx E) :=
  foldRes (connectEdgeStep ops left right)
    ((collectKeys left right i).filter (fun kl => new.hasKey (kl.1.append kl.2))) new

/-- `connect_init`: `assert!(self.base_pt.is_none() || other.base_pt.is_none() || self.base_pt == other.base_pt)` -/
def connectInit (left right : Cx E) : Res (Cx E) :=
  if left.base.isNone || right.base.isNone || left.base = right.base then
    .ok ⟨left.dh + right.dh, left.dq + right.dq, left.base.or right.base, left.dim + right.dim, [], []⟩
  else .panic

/-- `connect_vertices(i); connect_edges(i − 1)` -/
def connectDegStep (ops : EdgeOps E) (left right : Cx E) (cx : Cx E) (i : Int) : Res (Cx E) :=
  match connectVertices left right i cx with
  | .ok cx1 => connectEdges ops left right (i - 1) cx1
  | .panic => .panic
  | .err => .err

/-- `TngComplex::connect(other)`: `for i in new.h_range() { connect_vertices(i); connect_edges(i − 1) }` -/
def Cx.connect (ops : EdgeOps E) (left right : Cx E) : Res (Cx E) :=
  match connectInit left right with
  | .ok new0 => foldRes (connectDegStep ops left right) new0.hRange new0
  | .panic => .panic
  | .err => .err

/-- `is_completely_delooped` -/
def Cx.isCompletelyDelooped (cx : Cx E) : Bool := cx.verts.all (fun v => v.2.isEmpty)

end graph

/-! ### crossings -/

open Yuiv.KhRef (CT)

/-- `comp(i, j)` of `Crossing::arcs` -/
def arcOf (e : Array Nat) (i j : Nat) : Path :=
  let ei := e[i]!
  let ej := e[j]!
  if ei == ej then ⟨[ei], true⟩ else ⟨[ei, ej], false⟩

/-- `Crossing::arcs` -/
def crossingArcs (ct : CT) (e : Array Nat) : Path × Path :=
  match ct with
  | .X | .Xm => (arcOf e 0 2, arcOf e 1 3)
  | .V => (arcOf e 0 3, arcOf e 1 2)
  | .H => (arcOf e 0 1, arcOf e 2 3)

/-- `Tng::from_resolved` -/
def tngFromResolved (ct : CT) (e : Array Nat) : Res Tng :=
  if !ct.isResolved then .panic
  else
    let (c0, c1) := crossingArcs ct e
    if isConnectable c0 c1 then
      match c0.connect c1 with
      | .ok c => Tng.new [c]
      | .panic => .panic
      | .err => .err
    else Tng.new [c0, c1]

/-- `CobComp::sdl_from` -/
def sdlFrom (ct : CT) (e : Array Nat) : Res CobComp :=
  if ct.isResolved then .panic
  else
    match tngFromResolved (ct.resolve false) e, tngFromResolved (ct.resolve true) e with
    | .ok s, .ok t => CobComp.plain s t 0
    | .err, _ => .err
    | _, .err => .err
    | _, _ => .panic

/-- `TngComplex::make_x`: the two-vertex complex of a crossing (one vertex for a resolved one); `sdl` = the label
`LcCob::from(Cob::from(CobComp::sdl_from(x)))` built by the caller -/
def makeX {E : Type} (ops : EdgeOps E) (mkSdl : CobComp → E) (ct : CT) (e : Array Nat) : Res (Cx E) :=
  let c0 : Cx E := ⟨0, 0, none, 0, [], []⟩
  if ct.isResolved then
    match tngFromResolved ct e with
    | .ok t => c0.addVertex TKey.init t
    | .panic => .panic
    | .err => .err
  else
    match tngFromResolved (ct.resolve false) e, tngFromResolved (ct.resolve true) e with
    | .ok t0, .ok t1 =>
      let k0 : TKey := ⟨[false], []⟩
      let k1 : TKey := ⟨[true], []⟩
      match c0.addVertex k0 t0 with
      | .ok c1 =>
        match c1.addVertex k1 t1 with
        | .ok c2 =>
          match sdlFrom ct e with
          | .ok s =>
            match c2.addEdge ops k0 k1 (mkSdl s) with
            | .ok c3 => .ok { c3 with dim := 1 }
            | .panic => .panic
            | .err => .err
          | .panic => .panic
          | .err => .err
        | .panic => .panic
        | .err => .err
      | .panic => .panic
      | .err => .err
    | .err, _ => .err
    | _, .err => .err
    | _, _ => .panic

/-- `TngComplex::append(x)` = `connect(make_x(x))` -/
def Cx.appendX {E : Type} (ops : EdgeOps E) (mkSdl : CobComp → E) (cx : Cx E) (ct : CT) (e : Array Nat) : Res (Cx E) :=
  match makeX ops mkSdl ct e with
  | .ok x => cx.connect ops x
  | .panic => .panic
  | .err => .err

/-! ### the engine instance -/

section inst
variable {R : Type} [CoefU R]

/-- the edge operations of `TngComplex<R>` with parameters `(h, t)` -/
def lcOps (h t : R) : EdgeOps (LcCob R) where
  isZero f := f.isEmpty
  inv := lcInv
  cab c ainv b :=
    match lcMul c ainv with
    | .ok x =>
      match lcMul x b with
      | .ok y => lcPartEval h t y
      | .panic => .panic
      | .err => .err
    | .panic => .panic
    | .err => .err
  sub := lcSub
  neg := lcNeg
  capOff b circ dot f :=
    match lcCapOff b circ dot f with
    | .ok g => lcPartEval h t g
    | .panic => .panic
    | .err => .err
  hcompL f w :=
    match lcConnected f (Cob.idFor w) with
    | .ok g => lcPartEval h t g
    | .panic => .panic
    | .err => .err
  hcompR neg f v :=
    match lcConnected f (Cob.idFor v) with
    | .ok g => lcPartEval h t (lcSmul g (if neg then Coef.neg Coef.one else Coef.one))
    | .panic => .panic
    | .err => .err

/-- `LcCob::from(Cob::from(c))` -/
def mkSdlLc (c : CobComp) : LcCob R := lcSingle (Cob.new [c])

end inst

/-! ### from a completely delooped complex to chain groups and matrices (`into_raw_complex`) -/

structure ChainData (S : Type) where
  /-- least homological degree = `deg_shift.0` -/
  imin : Int
  /-- generators of degree `imin + p`: key and quantum degree -/
  gens : List (List (TKey × Int))
  /-- differential out of degree `imin + p`: (source key, target key, coefficient ≠ 0) -/
  d : List (List (TKey × TKey × S))

/-- `into_raw_complex`: `assert!(is_completely_delooped())`; summands over `h_range()` from `keys_of(i)`;
`d(x) = Σ (l, f.eval(h, t))` over the out-edges.  `evalE` = `LcCob::eval` (may panic). -/
def Cx.toChain {E S : Type} (evalE : E → Res S) (isZ : S → Bool) (cx : Cx E) : Res (ChainData S) :=
  if !cx.isCompletelyDelooped then .panic
  else
    let gens := cx.hRange.map (fun i => (cx.keysOf i).map (fun k => (k, cx.dq + k.qRel)))
    match mapMRes (fun (i : Int) =>
        mapMRes (fun (e : (TKey × TKey) × E) =>
          match evalE e.2 with
          | .ok v => .ok (e.1.1, e.1.2, v)
          | .panic => .panic
          | .err => .err) (cx.edges.filter (fun e => (e.1.1.weight : Int) + cx.dh == i))) cx.hRange with
    | .ok ds => .ok ⟨cx.dh, gens, ds.map (fun l => l.filter (fun x => !isZ x.2.2))⟩
    | .panic => .panic
    | .err => .err

/-! ### executable well-formedness check (the clause about tangles is evaluated per instance by the driver) -/

/-- every term of the label goes from the tangle `s` to the tangle `t` (`validate()`: `cob.src() == v.tng()`,
`cob.tgt() == w.tng()`), and no coefficient is zero -/
def lcBoundaryOk {R : Type} [CoefU R] (s t : Tng) (f : LcCob R) : Bool :=
  f.all (fun p =>
    !Coef.isZero p.2 &&
    (match Cob.src p.1 with | .ok x => tngEq x s | _ => false) &&
    (match Cob.tgt p.1 with | .ok x => tngEq x t | _ => false))

def distinctKeys : List TKey → Bool
  | [] => true
  | k :: ks => !ks.contains k && distinctKeys ks

def distinctPairs : List (TKey × TKey) → Bool
  | [] => true
  | k :: ks => !ks.contains k && distinctPairs ks

/-- the full invariant, executable: keys unique, edges unique, every edge joins existing vertices of consecutive
weight, no zero label, boundary tangles match -/
def Cx.wfCheck {R : Type} [CoefU R] (cx : Cx (LcCob R)) : Bool :=
  distinctKeys (cx.verts.map (·.1)) &&
  distinctPairs (cx.edges.map (·.1)) &&
  cx.edges.all (fun e =>
    match cx.tng? e.1.1, cx.tng? e.1.2 with
    | some s, some t => e.1.2.weight == e.1.1.weight + 1 && !e.2.isEmpty && lcBoundaryOk s t e.2
    | _, _ => false)

end Yuiv.C05.Engine
