import Yuiv.Model.C12
import Yuiv.Model.RustDense
/-
CSC primitives used by the definitions that `tools/rs2lean_fn.py` generates from `yui-matrix/src/sparse/triang.rs`
(target `fn:triang`) — hand-written, import-free apart from the hand model `Yuiv/Model/C12.lean` (representation and scalar
class `C12.Scal`) and `Yuiv/Model/RustDense.lean` (`Ctl`, `Loop.forRange`), TRUSTED.

`R` is a type `α` with `[C12.Scal α]`.  `SpMat<R>` is the model's CSC content `C12.SpMat α` (shape + per column the stored
`(row, value)` pairs in storage order, stored zeros allowed); `SpVec<R>` is `SVec α`: dimension + stored entries;
`Vec<R>` / `[R]` is a dense `Array α`.

  `b[i]`, `b[i] = v` ↦ `Buf.get`, `Buf.set`: PANIC on an index out of range (the model's `bget` / `bset` inside);
  `vec![x; n]` ↦ `Array.replicate n x`;
  `a.col_vec(j)` ↦ `SM.col_vec`: dimension `nrows`, the stored NON-ZERO pairs of column `j` (`SpVec::from_entries` drops
      zeros) = the model's `colVec` (no panic for `j ≥ ncols`: as in the model);
  `a.iter()` ↦ `SM.iter`: the triplets `(i, j, a)` column by column in storage order (nalgebra's `triplet_iter`);
  `a.is_triang(t)` ↦ the model's `isTriang`; `a.transpose()` ↦ the model's `transpose`; `SpMat::id(n)` ↦ the model's `idMat`;
  `SpVec::from_sorted_entries(dim, es)` ↦ `SVec.from_sorted_entries`: `assert!(i < dim)` for every entry;
  `SpMat::from_col_vecs(n, vs)` ↦ `SM.from_col_vecs`: `assert_eq!(n, v.dim())` for every column, columns = the entry lists
      (the `try_from_csc_data(..).unwrap()` check of sortedness is NOT modelled, as in the hand model);
  `v.iter()`, `v.dim()`, `v.to_dense()` ↦ the entries, the dimension, the model's `toDense`;
  `it.enumerate()` ↦ `Csc.enumerate`;
  `for x in list { … continue … }` ↦ `Loop.forList`; a lazily consumed `(lo..hi).map(|j| …)` whose closure updates a captured
      buffer and which is consumed completely, in order ↦ `Loop.mapRange` (sequential, state threaded).
-/
namespace Yuiv.Rust
open Yuiv Res

/-- `SpVec<R>`: dimension and stored `(index, value)` entries -/
structure SVec (α : Type) where
  dim : Nat
  ents : List (Nat × α)

namespace Buf
variable {α : Type} [C12.Scal α]
def get (b : Array α) (i : Nat) : Res α := if i < b.size then ok (C12.bget b i) else panic
def set (b : Array α) (i : Nat) (v : α) : Res (Array α) := if i < b.size then ok (C12.bset b i v) else panic
end Buf

namespace SM
variable {α : Type} [C12.Scal α]
abbrev nrows (A : C12.SpMat α) : Nat := A.nrows
abbrev ncols (A : C12.SpMat α) : Nat := A.ncols
abbrev shape (A : C12.SpMat α) : Nat × Nat := (A.nrows, A.ncols)
def col_vec (A : C12.SpMat α) (j : Nat) : SVec α := ⟨A.nrows, C12.colVec A j⟩
def iter (A : C12.SpMat α) : List (Nat × Nat × α) :=
  (List.range A.ncols).flatMap fun j => (C12.col A j).map fun e => (e.1, j, e.2)
def transpose (A : C12.SpMat α) : C12.SpMat α := C12.transpose A
def is_triang (A : C12.SpMat α) (upper : Bool) : Bool := C12.isTriang upper A
def id (n : Nat) : C12.SpMat α := C12.idMat n
def from_col_vecs (n : Nat) (vs : List (SVec α)) : Res (C12.SpMat α) :=
  if vs.all (fun v => v.dim == n) then ok ⟨n, vs.length, (vs.map (·.ents)).toArray⟩ else panic
end SM

namespace SVec
variable {α : Type} [C12.Scal α]
def iter (v : SVec α) : List (Nat × α) := v.ents
def to_dense (v : SVec α) : Array α := C12.toDense v.dim v.ents
def from_sorted_entries (dim : Nat) (es : List (Nat × α)) : Res (SVec α) :=
  if es.all (fun e => decide (e.1 < dim)) then ok ⟨dim, es⟩ else panic
end SVec

namespace Csc
def enumFrom {β : Type} : Nat → List β → List (Nat × β)
  | _, [] => []
  | k, x :: xs => (k, x) :: enumFrom (k + 1) xs
/-- `it.enumerate()` -/
def enumerate {β : Type} (l : List β) : List (Nat × β) := enumFrom 0 l
end Csc

namespace Loop
variable {σ β : Type}

/-- `for x in xs { body }` with `continue` / `break`: the final state and `true` when the loop ended normally -/
def forList (xs : List β) (f : β → σ → Res (Ctl σ)) (s : σ) : Res (σ × Bool) :=
  match xs with
  | [] => ok (s, true)
  | x :: xs => do
    match (← f x s) with
    | .next s' => forList xs f s'
    | .stop s' => ok (s', true)
    | .exit s' => ok (s', false)

def mapGo (f : Nat → σ → Res (σ × β)) : Nat → Nat → σ → Res (σ × List β)
  | 0, _, s => ok (s, [])
  | c + 1, k, s => do
    let (s1, x) ← f k s
    let (s2, xs) ← mapGo f c (k + 1) s1
    ok (s2, x :: xs)

/-- `(lo..hi).map(|j| body)` consumed completely and in order, the closure threading the state `s` -/
def mapRange (lo hi : Nat) (f : Nat → σ → Res (σ × β)) (s : σ) : Res (σ × List β) := mapGo f (hi - lo) lo s

end Loop

end Yuiv.Rust
