import Yuiv.Model.C12
import Yuiv.Model.RustDense
/-
CSC primitives used by the definitions that `tools/rs2lean_fn.py` generates from `yui-matrix/src/sparse/triang.rs`
(target `fn:triang`) — hand-written, import-free apart from the hand model `Yuiv/Model/C12.lean` (representation and scalar
class `C12.Scal`) and `Yuiv/Model/RustDense.lean` (`Ctl`, `Loop.forRange`), TRUSTED.

`R` is a type `α` with `[C12.Scal α]`.  `SpMat<R>` is the model's CSC content `C12.SpMat α` (shape + per column the stored
`(row, value)` pairs in storage order, stored zeros allowed); `SpVec<R>` is `SVec α`: dimension + stored entries;
`Vec<R>` / `[R]` is a dense `Array α`.

  `b[i]`, `b[i] = v` ↦ `Buf.get`, `Buf.set`: PANIC on an index out of range (the model's `bget` / `bset` inside);
  `vec![x; n]` ↦ `Array.replicate n x`;
  `a.col_vec(j)` ↦ `SM.col_vec`: dimension `nrows`, the stored NON-ZERO pairs of column `j` (`SpVec::from_entries` drops
      zeros) = the model's `colVec` (no panic for `j ≥ ncols`: as in the model);
  `a.iter()` ↦ `SM.iter`: the triplets `(i, j, a)` column by column in storage order (nalgebra's `triplet_iter`);
  `a.is_triang(t)` ↦ the model's `isTriang`; `a.transpose()` ↦ the model's `transpose`; `SpMat::id(n)` ↦ the model's `idMat`;
  `SpVec::from_sorted_entries(dim, es)` ↦ `SVec.from_sorted_entries`: `assert!(i < dim)` for every entry;
  `SpMat::from_col_vecs(n, vs)` ↦ `SM.from_col_vecs`: `assert_eq!(n, v.dim())` for every column, columns = the entry lists
      (the `try_from_csc_data(..).unwrap()` check of sortedness is NOT modelled, as in the hand model);
  `v.iter()`, `v.dim()`, `v.to_dense()` ↦ the entries, the dimension, the model's `toDense`;
  `it.enumerate()` ↦ `Csc.enumerate`;
  target `fn:schur`: see the second half of `namespace SM` (`divide4`, `neg`, `stack`, `extend_cols`, `solve_triangular*`,
      `from_entries`, `mul_vec`, `Tr.new`) and `SVec.sub`;
  `for x in list { … continue … }` ↦ `Loop.forList`; a lazily consumed `(lo..hi).map(|j| …)` whose closure updates a captured
      buffer and which is consumed completely, in order ↦ `Loop.mapRange` (sequential, state threaded).
-/
namespace Yuiv.Rust
open Yuiv Res

/-- `SpVec<R>`: dimension and stored `(index, value)` entries -/
structure SVec (α : Type) where
  dim : Nat
  ents : List (Nat × α)

namespace Buf
variable {α : Type} [C12.Scal α]
def get (b : Array α) (i : Nat) : Res α := if i < b.size then ok (C12.bget b i) else panic
def set (b : Array α) (i : Nat) (v : α) : Res (Array α) := if i < b.size then ok (C12.bset b i v) else panic
end Buf

namespace SM
variable {α : Type} [C12.Scal α]
abbrev nrows (A : C12.SpMat α) : Nat := A.nrows
abbrev ncols (A : C12.SpMat α) : Nat := A.ncols
abbrev shape (A : C12.SpMat α) : Nat × Nat := (A.nrows, A.ncols)
def col_vec (A : C12.SpMat α) (j : Nat) : SVec α := ⟨A.nrows, C12.colVec A j⟩
def iter (A : C12.SpMat α) : List (Nat × Nat × α) :=
  (List.range A.ncols).flatMap fun j => (C12.col A j).map fun e => (e.1, j, e.2)
def transpose (A : C12.SpMat α) : C12.SpMat α := C12.transpose A
def is_triang (A : C12.SpMat α) (upper : Bool) : Bool := C12.isTriang upper A
def id (n : Nat) : C12.SpMat α := C12.idMat n
def from_col_vecs (n : Nat) (vs : List (SVec α)) : Res (C12.SpMat α) :=
  if vs.all (fun v => v.dim == n) then ok ⟨n, vs.length, (vs.map (·.ents)).toArray⟩ else panic

/-! #### target `fn:schur` (schur.rs): the functions of other files, by the value the hand model `C12` gives them -/

/-- `a.divide4((k, l))`: `assert!(k <= m); assert!(l <= n)`, then the model's four blocks -/
def divide4 (A : C12.SpMat α) (p : Nat × Nat) : Res (C12.SpMat α × C12.SpMat α × C12.SpMat α × C12.SpMat α) :=
  if p.1 ≤ A.nrows ∧ p.2 ≤ A.ncols then ok (C12.divide4 A p.1 p.2) else panic
/-- `-m` -/
def neg (A : C12.SpMat α) : C12.SpMat α := C12.negMat A
/-- `m.is_zero()`: all stored values are zero -/
def is_zero (A : C12.SpMat α) : Bool := A.cols.all fun c => c.all fun e => C12.isZero e.2
/-- `a.stack(b)`: `combine_blocks` asserts equal column counts -/
def stack (A B : C12.SpMat α) : Res (C12.SpMat α) := if A.ncols = B.ncols then ok (C12.stack A B) else panic
/-- `a.extend_cols(b)` -/
def extend_cols (A B : C12.SpMat α) : Res (C12.SpMat α) := C12.extendCols A B
/-- `solve_triangular(t, a, y)` / `solve_triangular_left` (triang.rs, tied to the model by `fn:triang`); `t` is `is_upper` -/
def solve_triangular (upper : Bool) (A Y : C12.SpMat α) : Res (C12.SpMat α) := C12.solve upper A Y
def solve_triangular_left (upper : Bool) (A Y : C12.SpMat α) : Res (C12.SpMat α) := C12.solveLeft upper A Y
/-- `SpMat::from_entries(shape, entries)` for entries given column by column with distinct positions: every entry must lie
inside the shape (`CooMatrix::push`); zero values are dropped; column `j` keeps its entries in the given order -/
def from_entries (shape : Nat × Nat) (es : List (Nat × Nat × α)) : Res (C12.SpMat α) :=
  if es.all (fun t => C12.isZero t.2.2 || (decide (t.1 < shape.1) && decide (t.2.1 < shape.2))) then
    ok ⟨shape.1, shape.2, ((List.range shape.2).map fun j =>
      (es.filter fun t => t.2.1 == j && !C12.isZero t.2.2).map fun t => (t.1, t.2.2)).toArray⟩
  else panic
/-- `&c * v` (sparse matrix × sparse vector), by value: row `i` holds the model's `mulVecAt` -/
def mul_vec (C : C12.SpMat α) (v : SVec α) : SVec α :=
  ⟨C.nrows, (List.range C.nrows).map fun i => (i, C12.mulVecAt C v.ents i)⟩
/-- `Trans<R>` as the pair of its two factors; `Trans::new(f, b)` keeps the shape assertions of `Trans::append` -/
abbrev TrPair (α : Type) := C12.SpMat α × C12.SpMat α
def Tr.new (f b : C12.SpMat α) : Res (TrPair α) :=
  if f.ncols = b.nrows ∧ f.nrows = b.ncols then ok (f, b) else panic
end SM

namespace SVec
variable {α : Type} [C12.Scal α]
def iter (v : SVec α) : List (Nat × α) := v.ents
def to_dense (v : SVec α) : Array α := C12.toDense v.dim v.ents
def from_sorted_entries (dim : Nat) (es : List (Nat × α)) : Res (SVec α) :=
  if es.all (fun e => decide (e.1 < dim)) then ok ⟨dim, es⟩ else panic
/-- first stored value at index `i` (`zero` when none) -/
def valAt (v : SVec α) (i : Nat) : α := match v.ents.find? (fun e => e.1 == i) with
  | some e => e.2
  | none => C12.zero
/-- `y - x` (sparse vectors), by value: row `i` holds `y_i - x_i` (as `C12.computeSchur` stores it) -/
def sub (y x : SVec α) : SVec α :=
  ⟨y.dim, (List.range y.dim).map fun i => (i, C12.sub (C12.colSum y.ents i) (x.valAt i))⟩
end SVec

namespace Csc
def enumFrom {β : Type} : Nat → List β → List (Nat × β)
  | _, [] => []
  | k, x :: xs => (k, x) :: enumFrom (k + 1) xs
/-- `it.enumerate()` -/
def enumerate {β : Type} (l : List β) : List (Nat × β) := enumFrom 0 l
end Csc

namespace Loop
variable {σ β : Type}

/-- `for x in xs { body }` with `continue` / `break`: the final state and `true` when the loop ended normally -/
def forList (xs : List β) (f : β → σ → Res (Ctl σ)) (s : σ) : Res (σ × Bool) :=
  match xs with
  | [] => ok (s, true)
  | x :: xs => do
    match (← f x s) with
    | .next s' => forList xs f s'
    | .stop s' => ok (s', true)
    | .exit s' => ok (s', false)

def mapGo (f : Nat → σ → Res (σ × β)) : Nat → Nat → σ → Res (σ × List β)
  | 0, _, s => ok (s, [])
  | c + 1, k, s => do
    let (s1, x) ← f k s
    let (s2, xs) ← mapGo f c (k + 1) s1
    ok (s2, x :: xs)

/-- `(lo..hi).map(|j| body)` consumed completely and in order, the closure threading the state `s` -/
def mapRange (lo hi : Nat) (f : Nat → σ → Res (σ × β)) (s : σ) : Res (σ × List β) := mapGo f (hi - lo) lo s

end Loop

end Yuiv.Rust
