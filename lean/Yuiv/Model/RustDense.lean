import Yuiv.Model.C09
/-
Dense-matrix primitives and control-flow combinators used by the definitions that `tools/rs2lean_fn.py` generates from
`yui-matrix/src/dense/snf.rs` (target `fn:snf`) — hand-written, import-free apart from `Yuiv/Model/C09.lean`, TRUSTED.

The generic ring `R: EucRing` of `SnfCalc<R>` is a type `α` with an explicit record `e : C09.EOps α` of its operations
(`a * b` ↦ `e.mul a b`, `a - b` ↦ `e.sub a b`, `-a` ↦ `e.neg a`, `a / b` ↦ `e.quo a b`, `a % b` ↦ `e.rem a b`,
`is_zero/is_one/is_unit/normalizing_unit/inv/divides` ↦ `e.isZero/isOne/isUnit/normUnit/inv/dvd`, `EucRing::gcdx` ↦
`e.gcdx`, `R::zero()/one()` ↦ `e.zero/e.one`; `/` and `%` are TOTAL there, as in the hand model).

`Mat<R>` is the statically sized `C09.Mat α r c`; the sizes of the five matrices of `SnfCalc` (`target : m×n`,
`p, pinv : m×m`, `q, qinv : n×n`) are configuration of the target.  `usize` is an unbounded `Nat` (`+` total, `-` panics
on underflow).  Every primitive takes `Nat` indices and panics when an index is out of range (as nalgebra does); in
range it is the primitive of the hand model:

  `A[(i, j)]` ↦ `get`;  `swap_rows/swap_cols/mul_row/mul_col/left_elementary/right_elementary` ↦ the functions of the
  same name (an array `[&R; 4]` is a 4-tuple);  `A.inner().row(i)` / `.column(j)` ↦ the list of the entries;
  `nrows/ncols/shape/is_zero/is_diag` ↦ `r`, `c`, `(r, c)`, `C09.isZeroMat`, `C09.isDiag`.

`for k in lo..hi { body }` ↦ `Loop.forRange lo hi body state`: `body k state` returns `Ctl.next` (end of the body,
`continue`), `Ctl.stop` (`break`) or `Ctl.exit` (a jump out of the loop to an enclosing labelled loop).
Iterator chains over a range are lists: `(lo..hi)` ↦ `List.range' lo (hi - lo)`, `filter`/`map` with closures that may
panic ↦ `Iter.filterM` / `Iter.mapM`, `min_by` ↦ the FIRST minimal element, `next` ↦ `head?`, `count` ↦ `length`.
-/
namespace Yuiv.Rust
open Yuiv Res Yuiv.C09

namespace Dense
variable {α : Type} {m n : Nat}

def get (A : Mat α m n) (i j : Nat) : Res α :=
  if h : i < m ∧ j < n then ok (A.get ⟨i, h.1⟩ ⟨j, h.2⟩) else panic
def swap_rows (A : Mat α m n) (i j : Nat) : Res (Mat α m n) :=
  if h : i < m ∧ j < m then ok (swapRows A ⟨i, h.1⟩ ⟨j, h.2⟩) else panic
def swap_cols (A : Mat α m n) (i j : Nat) : Res (Mat α m n) :=
  if h : i < n ∧ j < n then ok (swapCols A ⟨i, h.1⟩ ⟨j, h.2⟩) else panic
def mul_row (e : EOps α) (A : Mat α m n) (i : Nat) (u : α) : Res (Mat α m n) :=
  if h : i < m then ok (mulRow e.toROps A ⟨i, h⟩ u) else panic
def mul_col (e : EOps α) (A : Mat α m n) (j : Nat) (u : α) : Res (Mat α m n) :=
  if h : j < n then ok (mulCol e.toROps A ⟨j, h⟩ u) else panic
def left_elementary (e : EOps α) (A : Mat α m n) (c : α × α × α × α) (i j : Nat) : Res (Mat α m n) :=
  if h : i < m ∧ j < m then ok (leftElem e.toROps A c.1 c.2.1 c.2.2.1 c.2.2.2 ⟨i, h.1⟩ ⟨j, h.2⟩) else panic
def right_elementary (e : EOps α) (A : Mat α m n) (c : α × α × α × α) (i j : Nat) : Res (Mat α m n) :=
  if h : i < n ∧ j < n then ok (rightElem e.toROps A c.1 c.2.1 c.2.2.1 c.2.2.2 ⟨i, h.1⟩ ⟨j, h.2⟩) else panic
def row (A : Mat α m n) (i : Nat) : Res (List α) :=
  if h : i < m then ok ((List.finRange n).map fun j => A.get ⟨i, h⟩ j) else panic
def column (A : Mat α m n) (j : Nat) : Res (List α) :=
  if h : j < n then ok ((List.finRange m).map fun i => A.get i ⟨j, h⟩) else panic

end Dense

/-- how the body of a `for` loop ends -/
inductive Ctl (σ : Type) where
  | next (s : σ)
  | stop (s : σ)
  | exit (s : σ)

namespace Loop
variable {σ : Type}

def forGo (f : Nat → σ → Res (Ctl σ)) : Nat → Nat → σ → Res (σ × Bool)
  | 0, _, s => ok (s, true)
  | c + 1, k, s => do
    match (← f k s) with
    | .next s' => forGo f c (k + 1) s'
    | .stop s' => ok (s', true)
    | .exit s' => ok (s', false)

/-- `for k in lo..hi`: the final state and `true` when the loop ended normally (`false`: left by a jump to an outer label) -/
def forRange (lo hi : Nat) (f : Nat → σ → Res (Ctl σ)) (s : σ) : Res (σ × Bool) := forGo f (hi - lo) lo s

end Loop

namespace Iter
variable {α β : Type}

def filterM (p : α → Res Bool) : List α → Res (List α)
  | [] => ok []
  | x :: xs => do
    let b ← p x
    let ys ← filterM p xs
    ok (if b then x :: ys else ys)

def mapM (f : α → Res β) : List α → Res (List β)
  | [] => ok []
  | x :: xs => do
    let y ← f x
    let ys ← mapM f xs
    ok (y :: ys)

/-- `min_by(cmp)`: the first element that no later element is strictly smaller than -/
def minBy (cmp : α → α → Ordering) : List α → Option α
  | [] => none
  | x :: xs => some (xs.foldl (fun best y => if cmp best y == .gt then y else best) x)

end Iter

namespace Opt
def unwrap_or {α : Type} (o : Option α) (d : α) : α := o.getD d
end Opt

end Yuiv.Rust
