/-
Code model for C03: how the bigraded table is derived from the total (singly graded) homology —
`yui-khovanov/src/misc.rs:collect_gen_info` + `KhHomology::into_bigraded` — and the universal-coefficient
bookkeeping the property states.

A homology group in homological degree `i` is reported with `rank` free generators followed by
`tors.length` torsion generators; generator `k` has a representative chain whose terms have quantum
degrees `qs k`; `KhChainExt::q_deg` of a chain is the MINIMUM of these (0 for the empty chain).
-/
namespace Yuiv.C03

/-- one reported generator: `none` = free, `some a` = torsion of order `a`; `qs` = q-degrees of its terms -/
structure GenInfo where
  order : Option Int
  qs : List Int
deriving Repr, DecidableEq

/-- `KhChainExt::q_deg`: minimum over the terms, `0` for the zero chain -/
def qDeg (qs : List Int) : Int :=
  match qs with
  | [] => 0
  | q :: rest => rest.foldl min q

structure Cell where
  rank : Nat
  tors : List Int
deriving Repr, DecidableEq, Inhabited

abbrev Table := List ((Int × Int) × Cell)

def Table.get (t : Table) (k : Int × Int) : Cell :=
  match t.find? (fun e => e.1 == k) with
  | some e => e.2
  | none => ⟨0, []⟩

def Table.bump (t : Table) (k : Int × Int) (f : Cell → Cell) : Table :=
  if t.any (fun e => e.1 == k) then t.map (fun e => if e.1 == k then (e.1, f e.2) else e)
  else t ++ [(k, f ⟨0, []⟩)]

/-- `collect_gen_info` for one homological degree `i` -/
def collectAt (i : Int) (gens : List GenInfo) (t : Table) : Table :=
  gens.foldl (fun t g =>
    t.bump (i, qDeg g.qs) (fun c => match g.order with
      | none => ⟨c.rank + 1, c.tors⟩
      | some a => ⟨c.rank, c.tors ++ [a]⟩)) t

/-- `collect_gen_info`: the bigraded table derived from the total homology -/
def collect (h : List (Int × List GenInfo)) : Table :=
  h.foldl (fun t ig => collectAt ig.1 ig.2 t) []

/-- the table obtained by placing every generator in the bidegree given by `place` (used with the true
bidegree of a homogeneous generator) -/
def placeAll (h : List (Int × List GenInfo)) (place : GenInfo → Int) : Table :=
  h.foldl (fun t ig => ig.2.foldl (fun t g =>
    t.bump (ig.1, place g) (fun c => match g.order with
      | none => ⟨c.rank + 1, c.tors⟩
      | some a => ⟨c.rank, c.tors ++ [a]⟩)) t) []

/-- universal coefficients, as the property states it: dimension over 𝔽_p in bidegree (i,j) -/
def dimFp (p : Int) (z : Table) (i j : Int) : Nat :=
  (z.get (i, j)).rank
    + ((z.get (i, j)).tors.filter (fun a => a % p == 0)).length
    + ((z.get (i + 1, j)).tors.filter (fun a => a % p == 0)).length

/-! a diagonal two-term complex `ℤⁿ --diag(a)--> ℤⁿ` in homological degrees 0 → 1 -/

/-- integral homology of `diag(a)`: H⁰ free of rank #{aₖ = 0}; H¹ = ⊕ ℤ/aₖ (units dropped, zeros free) -/
def diagHomologyZ (a : List Int) : Cell × Cell :=
  (⟨(a.filter (· == 0)).length, []⟩,
   ⟨(a.filter (· == 0)).length, (a.filter (fun x => x != 0 ∧ x.natAbs != 1))⟩)

/-- rank of `diag(a)` over 𝔽_p = #{k : p ∤ aₖ}; so dim H⁰ = dim H¹ = #{k : p ∣ aₖ} -/
def diagDimFp (p : Int) (a : List Int) : Nat := (a.filter (fun x => x % p == 0)).length

end Yuiv.C03
